import Mdsort.Proofs.EvalAtt

/-!
# `C03_eval_refines_spec_wide` / `C03_eval_refines_spec` as corollaries of `C03_eval_refines_spec_att_wide`

On a tree without attachment nodes (`wfTree`) the grammar shape `parseRuleAW` recognises is the one
`parseRuleW` recognises, `evalRulesA` on the message itself computes what `evalRules` computes (every
action tagged with part 0, `leaks` never set), and `InDomain` implies `InDomainA`.  The shape with
`pass` / `break` last (`parseRule`) is a special case of `parseRuleW` (`parseBlockW_of_parseBlock`).
-/

namespace Mdsort.Proofs
open Mdsort Mdsort.Model Mdsort.Spec

/-! ## the domain -/

theorem att_dom_of_wfTree : ∀ (e : Expr), wfTree e = true → ∀ L : Nat,
    wfTreeA false e = true ∧ maxSubdirA e = maxSubdir e ∧ movesFitA L e = movesFit L e ∧
      flagsKeepSeenA e = flagsKeepSeen e := by
  intro e
  induction e with
  | block _ e ih =>
    intro h L
    simp only [wfTree] at h
    simpa [wfTreeA, maxSubdirA, maxSubdir, movesFitA, movesFit, flagsKeepSeenA, flagsKeepSeen] using ih h L
  | neg _ e ih =>
    intro h L
    simp only [wfTree] at h
    simpa [wfTreeA, maxSubdirA, maxSubdir, movesFitA, movesFit, flagsKeepSeenA, flagsKeepSeen] using ih h L
  | and _ l r ihl ihr =>
    intro h L
    simp only [wfTree, Bool.and_eq_true] at h
    obtain ⟨a1, a2, a3, a4⟩ := ihl h.1 L
    obtain ⟨b1, b2, b3, b4⟩ := ihr h.2 L
    simp [wfTreeA, maxSubdirA, maxSubdir, movesFitA, movesFit, flagsKeepSeenA, flagsKeepSeen, a1, a2, a3, a4, b1, b2,
      b3, b4]
  | or _ l r ihl ihr =>
    intro h L
    simp only [wfTree, Bool.and_eq_true] at h
    obtain ⟨a1, a2, a3, a4⟩ := ihl h.1 L
    obtain ⟨b1, b2, b3, b4⟩ := ihr h.2 L
    simp [wfTreeA, maxSubdirA, maxSubdir, movesFitA, movesFit, flagsKeepSeenA, flagsKeepSeen, a1, a2, a3, a4, b1, b2,
      b3, b4]
  | mtch _ l r ihl ihr =>
    intro h L
    simp only [wfTree, Bool.and_eq_true] at h
    obtain ⟨a1, a2, a3, a4⟩ := ihl h.1 L
    obtain ⟨b1, b2, b3, b4⟩ := ihr h.2 L
    simp [wfTreeA, maxSubdirA, maxSubdir, movesFitA, movesFit, flagsKeepSeenA, flagsKeepSeen, a1, a2, a3, a4, b1, b2,
      b3, b4]
  | attachment _ c _ => intro h; simp [wfTree] at h
  | attBlock _ c _ => intro h; simp [wfTree] at h
  | _ =>
    intro h L
    simp_all [wfTree, wfTreeA, maxSubdirA, maxSubdir, movesFitA, movesFit, flagsKeepSeenA, flagsKeepSeen]

theorem att_wfTree_of_inDomain {env : Env} {e : Expr} (h : InDomain env e = true) : wfTree e = true := by
  unfold InDomain at h
  simp only [Bool.and_eq_true] at h
  exact h.1.1

theorem att_inDomainA_of_inDomain {env : Env} {e : Expr} (h : InDomain env e = true) : InDomainA env e = true := by
  have hw := att_wfTree_of_inDomain h
  have hd := att_dom_of_wfTree e hw
  have hmf : ∀ L, movesFitA L e = movesFit L e := fun L => (hd L).2.2.1
  unfold InDomain at h
  unfold InDomainA
  rw [(hd 0).1, (hd 0).2.2.2, (hd 0).2.1]
  cases hm : pathslice env.path PATH_MAX 0 (-2) with
  | none => simp [hm] at h
  | some m0 =>
    cases hs : pathslice env.path NAME_MAX1 (-2) (-2) with
    | none => simp [hm, hs] at h
    | some s0 =>
      simp only [hm, hs, hw] at h ⊢
      simp only [hmf]
      exact h

theorem att_wfTree_orChain : ∀ (e : Expr), wfTree e = true → ∀ x ∈ orChain e, wfTree x = true := by
  intro e
  induction e with
  | or lno l r ihl _ =>
    intro h x hx
    rw [orChain] at hx
    simp only [wfTree, Bool.and_eq_true] at h
    rcases List.mem_append.1 hx with hx | hx
    · exact ihl h.1 x hx
    · simp only [List.mem_singleton] at hx; rw [hx]; exact h.2
  | _ =>
    intro h x hx
    simp only [orChain, List.mem_singleton] at hx
    rw [hx]; exact h

/-! ## the shape -/

theorem att_parseActA_plain {a : Expr} (h : isActionExpr a = true) : parseActAW a = some (.plain a) := by
  cases a <;> simp [isActionExpr] at h <;> simp [parseActAW, isActionExpr]

theorem att_isCtl_of_action {a : Expr} (h : isActionExpr a = true) : isCtlExpr a = Option.none := by
  cases a <;> simp [isActionExpr] at h <;> rfl

/-- The items of a list whose non-control elements are plain actions. -/
theorem att_parseItems_plain : ∀ (xs : List Expr),
    (∀ a ∈ xs.filter (fun x => (isCtlExpr x).isNone), isActionExpr a = true) →
    att_parseItems xs = some ((xs.filter fun x => (isCtlExpr x).isNone).map ActA.plain) := by
  intro xs
  induction xs with
  | nil => intro _; rfl
  | cons x xs ih =>
    intro h
    by_cases hx : (isCtlExpr x).isSome = true
    · have hn : (isCtlExpr x).isNone = false := by
        cases hh : isCtlExpr x <;> simp [hh] at hx ⊢
      simp only [att_parseItems, hx, if_true, List.filter_cons, hn, Bool.false_eq_true, if_false]
      exact ih (by simpa [List.filter_cons, hn] using h)
    · have hn : (isCtlExpr x).isNone = true := by
        cases hh : isCtlExpr x <;> simp [hh] at hx ⊢
      have hax : isActionExpr x = true := h x (by simp [hn])
      have hrest := ih (fun a ha => h a (by simp only [List.filter_cons, hn, if_true]; exact List.mem_cons_of_mem _ ha))
      simp only [att_parseItems, hx, Bool.false_eq_true, if_false, att_parseActA_plain hax, hrest, List.filter_cons, hn,
        if_true, List.map_cons]

/-- A rule with actions that `parseRuleW` accepts is accepted by `parseRuleAW`, with the same
condition, the same actions and the same control. -/
theorem att_parseRuleA_acts (lno : Nat) (c rhs : Expr) (as : List Expr) (ctl : Ctl) (hc : isCond c = true)
    (hnb : ∀ l e, rhs ≠ .block l e) (hsp : splitActsW (andChain rhs) = some (as, ctl)) :
    parseRuleAW (.mtch lno c rhs) = some (.acts lno c (as.map ActA.plain) ctl) := by
  rw [parseRuleAW_acts_eq lno c rhs hc hnb]
  unfold splitActsW at hsp
  cases hctl : ctlOfList (andChain rhs) with
  | none => simp [hctl] at hsp
  | some ctl' =>
    simp only [hctl] at hsp
    split at hsp
    · rename_i hcond
      simp only [Option.some.injEq, Prod.mk.injEq] at hsp
      obtain ⟨rfl, rfl⟩ := hsp
      simp only [Bool.and_eq_true, List.all_eq_true] at hcond
      rw [att_parseItems_plain _ hcond.2]
    · cases hsp

def parseAllW : List Expr → Option (List Rule)
  | [] => some []
  | x :: xs =>
    match parseRuleW x, parseAllW xs with
    | some r, some rs => some (r :: rs)
    | _, _ => Option.none

theorem parseAllW_snoc : ∀ (xs : List Expr) (rs : List Rule) (x : Expr) (r : Rule),
    parseAllW xs = some rs → parseRuleW x = some r → parseAllW (xs ++ [x]) = some (rs ++ [r]) := by
  intro xs
  induction xs with
  | nil =>
    intro rs x r h hx
    simp only [parseAllW, Option.some.injEq] at h
    subst h
    simp [parseAllW, hx]
  | cons y ys ih =>
    intro rs x r h hx
    simp only [parseAllW] at h
    cases hy : parseRuleW y with
    | none => simp [hy] at h
    | some ry =>
      cases hys : parseAllW ys with
      | none => simp [hy, hys] at h
      | some rys =>
        simp only [hy, hys, Option.some.injEq] at h
        subst h
        simp [parseAllW, hy, ih rys x r hys hx]

theorem parseRulesW_orChain : ∀ (e : Expr) (rs : List Rule), parseRulesW e = some rs → parseAllW (orChain e) = some rs := by
  intro e
  induction e with
  | or lno l r ihl _ =>
    intro rs h
    rw [parseRulesW] at h
    cases hl : parseRulesW l with
    | none => simp [hl] at h
    | some ls =>
      cases hr : parseRuleW r with
      | none => simp [hl, hr] at h
      | some x =>
        simp only [hl, hr, Option.some.injEq] at h
        subst h
        rw [orChain]
        exact parseAllW_snoc _ _ _ _ (ihl ls hl) hr
  | _ =>
    intro rs h
    simp only [parseRulesW, Option.map_eq_some_iff] at h
    obtain ⟨x, hx, rfl⟩ := h
    simp [orChain, parseAllW, hx]

/-- The two shapes of a rule (`pass` / `break` anywhere). -/
theorem parseRuleW_spec {x : Expr} {r : Rule} (h : parseRuleW x = some r) :
    (∃ lno c rhs as ctl, x = .mtch lno c rhs ∧ r = .acts lno c as ctl ∧ isCond c = true ∧
      (∀ l e, rhs ≠ .block l e) ∧ splitActsW (andChain rhs) = some (as, ctl)) ∨
    (∃ lno c l e rs, x = .mtch lno c (.block l e) ∧ r = .blk lno c rs ∧ isCond c = true ∧ parseRulesW e = some rs) := by
  cases x with
  | mtch lno c rhs =>
    by_cases hb : ∃ l e, rhs = .block l e
    · obtain ⟨l, e, rfl⟩ := hb
      right
      rw [parseRuleW] at h
      by_cases hc : isCond c = true
      · simp only [hc, Bool.not_true, Bool.false_eq_true, if_false, Option.map_eq_some_iff] at h
        obtain ⟨rs, h1, h2⟩ := h
        exact ⟨lno, c, l, e, rs, rfl, h2.symm, hc, h1⟩
      · simp [hc] at h
    · left
      have hb' : ∀ l e, rhs ≠ .block l e := fun l e he => hb ⟨l, e, he⟩
      rw [parseRuleW.eq_2 _ _ _ (fun l e he => hb' l e he)] at h
      by_cases hc : isCond c = true
      · simp only [hc, Bool.not_true, Bool.false_eq_true, if_false, Option.map_eq_some_iff] at h
        obtain ⟨⟨as, ctl⟩, h1, h2⟩ := h
        exact ⟨lno, c, rhs, as, ctl, rfl, h2.symm, hc, hb', h1⟩
      · simp [hc] at h
  | _ => simp [parseRuleW] at h

theorem att_parseAllA_snoc_inv : ∀ (xs : List Expr) (x : Expr) (rs : List RuleA),
    att_parseAllA (xs ++ [x]) = some rs →
    ∃ rs0 r0, att_parseAllA xs = some rs0 ∧ parseRuleAW x = some r0 ∧ rs = rs0 ++ [r0] := by
  intro xs
  induction xs with
  | nil =>
    intro x rs h
    simp only [List.nil_append, att_parseAllA] at h
    cases hx : parseRuleAW x with
    | none => simp [hx] at h
    | some r0 =>
      simp only [hx, Option.some.injEq] at h
      exact ⟨[], r0, rfl, rfl, by simp [← h]⟩
  | cons y ys ih =>
    intro x rs h
    simp only [List.cons_append, att_parseAllA] at h
    cases hy : parseRuleAW y with
    | none => simp [hy] at h
    | some ry =>
      cases hys : att_parseAllA (ys ++ [x]) with
      | none => simp [hy, hys] at h
      | some rys =>
        simp only [hy, hys, Option.some.injEq] at h
        obtain ⟨rs0, r0, h1, h2, h3⟩ := ih x rys hys
        exact ⟨ry :: rs0, r0, by simp [att_parseAllA, hy, h1], h2, by simp [← h, h3]⟩

/-- Converse of `att_parseRulesA_orChain`. -/
theorem att_parseRulesA_of_orChain : ∀ (e : Expr) (rs : List RuleA), att_parseAllA (orChain e) = some rs →
    parseRulesAW e = some rs := by
  intro e
  induction e with
  | or lno l r ihl _ =>
    intro rs h
    rw [orChain] at h
    obtain ⟨rs0, r0, h1, h2, h3⟩ := att_parseAllA_snoc_inv _ _ _ h
    rw [parseRulesAW, ihl rs0 h1, h2, h3]
  | _ =>
    intro rs h
    simp only [orChain, att_parseAllA] at h
    split at h
    · rename_i r0 rs0 hr hn
      simp only [Option.some.injEq] at hn h
      subst hn
      simp [parseRulesAW, hr, ← h]
    · cases h

/-! ## the evaluation -/

/-- Conditions without `attachment` nodes: `condValA` is `condVal` of the valuation on that part. -/
theorem att_condValA_eq {α : Type} (cx : PartCtx α) (k : Nat) (m : α) : ∀ (c : Expr), wfTree c = true →
    condValA cx c k m = condVal (cx.v k m) c := by
  intro c
  induction c with
  | and _ l r ihl ihr =>
    intro h
    simp only [wfTree, Bool.and_eq_true] at h
    simp only [condValA, condVal, ihl h.1, ihr h.2]
    cases condVal (cx.v k m) l <;> rfl
  | or _ l r ihl ihr =>
    intro h
    simp only [wfTree, Bool.and_eq_true] at h
    simp only [condValA, condVal, ihl h.1, ihr h.2]
    cases condVal (cx.v k m) l <;> rfl
  | neg _ e ih =>
    intro h
    simp only [wfTree] at h
    simp only [condValA, condVal, ih h]
    cases condVal (cx.v k m) e <;> rfl
  | attachment _ c _ => intro h; simp [wfTree] at h
  | _ => intro _; simp only [condValA, condVal]

/-- Tag every action with part 0. -/
def att_tag0 (as : List Expr) : List (Nat × Expr) := as.map fun a => (0, a)

def RunRel (run : Run) (runA : RunA) : Prop :=
  runA.pend = att_tag0 run.pend ∧ runA.crosses = run.crosses ∧ runA.leaks = false

def ResRel (o : BRes × Run) (oA : BRes × RunA) : Prop :=
  oA.1 = o.1 ∧ oA.2.crosses = o.2.crosses ∧ oA.2.leaks = false ∧ (o.1 ≠ .err → oA.2.pend = att_tag0 o.2.pend)

theorem RunRel.length {run : Run} {runA : RunA} (h : RunRel run runA) : runA.pend.length = run.pend.length := by
  rw [h.1, att_tag0, List.length_map]

theorem att_bridge {α : Type} (cx : PartCtx α) (aerr : Expr → Bool) (root : α) (n : Nat) :
    ∀ (rs : List Rule), sizeOf rs < n → ∀ (es : List Expr), parseAllW es = some rs → (∀ x ∈ es, wfTree x = true) →
    ∃ rsA, att_parseAllA es = some rsA ∧
      ∀ (nested outerPass : Bool) (start : Nat) (passSeen : Bool) (run : Run) (runA : RunA), RunRel run runA →
        ResRel (evalRules (cx.v 0 root) aerr nested outerPass start rs passSeen run)
          (evalRulesA cx aerr nested outerPass start 0 root rsA passSeen runA) := by
  induction n with
  | zero => intro rs h; omega
  | succ n ih =>
    intro rs hsz es hpa hwf
    cases rs with
    | nil =>
      have hes : es = [] := by
        cases es with
        | nil => rfl
        | cons x xs =>
          simp only [parseAllW] at hpa
          cases h1 : parseRuleW x <;> cases h2 : parseAllW xs <;> simp [h1, h2] at hpa
      subst hes
      refine ⟨[], rfl, ?_⟩
      intro nested outerPass start passSeen run runA hrel
      rw [evalRules, evalRulesA]
      refine ⟨?_, ?_, hrel.2.2, fun _ => hrel.1⟩
      · simp only [hrel.length]
      · simp only [hrel.length, hrel.2.1]
    | cons r rest =>
      have hrest : sizeOf rest < n := by
        simp only [List.cons.sizeOf_spec] at hsz; omega
      cases es with
      | nil => simp [parseAllW] at hpa
      | cons x xs =>
        simp only [parseAllW] at hpa
        cases hx : parseRuleW x with
        | none => simp [hx] at hpa
        | some r' =>
          cases hxs : parseAllW xs with
          | none => simp [hx, hxs] at hpa
          | some rest' =>
            simp only [hx, hxs, Option.some.injEq, List.cons.injEq] at hpa
            obtain ⟨hr1, hr2⟩ := hpa
            subst hr1 hr2
            have hwx := hwf x (by simp)
            obtain ⟨restA, hrestA, hrestE⟩ := ih rest' hrest xs hxs (fun y hy => hwf y (by simp [hy]))
            rcases parseRuleW_spec hx with ⟨lno, c, rhs, as, ctl, rfl, rfl, hc, hnb, hsp⟩ |
              ⟨lno, c, l, e, rs', rfl, rfl, hc, hpr⟩
            · -- actions
              simp only [wfTree, Bool.and_eq_true] at hwx
              refine ⟨.acts lno c (as.map ActA.plain) ctl :: restA, ?_, ?_⟩
              · simp [att_parseAllA, att_parseRuleA_acts lno c rhs as ctl hc hnb hsp, hrestA]
              · intro nested outerPass start passSeen run runA hrel
                rw [evalRules, evalRulesA, att_condValA_eq cx 0 root c hwx.1]
                cases condVal (cx.v 0 root) c with
                | error => exact ⟨rfl, hrel.2.1, hrel.2.2, fun h => absurd rfl h⟩
                | «nomatch» => exact hrestE _ _ _ _ _ _ hrel
                | «match» =>
                  dsimp only
                  obtain ⟨a1, a2⟩ := att_evalActsA_plain cx aerr (outerPass || passSeen) 0 root as runA
                  by_cases hany : as.any aerr = true
                  · obtain ⟨r1, h1, h2, h3⟩ := a1 hany
                    simp only [hany, if_true, h1]
                    exact ⟨rfl, by rw [h2]; exact hrel.2.1, by rw [h3]; exact hrel.2.2, fun h => absurd rfl h⟩
                  · have hany' : as.any aerr = false := by simpa using hany
                    have hrel1 : RunRel { run with pend := run.pend ++ as }
                        { runA with pend := runA.pend ++ as.map fun a => (0, a) } :=
                      ⟨by simp [att_tag0, hrel.1], hrel.2.1, hrel.2.2⟩
                    simp only [hany', Bool.false_eq_true, if_false, a2 hany']
                    cases ctl with
                    | pass => exact hrestE _ _ _ _ _ _ hrel1
                    | brk => exact ⟨rfl, by simp [hrel.2.1], hrel.2.2, fun _ => hrel1.1⟩
                    | none => exact ⟨rfl, hrel.2.1, hrel.2.2, fun _ => hrel1.1⟩
            · -- nested block
              simp only [wfTree, Bool.and_eq_true] at hwx
              have hrs' : sizeOf rs' < n := by
                simp only [List.cons.sizeOf_spec, Rule.blk.sizeOf_spec] at hsz; omega
              obtain ⟨rsA', hA', hE'⟩ := ih rs' hrs' (orChain e) (parseRulesW_orChain e rs' hpr)
                (att_wfTree_orChain e hwx.2)
              have hpA := att_parseRulesA_of_orChain e rsA' hA'
              refine ⟨.blk lno c rsA' :: restA, ?_, ?_⟩
              · simp [att_parseAllA, parseRuleAW, hc, hpA, hrestA]
              · intro nested outerPass start passSeen run runA hrel
                rw [evalRules, evalRulesA, att_condValA_eq cx 0 root c hwx.1]
                cases condVal (cx.v 0 root) c with
                | error => exact ⟨rfl, hrel.2.1, hrel.2.2, fun h => absurd rfl h⟩
                | «nomatch» => exact hrestE _ _ _ _ _ _ hrel
                | «match» =>
                  dsimp only
                  have hin := hE' true (outerPass || passSeen) run.pend.length false run runA hrel
                  rw [hrel.length]
                  rcases h1 : evalRules (cx.v 0 root) aerr true (outerPass || passSeen) run.pend.length rs' false run
                    with ⟨b, run1⟩
                  rcases h2 : evalRulesA cx aerr true (outerPass || passSeen) run.pend.length 0 root rsA' false runA
                    with ⟨bA, runA1⟩
                  rw [h1, h2] at hin
                  obtain ⟨e1, e2, e3, e4⟩ := hin
                  simp only at e1 e2 e3 e4
                  subst e1
                  cases bA with
                  | err => exact ⟨rfl, e2, e3, fun h => absurd rfl h⟩
                  | matched => exact ⟨rfl, e2, e3, fun _ => e4 (by decide)⟩
                  | «nomatch» => exact hrestE _ _ _ _ _ _ ⟨e4 (by decide), e2, e3⟩
                  | broke => exact hrestE _ _ _ _ _ _ ⟨e4 (by decide), e2, e3⟩

/-! ## the corollaries -/

/-- The statement of `C03_eval_refines_spec_wide` from `att_eval_refines_spec_wide`. -/
theorem att_eval_refines_spec_old_wide (env : Env) (root : Msg) (f : MFlags) (e : Expr) (rules : List Spec.Rule)
    (hp : Spec.parseBlockW e = some rules) (hd : InDomainW env e = true)
    (hl : (Spec.evalBlock (valuation env root f) actionErr rules).crosses = false) :
    let o := Spec.evalBlock (valuation env root f) actionErr rules
    let r := eval env root e 0 root { ml := [], flags := f }
    r.1 = o.res ∧ (o.res = .match → Spec.planOf (mlKeys r.2.ml) = Spec.planOf (o.actions.filterMap Spec.actKey)) := by
  simp only [InDomainW, Bool.and_eq_true] at hd
  obtain ⟨hd, hplaced⟩ := hd
  have hw := att_wfTree_of_inDomain hd
  cases e with
  | block lno e' =>
    simp only [Spec.parseBlockW] at hp
    simp only [wfTree] at hw
    obtain ⟨rsA, hA, hE⟩ := att_bridge (partCtx env root f) actionErr root (sizeOf rules + 1) rules (Nat.lt_succ_self _)
      (orChain e') (parseRulesW_orChain e' rules hp) (att_wfTree_orChain e' hw)
    have hpA : Spec.parseBlockAW (.block lno e') = some rsA := att_parseRulesA_of_orChain e' rsA hA
    have hrel := hE false false 0 false { pend := [], crosses := false } { pend := [], crosses := false, leaks := false }
      ⟨rfl, rfl, rfl⟩
    have hv : (partCtx env root f).v 0 root = valuation env root f := rfl
    rw [hv] at hrel
    -- the two outcomes
    have hout : (Spec.evalBlockA (partCtx env root f) actionErr root rsA).res =
          (Spec.evalBlock (valuation env root f) actionErr rules).res ∧
        (Spec.evalBlockA (partCtx env root f) actionErr root rsA).crosses =
          (Spec.evalBlock (valuation env root f) actionErr rules).crosses ∧
        (Spec.evalBlockA (partCtx env root f) actionErr root rsA).leaks = false ∧
        ((Spec.evalBlock (valuation env root f) actionErr rules).res = .match →
          (Spec.evalBlockA (partCtx env root f) actionErr root rsA).actions =
            att_tag0 (Spec.evalBlock (valuation env root f) actionErr rules).actions) := by
      unfold Spec.evalBlockA Spec.evalBlock
      rcases h1 : Spec.evalRules (valuation env root f) actionErr false false 0 rules false { pend := [], crosses := false }
        with ⟨b, run1⟩
      rcases h2 : Spec.evalRulesA (partCtx env root f) actionErr false false 0 0 root rsA false
        { pend := [], crosses := false, leaks := false } with ⟨bA, runA1⟩
      rw [h1, h2] at hrel
      obtain ⟨e1, e2, e3, e4⟩ := hrel
      simp only at e1 e2 e3 e4
      subst e1
      cases bA with
      | err => exact ⟨rfl, e2, e3, fun h => by cases h⟩
      | matched => exact ⟨rfl, e2, e3, fun _ => e4 (by decide)⟩
      | «nomatch» => exact ⟨rfl, e2, e3, fun h => by cases h⟩
      | broke => exact ⟨rfl, e2, e3, fun h => by cases h⟩
    obtain ⟨o1, o2, o3, o4⟩ := hout
    have hnew := att_eval_refines_spec_wide env root f (.block lno e') rsA hpA
      (by simp [InDomainAW, att_inDomainA_of_inDomain hd, hplaced]) (by rw [o2]; exact hl) o3
    intro o r
    obtain ⟨n1, n2⟩ := hnew
    refine ⟨n1.trans o1, fun hm => ?_⟩
    have hm' : (Spec.evalBlockA (partCtx env root f) actionErr root rsA).res = .match := by rw [o1]; exact hm
    have h3 := planOf_of_planP (n2 hm')
    rw [mlKeysP_eq, ← keysOf_eq_map, att_filterMap_drop, o4 hm] at h3
    rw [mlKeys_eq]
    have hmap : (att_tag0 o.actions).map (·.2) = o.actions := by
      simp [att_tag0, Function.comp_def]
    rw [hmap] at h3
    exact h3
  | _ => simp [Spec.parseBlockW] at hp

/-! ## `pass` / `break` last is a special case -/

theorem ctlPlaced_of_action {a : Expr} (h : isActionExpr a = true) : ctlPlaced a = true := by
  cases a <;> simp [isActionExpr] at h <;> rfl

theorem filter_noctl_actions : ∀ (as : List Expr), (∀ a ∈ as, isActionExpr a = true) →
    as.filter (fun x => (isCtlExpr x).isNone) = as := by
  intro as h
  rw [List.filter_eq_self]
  intro a ha
  rw [att_isCtl_of_action (h a ha)]
  rfl

/-- What `splitActs` accepts, `splitActsW` accepts with the same result. -/
theorem splitActsW_of_splitActs {l as : List Expr} {ctl : Ctl} (h : splitActs l = some (as, ctl)) :
    splitActsW l = some (as, ctl) ∧ placedOK l = true ∧ (∀ y ∈ l, ctlPlaced y = true) := by
  rcases splitActs_spec h with ⟨rfl, rfl, hne, hact⟩ | ⟨hctl, xc, rfl, hcx, hact⟩
  · have hnc : ∀ x ∈ l, isCtlExpr x = Option.none := fun x hx => att_isCtl_of_action (hact x hx)
    refine ⟨?_, placedOK_noctl l hnc, fun y hy => ctlPlaced_of_action (hact y hy)⟩
    unfold splitActsW
    rw [ctlOfList_noctl l hnc]
    have hemp : l.isEmpty = false := by cases l <;> simp at hne ⊢
    simp only [filter_noctl_actions l hact, hemp, Bool.not_false, Bool.true_and]
    have : l.all isActionExpr = true := by simpa using hact
    simp [this]
  · have hnc : ∀ x ∈ as, isCtlExpr x = Option.none := fun x hx => att_isCtl_of_action (hact x hx)
    have hxc : (isCtlExpr xc).isSome = true := by rw [hcx]; rfl
    refine ⟨?_, placedOK_ctl_last as xc hnc hxc, ?_⟩
    · unfold splitActsW
      have hctlv : ctlOfList (as ++ [xc]) = some ctl := by
        rcases isCtlExpr_spec hcx with ⟨rfl, lp, rfl⟩ | ⟨rfl, lb, rfl⟩
        · exact ctlOfList_pass as [] lp hnc (by simp)
        · exact ctlOfList_brk as [] lb hnc (by simp)
      have hxn : (isCtlExpr xc).isNone = false := by rw [hcx]; rfl
      have hall : as.all isActionExpr = true := by simpa using hact
      simp [hctlv, List.filter_append, filter_noctl_actions as hact, hxn, hall]
    · intro y hy
      rcases List.mem_append.1 hy with hy | hy
      · exact ctlPlaced_of_action (hact y hy)
      · simp only [List.mem_singleton] at hy
        subst hy
        rcases isCtlExpr_spec hcx with ⟨_, lp, rfl⟩ | ⟨_, lb, rfl⟩ <;> rfl

theorem widen_rules (n : Nat) : ∀ (e : Expr), sizeOf e < n →
    (∀ r, parseRule e = some r → parseRuleW e = some r ∧ ctlPlaced e = true) ∧
    (∀ rs, parseRules e = some rs → parseRulesW e = some rs ∧ ctlPlaced e = true) := by
  induction n with
  | zero => intro e h; omega
  | succ n ih =>
    intro e hsz
    have hrule : ∀ r, parseRule e = some r → parseRuleW e = some r ∧ ctlPlaced e = true := by
      intro r h
      rcases parseRule_spec h with ⟨lno, c, rhs, as, ctl, rfl, rfl, hc, hnb, hsp⟩ | ⟨lno, c, l, e', rs, rfl, rfl, hc, hpr⟩
      · obtain ⟨g1, g2, g3⟩ := splitActsW_of_splitActs hsp
        refine ⟨?_, ?_⟩
        · rw [parseRuleW.eq_2 _ _ _ (fun l e he => hnb l e he)]
          simp [hc, g1]
        · simp only [ctlPlaced, Bool.and_eq_true]
          refine ⟨⟨ctlPlaced_of_isCond c hc, ctlPlaced_of_andChain rhs g3⟩, ?_⟩
          cases rhs <;> first | exact g2 | exact absurd rfl (hnb _ _)
      · have hs : sizeOf e' < n := by
          simp only [Expr.mtch.sizeOf_spec, Expr.block.sizeOf_spec] at hsz; omega
        obtain ⟨g1, g2⟩ := (ih e' hs).2 rs hpr
        simp [parseRuleW, hc, g1, ctlPlaced, g2, ctlPlaced_of_isCond c hc]
    refine ⟨hrule, ?_⟩
    intro rs h
    cases e with
    | or lno l r =>
      rw [parseRules] at h
      cases hl : parseRules l with
      | none => simp [hl] at h
      | some ls =>
        cases hr : parseRule r with
        | none => simp [hl, hr] at h
        | some x =>
          simp only [hl, hr, Option.some.injEq] at h
          have hs1 : sizeOf l < n := by simp only [Expr.or.sizeOf_spec] at hsz; omega
          have hs2 : sizeOf r < n := by simp only [Expr.or.sizeOf_spec] at hsz; omega
          obtain ⟨g1, g2⟩ := (ih l hs1).2 ls hl
          obtain ⟨k1, k2⟩ := (ih r hs2).1 x hr
          rw [parseRulesW, g1, k1]
          simp [h, ctlPlaced, g2, k2]
    | _ =>
      simp only [parseRules, Option.map_eq_some_iff] at h
      obtain ⟨x, hx, rfl⟩ := h
      obtain ⟨g1, g2⟩ := hrule x hx
      simp [parseRulesW, g1, g2]

/-- What `parseBlock` accepts, `parseBlockW` accepts with the same rules, and the tree is `ctlPlaced`. -/
theorem parseBlockW_of_parseBlock {e : Expr} {rs : List Rule} (h : parseBlock e = some rs) :
    parseBlockW e = some rs ∧ ctlPlaced e = true := by
  cases e with
  | block lno e' =>
    simp only [parseBlock] at h
    obtain ⟨g1, g2⟩ := (widen_rules (sizeOf e' + 1) e' (Nat.lt_succ_self _)).2 rs h
    exact ⟨by simpa [parseBlockW] using g1, by simpa [ctlPlaced] using g2⟩
  | _ => simp [parseBlock] at h

/-- `eval_refines_spec` (the statement of `C03_eval_refines_spec`): `pass` / `break` last. -/
theorem att_eval_refines_spec_old (env : Env) (root : Msg) (f : MFlags) (e : Expr) (rules : List Spec.Rule)
    (hp : Spec.parseBlock e = some rules) (hd : InDomain env e = true)
    (hl : (Spec.evalBlock (valuation env root f) actionErr rules).crosses = false) :
    let o := Spec.evalBlock (valuation env root f) actionErr rules
    let r := eval env root e 0 root { ml := [], flags := f }
    r.1 = o.res ∧ (o.res = .match → Spec.planOf (mlKeys r.2.ml) = Spec.planOf (o.actions.filterMap Spec.actKey)) := by
  obtain ⟨hpw, hpl⟩ := parseBlockW_of_parseBlock hp
  exact att_eval_refines_spec_old_wide env root f e rules hpw (by simp [InDomainW, hd, hpl]) hl

end Mdsort.Proofs
