import Mdsort.Proofs.WorldMtime
import Mdsort.Proofs.FlagsTime
import Mdsort.Model.Dest

/-!
# C09: the seen flag after a whole action list

`maildir_move` adjusts the flag set the message carries IN MEMORY (`Model.adjustSeen`, /repo 7589fcb), and every later
action of the same rule that names the file again (`maildir_move`, `maildir_write`) takes the letters from that set.
This file follows that set through `matches_exec`:

* `flagsThrough s0 mf subs` - the set after the message was taken through the subdirectories `subs`, starting in `s0`;
  `flagsThrough_S` / `flagsThrough_other` / `flagsThrough_valid` say what it is;
* `matchesExec_all` - whatever the calls return, a run of `matches_exec` that reports no error ends with the message in
  `lastSub s0 (visited ml)` carrying `flagsThrough s0 mf (visited ml)`, where `visited ml` are the subdirectories of the
  move / flag / flags entries of the match list in order.
-/

namespace Mdsort.Proofs.FlagsSeq
open Mdsort Mdsort.Model Mdsort.Proofs.World

/-! ## the flag set through a sequence of subdirectories -/

/-- The flag set after the message was taken from `s0` through `subs`, one `maildir_move` each. -/
def flagsThrough (s0 : Subdir) (mf : MFlags) : List Subdir → MFlags
  | [] => mf
  | s :: r => flagsThrough s (adjustSeen s0 s mf) r

/-- Where it is then. -/
def lastSub : Subdir → List Subdir → Subdir
  | s0, [] => s0
  | _, s :: r => lastSub s r

theorem adjustSeen_same (s : Subdir) (mf : MFlags) : adjustSeen s s mf = mf := by
  cases s <;> rfl

theorem adjustSeen_new_cur (mf : MFlags) : adjustSeen .new .cur mf = ⟨mf.upper ||| 1 <<< 18, mf.lower⟩ := rfl

theorem adjustSeen_cur_new (mf : MFlags) : adjustSeen .cur .new mf = ⟨mf.upper &&& (2 ^ 32 - 1 - 1 <<< 18), mf.lower⟩ := rfl

theorem isSet_S (mf : MFlags) : flagsIsSet mf 83 = mf.upper.testBit 18 := rfl

theorem isSet_adjust_new_cur (mf : MFlags) : flagsIsSet (adjustSeen .new .cur mf) 83 = true := by
  rw [adjustSeen_new_cur, isSet_S]
  show (mf.upper ||| 1 <<< 18).testBit 18 = true
  rw [Nat.testBit_or, testBit_one_shiftLeft]
  simp

theorem isSet_adjust_cur_new (mf : MFlags) : flagsIsSet (adjustSeen .cur .new mf) 83 = false := by
  rw [adjustSeen_cur_new, isSet_S]
  show (mf.upper &&& (2 ^ 32 - 1 - 1 <<< 18)).testBit 18 = false
  rw [Nat.testBit_and, clrMask_testBit 18 (by decide)]
  simp

/-- Every letter other than `S` is left alone by a move between subdirectories. -/
theorem isSet_adjust_other (s d : Subdir) (mf : MFlags) (c : UInt8) (hc : c ≠ 83) :
    flagsIsSet (adjustSeen s d mf) c = flagsIsSet mf c := by
  cases s <;> cases d
  · rfl
  · rw [adjustSeen_new_cur]
    unfold flagsIsSet
    split
    · rename_i hu
      rw [isupper_iff_toNat] at hu
      show (mf.upper ||| 1 <<< 18).testBit (c.toNat - 65) = mf.upper.testBit (c.toNat - 65)
      rw [Nat.testBit_or, testBit_one_shiftLeft]
      have : (18 == c.toNat - 65) = false := by
        rw [beq_eq_false_iff_ne]
        intro h
        apply hc
        rw [← UInt8.toNat_inj]
        show c.toNat = 83
        omega
      rw [this, Bool.or_false]
    · rfl
  · rw [adjustSeen_cur_new]
    unfold flagsIsSet
    split
    · rename_i hu
      rw [isupper_iff_toNat] at hu
      show (mf.upper &&& (2 ^ 32 - 1 - 1 <<< 18)).testBit (c.toNat - 65) = mf.upper.testBit (c.toNat - 65)
      rw [Nat.testBit_and, clrMask_testBit (c.toNat - 65) (by omega)]
      have : (c.toNat - 65 == 18) = false := by
        rw [beq_eq_false_iff_ne]
        intro h
        apply hc
        rw [← UInt8.toNat_inj]
        show c.toNat = 83
        omega
      rw [this]
      simp
    · rfl
  · rfl

theorem valid_adjust (s d : Subdir) (mf : MFlags) (h : MFlags.Valid mf) : MFlags.Valid (adjustSeen s d mf) := by
  cases s <;> cases d
  · exact h
  · rw [adjustSeen_new_cur]; exact ⟨Nat.or_lt_two_pow h.1 (by decide), h.2⟩
  · rw [adjustSeen_cur_new]; exact ⟨Nat.lt_of_le_of_lt Nat.and_le_left h.1, h.2⟩
  · exact h

theorem flagsThrough_other (c : UInt8) (hc : c ≠ 83) : ∀ (subs : List Subdir) (s0 : Subdir) (mf : MFlags),
    flagsIsSet (flagsThrough s0 mf subs) c = flagsIsSet mf c
  | [], _, _ => rfl
  | s :: r, s0, mf => by
    rw [flagsThrough, flagsThrough_other c hc r s, isSet_adjust_other s0 s mf c hc]

theorem flagsThrough_valid : ∀ (subs : List Subdir) (s0 : Subdir) (mf : MFlags), MFlags.Valid mf →
    MFlags.Valid (flagsThrough s0 mf subs)
  | [], _, _, h => h
  | s :: r, s0, mf, h => flagsThrough_valid r s _ (valid_adjust s0 s mf h)

theorem lastSub_of_all : ∀ (r : List Subdir) (s : Subdir), r.all (· == s) = true → lastSub s r = s
  | [], _, _ => rfl
  | x :: t, s, h => by
    rw [List.all_cons, Bool.and_eq_true] at h
    have hx : x = s := by simpa using h.1
    subst hx
    exact lastSub_of_all t x h.2

/-- `S` after the sequence: untouched when the message never changed its subdirectory, otherwise decided by where it
is at the end (the last change of subdirectory was into that one). -/
theorem flagsThrough_S : ∀ (subs : List Subdir) (s0 : Subdir) (mf : MFlags),
    flagsIsSet (flagsThrough s0 mf subs) 83 =
      if subs.all (· == s0) then flagsIsSet mf 83 else (lastSub s0 subs == .cur)
  | [], _, _ => by simp [flagsThrough]
  | s :: r, s0, mf => by
    rw [flagsThrough, flagsThrough_S r s, lastSub, List.all_cons]
    by_cases hs : s = s0
    · subst hs
      rw [adjustSeen_same]
      simp
    · have hne : (s == s0) = false := by simpa using hs
      rw [hne, Bool.false_and]
      simp only [Bool.false_eq_true, if_false]
      split
      · rename_i hall
        rw [lastSub_of_all r s hall]
        cases s0 <;> cases s
        · exact absurd rfl hs
        · rw [isSet_adjust_new_cur]; rfl
        · rw [isSet_adjust_cur_new]; rfl
        · exact absurd rfl hs
      · rfl

/-! ## `matches_exec`: what the calls return does not matter -/

theorem all_runOracle {α} {P : α → Prop} (orc : Nat → Call → Res) {p : Prog α} (h : All P p) (i : Nat) (tr : List (Call × Res)) :
    P (runOracle orc p i tr).1 := by
  induction p generalizing i tr with
  | ret a => exact h
  | call c k ih => exact ih _ (h _) _ _

theorem all_runPlan {α} {P : α → Prop} (plan : Plan) {p : Prog α} (h : All P p) (w : World) (i : Nat) (hist : List World) :
    P (runPlan plan p w i hist).1 := by
  rw [runPlan_eq]
  exact h.run plan w i

/-- Does `matches_exec` call `maildir_move` for this entry? (`Model.Match.moves` of Model/Dest.) -/
def mover (mh : Match) : Bool := mh.ty == .move || mh.ty == .flag || mh.ty == .flags

/-- The subdirectories of the destinations of the move / flag / flags entries, in order. -/
def visited (ml : MatchList) : List Subdir :=
  ml.filterMap fun mh => if mover mh then parseSubdir mh.path else none

/-- One entry, on (subdirectory the message is in, flag set it carries). -/
def stepS (s : Subdir × MFlags) (mh : Match) : Subdir × MFlags :=
  if mover mh then
    match parseSubdir mh.path with
    | some sd => (sd, adjustSeen s.1 sd s.2)
    | none => s
  else s

theorem foldl_stepS : ∀ (ml : MatchList) (s0 : Subdir) (mf : MFlags),
    ml.foldl stepS (s0, mf) = (lastSub s0 (visited ml), flagsThrough s0 mf (visited ml))
  | [], _, _ => rfl
  | mh :: rest, s0, mf => by
    rw [List.foldl_cons]
    unfold visited
    rw [List.filterMap_cons]
    unfold stepS
    by_cases hm : mover mh = true
    · simp only [hm, if_true]
      cases hp : parseSubdir mh.path with
      | none => exact foldl_stepS rest s0 mf
      | some sd => exact foldl_stepS rest sd _
    · simp only [hm, Bool.false_eq_true, if_false]
      exact foldl_stepS rest s0 mf

theorem maildirOpenDst_all (path : Bytes) :
    All (fun r => ∀ d, r = some d → parseSubdir path = some d.subdir) (maildirOpenDst path) := by
  unfold maildirOpenDst
  split
  · intro d h; cases h
  · rename_i sd hsd
    split
    · intro d h; cases h
    · split
      · intro d h; cases h
      · simp only [maildirOpendir, bind_eq, pure_eq, ret_bind, call_bind]
        intro r
        cases r with
        | ok v =>
          intro d h
          simp only [Bool.false_eq_true, if_false] at h
          cases h
          exact hsd
        | name n => intro d h; simp at h
        | eof => intro d h; simp at h
        | err e => intro d h; simp at h

theorem moveCopy_all (src dst : Maildir) (ms : MsgSt) (fd : Handle) (dstname : Bytes) (r : Res) :
    All (fun x => x.2.flags = ms.flags) (moveCopy src dst ms fd dstname r) := by
  unfold moveCopy
  split
  · split
    · simp only [bind_eq, pure_eq]
      refine All.bind_of_forall _ fun we => ?_
      split
      · rfl
      · refine All.bind_of_forall _ fun ue => ?_
        cases ue <;> rfl
    · rfl
  · rfl

theorem moveTail_all (ss : Subdir) (dst : Maildir) (dh fd : Handle) (dstname : Bytes) (mt : Option Nat) (err1 : Bool) (ms : MsgSt) :
    All (fun r => r.2 = false → r.1.flags = adjustSeen ss dst.subdir ms.flags) (moveTail ss dst dh fd dstname mt err1 ms) := by
  have tail : ∀ err2 : Bool, All (fun r => r.2 = false → r.1.flags = adjustSeen ss dst.subdir ms.flags)
      (if err2 = true then Prog.ret (ms, true) else messageSetFileMoved ms ss dst.subdir dst.path dstname) := by
    intro err2
    split
    · intro h; cases h
    · unfold messageSetFileMoved
      split
      · intro h; cases h
      · split
        · intro h; cases h
        · intro _; rfl
  unfold moveTail
  simp only [bind_eq, pure_eq]
  cases err1
  · simp only [Bool.false_eq_true, if_false, ret_bind]
    refine All.bind_of_forall _ fun _ => ?_
    refine All.bind_of_forall _ fun err2 => ?_
    exact tail err2
  · simp only [if_true]
    refine All.bind_of_forall _ fun _ => ?_
    refine All.bind_of_forall _ fun _ => ?_
    refine All.bind_of_forall _ fun err2 => ?_
    exact tail err2

theorem moveRest_all (env : PEnv) (src dst : Maildir) (ms : MsgSt) (sh dh : Handle) (mt : Option Nat) :
    All (fun r => r.2 = false → r.1.flags = adjustSeen src.subdir dst.subdir ms.flags) (moveRest env src dst ms sh dh mt) := by
  unfold moveRest
  split
  · intro h; cases h
  · simp only [bind_eq, pure_eq]
    refine All.bind_of_forall _ fun g => ?_
    split
    · intro h; cases h
    · rename_i fd dstname
      refine All.bind_of_forall _ fun r => ?_
      refine All.bind_mono (moveCopy_all src dst ms fd dstname r) fun x hx => ?_
      obtain ⟨e1, ms'⟩ := x
      have := moveTail_all src.subdir dst dh fd dstname mt e1 ms'
      have hx' : ms'.flags = ms.flags := hx
      rw [hx'] at this
      exact this

theorem maildirMove_all (env : PEnv) (src dst : Maildir) (ms : MsgSt) :
    All (fun r => r.2 = false → r.1.flags = adjustSeen src.subdir dst.subdir ms.flags) (maildirMove env src dst ms) := by
  rw [maildirMove_eq]
  split
  · intro h; cases h
  · split
    · exact All.bind_of_forall _ fun mt => moveRest_all env src dst ms _ _ mt
    · intro h; cases h

theorem messageSetFile_all (ms : MsgSt) (dir name : Bytes) (fd : Option Handle) :
    All (fun r => r.1.flags = ms.flags) (messageSetFile ms dir name fd) := by
  unfold messageSetFile
  split
  · rfl
  · split
    · rfl
    · split
      · simp only [bind_eq, pure_eq]
        split
        · refine All.bind_of_forall _ fun _ => ?_
          rfl
        · rfl
      · rfl

theorem maildirWrite_all (env : PEnv) (md : Maildir) (ms : MsgSt) :
    All (fun r => r.1.flags = ms.flags) (maildirWrite env md ms) := by
  unfold maildirWrite
  split
  · rfl
  · simp only [bind_eq, pure_eq]
    refine All.bind_of_forall _ fun g => ?_
    split
    · rfl
    · refine All.bind_of_forall _ fun we => ?_
      refine All.bind_of_forall _ fun _ => ?_
      refine All.bind_of_forall _ fun err => ?_
      split
      · refine All.bind_of_forall _ fun _ => ?_
        rfl
      · split
        · rfl
        · intro r
          simp only [ret_bind]
          split
          · refine All.bind_mono (messageSetFile_all _ _ _ _) fun x hx => ?_
            obtain ⟨ms', e⟩ := x
            split
            · refine All.bind_of_forall _ fun _ => ?_
              exact hx
            · exact hx
          · rfl

/-- The move / flag / flags case of `execOne`. -/
theorem execMover_all (env : PEnv) (mh : Match) (st : ExecSt) (k : Option Maildir → Prog (ExecSt × Bool))
    (hk : k = fun d => match d with
      | none => pure (st, true)
      | some dst => do
        let (ms', e) ← maildirMove env st.src dst st.ms
        if e then
          maildirClose dst
          pure ({ st with ms := ms' }, true)
        else if st.src.subdir != dst.subdir || st.src.root != dst.root then
          if st.chsrc then maildirClose st.src
          pure ({ st with src := dst, chsrc := true, ms := ms' }, false)
        else
          maildirClose dst
          pure ({ st with ms := ms' }, false)) :
    All (fun r => r.2 = false → ∃ sd, parseSubdir mh.path = some sd ∧
        (r.1.src.subdir, r.1.ms.flags) = (sd, adjustSeen st.src.subdir sd st.ms.flags))
      ((maildirOpenDst mh.path).bind k) := by
  subst hk
  refine All.bind_mono (maildirOpenDst_all mh.path) fun d hd => ?_
  cases d with
  | none => intro h; cases h
  | some dst =>
    have hp := hd dst rfl
    simp only [bind_eq, pure_eq]
    refine All.bind_mono (maildirMove_all env st.src dst st.ms) fun x hx => ?_
    obtain ⟨ms', e⟩ := x
    cases e with
    | true =>
      simp only [if_true]
      refine All.bind_of_forall _ fun _ => ?_
      intro h; cases h
    | false =>
      have hf : ms'.flags = adjustSeen st.src.subdir dst.subdir st.ms.flags := hx rfl
      simp only [Bool.false_eq_true, if_false]
      split
      · have fin : ∀ q : Prog Unit, All (fun r : ExecSt × Bool => r.2 = false → ∃ sd, parseSubdir mh.path = some sd ∧
            (r.1.src.subdir, r.1.ms.flags) = (sd, adjustSeen st.src.subdir sd st.ms.flags))
            (q.bind fun _ => Prog.ret ({ st with src := dst, chsrc := true, ms := ms' }, false)) := by
          intro q
          refine All.bind_of_forall _ fun _ => ?_
          intro _
          exact ⟨dst.subdir, hp, by rw [← hf]⟩
        split
        · exact fin _
        · exact fin (Prog.ret ())
      · rename_i hne
        refine All.bind_of_forall _ fun _ => ?_
        intro _
        have hsub : st.src.subdir = dst.subdir := by
          simp only [Bool.or_eq_true, bne_iff_ne, ne_eq, not_or, Decidable.not_not] at hne
          exact hne.1
        exact ⟨dst.subdir, hp, by rw [← hf, hsub]⟩

theorem execOne_all (env : PEnv) (mh : Match) (st : ExecSt) :
    All (fun r => r.2 = false → (r.1.src.subdir, r.1.ms.flags) = stepS (st.src.subdir, st.ms.flags) mh) (execOne env mh st) := by
  have hmv : mover mh = true → All (fun r => r.2 = false → ∃ sd, parseSubdir mh.path = some sd ∧
        (r.1.src.subdir, r.1.ms.flags) = (sd, adjustSeen st.src.subdir sd st.ms.flags)) (execOne env mh st) →
      All (fun r => r.2 = false → (r.1.src.subdir, r.1.ms.flags) = stepS (st.src.subdir, st.ms.flags) mh) (execOne env mh st) := by
    intro hm h
    refine h.mono fun r hr hok => ?_
    obtain ⟨sd, hp, he⟩ := hr hok
    rw [he]
    unfold stepS
    rw [hm, if_pos rfl, hp]
  have hno : mover mh = false → All (fun r => (r.1.src.subdir, r.1.ms.flags) = (st.src.subdir, st.ms.flags)) (execOne env mh st) →
      All (fun r => r.2 = false → (r.1.src.subdir, r.1.ms.flags) = stepS (st.src.subdir, st.ms.flags) mh) (execOne env mh st) := by
    intro hm h
    refine h.mono fun r hr _ => ?_
    rw [hr]
    unfold stepS
    rw [hm]
    rfl
  cases hty : mh.ty
  case move =>
    refine hmv (by unfold mover; rw [hty]; rfl) ?_
    unfold execOne
    simp only [hty, bind_eq]
    exact execMover_all env mh st _ rfl
  case flag =>
    refine hmv (by unfold mover; rw [hty]; rfl) ?_
    unfold execOne
    simp only [hty, bind_eq]
    exact execMover_all env mh st _ rfl
  case flags =>
    refine hmv (by unfold mover; rw [hty]; rfl) ?_
    unfold execOne
    simp only [hty, bind_eq]
    exact execMover_all env mh st _ rfl
  case discard =>
    refine hno (by unfold mover; rw [hty]; rfl) ?_
    unfold execOne
    simp only [hty, bind_eq, pure_eq]
    refine All.bind_of_forall _ fun e => ?_
    cases e <;> rfl
  case label =>
    refine hno (by unfold mover; rw [hty]; rfl) ?_
    unfold execOne
    simp only [hty, bind_eq, pure_eq]
    refine All.bind_mono (maildirWrite_all env st.src st.ms) fun x hx => ?_
    obtain ⟨ms', e⟩ := x
    have hx' : ms'.flags = st.ms.flags := hx
    show (st.src.subdir, ms'.flags) = _
    rw [hx']
  case addHeader =>
    refine hno (by unfold mover; rw [hty]; rfl) ?_
    unfold execOne
    simp only [hty, bind_eq, pure_eq]
    refine All.bind_mono (maildirWrite_all env st.src st.ms) fun x hx => ?_
    obtain ⟨ms', e⟩ := x
    have hx' : ms'.flags = st.ms.flags := hx
    show (st.src.subdir, ms'.flags) = _
    rw [hx']
  case exec =>
    refine hno (by unfold mover; rw [hty]; rfl) ?_
    unfold execOne
    simp only [hty, bind_eq, pure_eq]
    refine All.bind_of_forall _ fun fdr => ?_
    split
    · rfl
    · refine All.bind_of_forall _ fun rc => ?_
      split
      · refine All.bind_of_forall _ fun _ => ?_
        rfl
      · rfl
  all_goals
    refine hno (by unfold mover; rw [hty]; rfl) ?_
    unfold execOne
    simp only [hty]
    rfl

theorem matchesExec_all (env : PEnv) : ∀ (ml : MatchList) (st : ExecSt),
    All (fun r => r.2 = false → (r.1.src.subdir, r.1.ms.flags) = ml.foldl stepS (st.src.subdir, st.ms.flags))
      (matchesExec env ml st)
  | [], st => by
    unfold matchesExec
    simp only [bind_eq, pure_eq]
    split
    · refine All.bind_of_forall _ fun _ => ?_
      intro _; rfl
    · intro _; rfl
  | mh :: rest, st => by
    unfold matchesExec
    simp only [bind_eq, pure_eq]
    refine All.bind_mono (execOne_all env mh st) fun x hx => ?_
    obtain ⟨st', e⟩ := x
    cases e with
    | true =>
      simp only [if_true]
      split
      · refine All.bind_of_forall _ fun _ => ?_
        intro h; cases h
      · intro h; cases h
    | false =>
      simp only [Bool.false_eq_true, if_false]
      have h1 : (st'.src.subdir, st'.ms.flags) = stepS (st.src.subdir, st.ms.flags) mh := hx rfl
      rw [List.foldl_cons, ← h1]
      exact matchesExec_all env rest st'

/-- The statement behind `C09_S_after_sequence`. -/
theorem matchesExec_flags (env : PEnv) (ml : MatchList) (st : ExecSt) :
    All (fun r => r.2 = false →
        r.1.src.subdir = lastSub st.src.subdir (visited ml) ∧
        r.1.ms.flags = flagsThrough st.src.subdir st.ms.flags (visited ml)) (matchesExec env ml st) := by
  refine (matchesExec_all env ml st).mono fun r hr hok => ?_
  have h := hr hok
  rw [foldl_stepS] at h
  exact ⟨congrArg Prod.fst h, congrArg Prod.snd h⟩

/-! ## the NAME the message has at the end carries exactly that flag set -/

/-- The message's name is a generated name whose flag part is its flag set written by `message_flags_str`. -/
def Named (env : PEnv) (ms : MsgSt) : Prop :=
  ∃ fl c, flagsStr ms.flags Gen.flagsMax = some fl ∧ ms.name = cand env (some fl) c

theorem msgflags_eq_str (s d : Subdir) (mf : MFlags) : msgflags s d mf = flagsStr (adjustSeen s d mf) Gen.flagsMax := by
  cases s <;> cases d <;> rfl

theorem genname_all (env : PEnv) (md : Maildir) (flags : Option Bytes) : ∀ (fuel count : Nat),
    All (fun g => ∀ fd n, g = some (fd, n) → ∃ c, n = cand env flags c) (genname env md flags fuel count)
  | 0, _ => by
    unfold genname
    intro fd n h; cases h
  | fuel + 1, count => by
    rw [genname_succ]
    split
    · intro fd n h; cases h
    · split
      · intro fd n h; cases h
      · intro r
        dsimp only
        split
        · intro fd n h
          cases h
          exact ⟨_, rfl⟩
        · split
          · exact genname_all env md flags fuel (count + 1)
          · intro fd n h; cases h
        · intro fd n h; cases h

theorem strlcpyFits_eq {siz : Nat} {a b : Bytes} (h : strlcpyFits siz a = some b) : b = a := by
  unfold strlcpyFits at h
  split at h
  · cases h
  · cases h; rfl

theorem moveTail_name (ss : Subdir) (dst : Maildir) (dh fd : Handle) (dstname : Bytes) (mt : Option Nat) (err1 : Bool) (ms : MsgSt) :
    All (fun r => r.2 = false → r.1.name = dstname) (moveTail ss dst dh fd dstname mt err1 ms) := by
  have tail : ∀ err2 : Bool, All (fun r => r.2 = false → r.1.name = dstname)
      (if err2 = true then Prog.ret (ms, true) else messageSetFileMoved ms ss dst.subdir dst.path dstname) := by
    intro err2
    split
    · intro h; cases h
    · unfold messageSetFileMoved
      split
      · intro h; cases h
      · split
        · intro h; cases h
        · rename_i n hn
          intro _
          exact strlcpyFits_eq hn
  unfold moveTail
  simp only [bind_eq, pure_eq]
  cases err1
  · simp only [Bool.false_eq_true, if_false]
    refine All.bind_of_forall _ fun _ => ?_
    refine All.bind_of_forall _ fun err2 => ?_
    exact tail err2
  · simp only [if_true]
    refine All.bind_of_forall _ fun _ => ?_
    refine All.bind_of_forall _ fun _ => ?_
    refine All.bind_of_forall _ fun err2 => ?_
    exact tail err2

theorem maildirMove_name (env : PEnv) (src dst : Maildir) (ms : MsgSt) :
    All (fun r => r.2 = false → ∃ fl c, msgflags src.subdir dst.subdir ms.flags = some fl ∧ r.1.name = cand env (some fl) c)
      (maildirMove env src dst ms) := by
  rw [maildirMove_eq]
  split
  · intro h; cases h
  · split
    · refine All.bind_of_forall _ fun mt => ?_
      unfold moveRest
      split
      · intro h; cases h
      · rename_i fl hfl
        simp only [bind_eq, pure_eq]
        unfold gennameStart
        refine All.bind_mono (genname_all env dst (some fl) _ _) fun g hg => ?_
        split
        · intro h; cases h
        · rename_i fd dstname
          obtain ⟨c, hc⟩ := hg fd dstname rfl
          refine All.bind_of_forall _ fun r => ?_
          refine All.bind_of_forall _ fun x => ?_
          obtain ⟨e1, ms'⟩ := x
          refine (moveTail_name src.subdir dst _ fd dstname mt e1 ms').mono fun r hr hok => ?_
          exact ⟨fl, c, hfl, by rw [hr hok, hc]⟩
    · intro h; cases h

theorem messageSetFile_name (ms : MsgSt) (dir name : Bytes) (fd : Option Handle) :
    All (fun r => r.2 = false → r.1.name = name) (messageSetFile ms dir name fd) := by
  unfold messageSetFile
  split
  · intro h; cases h
  · split
    · intro h; cases h
    · rename_i n hn
      have hnn := strlcpyFits_eq hn
      split
      · simp only [bind_eq, pure_eq]
        split
        · refine All.bind_of_forall _ fun _ => ?_
          intro _; exact hnn
        · intro _; exact hnn
      · intro _; exact hnn

theorem maildirWrite_name (env : PEnv) (md : Maildir) (ms : MsgSt) :
    All (fun r => r.2 = false → ∃ fl c, msgflags md.subdir md.subdir ms.flags = some fl ∧ r.1.name = cand env (some fl) c)
      (maildirWrite env md ms) := by
  unfold maildirWrite
  split
  · intro h; cases h
  · rename_i fl hfl
    simp only [bind_eq, pure_eq]
    unfold gennameStart
    refine All.bind_mono (genname_all env md (some fl) _ _) fun g hg => ?_
    split
    · intro h; cases h
    · rename_i fd name
      obtain ⟨c, hc⟩ := hg fd name rfl
      refine All.bind_of_forall _ fun we => ?_
      refine All.bind_of_forall _ fun _ => ?_
      refine All.bind_of_forall _ fun err => ?_
      split
      · refine All.bind_of_forall _ fun _ => ?_
        intro h; cases h
      · split
        · intro h; cases h
        · intro r
          simp only [ret_bind]
          split
          · refine All.bind_mono (messageSetFile_name _ _ _ _) fun x hx => ?_
            obtain ⟨ms', e⟩ := x
            split
            · refine All.bind_of_forall _ fun _ => ?_
              intro h; cases h
            · rename_i he
              intro _
              have he' : e = false := by simpa using he
              exact ⟨fl, c, hfl, by rw [hx he', hc]⟩
          · intro h; cases h

theorem all_and {α} {P Q : α → Prop} {p : Prog α} (h1 : All P p) (h2 : All Q p) : All (fun a => P a ∧ Q a) p := by
  induction p with
  | ret a => exact ⟨h1, h2⟩
  | call c k ih => intro r; exact ih r (h1 r) (h2 r)

/-- Does the entry give the file a new name? -/
def renames (mh : Match) : Bool := mover mh || mh.ty == .label || mh.ty == .addHeader

theorem named_congr {env : PEnv} {a b : MsgSt} (hn : b.name = a.name) (hf : b.flags = a.flags) (h : Named env a) : Named env b := by
  obtain ⟨fl, c, h1, h2⟩ := h
  exact ⟨fl, c, by rw [hf]; exact h1, by rw [hn]; exact h2⟩

/-- The move / flag / flags case of `execOne`, for any property of the message `maildir_move` establishes. -/
theorem execMover_ms (env : PEnv) (mh : Match) (st : ExecSt) (Q : MsgSt → Prop)
    (hmove : ∀ dst, All (fun r => r.2 = false → Q r.1) (maildirMove env st.src dst st.ms))
    (k : Option Maildir → Prog (ExecSt × Bool))
    (hk : k = fun d => match d with
      | none => pure (st, true)
      | some dst => do
        let (ms', e) ← maildirMove env st.src dst st.ms
        if e then
          maildirClose dst
          pure ({ st with ms := ms' }, true)
        else if st.src.subdir != dst.subdir || st.src.root != dst.root then
          if st.chsrc then maildirClose st.src
          pure ({ st with src := dst, chsrc := true, ms := ms' }, false)
        else
          maildirClose dst
          pure ({ st with ms := ms' }, false)) :
    All (fun r => r.2 = false → Q r.1.ms) ((maildirOpenDst mh.path).bind k) := by
  subst hk
  refine All.bind_of_forall _ fun d => ?_
  cases d with
  | none => intro h; cases h
  | some dst =>
    simp only [bind_eq, pure_eq]
    refine All.bind_mono (hmove dst) fun x hx => ?_
    obtain ⟨ms', e⟩ := x
    cases e with
    | true =>
      simp only [if_true]
      refine All.bind_of_forall _ fun _ => ?_
      intro h; cases h
    | false =>
      have hq : Q ms' := hx rfl
      simp only [Bool.false_eq_true, if_false]
      split
      · split
        · refine All.bind_of_forall _ fun _ => ?_
          intro _; exact hq
        · intro _; exact hq
      · refine All.bind_of_forall _ fun _ => ?_
        intro _; exact hq

theorem named_of_move {env : PEnv} {s d : Subdir} {mf : MFlags} {ms' : MsgSt}
    (hf : ms'.flags = adjustSeen s d mf) (hn : ∃ fl c, msgflags s d mf = some fl ∧ ms'.name = cand env (some fl) c) : Named env ms' := by
  obtain ⟨fl, c, h1, h2⟩ := hn
  exact ⟨fl, c, by rw [hf, ← msgflags_eq_str]; exact h1, h2⟩

theorem execOne_named (env : PEnv) (mh : Match) (st : ExecSt) :
    All (fun r => r.2 = false →
        (renames mh = true → Named env r.1.ms) ∧
        (renames mh = false → r.1.ms.name = st.ms.name ∧ r.1.ms.flags = st.ms.flags)) (execOne env mh st) := by
  have fromTrue : renames mh = true → All (fun r : ExecSt × Bool => r.2 = false → Named env r.1.ms) (execOne env mh st) →
      All (fun r => r.2 = false →
        (renames mh = true → Named env r.1.ms) ∧
        (renames mh = false → r.1.ms.name = st.ms.name ∧ r.1.ms.flags = st.ms.flags)) (execOne env mh st) := by
    intro hr h
    refine h.mono fun r h1 hok => ⟨fun _ => h1 hok, fun hf => ?_⟩
    rw [hr] at hf; cases hf
  have fromFalse : renames mh = false →
      All (fun r : ExecSt × Bool => r.1.ms.name = st.ms.name ∧ r.1.ms.flags = st.ms.flags) (execOne env mh st) →
      All (fun r => r.2 = false →
        (renames mh = true → Named env r.1.ms) ∧
        (renames mh = false → r.1.ms.name = st.ms.name ∧ r.1.ms.flags = st.ms.flags)) (execOne env mh st) := by
    intro hr h
    refine h.mono fun r h1 _ => ⟨fun ht => ?_, fun _ => h1⟩
    rw [hr] at ht; cases ht
  have hmove : ∀ dst, All (fun r => r.2 = false → Named env r.1) (maildirMove env st.src dst st.ms) := by
    intro dst
    refine (all_and (maildirMove_all env st.src dst st.ms) (maildirMove_name env st.src dst st.ms)).mono fun r hr hok => ?_
    exact named_of_move (hr.1 hok) (hr.2 hok)
  have hwrite : All (fun r => r.2 = false → Named env r.1) (maildirWrite env st.src st.ms) := by
    refine (all_and (maildirWrite_all env st.src st.ms) (maildirWrite_name env st.src st.ms)).mono fun r hr hok => ?_
    refine named_of_move (s := st.src.subdir) (d := st.src.subdir) (mf := st.ms.flags) ?_ (hr.2 hok)
    rw [adjustSeen_same]; exact hr.1
  cases hty : mh.ty
  case move =>
    refine fromTrue (by unfold renames mover; rw [hty]; rfl) ?_
    unfold execOne
    simp only [hty, bind_eq]
    exact execMover_ms env mh st _ hmove _ rfl
  case flag =>
    refine fromTrue (by unfold renames mover; rw [hty]; rfl) ?_
    unfold execOne
    simp only [hty, bind_eq]
    exact execMover_ms env mh st _ hmove _ rfl
  case flags =>
    refine fromTrue (by unfold renames mover; rw [hty]; rfl) ?_
    unfold execOne
    simp only [hty, bind_eq]
    exact execMover_ms env mh st _ hmove _ rfl
  case label =>
    refine fromTrue (by unfold renames mover; rw [hty]; rfl) ?_
    unfold execOne
    simp only [hty, bind_eq, pure_eq]
    refine All.bind_mono hwrite fun x hx => ?_
    obtain ⟨ms', e⟩ := x
    intro he
    exact hx he
  case addHeader =>
    refine fromTrue (by unfold renames mover; rw [hty]; rfl) ?_
    unfold execOne
    simp only [hty, bind_eq, pure_eq]
    refine All.bind_mono hwrite fun x hx => ?_
    obtain ⟨ms', e⟩ := x
    intro he
    exact hx he
  case discard =>
    refine fromFalse (by unfold renames mover; rw [hty]; rfl) ?_
    unfold execOne
    simp only [hty, bind_eq, pure_eq]
    refine All.bind_of_forall _ fun e => ?_
    cases e <;> exact ⟨rfl, rfl⟩
  case exec =>
    refine fromFalse (by unfold renames mover; rw [hty]; rfl) ?_
    unfold execOne
    simp only [hty, bind_eq, pure_eq]
    refine All.bind_of_forall _ fun fdr => ?_
    split
    · exact ⟨rfl, rfl⟩
    · refine All.bind_of_forall _ fun rc => ?_
      split
      · refine All.bind_of_forall _ fun _ => ?_
        exact ⟨rfl, rfl⟩
      · exact ⟨rfl, rfl⟩
  all_goals
    refine fromFalse (by unfold renames mover; rw [hty]; rfl) ?_
    unfold execOne
    simp only [hty]
    exact ⟨rfl, rfl⟩

/-- After a run of `matches_exec` that reports no error, the message's name is a generated name whose flag part is the
flag set the message carries - provided some entry named the file (move, flag, flags, label, add-header), or the name
it had at the start already was of that form. -/
theorem matchesExec_named (env : PEnv) : ∀ (ml : MatchList) (st : ExecSt),
    All (fun r => r.2 = false → ((∃ mh ∈ ml, renames mh = true) ∨ Named env st.ms) → Named env r.1.ms) (matchesExec env ml st)
  | [], st => by
    unfold matchesExec
    simp only [bind_eq, pure_eq]
    have fin : ∀ r : ExecSt × Bool, r = (st, false) → r.2 = false →
        ((∃ mh ∈ ([] : MatchList), renames mh = true) ∨ Named env st.ms) → Named env r.1.ms := by
      rintro r rfl _ (⟨mh, hm, _⟩ | h)
      · cases hm
      · exact h
    split
    · refine All.bind_of_forall _ fun _ => ?_
      exact fin _ rfl
    · exact fin _ rfl
  | mh :: rest, st => by
    unfold matchesExec
    simp only [bind_eq, pure_eq]
    refine All.bind_mono (execOne_named env mh st) fun x hx => ?_
    obtain ⟨st', e⟩ := x
    cases e with
    | true =>
      simp only [if_true]
      split
      · refine All.bind_of_forall _ fun _ => ?_
        intro h; cases h
      · intro h; cases h
    | false =>
      simp only [Bool.false_eq_true, if_false]
      have h1 := hx rfl
      refine (matchesExec_named env rest st').mono fun r hr hok hyp => ?_
      apply hr hok
      cases hren : renames mh with
      | true => exact .inr (h1.1 hren)
      | false =>
        have h2 := h1.2 hren
        rcases hyp with ⟨m, hm, hmr⟩ | hn
        · rcases List.mem_cons.1 hm with rfl | hm'
          · rw [hren] at hmr; cases hmr
          · exact .inl ⟨m, hm', hmr⟩
        · exact .inr (named_congr h2.1 h2.2 hn)

/-! ## the last subdirectory visited is the one of `Model.lastPath` -/

theorem visited_nil_of_no_mover : ∀ (ml : MatchList), ml.filter Match.moves = [] → visited ml = []
  | [], _ => rfl
  | mh :: rest, h => by
    rw [List.filter_cons] at h
    split at h
    · cases h
    · rename_i hm
      unfold visited
      rw [List.filterMap_cons]
      have : mover mh = false := by simpa [mover, Match.moves] using hm
      simp only [this, Bool.false_eq_true, if_false]
      exact visited_nil_of_no_mover rest h

theorem lastSub_visited (p : Bytes) (sd : Subdir) (hsd : parseSubdir p = some sd) : ∀ (ml : MatchList) (s0 : Subdir),
    lastPath ml = some p → lastSub s0 (visited ml) = sd
  | [], _, h => by simp [lastPath] at h
  | mh :: rest, s0, h => by
    by_cases hr : rest.filter Match.moves = []
    · -- `mh` is the last entry that moves the message
      have hv := visited_nil_of_no_mover rest hr
      unfold lastPath at h
      rw [List.filter_cons] at h
      split at h
      · rename_i hm
        rw [hr] at h
        simp only [List.getLast?_singleton, Option.map_some, Option.some.injEq] at h
        unfold visited
        rw [List.filterMap_cons]
        have hmv : mover mh = true := hm
        simp only [hmv, if_true, h, hsd]
        show lastSub sd (visited rest) = sd
        rw [hv]; rfl
      · rw [hr] at h
        simp at h
    · have hlast : lastPath rest = some p := by
        unfold lastPath at h ⊢
        rw [List.filter_cons] at h
        split at h
        · rw [List.getLast?_cons_of_ne_nil hr] at h
          exact h
        · exact h
      unfold visited
      rw [List.filterMap_cons]
      split
      · exact lastSub_visited p sd hsd rest _ hlast
      · exact lastSub_visited p sd hsd rest _ hlast

end Mdsort.Proofs.FlagsSeq
