import Mdsort.Proofs.ExecSeqWrite

/-!
`maildir_write` against arbitrary possible results: when it succeeds, the message's descriptor is a
NEW read-only handle on the NEW file, and that file holds exactly `message_write` of the in-memory
message.
-/

namespace Mdsort.Proofs.ExecSeq
open Mdsort Mdsort.Model Mdsort.Spec Mdsort.Proofs.World

/-- The error value of a pair-returning script is `true` on every leaf: nothing to show for the
postconditions of this file, which only speak about success. -/
macro "err_leaves" : tactic =>
  `(tactic| (refine wpo_of_all (P := fun r => r.2 = true) ?_ (by intro a _ h1 h2; rw [h1] at h2; cases h2)
             repeat' (first | exact rfl | all_step)))

theorem possible_unlinkat {w : World} {d : Handle} {n : Bytes} {r : Res} (hp : Possible w (.unlinkat d n) r) :
    (∃ e, r = .err e) ∨ ∃ v p x, r = .ok v ∧ w.dirPath d = some p ∧ w.lookup p n = some x ∧
      core w (.unlinkat d n) (.ok v) = w.unbind p n := by
  rcases possible_plain hp rfl with ⟨v, rfl⟩ | h
  · right
    have h := hp.1
    simp only [applyOk] at h
    cases hd : w.dirPath d with
    | none => simp [hd] at h
    | some p =>
      cases hl : w.lookup p n with
      | none => simp [hd, hl] at h
      | some x => exact ⟨v, p, x, rfl, rfl, hl, by simp [core, applyOk, hd, hl]⟩
  · exact .inl h

theorem possible_openRd {w : World} {d : Handle} {n : Bytes} {r : Res} (hp : Possible w (.openRd d n) r) :
    (∃ e, r = .err e) ∨ ∃ p fid, r = .ok w.handles.length ∧ w.dirPath d = some p ∧ w.lookup p n = some fid ∧
      core w (.openRd d n) (.ok w.handles.length) = (w.newHandle (.file fid 0 false)).1 := by
  rcases possible_handle hp rfl rfl with rfl | h
  · right
    have h := hp.1
    simp only [applyOk] at h
    cases hd : w.dirPath d with
    | none => simp [hd] at h
    | some p =>
      cases hl : w.lookup p n with
      | none => simp [hd, hl] at h
      | some x => exact ⟨p, x, rfl, rfl, hl, by simp [core, applyOk, hd, hl]⟩
  · exact .inl h

/-- What `maildir_write` establishes when it reports success. -/
theorem spec_maildirWrite (env : PEnv) (md : Maildir) (ms : MsgSt) {fid0 : Nat} {c0 : Bytes} {w : World}
    (fa : FileAt w fid0 c0) (hfd : ∀ h, ms.fd = some h → h < w.handles.length) :
    wpo (maildirWrite env md ms)
      (fun r w' => r.2 = false →
        r.1.msg = ms.msg ∧ r.1.parts = ms.parts ∧ w.handles.length ≤ w'.handles.length ∧
        ∃ h fid, r.1.fd = some h ∧ w.handles.length ≤ h ∧ w'.obj h = .file fid 0 false ∧
          FileAt w' fid (messageWrite ms.msg).1) w := by
  unfold maildirWrite gennameStart
  simp only [bind_eq, pure_eq, call_bind]
  split
  · intro h; cases h
  rename_i fl _
  refine wpo_bind_mono (spec_genname env md (some fl) fid0 c0 w gennameAttempts _ (Frm.refl fa)) ?_
  rintro g w1 ⟨fr1, hnew⟩
  cases g with
  | none => intro h; cases h
  | some x =>
  obtain ⟨fd, name⟩ := x
  obtain ⟨d, p, fid, hd, nf, hlt, -⟩ := hnew fd name rfl
  have hfne : fid ≠ fid0 := Nat.ne_of_gt hlt
  dsimp only
  refine wpo_bind_mono (spec_messageWriteP ms.msg fd (Frm.refl fr1.file) nf.obj hfne nf.file) ?_
  rintro we w2 ⟨fd2, f2, hf2, hcontent⟩
  have hdlt : d < w1.handles.length := Nat.lt_trans nf.dLt nf.fdLt
  have hdp2 : w2.dirPath d = some p := by
    rw [← nf.dirPath]; exact dirPath_congr (fd2.fr.objs d hdlt)
  -- close fd
  intro rc _
  have hcc := core_close w2 fd rc
  generalize hw3 : stepWorld w2 (.close fd) rc = w3
  have hdp3 : w3.dirPath d = some p := by
    rw [← hdp2, ← hw3]
    apply dirPath_congr
    rw [stepWorld_obj, hcc, obj_setObj]
    have : d ≠ fd := Nat.ne_of_lt nf.dLt
    simp [this]
  have hlook3 : ∀ q m, w3.lookup q m = w1.lookup q m := by
    intro q m
    rw [← hw3, stepWorld_lookup, hcc, lookup_setObj]
    exact lookup_of_dirs fd2.dirs q m
  have hfile3 : w3.file fid = some f2 := by
    rw [← hw3, stepWorld_file, hcc, file_setObj]; exact hf2
  have hnf3 : fid < w3.nextFid := by
    have h1 := nf.fidLt
    have h2 := fd2.fr.nextFid
    have h3 := core_nextFid w2 (.close fd) rc
    rw [← hw3, stepWorld_nextFid]
    omega
  have hlen3 : w.handles.length ≤ w3.handles.length := by
    have h1 := fr1.len
    have h2 := fd2.fr.len
    have h3 := core_len w2 (.close fd) rc
    rw [← hw3, stepWorld_handles]
    omega
  cases we with
  | true =>
    simp only [if_true, ret_bind]
    unfold maildirUnlink
    simp only [hd, bind_eq, pure_eq, call_bind]
    err_leaves
  | false =>
    simp only [Bool.false_eq_true, if_false]
    unfold maildirUnlink
    simp only [hd, bind_eq, pure_eq, call_bind]
    intro ru hpu
    rcases possible_unlinkat hpu with ⟨e, rfl⟩ | ⟨v, p', x, rfl, hp', hx, hcu⟩
    · simp only [isOk, Bool.not_false, ret_bind, if_true, call_bind']
      err_leaves
    · simp only [isOk, Bool.not_true, ret_bind, Bool.false_eq_true, if_false]
      have hpp : p' = p := by rw [hdp3] at hp'; exact (Option.some.inj hp').symm
      subst hpp
      generalize hw4 : stepWorld w3 (.unlinkat d ms.name) (.ok v) = w4
      have hdp4 : w4.dirPath d = some p' := by
        rw [← hdp3, ← hw4]
        apply dirPath_congr
        rw [stepWorld_obj, core_obj w3 _ _ d (lt_of_dirPath hdp3) (by simp [Call.subject])]
      have hlook4 : w4.lookup p' name = if name = ms.name then none else w1.lookup p' name := by
        rw [← hw4, stepWorld_lookup, hcu, lookup_unbind, hlook3]
        simp
      have hfile4 : w4.file fid = some f2 := by
        rw [← hw4, stepWorld_file, core_file w3 (.unlinkat d ms.name) (.ok v) fid hnf3 trivial]; exact hfile3
      have hnf4 : fid < w4.nextFid := by
        have := core_nextFid w3 (.unlinkat d ms.name) (.ok v)
        rw [← hw4, stepWorld_nextFid]; omega
      have hlen4 : w.handles.length ≤ w4.handles.length := by
        have := core_len w3 (.unlinkat d ms.name) (.ok v)
        rw [← hw4, stepWorld_handles]; omega
      intro ro hpo
      rcases possible_openRd hpo with ⟨e, rfl⟩ | ⟨p2, fidX, rfl, hp2, hl2, hco⟩
      · intro h; cases h
      have hpp : p2 = p' := by rw [hdp4] at hp2; exact (Option.some.inj hp2).symm
      subst hpp
      -- the name that was opened is the new file
      have hfidX : fidX = fid := by
        rw [hlook4] at hl2
        split at hl2
        · cases hl2
        · have hdir : (w1.dir p2).isSome := dir_isSome_of_lookup hl2
          rw [nf.bound hdir] at hl2
          exact (Option.some.inj hl2).symm
      subst hfidX
      generalize hw5 : stepWorld w4 (.openRd d name) (.ok w4.handles.length) = w5
      have hobj5 : w5.obj w4.handles.length = .file fidX 0 false := by
        rw [← hw5, stepWorld_obj, hco]; simp [obj_newHandle]
      have hfile5 : w5.file fidX = some f2 := by
        rw [← hw5, stepWorld_file, hco]; simpa using hfile4
      have hnf5 : fidX < w5.nextFid := by
        rw [← hw5, stepWorld_nextFid, hco]; simpa using hnf4
      have hlen5 : w5.handles.length = w4.handles.length + 1 := by
        rw [← hw5, stepWorld_handles, hco]; simp
      have hdata : f2.data = (messageWrite ms.msg).1 := by
        have := hcontent rfl
        simpa [nf.file] using this
      have fa5 : FileAt w5 fidX (messageWrite ms.msg).1 := ⟨hnf5, f2, hfile5, hdata⟩
      dsimp only
      unfold messageSetFile
      split
      · err_leaves
      split
      · err_leaves
      dsimp only
      cases hold : ms.fd with
      | none =>
        simp only [ret_bind, Bool.false_eq_true, if_false]
        intro _
        exact ⟨rfl, rfl, by omega, _, _, rfl, hlen4, hobj5, fa5⟩
      | some old =>
        simp only [bind_eq, pure_eq, call_bind, ret_bind, Bool.false_eq_true, if_false]
        intro rcl _
        simp only [ret_bind, Bool.false_eq_true, if_false]
        intro _
        have hol : Nat.lt old w.handles.length := hfd old hold
        have hne : w4.handles.length ≠ old := Nat.ne_of_gt (Nat.lt_of_lt_of_le hol hlen4)
        refine ⟨rfl, rfl, ?_, _, _, rfl, hlen4, ?_, fa5.step (.close old) rcl trivial⟩
        · have := core_len w5 (.close old) rcl
          rw [stepWorld_handles]; omega
        · rw [stepWorld_obj, core_close, obj_setObj]
          simp [hne, hobj5]

end Mdsort.Proofs.ExecSeq
