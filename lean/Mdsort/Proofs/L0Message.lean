import Mdsort.Model.L0.Message
import Mdsort.Model.Header
import Mdsort.Proofs.L0Basic

/-!
# L0 header scanners: no fault

`skipseparator`, `findheader` with its NUL writes, the loop of `message_parse_headers`, `unfoldheader`,
`searchheader`: on a buffer with a NUL at or after the start index every read and write is inside the object.
-/

namespace Mdsort.L0
open Mdsort Mdsort.L0.Buf

/-! ## writes of NUL keep every NUL -/

/-- Every NUL of `b` is a NUL of `b'` and the size is the same: what the in-place writes of `findheader` do. -/
def KeepsNuls (b b' : Buf) : Prop := b'.size = b.size ∧ ∀ k, b.get? k = .ok 0 → b'.get? k = .ok 0

theorem KeepsNuls.refl (b : Buf) : KeepsNuls b b := ⟨rfl, fun _ h => h⟩

theorem KeepsNuls.trans {a b c : Buf} (h1 : KeepsNuls a b) (h2 : KeepsNuls b c) : KeepsNuls a c :=
  ⟨h2.1.trans h1.1, fun k hk => h2.2 k (h1.2 k hk)⟩

theorem KeepsNuls.of_set {b b' : Buf} {i : Nat} (h : b.set i 0 = .ok b') : KeepsNuls b b' := by
  refine ⟨size_of_set h, fun k hk => ?_⟩
  rw [get?_set h]
  split
  · rfl
  · exact hk

theorem KeepsNuls.hasNul {b b' : Buf} (h : KeepsNuls b b') {i : Nat} (hn : b.HasNul i) : b'.HasNul i := by
  obtain ⟨k, hk, hg⟩ := hn
  exact ⟨k, hk, h.2 k hg⟩

theorem KeepsNuls.terminated {b b' : Buf} (h : KeepsNuls b b') (ht : b.Terminated) : b'.Terminated := by
  have hl := h.2 _ ht.last
  rw [← h.1] at hl
  obtain ⟨hlt, hv⟩ := get?_eq_ok_iff.mp hl
  unfold Terminated
  rw [Array.back?_eq_getElem?]
  unfold size at hv hlt
  rw [Array.getElem?_eq_getElem hlt, hv]

/-! ## skipseparator -/

theorem skipSeparator_refines (b : Buf) {i : Nat} (h : b.HasNul i) :
    ∃ j, skipSeparator b i = .ok j ∧ i ≤ j ∧ b.HasNul j ∧ b.view j = Model.skipSeparator (b.view i) := by
  unfold skipSeparator Model.skipSeparator
  rw [startsWithLit_spec h _ (by decide)]
  by_cases hs : startsWith (b.view i) [70, 114, 111, 109, 32] = true
  · simp only [hs, if_true]
    obtain ⟨hnone, hsome⟩ := strchr_spec h 10 (by decide)
    cases hq : Mdsort.strchr (b.view i) 10 with
    | none => rw [hnone hq]; exact ⟨i, rfl, Nat.le_refl _, h, rfl⟩
    | some q =>
      obtain ⟨j, hj, hij, hnj, hvj, hgj⟩ := hsome q hq
      rw [hj]
      refine ⟨j + 1, rfl, by omega, hnj.succ hgj (by decide), ?_⟩
      simp only
      rw [← hvj, view_cons hgj (by decide)]; rfl
  · simp only [hs, Bool.false_eq_true, if_false]
    exact ⟨i, rfl, Nat.le_refl _, h, rfl⟩

/-! ## findheader -/

theorem scanKey_eq {b : Buf} {i : Nat} {c : UInt8} (hg : b.get? i = .ok c) :
    scanKey b i = if c == 58 then .ok (some i) else if c == 0 || isspace c then .ok none else scanKey b (i + 1) := by
  rw [scanKey]; split
  · rename_i e he; rw [hg] at he; cases he
  · rename_i c' hc'; rw [hg] at hc'; cases hc'; rfl

/-- The key scan stays inside the string; the colon it finds is not the terminator. -/
theorem scanKey_ok (b : Buf) {i : Nat} (h : b.HasNul i) :
    ∃ r, scanKey b i = .ok r ∧ ∀ j, r = some j → i ≤ j ∧ b.HasNul j ∧ b.get? j = .ok 58 := by
  generalize hm : b.size - i = m
  induction m using Nat.strongRecOn generalizing i with
  | _ m ih =>
    have := h.lt
    rcases h.cases with ⟨hg, hv⟩ | ⟨c, hc, hg, hv, hn'⟩
    · rw [scanKey_eq hg]
      exact ⟨none, by simp, by simp⟩
    · rw [scanKey_eq hg]
      by_cases h58 : c = 58
      · subst h58
        exact ⟨some i, by simp, by intro j hj; cases hj; exact ⟨Nat.le_refl _, h, hg⟩⟩
      · have h58' : (c == 58) = false := by simpa using h58
        simp only [h58', Bool.false_eq_true, if_false]
        by_cases hsp : (c == 0 || isspace c) = true
        · simp only [hsp, if_true]; exact ⟨none, rfl, by simp⟩
        · simp only [hsp, Bool.false_eq_true, if_false]
          obtain ⟨r, hr, hp⟩ := ih _ (by omega) hn' rfl
          refine ⟨r, hr, fun j hj => ?_⟩
          obtain ⟨h1, h2⟩ := hp j hj
          exact ⟨by omega, h2⟩

theorem valueEnd_eq {b : Buf} {i : Nat} :
    valueEnd b i =
      match strchr b i 10 with
      | .error e => .error e
      | .ok none => .ok none
      | .ok (some p) =>
        match skipBlanks b (p + 1) with
        | .error e => .error e
        | .ok q => if q - (p + 1) == 0 then .ok (some p) else valueEnd b (p + (q - (p + 1)) + 1) := by
  rw [valueEnd]
  split
  · rename_i h; simp only [h]
  · rename_i h; simp only [h]
  · rename_i p h; simp only [h]; split <;> simp only [*]

/-- The value scan stays inside the string; the newline it finds is not the terminator. -/
theorem valueEnd_ok (b : Buf) {i : Nat} (h : b.HasNul i) :
    ∃ r, valueEnd b i = .ok r ∧ ∀ p, r = some p → i ≤ p ∧ b.HasNul p ∧ b.get? p = .ok 10 := by
  generalize hm : b.size - i = m
  induction m using Nat.strongRecOn generalizing i with
  | _ m ih =>
    have := h.lt
    rw [valueEnd_eq]
    obtain ⟨hnone, hsome⟩ := strchr_spec h 10 (by decide)
    cases hq : Mdsort.strchr (b.view i) 10 with
    | none => rw [hnone hq]; exact ⟨none, rfl, by simp⟩
    | some q =>
      obtain ⟨p, hp, hip, hnp, _, hgp⟩ := hsome q hq
      rw [hp]
      simp only
      have hn1 := hnp.succ hgp (by decide)
      rw [skipBlanks_spec hn1]
      simp only
      by_cases hz : Mdsort.nspaces (b.view (p + 1)) = 0
      · have : (p + 1 + Mdsort.nspaces (b.view (p + 1)) - (p + 1) == 0) = true := by simp [hz]
        simp only [this, if_true]
        exact ⟨some p, rfl, by intro p' hp'; cases hp'; exact ⟨hip, hnp, hgp⟩⟩
      · have : (p + 1 + Mdsort.nspaces (b.view (p + 1)) - (p + 1) == 0) = false := by
          simp only [beq_eq_false_iff_ne, ne_eq]; omega
        simp only [this, Bool.false_eq_true, if_false]
        have hle := nspaces_le (b.view (p + 1))
        obtain ⟨hn2, _⟩ := hn1.add _ hle
        have e : p + (p + 1 + Mdsort.nspaces (b.view (p + 1)) - (p + 1)) + 1 = p + 1 + Mdsort.nspaces (b.view (p + 1)) := by
          omega
        rw [e]
        have hlt := hn2.lt
        obtain ⟨r, hr, hpost⟩ := ih _ (by omega) hn2 rfl
        refine ⟨r, hr, fun p' hp' => ?_⟩
        obtain ⟨h1, h2⟩ := hpost p' hp'
        exact ⟨by omega, h2⟩

/-- What `findheader` guarantees about its result. -/
def FindHdr.Post (b : Buf) (i : Nat) : FindHdr → Prop
  | .notHeader => True
  | .cutAtColon b' => KeepsNuls b b'
  | .found b' ks vs =>
    KeepsNuls b b' ∧ ks.beg = i ∧ i ≤ ks.end_ ∧ ks.end_ < vs.beg ∧ vs.beg ≤ vs.end_ ∧
      b'.get? ks.end_ = .ok 0 ∧ b'.get? vs.end_ = .ok 0 ∧ b'.HasNul (vs.end_ + 1)

/-- `findheader`: both NUL writes and every read are inside the buffer. -/
theorem findHeader_ok (b : Buf) {i : Nat} (h : b.HasNul i) :
    ∃ r, findHeader b i = .ok r ∧ r.Post b i := by
  unfold findHeader
  obtain ⟨r, hr, hpost⟩ := scanKey_ok b h
  rw [hr]
  cases r with
  | none => exact ⟨_, rfl, trivial⟩
  | some colon =>
    obtain ⟨hic, hnc, hgc⟩ := hpost colon rfl
    simp only
    have hset := set_ok (b := b) 0 hnc.lt
    rw [hset]
    simp only
    generalize hb1 : (⟨b.bytes.setIfInBounds colon 0⟩ : Buf) = b1 at hset
    have hk1 := KeepsNuls.of_set hset
    have hn1 : b1.HasNul (colon + 1) := hk1.hasNul (hnc.succ hgc (by decide))
    rw [skipBlanks_spec hn1]
    simp only
    obtain ⟨hnv, _⟩ := hn1.add _ (nspaces_le (b1.view (colon + 1)))
    obtain ⟨r2, hr2, hpost2⟩ := valueEnd_ok b1 hnv
    rw [hr2]
    cases r2 with
    | none => exact ⟨_, rfl, hk1⟩
    | some vend =>
      obtain ⟨hvv, hne, hge⟩ := hpost2 vend rfl
      simp only
      have hset2 := set_ok (b := b1) 0 hne.lt
      rw [hset2]
      simp only
      generalize hb2 : (⟨b1.bytes.setIfInBounds vend 0⟩ : Buf) = b2 at hset2
      have hk2 := KeepsNuls.of_set hset2
      refine ⟨_, rfl, hk1.trans hk2, rfl, hic, by simp only; omega, hvv, ?_, ?_, ?_⟩
      · simp only
        exact hk2.2 _ (get?_set_self' hset)
      · simp only
        rw [get?_set hset2]; simp
      · exact hk2.hasNul (hne.succ hge (by decide))
where
  get?_set_self' {b b' : Buf} {i : Nat} {v : UInt8} (h : b.set i v = .ok b') : b'.get? i = .ok v := by
    rw [get?_set h]; simp

/-! ## vectors -/

theorem Vec.growSiz_ge (s need : Nat) (hs : 0 < s) : need ≤ Vec.growSiz s need := by
  fun_induction Vec.growSiz s need with
  | case1 s h ih => exact ih (by omega)
  | case2 s h => omega

/-- `VECTOR_CALLOC` never writes outside the capacity, and the pointer it returns is valid for the new vector. -/
theorem Vec.calloc_ok {α : Type} (v : Vec α) (z : α) :
    ∃ v' p, v.calloc z = .ok (v', p) ∧ v'.items = v.items.push z ∧ p.gen = v'.gen ∧ p.idx = v.items.size := by
  unfold Vec.calloc
  have hitems : v.reserve1.items = v.items := by unfold Vec.reserve1; split <;> rfl
  have hlt : v.reserve1.items.size < v.reserve1.siz := by
    unfold Vec.reserve1
    split
    · omega
    · simp only
      have := Vec.growSiz_ge (if v.siz = 0 then 16 else v.siz) (v.items.size + 1) (by split <;> omega)
      omega
  rw [if_pos hlt]
  exact ⟨_, _, rfl, by simp [hitems], rfl, by simp [hitems]⟩

/-- The fault the generation numbers exist for: once `VECTOR_CALLOC` had to reallocate, every pointer taken
before it is stale, and dereferencing it is `Fault.uaf` (what message.c did with `msg` at the pinned commit). -/
theorem Vec.deref_stale {α : Type} (v : Vec α) (z : α) (p : Ptr) (hp : p.gen = v.gen)
    (hfull : ¬ v.items.size + 1 < v.siz) :
    ∃ v' q, v.calloc z = .ok (v', q) ∧ v'.deref p = .error .uaf := by
  obtain ⟨v', q, hc, _, _, _⟩ := Vec.calloc_ok v z
  refine ⟨v', q, hc, ?_⟩
  have hg : v'.gen = v.gen + 1 := by
    unfold Vec.calloc at hc
    simp only at hc
    split at hc
    · cases hc; simp [Vec.reserve1, hfull]
    · cases hc
  unfold Vec.deref
  have : p.gen ≠ v'.gen := by omega
  simp [this]

theorem push_set_last{α : Type} (xs : Array α) (z a : α) : (xs.push z).setIfInBounds xs.size a = xs.push a := by
  apply Array.ext'
  simp only [Array.toList_setIfInBounds, Array.toList_push]
  rw [List.set_append_right _ _ (by simp)]
  simp

theorem Vec.store_ok {α : Type} (v : Vec α) (p : Ptr) (a : α) (hg : p.gen = v.gen) (hi : p.idx < v.items.size) :
    v.store p a = .ok { v with items := v.items.setIfInBounds p.idx a } := by
  unfold Vec.store; simp [hg, hi]

/-! ## message_parse_headers -/

/-- Every `key` and `val` pointer of the table points at a C string inside `me_buf`. -/
def HdrsIn (b : Buf) (hs : Array Hdr0) : Prop := ∀ h ∈ hs, b.HasNul h.key ∧ b.HasNul h.val

theorem HdrsIn.keeps {b b' : Buf} {hs : Array Hdr0} (h : HdrsIn b hs) (hk : KeepsNuls b b') : HdrsIn b' hs :=
  fun x hx => ⟨hk.hasNul (h x hx).1, hk.hasNul (h x hx).2⟩

theorem parseLoop_eq (b : Buf) (buf : Nat) (hdrs : Vec Hdr0) :
    parseLoop b buf hdrs =
      match findHeader b buf with
      | .error e => .error e
      | .ok .notHeader => .ok (b, hdrs, buf)
      | .ok (.cutAtColon b') => .ok (b', hdrs, buf)
      | .ok (.found b' ks vs) =>
        match hdrs.calloc default with
        | .error e => .error e
        | .ok (hdrs1, p) =>
          match hdrs1.store p { id := hdrs1.items.size, key := ks.beg, val := vs.beg } with
          | .error e => .error e
          | .ok hdrs2 => parseLoop b' (vs.end_ + 1) hdrs2 := by
  rw [parseLoop]
  split
  · rename_i h; simp only [h]
  · rename_i h; simp only [h]
  · rename_i h; simp only [h]
  · rename_i h; simp only [h]; split <;> simp only [*]
    split <;> simp only [*]

/-- The loop of `message_parse_headers`: no fault; every header points at a C string of the final buffer. -/
theorem parseLoop_ok (b : Buf) {buf : Nat} (h : b.HasNul buf) (hdrs : Vec Hdr0) (hin : HdrsIn b hdrs.items) :
    ∃ b' hdrs' buf', parseLoop b buf hdrs = .ok (b', hdrs', buf') ∧ KeepsNuls b b' ∧ b'.HasNul buf' ∧
      HdrsIn b' hdrs'.items := by
  generalize hm : b.size - buf = m
  induction m using Nat.strongRecOn generalizing b buf hdrs with
  | _ m ih =>
    rw [parseLoop_eq]
    obtain ⟨r, hr, hpost⟩ := findHeader_ok b h
    rw [hr]
    match r, hpost with
    | .notHeader, _ => exact ⟨b, hdrs, buf, rfl, KeepsNuls.refl b, h, hin⟩
    | .cutAtColon b', hk => exact ⟨b', hdrs, buf, rfl, hk, hk.hasNul h, hin.keeps hk⟩
    | .found b' ks vs, ⟨hk, hkb, h1, h2, h3, hg1, hg2, hn⟩ =>
      simp only
      obtain ⟨v1, p, hc, hitems, hgen, hidx⟩ := Vec.calloc_ok hdrs (default : Hdr0)
      rw [hc]
      simp only
      rw [Vec.store_ok v1 p _ hgen (by rw [hitems, hidx]; simp)]
      simp only
      have hlt := h.lt
      have hsz := hk.1
      have hin' : HdrsIn b' (v1.items.setIfInBounds p.idx { id := v1.items.size, key := ks.beg, val := vs.beg }) := by
        intro x hx
        rw [hitems, hidx] at hx
        rw [push_set_last] at hx
        rcases Array.mem_push.mp hx with hx | hx
        · exact (hin.keeps hk) x hx
        · subst hx
          exact ⟨⟨ks.end_, by simp only; omega, hg1⟩, ⟨vs.end_, h3, hg2⟩⟩
      obtain ⟨b'', hd, bf, hrec, hk2, hn2, hin2⟩ := ih (b'.size - (vs.end_ + 1)) (by omega) b' hn
        { v1 with items := v1.items.setIfInBounds p.idx { id := v1.items.size, key := ks.beg, val := vs.beg } } hin' rfl
      exact ⟨b'', hd, bf, hrec, hk.trans hk2, hn2, hin2⟩

theorem skipNewlines_eq {b : Buf} {i : Nat} {c : UInt8} (hg : b.get? i = .ok c) :
    skipNewlines b i = if c == 10 then skipNewlines b (i + 1) else .ok i := by
  rw [skipNewlines]; split
  · rename_i e he; rw [hg] at he; cases he
  · rename_i c' hc'; rw [hg] at hc'; cases hc'; rfl

theorem skipNewlines_ok (b : Buf) {i : Nat} (h : b.HasNul i) :
    ∃ j, skipNewlines b i = .ok j ∧ i ≤ j ∧ b.HasNul j ∧ b.view j = (b.view i).dropWhile (· == 10) := by
  generalize hm : b.size - i = m
  induction m using Nat.strongRecOn generalizing i with
  | _ m ih =>
    have := h.lt
    rcases h.cases with ⟨hg, hv⟩ | ⟨c, hc, hg, hv, hn'⟩
    · rw [skipNewlines_eq hg]
      exact ⟨i, by simp, Nat.le_refl _, h, by simp [hv]⟩
    · rw [skipNewlines_eq hg, hv]
      by_cases h10 : (c == 10) = true
      · have e : List.dropWhile (· == 10) (c :: b.view (i + 1)) = List.dropWhile (· == 10) (b.view (i + 1)) := by
          simp [List.dropWhile_cons, h10]
        rw [if_pos h10, e]
        obtain ⟨j, hj, h1, h2⟩ := ih _ (by omega) hn' rfl
        exact ⟨j, hj, by omega, h2⟩
      · have e : List.dropWhile (· == 10) (c :: b.view (i + 1)) = c :: b.view (i + 1) := by
          simp [List.dropWhile_cons, h10]
        rw [if_neg h10, e]
        exact ⟨i, rfl, Nat.le_refl _, h, hv⟩

/-- `message_parse_headers` on a NUL-terminated `me_buf`: no fault; afterwards the buffer is still terminated, the
body pointer and every header's key and value point at C strings inside it. -/
theorem parseHeaders_ok (b : Buf) (ht : b.Terminated) :
    ∃ b' hdrs body, parseHeaders b = .ok (b', hdrs, body) ∧ b'.Terminated ∧ b'.size = b.size ∧ b'.HasNul body ∧
      HdrsIn b' hdrs.items := by
  unfold parseHeaders
  obtain ⟨j, hj, _, hnj, _⟩ := skipSeparator_refines b ht.hasNul0
  rw [hj]
  simp only
  obtain ⟨b', hdrs, buf', hl, hk, hn, hin⟩ := parseLoop_ok b hnj Vec.init (by intro x hx; simp [Vec.init] at hx)
  rw [hl]
  simp only
  obtain ⟨body, hb, _, hnb, _⟩ := skipNewlines_ok b' hn
  rw [hb]
  exact ⟨b', hdrs, body, rfl, hk.terminated ht, hk.1, hnb, hin⟩

/-! ## unfoldheader -/

/-- The character found by `strchr` lies before the terminator. -/
theorem strchr_len {b : Buf} {i : Nat} (h : b.HasNul i) (c : UInt8) (hc : c ≠ 0) :
    ∀ j, strchr b i c = .ok (some j) → j + (b.view j).length = i + (b.view i).length := by
  generalize hm : b.size - i = m
  induction m using Nat.strongRecOn generalizing i with
  | _ m ih =>
    intro j hj
    have := h.lt
    rcases h.cases with ⟨hg, hv⟩ | ⟨x, hx, hg, hv, hn'⟩
    · rw [strchr_eq c hg] at hj
      have : (0 : UInt8) ≠ c := fun h => hc h.symm
      simp [this] at hj
    · rw [strchr_eq c hg] at hj
      by_cases hxc : x = c
      · simp only [hxc, beq_self_eq_true, if_true, Except.ok.injEq, Option.some.injEq] at hj
        subst hj; rfl
      · simp only [beq_iff_eq, hxc, hx, if_false] at hj
        rw [ih _ (by omega) hn' rfl j hj, hv]
        simp only [List.length_cons]; omega

theorem skipTabs_eq {b : Buf} {i : Nat} {c : UInt8} (hg : b.get? i = .ok c) :
    skipTabs b i = if c == 9 then skipTabs b (i + 1) else .ok i := by
  rw [skipTabs]; split
  · rename_i e he; rw [hg] at he; cases he
  · rename_i c' hc'; rw [hg] at hc'; cases hc'; rfl

theorem skipTabs_ok (b : Buf) {i : Nat} (h : b.HasNul i) :
    ∃ j, skipTabs b i = .ok j ∧ i ≤ j ∧ b.HasNul j ∧ j + (b.view j).length = i + (b.view i).length := by
  generalize hm : b.size - i = m
  induction m using Nat.strongRecOn generalizing i with
  | _ m ih =>
    have := h.lt
    rcases h.cases with ⟨hg, hv⟩ | ⟨c, hc, hg, hv, hn'⟩
    · rw [skipTabs_eq hg]
      exact ⟨i, by simp, Nat.le_refl _, h, rfl⟩
    · rw [skipTabs_eq hg]
      by_cases h9 : (c == 9) = true
      · rw [if_pos h9]
        obtain ⟨j, hj, h1, h2, h3⟩ := ih _ (by omega) hn' rfl
        refine ⟨j, hj, by omega, h2, ?_⟩
        rw [h3, hv]; simp only [List.length_cons]; omega
      · rw [if_neg h9]
        exact ⟨i, rfl, Nat.le_refl _, h, rfl⟩

theorem lineEnd_ok (s : Buf) {i : Nat} (h : s.HasNul i) :
    ∃ e, lineEnd s i = .ok e ∧ i ≤ e ∧ s.HasNul e ∧ e + (s.view e).length = i + (s.view i).length ∧
      (s.get? e = .ok 10 ∨ s.get? e = .ok 0) := by
  unfold lineEnd
  obtain ⟨hnone, hsome⟩ := strchr_spec h 10 (by decide)
  cases hq : Mdsort.strchr (s.view i) 10 with
  | none =>
    rw [hnone hq]
    simp only
    rw [strend_spec h]
    have hg := h.get?_end
    refine ⟨_, rfl, by omega, ⟨_, Nat.le_refl _, hg⟩, ?_, .inr hg⟩
    rw [view_nul hg]; simp
  | some q =>
    obtain ⟨e, he, hie, hne, _, hge⟩ := hsome q hq
    rw [he]
    exact ⟨e, rfl, hie, hne, strchr_len h 10 (by decide) e he, .inl hge⟩

theorem copyRange_ok (s : Buf) (e : Nat) (he : e ≤ s.size) :
    ∀ (n str : Nat) (dec : Buf) (i : Nat), e - str = n → str ≤ e → i + (e - str) ≤ dec.size →
      ∃ dec', copyRange s str e dec i = .ok (dec', i + (e - str)) ∧ dec'.size = dec.size := by
  intro n
  induction n with
  | zero =>
    intro str dec i hn hse _
    refine ⟨dec, ?_, rfl⟩
    rw [copyRange, if_neg (by omega), hn]; rfl
  | succ n ih =>
    intro str dec i hn hse hi
    rw [copyRange, if_pos (by omega)]
    obtain ⟨c, hg⟩ : ∃ c, s.get? str = .ok c := ⟨_, get?_of_lt (show str < s.size by omega)⟩
    rw [hg]
    simp only
    have hset := set_ok (b := dec) c (show i < dec.size by omega)
    rw [hset]
    simp only
    obtain ⟨d', hd, hsz⟩ := ih (str + 1) ⟨dec.bytes.setIfInBounds i c⟩ (i + 1) (by omega) (by omega)
      (by rw [size_of_set hset]; omega)
    refine ⟨d', ?_, by rw [hsz, size_of_set hset]⟩
    rw [hd]; congr 2; omega

theorem unfoldLoop_eq {s : Buf} {str : Nat} {c : UInt8} (dec : Buf) (k : Nat) (hg : s.get? str = .ok c) :
    unfoldLoop s str dec k =
      if c == 0 then .ok (dec, k)
      else
        match skipTabs s str with
        | .error e => .error e
        | .ok str1 =>
          match lineEnd s str1 with
          | .error e => .error e
          | .ok e =>
            match copyRange s str1 e dec k with
            | .error e => .error e
            | .ok (dec', k') =>
              match s.get? e with
              | .error e => .error e
              | .ok c2 =>
                if c2 == 10 then unfoldLoop s (e + 1) dec' k'
                else if c2 == 0 then .ok (dec', k')
                else unfoldLoop s e dec' k' := by
  rw [unfoldLoop]; split
  · rename_i e he; rw [hg] at he; cases he
  · rename_i c' hc'; rw [hg] at hc'; cases hc'
    split
    · rfl
    · split <;> simp only [*]
      split <;> simp only [*]
      split <;> simp only [*]
      split <;> simp only [*]
      split
      · simp only [*, if_true]
      · split <;> simp [*]

/-- The loop of `unfoldheader`: while the bytes written plus the bytes still to read fit below `dec`'s size, every
write is inside `dec` and the final index leaves room for the terminator. -/
theorem unfoldLoop_ok (s : Buf) {str : Nat} (h : s.HasNul str) (dec : Buf) (k : Nat)
    (hk : k + (s.view str).length < dec.size) :
    ∃ dec' k', unfoldLoop s str dec k = .ok (dec', k') ∧ dec'.size = dec.size ∧ k' < dec.size := by
  generalize hm : s.size - str = m
  induction m using Nat.strongRecOn generalizing str dec k with
  | _ m ih =>
    have := h.lt
    rcases h.cases with ⟨hg, hv⟩ | ⟨c, hc, hg, hv, hn'⟩
    · rw [unfoldLoop_eq dec k hg]
      exact ⟨dec, k, by simp, rfl, by omega⟩
    · rw [unfoldLoop_eq dec k hg]
      simp only [beq_iff_eq, hc, if_false]
      obtain ⟨str1, hs1, h1a, h1b, h1c⟩ := skipTabs_ok s h
      rw [hs1]
      simp only
      obtain ⟨e, he, h2a, h2b, h2c, h2d⟩ := lineEnd_ok s h1b
      rw [he]
      simp only
      obtain ⟨dec', hcp, hsz⟩ := copyRange_ok s e (Nat.le_of_lt h2b.lt) (e - str1) str1 dec k rfl h2a (by omega)
      rw [hcp]
      simp only
      rcases h2d with h10 | h0
      · rw [h10]
        simp only [beq_self_eq_true, if_true]
        have hn3 := h2b.succ h10 (by decide)
        have hv3 := view_cons h10 (by decide)
        have hl3 : (s.view e).length = (s.view (e + 1)).length + 1 := by rw [hv3]; simp
        obtain ⟨d2, k2, hr, hsz2, hk2⟩ := ih (s.size - (e + 1)) (by omega) hn3 dec' (k + (e - str1))
          (by rw [hsz]; omega) rfl
        exact ⟨d2, k2, hr, by rw [hsz2, hsz], by rw [← hsz]; exact hk2⟩
      · rw [h0]
        have : ((0 : UInt8) == 10) = false := by decide
        simp only [this, Bool.false_eq_true, if_false, beq_self_eq_true, if_true]
        exact ⟨dec', _, rfl, hsz, by omega⟩

/-- `unfoldheader`: every write into the `strlen + 1` bytes of the copy is inside it, including the final
`dec[i] = '\0'`; the result is a C string. -/
theorem unfoldHeader_ok (s : Buf) {i : Nat} (h : s.HasNul i) :
    ∃ d, unfoldHeader s i = .ok d ∧ d.HasNul 0 ∧ d.size = (s.view i).length + 1 := by
  unfold unfoldHeader
  rw [strdup_spec h]
  simp only
  obtain ⟨hnone, hsome⟩ := strchr_spec h 10 (by decide)
  cases hq : Mdsort.strchr (s.view i) 10 with
  | none =>
    rw [hnone hq]
    exact ⟨_, rfl, (ofBytes_terminated _).hasNul0, size_ofBytes _⟩
  | some q =>
    obtain ⟨e, he, _⟩ := hsome q hq
    rw [he]
    simp only
    obtain ⟨d, k, hl, hsz, hk⟩ := unfoldLoop_ok s h (ofBytes (s.view i)) 0 (by rw [size_ofBytes]; omega)
    rw [hl]
    simp only
    have hset := set_ok (b := d) 0 (show k < d.size by omega)
    rw [hset]
    refine ⟨_, rfl, ⟨k, Nat.zero_le _, ?_⟩, by rw [size_of_set hset, hsz, size_ofBytes]⟩
    rw [get?_set hset]; simp

/-! ## searchheader -/

theorem tolower_pos {y : UInt8} (hy : y ≠ 0) : (0 : UInt8) < tolower y := by
  have hy' : y.toNat ≠ 0 := fun e => hy (UInt8.toNat_inj.mp (by simpa using e))
  have hlt := y.toNat_lt
  unfold tolower isupper
  split
  · rename_i hu
    simp only [Bool.and_eq_true, decide_eq_true_eq, UInt8.le_iff_toNat_le] at hu
    rw [UInt8.lt_iff_toNat_lt, UInt8.toNat_add]
    simp only [UInt8.toNat_ofNat, UInt8.reduceToNat] at hu ⊢
    omega
  · rw [UInt8.lt_iff_toNat_lt]
    simp only [UInt8.toNat_ofNat, UInt8.reduceToNat]
    omega

theorem strcasecmp_eq {a : Buf} {i : Nat} {x : UInt8} (b : Buf) (j : Nat) (hg : a.get? i = .ok x) :
    strcasecmp a i b j =
      match b.get? j with
      | .error e => .error e
      | .ok y =>
        if tolower x < tolower y then .ok .lt
        else if tolower x > tolower y then .ok .gt
        else if x == 0 then .ok .eq
        else strcasecmp a (i + 1) b (j + 1) := by
  rw [strcasecmp]; split
  · rename_i e he; rw [hg] at he; cases he
  · rename_i c' hc'; rw [hg] at hc'; cases hc'
    split <;> simp only [*]

/-- `strcasecmp` on two C strings: no fault, the ordering of the L1 model. -/
theorem strcasecmp_spec {a b : Buf} {i j : Nat} (ha : a.HasNul i) (hb : b.HasNul j) :
    strcasecmp a i b j = .ok (Mdsort.strcasecmp (a.view i) (b.view j)) := by
  generalize hm : a.size - i = m
  induction m using Nat.strongRecOn generalizing i j with
  | _ m ih =>
    have := ha.lt
    have ht0 : tolower 0 = 0 := by decide
    rcases ha.cases with ⟨hga, hva⟩ | ⟨x, hx, hga, hva, ha'⟩ <;>
    rcases hb.cases with ⟨hgb, hvb⟩ | ⟨y, hy, hgb, hvb, hb'⟩
    · rw [strcasecmp_eq b j hga, hgb, hva, hvb]
      simp [Mdsort.strcasecmp, ht0]
    · rw [strcasecmp_eq b j hga, hgb, hva, hvb]
      simp [Mdsort.strcasecmp, ht0, tolower_pos hy]
    · rw [strcasecmp_eq b j hga, hgb, hva, hvb]
      have hp := tolower_pos hx
      have hn : ¬ tolower x < 0 := by
        rw [UInt8.lt_iff_toNat_lt]; simp
      simp [Mdsort.strcasecmp, ht0, hp, hn]
    · rw [strcasecmp_eq b j hga, hgb, hva, hvb]
      simp only [Mdsort.strcasecmp, beq_iff_eq, hx, if_false]
      rw [ih _ (by omega) ha' hb' rfl]
      split
      · rfl
      · split <;> rfl

theorem cmpKey_ok {kb : Buf} {k : Nat} {buf : Buf} {hs : Array Hdr0} {nmemb idx : Nat}
    (hk : kb.HasNul k) (hin : HdrsIn buf hs) (hn : nmemb ≤ hs.size) (hi : idx < nmemb) :
    ∃ o, cmpKey kb k buf hs nmemb idx = .ok o := by
  unfold cmpKey
  have hlt : idx < hs.size := by omega
  simp only [hi, if_true, Array.getElem?_eq_getElem hlt]
  exact ⟨_, strcasecmp_spec hk (hin _ (Array.getElem_mem hlt)).1⟩

theorem scanBeg_ok {kb : Buf} {k : Nat} {buf : Buf} {hs : Array Hdr0} {nmemb : Nat}
    (hk : kb.HasNul k) (hin : HdrsIn buf hs) (hn : nmemb ≤ hs.size) :
    ∀ m, m ≤ nmemb → ∃ r, scanBeg kb k buf hs nmemb m = .ok r ∧ r ≤ m := by
  intro m
  induction m with
  | zero => intro _; exact ⟨0, rfl, Nat.le_refl _⟩
  | succ m ih =>
    intro hm
    rw [scanBeg]
    obtain ⟨o, ho⟩ := cmpKey_ok (idx := m) hk hin hn (by omega)
    rw [ho]
    cases o with
    | eq =>
      obtain ⟨r, hr, hle⟩ := ih (by omega)
      exact ⟨r, hr, by omega⟩
    | lt => exact ⟨_, rfl, Nat.le_refl _⟩
    | gt => exact ⟨_, rfl, Nat.le_refl _⟩

theorem scanEnd_ok {kb : Buf} {k : Nat} {buf : Buf} {hs : Array Hdr0} {nmemb : Nat}
    (hk : kb.HasNul k) (hin : HdrsIn buf hs) (hn : nmemb ≤ hs.size) :
    ∀ e, e ≤ nmemb → ∃ r, scanEnd kb k buf hs nmemb e = .ok r ∧ e ≤ r ∧ r ≤ nmemb := by
  intro e
  generalize hm : nmemb - e = m
  induction m using Nat.strongRecOn generalizing e with
  | _ m ih =>
    intro he
    rw [scanEnd]
    by_cases hlt : e < nmemb
    · rw [if_pos hlt]
      obtain ⟨o, ho⟩ := cmpKey_ok (idx := e) hk hin hn hlt
      rw [ho]
      cases o with
      | eq =>
        obtain ⟨r, hr, h1, h2⟩ := ih _ (by omega) (e + 1) rfl (by omega)
        exact ⟨r, hr, by omega, h2⟩
      | lt => exact ⟨_, rfl, Nat.le_refl _, by omega⟩
      | gt => exact ⟨_, rfl, Nat.le_refl _, by omega⟩
    · rw [if_neg hlt]
      exact ⟨e, rfl, Nat.le_refl _, he⟩

theorem bsearch_ok {kb : Buf} {k : Nat} {buf : Buf} {hs : Array Hdr0} {nmemb : Nat}
    (hk : kb.HasNul k) (hin : HdrsIn buf hs) (hn : nmemb ≤ hs.size) :
    ∀ lo hi, hi < nmemb → ∃ r, bsearch kb k buf hs nmemb lo hi = .ok r ∧
      ∀ beg n, r = some (beg, n) → 0 < n ∧ beg + n ≤ nmemb := by
  intro lo hi
  generalize hm : hi + 1 - lo = m
  induction m using Nat.strongRecOn generalizing lo hi with
  | _ m ih =>
    intro hhi
    rw [bsearch]
    by_cases hle : lo ≤ hi
    · rw [if_pos hle]
      simp only
      have hmi : lo + (hi - lo) / 2 < nmemb := by omega
      have hmi_le : lo + (hi - lo) / 2 ≤ hi := by omega
      obtain ⟨o, ho⟩ := cmpKey_ok (idx := lo + (hi - lo) / 2) hk hin hn hmi
      rw [ho]
      cases o with
      | eq =>
        simp only
        obtain ⟨beg, hb, hbl⟩ := scanBeg_ok hk hin hn (lo + (hi - lo) / 2) (by omega)
        obtain ⟨e, he, hel, heu⟩ := scanEnd_ok hk hin hn (lo + (hi - lo) / 2 + 1) (by omega)
        rw [hb, he]
        refine ⟨_, rfl, ?_⟩
        intro b' n' h'
        simp only [Option.some.injEq, Prod.mk.injEq] at h'
        omega
      | gt =>
        simp only
        exact ih _ (by omega) _ _ rfl hhi
      | lt =>
        simp only
        by_cases hpos : lo + (hi - lo) / 2 > 0
        · rw [if_pos hpos]
          exact ih _ (by omega) _ _ rfl (by omega)
        · rw [if_neg hpos]
          exact ⟨none, rfl, by simp⟩
    · rw [if_neg hle]
      exact ⟨none, rfl, by simp⟩

/-- `searchheader`: every probe `headers + mi`, `headers + beg - 1`, `headers + end` is inside the table and every
key comparison stays inside its strings; the slice reported is inside the table. -/
theorem searchHeader_ok {kb : Buf} {k : Nat} {buf : Buf} {hs : Array Hdr0} {nmemb : Nat}
    (hk : kb.HasNul k) (hin : HdrsIn buf hs) (hn : nmemb ≤ hs.size) :
    ∃ r, searchHeader kb k buf hs nmemb = .ok r ∧ ∀ beg n, r = some (beg, n) → 0 < n ∧ beg + n ≤ nmemb := by
  unfold searchHeader
  by_cases h0 : nmemb = 0
  · simp [h0]
  · have : (nmemb == 0) = false := by simpa using h0
    simp only [this, Bool.false_eq_true, if_false]
    exact bsearch_ok hk hin hn 0 (nmemb - 1) (by omega)

/-- The header scanners, for every terminated buffer and every start index inside it. -/
theorem header_scanners_ok (b : Buf) (hb : b.Terminated) (i : Nat) (hi : i < b.size) :
    (∃ j, skipSeparator b i = .ok j ∧ i ≤ j ∧ j < b.size ∧ b.view j = Model.skipSeparator (b.view i)) ∧
    (∃ r, findHeader b i = .ok r ∧ r.Post b i) ∧
    (∃ d, unfoldHeader b i = .ok d ∧ d.HasNul 0 ∧ d.size = (b.view i).length + 1) ∧
    (∀ (a : Buf) (j : Nat), a.Terminated → j < a.size →
      strcasecmp b i a j = .ok (Mdsort.strcasecmp (b.view i) (a.view j))) := by
  have h : b.HasNul i := hb.hasNul hi
  refine ⟨?_, findHeader_ok b h, unfoldHeader_ok b h, fun a j ha hj => strcasecmp_spec h (ha.hasNul hj)⟩
  obtain ⟨j, hj, h1, h2, h3⟩ := skipSeparator_refines b h
  exact ⟨j, hj, h1, h2.lt, h3⟩

end Mdsort.L0
