import Mdsort.Proofs.B64

/-! RFC 2047: `rfc2047_decode` model = reference encoded-word decoder. -/

namespace Mdsort.Proofs
open Mdsort Model Spec

/-! ### One encoded word -/

theorem strchr_eq (s : Bytes) (c : UInt8) :
    strchr s c = match s.dropWhile (fun x => x != c) with
      | [] => none
      | q => some q := by
  induction s with
  | nil => simp [strchr]
  | cons x r ih =>
    unfold strchr
    by_cases hx : x = c
    · subst hx; simp
    · have : (x == c) = false := by simpa using hx
      simp only [this, Bool.false_eq_true, if_false, ih]
      have : (x != c) = true := by simpa using hx
      simp [this]

theorem dropWhile_ne_head (s : Bytes) (c : UInt8) :
    s.dropWhile (fun x => x != c) = [] ∨ ∃ q, s.dropWhile (fun x => x != c) = c :: q := by
  induction s with
  | nil => simp
  | cons x r ih =>
    by_cases hx : x = c
    · subst hx; right; exact ⟨r, by simp⟩
    · have : (x != c) = true := by simpa using hx
      simpa [List.dropWhile_cons, this] using ih

theorem findSub_cons (p : Bytes) (x : UInt8) (r : Bytes) :
    findSub p (x :: r) = if p.isPrefixOf (x :: r) then some 0 else (findSub p r).map (· + 1) := by
  rw [findSub]

theorem splitAtQE_eq : ∀ t : Bytes,
    splitAtQE t = (findSub [63, 61] t).map (fun k => (t.take k, t.drop (k + 2)))
  | [] => by simp [splitAtQE, findSub]
  | [x] => by simp [splitAtQE, findSub]
  | x :: y :: r => by
    have ih := splitAtQE_eq (y :: r)
    by_cases h : x = 63 ∧ y = 61
    · obtain ⟨rfl, rfl⟩ := h
      simp [splitAtQE, findSub]
    · rw [splitAtQE]
      · rw [ih]
        have hp : List.isPrefixOf [63, 61] (x :: y :: r) = false := by
          simp only [List.isPrefixOf]
          cases hx : (63 == x) <;> cases hy : (61 == y) <;> simp
          simp at hx hy; exact h ⟨hx.symm, hy.symm⟩
        rw [findSub_cons [63, 61] x (y :: r)]
        simp only [hp]
        generalize findSub [63, 61] (y :: r) = o
        cases o <;> simp
      · intro h'; simp at h'
      · intro r' h' h''; simp at h''; exact h ⟨h', h''.1⟩

theorem toupper_B : ∀ c : UInt8, (toupper c == 66) = (c == 66 || c == 98) := by
  apply forall_u8; decide +kernel
theorem toupper_Q : ∀ c : UInt8, (toupper c == 81) = (c == 81 || c == 113) := by
  apply forall_u8; decide +kernel

theorem tokBytes_B (t : Bytes) : tokBytes (.word .B t) = base64Decode t := by
  simp [tokBytes, base64Decode, base64DecodeRaw, b64pton_eq_spec']
theorem tokBytes_Q (t : Bytes) : tokBytes (.word .Q t) = some (qpLoop true t []) := by
  simp [tokBytes, qpLoop_gen]


theorem word_eq (es : Bytes) :
    rfc2047Word es = match encodedWord es with
      | none => none
      | some (e, text, rest) => (tokBytes (.word e text)).map (·, rest) := by
  unfold rfc2047Word encodedWord
  rw [strchr_eq]
  rcases dropWhile_ne_head es 63 with h | ⟨q, h⟩
  · simp [h]
  · rw [h]
    cases q with
    | nil => simp
    | cons enc es2 =>
      cases es2 with
      | nil => simp
      | cons x es3 =>
        by_cases hx : x = 63
        · subst hx
          simp only [List.drop_one, List.tail_cons]
          rw [splitAtQE_eq]
          cases findSub [63, 61] es3 with
          | none => simp
          | some len =>
            simp only [Option.map_some]
            have hB := toupper_B enc
            have hQ := toupper_Q enc
            split
            · rename_i hu
              have hb : (enc == 66 || enc == 98) = true := by rw [← hB, hu]; rfl
              simp only [hb, if_true, tokBytes_B]
              cases base64Decode (List.take len es3) <;> simp
            · rename_i hu
              have hb : (enc == 66 || enc == 98) = false := by rw [← hB, hu]; rfl
              have hq : (enc == 81 || enc == 113) = true := by rw [← hQ, hu]; rfl
              simp [hb, hq, tokBytes_Q]
            · rename_i h1 h2
              have hb : (enc == 66 || enc == 98) = false := by
                rw [← hB]; simpa using h1
              have hq : (enc == 81 || enc == 113) = false := by
                rw [← hQ]; simpa using h2
              simp [hb, hq]
        · simp only [List.drop_one, List.tail_cons]
          split
          · rename_i heq; simp at heq; exact absurd heq.1 hx
          · split
            · rfl
            · rename_i heq
              split at heq
              · rename_i heq2; simp at heq2; exact absurd heq2.2.1 hx
              · contradiction

/-! ### Equations of the tokeniser -/

theorem tokens_nil : tokens [] = some [] := by
  rw [tokens]

theorem tokens_word (r : Bytes) : tokens (61 :: 63 :: r) =
    match encodedWord r with
    | none => none
    | some (e, text, rest) => (tokens rest).map (Tok.word e text :: ·) := by
  rw [tokens]
  split <;> simp [*]

theorem tokens_lit (c : UInt8) (r : Bytes) (h : ¬ (c = 61 ∧ ∃ r', r = 63 :: r')) :
    tokens (c :: r) = (tokens r).map (Tok.lit c :: ·) := by
  rw [tokens]
  intro r' hc hr
  exact h ⟨hc, r', hr⟩

/-! ### Dropping inter-word white space -/

def headIsWord : List Tok → Bool
  | a :: _ => isWord a
  | [] => false

def sel (ts : List Tok) : List Tok :=
  if headIsWord (ts.dropWhile isSpaceTok) then ts.dropWhile isSpaceTok else ts

theorem diws_nil : dropInterWordSpace [] = [] := by rw [dropInterWordSpace]

theorem diws_word (t : Tok) (ts : List Tok) (h : isWord t = true) :
    dropInterWordSpace (t :: ts) = t :: dropInterWordSpace (sel ts) := by
  rw [dropInterWordSpace]
  simp only [h, if_true, sel]
  cases hd : ts.dropWhile isSpaceTok with
  | nil => simp [headIsWord]
  | cons a tl =>
    by_cases ha : isWord a = true
    · simp [headIsWord, ha]
    · simp [headIsWord, ha]

theorem diws_lit (c : UInt8) (ts : List Tok) :
    dropInterWordSpace (.lit c :: ts) = .lit c :: dropInterWordSpace ts := by
  rw [dropInterWordSpace]
  simp [isWord]

def D (ts : List Tok) : Option Bytes := ((dropInterWordSpace ts).mapM tokBytes).map List.flatten
def specR (es : Bytes) : Option Bytes := (tokens es).bind D

theorem D_nil : D [] = some [] := by simp [D, diws_nil]

theorem D_lit (c : UInt8) (ts : List Tok) : D (.lit c :: ts) = (D ts).map (c :: ·) := by
  simp only [D, diws_lit, mapM_cons_opt, tokBytes]
  cases (dropInterWordSpace ts).mapM tokBytes <;> simp

theorem D_word (t : Tok) (ts : List Tok) (h : isWord t = true) :
    D (t :: ts) = (tokBytes t).bind fun w => (D (sel ts)).map (w ++ ·) := by
  simp only [D, diws_word t ts h, mapM_cons_opt]
  cases tokBytes t with
  | none => simp
  | some w => cases (dropInterWordSpace (sel ts)).mapM tokBytes <;> simp


/-! ### Skipping inter-word white space -/

def startsEQ : Bytes → Bool
  | 61 :: 63 :: _ => true
  | _ => false

theorem isPrefixOf_EQ (r : Bytes) : List.isPrefixOf [61, 63] r = startsEQ r := by
  unfold startsEQ
  split
  · simp [List.isPrefixOf]
  · rename_i h
    match r, h with
    | [], _ => simp [List.isPrefixOf]
    | [x], _ => cases hx : (61 == x) <;> simp [List.isPrefixOf, hx]
    | x :: y :: r', h =>
      simp only [List.isPrefixOf]
      cases hx : (61 == x) <;> cases hy : (63 == y) <;> simp
      simp at hx hy; exact h r' (by rw [← hx, ← hy])

theorem space_ne_61 {c : UInt8} (h : isspace c = true) : c ≠ 61 := by
  rintro rfl; revert h; decide

theorem findSub_EQ (es : Bytes) :
    match findSub [61, 63] es with
    | none => startsEQ (es.dropWhile isspace) = false
    | some k => ((es.takeWhile isspace).length == k) = startsEQ (es.dropWhile isspace) := by
  induction es with
  | nil => simp [findSub, startsEQ]
  | cons x r ih =>
    rw [findSub_cons, isPrefixOf_EQ]
    by_cases hs : isspace x = true
    · have hne := space_ne_61 hs
      have h1 : startsEQ (x :: r) = false := by
        unfold startsEQ; split
        · rename_i heq; simp at heq; exact absurd heq.1 hne
        · rfl
      simp only [h1, Bool.false_eq_true, if_false, List.dropWhile_cons, List.takeWhile_cons, hs, if_true]
      cases hf : findSub [61, 63] r with
      | none => rw [hf] at ih; simpa using ih
      | some k => rw [hf] at ih; simpa using ih
    · simp only [List.dropWhile_cons, List.takeWhile_cons, hs]
      by_cases h1 : startsEQ (x :: r) = true
      · simp [h1]
      · have h1' : startsEQ (x :: r) = false := by simpa using h1
        simp only [h1', Bool.false_eq_true, if_false]
        cases findSub [61, 63] r <;> simp

theorem drop_takeWhile_length {α} (p : α → Bool) (l : List α) :
    l.drop (l.takeWhile p).length = l.dropWhile p := by
  induction l with
  | nil => rfl
  | cons x r ih =>
    by_cases hx : p x = true
    · simp [hx, ih]
    · simp [hx]

theorem skipSpace_eq (es : Bytes) :
    rfc2047SkipSpace es = if startsEQ (es.dropWhile isspace) then es.dropWhile isspace else es := by
  have h := findSub_EQ es
  unfold rfc2047SkipSpace
  cases hf : findSub [61, 63] es with
  | none => rw [hf] at h; simp [h]
  | some k =>
    rw [hf] at h
    simp only at h ⊢
    rw [← h]
    by_cases hk : (es.takeWhile isspace).length = k
    · subst hk; simp [drop_takeWhile_length]
    · simp [hk]

theorem tokens_spaces (sp r : Bytes) (h : ∀ c ∈ sp, isspace c = true) :
    tokens (sp ++ r) = (tokens r).map (sp.map Tok.lit ++ ·) := by
  induction sp with
  | nil => simp
  | cons c sp ih =>
    have hc := h c (by simp)
    rw [List.cons_append, tokens_lit c _ (fun hh => space_ne_61 hc hh.1),
      ih (fun c hc => h c (by simp [hc]))]
    cases tokens r <;> simp

theorem dropWhile_spaceToks (sp : Bytes) (l : List Tok) (h : ∀ c ∈ sp, isspace c = true) :
    (sp.map Tok.lit ++ l).dropWhile isSpaceTok = l.dropWhile isSpaceTok := by
  induction sp with
  | nil => simp
  | cons c sp ih =>
    have hc := h c (by simp)
    simp [isSpaceTok, hc, ih (fun c hc => h c (by simp [hc]))]

theorem tokens_startsEQ (r : Bytes) (h : startsEQ r = true) :
    tokens r = none ∨ ∃ t ts, tokens r = some (t :: ts) ∧ isWord t = true := by
  unfold startsEQ at h
  split at h
  · rename_i r'
    rw [tokens_word]
    cases encodedWord r' with
    | none => simp
    | some x =>
      obtain ⟨e, text, rest⟩ := x
      dsimp only
      cases tokens rest with
      | none => simp
      | some ts => right; exact ⟨_, _, rfl, rfl⟩
  · contradiction

theorem tokens_not_startsEQ (r : Bytes) (h : startsEQ r = false) (ts : List Tok)
    (ht : tokens r = some ts) : ts = [] ∨ ∃ c r' tl, r = c :: r' ∧ ts = .lit c :: tl := by
  cases r with
  | nil => rw [tokens_nil] at ht; left; simpa using ht.symm
  | cons c r' =>
    rw [tokens_lit c r' (by
      rintro ⟨rfl, r'', rfl⟩
      simp [startsEQ] at h)] at ht
    simp only [Option.map_eq_some_iff] at ht
    obtain ⟨tl, _, rfl⟩ := ht
    right; exact ⟨c, r', tl, rfl, rfl⟩

theorem takeWhile_all {α} (p : α → Bool) (l : List α) : ∀ c ∈ l.takeWhile p, p c = true := by
  induction l with
  | nil => simp
  | cons x r ih =>
    intro c hc
    rw [List.takeWhile_cons] at hc
    split at hc
    · simp at hc
      rcases hc with rfl | hc
      · assumption
      · exact ih c hc
    · simp at hc

theorem tokens_skipSpace (rest : Bytes) : tokens (rfc2047SkipSpace rest) = (tokens rest).map sel := by
  rw [skipSpace_eq]
  have hsplit : rest = rest.takeWhile isspace ++ rest.dropWhile isspace :=
    (List.takeWhile_append_dropWhile).symm
  have hsp := takeWhile_all isspace rest
  generalize rest.takeWhile isspace = sp at hsplit hsp
  generalize hr : rest.dropWhile isspace = rest' at hsplit
  have htok : tokens rest = (tokens rest').map (sp.map Tok.lit ++ ·) := by
    rw [hsplit]; exact tokens_spaces sp rest' hsp
  by_cases hq : startsEQ rest' = true
  · simp only [hq, if_true, htok]
    rcases tokens_startsEQ rest' hq with h | ⟨t, ts, h, ht⟩
    · simp [h]
    · simp only [h, Option.map_some, sel, dropWhile_spaceToks sp _ hsp]
      have : isSpaceTok t = false := by cases t <;> simp_all [isWord, isSpaceTok]
      simp [this, headIsWord, ht]
  · have hq' : startsEQ rest' = false := by simpa using hq
    simp only [hq', Bool.false_eq_true, if_false]
    cases ht : tokens rest with
    | none => simp
    | some ts =>
      simp only [Option.map_some, Option.some.injEq]
      rw [htok] at ht
      simp only [Option.map_eq_some_iff] at ht
      obtain ⟨ts', hts', rfl⟩ := ht
      simp only [sel, dropWhile_spaceToks sp _ hsp]
      rcases tokens_not_startsEQ rest' hq' ts' hts' with rfl | ⟨c, r', tl, hc, rfl⟩
      · simp [headIsWord]
      · have hcs : isspace c = false := dropWhile_head_not (hr.trans hc)
        simp [isSpaceTok, hcs, headIsWord, isWord]

theorem specR_word (es' : Bytes) :
    specR (61 :: 63 :: es') = match rfc2047Word es' with
      | none => none
      | some (w, rest) => (specR (rfc2047SkipSpace rest)).map (w ++ ·) := by
  rw [word_eq]
  simp only [specR, tokens_word, tokens_skipSpace]
  cases encodedWord es' with
  | none => rfl
  | some x =>
    obtain ⟨e, text, rest⟩ := x
    dsimp only
    cases htb : tokBytes (Tok.word e text) with
    | none =>
      cases tokens rest with
      | none => rfl
      | some ts =>
        simp [D_word _ ts (rfl : isWord (Tok.word e text) = true), htb]
    | some w =>
      dsimp only [Option.map_some]
      cases tokens rest with
      | none => rfl
      | some ts =>
        simp [D_word _ ts (rfl : isWord (Tok.word e text) = true), htb]

theorem specR_lit (c : UInt8) (r : Bytes) (h : ∀ (es' : List UInt8), c = 61 → r = 63 :: es' → False) :
    specR (c :: r) = (specR r).map (c :: ·) := by
  simp only [specR, tokens_lit c r (fun ⟨h1, r', h2⟩ => h r' h1 h2)]
  cases tokens r with
  | none => rfl
  | some ts => simp [D_lit]

theorem loop_eq (es out : Bytes) : rfc2047Loop es out = (specR es).map (out ++ ·) := by
  fun_induction rfc2047Loop es out
  case case1 out => simp [specR, tokens_nil, D_nil]
  case case2 out es' h => simp [specR_word, h]
  case case3 out es' w rest h _ _ ih =>
    rw [ih, specR_word, h]
    dsimp only
    cases specR (rfc2047SkipSpace rest) <;> simp
  case case4 out c r hx ih =>
    rw [ih, specR_lit c r hx]
    cases specR r <;> simp

theorem rfc2047_eq_spec' (s : Bytes) : rfc2047DecodeRaw s = Spec.rfc2047 s := by
  unfold rfc2047DecodeRaw Spec.rfc2047
  rw [loop_eq, specR]
  cases tokens s with
  | none => rfl
  | some ts =>
    simp only [Option.bind_some, D]
    cases (dropInterWordSpace ts).mapM tokBytes <;> simp

end Mdsort.Proofs
