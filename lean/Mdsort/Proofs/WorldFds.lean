import Mdsort.Model.Fds
import Mdsort.Proofs.WorldFrameMain
import Mdsort.Proofs.WorldDryStdin

/-!
# Descriptor hygiene (C13): which descriptors are open when a child is forked

For ARBITRARY results of the calls.  `FdsAre tr S`: the open descriptors after `tr` are the multiset `S`.
Every script of Model/Scripts and Model/Main is given a specification of the form
"if the open descriptors are `S` before, they are `S'` after", and the invariant checked at every
call is `ForkI`: at a `fork`, the open descriptors are at most two directory streams, the message's
descriptor, and the descriptor that becomes the child's standard input.
-/

namespace Mdsort.Proofs.Own
open Mdsort Mdsort.Model Mdsort.Proofs
open Mdsort.Proofs.World (bind_eq pure_eq ret_bind call_bind' call_bind bind_assoc Calls All)

/-! ## the list of open descriptors, step by step -/

theorem openFdsBy_snoc (tr : Trace) (x : Call × Res) : openFdsBy (tr ++ [x]) = fdTableStep (openFdsBy tr) x := by
  simp [openFdsBy, List.foldl_append]

theorem map_eraseP_fst (l : List (Handle × Call)) (h : Handle) :
    (l.eraseP (·.1 == h)).map (·.1) = (l.map (·.1)).erase h := by
  induction l with
  | nil => rfl
  | cons a l ih =>
    by_cases ha : a.1 = h
    · subst ha
      simp
    · have h1 : (a.1 == h) = false := by simpa using ha
      rw [List.eraseP_cons, h1]
      simp only [cond_false, List.map_cons]
      rw [List.erase_cons_tail (by simpa using ha), ih]

/-- The multiset of open descriptors after `tr` is `S`. -/
def FdsAre (tr : Trace) (S : List Handle) : Prop := ∀ h, (openFds tr).count h = S.count h

theorem FdsAre.nil : FdsAre [] [] := fun _ => rfl

theorem FdsAre.congr {tr : Trace} {S S' : List Handle} (h : FdsAre tr S) (hs : ∀ x, S.count x = S'.count x) : FdsAre tr S' :=
  fun x => (h x).trans (hs x)

theorem FdsAre.opened {tr : Trace} {S : List Handle} (h : FdsAre tr S) {c : Call} (hc : c.opensFd = true) (v : Nat) :
    FdsAre (tr ++ [(c, .ok v)]) (S ++ [v]) := by
  intro x
  have hcl : c.closesFd = none := by cases c <;> first | rfl | cases hc
  unfold openFds
  rw [openFdsBy_snoc]
  simp only [fdTableStep, hcl, hc, if_true, List.map_append, List.map_cons, List.map_nil, List.count_append]
  have := h x
  unfold openFds at this
  rw [this]

theorem FdsAre.closed {tr : Trace} {S : List Handle} (h : FdsAre tr S) {c : Call} {y : Handle} (hc : c.closesFd = some y) (r : Res) :
    FdsAre (tr ++ [(c, r)]) (S.erase y) := by
  intro x
  unfold openFds
  rw [openFdsBy_snoc]
  simp only [fdTableStep, hc, map_eraseP_fst, List.count_erase]
  have := h x
  unfold openFds at this
  rw [this]

theorem FdsAre.other {tr : Trace} {S : List Handle} (h : FdsAre tr S) {c : Call} {r : Res} (hc : c.closesFd = none)
    (hr : c.opensFd = false ∨ ∀ v, r ≠ .ok v) : FdsAre (tr ++ [(c, r)]) S := by
  intro x
  unfold openFds
  rw [openFdsBy_snoc]
  have hstep : fdTableStep (openFdsBy tr) (c, r) = openFdsBy tr := by
    simp only [fdTableStep, hc]
    cases r with
    | ok v =>
      rcases hr with hr | hr
      · simp [hr]
      · exact absurd rfl (hr v)
    | err _ => rfl
    | name _ => rfl
    | eof => rfl
  rw [hstep]
  exact h x

theorem fdTableStep_mem (pre : Trace) (acc : List (Handle × Call)) (x : Call × Res)
    (h : ∀ p ∈ acc, p.2.opensFd = true ∧ (p.2, Res.ok p.1) ∈ pre) :
    ∀ p ∈ fdTableStep acc x, p.2.opensFd = true ∧ (p.2, Res.ok p.1) ∈ pre ++ [x] := by
  intro p hp
  have old : ∀ q ∈ acc, q.2.opensFd = true ∧ (q.2, Res.ok q.1) ∈ pre ++ [x] :=
    fun q hq => ⟨(h q hq).1, List.mem_append_left _ (h q hq).2⟩
  obtain ⟨c, r⟩ := x
  unfold fdTableStep at hp
  split at hp
  · exact old p (List.mem_of_mem_eraseP hp)
  · cases r with
    | ok v =>
      dsimp only at hp
      split at hp
      · rcases List.mem_append.1 hp with hp | hp
        · exact old p hp
        · simp only [List.mem_singleton] at hp
          subst hp
          rename_i hop
          exact ⟨hop, List.mem_append_right _ (by simp)⟩
      · exact old p hp
    | err _ => exact old p hp
    | name _ => exact old p hp
    | eof => exact old p hp

theorem foldl_fdTableStep_mem (L : Trace) : ∀ (pre : Trace) (acc : List (Handle × Call)),
    (∀ p ∈ acc, p.2.opensFd = true ∧ (p.2, Res.ok p.1) ∈ pre) →
    ∀ p ∈ L.foldl fdTableStep acc, p.2.opensFd = true ∧ (p.2, Res.ok p.1) ∈ pre ++ L := by
  induction L with
  | nil => intro pre acc h p hp; simpa using h p hp
  | cons x L ih =>
    intro pre acc h p hp
    have := ih (pre ++ [x]) (fdTableStep acc x) (fdTableStep_mem pre acc x h) p hp
    simpa [List.append_assoc] using this

/-- Every pair of `openFdsBy` was put there by a successful descriptor-creating call of the trace. -/
theorem openFdsBy_mem (tr : Trace) : ∀ p ∈ openFdsBy tr, p.2.opensFd = true ∧ (p.2, Res.ok p.1) ∈ tr := by
  intro p hp
  have := foldl_fdTableStep_mem tr [] [] (fun _ h => by cases h) p hp
  simpa using this

macro "fds_count" : tactic =>
  `(tactic| (intro x
             first
               | rfl
               | (simp only [List.count_erase, List.count_append, List.count_cons, List.count_nil, beq_iff_eq, Option.toList]; done)
               | (simp only [List.count_erase, List.count_append, List.count_cons, List.count_nil, beq_iff_eq, Option.toList]
                  (repeat' split) <;> (try subst_vars) <;> (try omega))))

/-! ## what is checked at every call -/

/-- `d` is a directory stream a successful `opendir` of the trace returned. -/
def Opened (tr : Trace) (d : Handle) : Prop := ∃ p, (Call.opendir p, Res.ok d) ∈ tr
/-- `m` is a descriptor a successful read-only `openat` of the trace returned. -/
def OpenedRd (tr : Trace) (m : Handle) : Prop := ∃ d n, (Call.openRd d n, Res.ok m) ∈ tr

theorem Opened.mono {tr : Trace} {d : Handle} (h : Opened tr d) (L : Trace) : Opened (tr ++ L) d := by
  obtain ⟨p, hp⟩ := h; exact ⟨p, List.mem_append_left _ hp⟩
theorem OpenedRd.mono {tr : Trace} {m : Handle} (h : OpenedRd tr m) (L : Trace) : OpenedRd (tr ++ L) m := by
  obtain ⟨d, n, hp⟩ := h; exact ⟨d, n, List.mem_append_left _ hp⟩

/-- `/dev/null` -/
def devNull : Bytes := ofString "/dev/null"

/-- The descriptor `s` is the one `exec()` hands to the child as standard input, and why: the call just before the
`fork` is either the successful `open("/dev/null", O_RDONLY|O_CLOEXEC)` that returned `s`, or the successful
`lseek(s, 0, SEEK_SET)` of `message_get_fd` on a descriptor `s` obtained by `fcntl(F_DUPFD_CLOEXEC)` or `mkostemp`. -/
def ChildStdin (tr : Trace) (s : Handle) : Prop :=
  tr.getLast? = some (.openPath devNull, .ok s) ∨
  (∃ r, tr.getLast? = some (.lseek s, r) ∧ r.isErr = false ∧
    ((∃ fd, (Call.dupfd fd, Res.ok s) ∈ tr) ∨ ∃ t, (Call.mkostemp t, Res.ok s) ∈ tr))

/-- The open descriptors at a `fork`: at most two directory streams `ds` (the maildir being walked, and the maildir the
message has been moved to), the descriptor `m` of the message, and the child's standard input `s` - nothing else. -/
def ForkFds (tr : Trace) : Prop :=
  ∃ ds m s, FdsAre tr (ds ++ [m, s]) ∧ ds.length ≤ 2 ∧ (∀ d ∈ ds, Opened tr d) ∧ OpenedRd tr m ∧ ChildStdin tr s

/-- The same with the child's standard input NAMED: the open descriptors at a `fork argv s` are `ds`, `m` and that very
handle `s`, and `s` is what `ChildStdin` says (package p14: the `fork` call carries the handle the child `dup2`s onto 0). -/
def ForkFdsOf (tr : Trace) (s : Handle) : Prop :=
  ∃ ds m, FdsAre tr (ds ++ [m, s]) ∧ ds.length ≤ 2 ∧ (∀ d ∈ ds, Opened tr d) ∧ OpenedRd tr m ∧ ChildStdin tr s

theorem ForkFdsOf.forkFds {tr : Trace} {s : Handle} (h : ForkFdsOf tr s) : ForkFds tr := by
  obtain ⟨ds, m, h⟩ := h
  exact ⟨ds, m, s, h⟩

/-- The invariant of every call: a `fork` finds the descriptor table as `ForkFds` says; `fopen` (the one call that
creates a descriptor without close-on-exec) is the very first call of the run. -/
def ForkI (tr : Trace) (c : Call) : Prop := (∀ av s, c = .fork av s → ForkFdsOf tr s) ∧ (∀ p, c = .fopen p → tr = [])

theorem plainI {tr : Trace} {c : Call} (h1 : c.isFork = false) (h2 : ∀ p, c ≠ .fopen p) : ForkI tr c :=
  ⟨fun av s e => (by rw [e] at h1; cases h1), fun p e => absurd e (h2 p)⟩

macro "plain" : tactic => `(tactic| exact plainI rfl (by intro p e; cases e))

variable {R : Call → Res → Prop}

/-- Calls without any effect on the descriptor table (and neither `fork` nor `fopen`). -/
def NoFd (c : Call) : Prop := c.isFork = false ∧ (∀ p, c ≠ .fopen p) ∧ c.closesFd = none ∧ c.opensFd = false

theorem NoFd.intro {c : Call} (h1 : c.isFork = false) (h2 : ∀ p, c ≠ .fopen p) (h3 : c.closesFd = none) (h4 : c.opensFd = false) :
    NoFd c := ⟨h1, h2, h3, h4⟩

theorem wp_nofd {α} {P : α → Prop} {p : Prog α} (hc : Calls NoFd p) (ha : All P p) {tr : Trace} {S : List Handle}
    (h : FdsAre tr S) : wp R ForkI p (fun a tr' => P a ∧ FdsAre tr' S) tr := by
  induction p generalizing tr with
  | ret a => exact ⟨ha, h⟩
  | call c k ih =>
    refine ⟨plainI hc.1.1 hc.1.2.1, fun r _ => ih r (hc.2 r) (ha r) (h.other hc.1.2.2.1 (.inl hc.1.2.2.2))⟩

theorem wp_nofd' {α} {p : Prog α} (hc : Calls NoFd p) {tr : Trace} {S : List Handle}
    (h : FdsAre tr S) : wp R ForkI p (fun _ tr' => FdsAre tr' S) tr :=
  wp_mono (wp_nofd hc (All.trivial p) h) fun _ _ hq => hq.2

macro "nofd_step" : tactic =>
  `(tactic| first
      | (with_reducible exact Calls.ret_intro _)
      | ((with_reducible show NoFd _); exact NoFd.intro rfl (by intro p e; cases e) rfl rfl)
      | (with_reducible apply Calls.call_intro)
      | (intro _)
      | (with_reducible apply World.Calls.bind)
      | split
      | (dsimp only; split))

theorem nofd_maildirUnlink (md : Maildir) (name : Bytes) : Calls NoFd (maildirUnlink md name) := by
  unfold maildirUnlink
  simp only [bind_eq, pure_eq, call_bind]
  repeat' nofd_step

theorem nofd_readAll (fd : Handle) (fuel : Nat) : Calls NoFd (readAll fd fuel) := by
  induction fuel with
  | zero => exact Calls.ret_intro _
  | succ n ih =>
    unfold readAll
    simp only [bind_eq, pure_eq, call_bind]
    repeat' (first | exact ih | nofd_step)

theorem nofd_writeAll (fd : Handle) (fuel : Nat) (data : Bytes) : Calls NoFd (writeAll fd fuel data) := by
  induction fuel generalizing data with
  | zero => exact Calls.ret_intro _
  | succ n ih =>
    unfold writeAll
    simp only [bind_eq, pure_eq, call_bind]
    repeat' (first | exact ih _ | nofd_step)

theorem nofd_hdrs (newfd : Handle) (hs : List Hdr) : Calls NoFd (messageWriteP.hdrs newfd hs) := by
  induction hs with
  | nil => unfold messageWriteP.hdrs; exact Calls.ret_intro _
  | cons x rest ih =>
    unfold messageWriteP.hdrs
    simp only [bind_eq, pure_eq, call_bind]
    repeat' (first | exact ih | nofd_step)

theorem nofd_wr (fd : Handle) (fuel : Nat) (chunk : Bytes) : Calls NoFd (copyStdin.wr fd fuel chunk) := by
  induction fuel generalizing chunk with
  | zero => unfold copyStdin.wr; exact Calls.ret_intro _
  | succ n ih =>
    unfold copyStdin.wr
    simp only [bind_eq, pure_eq, call_bind]
    repeat' (first | exact ih _ | nofd_step)

theorem nofd_copyStdin (fd : Handle) (fuel : Nat) (input : Bytes) : Calls NoFd (copyStdin fd fuel input) := by
  induction fuel generalizing input with
  | zero => unfold copyStdin; exact Calls.ret_intro _
  | succ n ih =>
    unfold copyStdin
    simp only [bind_eq, pure_eq, call_bind]
    repeat' (first | exact ih _ | exact nofd_wr _ _ _ | nofd_step)

theorem nofd_closeLoop (d : Handle) (fuel : Nat) : Calls NoFd (closeStdin.loop d fuel) := by
  induction fuel with
  | zero => unfold closeStdin.loop; exact Calls.ret_intro _
  | succ n ih =>
    unfold closeStdin.loop
    simp only [bind_eq, pure_eq, call_bind]
    repeat' (first | exact ih | nofd_step)

/-! ## the scripts of maildir.c -/

theorem FdsAre.failed {tr : Trace} {S : List Handle} (h : FdsAre tr S) {c : Call} {r : Res} (hc : c.closesFd = none)
    (hr : ∀ v, r ≠ .ok v) : FdsAre (tr ++ [(c, r)]) S := h.other hc (.inr hr)

theorem fds_genname (env : PEnv) (md : Maildir) (flags : Option Bytes) (fuel count : Nat) (tr : Trace) (S : List Handle)
    (h : FdsAre tr S) :
    wp R ForkI (genname env md flags fuel count)
      (fun res tr' => match res with
        | none => FdsAre tr' S
        | some x => FdsAre tr' (S ++ [x.1])) tr := by
  induction fuel generalizing count tr with
  | zero => unfold genname; exact h
  | succ fuel ih =>
    unfold genname
    simp only [bind_eq, pure_eq, call_bind]
    generalize (decimalInt env.now ++ [46] ++ decimal env.pid ++ [95] ++ decimal ((count + 1) % gennameWrap) ++ [46] ++ env.host ++
          flags.getD []) = nm
    split
    · exact h
    split
    · exact h
    rename_i d hd
    refine wp_call (by plain) fun r _ => ?_
    cases r with
    | ok v => exact h.opened rfl v
    | err e =>
      have h' := h.failed (c := .openExcl d nm) (r := .err e) rfl (by intro v hv; cases hv)
      dsimp only
      split
      · exact ih _ _ h'
      · exact h'
    | name n => exact h.failed rfl (by intro v hv; cases hv)
    | eof => exact h.failed rfl (by intro v hv; cases hv)

/-- `S` without the directory stream of `md`. -/
def dropDir (md : Maildir) (S : List Handle) : List Handle :=
  match md.dirH with
  | some d => S.erase d
  | none => S

theorem fds_maildirClose (md : Maildir) (tr : Trace) (S : List Handle) (h : FdsAre tr S) :
    wp R ForkI (maildirClose md) (fun _ tr' => FdsAre tr' (dropDir md S)) tr := by
  unfold maildirClose dropDir
  cases hd : md.dirH with
  | some d =>
    simp only [bind_eq, pure_eq, call_bind]
    refine wp_call (by plain) fun r _ => ?_
    exact h.closed (c := .closedir d) rfl r
  | none => exact h

theorem fds_maildirOpendir (md : Maildir) (path : Bytes) (tr : Trace) (S : List Handle) (h : FdsAre tr S) :
    wp R ForkI (maildirOpendir md path)
      (fun x tr' => (∃ d, x.1.dirH = some d ∧ x.2 = false ∧ FdsAre tr' (dropDir md S ++ [d]) ∧ Opened tr' d) ∨
        (x.1.dirH = none ∧ x.2 = true ∧ FdsAre tr' (dropDir md S))) tr := by
  unfold maildirOpendir
  simp only [bind_eq, pure_eq, call_bind]
  have key : ∀ (T : Trace), FdsAre T (dropDir md S) →
      wp R ForkI (Prog.call (Call.opendir path) fun r =>
        match r with
        | Res.ok h => Prog.ret ({ md with dirH := some h }, false)
        | _ => Prog.ret ({ md with dirH := none }, true))
      (fun x tr' => (∃ d, x.1.dirH = some d ∧ x.2 = false ∧ FdsAre tr' (dropDir md S ++ [d]) ∧ Opened tr' d) ∨
        (x.1.dirH = none ∧ x.2 = true ∧ FdsAre tr' (dropDir md S))) T := by
    intro T hT
    refine wp_call (by plain) fun r _ => ?_
    cases r with
    | ok v => exact .inl ⟨v, rfl, rfl, hT.opened rfl v, path, by simp⟩
    | err e => exact .inr ⟨rfl, rfl, hT.failed rfl (by intro v hv; cases hv)⟩
    | name n => exact .inr ⟨rfl, rfl, hT.failed rfl (by intro v hv; cases hv)⟩
    | eof => exact .inr ⟨rfl, rfl, hT.failed rfl (by intro v hv; cases hv)⟩
  cases hd : md.dirH with
  | some d =>
    dsimp only
    refine wp_call (by plain) fun r _ => ?_
    exact key _ (by unfold dropDir; rw [hd]; exact h.closed (c := .closedir d) rfl r)
  | none =>
    dsimp only
    exact key _ (by unfold dropDir; rw [hd]; exact h)

theorem fds_maildirOpenDst (path : Bytes) (tr : Trace) (S : List Handle) (h : FdsAre tr S) :
    wp R ForkI (maildirOpenDst path)
      (fun res tr' => match res with
        | none => FdsAre tr' S
        | some dst => ∃ dh, dst.dirH = some dh ∧ FdsAre tr' (S ++ [dh]) ∧ Opened tr' dh) tr := by
  unfold maildirOpenDst
  split
  · exact h
  split
  · exact h
  split
  · exact h
  rename_i sd _ root _ p _
  simp only [bind_eq, pure_eq]
  refine wp_bind_mono (fds_maildirOpendir _ p tr S h) ?_
  rintro ⟨md', failed⟩ tr' (⟨d, h1, h2, h3, h4⟩ | ⟨h1, h2, h3⟩)
  · simp only at h1 h2
    subst h2
    exact ⟨d, h1, h3, h4⟩
  · simp only at h1 h2
    subst h2
    exact h3

/-! ## message.c -/

theorem fds_messageWriteP (m : Msg) (fd : Handle) (tr : Trace) (S : List Handle) (h : FdsAre tr S) :
    wp R ForkI (messageWriteP m fd) (fun _ tr' => FdsAre tr' S) tr := by
  unfold messageWriteP
  simp only [bind_eq, pure_eq, call_bind]
  refine wp_call (by plain) fun r _ => ?_
  cases r with
  | ok newfd =>
    dsimp only
    have h1 : FdsAre (tr ++ [(Call.dupfd fd, Res.ok newfd)]) (S ++ [newfd]) := h.opened rfl newfd
    generalize tr ++ [(Call.dupfd fd, Res.ok newfd)] = T at h1 ⊢
    refine wp_call (by plain) fun r2 _ => ?_
    have h2 : FdsAre (T ++ [(Call.fdopen newfd, r2)]) (S ++ [newfd]) := h1.other rfl (.inl rfl)
    have back : ∀ x, ((S ++ [newfd]).erase newfd).count x = S.count x := by fds_count
    split
    · refine wp_call (by plain) fun r3 _ => ?_
      exact (h2.closed (c := .close newfd) rfl r3).congr back
    · refine wp_bind_ext (wp_nofd' (nofd_hdrs newfd _) h2) ?_
      intro herr L hL
      refine wp_bind_ext (P := fun _ tr' => FdsAre tr' (S ++ [newfd])) ?_ ?_
      · split
        · exact hL
        · refine wp_call (by plain) fun r3 _ => ?_
          have h3 := hL.other (c := .fprintf newfd ([10] ++ m.body)) (r := r3) rfl (.inl rfl)
          split
          · exact h3
          · refine wp_call (by plain) fun r4 _ => ?_
            have h4 := h3.other (c := .fflush newfd) (r := r4) rfl (.inl rfl)
            split
            · exact h4
            · refine wp_call (by plain) fun r5 _ => ?_
              exact h4.other (c := .fsync newfd) (r := r5) rfl (.inl rfl)
      · intro err1 L2 hL2
        refine wp_call (by plain) fun r6 _ => ?_
        exact (hL2.closed (c := .fclose newfd) rfl r6).congr back
  | err e => exact h.failed rfl (by intro v hv; cases hv)
  | name n => exact h.failed rfl (by intro v hv; cases hv)
  | eof => exact h.failed rfl (by intro v hv; cases hv)

/-- `S` without the descriptor of the message. -/
def dropFd (ms : MsgSt) (S : List Handle) : List Handle :=
  match ms.fd with
  | some m => S.erase m
  | none => S

theorem fds_messageSetFile (ms : MsgSt) (dir name : Bytes) (rdfd : Handle) (tr : Trace) (S : List Handle) (h : FdsAre tr S) :
    wp R ForkI (messageSetFile ms dir name (some rdfd))
      (fun x tr' => (x.2 = true ∧ x.1.fd = ms.fd ∧ FdsAre tr' S) ∨
        (x.2 = false ∧ x.1.fd = some rdfd ∧ FdsAre tr' (dropFd ms S))) tr := by
  unfold messageSetFile
  split
  · exact .inl ⟨rfl, rfl, h⟩
  split
  · exact .inl ⟨rfl, rfl, h⟩
  simp only [bind_eq, pure_eq, call_bind]
  unfold dropFd
  cases hfd : ms.fd with
  | some old =>
    dsimp only
    refine wp_call (by plain) fun r _ => ?_
    exact .inr ⟨rfl, rfl, h.closed (c := .close old) rfl r⟩
  | none => exact .inr ⟨rfl, rfl, h⟩

theorem fd_messageSetFileMoved (ms : MsgSt) (s d : Subdir) (dir name : Bytes) :
    All (fun x => x.1.fd = ms.fd) (messageSetFileMoved ms s d dir name) := by
  unfold messageSetFileMoved
  split
  · exact rfl
  split
  · exact rfl
  · exact rfl

theorem nofd_messageSetFileMoved (ms : MsgSt) (s d : Subdir) (dir name : Bytes) :
    Calls NoFd (messageSetFileMoved ms s d dir name) := by
  unfold messageSetFileMoved
  simp only [pure_eq]
  repeat' nofd_step

theorem fds_maildirMove (env : PEnv) (src dst : Maildir) (ms : MsgSt) (tr : Trace) (S : List Handle) (h : FdsAre tr S) :
    wp R ForkI (maildirMove env src dst ms) (fun x tr' => x.1.fd = ms.fd ∧ FdsAre tr' S) tr := by
  unfold maildirMove gennameStart
  simp only [bind_eq, pure_eq, call_bind]
  split
  · exact ⟨rfl, h⟩
  split
  rotate_left
  · exact ⟨rfl, h⟩
  rename_i sh dh hsh hdh
  refine wp_bind_ext (P := fun _ tr' => FdsAre tr' S) ?_ ?_
  · split
    · refine wp_call (by plain) fun r _ => ?_
      exact h.other rfl (.inl rfl)
    · exact h
  intro mt L0 h0
  split
  · exact ⟨rfl, h0⟩
  rename_i fl _
  refine wp_bind_ext (fds_genname env dst (some fl) gennameAttempts _ _ S h0) ?_
  intro g L1 hg
  cases g with
  | none => exact ⟨rfl, hg⟩
  | some x =>
  obtain ⟨fd, dstname⟩ := x
  dsimp only at hg ⊢
  generalize tr ++ L0 ++ L1 = T at hg ⊢
  refine wp_call (by plain) fun r _ => ?_
  have h1 : FdsAre (T ++ [(Call.renameat sh ms.name dh dstname, r)]) (S ++ [fd]) := hg.other rfl (.inl rfl)
  have back : ∀ x, ((S ++ [fd]).erase fd).count x = S.count x := by fds_count
  -- the tail after the rename / copy: close the new descriptor, set the time, update the message
  have tail : ∀ (T' : Trace) (ms' : MsgSt) (b : Bool), ms'.fd = ms.fd → FdsAre T' (S ++ [fd]) →
      wp R ForkI
        (Prog.call (Call.close fd) fun _ =>
          (if (!b && mt.isSome) = true then Prog.call (Call.utimensat dh dstname none mt) fun r => Prog.ret !isOk r
              else Prog.ret b).bind
            fun err2 => if err2 = true then Prog.ret (ms', true) else messageSetFileMoved ms' src.subdir dst.subdir dst.path dstname)
        (fun x tr' => x.1.fd = ms.fd ∧ FdsAre tr' S) T' := by
    intro T' ms' b hfd hT
    refine wp_call (by plain) fun r1 _ => ?_
    have hc := (hT.closed (c := .close fd) rfl r1).congr back
    refine wp_bind_ext (P := fun _ tr' => FdsAre tr' S) ?_ ?_
    · split
      · refine wp_call (by plain) fun r2 _ => ?_
        exact hc.other rfl (.inl rfl)
      · exact hc
    intro err2 L3 h3
    split
    · exact ⟨hfd, h3⟩
    · refine wp_mono (wp_nofd (nofd_messageSetFileMoved _ _ _ _ _) (fd_messageSetFileMoved ms' _ _ _ _) h3) ?_
      intro x tr' hx
      exact ⟨hx.1.trans hfd, hx.2⟩
  refine wp_bind_ext (P := fun x tr' => x.2.fd = ms.fd ∧ FdsAre tr' (S ++ [fd])) ?_ ?_
  · split
    · split
      · refine wp_bind_ext (fds_messageWriteP _ fd _ _ h1) ?_
        intro we L2 h2
        split
        · exact ⟨rfl, h2⟩
        · refine wp_bind_ext (wp_nofd' (nofd_maildirUnlink src ms.name) h2) ?_
          intro ue L3 h3
          refine ⟨?_, h3⟩
          dsimp only
          split <;> rfl
      · exact ⟨rfl, h1⟩
    · exact ⟨rfl, h1⟩
  · rintro ⟨err1, ms'⟩ L2 ⟨hfd, h2⟩
    dsimp only at hfd ⊢
    split
    · refine wp_bind_ext (wp_nofd' (nofd_maildirUnlink dst dstname) h2) ?_
      intro _ L3 h3
      exact tail _ ms' err1 hfd h3
    · exact tail _ ms' err1 hfd h2

theorem fds_maildirWrite (env : PEnv) (md : Maildir) (ms : MsgSt) (tr : Trace) (S : List Handle) (h : FdsAre tr S) :
    wp R ForkI (maildirWrite env md ms)
      (fun x tr' => (x.1.fd = ms.fd ∧ FdsAre tr' S) ∨
        (∃ m', x.1.fd = some m' ∧ OpenedRd tr' m' ∧ FdsAre tr' (dropFd ms (S ++ [m'])))) tr := by
  unfold maildirWrite gennameStart
  simp only [bind_eq, pure_eq, call_bind]
  split
  · exact .inl ⟨rfl, h⟩
  rename_i fl _
  refine wp_bind_ext (fds_genname env md (some fl) gennameAttempts _ _ S h) ?_
  intro g L1 hg
  cases g with
  | none => exact .inl ⟨rfl, hg⟩
  | some x =>
  obtain ⟨fd, name⟩ := x
  dsimp only at hg ⊢
  refine wp_bind_ext (fds_messageWriteP _ fd _ _ hg) ?_
  intro we L2 h2
  refine wp_call (by plain) fun r _ => ?_
  have back : ∀ x, ((S ++ [fd]).erase fd).count x = S.count x := by fds_count
  have h3 := (h2.closed (c := .close fd) rfl r).congr back
  generalize tr ++ L1 ++ L2 ++ [(Call.close fd, r)] = T at h3 ⊢
  refine wp_bind_ext (P := fun _ tr' => FdsAre tr' S) ?_ ?_
  · split
    · exact h3
    · exact wp_nofd' (nofd_maildirUnlink md ms.name) h3
  intro err L3 h4
  split
  · refine wp_bind_ext (wp_nofd' (nofd_maildirUnlink md name) h4) ?_
    intro _ L4 h5
    exact .inl ⟨rfl, h5⟩
  split
  · exact .inl ⟨rfl, h4⟩
  rename_i d hdir
  refine wp_call (by plain) fun r2 _ => ?_
  cases r2 with
  | ok rdfd =>
    dsimp only
    have h5 : FdsAre (T ++ L3 ++ [(Call.openRd d name, Res.ok rdfd)]) (S ++ [rdfd]) := h4.opened rfl rdfd
    have hop : OpenedRd (T ++ L3 ++ [(Call.openRd d name, Res.ok rdfd)]) rdfd := ⟨d, name, by simp⟩
    generalize T ++ L3 ++ [(Call.openRd d name, Res.ok rdfd)] = T2 at h5 hop ⊢
    refine wp_bind_ext (fds_messageSetFile _ md.path name rdfd _ _ h5) ?_
    rintro ⟨ms', e⟩ L5 (⟨he, hfd, h6⟩ | ⟨he, hfd, h6⟩)
    · simp only at he hfd
      subst he
      simp only [if_true]
      refine wp_call (by plain) fun r3 _ => ?_
      refine .inl ⟨hfd, (h6.closed (c := .close rdfd) rfl r3).congr (by fds_count)⟩
    · simp only at he hfd
      subst he
      simp only [Bool.false_eq_true, if_false]
      exact .inr ⟨rdfd, hfd, hop.mono _, h6⟩
  | err e => exact .inl ⟨rfl, h4.failed rfl (by intro v hv; cases hv)⟩
  | name n => exact .inl ⟨rfl, h4.failed rfl (by intro v hv; cases hv)⟩
  | eof => exact .inl ⟨rfl, h4.failed rfl (by intro v hv; cases hv)⟩

/-- `fd` was obtained by `fcntl(F_DUPFD_CLOEXEC)` or by `mkostemp(O_CLOEXEC)`. -/
def DupOrTemp (tr : Trace) (fd : Handle) : Prop :=
  (∃ x, (Call.dupfd x, Res.ok fd) ∈ tr) ∨ ∃ t, (Call.mkostemp t, Res.ok fd) ∈ tr

theorem DupOrTemp.mono {tr : Trace} {fd : Handle} (h : DupOrTemp tr fd) (L : Trace) : DupOrTemp (tr ++ L) fd := by
  rcases h with ⟨x, hx⟩ | ⟨t, ht⟩
  · exact .inl ⟨x, List.mem_append_left _ hx⟩
  · exact .inr ⟨t, List.mem_append_left _ ht⟩

theorem fds_writefd (tmpdir : Bytes) (tr : Trace) (S : List Handle) (h : FdsAre tr S) :
    wp R ForkI (writefd tmpdir)
      (fun res tr' => match res with
        | none => FdsAre tr' S
        | some fd => FdsAre tr' (S ++ [fd]) ∧ DupOrTemp tr' fd) tr := by
  unfold writefd
  simp only [bind_eq, pure_eq, call_bind]
  split
  · exact h
  rename_i tmpl _
  refine wp_call (by plain) fun r _ => ?_
  cases r with
  | ok fd =>
    dsimp only
    have h1 : FdsAre (tr ++ [(Call.mkostemp tmpl, Res.ok fd)]) (S ++ [fd]) := h.opened rfl fd
    have hp : DupOrTemp (tr ++ [(Call.mkostemp tmpl, Res.ok fd)]) fd := .inr ⟨tmpl, by simp⟩
    generalize tr ++ [(Call.mkostemp tmpl, Res.ok fd)] = T at h1 hp ⊢
    refine wp_call (by plain) fun r2 _ => ?_
    have h2 : FdsAre (T ++ [(Call.unlink tmpl, r2)]) (S ++ [fd]) := h1.other rfl (.inl rfl)
    split
    · exact ⟨h2, hp.mono _⟩
    · refine wp_call (by plain) fun r3 _ => ?_
      exact (h2.closed (c := .close fd) rfl r3).congr (by fds_count)
  | err e => exact h.failed rfl (by intro v hv; cases hv)
  | name n => exact h.failed rfl (by intro v hv; cases hv)
  | eof => exact h.failed rfl (by intro v hv; cases hv)

theorem isOk_isErr {r : Res} (h : isOk r = true) : r.isErr = false := by
  cases r <;> first | rfl | cases h

theorem fds_messageGetFd (env : PEnv) (ms : MsgSt) (part : Option Msg) (dobody : Bool) (tr : Trace) (S : List Handle)
    (h : FdsAre tr S) :
    wp R ForkI (messageGetFd env ms part dobody)
      (fun res tr' => match res with
        | none => FdsAre tr' S
        | some fd => FdsAre tr' (S ++ [fd]) ∧ ChildStdin tr' fd) tr := by
  unfold messageGetFd
  simp only [bind_eq, pure_eq, call_bind]
  refine wp_bind_ext (P := fun fdo tr' => match fdo with
      | none => FdsAre tr' S
      | some fd => FdsAre tr' (S ++ [fd]) ∧ DupOrTemp tr' fd) ?_ ?_
  · split
    · split
      · exact h
      · refine wp_bind_ext (fds_writefd env.tmpdir _ S h) ?_
        intro f L hf
        cases f with
        | none => exact hf
        | some fd =>
          dsimp only at hf ⊢
          refine wp_bind_ext (wp_nofd' (nofd_writeAll fd _ _) hf.1) ?_
          intro e L2 h2
          split
          · refine wp_call (by plain) fun r _ => ?_
            exact (h2.closed (c := .close fd) rfl r).congr (by fds_count)
          · exact ⟨h2, hf.2.mono _⟩
    · split
      · refine wp_bind_ext (fds_writefd env.tmpdir _ S h) ?_
        intro f L hf
        cases f with
        | none => exact hf
        | some fd =>
          dsimp only at hf ⊢
          refine wp_bind_ext (fds_messageWriteP _ fd _ _ hf.1) ?_
          intro e L2 h2
          split
          · refine wp_call (by plain) fun r _ => ?_
            exact (h2.closed (c := .close fd) rfl r).congr (by fds_count)
          · exact ⟨h2, hf.2.mono _⟩
      · split
        · exact h
        · rename_i mfd _
          refine wp_call (by plain) fun r _ => ?_
          cases r with
          | ok v => exact ⟨h.opened rfl v, .inl ⟨mfd, by simp⟩⟩
          | err e => exact h.failed rfl (by intro v hv; cases hv)
          | name n => exact h.failed rfl (by intro v hv; cases hv)
          | eof => exact h.failed rfl (by intro v hv; cases hv)
  · intro fdo L hfdo
    cases fdo with
    | none => exact hfdo
    | some fd =>
      dsimp only at hfdo ⊢
      refine wp_call (by plain) fun r _ => ?_
      have h1 : FdsAre (tr ++ L ++ [(Call.lseek fd, r)]) (S ++ [fd]) := hfdo.1.other rfl (.inl rfl)
      split
      · rename_i hok
        refine ⟨h1, .inr ⟨r, by simp, isOk_isErr hok, ?_⟩⟩
        exact hfdo.2.mono _
      · refine wp_call (by plain) fun r2 _ => ?_
        exact (h1.closed (c := .close fd) rfl r2).congr (by fds_count)

/-! ## util.c: `exec()` -/

theorem fds_execP (argv : List Bytes) (fdin : Option Handle) (tr : Trace) (ds : List Handle) (m : Handle) (hds : ds.length ≤ 2)
    (hop : ∀ d ∈ ds, Opened tr d) (hm : OpenedRd tr m) (h : FdsAre tr (ds ++ [m] ++ fdin.toList))
    (hin : ∀ fd, fdin = some fd → ChildStdin tr fd) :
    wp R ForkI (execP argv fdin) (fun _ tr' => FdsAre tr' (ds ++ [m] ++ fdin.toList)) tr := by
  unfold execP
  simp only [bind_eq, pure_eq, call_bind]
  -- from the fork on: `T` is the trace at the fork, `S'` the descriptors open there
  have forkOn : ∀ (T : Trace) (S' : List Handle) (devnull : Option Handle) (s : Handle), ForkFdsOf T s → FdsAre T S' →
      wp R ForkI (Prog.call (Call.fork argv s) fun r =>
          ((match r with
            | Res.ok _ => Prog.call Call.waitpid fun w =>
                match w with
                | Res.ok status => Prog.ret (execStatus status)
                | _ => Prog.ret (-1 : Int)
            | _ => Prog.ret (-1 : Int)) : Prog Int).bind fun res =>
            (match devnull with
              | some h => (call (Call.close h)).bind fun _ => Prog.ret ()
              | none => Prog.ret ()).bind fun _ => Prog.ret res)
        (fun _ tr' => FdsAre tr' (match devnull with | some h => S'.erase h | none => S')) T := by
    intro T S' devnull s hfork hT
    refine wp_call ⟨fun _ _ e => by cases e; exact hfork, fun p e => by cases e⟩ fun r _ => ?_
    have h1 : FdsAre (T ++ [(Call.fork argv s, r)]) S' := hT.other rfl (.inl rfl)
    refine wp_bind_ext (P := fun _ tr' => FdsAre tr' S') ?_ ?_
    · cases r with
      | ok v =>
        dsimp only
        refine wp_call (by plain) fun w _ => ?_
        have h2 : FdsAre (T ++ [(Call.fork argv s, Res.ok v)] ++ [(Call.waitpid, w)]) S' := h1.other rfl (.inl rfl)
        cases w with
        | ok status => exact h2
        | err e => exact h2
        | name n => exact h2
        | eof => exact h2
      | err e => exact h1
      | name n => exact h1
      | eof => exact h1
    · intro res L hL
      cases devnull with
      | some hn =>
        simp only [call_bind, call_bind', ret_bind]
        refine wp_call (by plain) fun r2 _ => ?_
        exact hL.closed (c := .close hn) rfl r2
      | none => exact hL
  cases fdin with
  | some fd =>
    simp only [ret_bind, childStdin]
    have hfork : ForkFdsOf tr fd := ⟨ds, m, by simpa [List.append_assoc] using h, hds, hop, hm, hin fd rfl⟩
    exact forkOn tr _ none fd hfork h
  | none =>
    simp only [Option.toList, List.append_nil] at h ⊢
    refine wp_call (by plain) fun r _ => ?_
    cases r with
    | ok hn =>
      simp only [ret_bind, childStdin]
      have h1 : FdsAre (tr ++ [(Call.openPath (ofString "/dev/null"), Res.ok hn)]) (ds ++ [m] ++ [hn]) := h.opened rfl hn
      have hfork : ForkFdsOf (tr ++ [(Call.openPath (ofString "/dev/null"), Res.ok hn)]) hn :=
        ⟨ds, m, by simpa [List.append_assoc] using h1, hds, fun d hd => (hop d hd).mono _, hm.mono _, .inl (by simp [devNull])⟩
      refine wp_mono (forkOn _ _ (some hn) hn hfork h1) ?_
      intro _ tr' hq
      exact hq.congr (by fds_count)
    | err e => exact h.failed rfl (by intro v hv; cases hv)
    | name n => exact h.failed rfl (by intro v hv; cases hv)
    | eof => exact h.failed rfl (by intro v hv; cases hv)

/-! ## expr.c: the conditions that call the operating system during evaluation -/

/-- One question of evaluation: a `command` condition runs `exec(argv, -1)` - its `fork` finds the descriptor table of
`ForkFds` with the directory streams `ds`, the message's descriptor `m` and `/dev/null` as the child's standard input -, an
`isdirectory` or file-time `date` condition calls `stat`; the descriptor table is afterwards what it was. -/
theorem fds_sysCall (q : Req) (tr : Trace) (ds : List Handle) (m : Handle) (hds : ds.length ≤ 2)
    (hop : ∀ d ∈ ds, Opened tr d) (hm : OpenedRd tr m) (h : FdsAre tr (ds ++ [m])) :
    wp R ForkI (sysCall q) (fun _ tr' => FdsAre tr' (ds ++ [m])) tr := by
  cases q with
  | command av =>
    unfold sysCall
    refine wp_bind_ext (fds_execP _ none tr ds m hds hop hm (by simpa using h) (by intro fd e; cases e)) ?_
    intro rc L hL
    have hL' : FdsAre (tr ++ L) (ds ++ [m]) := by simpa using hL
    exact hL'
  | isDir p =>
    unfold sysCall
    simp only [call_bind, ret_bind]
    refine wp_call (by plain) fun r _ => ?_
    exact h.other rfl (.inl rfl)
  | fileTime p f =>
    unfold sysCall
    simp only [call_bind, ret_bind]
    refine wp_call (by plain) fun r _ => ?_
    exact h.other rfl (.inl rfl)

/-- A computation that asks, as a program: every `fork` is the one of a `command` condition. -/
theorem fds_toProg {α} (t : Ask α) : ∀ (tr : Trace) (ds : List Handle) (m : Handle), ds.length ≤ 2 →
    (∀ d ∈ ds, Opened tr d) → OpenedRd tr m → FdsAre tr (ds ++ [m]) →
    wp R ForkI t.toProg (fun _ tr' => FdsAre tr' (ds ++ [m])) tr := by
  induction t with
  | ret a => intro tr ds m _ _ _ h; exact h
  | ask q k ih =>
    intro tr ds m hds hop hm h
    simp only [Ask.toProg]
    refine wp_bind_ext (fds_sysCall q tr ds m hds hop hm h) ?_
    intro a L hL
    exact ih a (tr ++ L) ds m hds (fun d hd => (hop d hd).mono L) (hm.mono L) hL

/-- `expr_eval` in the run: the descriptors open at the `fork` of a `command` condition are the directory stream of the
maildir, the descriptor of the message and `/dev/null`; evaluation leaves the descriptor table as it found it. -/
theorem fds_evalP (env : Env) (e : Expr) (msg : Msg) (fl : MFlags) (tr : Trace) (ds : List Handle) (m : Handle)
    (hds : ds.length ≤ 2) (hop : ∀ d ∈ ds, Opened tr d) (hm : OpenedRd tr m) (h : FdsAre tr (ds ++ [m])) :
    wp R ForkI (evalP env e msg fl) (fun _ tr' => FdsAre tr' (ds ++ [m])) tr :=
  fds_toProg _ tr ds m hds hop hm h

/-! ## match.c: `matches_exec` -/

/-- The directory stream of the maildir the message has been moved to, if the source has changed. -/
def chs (st : ExecSt) : List Handle := if st.chsrc then st.src.dirH.toList else []

theorem chs_length (st : ExecSt) : (chs st).length ≤ 1 := by
  unfold chs
  split
  · cases st.src.dirH <;> simp
  · simp

/-- While the action list of a message runs: `base` are the directory streams held by the caller (the maildir being
walked), the source maildir's stream if it was replaced, and the message's descriptor - these and nothing else are open. -/
structure ExecInv (base : List Handle) (st : ExecSt) (tr : Trace) : Prop where
  baseLen : base.length ≤ 1
  baseOpen : ∀ d ∈ base, Opened tr d
  chsOpen : ∀ d ∈ chs st, Opened tr d
  msg : ∃ m, st.ms.fd = some m ∧ OpenedRd tr m ∧ FdsAre tr (base ++ chs st ++ [m])

theorem Opened.ext {tr T : Trace} {d : Handle} (h : Opened tr d) (hT : tr <+: T) : Opened T d := by
  obtain ⟨L, rfl⟩ := hT; exact h.mono L
theorem OpenedRd.ext {tr T : Trace} {m : Handle} (h : OpenedRd tr m) (hT : tr <+: T) : OpenedRd T m := by
  obtain ⟨L, rfl⟩ := hT; exact h.mono L

/-- Re-establish the invariant at a later trace `T`, for a state with the same source stream. -/
theorem ExecInv.extend {base : List Handle} {st : ExecSt} {tr : Trace} (hi : ExecInv base st tr) (T : Trace)
    (hT : tr <+: T) (st' : ExecSt) (hc : chs st' = chs st) (m' : Handle) (hfd : st'.ms.fd = some m')
    (hrd : OpenedRd T m') (hS : FdsAre T (base ++ chs st ++ [m'])) : ExecInv base st' T :=
  ⟨hi.baseLen, fun d hd => (hi.baseOpen d hd).ext hT, fun d hd => by rw [hc] at hd; exact (hi.chsOpen d hd).ext hT,
   m', hfd, hrd, by rw [hc]; exact hS⟩

macro "ext_tr" : tactic =>
  `(tactic| repeat (first | exact List.prefix_append _ _ | exact List.prefix_rfl | refine List.IsPrefix.trans ?_ (List.prefix_append _ _)))

theorem fds_execOne (env : PEnv) (mh : Match) (st : ExecSt) (tr : Trace) (base : List Handle) (hi : ExecInv base st tr) :
    wp R ForkI (execOne env mh st) (fun x tr' => ExecInv base x.1 tr') tr := by
  obtain ⟨m, hfd, hrd, hS⟩ := hi.msg
  unfold execOne
  simp only [bind_eq, pure_eq, call_bind]
  have moveBranch : wp R ForkI
      ((maildirOpenDst mh.path).bind fun d =>
        match d with
        | none => Prog.ret (st, true)
        | some dst =>
          (maildirMove env st.src dst st.ms).bind fun x =>
            if x.snd = true then
              (maildirClose dst).bind fun _ =>
                Prog.ret ({ src := st.src, chsrc := st.chsrc, ms := x.fst, reject := st.reject }, true)
            else
              if (st.src.subdir != dst.subdir || st.src.root != dst.root) = true then
                if st.chsrc = true then
                  (maildirClose st.src).bind fun _ =>
                    Prog.ret ({ src := dst, chsrc := true, ms := x.fst, reject := st.reject }, false)
                else Prog.ret ({ src := dst, chsrc := true, ms := x.fst, reject := st.reject }, false)
              else
                (maildirClose dst).bind fun _ =>
                  Prog.ret ({ src := st.src, chsrc := st.chsrc, ms := x.fst, reject := st.reject }, false))
      (fun x tr' => ExecInv base x.1 tr') tr := by
    refine wp_bind_ext (fds_maildirOpenDst _ tr _ hS) ?_
    intro d L0 hd
    cases d with
    | none => exact hi.extend _ (by ext_tr) st rfl m hfd (hrd.mono _) hd
    | some dst =>
      obtain ⟨dh, hdh, hS1, hop⟩ := hd
      dsimp only
      refine wp_bind_ext (fds_maildirMove env st.src dst st.ms _ _ hS1) ?_
      rintro ⟨ms', e⟩ L1 ⟨hfd', hS2⟩
      simp only at hfd' ⊢
      have hfd2 : ms'.fd = some m := hfd'.trans hfd
      -- close the destination again: back to the situation before
      have closeDst : ∀ (b : Bool),
          wp R ForkI ((maildirClose dst).bind fun _ =>
            Prog.ret (({ src := st.src, chsrc := st.chsrc, ms := ms', reject := st.reject } : ExecSt), b))
          (fun x tr' => ExecInv base x.1 tr') (tr ++ L0 ++ L1) := by
        intro b
        refine wp_bind_ext (fds_maildirClose dst _ _ hS2) ?_
        intro _ L2 hS3
        unfold dropDir at hS3
        rw [hdh] at hS3
        exact hi.extend _ (by ext_tr) { src := st.src, chsrc := st.chsrc, ms := ms', reject := st.reject } rfl m hfd2
          (hrd.ext (by ext_tr)) (hS3.congr (by fds_count))
      -- the message is now in another maildir: `dst` becomes the source
      have newSrc : ∀ (T : Trace), (tr ++ L0 <+: T) → FdsAre T (base ++ [dh] ++ [m]) →
          ExecInv base { src := dst, chsrc := true, ms := ms', reject := st.reject } T := by
        rintro T ⟨L, rfl⟩ hT
        have hc : chs { src := dst, chsrc := true, ms := ms', reject := st.reject } = [dh] := by simp [chs, hdh]
        refine ⟨hi.baseLen, fun d hd => (hi.baseOpen d hd).ext (by ext_tr), ?_, m, hfd2, hrd.ext (by ext_tr), by rw [hc]; exact hT⟩
        intro d hd
        rw [hc, List.mem_singleton] at hd
        subst hd
        exact hop.mono L
      split
      · exact closeDst true
      · split
        · split
          · rename_i hch
            refine wp_bind_ext (fds_maildirClose st.src _ _ hS2) ?_
            intro _ L2 hS3
            refine newSrc _ (by ext_tr) ?_
            have hc : chs st = st.src.dirH.toList := by simp [chs, hch]
            rw [hc] at hS3
            unfold dropDir at hS3
            cases hsd : st.src.dirH with
            | none =>
              rw [hsd] at hS3
              exact hS3.congr (by fds_count)
            | some sd =>
              rw [hsd] at hS3
              exact hS3.congr (by fds_count)
          · rename_i hch
            have hc : chs st = [] := by simp [chs, hch]
            rw [hc] at hS2
            exact newSrc _ (by ext_tr) (hS2.congr (by fds_count))
        · exact closeDst false
  have labelBranch : wp R ForkI ((maildirWrite env st.src st.ms).bind fun x =>
        Prog.ret (({ src := st.src, chsrc := st.chsrc, ms := x.fst, reject := st.reject } : ExecSt), x.snd))
      (fun x tr' => ExecInv base x.1 tr') tr := by
    refine wp_bind_ext (fds_maildirWrite env st.src st.ms _ _ hS) ?_
    rintro ⟨ms', e⟩ L (⟨hfd', hL⟩ | ⟨m', hfd', hrd', hL⟩)
    · exact hi.extend _ (by ext_tr) _ rfl m (hfd'.trans hfd) (hrd.mono _) hL
    · refine hi.extend _ (by ext_tr) _ rfl m' hfd' hrd' ?_
      unfold dropFd at hL
      rw [hfd] at hL
      exact hL.congr (by fds_count)
  split
  · exact moveBranch
  · exact moveBranch
  · exact moveBranch
  · -- discard
    refine wp_bind_ext (wp_nofd' (nofd_maildirUnlink st.src st.ms.name) hS) ?_
    intro e L hL
    refine hi.extend _ (by ext_tr) _ ?_ m ?_ (hrd.mono _) hL
    · split <;> rfl
    · split <;> exact hfd
  · exact labelBranch
  · exact labelBranch
  · -- reject
    exact hi.extend _ List.prefix_rfl _ rfl m hfd hrd hS
  · -- exec
    have hlen : (base ++ chs st).length ≤ 2 := by
      have := chs_length st
      have := hi.baseLen
      simp only [List.length_append]
      omega
    refine wp_bind_ext (P := fun fdr tr' => match fdr with
        | none => FdsAre tr' (base ++ chs st ++ [m])
        | some fd => FdsAre tr' (base ++ chs st ++ [m] ++ fd.toList) ∧ ∀ x, fd = some x → ChildStdin tr' x) ?_ ?_
    · split
      · refine wp_bind_ext (fds_messageGetFd env st.ms _ mh.execBody _ _ hS) ?_
        intro f L hf
        cases f with
        | none => exact hf
        | some fd =>
          refine ⟨hf.1, ?_⟩
          intro x hx
          cases hx
          exact hf.2
      · exact ⟨by simpa using hS, fun x hx => by cases hx⟩
    · intro fdr L0 hfdr
      cases fdr with
      | none => exact hi.extend _ (by ext_tr) _ rfl m hfd (hrd.mono _) hfdr
      | some fd =>
        dsimp only at hfdr ⊢
        refine wp_bind_ext (fds_execP _ fd _ (base ++ chs st) m hlen ?_ (hrd.mono _) hfdr.1 hfdr.2) ?_
        · intro d hd
          rcases List.mem_append.1 hd with hd | hd
          · exact (hi.baseOpen d hd).mono _
          · exact (hi.chsOpen d hd).mono _
        intro rc L1 h1
        cases fd with
        | none => exact hi.extend _ (by ext_tr) _ rfl m hfd (hrd.ext (by ext_tr)) (by simpa using h1)
        | some x =>
          dsimp only
          refine wp_call (by plain) fun r _ => ?_
          exact hi.extend _ (by ext_tr) _ rfl m hfd (hrd.ext (by ext_tr))
            ((h1.closed (c := .close x) rfl r).congr (by fds_count))
  · exact hi.extend _ List.prefix_rfl _ rfl m hfd hrd hS

theorem fds_matchesExec (env : PEnv) (ml : MatchList) (st : ExecSt) (tr : Trace) (base : List Handle) (hi : ExecInv base st tr) :
    wp R ForkI (matchesExec env ml st)
      (fun x tr' => ∃ m, x.1.ms.fd = some m ∧ FdsAre tr' (base ++ [m])) tr := by
  -- the end: close the stream of the maildir the message was moved to
  have fin : ∀ (st' : ExecSt) (T : Trace) (b : Bool), ExecInv base st' T →
      wp R ForkI (if st'.chsrc = true then (maildirClose st'.src).bind fun _ => Prog.ret (st', b) else Prog.ret (st', b))
        (fun x tr' => ∃ m, x.1.ms.fd = some m ∧ FdsAre tr' (base ++ [m])) T := by
    intro st' T b hi'
    obtain ⟨m, hfd, hrd, hS⟩ := hi'.msg
    split
    · rename_i hch
      refine wp_bind_ext (fds_maildirClose st'.src _ _ hS) ?_
      intro _ L hL
      refine ⟨m, hfd, ?_⟩
      have hc : chs st' = st'.src.dirH.toList := by simp [chs, hch]
      rw [hc] at hL
      unfold dropDir at hL
      cases hsd : st'.src.dirH with
      | none =>
        rw [hsd] at hL
        exact hL.congr (by fds_count)
      | some sd =>
        rw [hsd] at hL
        exact hL.congr (by fds_count)
    · rename_i hch
      have hc : chs st' = [] := by simp [chs, hch]
      rw [hc] at hS
      exact ⟨m, hfd, hS.congr (by fds_count)⟩
  induction ml generalizing st tr with
  | nil =>
    rw [matchesExec_nil]
    exact fin st tr false hi
  | cons mh rest ih =>
    rw [matchesExec_cons]
    refine wp_bind_ext (fds_execOne env mh st tr base hi) ?_
    intro x L hx
    split
    · unfold errTail
      exact fin x.1 _ true hx
    · exact ih x.1 _ hx

/-! ## one message -/

theorem fds_messageParseP (d : Handle) (dir name content : Bytes) (tr : Trace) (S : List Handle) (h : FdsAre tr S) :
    wp R ForkI (messageParseP d dir name content)
      (fun res tr' => match res with
        | none => FdsAre tr' S
        | some ms => ∃ fd, ms.fd = some fd ∧ OpenedRd tr' fd ∧ FdsAre tr' (S ++ [fd])) tr := by
  unfold messageParseP
  simp only [bind_eq, pure_eq, call_bind]
  refine wp_call (by plain) fun r _ => ?_
  cases r with
  | ok fd =>
    dsimp only
    have h1 : FdsAre (tr ++ [(Call.openRd d name, Res.ok fd)]) (S ++ [fd]) := h.opened rfl fd
    have hop : OpenedRd (tr ++ [(Call.openRd d name, Res.ok fd)]) fd := ⟨d, name, by simp⟩
    generalize tr ++ [(Call.openRd d name, Res.ok fd)] = T at h1 hop ⊢
    refine wp_bind_ext (wp_nofd' (nofd_readAll fd _) h1) ?_
    intro failed L hL
    have closeIt : wp R ForkI (Prog.call (Call.close fd) fun _ => Prog.ret (none : Option MsgSt))
        (fun res tr' => match res with
          | none => FdsAre tr' S
          | some ms => ∃ fd, ms.fd = some fd ∧ OpenedRd tr' fd ∧ FdsAre tr' (S ++ [fd])) (T ++ L) := by
      refine wp_call (by plain) fun r2 _ => ?_
      exact (hL.closed (c := .close fd) rfl r2).congr (by fds_count)
    split
    · exact closeIt
    · split
      · split
        · exact ⟨fd, rfl, hop.mono _, hL⟩
        · exact closeIt
      · exact closeIt
  | err e => exact h.failed rfl (by intro v hv; cases hv)
  | name n => exact h.failed rfl (by intro v hv; cases hv)
  | eof => exact h.failed rfl (by intro v hv; cases hv)

theorem fds_freeP (ms : MsgSt) (tr : Trace) (S : List Handle) (h : FdsAre tr S) :
    wp R ForkI (freeP ms) (fun _ tr' => FdsAre tr' (dropFd ms S)) tr := by
  unfold freeP dropFd
  cases hfd : ms.fd with
  | some m =>
    simp only [call_bind]
    refine wp_call (by plain) fun r _ => ?_
    exact h.closed (c := .close m) rfl r
  | none => exact h

theorem fds_afterVerdict (env : PEnv) (md : Maildir) (name : Bytes) (st : MainSt) (ms : MsgSt) (v : Verdict)
    (tr : Trace) (d fd : Handle) (hd : md.dirH = some d) (hop : Opened tr d) (hfd : ms.fd = some fd) (hrd : OpenedRd tr fd)
    (h : FdsAre tr ([d] ++ [fd])) :
    wp R ForkI (afterVerdict env md name st ms v) (fun x tr' => x.2 = md ∧ FdsAre tr' [d]) tr := by
  have hfree : ∀ (ms' : MsgSt) (r : MainSt × Maildir) (T : Trace) (m : Handle), r.2 = md → ms'.fd = some m →
      FdsAre T ([d] ++ [m]) →
      wp R ForkI ((freeP ms').bind fun _ => .ret r) (fun x tr' => x.2 = md ∧ FdsAre tr' [d]) T := by
    intro ms' r T m hr hm hT
    refine wp_bind_ext (fds_freeP ms' T _ hT) ?_
    intro _ L hL
    refine ⟨hr, ?_⟩
    unfold dropFd at hL
    rw [hm] at hL
    exact hL.congr (by fds_count)
  cases v with
  | unparsable => exact hfree _ _ _ fd rfl hfd h
  | error => exact hfree _ _ _ fd rfl hfd h
  | interpFail => exact hfree _ _ _ fd rfl hfd h
  | «nomatch» => exact hfree _ _ _ fd rfl hfd h
  | act ml msgs fl =>
    unfold afterVerdict
    dsimp only
    split
    · exact hfree _ _ _ fd rfl hfd h
    · have hi : ExecInv [d] { src := md, chsrc := false, ms := { ms with msg := msgs 0, flags := fl }, reject := false } tr :=
        ⟨by simp, by intro x hx; simp only [List.mem_singleton] at hx; subst hx; exact hop,
         by intro x hx; simp [chs] at hx, fd, hfd, hrd, by simpa [chs] using h⟩
      refine wp_bind_ext (fds_matchesExec env ml _ tr [d] hi) ?_
      rintro x L ⟨m, hm, hL⟩
      exact hfree _ _ _ m rfl hm hL

theorem fds_processMessage (env : PEnv) (orc : EvalOracles) (expr : Expr) (md : Maildir) (name : Bytes) (st : MainSt)
    (tr : Trace) (hop : ∀ d, md.dirH = some d → Opened tr d) (h : FdsAre tr md.dirH.toList) :
    wp R ForkI (processMessage env orc expr md name st) (fun x tr' => x.2 = md ∧ FdsAre tr' md.dirH.toList) tr := by
  cases hd : md.dirH with
  | none => rw [processMessage_noDir env orc expr md name st hd]; exact ⟨rfl, by rw [hd] at h; exact h⟩
  | some d =>
    rw [hd] at h
    simp only [Option.toList] at h ⊢
    cases hf : st.files.get md.path name with
    | none => rw [processMessage_unknown env orc expr md name st d hd hf]; exact ⟨rfl, h⟩
    | some content =>
      rw [processMessage_eq env orc expr md name st d content hd hf]
      refine wp_bind_ext (fds_messageParseP d md.path name content tr _ h) ?_
      intro pm L hpm
      cases pm with
      | none => exact ⟨rfl, hpm⟩
      | some ms =>
        obtain ⟨fd, hfd, hrd, hS⟩ := hpm
        unfold afterParse evalMs
        refine wp_bind_ext (fds_evalP _ expr ms.msg ms.flags (tr ++ L) [d] fd (by simp)
          (by intro x hx; simp only [List.mem_singleton] at hx; subst hx; exact (hop x hd).mono _) hrd hS) ?_
        intro ev L2 hL2
        exact fds_afterVerdict env md name st ms _ _ d fd hd (((hop d hd).mono _).mono _) hfd (hrd.mono _) hL2

/-! ## a maildir -/

theorem fds_walk (env : PEnv) (orc : EvalOracles) (expr : Expr) (fuel : Nat) (md : Maildir) (st : MainSt) (tr : Trace)
    (hop : ∀ d, md.dirH = some d → Opened tr d) (h : FdsAre tr md.dirH.toList) :
    wp R ForkI (walk env orc expr fuel md st)
      (fun x tr' => (∀ d, x.2.dirH = some d → Opened tr' d) ∧ FdsAre tr' x.2.dirH.toList) tr := by
  induction fuel generalizing md st tr with
  | zero => rw [walk_zero]; exact ⟨hop, h⟩
  | succ fuel ih =>
    rw [walk_succ]
    split
    · exact ⟨hop, h⟩
    rename_i d hdir
    refine wp_call (by plain) fun r _ => ?_
    have h1 : FdsAre (tr ++ [(Call.readdir d, r)]) md.dirH.toList := h.other rfl (.inl rfl)
    have hop1 : ∀ x, md.dirH = some x → Opened (tr ++ [(Call.readdir d, r)]) x := fun x hx => (hop x hx).mono _
    generalize tr ++ [(Call.readdir d, r)] = T at h1 hop1 ⊢
    unfold walkK
    cases r with
    | name n =>
      dsimp only
      split
      · exact ih _ _ _ hop1 h1
      · refine wp_bind_ext (fds_processMessage env orc expr md n st T hop1 h1) ?_
        rintro x L ⟨hx, hL⟩
        rw [hx]
        exact ih _ _ _ (fun y hy => (hop1 y hy).mono _) hL
    | eof =>
      dsimp only
      split
      · exact ⟨hop1, h1⟩
      · split
        · exact ⟨hop1, h1⟩
        · split
          · exact ⟨hop1, h1⟩
          · rename_i p _
            refine wp_bind_ext (fds_maildirOpendir { md with subdir := .cur, path := p } p T _ h1) ?_
            rintro ⟨md', failed⟩ L (⟨d', h2, h3, h4, h5⟩ | ⟨h2, h3, h4⟩)
            · simp only at h2 h3
              subst h3
              simp only [Bool.false_eq_true, if_false]
              refine ih _ _ _ (fun y hy => ?_) ?_
              · rw [h2] at hy; cases hy; exact h5
              · rw [h2]
                unfold dropDir at h4
                simp only [hdir, Option.toList] at h4 ⊢
                exact h4.congr (by fds_count)
            · simp only at h2 h3
              subst h3
              simp only [if_true]
              refine ⟨fun y hy => (by rw [h2] at hy; cases hy), ?_⟩
              rw [h2]
              unfold dropDir at h4
              simp only [hdir, Option.toList] at h4 ⊢
              exact h4.congr (by fds_count)
    | ok v => exact ⟨hop1, h1⟩
    | err e => exact ⟨hop1, h1⟩

/-! ## the stdin spool -/

theorem fds_maildirStdin (env : PEnv) (input : Bytes) (tr : Trace) (h : FdsAre tr []) :
    wp R ForkI (maildirStdin env input)
      (fun x tr' => (∀ d, x.1.dirH = some d → Opened tr' d) ∧ FdsAre tr' x.1.dirH.toList) tr := by
  unfold maildirStdin gennameStart
  simp only [bind_eq, pure_eq, call_bind]
  have none0 : ∀ (T : Trace) (md : Maildir), md.dirH = none → FdsAre T [] →
      (∀ d, md.dirH = some d → Opened T d) ∧ FdsAre T md.dirH.toList := by
    intro T md hmd hT
    rw [hmd]
    exact ⟨fun d hd => (by cases hd), hT⟩
  split
  · exact none0 _ _ rfl h
  rename_i tmpl _
  refine wp_call (by plain) fun r _ => ?_
  have h1 : FdsAre (tr ++ [(Call.mkdtemp tmpl, r)]) [] := h.other rfl (.inl rfl)
  generalize tr ++ [(Call.mkdtemp tmpl, r)] = T1 at h1 ⊢
  cases r with
  | name root =>
    dsimp only
    split
    · exact none0 _ _ rfl h1
    rename_i p _
    refine wp_call (by plain) fun r2 _ => ?_
    have h2 : FdsAre (T1 ++ [(Call.mkdir p, r2)]) [] := h1.other rfl (.inl rfl)
    generalize T1 ++ [(Call.mkdir p, r2)] = T2 at h2 ⊢
    split
    · exact none0 _ _ rfl h2
    · refine wp_bind_ext (fds_maildirOpendir _ p T2 [] h2) ?_
      rintro ⟨md2, failed⟩ L (⟨d, hd, hf, hS, hop⟩ | ⟨hd, hf, hS⟩)
      · simp only at hd hf
        subst hf
        simp only [Bool.false_eq_true, if_false]
        have hS' : FdsAre (T2 ++ L) [d] := hS.congr (by unfold dropDir; fds_count)
        have keep : ∀ (T : Trace), (T2 ++ L <+: T) → FdsAre T [d] →
            (∀ x, md2.dirH = some x → Opened T x) ∧ FdsAre T md2.dirH.toList := by
          intro T hT hFd
          rw [hd]
          exact ⟨fun x hx => by cases hx; exact hop.ext hT, hFd⟩
        refine wp_bind_ext (fds_genname env md2 none gennameAttempts _ _ [d] hS') ?_
        intro g L1 hg
        cases g with
        | none => exact keep _ (by ext_tr) hg
        | some x =>
          obtain ⟨fd, name⟩ := x
          dsimp only at hg ⊢
          refine wp_bind_ext (wp_nofd' (nofd_copyStdin fd _ input) hg) ?_
          intro e1 L2 h3
          refine wp_bind_ext (P := fun _ tr' => (T2 ++ L <+: tr') ∧ FdsAre tr' ([d] ++ [fd])) ?_ ?_
          · split
            · exact ⟨by ext_tr, h3⟩
            · refine wp_call (by plain) fun r3 _ => ?_
              exact ⟨by ext_tr, h3.other rfl (.inl rfl)⟩
          · rintro e2 L3 ⟨hpre, h4⟩
            refine wp_call (by plain) fun r4 _ => ?_
            exact keep _ (List.IsPrefix.trans hpre (List.prefix_append _ _))
              ((h4.closed (c := .close fd) rfl r4).congr (by fds_count))
      · simp only at hd hf
        subst hf
        simp only [if_true]
        exact none0 _ _ hd (hS.congr (by unfold dropDir; fds_count))
  | ok v => exact none0 _ _ rfl h1
  | err e => exact none0 _ _ rfl h1
  | eof => exact none0 _ _ rfl h1

theorem fds_closeStdin (fuel : Nat) (md : Maildir) (tr : Trace) (h : FdsAre tr md.dirH.toList) :
    wp R ForkI (closeStdin fuel md) (fun _ tr' => FdsAre tr' []) tr := by
  unfold closeStdin
  cases hdir : md.dirH with
  | none =>
    rw [hdir] at h
    simp only [bind_eq, pure_eq, call_bind, ret_bind]
    refine wp_call (by plain) fun r1 _ => ?_
    refine wp_call (by plain) fun r2 _ => ?_
    exact (h.other (c := .rmdir md.path) (r := r1) rfl (.inl rfl)).other rfl (.inl rfl)
  | some d =>
    rw [hdir] at h
    simp only [Option.toList] at h
    simp only [bind_eq, pure_eq, call_bind, call_bind', ret_bind]
    refine wp_call (by plain) fun r0 _ => ?_
    have h0 : FdsAre (tr ++ [(Call.rewinddir d, r0)]) [d] := h.other rfl (.inl rfl)
    refine wp_bind_ext (wp_nofd' (nofd_closeLoop d fuel) h0) ?_
    intro _ L hL
    refine wp_call (by plain) fun r1 _ => ?_
    refine wp_call (by plain) fun r2 _ => ?_
    refine wp_call (by plain) fun r3 _ => ?_
    have h1 := (hL.other (c := .rmdir md.path) (r := r1) rfl (.inl rfl)).other (c := .rmdir md.root) (r := r2) rfl (.inl rfl)
    exact (h1.closed (c := .closedir d) rfl r3).congr (by fds_count)

/-! ## the whole run -/

theorem fds_paths (env : PEnv) (orc : EvalOracles) (input : Bytes) (b : ConfBlock) (ps : List Bytes) (st : MainSt)
    (tr : Trace) (h : FdsAre tr []) :
    wp R ForkI (mainP.blocks.paths env orc input b ps st) (fun _ tr' => FdsAre tr' []) tr := by
  induction ps generalizing st tr with
  | nil => rw [paths_nil]; exact h
  | cons p more ih =>
    rw [paths_cons]
    split
    · exact ih _ _ h
    · split
      · refine wp_bind_ext (fds_maildirStdin env input tr h) ?_
        rintro x L ⟨hop, hx⟩
        split
        · refine wp_bind_ext (fds_closeStdin _ x.1 _ hx) ?_
          intro _ L2 h2
          exact ih _ _ h2
        · refine wp_bind_ext (fds_walk env orc b.expr _ x.1 _ _ hop hx) ?_
          rintro y L2 ⟨hop2, hy⟩
          refine wp_bind_ext (fds_closeStdin _ y.2 _ hy) ?_
          intro _ L3 h3
          exact ih _ _ h3
      · split
        · rename_i root np _ _
          refine wp_bind_ext (fds_maildirOpendir (maildirOf root np) np tr [] h) ?_
          rintro ⟨md, failed⟩ L (⟨d, hd, hf, hS, hop⟩ | ⟨hd, hf, hS⟩)
          · simp only at hd hf
            subst hf
            simp only [Bool.false_eq_true, if_false]
            refine wp_bind_ext (fds_walk env orc b.expr _ md st _ (fun y hy => by rw [hd] at hy; cases hy; exact hop)
              (by rw [hd]; exact hS.congr (by unfold dropDir maildirOf; fds_count))) ?_
            rintro y L2 ⟨hop2, hy⟩
            refine wp_bind_ext (fds_maildirClose y.2 _ _ hy) ?_
            intro _ L3 h3
            refine ih _ _ (h3.congr ?_)
            unfold dropDir
            cases y.2.dirH <;> fds_count
          · simp only at hd hf
            subst hf
            simp only [if_true]
            exact ih _ _ (hS.congr (by unfold dropDir maildirOf; fds_count))
        · exact ih _ _ h

theorem fds_blocks (env : PEnv) (orc : EvalOracles) (input : Bytes) (bs : List ConfBlock) (st : MainSt) (tr : Trace)
    (h : FdsAre tr []) : wp R ForkI (mainP.blocks env orc input bs st) (fun _ tr' => FdsAre tr' []) tr := by
  induction bs generalizing st tr with
  | nil => rw [blocks_nil]; exact h
  | cons b rest ih =>
    rw [blocks_cons]
    refine wp_bind_ext (fds_paths env orc input b _ _ _ h) ?_
    intro st' L hL
    exact ih _ _ hL

theorem fds_mainK (env : PEnv) (orc : EvalOracles) (ok : Bool) (conf : List ConfBlock) (files : Files) (input : Bytes)
    (tr : Trace) (h : FdsAre tr []) :
    wp R ForkI (mainK env orc ok conf files input) (fun _ tr' => FdsAre tr' []) tr := by
  unfold mainK
  split
  · exact h
  · split
    · exact h
    · refine wp_bind_ext (fds_blocks env orc input _ _ _ h) ?_
      intro stf L hL
      exact hL

theorem fds_mainP (env : PEnv) (orc : EvalOracles) (ok : Bool) (conf : List ConfBlock) (files : Files) (input : Bytes) :
    wp R ForkI (mainP env orc ok conf files input) (fun _ tr' => FdsAre tr' []) [] := by
  rw [mainP_eq]
  refine wp_call ⟨fun _ _ e => (by cases e), fun _ _ => rfl⟩ fun r _ => ?_
  cases r with
  | ok hn =>
    dsimp only
    have h1 : FdsAre ([] ++ [(Call.fopen env.confpath, Res.ok hn)]) ([] ++ [hn]) := FdsAre.nil.opened rfl hn
    refine wp_call (by plain) fun r2 _ => ?_
    exact fds_mainK env orc ok conf files input _ ((h1.closed (c := .fclose hn) rfl r2).congr (S' := []) (by fds_count))
  | err e => exact FdsAre.nil.failed rfl (by intro v hv; cases hv)
  | name n => exact FdsAre.nil.failed rfl (by intro v hv; cases hv)
  | eof => exact FdsAre.nil.failed rfl (by intro v hv; cases hv)

/-! ## the statements of Props/C13 -/

/-- **Descriptor hygiene**: whatever the calls return, at every `fork` of a run of `main` the open descriptors are as
`ForkFds` says. -/
theorem fd_hygiene_of (env : PEnv) (orc : EvalOracles) (ok : Bool) (conf : List ConfBlock) (files : Files) (input : Bytes)
    (orcl : Nat → Call → Res) (j : Nat) (argv : List Bytes) (s : Handle) (r : Res)
    (h : (runOracle orcl (mainP env orc ok conf files input) 0 []).2[j]? = some (.fork argv s, r)) :
    ForkFdsOf ((runOracle orcl (mainP env orc ok conf files input) 0 []).2.take j) s :=
  ((wp_sound (R := fun _ _ => True) orcl (fun _ _ => True.intro) (fds_mainP env orc ok conf files input) 0).2.2
    j (.fork argv s) r (Nat.zero_le _) h).1 argv s rfl

theorem fd_hygiene (env : PEnv) (orc : EvalOracles) (ok : Bool) (conf : List ConfBlock) (files : Files) (input : Bytes)
    (orcl : Nat → Call → Res) (j : Nat) (argv : List Bytes) (s : Handle) (r : Res)
    (h : (runOracle orcl (mainP env orc ok conf files input) 0 []).2[j]? = some (.fork argv s, r)) :
    ForkFds ((runOracle orcl (mainP env orc ok conf files input) 0 []).2.take j) :=
  (fd_hygiene_of env orc ok conf files input orcl j argv s r h).forkFds

/-- A trace without `fopen` adds only descriptors born close-on-exec. -/
theorem foldl_cloexec (L : Trace) : ∀ (acc : List (Handle × Call)), (∀ p ∈ acc, p.2.cloexec = true) →
    (∀ x ∈ L, ∀ q, x.1 ≠ .fopen q) → ∀ p ∈ L.foldl fdTableStep acc, p.2.cloexec = true := by
  induction L with
  | nil => intro acc h _ p hp; exact h p hp
  | cons x L ih =>
    intro acc h hL p hp
    refine ih (fdTableStep acc x) ?_ (fun y hy => hL y (List.mem_cons_of_mem _ hy)) p hp
    intro q hq
    obtain ⟨c, r⟩ := x
    unfold fdTableStep at hq
    split at hq
    · exact h q (List.mem_of_mem_eraseP hq)
    · cases r with
      | ok v =>
        dsimp only at hq
        split at hq
        · rcases List.mem_append.1 hq with hq | hq
          · exact h q hq
          · simp only [List.mem_singleton] at hq
            subst hq
            rename_i hop
            have hne := hL (c, .ok v) (List.mem_cons_self ..)
            cases c <;> first | rfl | exact (hne _ rfl).elim | cases hop
        · exact h q hq
      | err _ => exact h q hq
      | name _ => exact h q hq
      | eof => exact h q hq

/-- ... and every one of them was created by a call whose descriptor has the close-on-exec flag from birth: the stream
of the configuration file (`fopen`, the only creating call without the flag) has been closed before. -/
theorem fd_hygiene_cloexec (env : PEnv) (orc : EvalOracles) (ok : Bool) (conf : List ConfBlock) (files : Files) (input : Bytes)
    (orcl : Nat → Call → Res) (j : Nat) (argv : List Bytes) (s : Handle) (r : Res)
    (h : (runOracle orcl (mainP env orc ok conf files input) 0 []).2[j]? = some (.fork argv s, r)) :
    ∀ p ∈ openFdsBy ((runOracle orcl (mainP env orc ok conf files input) 0 []).2.take j),
      p.2.cloexec = true ∧ (p.2, Res.ok p.1) ∈ (runOracle orcl (mainP env orc ok conf files input) 0 []).2.take j := by
  intro p hp
  refine ⟨?_, (openFdsBy_mem _ p hp).2⟩
  rw [mainP_eq] at h hp
  simp only [runOracle, List.nil_append] at h hp
  cases h0 : orcl 0 (.fopen env.confpath) with
  | ok hn =>
    rw [h0] at h hp
    simp only [runOracle, List.cons_append, List.nil_append] at h hp
    -- the run of `mainK` from the trace `[fopen, fclose]`
    have hs := wp_sound (R := fun _ _ => True) orcl (fun _ _ => True.intro)
      (fds_mainK env orc ok conf files input [(Call.fopen env.confpath, Res.ok hn), (Call.fclose hn, orcl 1 (Call.fclose hn))]
        (by
          have h1 : FdsAre ([] ++ [(Call.fopen env.confpath, Res.ok hn)]) ([] ++ [hn]) := FdsAre.nil.opened rfl hn
          exact (h1.closed (c := .fclose hn) rfl (orcl 1 (Call.fclose hn))).congr (S' := []) (by fds_count))) 2
    obtain ⟨-, ⟨L, hL⟩, hall⟩ := hs
    rw [hL] at h hp
    have hj : 2 ≤ j := by
      rcases j with _ | _ | j
      · simp at h
      · simp at h
      · omega
    have htake : ([(Call.fopen env.confpath, Res.ok hn), (Call.fclose hn, orcl 1 (Call.fclose hn))] ++ L).take j =
        [(Call.fopen env.confpath, Res.ok hn), (Call.fclose hn, orcl 1 (Call.fclose hn))] ++ L.take (j - 2) := by
      rw [List.take_append]
      simp [List.take_of_length_le, hj]
    rw [htake] at hp
    have h2 : openFdsBy [(Call.fopen env.confpath, Res.ok hn), (Call.fclose hn, orcl 1 (Call.fclose hn))] = [] := by
      simp [openFdsBy, fdTableStep, Call.closesFd, Call.opensFd]
    unfold openFdsBy at hp h2
    rw [List.foldl_append, h2] at hp
    refine foldl_cloexec (L.take (j - 2)) [] (fun _ hq => by cases hq) ?_ p hp
    intro x hx q hq
    -- `x` is a call of the run of `mainK`: a `fopen` there would have to be the first call of the whole run
    obtain ⟨k, hk, hxk⟩ := List.mem_iff_getElem.1 (List.mem_of_mem_take hx)
    have hget : ([(Call.fopen env.confpath, Res.ok hn), (Call.fclose hn, orcl 1 (Call.fclose hn))] ++ L)[k + 2]? = some (x.1, x.2) := by
      rw [List.getElem?_append_right (by simp)]
      simp [hxk, hk]
    have := (hall (k + 2) x.1 x.2 (by simp) (by rw [hL]; exact hget)).2 q hq
    rw [hL] at this
    simp at this
  | err e => rw [h0] at h; simp only [runOracle] at h; rcases j with _ | j <;> simp at h
  | name n => rw [h0] at h; simp only [runOracle] at h; rcases j with _ | j <;> simp at h
  | eof => rw [h0] at h; simp only [runOracle] at h; rcases j with _ | j <;> simp at h

/-! ### the child's standard input, in terms of `message_get_fd` (C11_exec_stdin) -/

/-- Not a `fork`. -/
def NoFork (c : Call) : Prop := c.isFork = false

macro "nofork_step" : tactic =>
  `(tactic| first
      | (with_reducible exact Calls.ret_intro _)
      | ((with_reducible show NoFork _); exact rfl)
      | (with_reducible apply Calls.call_intro)
      | (intro _)
      | (with_reducible apply World.Calls.bind)
      | split
      | (dsimp only; split))

theorem nofork_of_nofd {α} {p : Prog α} (h : Calls NoFd p) : Calls NoFork p := by
  induction p with
  | ret a => exact True.intro
  | call c k ih => exact ⟨h.1.1, fun r => ih r (h.2 r)⟩

theorem nofork_messageWriteP (m : Msg) (fd : Handle) : Calls NoFork (messageWriteP m fd) := by
  unfold messageWriteP
  simp only [bind_eq, pure_eq, call_bind]
  repeat' (first | exact nofork_of_nofd (nofd_hdrs _ _) | nofork_step)

theorem nofork_writefd (tmpdir : Bytes) : Calls NoFork (writefd tmpdir) := by
  unfold writefd
  simp only [bind_eq, pure_eq, call_bind]
  repeat' nofork_step

theorem nofork_messageGetFd (env : PEnv) (ms : MsgSt) (part : Option Msg) (dobody : Bool) :
    Calls (fun c => c.isFork = false) (messageGetFd env ms part dobody) := by
  show Calls NoFork _
  unfold messageGetFd
  simp only [bind_eq, pure_eq, call_bind]
  repeat' (first | exact nofork_writefd _ | exact nofork_of_nofd (nofd_writeAll _ _ _) | exact nofork_messageWriteP _ _ | nofork_step)

/-- The part an exec entry refers to. -/
def execPart (mh : Match) (st : ExecSt) : Option Msg := if mh.part == 0 then none else st.ms.parts[mh.part - 1]?

theorem execOne_stdin_eq (env : PEnv) (mh : Match) (st : ExecSt) (hty : mh.ty = .exec) (hs : mh.execStdin = true) :
    execOne env mh st =
      (messageGetFd env st.ms (execPart mh st) mh.execBody).bind fun f =>
        match f with
        | none => Prog.ret (st, true)
        | some fd => (execP mh.argv (some fd)).bind fun rc => (call (Call.close fd)).bind fun _ => Prog.ret (st, rc != 0) := by
  unfold execOne execPart
  simp only [hty, hs, if_true, bind_eq, pure_eq, bind_assoc, ret_bind]
  congr 1
  funext f
  cases f <;> rfl

theorem execOne_nostdin_eq (env : PEnv) (mh : Match) (st : ExecSt) (hty : mh.ty = .exec) (hs : mh.execStdin = false) :
    execOne env mh st = (execP mh.argv none).bind fun rc => Prog.ret (st, rc != 0) := by
  unfold execOne
  simp only [hty, hs]
  rfl

theorem execP_some_eq (argv : List Bytes) (fd : Handle) :
    ∃ k : Res → Prog Int, execP argv (some fd) = Prog.call (Call.fork argv fd) k := by
  unfold execP
  simp only [bind_eq, pure_eq, call_bind, ret_bind, childStdin]
  exact ⟨_, rfl⟩

/-- With `stdin`: the child is forked right after the calls of `message_get_fd`, and only if it delivered a descriptor. -/
theorem exec_stdin_child (env : PEnv) (mh : Match) (st : ExecSt) (orcl : Nat → Call → Res) (i : Nat) (tr : Trace)
    (hty : mh.ty = .exec) (hs : mh.execStdin = true) :
    ((runOracle orcl (messageGetFd env st.ms (execPart mh st) mh.execBody) i tr).1 = none →
      (runOracle orcl (execOne env mh st) i tr).2 = (runOracle orcl (messageGetFd env st.ms (execPart mh st) mh.execBody) i tr).2 ∧
      (runOracle orcl (execOne env mh st) i tr).1.2 = true) ∧
    (∀ fd, (runOracle orcl (messageGetFd env st.ms (execPart mh st) mh.execBody) i tr).1 = some fd →
      ∃ r rest, (runOracle orcl (execOne env mh st) i tr).2 =
        (runOracle orcl (messageGetFd env st.ms (execPart mh st) mh.execBody) i tr).2 ++ (Call.fork mh.argv fd, r) :: rest) := by
  rw [execOne_stdin_eq env mh st hty hs]
  simp only [runOracle_eq, runO_bind]
  constructor
  · intro hn
    rw [hn]
    simp
  · intro fd hfd
    rw [hfd]
    obtain ⟨k, hk⟩ := execP_some_eq mh.argv fd
    simp only [hk, call_bind', runO_call, runO_bind]
    exact ⟨_, _, (List.append_assoc _ _ _).symm⟩

/-- Without `stdin`: the first call is `open("/dev/null")`; the child is forked right after it, and only if it succeeded. -/
theorem exec_nostdin_child (env : PEnv) (mh : Match) (st : ExecSt) (orcl : Nat → Call → Res) (i : Nat) (tr : Trace)
    (hty : mh.ty = .exec) (hs : mh.execStdin = false) :
    (∀ h, orcl i (.openPath devNull) = .ok h →
      ∃ r rest, (runOracle orcl (execOne env mh st) i tr).2 = tr ++ (Call.openPath devNull, Res.ok h) :: (Call.fork mh.argv h, r) :: rest) ∧
    ((∀ h, orcl i (.openPath devNull) ≠ .ok h) →
      (runOracle orcl (execOne env mh st) i tr).2 = tr ++ [(Call.openPath devNull, orcl i (.openPath devNull))] ∧
      (runOracle orcl (execOne env mh st) i tr).1.2 = true) := by
  rw [execOne_nostdin_eq env mh st hty hs]
  unfold execP
  simp only [runOracle_eq, bind_eq, pure_eq, call_bind, call_bind', runO_call, devNull]
  constructor
  · intro h hh
    rw [hh]
    simp only [ret_bind, call_bind', runO_call, childStdin]
    exact ⟨_, _, rfl⟩
  · intro hne
    cases hh : orcl i (Call.openPath (ofString "/dev/null")) with
    | ok h => exact absurd hh (hne h)
    | err e => simp [runO]
    | name n => simp [runO]
    | eof => simp [runO]

end Mdsort.Proofs.Own
