import Mdsort.Proofs.ConfAnywhere6

/-!
# A defect behind a written prefix, part 7: a repeated option of `exec`, at any action position
-/

namespace Mdsort.Proofs.Conf
open Mdsort Mdsort.Model Mdsort.Spec

variable {tl : Bytes}

/-- The option parser fails at the first repeated option. -/
theorem execFlags_repeated (cx : PCtx) (ts : List PTok) : ∀ (ks : List Kw) (si bo : Bool), optsRepeatFrom si bo ks = true →
    ∀ (fuel : Nat) (s : ParseSt), Up cx tl s (ks.map PTok.kw ++ ts) → Rej (parseExecFlags cx fuel si bo) s := by
  intro ks
  induction ks with
  | nil => intro si bo h; simp [optsRepeatFrom] at h
  | cons k ks ih =>
    intro si bo h fuel s hs
    cases fuel with
    | zero => simp [Rej, parseExecFlags, wpl, outOfFuel]
    | succ fuel =>
      unfold Rej parseExecFlags
      simp only [wpl_bind]
      simp only [List.map_cons, List.cons_append] at hs
      have hm : modeOK false false (.kw k) = true := rfl
      apply wpl_peek_up cx _ _ hs hm
      intro s1 h1
      cases k <;> simp only [optsRepeatFrom, Bool.or_eq_true, Bool.false_eq_true] at h
      case stdin =>
        simp only [tkOf, wpl_bind]
        apply wpl_shift_up h1
        intro s2 h2
        cases si with
        | true => simp only [if_true, wpl_failTok]; exact h2.tokl
        | false =>
          simp only [Bool.false_eq_true, if_false]
          exact ih true bo (by simpa using h) fuel s2 h2
      case body =>
        simp only [tkOf, wpl_bind]
        apply wpl_shift_up h1
        intro s2 h2
        cases bo with
        | true => simp only [if_true, wpl_failTok]; exact h2.tokl
        | false =>
          simp only [Bool.false_eq_true, if_false]
          exact ih si true (by simpa using h) fuel s2 h2

/-- `exec` with a repeated option makes the action loop fail, whatever follows. -/
theorem badActs_execRepeat (cx : PCtx) (ks : List Kw) (h : optsRepeat ks = true) (ts : List PTok) :
    BadActs cx tl (.kw .exec :: (ks.map PTok.kw ++ ts)) := by
  intro fuel acc s hs
  cases fuel with
  | zero => simp [Rej, parseActions, wpl, outOfFuel]
  | succ fuel =>
    unfold Rej parseActions
    simp only [wpl_bind]
    apply wpl_peek_up cx _ _ hs rfl
    intro s1 h1
    simp only [tkOf, parseActionWith, wpl_bind]
    apply wpl_shift_up h1
    intro s2 h2
    exact (execFlags_repeated cx ts ks false false h fuel s2 h2).elim

/-- "exec options cannot be repeated", at any action position. -/
theorem anywhere_exec_option (home : Bytes) (rx : Pat → Bool) (p : ActPos) (hp : p.ok rx = true) (ks : List Kw)
    (hks : optsRepeat ks = true) (tl : Bytes) (htl : tailOK tl = true) :
    parseConfig home [] rx (Spec.render (p.toks ++ (.kw .exec :: ks.map PTok.kw)) ++ tl) = .error 1 := by
  refine parseConfig_rejected home rx _ tl htl ?_ ?_
  · have hk : (ks.map PTok.kw).all lexOK = true := by simp [List.all_map, Function.comp_def, lexOK, tokOK]
    exact List.all_eq_true.mp (by simp [List.all_append, actPos_all rx p hp, hk, lexOK, tokOK])
  · intro fuel s hs
    generalize hcx : ({ nl := countNl tl, home := home, rxOk := rx } : PCtx) = cx at hs ⊢
    have hrx : cx.rxOk = rx := by rw [← hcx]
    simp only [ActPos.ok, Bool.and_eq_true] at hp
    obtain ⟨⟨⟨hrp, hw⟩, hpk⟩, hacts⟩ := hp
    rw [← hrx] at hrp hw hacts
    have h0 : BadActs cx tl (.kw .exec :: (ks.map PTok.kw ++ [])) := badActs_execRepeat cx ks hks []
    have h1 := badActs_acts h0 p.acts hacts
    obtain ⟨k, tks, hk, hsb⟩ := acts_head cx.rxOk p.acts hacts .exec (ks.map PTok.kw ++ []) rfl
    rw [hk] at h1
    have h2 := badRules_of_acts h1 hsb p.cond hw hpk
    refine rej_top cx p.rp hrp _ h2 fuel s ?_
    rw [← hk]
    simpa [ActPos.toks, List.append_assoc] using hs

end Mdsort.Proofs.Conf
