import Mdsort.Proofs.WorldWholeMsg
import Mdsort.Proofs.WorldFrameMain

/-!
# A whole walk and a whole run (maildir mode) under EVERY fault plan: no registered message is lost

`WholeVersion env orc exprs c c'`: `c'` is `c` after zero or more complete rewrites (`wholeRewrite`)
by the rules of `exprs`, each for some answers of the operating system to the questions of evaluation.  `WholeSafe … c w`: some entry of `w` is bound to a file whose visible and
durable contents are versions of `c`.  The loop invariant (`WholeInv`) says that the registry of the
main loop is consistent with the world (`WholeReg`) and still holds a version of every message that
was registered at the start.
-/

namespace Mdsort.Proofs
open Mdsort Mdsort.Model
open Mdsort.Proofs.World (wp wp_mono wp_inv_mono wp_bind_mono wp_call_any WholeK WholePF lk Ent GoodAt Good
  bind_eq pure_eq call_bind ret_bind call_bind')

/-! ## versions -/

inductive WholeVersion (env : PEnv) (orc : EvalOracles) (exprs : List Expr) : Bytes → Bytes → Prop
  | refl (c : Bytes) : WholeVersion env orc exprs c c
  | step {c c1 : Bytes} (expr : Expr) (dir name : Bytes) (as : List SysAns) : WholeVersion env orc exprs c c1 → expr ∈ exprs →
      WholeVersion env orc exprs c (wholeRewrite env orc expr dir name c1 as)

/-- Some entry is bound to a file whose visible and durable contents are both versions of `c`. -/
def WholeSafe (env : PEnv) (orc : EvalOracles) (exprs : List Expr) (c : Bytes) (w : World) : Prop :=
  ∃ d n fid f, w.lookup d n = some fid ∧ fid < w.nextFid ∧ w.file fid = some f ∧
    WholeVersion env orc exprs c f.data ∧ WholeVersion env orc exprs c f.durable

/-- Every message of the registry `files0` is safe in `w`. -/
def WholeAllSafe (env : PEnv) (orc : EvalOracles) (exprs : List Expr) (files0 : Files) (w : World) : Prop :=
  ∀ dir nm c, files0.get dir nm = some c → WholeSafe env orc exprs c w

/-- The invariant of the main loop between two messages. -/
structure WholeInv (env : PEnv) (orc : EvalOracles) (exprs : List Expr) (files0 : Files) (w : World) (st : MainSt) : Prop where
  reg : WholeReg w st.files
  track : ∀ dir nm c, files0.get dir nm = some c →
    ∃ dir' nm' c', st.files.get dir' nm' = some c' ∧ WholeVersion env orc exprs c c'

theorem WholeInv.allSafe {env : PEnv} {orc : EvalOracles} {exprs : List Expr} {files0 : Files} {w : World} {st : MainSt}
    (h : WholeInv env orc exprs files0 w st) : WholeAllSafe env orc exprs files0 w := by
  intro dir nm c hc
  obtain ⟨dir', nm', c', hc', hv⟩ := h.track dir nm c hc
  obtain ⟨fid, h1, h2, h3⟩ := h.reg dir' nm' c' hc'
  exact ⟨dir', nm', fid, _, h1, h2, h3, hv, hv⟩

/-- A call that is no directory operation and writes no file. -/
theorem WholeReg.step {w : World} {files : Files} (h : WholeReg w files) (c : Call) (r : Res)
    (hd : World.Call.dirOp c = false) (hfs : ∀ g, World.fileSafe w g c) : WholeReg (stepWorld w c r) files := by
  intro dir nm x hx
  obtain ⟨fid, h1, h2, h3⟩ := h dir nm x hx
  have hf := World.file_step h3 h2 c r (hfs fid)
  exact ⟨fid, by rw [← h1]; exact World.lk_step w c r hd (dir, nm), hf.2, hf.1⟩

theorem WholeInv.step {env : PEnv} {orc : EvalOracles} {exprs : List Expr} {files0 : Files} {w : World} {st : MainSt}
    (h : WholeInv env orc exprs files0 w st) (c : Call) (r : Res)
    (hd : World.Call.dirOp c = false) (hfs : ∀ g, World.fileSafe w g c) :
    WholeInv env orc exprs files0 (stepWorld w c r) st :=
  ⟨h.reg.step c r hd hfs, h.track⟩

/-! ## the maildir being walked -/

/-- The maildir's handle (if any) is open on its path, and the path is root + subdirectory. -/
def WholeMdOk (w : World) (md : Maildir) : Prop :=
  (∀ d, md.dirH = some d → w.dirPath d = some md.path) ∧
  pathjoin PATH_MAX md.root (subdirName md.subdir) = some md.path

theorem whole_readdir_dirPath {w : World} {d : Handle} {p : Bytes} (hp : w.dirPath d = some p) (r : Res) :
    (World.core w (.readdir d) r).dirPath d = some p := by
  have hlt : d < w.handles.length := World.lt_of_dirPath hp
  unfold World.dirPath at hp
  split at hp
  · rename_i p' snap pos ho
    cases hp
    unfold World.core
    cases r with
    | name n =>
      simp only [applyOk, ho]
      split
      · simp only [Option.getD_some]
        unfold World.dirPath
        rw [World.obj_setObj]
        simp [hlt]
      · simp only [Option.getD_none]
        unfold World.dirPath
        rw [ho]
    | eof =>
      simp only [applyOk, ho]
      split
      · simp only [Option.getD_some]
        unfold World.dirPath
        rw [World.obj_setObj]
        simp [hlt]
      · simp only [Option.getD_none]
        unfold World.dirPath
        rw [ho]
    | ok v =>
      have : applyOk w (.readdir d) (.ok v) = none := rfl
      rw [this]
      simp only [Option.getD_none]
      unfold World.dirPath
      rw [ho]
    | err e =>
      have : applyOk w (.readdir d) (.err e) = some w := rfl
      rw [this]
      simp only [Option.getD_some]
      unfold World.dirPath
      rw [ho]
  · cases hp

theorem WholeMdOk.step {w : World} {md : Maildir} (h : WholeMdOk w md) (c : Call) (r : Res)
    (hs : ∀ d, md.dirH = some d → World.Call.subject c ≠ some d) : WholeMdOk (stepWorld w c r) md := by
  refine ⟨?_, h.2⟩
  intro d hd
  have hp := h.1 d hd
  rw [World.stepWorld_dirPath, ← hp]
  exact World.dirPath_congr (World.core_obj w c r d (World.lt_of_dirPath hp) (hs d hd))

/-- `maildir_opendir` at the level of the walk. -/
theorem whole_maildirOpendir {env : PEnv} {orc : EvalOracles} {exprs : List Expr} {files0 : Files} (md : Maildir) (path : Bytes)
    {w : World} {st : MainSt} (hinv : WholeInv env orc exprs files0 w st) :
    wp (WholeAllSafe env orc exprs files0) (maildirOpendir md path)
      (fun r w' => WholeInv env orc exprs files0 w' st ∧ r.1.root = md.root ∧ r.1.subdir = md.subdir ∧ r.1.path = md.path ∧
        ∀ h, r.1.dirH = some h → w'.dirPath h = some path) w := by
  have tail : ∀ w1, WholeInv env orc exprs files0 w1 st →
      wp (WholeAllSafe env orc exprs files0)
        (Prog.call (Call.opendir path) fun r =>
          match r with
          | Res.ok h => Prog.ret (({ md with dirH := some h } : Maildir), false)
          | _ => Prog.ret (({ md with dirH := none } : Maildir), true))
        (fun r w' => WholeInv env orc exprs files0 w' st ∧ r.1.root = md.root ∧ r.1.subdir = md.subdir ∧ r.1.path = md.path ∧
          ∀ h, r.1.dirH = some h → w'.dirPath h = some path) w1 := by
    intro w1 h1 ft
    have h2 := h1.step (.opendir path) (World.faultResult ft w1 (.opendir path)) rfl (fun _ => trivial)
    refine ⟨h2.allSafe, ?_⟩
    rcases World.opendir_results ft w1 path with ⟨e, he⟩ | ⟨he, hd⟩
    · rw [he] at h2 ⊢
      exact ⟨h2, rfl, rfl, rfl, by intro h hh; cases hh⟩
    · rw [he] at h2 ⊢
      refine ⟨h2, rfl, rfl, rfl, ?_⟩
      intro h hh
      simp only [Option.some.injEq] at hh
      subst hh
      rw [World.stepWorld_dirPath, World.core_opendir_ok hd]
      simp [World.dirPath, World.obj_newHandle]
  unfold maildirOpendir
  simp only [bind_eq, pure_eq, call_bind]
  split
  · rename_i d _
    refine wp_call_any fun r => ?_
    have h1 := hinv.step (.closedir d) r rfl (fun _ => trivial)
    exact ⟨h1.allSafe, tail _ h1⟩
  · exact tail _ hinv

/-! ## one message, at the level of the walk -/

theorem WholeVersion.trans {env : PEnv} {orc : EvalOracles} {exprs : List Expr} {a b c : Bytes}
    (h1 : WholeVersion env orc exprs a b) (h2 : WholeVersion env orc exprs b c) : WholeVersion env orc exprs a c := by
  induction h2 with
  | refl => exact h1
  | step expr dir name as _ hm ih => exact .step expr dir name as ih hm

theorem WholeVersion.mono {env : PEnv} {orc : EvalOracles} {exprs exprs' : List Expr} {a b : Bytes}
    (h : WholeVersion env orc exprs a b) (hs : ∀ e ∈ exprs, e ∈ exprs') : WholeVersion env orc exprs' a b := by
  induction h with
  | refl => exact .refl _
  | step expr dir name as _ hm ih => exact .step expr dir name as ih (hs _ hm)

/-- The invariant of `processMessage` implies that every tracked message is safe. -/
theorem whole_allSafe_of_pmi {env : PEnv} {orc : EvalOracles} {exprs : List Expr} {files0 : Files} {expr : Expr}
    (hmem : expr ∈ exprs) {w1 w' : World} {st : MainSt} {md : Maildir} {n content : Bytes}
    (hinv : WholeInv env orc exprs files0 w1 st) (hfc : st.files.get md.path n = some content)
    (h : WholePMIA env orc expr w1 md.path n content w') :
    WholeAllSafe env orc exprs files0 w' := by
  obtain ⟨as, k, hgood⟩ := h
  intro dir nm c hc
  obtain ⟨dir', nm', c', hc', hv⟩ := hinv.track dir nm c hc
  by_cases h0 : dir' = md.path ∧ nm' = n
  · have hcc : c' = content := by
      rw [h0.1, h0.2, hfc] at hc'; cases hc'; rfl
    rw [hcc] at hv
    obtain ⟨p, q, fid, hl, hlt, f, hf, hdat, hdur⟩ := hgood
    have ver : ∀ x, x ∈ [content, wholeRewrite env orc expr md.path n content as] → WholeVersion env orc exprs c x := by
      intro x hx
      simp only [List.mem_cons, List.mem_nil_iff, or_false] at hx
      rcases hx with rfl | rfl
      · exact hv
      · exact .step expr md.path n as hv hmem
    exact ⟨p, q, fid, f, hl, hlt, hf, ver _ hdat, ver _ hdur⟩
  · obtain ⟨fid, h1, h2, h3⟩ := hinv.reg dir' nm' c' hc'
    have hne : (dir', nm') ≠ (md.path, n) := by
      intro hh; cases hh; exact h0 ⟨rfl, rfl⟩
    exact ⟨dir', nm', fid, _, k.look (dir', nm') fid hne h1, Nat.lt_of_lt_of_le h2 k.nextFid, (k.files fid h2).trans h3, hv, hv⟩

/-! ## the walk -/

/-- `walk` under every fault plan: after every call every message registered at the start is safe. -/
theorem whole_walk (env : PEnv) (orc : EvalOracles) (expr : Expr) (exprs : List Expr) (hmem : expr ∈ exprs)
    (hnd : WholeNoDiscard env orc expr) (files0 : Files) (fuel : Nat) :
    ∀ (md : Maildir) (st : MainSt) {w : World}, WholeInv env orc exprs files0 w st → WholeMdOk w md →
      wp (WholeAllSafe env orc exprs files0) (walk env orc expr fuel md st)
        (fun r w' => WholeInv env orc exprs files0 w' r.1 ∧ WholeMdOk w' r.2) w := by
  induction fuel with
  | zero => intro md st w hinv hmd; exact ⟨⟨hinv.reg, hinv.track⟩, hmd⟩
  | succ fuel ih =>
    intro md st w hinv hmd
    rw [Own.walk_succ]
    cases hd : md.dirH with
    | none => exact ⟨hinv, hmd⟩
    | some d =>
      dsimp only
      refine wp_call_any fun r => ?_
      have hp := hmd.1 d hd
      have hinv1 := hinv.step (.readdir d) r rfl (fun _ => trivial)
      have hmd1 : WholeMdOk (stepWorld w (.readdir d) r) md := by
        refine ⟨?_, hmd.2⟩
        intro d' hd'
        rw [hd] at hd'
        cases hd'
        rw [World.stepWorld_dirPath]
        exact whole_readdir_dirPath hp r
      refine ⟨hinv1.allSafe, ?_⟩
      generalize stepWorld w (.readdir d) r = w1 at hinv1 hmd1 ⊢
      have herr : ∀ md' : Maildir, WholeMdOk w1 md' →
          WholeInv env orc exprs files0 w1 ({ st with error := true } : MainSt) ∧ WholeMdOk w1 md' :=
        fun md' h => ⟨⟨hinv1.reg, hinv1.track⟩, h⟩
      unfold Own.walkK
      cases r with
      | name n =>
        dsimp only
        split
        · exact ih md st hinv1 hmd1
        · cases hfc : st.files.get md.path n with
          | none =>
            rw [processMessage_unknown env orc expr md n st d hd hfc]
            exact ih md _ ⟨hinv1.reg, hinv1.track⟩ hmd1
          | some content =>
            obtain ⟨fid, hl, hlt, hf⟩ := hinv1.reg _ _ _ hfc
            refine wp_bind_mono (wp_inv_mono (whole_processMessage env orc expr md n st hd (hmd1.1 d hd) hmd1.2 hfc hl hlt hf hnd)
              (fun w' h => whole_allSafe_of_pmi hmem hinv1 hfc h)) ?_
            rintro ⟨st', md'⟩ w2 ⟨hmd', k, hpost⟩
            simp only at hmd'
            subst hmd'
            obtain ⟨hreg', hrel⟩ := hpost hinv1.reg
            refine ih md' st' ⟨hreg', ?_⟩ ⟨?_, hmd1.2⟩
            · intro dir nm c hc
              obtain ⟨dir', nm', c', hc', hv⟩ := hinv1.track dir nm c hc
              obtain ⟨dir'', nm'', c'', hc'', hcase⟩ := hrel dir' nm' c' hc'
              refine ⟨dir'', nm'', c'', hc'', ?_⟩
              rcases hcase with rfl | ⟨as, rfl⟩
              · exact hv
              · exact .step expr dir' nm' as hv hmem
            · intro d' hd'
              have hp1 := hmd1.1 d' hd'
              exact k.dirPath hp1 (World.lt_of_dirPath hp1)
      | eof =>
        dsimp only
        split
        · exact ⟨hinv1, hmd1⟩
        · split
          · exact ⟨hinv1, hmd1⟩
          · split
            · exact herr md hmd1
            · rename_i p hp'
              refine wp_bind_mono (whole_maildirOpendir { md with subdir := .cur, path := p } p hinv1) ?_
              rintro ⟨md2, failed⟩ w2 ⟨hinv2, h1, h2, h3, h4⟩
              simp only at h1 h2 h3 h4
              have hmd2 : WholeMdOk w2 md2 := by
                refine ⟨fun h hh => by rw [h3]; exact h4 h hh, ?_⟩
                rw [h1, h2, h3]
                exact hp'
              dsimp only
              split
              · exact ⟨⟨hinv2.reg, hinv2.track⟩, hmd2⟩
              · exact ih md2 st hinv2 hmd2
      | ok v => exact herr md hmd1
      | err e => exact herr md hmd1

/-! ## a whole run in maildir mode -/

theorem whole_paths (env : PEnv) (orc : EvalOracles) (input : Bytes) (b : ConfBlock) (exprs : List Expr)
    (hm : env.stdinMode = false) (hmem : b.expr ∈ exprs) (hnd : WholeNoDiscard env orc b.expr) (files0 : Files)
    (ps : List Bytes) :
    ∀ (st : MainSt) {w : World}, WholeInv env orc exprs files0 w st →
      wp (WholeAllSafe env orc exprs files0) (mainP.blocks.paths env orc input b ps st)
        (fun st' w' => WholeInv env orc exprs files0 w' st') w := by
  induction ps with
  | nil => intro st w hinv; rw [Own.paths_nil]; exact hinv
  | cons p more ih =>
    intro st w hinv
    rw [Own.paths_cons]
    split
    · exact ih _ hinv
    · rename_i hsk
      split
      · rename_i hs
        exact absurd (by simp [skipPath, hm, hs]) hsk
      · split
        · rename_i root np hroot hnp
          have hroot' : root = p := World.strlcpyFits_eq hroot
          refine wp_bind_mono (whole_maildirOpendir (maildirOf root np) np hinv) ?_
          rintro ⟨md1, failed⟩ w1 ⟨hinv1, h1, h2, h3, h4⟩
          simp only [maildirOf] at h1 h2 h3 h4
          dsimp only
          split
          · exact ih _ ⟨hinv1.reg, hinv1.track⟩
          · have hmd1 : WholeMdOk w1 md1 := by
              refine ⟨fun h hh => by rw [h3]; exact h4 h hh, ?_⟩
              rw [h1, h2, h3, hroot']
              exact hnp
            refine wp_bind_mono (whole_walk env orc b.expr exprs hmem hnd files0 _ md1 st hinv1 hmd1) ?_
            rintro ⟨st2, md2⟩ w2 ⟨hinv2, -⟩
            dsimp only
            unfold maildirClose
            split
            · rename_i d _
              simp only [bind_eq, pure_eq, call_bind, World.call_bind', ret_bind]
              refine wp_call_any fun r => ?_
              have hinv3 := hinv2.step (.closedir d) r rfl (fun _ => trivial)
              exact ⟨hinv3.allSafe, ih _ hinv3⟩
            · simp only [pure_eq, ret_bind]
              exact ih _ hinv2
        · exact ih _ ⟨hinv.reg, hinv.track⟩

theorem whole_blocks (env : PEnv) (orc : EvalOracles) (input : Bytes) (exprs : List Expr) (hm : env.stdinMode = false)
    (files0 : Files) (bs : List ConfBlock) (hbs : ∀ b ∈ bs, b.expr ∈ exprs ∧ WholeNoDiscard env orc b.expr) :
    ∀ (st : MainSt) {w : World}, WholeInv env orc exprs files0 w st →
      wp (WholeAllSafe env orc exprs files0) (mainP.blocks env orc input bs st)
        (fun st' w' => WholeInv env orc exprs files0 w' st') w := by
  induction bs with
  | nil => intro st w hinv; rw [Own.blocks_nil]; exact hinv
  | cons b rest ih =>
    intro st w hinv
    rw [Own.blocks_cons]
    obtain ⟨hb1, hb2⟩ := hbs b (List.mem_cons_self ..)
    refine wp_bind_mono (whole_paths env orc input b exprs hm hb1 hb2 files0 b.paths st hinv) ?_
    intro st' w' hinv'
    exact ih (fun b' hb' => hbs b' (List.mem_cons_of_mem _ hb')) st' hinv'

/-- `mainP` in maildir mode under every fault plan: after every call every registered message is safe. -/
theorem whole_mainP (env : PEnv) (orc : EvalOracles) (confOk : Bool) (conf : List ConfBlock) (files : Files) (input : Bytes)
    (hm : env.stdinMode = false) (hnd : ∀ b ∈ conf, WholeNoDiscard env orc b.expr) {w : World} (hreg : WholeReg w files) :
    wp (WholeAllSafe env orc (conf.map (·.expr)) files) (mainP env orc confOk conf files input) (fun _ _ => True) w := by
  have hinv0 : WholeInv env orc (conf.map (·.expr)) files w { files := files, error := false, reject := false, log := [] } :=
    ⟨hreg, fun dir nm c hc => ⟨dir, nm, c, hc, .refl c⟩⟩
  rw [Own.mainP_eq]
  refine World.wp_call (fun r => r = .ok w.handles.length ∨ ∃ e, r = .err e)
    (fun ft => World.results_simple ft w _ _ (by intro _ h; cases h) (by intro _ _ h; cases h) rfl) ?_
  intro r hr
  have hinv1 := hinv0.step (.fopen env.confpath) r rfl (fun _ => trivial)
  refine ⟨hinv1.allSafe, ?_⟩
  rcases hr with rfl | ⟨e, rfl⟩
  · dsimp only
    have hobj : (stepWorld w (.fopen env.confpath) (.ok w.handles.length)).obj w.handles.length = .other := by
      have hc : World.core w (.fopen env.confpath) (.ok w.handles.length) = (w.newHandle .other).1 := by
        simp [World.core, applyOk]
      rw [World.stepWorld_obj, hc, World.obj_newHandle]
      simp
    refine wp_call_any fun r2 => ?_
    have hinv2 := hinv1.step (.fclose w.handles.length) r2 rfl (by
      intro g
      simp only [World.fileSafe, hobj, World.objFid]
      intro h; cases h)
    refine ⟨hinv2.allSafe, ?_⟩
    unfold Own.mainK
    split
    · trivial
    · split
      · trivial
      · refine wp_bind_mono (whole_blocks env orc input (conf.map (·.expr)) hm files conf
          (fun b hb => ⟨List.mem_map.2 ⟨b, hb, rfl⟩, hnd b hb⟩) _ hinv2) ?_
        intro _ _ _
        trivial
  · trivial

/-! ## statements in terms of `runPlan` -/

theorem whole_walk_no_loss (env : PEnv) (orc : EvalOracles) (expr : Expr) (fuel : Nat) (md : Maildir) (st : MainSt)
    (w : World) (plan : Plan) (hnd : WholeNoDiscard env orc expr) (hreg : WholeReg w st.files) (hmd : WholeMdOk w md) :
    ∀ w' ∈ (runPlan plan (walk env orc expr fuel md st) w 0 []).2.2,
      ∀ dir name c, st.files.get dir name = some c → WholeSafe env orc [expr] c w' := by
  intro w' hw'
  rw [World.runPlan_eq] at hw'
  simp only [List.nil_append] at hw'
  have hinv : WholeInv env orc [expr] st.files w st := ⟨hreg, fun dir nm c hc => ⟨dir, nm, c, hc, .refl c⟩⟩
  exact (World.wp_sound plan (whole_walk env orc expr [expr] (List.mem_singleton.2 rfl) hnd st.files fuel md st hinv hmd) 0).1 w' hw'

theorem whole_main_no_loss (env : PEnv) (orc : EvalOracles) (confOk : Bool) (conf : List ConfBlock) (files : Files) (input : Bytes)
    (w : World) (plan : Plan) (hm : env.stdinMode = false) (hnd : ∀ b ∈ conf, WholeNoDiscard env orc b.expr)
    (hreg : WholeReg w files) :
    ∀ w' ∈ (runPlan plan (mainP env orc confOk conf files input) w 0 []).2.2,
      ∀ dir name c, files.get dir name = some c → WholeSafe env orc (conf.map (·.expr)) c w' := by
  intro w' hw'
  rw [World.runPlan_eq] at hw'
  simp only [List.nil_append] at hw'
  exact (World.wp_sound plan (whole_mainP env orc confOk conf files input hm hnd hreg) 0).1 w' hw'

end Mdsort.Proofs
