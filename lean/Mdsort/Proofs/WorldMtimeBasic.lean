import Mdsort.Proofs.WorldMove
import Mdsort.Proofs.LexAux

/-! Frame lemmas for C09 at world level: modification times, "everything but the trace is the
same", entries and files that a script leaves alone, the footprint of `message_write`, and
`maildir_genname` under an arbitrary fault plan. -/

namespace Mdsort.Proofs.World
open Mdsort Mdsort.Model

/-! ## modification times -/

theorem mtime_setMtime (w : World) (fid t g : Nat) :
    (w.setMtime fid t).mtime g = if g = fid then t else w.mtime g := by
  unfold World.setMtime World.mtime
  simp only [List.find?_cons]
  by_cases h : g = fid
  · subst h; simp
  · have h2 : (fid == g) = false := by simp; exact fun e => h e.symm
    simp [h, h2, -List.find?_filter, find_filter_ne_nat]

@[simp] theorem mtimes_setObj (w : World) (h : Handle) (o : Obj) : (w.setObj h o).mtimes = w.mtimes := rfl
@[simp] theorem mtimes_setFile (w : World) (fid : Nat) (f : File) : (w.setFile fid f).mtimes = w.mtimes := rfl
@[simp] theorem mtimes_setDir (w : World) (p : Bytes) (es : List (Bytes × Nat)) : (w.setDir p es).mtimes = w.mtimes := rfl
@[simp] theorem mtimes_newHandle (w : World) (o : Obj) : (w.newHandle o).1.mtimes = w.mtimes := rfl
@[simp] theorem mtimes_bind (w : World) (p n : Bytes) (fid : Nat) : (w.bind p n fid).mtimes = w.mtimes := by
  unfold World.bind; split <;> rfl
@[simp] theorem mtimes_unbind (w : World) (p n : Bytes) : (w.unbind p n).mtimes = w.mtimes := by
  unfold World.unbind; split <;> rfl
@[simp] theorem mtimes_applyWrite (w : World) (fd : Handle) (data : Bytes) (k : Nat) :
    (applyWrite w fd data k).mtimes = w.mtimes := by
  unfold applyWrite
  split
  · split <;> rfl
  · rfl
  · rfl

@[simp] theorem lookup_setMtime (w : World) (fid t : Nat) (p n : Bytes) : (w.setMtime fid t).lookup p n = w.lookup p n := rfl
@[simp] theorem dir_setMtime (w : World) (fid t : Nat) (p : Bytes) : (w.setMtime fid t).dir p = w.dir p := rfl
@[simp] theorem file_setMtime (w : World) (fid t g : Nat) : (w.setMtime fid t).file g = w.file g := rfl
@[simp] theorem obj_setMtime (w : World) (fid t : Nat) (h : Handle) : (w.setMtime fid t).obj h = w.obj h := rfl
@[simp] theorem nextFid_setMtime (w : World) (fid t : Nat) : (w.setMtime fid t).nextFid = w.nextFid := rfl

def Call.isUtimens : Call → Bool
  | .utimensat .. => true
  | _ => false

/-- Only `utimensat` changes a modification time. -/
theorem core_mtimes (w : World) (c : Call) (r : Res) (hc : Call.isUtimens c = false) : (core w c r).mtimes = w.mtimes := by
  unfold core applyOk
  split <;> (try simp only [Call.isUtimens] at hc) <;>
    repeat' (first
      | rfl
      | contradiction
      | (apply getD_bind_P (P := fun w' => w'.mtimes = w.mtimes) rfl; intro _ _)
      | (apply getD_map_P (P := fun w' => w'.mtimes = w.mtimes) rfl; intro _ _)
      | (simp; done)
      | split
      | (show ((if _ then _ else _ : Option World).getD w).mtimes = w.mtimes))

@[simp] theorem stepWorld_mtimes (w : World) (c : Call) (r : Res) : (stepWorld w c r).mtimes = (core w c r).mtimes := rfl
@[simp] theorem stepWorld_mtime (w : World) (c : Call) (r : Res) (g : Nat) : (stepWorld w c r).mtime g = (core w c r).mtime g := rfl

theorem mtime_of_mtimes {w w' : World} (h : w'.mtimes = w.mtimes) (g : Nat) : w'.mtime g = w.mtime g := by
  unfold World.mtime; rw [h]

theorem core_utimensat_ok {w : World} {d : Handle} {n p : Bytes} {fid : Nat} (hp : w.dirPath d = some p)
    (hl : w.lookup p n = some fid) (a : Option Nat) (t v : Nat) :
    core w (.utimensat d n a (some t)) (.ok v) = w.setMtime fid t := by
  simp [core, applyOk, hp, hl]

theorem utimensat_results (f : Option Fault) (w : World) (d : Handle) (n : Bytes) (a m : Option Nat) :
    (∃ e, faultResult f w (.utimensat d n a m) = .err e) ∨
    (faultResult f w (.utimensat d n a m) = .ok 0 ∧ ∃ p fid, w.dirPath d = some p ∧ w.lookup p n = some fid) := by
  rcases faultResult_cases f w (.utimensat d n a m) (by intro _ h; cases h) (by intro _ _ h; cases h) with h | h
  · rw [h]
    simp only [predict]
    split
    · rename_i fid hb
      right
      refine ⟨rfl, ?_⟩
      cases hp : w.dirPath d with
      | none => simp [hp] at hb
      | some p => exact ⟨p, fid, rfl, by simpa [hp] using hb⟩
    · exact .inl ⟨_, rfl⟩
  · exact .inl h

/-- A plan that injects no failure at a call (it may inject a short transfer, which only read and
write notice) gives the predicted result. -/
theorem faultResult_nofail (f : Option Fault) (w : World) (c : Call) (hf : ∀ e, f ≠ some (.fail e))
    (h1 : ∀ fd, c ≠ .read fd) (h2 : ∀ fd d, c ≠ .write fd d) : faultResult f w c = predict w c := by
  unfold faultResult
  split
  · rfl
  · exact absurd rfl (hf _)
  · split
    · exact absurd rfl (h1 _)
    · exact absurd rfl (h2 _ _)
    · rfl

/-! ## everything but the trace is the same -/

def SameFs (w w' : World) : Prop := ∃ tr, w' = { w with trace := tr }

theorem SameFs.refl (w : World) : SameFs w w := ⟨w.trace, rfl⟩
theorem SameFs.trans {a b c : World} (h1 : SameFs a b) (h2 : SameFs b c) : SameFs a c := by
  obtain ⟨t1, rfl⟩ := h1
  obtain ⟨t2, rfl⟩ := h2
  exact ⟨t2, rfl⟩

theorem SameFs.lookup {w w' : World} (h : SameFs w w') (p n : Bytes) : w'.lookup p n = w.lookup p n := by
  obtain ⟨t, rfl⟩ := h; rfl
theorem SameFs.dir {w w' : World} (h : SameFs w w') (p : Bytes) : w'.dir p = w.dir p := by
  obtain ⟨t, rfl⟩ := h; rfl
theorem SameFs.file {w w' : World} (h : SameFs w w') (g : Nat) : w'.file g = w.file g := by
  obtain ⟨t, rfl⟩ := h; rfl
theorem SameFs.obj {w w' : World} (h : SameFs w w') (x : Handle) : w'.obj x = w.obj x := by
  obtain ⟨t, rfl⟩ := h; rfl
theorem SameFs.dirPath {w w' : World} (h : SameFs w w') (x : Handle) : w'.dirPath x = w.dirPath x := by
  obtain ⟨t, rfl⟩ := h; rfl
theorem SameFs.nextFid {w w' : World} (h : SameFs w w') : w'.nextFid = w.nextFid := by
  obtain ⟨t, rfl⟩ := h; rfl
theorem SameFs.handles {w w' : World} (h : SameFs w w') : w'.handles = w.handles := by
  obtain ⟨t, rfl⟩ := h; rfl
theorem SameFs.mtimes {w w' : World} (h : SameFs w w') : w'.mtimes = w.mtimes := by
  obtain ⟨t, rfl⟩ := h; rfl
theorem SameFs.dirs {w w' : World} (h : SameFs w w') : w'.dirs = w.dirs := by
  obtain ⟨t, rfl⟩ := h; rfl

/-- A failed call that releases no handle changes nothing but the trace. -/
theorem sameFs_err (w : World) (c : Call) (e : String)
    (h1 : ∀ d, c ≠ .closedir d) (h2 : ∀ d, c ≠ .close d) (h3 : ∀ d, c ≠ .fclose d) :
    SameFs w (stepWorld w c (.err e)) := by
  refine ⟨w.trace ++ [(c, .err e)], ?_⟩
  show ({ core w c (.err e) with trace := (core w c (.err e)).trace ++ [(c, .err e)] } : World) = _
  rw [core_err w c e h1 h2 h3]

/-! ## entries and files a script leaves alone -/

/-- Relative to the world `w0`: every entry outside `A` that was bound is bound to the same file,
every file that existed has the same content (visible and durable), ids only grow. -/
structure Keeps (A : Bytes → Bytes → Prop) (w0 w : World) : Prop where
  look : ∀ q m fid, ¬ A q m → w0.lookup q m = some fid → w.lookup q m = some fid
  file : ∀ g, g < w0.nextFid → w.file g = w0.file g
  next : w0.nextFid ≤ w.nextFid

theorem Keeps.refl (A : Bytes → Bytes → Prop) (w : World) : Keeps A w w :=
  ⟨fun _ _ _ _ h => h, fun _ _ => rfl, Nat.le_refl _⟩

theorem Keeps.step {A : Bytes → Bytes → Prop} {w0 w : World} (k : Keeps A w0 w) (c : Call) (r : Res)
    (hd : ∀ q m fid, ¬ A q m → w0.lookup q m = some fid → w.lookup q m = some fid → dirSafe w q m c)
    (hf : ∀ g, g < w0.nextFid → fileSafe w g c) : Keeps A w0 (stepWorld w c r) := by
  refine ⟨?_, ?_, ?_⟩
  · intro q m fid hA h0
    have h1 := k.look q m fid hA h0
    rw [stepWorld_lookup]
    exact core_lookup w c r q m fid h1 (hd q m fid hA h0 h1)
  · intro g hg
    rw [stepWorld_file, core_file w c r g (Nat.lt_of_lt_of_le hg k.next) (hf g hg)]
    exact k.file g hg
  · rw [stepWorld_nextFid]
    exact Nat.le_trans k.next (core_nextFid w c r)

theorem Keeps.of_same {A : Bytes → Bytes → Prop} {w0 w w' : World} (k : Keeps A w0 w) (h : SameFs w w') : Keeps A w0 w' := by
  refine ⟨?_, ?_, ?_⟩
  · intro q m fid hA h0; rw [h.lookup]; exact k.look q m fid hA h0
  · intro g hg; rw [h.file]; exact k.file g hg
  · rw [h.nextFid]; exact k.next

theorem Keeps.mono {A B : Bytes → Bytes → Prop} {w0 w : World} (k : Keeps A w0 w) (hab : ∀ q m, A q m → B q m) : Keeps B w0 w :=
  ⟨fun q m fid hB h0 => k.look q m fid (fun hA => hB (hab q m hA)) h0, k.file, k.next⟩

/-! ## the footprint of `message_write` -/

/-- Relative to `w0`, only the file `fid` and handles created since have changed. -/
structure FrW (fid : Nat) (w0 w : World) : Prop where
  dirs : w.dirs = w0.dirs
  mtimes : w.mtimes = w0.mtimes
  files : ∀ g, g < w0.nextFid → g ≠ fid → w.file g = w0.file g
  objs : ∀ h, h < w0.handles.length → w.obj h = w0.obj h
  len : w0.handles.length ≤ w.handles.length
  nextFid : w.nextFid = w0.nextFid

theorem FrW.refl (fid : Nat) (w : World) : FrW fid w w :=
  ⟨rfl, rfl, fun _ _ _ => rfl, fun _ _ => rfl, Nat.le_refl _, rfl⟩

theorem FrW.step {fid : Nat} {w0 w : World} (fr : FrW fid w0 w) (c : Call) (r : Res)
    (hd : Call.dirOp c = false) (hu : Call.isUtimens c = false) (hcr : Call.creates c = false)
    (hsub : ∀ h, Call.subject c = some h → w0.handles.length ≤ h)
    (hfs : ∀ g, g ≠ fid → fileSafe w g c) : FrW fid w0 (stepWorld w c r) := by
  refine ⟨?_, ?_, ?_, ?_, ?_, ?_⟩
  · rw [stepWorld_dirs, core_dirs w c r hd, fr.dirs]
  · rw [stepWorld_mtimes, core_mtimes w c r hu, fr.mtimes]
  · intro g hg hne
    rw [stepWorld_file, core_file w c r g (by rw [fr.nextFid]; exact hg) (hfs g hne)]
    exact fr.files g hg hne
  · intro h hh
    rw [stepWorld_obj, core_obj w c r h (Nat.lt_of_lt_of_le hh fr.len), fr.objs h hh]
    intro hs
    have := hsub h hs
    omega
  · rw [stepWorld_handles]
    exact Nat.le_trans fr.len (core_len w c r)
  · rw [stepWorld_nextFid, core_nextFid_eq w c r hcr, fr.nextFid]

theorem Keeps.of_frW {A : Bytes → Bytes → Prop} {w0 w w' : World} {fid : Nat} (k : Keeps A w0 w) (fr : FrW fid w w')
    (hN : w0.nextFid ≤ fid) : Keeps A w0 w' := by
  refine ⟨?_, ?_, ?_⟩
  · intro q m g hA h0
    rw [lookup_of_dirs fr.dirs]
    exact k.look q m g hA h0
  · intro g hg
    rw [fr.files g (Nat.lt_of_lt_of_le hg k.next) (by omega)]
    exact k.file g hg
  · rw [fr.nextFid]; exact k.next

/-- Calls that act on handle `N` only (and on the file it refers to). -/
def OnlyOn (N : Handle) : Call → Prop
  | .fdopen fd | .fprintf fd _ | .fflush fd | .fsync fd | .fclose fd | .close fd => fd = N
  | _ => False

theorem objFid_applyWrite (w : World) (fd : Handle) (data : Bytes) (k : Nat) (h : Handle) :
    objFid ((applyWrite w fd data k).obj h) = objFid (w.obj h) := by
  unfold applyWrite
  split
  · rename_i fid off wr ho
    split
    · rw [obj_setObj]
      split
      · rename_i hh
        rw [hh.1, ho]; rfl
      · rfl
    · rfl
  · rename_i fid buf ho
    rw [obj_setObj]
    split
    · rename_i hh
      rw [hh.1, ho]; rfl
    · rfl
  · rfl

theorem core_eq_self_of_none {w : World} {c : Call} {r : Res} (h : applyOk w c r = none) : core w c r = w := by
  simp [core, h]

/-- A call on `N` leaves `N` referring to the same file, or to none. -/
theorem objFid_core_onlyOn (w : World) (N : Handle) (c : Call) (r : Res) (hc : OnlyOn N c) (hl : N < w.handles.length)
    (g : Nat) (hg : objFid ((core w c r).obj N) = some g) : objFid (w.obj N) = some g := by
  cases c <;> try exact hc.elim
  case fsync fd =>
    rw [core_obj w _ r N hl (by simp [Call.subject])] at hg
    exact hg
  case close fd =>
    simp only [OnlyOn] at hc; subst hc
    rw [core_close, obj_setObj] at hg
    simp [hl, objFid] at hg
  case fdopen fd =>
    simp only [OnlyOn] at hc; subst hc
    cases r with
    | ok v =>
      cases ho : w.obj fd with
      | file fid off wr =>
        rw [core_fdopen_ok ho, obj_setObj] at hg
        simp only [hl, and_self, if_true, objFid, Option.some.injEq] at hg
        simp [objFid, hg]
      | _ =>
        rw [core_eq_self_of_none (by simp [applyOk, ho]), ho] at hg
        exact hg
    | err e =>
      rw [core_err w _ e (by intro _ h; cases h) (by intro _ h; cases h) (by intro _ h; cases h)] at hg
      exact hg
    | _ =>
      rw [core_eq_self_of_none (by simp [applyOk])] at hg
      exact hg
  case fprintf fd data =>
    simp only [OnlyOn] at hc; subst hc
    cases r with
    | ok n =>
      by_cases hn : (n != data.length) = true
      · rw [core_eq_self_of_none (by simp [applyOk, hn])] at hg
        exact hg
      · have : core w (.fprintf fd data) (.ok n) = applyWrite w fd data n := by simp [core, applyOk, hn]
        rw [this, objFid_applyWrite] at hg
        exact hg
    | err e =>
      rw [core_err w _ e (by intro _ h; cases h) (by intro _ h; cases h) (by intro _ h; cases h)] at hg
      exact hg
    | _ =>
      rw [core_eq_self_of_none (by simp [applyOk])] at hg
      exact hg
  case fflush fd =>
    simp only [OnlyOn] at hc; subst hc
    cases r with
    | ok v =>
      cases ho : w.obj fd with
      | stream fid buf =>
        cases hf : w.file fid with
        | some f =>
          rw [core_fflush_ok ho hf, obj_setObj] at hg
          simp only [len_setFile, hl, and_self, if_true, objFid, Option.some.injEq] at hg
          simp [objFid, hg]
        | none =>
          rw [core_eq_self_of_none (by simp [applyOk, ho, hf]), ho] at hg
          exact hg
      | _ =>
        rw [core_eq_self_of_none (by simp [applyOk, ho]), ho] at hg
        exact hg
    | err e =>
      rw [core_err w _ e (by intro _ h; cases h) (by intro _ h; cases h) (by intro _ h; cases h)] at hg
      exact hg
    | _ =>
      rw [core_eq_self_of_none (by simp [applyOk])] at hg
      exact hg
  case fclose fd =>
    simp only [OnlyOn] at hc; subst hc
    cases ho : w.obj fd with
    | stream fid buf =>
      cases hf : w.file fid with
      | some f =>
        rw [core_fclose_stream ho hf, obj_setObj] at hg
        exfalso
        split at hg <;> simp_all [objFid]
      | none =>
        rw [core_eq_self_of_none (by cases r <;> simp [applyOk, ho, hf]), ho] at hg
        exact hg
    | other =>
      have : core w (.fclose fd) r = w.setObj fd .closed := by cases r <;> simp [core, applyOk, ho]
      rw [this, obj_setObj] at hg
      simp [hl, objFid] at hg
    | _ =>
      rw [core_eq_self_of_none (by cases r <;> simp [applyOk, ho]), ho] at hg
      exact hg

/-- While the copy is written through handle `N`. -/
structure WInv (fid : Nat) (w0 : World) (N : Handle) (w : World) : Prop where
  fr : FrW fid w0 w
  ge : w0.handles.length ≤ N
  lt : N < w.handles.length
  ref : ∀ g, objFid (w.obj N) = some g → g = fid

theorem WInv.step {fid : Nat} {w0 w : World} {N : Handle} (inv : WInv fid w0 N w) (c : Call) (r : Res) (hc : OnlyOn N c) :
    WInv fid w0 N (stepWorld w c r) := by
  refine ⟨?_, inv.ge, ?_, ?_⟩
  · refine inv.fr.step c r ?_ ?_ ?_ ?_ ?_
    · cases c <;> first | exact hc.elim | rfl
    · cases c <;> first | exact hc.elim | rfl
    · cases c <;> first | exact hc.elim | rfl
    · intro h hh
      cases c <;> first | exact hc.elim | skip
      all_goals (simp only [OnlyOn] at hc; simp only [Call.subject, Option.some.injEq] at hh)
      all_goals (first | (subst hc; subst hh; exact inv.ge) | cases hh)
    · intro g hne
      cases c <;> first | exact hc.elim | trivial | skip
      all_goals (simp only [OnlyOn] at hc; subst hc; simp only [fileSafe]; intro h; exact hne (inv.ref g h))
  · rw [stepWorld_handles]
    exact Nat.lt_of_lt_of_le inv.lt (core_len w c r)
  · intro g hg
    rw [stepWorld_obj] at hg
    exact inv.ref g (objFid_core_onlyOn w N c r hc inv.lt g hg)

theorem wp_onlyOn {α} {fid : Nat} {w0 : World} {N : Handle} {p : Prog α} (hc : Calls (OnlyOn N) p) {w : World}
    (inv : WInv fid w0 N w) : wp (WInv fid w0 N) p (fun _ w' => WInv fid w0 N w') w := by
  induction p generalizing w with
  | ret a => exact inv
  | call c k ih =>
    intro f
    have := inv.step c (faultResult f w c) hc.1
    exact ⟨this, ih _ (hc.2 _) this⟩

macro "onlyon_step" : tactic =>
  `(tactic| first
      | (with_reducible exact Calls.ret_intro' _)
      | ((with_reducible show OnlyOn _ _); exact rfl)
      | (with_reducible apply Calls.call_intro')
      | (intro _)
      | (with_reducible apply Calls.bind)
      | split
      | (dsimp only; split))

theorem calls_hdrs (N : Handle) (hs : List Hdr) : Calls (OnlyOn N) (messageWriteP.hdrs N hs) := by
  induction hs with
  | nil => unfold messageWriteP.hdrs; exact trivial
  | cons h rest ih =>
    unfold messageWriteP.hdrs
    simp only [bind_eq, pure_eq, call_bind]
    refine ⟨rfl, fun r => ?_⟩
    dsimp only
    split
    · exact ih
    · exact trivial

/-- `message_write(msg, fd)` under every fault plan touches nothing but the file `fd` refers to:
directories, modification times, every other file and every older handle stay as they are. -/
theorem frame_messageWriteP (m : Msg) (fd : Handle) {w : World} {fid off : Nat} {wr : Bool}
    (ho : w.obj fd = .file fid off wr) :
    wp (fun w' => FrW fid w w') (messageWriteP m fd) (fun _ w' => FrW fid w w') w := by
  unfold messageWriteP
  simp only [bind_eq, pure_eq, call_bind]
  refine wp_call (fun r => r = .ok w.handles.length ∨ ∃ e, r = .err e)
    (fun ft => results_simple ft w _ _ (by intro _ h; cases h) (by intro _ _ h; cases h) rfl) ?_
  intro r hr
  have fr1 := (FrW.refl fid w).step (.dupfd fd) r rfl rfl rfl (by intro _ h; cases h) (fun _ _ => trivial)
  refine ⟨fr1, ?_⟩
  rcases hr with rfl | ⟨e, rfl⟩
  · have inv : WInv fid w w.handles.length (stepWorld w (.dupfd fd) (.ok w.handles.length)) := by
      refine ⟨fr1, Nat.le_refl _, ?_, ?_⟩
      · rw [stepWorld_handles, core_dupfd_ok ho]; simp
      · intro g hg
        rw [stepWorld_obj, core_dupfd_ok ho, obj_newHandle] at hg
        simp only [if_true, objFid, Option.some.injEq] at hg
        exact hg.symm
    dsimp only
    refine wp_mono (wp_inv_mono (wp_onlyOn ?_ inv) (fun _ h => h.fr)) (fun _ _ h => h.fr)
    repeat' (first | exact calls_hdrs _ _ | onlyon_step)
  · exact fr1

/-! ## `maildir_genname` under an arbitrary fault plan -/

/-- The candidate name for counter value `c`. -/
def cand (env : PEnv) (flags : Option Bytes) (c : Nat) : Bytes :=
  decimalInt env.now ++ [46] ++ decimal env.pid ++ [95] ++ decimal (c % gennameWrap) ++ [46] ++ env.host ++ flags.getD []

theorem genname_succ (env : PEnv) (md : Maildir) (flags : Option Bytes) (fuel count : Nat) :
    genname env md flags (fuel + 1) count =
      if (cand env flags (count + 1)).length ≥ NAME_MAX1 then Prog.ret none
      else match md.dirH with
        | none => Prog.ret none
        | some d => Prog.call (.openExcl d (cand env flags (count + 1))) fun r =>
          match r with
          | .ok h => Prog.ret (some (h, cand env flags (count + 1)))
          | .err e => if e == "EEXIST" then genname env md flags fuel (count + 1) else Prog.ret none
          | _ => Prog.ret none := by
  rw [genname]
  simp only [bind_eq, pure_eq, call_bind, cand]
  try rfl

/-- What `maildir_genname` does, whatever fails: either it returns nothing and only the trace has
grown, or it returns the first candidate that was not bound, created by one successful exclusive
create in a world that differs from the start only in its trace. -/
theorem spec_gen (env : PEnv) (md : Maildir) (flags : Option Bytes) (d : Handle) (p : Bytes) (hd : md.dirH = some d)
    (I : World → Prop) {w0 : World} (hp : w0.dirPath d = some p)
    (hI : ∀ w', SameFs w0 w' → I w')
    (hI2 : ∀ wk n, SameFs w0 wk → wk.lookup p n = none → I (stepWorld wk (.openExcl d n) (.ok wk.handles.length)))
    (fuel count : Nat) {w : World} (hs : SameFs w0 w) :
    wp I (genname env md flags fuel count)
      (fun res w' => (res = none ∧ SameFs w0 w') ∨
        ∃ wk c, SameFs w0 wk ∧ count < c ∧ c ≤ count + fuel ∧ wk.lookup p (cand env flags c) = none ∧
          res = some (wk.handles.length, cand env flags c) ∧
          w' = stepWorld wk (.openExcl d (cand env flags c)) (.ok wk.handles.length)) w := by
  induction fuel generalizing count w with
  | zero => exact .inl ⟨rfl, hs⟩
  | succ fuel ih =>
    rw [genname_succ]
    split
    · exact .inl ⟨rfl, hs⟩
    · simp only [hd]
      intro f
      rcases openExcl_results f w d (cand env flags (count + 1)) with ⟨e, he⟩ | ⟨he, p', hp', hl⟩
      · rw [he]
        have hs' : SameFs w0 (stepWorld w (.openExcl d (cand env flags (count + 1))) (.err e)) :=
          hs.trans (sameFs_err w _ e (by intro _ h; cases h) (by intro _ h; cases h) (by intro _ h; cases h))
        refine ⟨hI _ hs', ?_⟩
        dsimp only
        split
        · refine wp_mono (ih (count + 1) hs') ?_
          rintro res w' (h | ⟨wk, c, h1, h2, h3, h4⟩)
          · exact .inl h
          · exact .inr ⟨wk, c, h1, by omega, by omega, h4⟩
        · exact .inl ⟨rfl, hs'⟩
      · rw [he]
        have hpp : p' = p := by
          rw [hs.dirPath, hp] at hp'; cases hp'; rfl
        subst hpp
        refine ⟨hI2 w _ hs hl, ?_⟩
        exact .inr ⟨w, count + 1, hs, by omega, by omega, hl, rfl, rfl⟩

end Mdsort.Proofs.World
