import Mdsort.Spec.RulesAtt

/-!
# What `attachment c` means in `Spec.condValA` (C03 with attachments)

`Spec.anyPart` in terms of the per-part values: the first part that is not *no match* decides.
-/

namespace Mdsort.Proofs
open Mdsort Mdsort.Model Mdsort.Spec

theorem att_anyPart_nomatch {α : Type} (f : Nat → α → Tri) : ∀ (ps : List α) (i0 : Nat),
    anyPart f i0 ps = .nomatch ↔ ∀ j q, ps[j]? = some q → f (i0 + j) q = .nomatch := by
  intro ps
  induction ps with
  | nil => intro i0; simp [anyPart]
  | cons p ps ih =>
    intro i0
    simp only [anyPart]
    constructor
    · intro h j q hj
      cases hf : f i0 p with
      | «nomatch» =>
        rw [hf] at h
        simp only at h
        cases j with
        | zero =>
          simp only [List.getElem?_cons_zero, Option.some.injEq] at hj
          subst hj
          simpa using hf
        | succ j =>
          have := (ih (i0 + 1)).1 h j q (by simpa using hj)
          rw [show i0 + (j + 1) = i0 + 1 + j by omega]
          exact this
      | «match» => rw [hf] at h; cases h
      | error => rw [hf] at h; cases h
    · intro h
      have h0 := h 0 p (by simp)
      simp only [Nat.add_zero] at h0
      rw [h0]
      simp only
      apply (ih (i0 + 1)).2
      intro j q hj
      have := h (j + 1) q (by simpa using hj)
      rw [show i0 + 1 + j = i0 + (j + 1) by omega]
      exact this

theorem att_anyPart_decided {α : Type} (f : Nat → α → Tri) (t : Tri) (ht : t ≠ .nomatch) : ∀ (ps : List α) (i0 : Nat),
    anyPart f i0 ps = t ↔
      ∃ j q, ps[j]? = some q ∧ f (i0 + j) q = t ∧ ∀ j' < j, ∀ q', ps[j']? = some q' → f (i0 + j') q' = .nomatch := by
  intro ps
  induction ps with
  | nil =>
    intro i0
    simp only [anyPart]
    constructor
    · intro h; exact absurd h.symm ht
    · rintro ⟨j, q, hj, _⟩; simp at hj
  | cons p ps ih =>
    intro i0
    simp only [anyPart]
    cases hf : f i0 p with
    | «nomatch» =>
      simp only
      rw [ih (i0 + 1)]
      constructor
      · rintro ⟨j, q, hj, hq, hall⟩
        refine ⟨j + 1, q, by simpa using hj, by rw [show i0 + (j + 1) = i0 + 1 + j by omega]; exact hq, ?_⟩
        intro j' hj' q' hq'
        cases j' with
        | zero =>
          simp only [List.getElem?_cons_zero, Option.some.injEq] at hq'
          subst hq'
          simpa using hf
        | succ j' =>
          have := hall j' (by omega) q' (by simpa using hq')
          rw [show i0 + (j' + 1) = i0 + 1 + j' by omega]
          exact this
      · rintro ⟨j, q, hj, hq, hall⟩
        cases j with
        | zero =>
          simp only [List.getElem?_cons_zero, Option.some.injEq] at hj
          subst hj
          simp only [Nat.add_zero] at hq
          rw [hf] at hq
          exact absurd hq.symm ht
        | succ j =>
          refine ⟨j, q, by simpa using hj, by rw [show i0 + 1 + j = i0 + (j + 1) by omega]; exact hq, ?_⟩
          intro j' hj' q' hq'
          have := hall (j' + 1) (by omega) q' (by simpa using hq')
          rw [show i0 + 1 + j' = i0 + (j' + 1) by omega]
          exact this
    | «match» =>
      simp only
      constructor
      · intro h
        exact ⟨0, p, by simp, by simpa [hf] using h, fun j' hj' => by omega⟩
      · rintro ⟨j, q, hj, hq, hall⟩
        cases j with
        | zero =>
          simp only [List.getElem?_cons_zero, Option.some.injEq] at hj
          subst hj
          simp only [Nat.add_zero] at hq
          rw [← hq, hf]
        | succ j =>
          have := hall 0 (by omega) p (by simp)
          simp only [Nat.add_zero] at this
          rw [hf] at this
          cases this
    | error =>
      simp only
      constructor
      · intro h
        exact ⟨0, p, by simp, by simpa [hf] using h, fun j' hj' => by omega⟩
      · rintro ⟨j, q, hj, hq, hall⟩
        cases j with
        | zero =>
          simp only [List.getElem?_cons_zero, Option.some.injEq] at hj
          subst hj
          simp only [Nat.add_zero] at hq
          rw [← hq, hf]
        | succ j =>
          have := hall 0 (by omega) p (by simp)
          simp only [Nat.add_zero] at this
          rw [hf] at this
          cases this

/-- `attachment c` on message `m` regarded as part `k`: an error if the parts cannot be had;
otherwise the value `t` of `c` on the first part where it is not *no match* (a match, or an
evaluation error, with *no match* on every earlier part), and *no match* iff `c` does not hold
on any part. -/
theorem att_attachment_cond_meaning {α : Type} (cx : PartCtx α) (l : Nat) (c : Expr) (k : Nat) (m : α) :
    (cx.parts m = none → condValA cx (.attachment l c) k m = .error) ∧
    (∀ ps, cx.parts m = some ps →
      (∀ t, t ≠ .nomatch → (condValA cx (.attachment l c) k m = t ↔
        ∃ i q, ps[i]? = some q ∧ condValA cx c (partIndex k i) q = t ∧
          ∀ j < i, ∀ q', ps[j]? = some q' → condValA cx c (partIndex k j) q' = .nomatch)) ∧
      (condValA cx (.attachment l c) k m = .nomatch ↔
        ∀ i q, ps[i]? = some q → condValA cx c (partIndex k i) q = .nomatch)) := by
  refine ⟨fun h => by simp only [condValA, h], fun ps h => ⟨fun t ht => ?_, ?_⟩⟩
  · simp only [condValA, h]
    have := att_anyPart_decided (fun i q => condValA cx c (partIndex k i) q) t ht ps 0
    simpa using this
  · simp only [condValA, h]
    have := att_anyPart_nomatch (fun i q => condValA cx c (partIndex k i) q) ps 0
    simpa using this

end Mdsort.Proofs
