import Mdsort.Proofs.WorldExec

/-! A weakest-precondition calculus for plans with AT MOST ONE fault: the state carries a budget
(`true` = the fault has not been spent yet).  Once the budget is spent the execution is the
fault-free one, so a rollback that follows a failure can be computed. -/

namespace Mdsort.Proofs.World
open Mdsort Mdsort.Model

/-- At most one call index carries a fault. -/
def SingleFault (plan : Plan) : Prop := ∀ j k, j < k → (plan j).isSome → plan k = none

/-- The plan that injects `f` at call `i` and nothing else. -/
def singlePlan (i : Nat) (f : Fault) : Plan := fun k => if k = i then some f else none

theorem singleFault_none : SingleFault Plan.none := fun _ _ _ _ => rfl

theorem singleFault_single (i : Nat) (f : Fault) : SingleFault (singlePlan i f) := by
  intro j k hjk hj
  unfold singlePlan at hj ⊢
  by_cases h : j = i
  · have : ¬ k = i := by omega
    simp [this]
  · simp [h] at hj

theorem count_succ (plan : Plan) (n : Nat) :
    Plan.count plan (n + 1) = Plan.count plan n + (if (plan n).isSome then 1 else 0) := by
  unfold Plan.count
  rw [List.range_succ, List.filter_append, List.length_append]
  by_cases h : (plan n).isSome <;> simp [h]

theorem count_mono (plan : Plan) {m n : Nat} (h : m ≤ n) : Plan.count plan m ≤ Plan.count plan n := by
  induction n with
  | zero => have : m = 0 := by omega
            subst this; exact Nat.le_refl _
  | succ n ih =>
    by_cases hm : m = n + 1
    · subst hm; exact Nat.le_refl _
    · have := ih (by omega)
      rw [count_succ]; omega

/-- `Plan.count plan n ≤ 1` for all `n` is the same restriction. -/
theorem singleFault_of_count (plan : Plan) (h : ∀ n, Plan.count plan n ≤ 1) : SingleFault plan := by
  intro j k hjk hj
  cases hpk : plan k with
  | none => rfl
  | some fk =>
  exfalso
  have hk' : (plan k).isSome := by simp [hpk]
  have h1 := count_succ plan j
  have h2 := count_succ plan k
  have h3 := count_mono plan (show j + 1 ≤ k by omega)
  have h4 := h (k + 1)
  simp only [hj, hk', if_true] at h1 h2
  omega

/-- What remains of the budget at call index `i`. -/
def Budget (plan : Plan) (i : Nat) (b : Bool) : Prop :=
  (b = false → ∀ j, i ≤ j → plan j = none) ∧ (∀ j k, i ≤ j → j < k → (plan j).isSome → plan k = none)

theorem SingleFault.budget {plan : Plan} (h : SingleFault plan) : Budget plan 0 true :=
  ⟨fun hb => (by cases hb), fun j k _ hjk hj => h j k hjk hj⟩

/-- Single-fault weakest precondition.  The postcondition sees the remaining budget. -/
def wpS {α} : Prog α → (Bool → α → World → Prop) → Bool → World → Prop
  | .ret a, Q, b, w => Q b a w
  | .call c k, Q, b, w =>
      wpS (k (predict w c)) Q b (stepWorld w c (predict w c)) ∧
      (b = true → ∀ f : Fault,
        wpS (k (faultResult (some f) w c)) Q false (stepWorld w c (faultResult (some f) w c)))

theorem wpS_sound {α} (plan : Plan) {p : Prog α} {Q : Bool → α → World → Prop} {b : Bool} {w : World} {i : Nat}
    (h : wpS p Q b w) (hb : Budget plan i b) : ∃ b', Q b' (run plan p w i).1 (run plan p w i).2.1 := by
  induction p generalizing b w i with
  | ret a => exact ⟨b, h⟩
  | call c k ih =>
    cases hpi : plan i with
    | none =>
      have hb' : Budget plan (i + 1) b :=
        ⟨fun e j hj => hb.1 e j (by omega), fun j k' hj hjk hs => hb.2 j k' (by omega) hjk hs⟩
      have := ih (predict w c) h.1 hb'
      simpa only [run, hpi, faultResult] using this
    | some f =>
      have hbt : b = true := by
        cases b with
        | true => rfl
        | false => have := hb.1 rfl i (Nat.le_refl _); rw [hpi] at this; cases this
      have hb' : Budget plan (i + 1) false :=
        ⟨fun _ j hj => hb.2 i j (Nat.le_refl _) (by omega) (by simp [hpi]),
         fun j k' hj hjk hs => hb.2 j k' (by omega) hjk hs⟩
      have := ih (faultResult (some f) w c) (h.2 hbt f) hb'
      simpa only [run, hpi] using this

theorem wpS_bind {α β} {p : Prog α} {f : α → Prog β} {Q : Bool → β → World → Prop} {b : Bool} {w : World}
    (h : wpS p (fun b' a w' => wpS (f a) Q b' w') b w) : wpS (p.bind f) Q b w := by
  induction p generalizing b w with
  | ret a => exact h
  | call c k ih => exact ⟨ih _ h.1, fun hb ft => ih _ (h.2 hb ft)⟩

theorem wpS_mono {α} {p : Prog α} {Q Q' : Bool → α → World → Prop} {b : Bool} {w : World}
    (h : wpS p Q b w) (hq : ∀ b' a w', Q b' a w' → Q' b' a w') : wpS p Q' b w := by
  induction p generalizing b w with
  | ret a => exact hq _ _ _ h
  | call c k ih => exact ⟨ih _ h.1, fun hb ft => ih _ (h.2 hb ft)⟩

theorem wpS_bind_mono {α β} {p : Prog α} {f : α → Prog β} {Q : Bool → β → World → Prop}
    {R : Bool → α → World → Prop} {b : Bool} {w : World}
    (h : wpS p R b w) (hf : ∀ b' a w', R b' a w' → wpS (f a) Q b' w') : wpS (p.bind f) Q b w :=
  wpS_bind (wpS_mono h hf)

theorem wpS_and {α} {p : Prog α} {Q1 Q2 : Bool → α → World → Prop} {b : Bool} {w : World}
    (h1 : wpS p Q1 b w) (h2 : wpS p Q2 b w) : wpS p (fun b' a w' => Q1 b' a w' ∧ Q2 b' a w') b w := by
  induction p generalizing b w with
  | ret a => exact ⟨h1, h2⟩
  | call c k ih => exact ⟨ih _ h1.1 h2.1, fun hb ft => ih _ (h1.2 hb ft) (h2.2 hb ft)⟩

/-- A specification proved for every fault plan holds in particular for single-fault plans. -/
theorem wpS_of_wp {α} {I : World → Prop} {p : Prog α} {Q : α → World → Prop} {w : World} (b : Bool)
    (h : wp I p Q w) : wpS p (fun _ => Q) b w := by
  induction p generalizing b w with
  | ret a => exact h
  | call c k ih => exact ⟨ih _ _ (h none).2, fun _ ft => ih _ _ (h (some ft)).2⟩

theorem wpS_call_any {α} {c : Call} {k : Res → Prog α} {Q : Bool → α → World → Prop} {b : Bool} {w : World}
    (h : ∀ r b', wpS (k r) Q b' (stepWorld w c r)) : wpS (.call c k) Q b w :=
  ⟨h _ _, fun _ _ => h _ _⟩

/-- The same, remembering that a spent budget stays spent. -/
theorem wpS_call_any' {α} {c : Call} {k : Res → Prog α} {Q : Bool → α → World → Prop} {b : Bool} {w : World}
    (h : ∀ r b', (b = false → b' = false) → wpS (k r) Q b' (stepWorld w c r)) : wpS (.call c k) Q b w :=
  ⟨h _ b (fun hb => hb), fun _ _ => h _ false (fun _ => rfl)⟩

theorem wpS_false_of_forall {α} {p : Prog α} {Q : Bool → α → World → Prop} {w : World}
    (h : ∀ a w', Q false a w') : wpS p Q false w := by
  induction p generalizing w with
  | ret a => exact h a w
  | call c k ih => exact ⟨ih _, fun hb => by cases hb⟩

/-- Postconditions that survive spending the budget. -/
def Down {α} (Q : Bool → α → World → Prop) : Prop := ∀ a w, Q true a w → Q false a w

theorem wpS_down {α} {p : Prog α} {Q : Bool → α → World → Prop} (hd : Down Q) {b : Bool} {w : World}
    (h : wpS p Q b w) : wpS p Q false w := by
  induction p generalizing b w with
  | ret a => cases b with
    | true => exact hd _ _ h
    | false => exact h
  | call c k ih => exact ⟨ih _ h.1, fun hb => by cases hb⟩

theorem Down.bind {α β} {f : α → Prog β} {Q : Bool → β → World → Prop} (hd : Down Q) :
    Down (fun b' a w' => wpS (f a) Q b' w') := fun _ _ h => wpS_down hd h

/-- A call that is neither `read` nor `write`: either its predicted result, or (budget permitting)
a failure with an arbitrary errno, after which the run is fault-free. -/
theorem wpS_call {α} {c : Call} {k : Res → Prog α} {Q : Bool → α → World → Prop} {b : Bool} {w : World}
    (hd : Down Q) (h1 : ∀ fd, c ≠ .read fd) (h2 : ∀ fd d, c ≠ .write fd d)
    (hpred : wpS (k (predict w c)) Q b (stepWorld w c (predict w c)))
    (herr : b = true → ∀ e, wpS (k (.err e)) Q false (stepWorld w c (.err e))) : wpS (.call c k) Q b w := by
  refine ⟨hpred, fun hb ft => ?_⟩
  rcases faultResult_cases (some ft) w c h1 h2 with h | ⟨e, h⟩
  · rw [h]; exact wpS_down hd hpred
  · rw [h]; exact herr hb e

/-- The same with one obligation: the result is the predicted one with the budget unchanged, or
the budget was available, is spent, and the result is the predicted one or a failure. -/
theorem wpS_call_res {α} {c : Call} {k : Res → Prog α} {Q : Bool → α → World → Prop} {b : Bool} {w : World}
    (h1 : ∀ fd, c ≠ .read fd) (h2 : ∀ fd d, c ≠ .write fd d)
    (h : ∀ r b', (r = predict w c ∧ b' = b) ∨ (b = true ∧ b' = false ∧ (r = predict w c ∨ ∃ e, r = .err e)) →
      wpS (k r) Q b' (stepWorld w c r)) : wpS (.call c k) Q b w := by
  refine ⟨h _ _ (.inl ⟨rfl, rfl⟩), fun hb ft => ?_⟩
  exact h _ _ (.inr ⟨hb, rfl, faultResult_cases (some ft) w c h1 h2⟩)

/-- With the budget spent the next result is the predicted one. -/
theorem wpS_call_spent {α} {c : Call} {k : Res → Prog α} {Q : Bool → α → World → Prop} {w : World}
    (h : wpS (k (predict w c)) Q false (stepWorld w c (predict w c))) : wpS (.call c k) Q false w :=
  ⟨h, fun hb => by cases hb⟩

/-! ## no failure without a fault -/

/-- Following the predicted results only, the program does not end in `E`. -/
def Clean {α} (E : α → Prop) : Prog α → Prop
  | .ret a => ¬ E a
  | .call c k => ∀ w, Clean E (k (predict w c))

theorem Clean.wpS {α} {E : α → Prop} {p : Prog α} (h : Clean E p) (b : Bool) (w : World) :
    wpS p (fun b' a _ => E a → b' = false) b w := by
  induction p generalizing b w with
  | ret a => exact fun he => absurd he h
  | call c k ih => exact ⟨ih _ (h w) _ _, fun _ _ => wpS_false_of_forall fun _ _ _ => rfl⟩

theorem Clean.bind {α β} {EA : α → Prop} {EB : β → Prop} {p : Prog α} {f : α → Prog β}
    (hp : Clean EA p) (hf : ∀ a, ¬ EA a → Clean EB (f a)) : Clean EB (p.bind f) := by
  induction p with
  | ret a => exact hf a hp
  | call c k ih => intro w; exact ih _ (hp w)

end Mdsort.Proofs.World
