import Mdsort.Proofs.LimitsBridge

/-!
# At the platform's limits the parametrised programs ARE the programs of the model

`gennameL stdLimits = genname`, ..., `processMessageL stdLimits = processMessage`, `walkL stdLimits = walk`,
`mainPL stdLimits = mainP`.
-/

namespace Mdsort.Proofs.Limits
open Mdsort Mdsort.Model Mdsort.Proofs.World

theorem gennameL_std (env : PEnv) (md : Maildir) (flags : Option Bytes) (fuel : Nat) :
    ∀ count, gennameL stdLimits env md flags fuel count = genname env md flags fuel count := by
  induction fuel with
  | zero => intro count; rfl
  | succ n ih =>
    intro count
    simp only [gennameL, genname, std_nameMax1, gennameBufL_fin]
    generalize (decimalInt env.now ++ [46] ++ decimal env.pid ++ [95] ++ decimal ((count + 1) % gennameWrap) ++ [46] ++ env.host ++ flags.getD []) = name
    by_cases h : name.length ≥ NAME_MAX1
    · simp only [h, if_true]
    · simp only [h, if_false, ih]
      rfl

theorem gennameStartL_std (env : PEnv) (md : Maildir) (flags : Option Bytes) :
    gennameStartL stdLimits env md flags = gennameStart env md flags := gennameL_std _ _ _ _ _

theorem maildirOpenDstL_std (path : Bytes) : maildirOpenDstL stdLimits path = maildirOpenDst path := rfl

theorem messageSetFileL_std (ms : MsgSt) (dir name : Bytes) (fd : Option Handle) :
    messageSetFileL stdLimits ms dir name fd = messageSetFile ms dir name fd := rfl

theorem messageSetFileMovedL_std (ms : MsgSt) (src dst : Subdir) (dir name : Bytes) :
    messageSetFileMovedL stdLimits ms src dst dir name = messageSetFileMoved ms src dst dir name := rfl

theorem maildirMoveL_std (env : PEnv) (src dst : Maildir) (ms : MsgSt) :
    maildirMoveL stdLimits env src dst ms = maildirMove env src dst ms := by
  unfold maildirMoveL maildirMove
  simp only [gennameStartL_std, messageSetFileMovedL_std]
  rfl

theorem maildirWriteL_std (env : PEnv) (md : Maildir) (ms : MsgSt) :
    maildirWriteL stdLimits env md ms = maildirWrite env md ms := by
  unfold maildirWriteL maildirWrite
  simp only [gennameStartL_std, messageSetFileL_std]
  rfl

theorem writefdL_std (tmpdir : Bytes) : writefdL stdLimits tmpdir = writefd tmpdir := rfl

theorem messageGetFdL_std (env : PEnv) (ms : MsgSt) (part : Option Msg) (dobody : Bool) :
    messageGetFdL stdLimits env ms part dobody = messageGetFd env ms part dobody := by
  unfold messageGetFdL messageGetFd
  simp only [writefdL_std]
  rfl

theorem execOneL_std (env : PEnv) (mh : Match) (st : ExecSt) : execOneL stdLimits env mh st = execOne env mh st := by
  unfold execOneL execOne
  simp only [maildirOpenDstL_std, maildirMoveL_std, maildirWriteL_std, messageGetFdL_std]
  rfl

theorem matchesExecL_std (env : PEnv) (ml : MatchList) : ∀ st, matchesExecL stdLimits env ml st = matchesExec env ml st := by
  induction ml with
  | nil => intro st; rfl
  | cons mh rest ih => intro st; simp only [matchesExecL, matchesExec, execOneL_std, ih] <;> rfl

theorem messageParsePL_std (d : Handle) (dir name content : Bytes) :
    messageParsePL stdLimits d dir name content = messageParseP d dir name content := rfl

theorem evalTL_std (env : Env) (root : Msg) (e : Expr) : ∀ (part : Nat) (m : Msg) (st : St),
    evalTL stdLimits env root e part m st = evalT env root e part m st := by
  induction e with
  | block lno e ih => intro part m st; simp only [evalTL, evalT, ih] <;> rfl
  | and lno l r ihl ihr => intro part m st; simp only [evalTL, evalT, ihl, ihr] <;> rfl
  | or lno l r ihl ihr => intro part m st; simp only [evalTL, evalT, ihl, ihr] <;> rfl
  | neg lno e ih => intro part m st; simp only [evalTL, evalT, ih] <;> rfl
  | mtch lno c rhs ihc ihr => intro part m st; simp only [evalTL, evalT, ihc, ihr, matchesAppendL_std] <;> rfl
  | attachment lno e ih =>
    intro part m st
    have hloop : ∀ (ps : List Msg) (i : Nat) (st : St),
        evalTL.loop stdLimits env root e part ps i st = evalT.loop env root e part ps i st := by
      intro ps
      induction ps with
      | nil => intro i st; simp only [evalTL.loop, evalT.loop]
      | cons p rest ihp => intro i st; simp only [evalTL.loop, evalT.loop, ih, ihp] <;> rfl
    simp only [evalTL, evalT, hloop] <;> rfl
  | attBlock lno blk ih =>
    intro part m st
    have hloop : ∀ (ps : List Msg) (i : Nat) (ev : Tri) (st : St),
        evalTL.loopB stdLimits env root blk part ps i ev st = evalT.loopB env root blk part ps i ev st := by
      intro ps
      induction ps with
      | nil => intro i ev st; simp only [evalTL.loopB, evalT.loopB]
      | cons p rest ihp => intro i ev st; simp only [evalTL.loopB, evalT.loopB, ih, ihp] <;> rfl
    simp only [evalTL, evalT, hloop] <;> rfl
  | date lno field cmp age =>
    intro part m st
    cases field <;> simp only [evalTL, evalT, evalL_std, exprRegexecL_std] <;> rfl
  | stat lno path =>
    intro part m st
    simp only [evalTL, evalT, matchesAppendL_std, std_pathMax, strlcpyL_fin] <;> rfl
  | command lno argv =>
    intro part m st
    simp only [evalTL, evalT, matchesAppendL_std] <;> rfl
  | _ => intro part m st; simp only [evalTL, evalT, evalL_std]

theorem evalPL_std (env : Env) (e : Expr) (m : Msg) (fl : MFlags) : evalPL stdLimits env e m fl = evalP env e m fl := by
  unfold evalPL evalP evalTop
  rw [evalTL_std]

theorem processMessageL_std (env : PEnv) (orc : EvalOracles) (expr : Expr) (md : Maildir) (name : Bytes) (st : MainSt) :
    processMessageL stdLimits env orc expr md name st = processMessage env orc expr md name st := by
  unfold processMessageL processMessage
  simp only [messageParsePL_std, evalPL_std, matchesInterpolateL_std, matchesExecL_std]
  rfl

theorem walkL_std (env : PEnv) (orc : EvalOracles) (expr : Expr) (fuel : Nat) :
    ∀ md st, walkL stdLimits env orc expr fuel md st = walk env orc expr fuel md st := by
  induction fuel with
  | zero => intro md st; rfl
  | succ n ih =>
    intro md st
    simp only [walkL, walk, processMessageL_std, ih, nextSubdirL, std_pathMax, pathjoinL_fin]
    cases pathjoin PATH_MAX md.root (subdirName .cur) <;> rfl

theorem maildirStdinL_std (env : PEnv) (input : Bytes) : maildirStdinL stdLimits env input = maildirStdin env input := by
  unfold maildirStdinL maildirStdin
  simp only [gennameStartL_std]
  rfl

theorem pathsL_std (env : PEnv) (orc : EvalOracles) (input : Bytes) (b : ConfBlock) (ps : List Bytes) :
    ∀ st, pathsL stdLimits env orc input b ps st = mainP.blocks.paths env orc input b ps st := by
  induction ps with
  | nil => intro st; simp only [pathsL, mainP.blocks.paths]
  | cons p more ih =>
    intro st
    simp only [pathsL, mainP.blocks.paths, ih, maildirStdinL_std, walkL_std, openMaildirL, std_pathMax, pathjoinL_fin, strlcpyL_fin]
    cases strlcpyFits PATH_MAX p <;> cases pathjoin PATH_MAX p (subdirName .new) <;> try rfl
    cases h1 : (env.stdinMode && !isStdinPath p || !env.stdinMode && isStdinPath p)
    · cases h2 : isStdinPath p
      · simp only [Bool.false_eq_true, ↓reduceIte, maildirOpendir, bind_eq, pure_eq, call_bind, call_bind']
        congr 1; funext r
        cases r <;> rfl
      · rfl
    · rfl

theorem blocksL_std (env : PEnv) (orc : EvalOracles) (input : Bytes) (bs : List ConfBlock) :
    ∀ st, blocksL stdLimits env orc input bs st = mainP.blocks env orc input bs st := by
  induction bs with
  | nil => intro st; simp only [blocksL, mainP.blocks]
  | cons b rest ih => intro st; simp only [blocksL, mainP.blocks, pathsL_std, ih]

theorem mainPL_std (env : PEnv) (orc : EvalOracles) (confOk : Bool) (conf : List ConfBlock) (files : Files) (input : Bytes) :
    mainPL stdLimits env orc confOk conf files input = mainP env orc confOk conf files input := by
  unfold mainPL mainP
  simp only [blocksL_std]
  rfl


theorem mainTextL_std (env : PEnv) (orc : EvalOracles) (rxOk : Pat → Bool) (defs : List (Bytes × Bytes))
    (confText : Bytes) (files : Files) (input : Bytes) :
    mainTextL stdLimits env orc rxOk defs confText files input = mainText env orc rxOk defs confText files input := by
  unfold mainTextL mainText
  simp only [mainPL_std]
  rfl

end Mdsort.Proofs.Limits
