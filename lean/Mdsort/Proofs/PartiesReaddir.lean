import Mdsort.Proofs.PartiesClient

/-! `H_iso` from what directory listings return.  Every party `i` generates names in its own name
space `N i` (pairwise disjoint: the processes differ in pid or host); a name in flight of `i` is in
`N i`.  A party removes or renames only names it listed, was given, or created itself, and renames
only onto names it created.  So if no listing of a party returns a name of ANOTHER running party's
name space (`HisoReaddirNS`, which implies `HisoReaddir`), no party touches a foreign name in
flight; what remains of `H_iso` is the purely local clause `HisoOwn` (no party renames a name it has
in flight itself as if it were a message). -/

namespace Mdsort.Proofs.Parties
set_option linter.unusedSimpArgs false
set_option linter.unusedVariables false
open Mdsort Mdsort.Model
open Mdsort.Proofs.World (bind_eq pure_eq ret_bind call_bind' call_bind bind_assoc Calls All)
open Mdsort.Proofs.Own

/-! ## names a party knows: given, listed, created -/

/-- The names the party's `readdir` calls returned. -/
def listedNames (tr : Trace) : List Bytes :=
  tr.filterMap fun
    | (.readdir _, .name n) => some n
    | _ => none

theorem listedNames_append (a b : Trace) : listedNames (a ++ b) = listedNames a ++ listedNames b := by
  simp [listedNames, List.filterMap_append]

/-- The condition on the names of a call: sources are given, listed or created names; targets are created names. -/
def KnownI (init : List Bytes) (tr : Trace) (c : Call) : Prop :=
  (∀ d n, c = .unlinkat d n → n ∈ init ++ listedNames tr ++ createdNames tr) ∧
  (∀ d1 n1 d2 n2, c = .renameat d1 n1 d2 n2 → n1 ∈ init ++ listedNames tr ++ createdNames tr ∧ n2 ∈ createdNames tr)

theorem wp_I_mono_ext {α} {R : Call → Res → Prop} {I I' : Trace → Call → Prop} {p : Prog α} {Q : α → Trace → Prop} {tr : Trace}
    (hI : ∀ L c, I (tr ++ L) c → I' (tr ++ L) c) (h : wp R I p Q tr) : wp R I' p Q tr := by
  induction p generalizing tr with
  | ret a => exact h
  | call c k ih =>
    refine ⟨by simpa using hI [] c (by simpa using h.1), fun r hr => ih r ?_ (h.2 r hr)⟩
    intro L c' hc'
    have := hI ((c, r) :: L) c' (by simpa using hc')
    simpa using this

theorem ownI_knownI {src : Bytes} {init : List Bytes} {tr : Trace} (hs : src ∈ init ++ listedNames tr) (L : Trace) (c : Call)
    (h : OwnI src (tr ++ L) c) : KnownI init (tr ++ L) c := by
  have conv : ∀ n, Own src (tr ++ L) n → n ∈ init ++ listedNames (tr ++ L) ++ createdNames (tr ++ L) := by
    intro n hn
    rcases List.mem_cons.1 hn with rfl | hn
    · apply List.mem_append_left
      rw [listedNames_append]
      rcases List.mem_append.1 hs with h1 | h1
      · exact List.mem_append_left _ h1
      · exact List.mem_append_right _ (List.mem_append_left _ h1)
    · exact List.mem_append_right _ hn
  exact ⟨fun d n e => conv n (h.1 d n e), fun d1 n1 d2 n2 e => ⟨conv n1 (h.2 d1 n1 d2 n2 e).1, (h.2 d1 n1 d2 n2 e).2⟩⟩

/-- One action list on the message named `st.ms.name`, a name the party was given or listed. -/
theorem known_matchesExec {R : Call → Res → Prop} (init : List Bytes) (env : PEnv) (ml : MatchList) (st : ExecSt) (tr : Trace)
    (hs : st.ms.name ∈ init ++ listedNames tr) :
    wp R (KnownI init) (matchesExec env ml st) (fun _ _ => True) tr :=
  wp_I_mono_ext (fun L c h => ownI_knownI hs L c h)
    (wp_mono (spec_matchesExec st.ms.name env ml st tr (Own.src _ _)) fun _ _ _ => True.intro)

theorem known_party {R : Call → Res → Prop} (env : PEnv) (ml : MatchList) (st : ExecSt) :
    wp R (KnownI [st.ms.name]) (errOf (matchesExec env ml st)) (fun _ _ => True) [] := by
  unfold errOf
  refine wp_bind_ext (known_matchesExec [st.ms.name] env ml st [] (by simp)) ?_
  intro _ _ _
  exact True.intro

theorem knownI_quiet (init : List Bytes) (tr : Trace) (c : Call) (h : Quiet c) : KnownI init tr c := by
  cases c <;> first | exact h.elim | exact ⟨(by intro _ _ e; cases e), (by intro _ _ _ _ e; cases e)⟩

/-- A listing party whose rules name the message after the directory entry. -/
theorem known_scanExec {R : Call → Res → Prop} (env : PEnv) (md : Maildir) (rule : Bytes → Option (MatchList × MsgSt))
    (hname : ∀ n ml ms, rule n = some (ml, ms) → ms.name = n) (fuel : Nat) (e : Bool) (tr : Trace) :
    wp R (KnownI []) (scanExec env md rule fuel e) (fun _ _ => True) tr := by
  induction fuel generalizing e tr with
  | zero => unfold scanExec; exact True.intro
  | succ fuel ih =>
    unfold scanExec
    split
    · exact True.intro
    rename_i d hd
    refine wp_call (knownI_quiet _ _ _ True.intro) fun r hrr => ?_
    split
    · rename_i n
      split
      · exact ih _ _
      · split
        · exact ih _ _
        · rename_i ml ms hr
          refine wp_bind_ext (known_matchesExec [] env ml _ _ ?_) ?_
          · show ms.name ∈ [] ++ listedNames (tr ++ [(Call.readdir d, Res.name n)])
            rw [hname n ml ms hr, listedNames_append]
            simp [listedNames]
          · intro x L _
            exact ih _ _
    · exact True.intro
    · exact True.intro

/-! ## the invariant of every party -/

/-- What holds of party `i` at every reachable state. -/
structure RInv (N : Nat → Bytes → Prop) (i : Nat) (ps : PState) : Prop where
  names : NameOK (N i) ps
  created : ∀ n ∈ createdNames ps.trace, N i n
  kind : (∃ init, wp (fun _ _ => True) (KnownI init) ps.prog (fun _ _ => True) ps.trace ∧
            (∀ n ∈ init, ∀ j, j ≠ i → ¬ N j n) ∧ (∀ n ∈ listedNames ps.trace, ∀ j, j ≠ i → ¬ N j n)) ∨
         (∃ ops, ps.prog = clientProg ops ∧ (∀ op ∈ ops, ∀ j, op.avoids (N j)) ∧ inFlightH ps.trace = [])

theorem rinv_step {N : Nat → Bytes → Prop} {s : Shared} {i : Nat} {ps : PState} {c : Call} {k : Res → Prog Bool}
    (hc : ps.prog = .call c k) (h : RInv N i ps)
    (hrd : ∀ d n, c = .readdir d → predict (s.view ps) c = .name n → ∀ j, j ≠ i → ¬ N j n) :
    RInv N i (stepLocal s ps c k) := by
  refine ⟨nameOK_step hc h.names, ?_, ?_⟩
  · intro n hn
    rw [stepLocal_trace, createdNames_append] at hn
    rcases List.mem_append.1 hn with hn | hn
    · exact h.created n hn
    · have hq := h.names.1
      rw [hc] at hq
      cases c <;> simp [createdNames] at hn
      rename_i d m
      split at hn <;> simp at hn
      rename_i heq
      obtain ⟨_, rfl⟩ := hn
      simp only [Prod.mk.injEq, Call.openExcl.injEq] at heq
      obtain ⟨⟨_, rfl⟩, _⟩ := heq
      exact hq.1
  · rcases h.kind with ⟨init, hw, hinit, hlist⟩ | ⟨ops, hp, hav, h0⟩
    · left
      rw [hc] at hw
      refine ⟨init, hw.2 _ True.intro, hinit, ?_⟩
      intro n hn
      rw [stepLocal_trace, listedNames_append] at hn
      rcases List.mem_append.1 hn with hn | hn
      · exact hlist n hn
      · cases c <;> simp [listedNames] at hn
        split at hn <;> simp at hn
        rename_i heq
        subst hn
        simp only [Prod.mk.injEq, Call.readdir.injEq] at heq
        exact hrd _ _ rfl heq.2
    · right
      obtain ⟨ops', hp', hav', h0'⟩ := clientOK_step (N := N i) (s := s) hc ⟨ops, hp, fun op ho => hav op ho i, h0⟩
      cases ops with
      | nil => rw [hp] at hc; cases hc
      | cons op rest =>
        rw [hp] at hc
        simp only [clientProg, Prog.call.injEq] at hc
        obtain ⟨rfl, rfl⟩ := hc
        exact ⟨rest, rfl, fun o ho => hav o (List.mem_cons_of_mem _ ho), h0'⟩

/-- Isolation of one step from the invariants of all parties and the local clause. -/
theorem isoStep_of_rinv {N : Nat → Bytes → Prop} (hdisj : ∀ i j n, i ≠ j → N i n → ¬ N j n) (s : Shared) (a : Nat)
    (hall : ∀ (i : Nat) (q : PState), s.parties[i]? = some q → RInv N i q) (hown : ownStep s a = true) : isoStep s a = true := by
  cases hp : s.parties[a]? with
  | none => simp [isoStep, hp]
  | some ps =>
    cases hprog : ps.prog with
    | ret e => simp [isoStep, hp, hprog]
    | call c k =>
      have hfor : ∀ y ∈ foreignInFlight s a, ∃ j, j ≠ a ∧ N j y.2 := by
        intro y hy
        obtain ⟨i, q, hi, hq, hyq⟩ := (mem_foreignInFlight s a y).1 hy
        obtain ⟨d, hd⟩ := mem_inFlight_name hyq
        exact ⟨i, hi, (hall i q hq).names.2 (d, y.2) hd⟩
      have hown' : (!c.isRename || (callSrc (s.view ps) c).toList.all fun x => !ps.inFlight.contains x) = true := by
        simpa [ownStep, hp, hprog] using hown
      unfold isoStep
      simp only [hp, hprog, Bool.and_eq_true]
      refine ⟨?_, hown'⟩
      simp only [List.all_eq_true, Bool.not_eq_true']
      intro y hy
      cases hct : (foreignInFlight s a).contains y with
      | false => rfl
      | true =>
        exfalso
        obtain ⟨j, hj, hN⟩ := hfor y (by simpa using hct)
        have hr := hall a ps hp
        -- the names the call mentions are outside the name spaces of the others
        have hout : ∀ n, (n ∈ createdNames ps.trace ∨ ∃ init, (∀ m ∈ init, ∀ j, j ≠ a → ¬ N j m) ∧ n ∈ init ++ listedNames ps.trace ++ createdNames ps.trace ∧
            (∀ m ∈ listedNames ps.trace, ∀ j, j ≠ a → ¬ N j m)) → ¬ N j n := by
          intro n hn
          have hcr : ∀ m ∈ createdNames ps.trace, ¬ N j m := fun m hm => hdisj a j m (fun e => hj e.symm) (hr.created m hm)
          rcases hn with hn | ⟨init, hinit, hmem, hlist⟩
          · exact hcr n hn
          · rcases List.mem_append.1 hmem with h1 | h1
            · rcases List.mem_append.1 h1 with h2 | h2
              · exact hinit n h2 j hj
              · exact hlist n h2 j hj
            · exact hcr n h1
        rcases hr.kind with ⟨init, hw, hinit, hlist⟩ | ⟨ops, hpr, hav, _⟩
        · rw [hprog] at hw
          have hI := hw.1
          cases c <;> simp [callSrc, callDst, Call.isRename] at hy
          · -- renameat
            rename_i d1 n1 d2 n2
            obtain ⟨h1, h2⟩ := hI.2 d1 n1 d2 n2 rfl
            rcases hy with ⟨q, _, rfl⟩ | ⟨q, _, rfl⟩
            · exact hout n1 (.inr ⟨init, hinit, h1, hlist⟩) hN
            · exact hout n2 (.inl h2) hN
          · -- unlinkat
            rename_i d n
            obtain ⟨q, _, rfl⟩ := hy
            exact hout n (.inr ⟨init, hinit, hI.1 d n rfl, hlist⟩) hN
        · rw [hpr] at hprog
          cases ops with
          | nil => cases hprog
          | cons op rest =>
            simp only [clientProg, Prog.call.injEq] at hprog
            obtain ⟨rfl, _⟩ := hprog
            have hop := hav op (List.mem_cons_self ..) j
            cases op with
            | rename d1 n1 d2 n2 =>
              simp only [ClientOp.call, callSrc, callDst, Call.isRename, if_true, List.mem_append, Option.mem_toList,
                Option.map_eq_some_iff] at hy
              rcases hy with ⟨q, _, rfl⟩ | ⟨q, _, rfl⟩
              · exact hop.1 hN
              · exact hop.2 hN
            | unlink d n =>
              simp only [ClientOp.call, callSrc, callDst, Call.isRename, Bool.false_eq_true, if_false, List.append_nil,
                Option.mem_toList, Option.map_eq_some_iff] at hy
              obtain ⟨q, _, rfl⟩ := hy
              exact hop hN

theorem hiso_of_readdirNS_aux {N : Nat → Bytes → Prop} (hdisj : ∀ i j n, i ≠ j → N i n → ¬ N j n) (sched : List Nat) :
    ∀ s, (∀ (i : Nat) (q : PState), s.parties[i]? = some q → RInv N i q) → HisoReaddirNS N s sched → HisoOwn s sched = true →
      Hiso s sched = true := by
  induction sched with
  | nil => intro s _ _ _; rfl
  | cons a rest ih =>
    intro s hall hrd hown
    simp only [HisoOwn, Bool.and_eq_true] at hown
    simp only [Hiso, Bool.and_eq_true]
    refine ⟨isoStep_of_rinv hdisj s a hall hown.1, ih _ ?_ hrd.2 hown.2⟩
    apply stepParty_cases (P := fun s' => ∀ (i : Nat) (q : PState), s'.parties[i]? = some q → RInv N i q) hall
    intro ps c k hp hc i q hq
    rw [stepCall_party s a i ps c k hp] at hq
    by_cases hi : i = a
    · simp only [hi, if_true, Option.some.injEq] at hq
      subst hq
      rw [hi]
      refine rinv_step hc (hall a ps hp) ?_
      intro d n hcd hres j hj
      subst hcd
      exact hrd.1 ps d k n hp hc hres j hj
    · simp only [hi, if_false] at hq
      exact hall i q hq

/-- The kinds of parties of the theorem, with their name spaces. -/
def ReaddirParty (N : Nat → Bytes → Prop) (i : Nat) (ps : PState) : Prop :=
  (∃ env md rule fuel e, GenNames (N i) env ∧ (∀ n ml ms, rule n = some (ml, ms) → ms.name = n) ∧ ps.prog = scanExec env md rule fuel e) ∨
  (∃ env ml st, GenNames (N i) env ∧ (∀ j, j ≠ i → ¬ N j st.ms.name) ∧ ps.prog = errOf (matchesExec env ml st)) ∨
  (∃ ops, ps.prog = clientProg ops ∧ ∀ op ∈ ops, ∀ j, op.avoids (N j))

theorem hiso_of_readdirNS (N : Nat → Bytes → Prop) (hdisj : ∀ i j n, i ≠ j → N i n → ¬ N j n) (s0 : Shared) (hf : Fresh s0)
    (hp : ∀ (i : Nat) (ps : PState), s0.parties[i]? = some ps → ReaddirParty N i ps)
    (sched : List Nat) (hrd : HisoReaddirNS N s0 sched) (hown : HisoOwn s0 sched = true) : Hiso s0 sched = true := by
  refine hiso_of_readdirNS_aux hdisj sched s0 ?_ hrd hown
  intro i q hq
  have ht : q.trace = [] := hf.2 q (List.mem_of_getElem? hq)
  rcases hp i q hq with ⟨env, md, rule, fuel, e, hN, hname, hprog⟩ | ⟨env, ml, st, hN, hout, hprog⟩ | ⟨ops, hprog, hav⟩
  · refine ⟨⟨(by rw [hprog]; exact nq_scanExec env hN md rule fuel e), (by rw [ht]; intro y hy; cases hy)⟩,
      (by rw [ht]; intro n hn; cases hn), .inl ⟨[], ?_, (by intro n hn; cases hn), (by rw [ht]; intro n hn; cases hn)⟩⟩
    rw [hprog, ht]
    exact known_scanExec env md rule hname fuel e []
  · refine ⟨⟨(by rw [hprog]; exact nq_errOf _ (nq_matchesExec env hN ml st)), (by rw [ht]; intro y hy; cases hy)⟩,
      (by rw [ht]; intro n hn; cases hn), .inl ⟨[st.ms.name], ?_, ?_, (by rw [ht]; intro n hn; cases hn)⟩⟩
    · rw [hprog, ht]
      exact known_party env ml st
    · intro n hn j hj
      rw [List.mem_singleton.1 hn]
      exact hout j hj
  · exact ⟨⟨(by rw [hprog]; exact nq_clientProg ops), (by rw [ht]; intro y hy; cases hy)⟩,
      (by rw [ht]; intro n hn; cases hn), .inr ⟨ops, hprog, hav, (by rw [ht]; rfl)⟩⟩

/-- `HisoReaddirNS` is a strengthening of `HisoReaddir`: a name in flight of a party is in its name space. -/
theorem hisoReaddir_of_NS_aux {N : Nat → Bytes → Prop} (sched : List Nat) :
    ∀ s, (∀ (i : Nat) (q : PState), s.parties[i]? = some q → NameOK (N i) q) → HisoReaddirNS N s sched → HisoReaddir s sched = true := by
  induction sched with
  | nil => intro s _ _; rfl
  | cons a rest ih =>
    intro s hall hrd
    simp only [HisoReaddir, Bool.and_eq_true]
    refine ⟨?_, ih _ ?_ hrd.2⟩
    · unfold isoReaddirStep
      cases hp : s.parties[a]? with
      | none => rfl
      | some ps =>
        dsimp only
        cases hprog : ps.prog with
        | ret e => rfl
        | call c k =>
          cases c <;> try rfl
          rename_i d
          dsimp only
          cases hres : predict (s.view ps) (.readdir d) with
          | name n =>
            cases hq : (s.view ps).dirPath d with
            | none => rfl
            | some q =>
              dsimp only
              cases hct : (foreignInFlight s a).contains (q, n) with
              | false => rfl
              | true =>
                exfalso
                obtain ⟨i, qi, hi, hqi, hy⟩ := (mem_foreignInFlight s a (q, n)).1 (by simpa using hct)
                obtain ⟨d', hd'⟩ := mem_inFlight_name hy
                exact hrd.1 ps d k n hp hprog hres i hi ((hall i qi hqi).2 (d', n) hd')
          | _ => rfl
    · apply stepParty_cases (P := fun s' => ∀ (i : Nat) (q : PState), s'.parties[i]? = some q → NameOK (N i) q) hall
      intro ps c k hp hc i q hq
      rw [stepCall_party s a i ps c k hp] at hq
      by_cases hi : i = a
      · simp only [hi, if_true, Option.some.injEq] at hq
        subst hq
        rw [hi]
        exact nameOK_step hc (hall a ps hp)
      · simp only [hi, if_false] at hq
        exact hall i q hq

theorem hisoReaddir_of_NS (N : Nat → Bytes → Prop) (s0 : Shared) (hf : Fresh s0)
    (hp : ∀ (i : Nat) (ps : PState), s0.parties[i]? = some ps → ReaddirParty N i ps)
    (sched : List Nat) (hrd : HisoReaddirNS N s0 sched) : HisoReaddir s0 sched = true := by
  refine hisoReaddir_of_NS_aux sched s0 ?_ hrd
  intro i q hq
  have ht : q.trace = [] := hf.2 q (List.mem_of_getElem? hq)
  refine ⟨?_, by rw [ht]; intro y hy; cases hy⟩
  rcases hp i q hq with ⟨env, md, rule, fuel, e, hN, _, hprog⟩ | ⟨env, ml, st, hN, _, hprog⟩ | ⟨ops, hprog, _⟩
  · rw [hprog]; exact nq_scanExec env hN md rule fuel e
  · rw [hprog]; exact nq_errOf _ (nq_matchesExec env hN ml st)
  · rw [hprog]; exact nq_clientProg ops

end Mdsort.Proofs.Parties
