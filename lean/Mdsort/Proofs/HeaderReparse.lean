import Mdsort.Proofs.HeaderParse

/-! What `message_write` prints for a well-formed table reads back as that table (C08). -/

set_option linter.unusedSimpArgs false

namespace Mdsort.Proofs
open Mdsort Mdsort.Model

/-- A field name that keeps the line structure. -/
def KeyOk (k : Bytes) : Prop := ∀ c ∈ k, c ≠ 58 ∧ isspace c = false ∧ c ≠ 0

/-- `v` is a first line `v0` (no leading blank) followed by the continuation lines `conts`. -/
def ValShape (v v0 : Bytes) (conts : List Bytes) : Prop :=
  v = v0 ++ conts.flatMap (fun c => 10 :: c) ∧ (10 : UInt8) ∉ v0 ∧
  (∀ c, v0.head? = some c → isblank c = false) ∧
  ∀ c ∈ conts, Spec.isCont c = true ∧ (10 : UInt8) ∉ c

/-- A raw value that keeps the line structure. -/
def ValOk (v : Bytes) : Prop := (∀ c ∈ v, c ≠ 0) ∧ ∃ v0 conts, ValShape v v0 conts

/-- The printed message, from the (name, raw value) list. -/
def renderF (fs : List (Bytes × Bytes)) (b : Bytes) : Bytes :=
  (fs.flatMap fun f => f.1 ++ [58, 32] ++ f.2 ++ [10]) ++ [10] ++ b

theorem render_eq (hs : List Hdr) (body : Bytes) :
    render hs body = renderF (hs.map fun h => (h.key, h.val)) body := by
  unfold render renderF
  rw [List.flatMap_map]

theorem isspace_of_isblank (c : UInt8) (h : isblank c = true) : isspace c = true := by
  unfold isblank at h
  unfold isspace
  simp only [Bool.or_eq_true, beq_iff_eq] at h
  rcases h with rfl | rfl <;> decide

/-! ## lines, backwards -/

theorem splitHB_cons (c : UInt8) (r cur : Bytes) :
    Spec.splitHB (c :: r) cur =
      if c == 10 then
        if cur.isEmpty then ([], some r)
        else
          let (ls, b) := Spec.splitHB r []
          (cur :: ls, b)
      else Spec.splitHB r (cur ++ [c]) := by
  rw [Spec.splitHB]

theorem splitHB_line (l rest cur : Bytes) (hl : (10 : UInt8) ∉ l) :
    Spec.splitHB (l ++ 10 :: rest) cur =
      if (cur ++ l).isEmpty then ([], some rest)
      else ((cur ++ l) :: (Spec.splitHB rest []).1, (Spec.splitHB rest []).2) := by
  induction l generalizing cur with
  | nil =>
    rw [List.nil_append, splitHB_cons]
    simp
  | cons c l ih =>
    have hc : (c == 10) = false := by
      have : c ≠ 10 := fun e => hl (by simp [e])
      simpa using this
    rw [List.cons_append, splitHB_cons]
    simp only [hc, Bool.false_eq_true, if_false]
    rw [ih (cur ++ [c]) (fun h => hl (by simp [h]))]
    simp

theorem splitHB_flat (ls : List Bytes) (body : Bytes) (hls : ∀ l ∈ ls, l ≠ [] ∧ (10 : UInt8) ∉ l) :
    Spec.splitHB (flat ls ++ 10 :: body) [] = (ls, some body) := by
  induction ls with
  | nil => simp [splitHB_cons]
  | cons l ls ih =>
    have hl := hls l (by simp)
    rw [flat_cons, List.append_assoc, List.cons_append, splitHB_line l _ [] hl.2]
    rw [ih (fun l hl => hls l (by simp [hl]))]
    have : (([] : Bytes) ++ l).isEmpty = false := by
      cases l with
      | nil => exact absurd rfl hl.1
      | cons _ _ => rfl
    simp [hl.1]

/-! ## fields to lines -/

theorem flatMap_nl (conts : List Bytes) :
    conts.flatMap (fun c => 10 :: c) ++ [10] = 10 :: flat conts := by
  induction conts with
  | nil => rfl
  | cons c cs ih =>
    simp only [List.flatMap_cons, List.append_assoc, ih, flat_cons, List.cons_append]

theorem flatMap_nl' (conts : List Bytes) (Y : Bytes) :
    conts.flatMap (fun c => 10 :: c) ++ 10 :: Y = 10 :: (flat conts ++ Y) := by
  have := congrArg (· ++ Y) (flatMap_nl conts)
  simpa using this

theorem takeWhile_ne_append (k X : Bytes) (hk : ∀ c ∈ k, c ≠ 58) :
    (k ++ 58 :: X).takeWhile (fun c => c != 58) = k := by
  induction k with
  | nil => simp
  | cons c k ih =>
    have : (c != 58) = true := by simpa using hk c (by simp)
    simp [List.takeWhile_cons, this, ih (fun c hc => hk c (by simp [hc]))]

theorem dropWhile_blank_self (v0 : Bytes) (hv : ∀ c, v0.head? = some c → isblank c = false) :
    v0.dropWhile isblank = v0 := by
  cases v0 with
  | nil => rfl
  | cons c r => simp [List.dropWhile_cons, hv c rfl]

theorem startLine_mk (k v0 : Bytes) (hk : ∀ c ∈ k, c ≠ 58 ∧ isspace c = false)
    (hv : ∀ c, v0.head? = some c → isblank c = false) :
    Spec.startLine (k ++ 58 :: 32 :: v0) = some (k, v0) := by
  unfold Spec.startLine
  simp only [takeWhile_ne_append k _ (fun c hc => (hk c hc).1)]
  have h1 : (k.length == (k ++ 58 :: 32 :: v0).length) = false := by simp
  have h2 : k.any isspace = false := by
    rw [List.any_eq_false]
    intro c hc
    simp [(hk c hc).2]
  have h3 : (k ++ 58 :: 32 :: v0).drop (k.length + 1) = 32 :: v0 := by
    rw [show k ++ 58 :: 32 :: v0 = (k ++ [58]) ++ 32 :: v0 by simp]
    rw [List.drop_left' (by simp)]
  have h4 : isblank 32 = true := by decide
  simp only [h1, h2, Bool.false_eq_true, if_false, h3, List.dropWhile_cons, h4, if_true,
    dropWhile_blank_self v0 hv]

theorem takeWhile_append_head {α} (p : α → Bool) (a b : List α) (ha : ∀ x ∈ a, p x = true)
    (hb : ∀ x, b.head? = some x → p x = false) :
    (a ++ b).takeWhile p = a ∧ (a ++ b).dropWhile p = b := by
  induction a with
  | nil =>
    cases b with
    | nil => simp
    | cons x r => simp [List.takeWhile_cons, List.dropWhile_cons, hb x rfl]
  | cons x a ih =>
    have := ih (fun y hy => ha y (by simp [hy]))
    simp [List.takeWhile_cons, List.dropWhile_cons, ha x (by simp), this.1, this.2]

theorem fields_lines (fs : List (Bytes × Bytes)) (hfs : ∀ f ∈ fs, KeyOk f.1 ∧ ValOk f.2) :
    ∃ ls, (∀ l ∈ ls, l ≠ [] ∧ (10 : UInt8) ∉ l) ∧
      (fs.flatMap fun f => f.1 ++ [58, 32] ++ f.2 ++ [10]) = flat ls ∧
      (∀ l, ls.head? = some l → Spec.isCont l = false) ∧
      ∀ fuel, ls.length < fuel → Spec.groupFields fuel ls = some fs := by
  induction fs with
  | nil =>
    refine ⟨[], by simp, rfl, by simp, ?_⟩
    intro fuel hf
    cases fuel with
    | zero => omega
    | succ f => rfl
  | cons f fs ih =>
    obtain ⟨ls', h1, h2, h3, h4⟩ := ih (fun f hf => hfs f (by simp [hf]))
    obtain ⟨k, v⟩ := f
    obtain ⟨hk, hv0, v0, conts, rfl, hv1, hv2, hv3⟩ := hfs (k, v) (by simp)
    have hk10 : (10 : UInt8) ∉ k := by
      intro hm
      have := (hk 10 hm).2.1
      revert this; decide
    refine ⟨(k ++ 58 :: 32 :: v0) :: (conts ++ ls'), ?_, ?_, ?_, ?_⟩
    · intro l hl
      rcases List.mem_cons.mp hl with rfl | hl
      · refine ⟨by simp, ?_⟩
        simp only [List.mem_append, List.mem_cons, not_or]
        exact ⟨hk10, by decide, by decide, hv1⟩
      · rcases List.mem_append.mp hl with hl | hl
        · refine ⟨?_, (hv3 l hl).2⟩
          intro e
          have := (hv3 l hl).1
          rw [e] at this
          simp [Spec.isCont] at this
        · exact h1 l hl
    · simp only [List.flatMap_cons, h2, flat_cons, flat_append]
      simp only [List.append_assoc, List.cons_append, List.nil_append]
      rw [flatMap_nl']
    · intro l hl
      simp only [List.head?_cons, Option.some.injEq] at hl
      subst hl
      cases k with
      | nil => simp [Spec.isCont]; decide
      | cons c k =>
        simp only [List.cons_append, Spec.isCont]
        have := (hk c (by simp)).2.1
        cases hb : isblank c with
        | false => rfl
        | true => rw [isspace_of_isblank c hb] at this; cases this
    · intro fuel hf
      cases fuel with
      | zero => omega
      | succ fuel =>
        rw [Spec.groupFields]
        rw [startLine_mk k v0 (fun c hc => ⟨(hk c hc).1, (hk c hc).2.1⟩) hv2]
        simp only
        obtain ⟨e1, e2⟩ := takeWhile_append_head Spec.isCont conts ls' (fun x hx => (hv3 x hx).1) h3
        rw [e1, e2, h4 fuel (by simp at hf; omega)]
        rfl

/-! ## the printed message reads back -/

theorem not_from_prefix (k X : Bytes) (hk : ∀ c ∈ k, c ≠ 58 ∧ isspace c = false) :
    ([70, 114, 111, 109, 32] : Bytes).isPrefixOf (k ++ 58 :: X) = false := by
  have h32 : ∀ c ∈ k, c ≠ 32 := by
    intro c hc e
    have := (hk c hc).2
    rw [e] at this
    revert this; decide
  rcases k with _ | ⟨a, _ | ⟨b, _ | ⟨c, _ | ⟨d, _ | ⟨e, k⟩⟩⟩⟩⟩ <;>
    simp only [List.nil_append, List.cons_append, List.isPrefixOf, Bool.and_eq_false_iff, beq_eq_false_iff_ne,
      ne_eq, Bool.and_true]
  · left; decide
  · right; left; decide
  · right; right; left; decide
  · right; right; right; left; decide
  · right; right; right; right; decide
  · -- five or more bytes: the fifth is not a space
    right; right; right; right
    exact fun h => h32 e (by simp) h.symm

theorem dropFromLine_renderF (fs : List (Bytes × Bytes)) (b : Bytes)
    (hfs : ∀ f ∈ fs, KeyOk f.1 ∧ ValOk f.2) :
    Spec.dropFromLine (renderF fs b) = renderF fs b := by
  unfold Spec.dropFromLine
  have : ([70, 114, 111, 109, 32] : Bytes).isPrefixOf (renderF fs b) = false := by
    cases fs with
    | nil => simp [renderF, List.isPrefixOf]
    | cons f fs =>
      obtain ⟨k, v⟩ := f
      have hk := (hfs (k, v) (by simp)).1
      have : renderF ((k, v) :: fs) b = k ++ 58 :: (32 :: v ++ [10] ++
          (fs.flatMap fun f => f.1 ++ [58, 32] ++ f.2 ++ [10]) ++ [10] ++ b) := by
        simp [renderF]
      rw [this]
      exact not_from_prefix k _ (fun c hc => ⟨(hk c hc).1, (hk c hc).2.1⟩)
  rw [this]
  simp

theorem read_renderF (fs : List (Bytes × Bytes)) (b : Bytes)
    (hfs : ∀ f ∈ fs, KeyOk f.1 ∧ ValOk f.2) (hb0 : ∀ c ∈ b, c ≠ 0)
    (hb : ∀ c, b.head? = some c → c ≠ 10) :
    Spec.read (renderF fs b) = some (fs, b) := by
  obtain ⟨ls, h1, h2, -, h4⟩ := fields_lines fs hfs
  have hnul : (renderF fs b).contains 0 = false := by
    rw [List.contains_eq_mem, decide_eq_false_iff_not]
    intro hm
    simp only [renderF, List.mem_append, List.mem_flatMap, List.mem_cons, List.not_mem_nil,
      or_false] at hm
    rcases hm with (⟨f, hf, hm⟩ | hm) | hm
    · obtain ⟨hk, hv, -⟩ := hfs f hf
      rcases hm with ((hm | hm) | hm) | hm
      · exact (hk 0 hm).2.2 rfl
      · rcases hm with hm | hm <;> revert hm <;> decide
      · exact hv 0 hm rfl
      · revert hm; decide
    · revert hm; decide
    · exact hb0 0 hm rfl
  have htext : renderF fs b = flat ls ++ 10 :: b := by
    unfold renderF; rw [h2]; simp
  unfold Spec.read
  rw [hnul, dropFromLine_renderF fs b hfs, htext, splitHB_flat ls b h1]
  simp only [Bool.false_eq_true, if_false]
  rw [h4 (ls.length + 1) (by omega)]
  split
  · rename_i r
    exact absurd rfl (hb 10 rfl)
  · rfl

/-! ## the fields of a well-formed message are well-formed -/

theorem dropFromLine_subset (m : Bytes) : ∀ c ∈ Spec.dropFromLine m, c ∈ m := by
  unfold Spec.dropFromLine
  intro c hc
  split at hc
  · split at hc
    · exact hc
    · rename_i x r hd
      have : c ∈ m.dropWhile (fun c => c != 10) := by rw [hd]; simp [hc]
      exact (List.dropWhile_sublist _).subset this
  · exact hc

theorem mem_flat {c : UInt8} {l : Bytes} {ls : List Bytes} (hl : l ∈ ls) (hc : c ∈ l) : c ∈ flat ls := by
  unfold flat
  rw [List.mem_flatMap]
  exact ⟨l, hl, by simp [hc]⟩

theorem groupFields_ok (fuel : Nat) (ls : List Bytes) (fs : List (Bytes × Bytes))
    (hg : Spec.groupFields fuel ls = some fs)
    (hls : ∀ l ∈ ls, (10 : UInt8) ∉ l ∧ ∀ c ∈ l, c ≠ 0) :
    ∀ f ∈ fs, KeyOk f.1 ∧ ValOk f.2 := by
  induction fuel generalizing ls fs with
  | zero => simp [Spec.groupFields] at hg
  | succ fuel ih =>
    cases ls with
    | nil =>
      simp only [Spec.groupFields, Option.some.injEq] at hg
      subst hg; simp
    | cons l ls' =>
      rw [Spec.groupFields] at hg
      cases hsl : Spec.startLine l with
      | none => rw [hsl] at hg; simp at hg
      | some nv =>
        obtain ⟨nm, v0⟩ := nv
        rw [hsl] at hg
        simp only [Option.map_eq_some_iff] at hg
        obtain ⟨fs', hg', rfl⟩ := hg
        obtain ⟨l', rfl, hn, rfl⟩ := startLine_spec l nm v0 hsl
        have hl := hls _ (List.mem_cons_self)
        intro f hf
        rcases List.mem_cons.mp hf with rfl | hf
        · constructor
          · intro c hc
            exact ⟨(hn c hc).1, (hn c hc).2, hl.2 c (by simp [hc])⟩
          · have hsub : ∀ c ∈ l'.dropWhile isblank, c ∈ l' :=
              fun c hc => (List.dropWhile_sublist _).subset hc
            constructor
            · intro c hc
              simp only [List.mem_append, List.mem_flatMap, List.mem_cons] at hc
              rcases hc with hc | ⟨ct, hct, hc⟩
              · exact hl.2 c (by simp [hsub c hc])
              · rcases hc with rfl | hc
                · decide
                · exact (hls ct (by simp [(List.takeWhile_sublist _).subset hct])).2 c hc
            · refine ⟨l'.dropWhile isblank, ls'.takeWhile Spec.isCont, rfl, ?_, ?_, ?_⟩
              · intro hm
                exact hl.1 (by simp [hsub _ hm])
              · intro c hc
                cases hd : l'.dropWhile isblank with
                | nil => rw [hd] at hc; simp at hc
                | cons x r =>
                  have := List.head_dropWhile_not isblank (l := l') (by rw [hd]; simp)
                  simp only [hd, List.head_cons] at this
                  rw [hd] at hc
                  simp only [List.head?_cons, Option.some.injEq] at hc
                  subst hc; exact this
              · intro c hc
                exact ⟨mem_takeWhile_imp' hc,
                  (hls c (by simp [(List.takeWhile_sublist _).subset hc])).1⟩
        · exact ih _ fs' hg' (fun l hl' =>
            hls l (by simp [(List.dropWhile_sublist _).subset hl'])) f hf

theorem read_fields_ok (m : Bytes) (fs : List (Bytes × Bytes)) (b : Bytes)
    (h : Spec.read m = some (fs, b)) :
    (∀ f ∈ fs, KeyOk f.1 ∧ ValOk f.2) ∧ (∀ c ∈ b, c ≠ 0) ∧ (∀ c, b.head? = some c → c ≠ 10) := by
  obtain ⟨hnul, hb, ls, hls, htext, hg⟩ := read_spec m fs b h
  have hall : ∀ c ∈ flat ls ++ 10 :: b, c ≠ 0 := by
    intro c hc
    rw [← htext] at hc
    exact hnul c (dropFromLine_subset m c hc)
  refine ⟨?_, fun c hc => hall c (by simp [hc]), hb⟩
  apply groupFields_ok _ ls fs hg
  intro l hl
  exact ⟨(hls l hl).2, fun c hc => hall c (by simp [mem_flat hl hc])⟩

end Mdsort.Proofs
