import Mdsort.Proofs.Interp
import Mdsort.Proofs.EvalList
import Mdsort.Proofs.WorldOwnBasic
import Mdsort.Spec.Captures

/-!
Helper lemmas for C12 / C13: captured texts are exact slices of the subject, back-references are
local to a rule, substituted text is not rescanned, and a failed interpolation has no effect.
-/

namespace Mdsort.Proofs
open Mdsort Mdsort.Model

/-! ## case folding -/

theorem toupper_tolower (c : UInt8) : toupper (tolower c) = toupper c := by
  have h65 : (65 : UInt8).toNat = 65 := rfl
  have h90 : (90 : UInt8).toNat = 90 := rfl
  have h97 : (97 : UInt8).toNat = 97 := rfl
  have h122 : (122 : UInt8).toNat = 122 := rfl
  have h32 : (32 : UInt8).toNat = 32 := rfl
  by_cases hu : isupper c = true
  · have hu' := hu
    simp only [isupper, Bool.and_eq_true, decide_eq_true_eq, UInt8.le_iff_toNat_le, h65, h90] at hu'
    have hl : islower c = false := by
      simp only [islower, Bool.and_eq_false_iff, decide_eq_false_iff_not, UInt8.le_iff_toNat_le, h97, h122]
      omega
    have hl2 : islower (c + 32) = true := by
      simp only [islower, Bool.and_eq_true, decide_eq_true_eq, UInt8.le_iff_toNat_le, h97, h122,
        UInt8.toNat_add, h32]
      omega
    simp only [tolower, toupper, hu, hl, hl2, if_true, Bool.false_eq_true, if_false]
    apply UInt8.toNat_inj.mp
    simp only [UInt8.toNat_sub, UInt8.toNat_add, h32]
    omega
  · simp [tolower, hu]

/-- The two loops of `match_copy` on one byte are the specified folding - also when both flags
are set (which no accepted configuration produces). -/
theorem fold_eq (p : Pat) (c : UInt8) :
    (if p.ucase then toupper (if p.lcase then tolower c else c) else (if p.lcase then tolower c else c))
      = Spec.caseFold p.lcase p.ucase c := by
  unfold Spec.caseFold
  cases p.ucase <;> cases p.lcase <;> simp [toupper_tolower]

/-! ## a slice, index by index -/

theorem take_drop_eq_range (s : Bytes) (so : Nat) : ∀ n : Nat,
    (s.drop so).take n = (List.range n).filterMap fun j => s[so + j]? := by
  intro n
  induction n with
  | zero => simp
  | succ n ih =>
    rw [List.take_add_one, List.range_succ, List.filterMap_append, ih, List.getElem?_drop]
    cases h : s[so + n]? <;> simp [h]

theorem filterMap_map_opt {α β γ} (f : α → Option β) (g : β → γ) (l : List α) :
    (l.filterMap f).map g = l.filterMap fun a => (f a).map g := by
  induction l with
  | nil => rfl
  | cons a l ih =>
    simp only [List.filterMap_cons]
    cases f a <;> simp [ih]

theorem matchCopy_sub (p : Pat) (subject : Bytes) (so eo : Nat) :
    (let t := (subject.drop so).take (eo - so)
     let t1 := if p.lcase then t.map tolower else t
     if p.ucase then t1.map toupper else t1) = Spec.capText p.lcase p.ucase subject so eo := by
  unfold Spec.capText
  have h : ∀ t : Bytes, (let t1 := if p.lcase then t.map tolower else t
      if p.ucase then t1.map toupper else t1) = t.map (Spec.caseFold p.lcase p.ucase) := by
    intro t
    have : Spec.caseFold p.lcase p.ucase = fun c =>
        (if p.ucase then toupper (if p.lcase then tolower c else c) else (if p.lcase then tolower c else c)) := by
      funext c; exact (fold_eq p c).symm
    rw [this]
    cases p.ucase <;> cases p.lcase <;> simp
  dsimp only at h ⊢
  rw [h, take_drop_eq_range, filterMap_map_opt]

/-- `match_copy` computes, group by group, the specified capture. -/
theorem matchCopy_eq (p : Pat) (subject : Bytes) (groups : List (Option (Nat × Nat))) :
    matchCopy p subject groups =
      groups.map fun g => { str := Spec.capture p.lcase p.ucase subject g, off := g } := by
  unfold matchCopy
  apply List.map_congr_left
  intro g _
  cases g with
  | none => rfl
  | some se =>
    obtain ⟨so, eo⟩ := se
    simp only [Spec.capture]
    have := matchCopy_sub p subject so eo
    dsimp only at this
    rw [this]

/-- For offsets inside the subject the capture is the middle part of the subject, folded. -/
theorem capText_split (l u : Bool) (a m b : Bytes) :
    Spec.capText l u (a ++ m ++ b) a.length (a.length + m.length) = m.map (Spec.caseFold l u) := by
  unfold Spec.capText
  rw [← filterMap_map_opt (fun j => (a ++ m ++ b)[a.length + j]?), ← take_drop_eq_range]
  simp

theorem capText_length_le (l u : Bool) (s : Bytes) (so eo : Nat) : (Spec.capText l u s so eo).length ≤ eo - so := by
  unfold Spec.capText
  exact Nat.le_trans (List.length_filterMap_le _ _) (by simp)

theorem capText_none (s : Bytes) (so eo : Nat) : Spec.capText false false s so eo = (s.drop so).take (eo - so) := by
  unfold Spec.capText
  rw [take_drop_eq_range]
  congr 1
  funext j
  cases s[so + j]? <;> simp [Spec.caseFold]

/-! ## `expr_regexec`: the entry a matching pattern leaves in the match list -/

/-- The entry appended by `expr_regexec` for a header / body / date pattern that matched. -/
def rxEntry (env : Env) (ty : MType) (lno part : Nat) (p : Pat) (key val : Bytes)
    (groups : List (Option (Nat × Nat))) : Match :=
  { ty := ty, lno := lno, part := part, pat := some p,
    subs := groups.map fun g => { str := Spec.capture p.lcase p.ucase val g, off := g },
    key := if env.dryrun then some key else none,
    val := if env.dryrun then some val else none }

theorem exprRegexec_ok (env : Env) (ty : MType) (lno part : Nat) (p : Pat) (key val : Bytes) (st : St)
    (groups : List (Option (Nat × Nat))) (hty : ty = .header ∨ ty = .body ∨ ty = .date)
    (hrx : env.rx p val = .ok groups) :
    exprRegexec env ty lno part p key val st =
      (.match, { st with ml := st.ml ++ [rxEntry env ty lno part p key val groups] }) := by
  have hp : ty.isPath = false := by rcases hty with h | h | h <;> subst h <;> decide
  have hmf : isMF ty = false := by rcases hty with h | h | h <;> subst h <;> decide
  unfold exprRegexec
  simp only [hrx]
  rw [matchesAppend_plain env st.ml _ hp hmf, matchCopy_eq]
  cases hd : env.dryrun <;> simp [rxEntry, hd]

/-! ## back-references are local to a rule -/

theorem findIdx?_reverse_split (pre entries : MatchList) (s : Match) (hs : s.ty = .mtch)
    (hent : ∀ m ∈ entries, m.ty ≠ .mtch) :
    (pre ++ s :: entries).reverse.findIdx? (·.ty == .mtch) = some entries.length := by
  have h1 : (pre ++ s :: entries).reverse = entries.reverse ++ s :: pre.reverse := by simp
  have h2 : entries.reverse.findIdx? (·.ty == .mtch) = none := by
    rw [List.findIdx?_eq_none_iff]
    intro x hx
    simpa using hent x (List.mem_reverse.mp hx)
  rw [h1, List.findIdx?_append, h2]
  simp [List.findIdx?_cons, hs]

/-- The captures an entry can refer to are those recorded after the LAST `match` sentinel before
it: whatever precedes that sentinel (other rules) plays no role. -/
theorem ruleCaps_split (pre entries : MatchList) (s : Match) (hs : s.ty = .mtch)
    (hent : ∀ m ∈ entries, m.ty ≠ .mtch) :
    ruleCaps (pre ++ s :: entries) = (entries.filter (·.ty.isInterp)).map fun m => m.subs.map (·.str) := by
  unfold ruleCaps
  rw [findIdx?_reverse_split pre entries s hs hent]
  have h1 : (pre ++ s :: entries).reverse = entries.reverse ++ s :: pre.reverse := by simp
  have h2 : ((pre ++ s :: entries).reverse.take entries.length).reverse = entries := by
    rw [h1, List.take_left' (by simp), List.reverse_reverse]
  simp only [h2]

theorem matchBackref_split (pre entries : MatchList) (s : Match) (hs : s.ty = .mtch)
    (hent : ∀ m ∈ entries, m.ty ≠ .mtch) (br : Backref) :
    matchBackref (pre ++ s :: entries) br =
      ((entries.filter (·.ty.isInterp))[br.mi]?).bind fun m => (m.subs[br.si]?).map (·.str) := by
  rw [matchBackref_eq, ruleCaps_split pre entries s hs hent, List.getElem?_map]
  cases (entries.filter (·.ty.isInterp))[br.mi]? with
  | none => rfl
  | some m => simp [List.getElem?_map]

/-- Without a sentinel there is nothing to refer to. -/
theorem matchBackref_no_sentinel (before : MatchList) (h : ∀ m ∈ before, m.ty ≠ .mtch) (br : Backref) :
    matchBackref before br = none := by
  have : before.reverse.findIdx? (·.ty == .mtch) = none := by
    rw [List.findIdx?_eq_none_iff]
    intro x hx
    simpa using h x (List.mem_reverse.mp hx)
  rw [matchBackref_eq]
  unfold ruleCaps
  simp [this]

/-- Every match list is of one of the two shapes above. -/
theorem sentinel_cases (before : MatchList) :
    (∀ m ∈ before, m.ty ≠ .mtch) ∨
    ∃ pre s entries, before = pre ++ s :: entries ∧ s.ty = .mtch ∧ ∀ m ∈ entries, m.ty ≠ .mtch := by
  induction before with
  | nil => left; simp
  | cons x rest ih =>
    rcases ih with h | ⟨pre, s, entries, rfl, hs, he⟩
    · by_cases hx : x.ty = .mtch
      · right; exact ⟨[], x, rest, rfl, hx, h⟩
      · left
        intro m hm
        rcases List.mem_cons.mp hm with rfl | hm
        · exact hx
        · exact h m hm
    · right; exact ⟨x :: pre, s, entries, rfl, hs, he⟩

/-! ## what a back-reference depends on: the types and the captures of the preceding entries -/

def capKey (m : Match) : MType × List Sub := (m.ty, m.subs)

def capsOfKeys (ks : List (MType × List Sub)) : List (List Bytes) :=
  match ks.reverse.findIdx? (·.1 == .mtch) with
  | none => []
  | some k => (((ks.reverse.take k).reverse).filter (·.1.isInterp)).map fun m => m.2.map (·.str)

theorem ruleCaps_eq_keys (b : MatchList) : ruleCaps b = capsOfKeys (b.map capKey) := by
  unfold ruleCaps capsOfKeys
  rw [← List.map_reverse, List.findIdx?_map]
  have hc : ((fun x : MType × List Sub => x.1 == MType.mtch) ∘ capKey) = fun m : Match => m.ty == .mtch := rfl
  rw [hc]
  cases b.reverse.findIdx? (fun m => m.ty == .mtch) with
  | none => rfl
  | some k =>
    simp only [← List.map_take, ← List.map_reverse, List.filter_map, List.map_map]
    rfl

theorem matchBackref_congr (b1 b2 : MatchList) (h : b1.map capKey = b2.map capKey) (br : Backref) :
    matchBackref b1 br = matchBackref b2 br := by
  rw [matchBackref_eq, matchBackref_eq, ruleCaps_eq_keys, ruleCaps_eq_keys, h]

theorem interpolate_go_congr (b1 b2 : MatchList) (macros : Option (List (Bytes × Bytes)))
    (h : ∀ br, matchBackref b1 br = matchBackref b2 br) :
    ∀ (fuel : Nat) (s out : Bytes), interpolate.go b1 macros fuel s out = interpolate.go b2 macros fuel s out := by
  intro fuel
  induction fuel with
  | zero => intro s out; rfl
  | succ f ih =>
    intro s out
    cases s with
    | nil => rfl
    | cons c r =>
      rw [interpolate.go, interpolate.go]
      simp only [h, ih]

/-- Interpolation sees the preceding entries only through their types and captures: rewriting an
earlier entry's path or argument vector (which is what interpolating it does) changes nothing. -/
theorem interpolate_congr (b1 b2 : MatchList) (macros : Option (List (Bytes × Bytes)))
    (h : b1.map capKey = b2.map capKey) (t : Bytes) : interpolate b1 macros t = interpolate b2 macros t := by
  unfold interpolate
  exact interpolate_go_congr b1 b2 macros (matchBackref_congr b1 b2 h) _ _ _

/-! ## single pass: literal runs and one back-reference -/

/-- No byte that could start a back-reference or a macro. -/
def Plain (s : Bytes) : Prop := ∀ c ∈ s, c ≠ 92 ∧ c ≠ 36

instance (s : Bytes) : Decidable (Plain s) := by unfold Plain; infer_instance

theorem go_nil (before : MatchList) (macros : Option (List (Bytes × Bytes))) (fuel : Nat) (out : Bytes) :
    interpolate.go before macros fuel [] out = some out := by
  cases fuel <;> rfl

theorem go_lit_step (before : MatchList) (macros : Option (List (Bytes × Bytes))) (f : Nat) (c : UInt8)
    (r out : Bytes) (h1 : c ≠ 92) (h2 : c ≠ 36) :
    interpolate.go before macros (f + 1) (c :: r) out = interpolate.go before macros f r (out ++ [c]) := by
  rw [interpolate.go]
  simp only [isBackref_ne c r h1, isMacro_ne c r h2]

theorem go_ref_some (before : MatchList) (macros : Option (List (Bytes × Bytes))) (f : Nat) (c : UInt8)
    (r out : Bytes) (n : Nat) (br : Backref) (sub : Bytes) (hB : isBackref (c :: r) = .inl (n, br))
    (hm : matchBackref before br = some sub) :
    interpolate.go before macros (f + 1) (c :: r) out =
      interpolate.go before macros f ((c :: r).drop n) (out ++ cstr sub) := by
  rw [interpolate.go]
  simp only [hB, hm]

theorem go_ref_none (before : MatchList) (macros : Option (List (Bytes × Bytes))) (f : Nat) (c : UInt8)
    (r out : Bytes) (n : Nat) (br : Backref) (hB : isBackref (c :: r) = .inl (n, br))
    (hm : matchBackref before br = none) :
    interpolate.go before macros (f + 1) (c :: r) out = none := by
  rw [interpolate.go]
  simp only [hB, hm]

private theorem takeWhile_all {α} (p : α → Bool) : ∀ (l : List α), (∀ x ∈ l, p x = true) → l.takeWhile p = l := by
  intro l
  induction l with
  | nil => intro _; rfl
  | cons a l ih =>
    intro h
    rw [List.takeWhile_cons, h a (by simp), if_pos rfl, ih (fun x hx => h x (by simp [hx]))]

theorem go_plain (before : MatchList) (macros : Option (List (Bytes × Bytes))) :
    ∀ (lit rest : Bytes) (fuel : Nat) (out : Bytes), Plain lit → lit.length ≤ fuel →
      interpolate.go before macros fuel (lit ++ rest) out =
        interpolate.go before macros (fuel - lit.length) rest (out ++ lit) := by
  intro lit
  induction lit with
  | nil => intro rest fuel out _ _; simp
  | cons c l ih =>
    intro rest fuel out hp hl
    cases fuel with
    | zero => simp at hl
    | succ f =>
      have hc := hp c (by simp)
      have hl' : Plain l := fun x hx => hp x (by simp [hx])
      simp only [List.length_cons] at hl
      rw [List.cons_append, go_lit_step _ _ _ _ _ _ hc.1 hc.2, ih rest f _ hl' (by omega)]
      simp only [List.length_cons, Nat.add_sub_add_right, List.append_assoc, List.singleton_append]

/-- A template without `\` and `$` stands for itself: blanks, quotes, `*` are ordinary bytes. -/
theorem interpolate_plain (before : MatchList) (macros : Option (List (Bytes × Bytes))) (t : Bytes)
    (h : Plain t) : interpolate before macros t = some t := by
  unfold interpolate
  have := go_plain before macros t [] t.length [] h (Nat.le_refl _)
  rw [List.append_nil] at this
  rw [this, go_nil]
  simp

/-- What may follow `\1` so that it is the back-reference `\1` and nothing more: not a digit
(`\12`), not a dot (`\1.5`), not a backslash (`\1\.`). -/
def CleanStart (s : Bytes) : Prop := ∀ c, s.head? = some c → isdigit c = false ∧ c ≠ 46 ∧ c ≠ 92

instance (s : Bytes) : Decidable (CleanStart s) := by
  unfold CleanStart
  cases s with
  | nil => exact isTrue (by simp)
  | cons c r =>
    exact decidable_of_iff (isdigit c = false ∧ c ≠ 46 ∧ c ≠ 92) (by simp)

theorem isBackref_one (lit2 : Bytes) (h : CleanStart lit2) :
    isBackref (92 :: 49 :: lit2) = .inl (2, ⟨0, 1⟩) := by
  have hd : isdigit 49 = true := by decide
  cases lit2 with
  | nil => decide
  | cons c r =>
    obtain ⟨hdig, h46, h92⟩ := h c rfl
    obtain ⟨k, hk, hdrop, hst⟩ := strtoul_digit 49 (c :: r) hd
    have hin : Spec.inumber (49 :: c :: r) 0 = (1, c :: r) := by
      simp [Spec.inumber, hd, hdig]
    rw [hin] at hdrop hst
    have hk1 : k = 1 := by
      have := congrArg List.length hdrop
      simp only [List.length_drop, List.length_cons] at this
      omega
    subst hk1
    have hst' : strtoul (49 :: c :: r) = (some 1, 1) := by rw [hst]; rfl
    unfold isBackref
    simp only [hd, Bool.not_true, Bool.false_eq_true, if_false, List.drop_succ_cons, List.drop_zero, hst']
    split
    · rename_i heq; cases heq; exact absurd rfl h46
    · rename_i heq; cases heq; exact absurd rfl h92
    · rfl

/-- The substituted text is appended and the scan continues BEHIND the back-reference in the
template: whatever the captured text contains (`\2`, `${path}`, `${`), it is never looked at. -/
theorem interpolate_one_ref (before : MatchList) (macros : Option (List (Bytes × Bytes))) (lit1 lit2 cap1 : Bytes)
    (h1 : Plain lit1) (h2 : Plain lit2) (hc : CleanStart lit2) (hm : matchBackref before ⟨0, 1⟩ = some cap1) :
    interpolate before macros (lit1 ++ [92, 49] ++ lit2) = some (lit1 ++ cstr cap1 ++ lit2) := by
  have e : lit1 ++ [92, 49] ++ lit2 = lit1 ++ (92 :: 49 :: lit2) := by simp
  unfold interpolate
  rw [e, go_plain before macros lit1 _ _ [] h1 (by simp)]
  have hf : (lit1 ++ 92 :: 49 :: lit2).length - lit1.length = (lit2.length + 1) + 1 := by
    simp only [List.length_append, List.length_cons]; omega
  rw [hf, go_ref_some before macros _ 92 (49 :: lit2) _ 2 ⟨0, 1⟩ cap1 (isBackref_one lit2 hc) hm]
  simp only [List.drop_succ_cons, List.drop_zero, List.nil_append]
  have := go_plain before macros lit2 [] (lit2.length + 1) (lit1 ++ cstr cap1) h2 (by omega)
  rw [List.append_nil] at this
  rw [this, go_nil]

/-- A reference to a group that does not exist makes the whole template an error. -/
theorem interpolate_missing_group (before : MatchList) (macros : Option (List (Bytes × Bytes))) (lit1 lit2 : Bytes)
    (h1 : Plain lit1) (hc : CleanStart lit2) (hm : matchBackref before ⟨0, 1⟩ = none) :
    interpolate before macros (lit1 ++ [92, 49] ++ lit2) = none := by
  have e : lit1 ++ [92, 49] ++ lit2 = lit1 ++ (92 :: 49 :: lit2) := by simp
  unfold interpolate
  rw [e, go_plain before macros lit1 _ _ [] h1 (by simp)]
  have hf : (lit1 ++ 92 :: 49 :: lit2).length - lit1.length = (lit2.length + 1) + 1 := by
    simp only [List.length_append, List.length_cons]; omega
  rw [hf, go_ref_none before macros _ 92 (49 :: lit2) _ 2 ⟨0, 1⟩ (isBackref_one lit2 hc) hm]

theorem isBackref_dollar (r : Bytes) : isBackref (36 :: r) = .inr false := isBackref_ne 36 r (by decide)

/-- `${` without a closing brace is an error wherever it stands. -/
theorem interpolate_unterminated (before : MatchList) (macros : Option (List (Bytes × Bytes))) (lit1 r : Bytes)
    (h1 : Plain lit1) (hr : ∀ c ∈ r, c ≠ 125) :
    interpolate before macros (lit1 ++ [36, 123] ++ r) = none := by
  have e : lit1 ++ [36, 123] ++ r = lit1 ++ (36 :: 123 :: r) := by simp
  unfold interpolate
  rw [e, go_plain before macros lit1 _ _ [] h1 (by simp)]
  have hf : (lit1 ++ 36 :: 123 :: r).length - lit1.length = (r.length + 1) + 1 := by
    simp only [List.length_append, List.length_cons]; omega
  have htw : (r.takeWhile (· != 125)) = r := by
    apply takeWhile_all
    intro c hc'
    simpa using hr c hc'
  have hM : isMacro (36 :: 123 :: r) = .inr true := by
    simp [isMacro, htw]
  rw [hf, interpolate.go]
  simp only [isBackref_dollar, hM]

/-- A macro that is not in the table (or any macro where there is no table) is an error. -/
theorem interpolate_unknown_macro (before : MatchList) (macros : Option (List (Bytes × Bytes))) (lit1 name rest : Bytes)
    (h1 : Plain lit1) (hn : ∀ c ∈ name, c ≠ 125)
    (hm : ∀ ms, macros = some ms → ms.find? (·.1 == name) = none) :
    interpolate before macros (lit1 ++ [36, 123] ++ name ++ [125] ++ rest) = none := by
  have e : lit1 ++ [36, 123] ++ name ++ [125] ++ rest = lit1 ++ (36 :: 123 :: (name ++ 125 :: rest)) := by simp
  unfold interpolate
  rw [e, go_plain before macros lit1 _ _ [] h1 (by simp)]
  have hf : (lit1 ++ 36 :: 123 :: (name ++ 125 :: rest)).length - lit1.length = (name.length + rest.length + 2) + 1 := by
    simp only [List.length_append, List.length_cons]; omega
  have htw : ∀ (nm : Bytes), (∀ c ∈ nm, c ≠ 125) → ((nm ++ 125 :: rest).takeWhile (· != 125)) = nm := by
    intro nm
    induction nm with
    | nil => intro _; simp
    | cons c l ih =>
      intro h
      have hc : c ≠ 125 := h c (by simp)
      simp [hc, ih (fun x hx => h x (by simp [hx]))]
  have hM : isMacro (36 :: 123 :: (name ++ 125 :: rest)) = .inl (name.length + 3, name) := by
    simp [isMacro, htw name hn]
  rw [hf, interpolate.go]
  simp only [isBackref_dollar, hM]
  cases macros with
  | none => rfl
  | some ms => simp only [hm ms rfl]

/-! ## a failing template makes `matches_interpolate` fail -/

/-- The templates `match_interpolate` expands for an entry. -/
def templates (mh : Match) : List Bytes :=
  match mh.ty with
  | .stat | .move => [mh.path]
  | .label | .command | .exec => mh.strings
  | .addHeader => [mh.hval]
  | _ => []

theorem mapM_none_of_mem {α β} (f : α → Option β) : ∀ (l : List α) (t : α), t ∈ l → f t = none → l.mapM f = none := by
  intro l
  induction l with
  | nil => intro t h; simp at h
  | cons a l ih =>
    intro t ht hf
    rw [List.mapM_cons]
    rcases List.mem_cons.mp ht with rfl | ht
    · simp [hf]
    · cases f a with
      | none => rfl
      | some b => simp [ih t ht hf]

theorem add_none (macros : Option (List (Bytes × Bytes))) (before : MatchList) :
    ∀ (ss : List Bytes) (buf t : Bytes), t ∈ ss → interpolate before macros t = none →
      matchInterpolate.add macros before ss buf = none := by
  intro ss
  induction ss with
  | nil => intro _ _ h; simp at h
  | cons s r ih =>
    intro buf t ht hf
    simp only [matchInterpolate.add]
    rcases List.mem_cons.mp ht with rfl | ht
    · simp only [hf]
    · cases interpolate before macros s with
      | none => rfl
      | some v => exact ih _ t ht hf

/-- If one template of an entry cannot be interpolated, the entry cannot. -/
theorem matchInterpolate_none (macros : Option (List (Bytes × Bytes))) (ml : MatchList) (i : Nat) (mh : Match)
    (msgs : Nat → Msg) (t : Bytes) (ht : t ∈ templates mh) (hf : interpolate (ml.take i) macros t = none) :
    matchInterpolate macros ml i mh msgs = none := by
  unfold templates at ht
  unfold matchInterpolate
  dsimp only
  cases hty : mh.ty <;> simp only [hty] at ht ⊢ <;>
    first
    | (exfalso; simp at ht; done)
    | (simp only [List.mem_singleton] at ht; subst ht; simp only [hf])
    | (rw [add_none macros _ _ _ t ht hf])
    | (rw [mapM_none_of_mem _ _ t ht hf]; rfl)

/-- Interpolating an entry leaves its type and captures alone. -/
theorem matchInterpolate_key (macros : Option (List (Bytes × Bytes))) (ml : MatchList) (i : Nat) (mh mh' : Match)
    (msgs : Nat → Msg) (upd : Option (Nat × Msg)) (h : matchInterpolate macros ml i mh msgs = some (mh', upd)) :
    capKey mh' = capKey mh := by
  unfold matchInterpolate at h
  dsimp only at h
  cases hty : mh.ty <;> simp only [hty] at h <;>
    first
    | (simp only [Option.some.injEq, Prod.mk.injEq] at h; obtain ⟨rfl, -⟩ := h; rfl)
    | (simp only [Option.map_eq_some_iff, Prod.mk.injEq] at h; obtain ⟨_, _, rfl, -⟩ := h; simp only [capKey, hty])
    | (split at h
       · cases h
       · first
         | (simp only [Option.map_eq_some_iff, Prod.mk.injEq] at h; obtain ⟨_, _, rfl, -⟩ := h; simp only [capKey, hty])
         | (simp only [Option.some.injEq, Prod.mk.injEq] at h; obtain ⟨rfl, -⟩ := h; rfl))

theorem matchesInterpolate_go_none (macros : Option (List (Bytes × Bytes))) (ml : MatchList) :
    ∀ (rest : MatchList) (i : Nat) (cur : MatchList) (msgs : Nat → Msg),
      rest = ml.drop i → cur.map capKey = ml.map capKey →
      ∀ (j : Nat) (mh : Match) (t : Bytes), rest[j]? = some mh → t ∈ templates mh →
        interpolate (ml.take (i + j)) macros t = none →
        matchesInterpolate.go macros i rest cur msgs = none := by
  intro rest
  induction rest with
  | nil => intro i cur msgs _ _ j mh t hj; simp at hj
  | cons m0 more ih =>
    intro i cur msgs hrest hkey j mh t hj ht hf
    rw [matchesInterpolate.go]
    have hcur : ∀ t', interpolate (cur.take i) macros t' = interpolate (ml.take i) macros t' := fun t' =>
      interpolate_congr _ _ macros (by rw [List.map_take, List.map_take, hkey]) t'
    cases j with
    | zero =>
      simp only [List.getElem?_cons_zero, Option.some.injEq] at hj
      subst hj
      rw [matchInterpolate_none macros cur i m0 msgs t ht (by rw [hcur]; simpa using hf)]
    | succ j =>
      simp only [List.getElem?_cons_succ] at hj
      cases hmi : matchInterpolate macros cur i m0 msgs with
      | none => rfl
      | some r =>
        obtain ⟨mh', upd⟩ := r
        dsimp only
        have hdrop : ml.drop i = m0 :: more := hrest.symm
        have hi : ml[i]? = some m0 := by
          have := List.getElem?_drop (xs := ml) (i := i) (j := 0)
          rw [hdrop] at this
          simpa using this.symm
        refine ih (i + 1) _ _ ?_ ?_ j mh t hj ht (by rw [show i + 1 + j = i + (j + 1) by omega]; exact hf)
        · rw [← List.tail_drop, hdrop]; rfl
        · rw [List.map_set, matchInterpolate_key macros cur i m0 mh' msgs upd hmi, ← hkey]
          have hci : (cur.map capKey)[i]? = some (capKey m0) := by
            rw [hkey, List.getElem?_map, hi]; rfl
          obtain ⟨hlt, hget⟩ := List.getElem?_eq_some_iff.mp hci
          rw [← hget, List.set_getElem_self]

/-- `matches_interpolate` fails as soon as one template of one entry fails - in particular a
reference to a missing group, an unknown macro, an unterminated `${`. -/
theorem matchesInterpolate_none_of_template (env : Env) (ml : MatchList) (msgs : Nat → Msg) (i : Nat) (mh : Match)
    (t : Bytes) (hi : ml[i]? = some mh) (ht : t ∈ templates mh)
    (hf : interpolate (ml.take i) (some [(ofString "path", env.path)]) t = none) :
    matchesInterpolate env ml msgs = none := by
  unfold matchesInterpolate
  exact matchesInterpolate_go_none _ ml ml 0 ml msgs rfl rfl i mh t hi ht (by simpa using hf)

/-! ## argument vectors -/

theorem mapM_eq_map {α β} (f : α → Option β) (dflt : β) : ∀ (l : List α) (out : List β), l.mapM f = some out →
    out = l.map (fun a => (f a).getD dflt) ∧ ∀ a ∈ l, (f a).isSome = true := by
  intro l
  induction l with
  | nil =>
    intro out h
    simp at h
    subst h
    simp
  | cons a l ih =>
    intro out h
    simp only [List.mapM_cons, Option.bind_eq_bind, Option.pure_def, Option.bind_eq_some_iff] at h
    obtain ⟨b, hb, bs, hbs, hout⟩ := h
    simp only [Option.some.injEq] at hout
    subst hout
    obtain ⟨h1, h2⟩ := ih bs hbs
    refine ⟨by simp [hb, ← h1], ?_⟩
    intro x hx
    rcases List.mem_cons.mp hx with rfl | hx
    · simp [hb]
    · exact h2 x hx

theorem mapM_self {α} (f : α → Option α) : ∀ (l : List α), (∀ a ∈ l, f a = some a) → l.mapM f = some l := by
  intro l
  induction l with
  | nil => intro _; rfl
  | cons a l ih =>
    intro h
    rw [List.mapM_cons, h a (by simp), ih (fun x hx => h x (by simp [hx]))]
    rfl

/-- `match_interpolate` on an exec / command entry: the entry is unchanged except for its argument
vector, which is the list of interpolated strings (as C strings), one per configured string. -/
theorem argv_exact (macros : Option (List (Bytes × Bytes))) (ml : MatchList) (i : Nat) (mh mh' : Match)
    (msgs : Nat → Msg) (upd : Option (Nat × Msg)) (hty : mh.ty = .exec ∨ mh.ty = .command)
    (h : matchInterpolate macros ml i mh msgs = some (mh', upd)) :
    ∃ vs, mh.strings.mapM (interpolate (ml.take i) macros) = some vs ∧
      mh' = { mh with argv := vs.map cstr } ∧ upd = none := by
  have h' : (mh.strings.mapM (interpolate (ml.take i) macros)).map
      (fun av => (({ mh with argv := av.map cstr } : Match), (none : Option (Nat × Msg)))) = some (mh', upd) := by
    unfold matchInterpolate at h
    rcases hty with hty | hty <;> simpa only [hty] using h
  simp only [Option.map_eq_some_iff, Prod.mk.injEq] at h'
  obtain ⟨av, hav, rfl, rfl⟩ := h'
  exact ⟨av, hav, rfl, rfl⟩

/-- `argv = strings.map (cstr ∘ interpolate)`: same length, same order, nothing split or joined. -/
theorem argv_map (macros : Option (List (Bytes × Bytes))) (ml : MatchList) (i : Nat) (mh mh' : Match)
    (msgs : Nat → Msg) (upd : Option (Nat × Msg)) (hty : mh.ty = .exec ∨ mh.ty = .command)
    (h : matchInterpolate macros ml i mh msgs = some (mh', upd)) :
    mh'.argv = mh.strings.map (fun s => cstr ((interpolate (ml.take i) macros s).getD [])) ∧
    ∀ s ∈ mh.strings, (interpolate (ml.take i) macros s).isSome = true := by
  obtain ⟨vs, hvs, rfl, -⟩ := argv_exact macros ml i mh mh' msgs upd hty h
  obtain ⟨h1, h2⟩ := mapM_eq_map _ [] _ _ hvs
  refine ⟨?_, h2⟩
  simp only [h1, List.map_map]
  rfl

/-- Strings without `\`, `$` and NUL are passed on byte for byte, one argument each: blanks,
quotes and `*` have no meaning here. -/
theorem argv_plain (macros : Option (List (Bytes × Bytes))) (ml : MatchList) (i : Nat) (mh : Match)
    (msgs : Nat → Msg) (hty : mh.ty = .exec ∨ mh.ty = .command)
    (hpl : ∀ s ∈ mh.strings, Plain s ∧ (0 : UInt8) ∉ s) :
    matchInterpolate macros ml i mh msgs = some ({ mh with argv := mh.strings }, none) := by
  have hm : mh.strings.mapM (interpolate (ml.take i) macros) = some mh.strings :=
    mapM_self _ _ fun s hs => interpolate_plain _ _ s (hpl s hs).1
  have hc : mh.strings.map cstr = mh.strings := by
    have : mh.strings.map cstr = mh.strings.map id :=
      List.map_congr_left fun s hs => cstr_of_no_nul fun b hb hb0 => (hpl s hs).2 (hb0 ▸ hb)
    simpa using this
  unfold matchInterpolate
  rcases hty with hty | hty <;> simp only [hty, hm, Option.map_some, hc]

/-! ## an interpolation error has no effect on the message (`processMessage`) -/

open Mdsort.Proofs.World (Calls All bind_eq pure_eq call_bind ret_bind call_bind')

/-- The environment `processMessage` evaluates a message in (its three oracle fields are not used: `evalP` asks the
operating system). -/
def msgEnv (env : PEnv) (orc : EvalOracles) (path : Bytes) : Env :=
  { rx := orc.rx, command := fun _ => -1, isDir := fun _ => false, now := env.now,
    strptime := orc.strptime, zoneName := orc.zoneName, fileTime := fun _ => none,
    timeFormat := orc.timeFormat, dryrun := env.dryrun, path := path }

def IsClose (c : Call) : Prop := ∃ fd, c = .close fd

/-- The calls of the parse phase (and of freeing the message). -/
def ParseCall (d : Handle) (c : Call) : Prop :=
  (∃ nm, c = .openRd d nm) ∨ (∃ fd, c = .read fd) ∨ IsClose c

theorem ParseCall.quiet {d : Handle} {c : Call} (h : ParseCall d c) : c.mutating = false ∧ c.isFork = false := by
  rcases h with ⟨nm, rfl⟩ | ⟨fd, rfl⟩ | ⟨fd, rfl⟩ <;> exact ⟨rfl, rfl⟩

theorem calls_ret {α} {Q : Call → Prop} (a : α) : Calls Q (Prog.ret a) := True.intro
theorem calls_call {α} {Q : Call → Prop} {c : Call} {k : Res → Prog α} (h : Q c) (hk : ∀ r, Calls Q (k r)) :
    Calls Q (Prog.call c k) := ⟨h, hk⟩
theorem all_ret {α} {P : α → Prop} {a : α} (h : P a) : All P (Prog.ret a) := h
theorem all_call {α} {P : α → Prop} {c : Call} {k : Res → Prog α} (hk : ∀ r, All P (k r)) :
    All P (Prog.call c k) := hk

theorem calls_mono {α} {Q Q' : Call → Prop} {p : Prog α} (h : Calls Q p) (hq : ∀ c, Q c → Q' c) : Calls Q' p := by
  induction p with
  | ret a => exact True.intro
  | call c k ih => exact ⟨hq _ h.1, fun r => ih r (h.2 r)⟩

theorem calls_bind_all {α β} {Q : Call → Prop} {S : α → Prop} {p : Prog α} {f : α → Prog β}
    (hc : Calls Q p) (ha : All S p) (hf : ∀ a, S a → Calls Q (f a)) : Calls Q (p.bind f) := by
  induction p with
  | ret a => exact hf a ha
  | call c k ih => exact ⟨hc.1, fun r => ih r (hc.2 r) (ha r)⟩

theorem all_bind_all {α β} {P : β → Prop} {S : α → Prop} {p : Prog α} {f : α → Prog β}
    (ha : All S p) (hf : ∀ a, S a → All P (f a)) : All P (p.bind f) := by
  induction p with
  | ret a => exact hf a ha
  | call c k ih => exact fun r => ih r (ha r)

theorem parse_readAll (d fd : Handle) (fuel : Nat) : Calls (ParseCall d) (readAll fd fuel) := by
  induction fuel with
  | zero => exact calls_ret _
  | succ n ih =>
    unfold readAll
    simp only [bind_eq, pure_eq, call_bind]
    refine calls_call (.inr (.inl ⟨fd, rfl⟩)) fun r => ?_
    split
    · split
      · exact calls_ret _
      · exact ih
    · exact calls_ret _

theorem parse_messageParseP (d : Handle) (dir name content : Bytes) :
    Calls (ParseCall d) (messageParseP d dir name content) := by
  unfold messageParseP
  simp only [bind_eq, pure_eq, call_bind]
  refine calls_call (.inl ⟨name, rfl⟩) fun r => ?_
  split
  · rename_i fd
    refine World.Calls.bind (parse_readAll d fd _) fun failed => ?_
    repeat' (first
      | exact calls_ret _
      | (refine calls_call (.inr (.inr ⟨_, rfl⟩)) fun _ => ?_)
      | split)
  · exact calls_ret _

/-- What a successful `message_parse` returns: everything but the descriptor is determined by the
directory, the name and the content of the file. -/
def ParsedFrom (dir name content : Bytes) (pm : Option MsgSt) : Prop :=
  ∀ ms, pm = some ms → ∃ p n mf, pathjoin PATH_MAX dir name = some p ∧ strlcpyFits NAME_MAX1 name = some n ∧
    flagsParse n = some mf ∧ ms.msg = parseMessage content ∧ ms.path = p ∧ ms.flags = mf ∧
    ms.parts = (getAttachments (parseMessage content)).getD []

theorem all_messageParseP (d : Handle) (dir name content : Bytes) :
    All (ParsedFrom dir name content) (messageParseP d dir name content) := by
  unfold messageParseP
  simp only [bind_eq, pure_eq, call_bind]
  refine all_call fun r => ?_
  split
  · refine World.All.bind_of_forall _ fun failed => ?_
    split
    · exact all_call fun _ => all_ret (fun ms h => by cases h)
    · split
      · split
        · refine all_ret ?_
          intro ms h
          cases h
          exact ⟨_, _, _, by assumption, by assumption, by assumption, rfl, rfl, rfl, rfl⟩
        · exact all_call fun _ => all_ret (fun ms h => by cases h)
      · exact all_call fun _ => all_ret (fun ms h => by cases h)
  · exact all_ret (fun ms h => by cases h)

/-! ### runs against arbitrary results -/

theorem calls_runOracle_mem {α} {Q : Call → Prop} {p : Prog α} (h : Calls Q p) (orc : Nat → Call → Res) :
    ∀ (i : Nat) (tr : List (Call × Res)), ∀ x ∈ (runOracle orc p i tr).2, x ∈ tr ∨ Q x.1 := by
  induction p with
  | ret a => intro i tr x hx; exact .inl hx
  | call c k ih =>
    intro i tr x hx
    simp only [runOracle] at hx
    rcases ih _ (h.2 _) _ _ x hx with h' | h'
    · rcases List.mem_append.mp h' with h'' | h''
      · exact .inl h''
      · simp only [List.mem_singleton] at h''
        subst h''
        exact .inr h.1
    · exact .inr h'

theorem all_runOracle_val {α} {P : α → Prop} {p : Prog α} (h : All P p) (orc : Nat → Call → Res) :
    ∀ (i : Nat) (tr : List (Call × Res)), P (runOracle orc p i tr).1 := by
  induction p with
  | ret a => intro i tr; exact h
  | call c k ih => intro i tr; exact ih _ (h _) _ _

/-! ## end to end: pattern, captures, back-reference -/

/-- A rule's sentinel, then the entry of a header / body pattern that matched, then anything that
is not a sentinel (further conditions of the rule, its actions): `\N` is the N-th group of that
pattern's match - whatever precedes the sentinel. -/
theorem capture_end_to_end (env : Env) (ty : MType) (lno part : Nat) (p : Pat) (key val : Bytes) (f : MFlags)
    (groups : List (Option (Nat × Nat))) (pre post : MatchList) (s : Match) (hs : s.ty = .mtch)
    (hty : ty = .header ∨ ty = .body) (hpost : ∀ m ∈ post, m.ty ≠ .mtch)
    (hrx : env.rx p val = .ok groups) (N : Nat) :
    matchBackref ((exprRegexec env ty lno part p key val { ml := pre ++ [s], flags := f }).2.ml ++ post) ⟨0, N⟩ =
      (groups[N]?).map (Spec.capture p.lcase p.ucase val) := by
  have hty' : ty = .header ∨ ty = .body ∨ ty = .date := by rcases hty with h | h <;> simp [h]
  rw [exprRegexec_ok env ty lno part p key val _ groups hty' hrx]
  have hne : (rxEntry env ty lno part p key val groups).ty ≠ .mtch := by
    show ty ≠ .mtch
    rcases hty with h | h <;> simp [h]
  have hin : (rxEntry env ty lno part p key val groups).ty.isInterp = true := by
    show ty.isInterp = true
    rcases hty with h | h <;> subst h <;> decide
  have e : (pre ++ [s] ++ [rxEntry env ty lno part p key val groups]) ++ post =
      pre ++ s :: (rxEntry env ty lno part p key val groups :: post) := by simp
  dsimp only
  rw [e, matchBackref_split pre _ s hs (by
    intro m hm
    rcases List.mem_cons.mp hm with rfl | hm
    · exact hne
    · exact hpost m hm)]
  simp only [List.filter_cons, hin, if_true, List.getElem?_cons_zero, Option.bind_some]
  simp only [rxEntry, List.getElem?_map, Option.map_map]
  cases groups[N]? <;> rfl

/-- A concrete regex oracle for the examples: every subject matches with groups `[0,6)`, `[0,4)`
and one unset group. -/
def exampleEnv : Env :=
  { rx := fun _ _ => .ok [some (0, 6), some (0, 4), none], command := fun _ => 0, isDir := fun _ => false, now := 0,
    strptime := fun _ => none, zoneName := fun _ => none, fileTime := fun _ => none, dryrun := false, path := [] }

def examplePEnv : PEnv :=
  { now := 0, pid := 1, host := [], random := 0, tmpdir := [], home := [], confpath := [], dryrun := false,
    syntaxOnly := false, stdinMode := false }

def exampleOracles : EvalOracles :=
  { rx := fun _ _ => .nomatch, strptime := fun _ => none, zoneName := fun _ => none }

theorem matchBackref_rule_local (pre entries : MatchList) (s : Match) (hs : s.ty = .mtch)
    (hent : ∀ m ∈ entries, m.ty ≠ .mtch) (br : Backref) :
    matchBackref (pre ++ [s] ++ entries) br =
      ((entries.filter (·.ty.isInterp))[br.mi]?).bind fun m => (m.subs[br.si]?).map (·.str) := by
  rw [List.append_assoc, List.singleton_append]
  exact matchBackref_split pre entries s hs hent br

theorem matchBackref_pre_irrelevant (pre pre' entries : MatchList) (s s' : Match) (hs : s.ty = .mtch)
    (hs' : s'.ty = .mtch) (hent : ∀ m ∈ entries, m.ty ≠ .mtch) (br : Backref) :
    matchBackref (pre ++ [s] ++ entries) br = matchBackref (pre' ++ [s'] ++ entries) br := by
  rw [matchBackref_rule_local pre entries s hs hent, matchBackref_rule_local pre' entries s' hs' hent]

theorem capture_split (l u : Bool) (a m b : Bytes) :
    Spec.capture l u (a ++ m ++ b) (some (a.length, a.length + m.length)) = m.map (Spec.caseFold l u) :=
  capText_split l u a m b

theorem argv_full (macros : Option (List (Bytes × Bytes))) (ml : MatchList) (i : Nat) (mh mh' : Match)
    (msgs : Nat → Msg) (upd : Option (Nat × Msg)) (hty : mh.ty = .exec ∨ mh.ty = .command)
    (h : matchInterpolate macros ml i mh msgs = some (mh', upd)) :
    mh'.argv = mh.strings.map (fun s => cstr ((interpolate (ml.take i) macros s).getD [])) ∧
    (∀ s ∈ mh.strings, (interpolate (ml.take i) macros s).isSome = true) ∧
    mh' = { mh with argv := mh'.argv } ∧ upd = none := by
  obtain ⟨h1, h2⟩ := argv_map macros ml i mh mh' msgs upd hty h
  obtain ⟨vs, -, rfl, h3⟩ := argv_exact macros ml i mh mh' msgs upd hty h
  exact ⟨h1, h2, rfl, h3⟩

theorem argv_length (macros : Option (List (Bytes × Bytes))) (ml : MatchList) (i : Nat) (mh mh' : Match)
    (msgs : Nat → Msg) (upd : Option (Nat × Msg)) (hty : mh.ty = .exec ∨ mh.ty = .command)
    (h : matchInterpolate macros ml i mh msgs = some (mh', upd)) (k : Nat) :
    mh'.argv.length = mh.strings.length ∧
    mh'.argv[k]? = (mh.strings[k]?).map fun s => cstr ((interpolate (ml.take i) macros s).getD []) := by
  obtain ⟨h1, -⟩ := argv_map macros ml i mh mh' msgs upd hty h
  rw [h1]
  simp

end Mdsort.Proofs
