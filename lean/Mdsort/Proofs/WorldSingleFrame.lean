import Mdsort.Proofs.WorldSingleCalc

/-! Frames for the single-fault statements: what a script leaves untouched, for EVERY file and
every entry (the loss-freedom proofs track one entry only). -/

namespace Mdsort.Proofs.World
set_option linter.unusedSimpArgs false
open Mdsort Mdsort.Model

/-- The trivial invariant. -/
abbrev NoInv : World → Prop := fun _ => True

/-! ## scripts that change no directory -/

/-- Frame of a script that changes no directory, relative to the world at its start:
`S` holds of the ids of the files it may write. -/
structure Fr1 (S : Nat → Prop) (w0 w : World) : Prop where
  dirs : w.dirs = w0.dirs
  objs : ∀ h, h < w0.handles.length → w.obj h = w0.obj h
  len : w0.handles.length ≤ w.handles.length
  nextFid : w0.nextFid ≤ w.nextFid
  files : ∀ g, g < w0.nextFid → ¬ S g → w.file g = w0.file g

theorem Fr1.refl (S : Nat → Prop) (w : World) : Fr1 S w w :=
  ⟨rfl, fun _ _ => rfl, Nat.le_refl _, Nat.le_refl _, fun _ _ _ => rfl⟩

theorem Fr1.step {S : Nat → Prop} {w0 w : World} (fr : Fr1 S w0 w) (c : Call) (r : Res)
    (hd : Call.dirOp c = false) (hsub : ∀ h, Call.subject c = some h → w0.handles.length ≤ h)
    (hfs : ∀ g, g < w0.nextFid → ¬ S g → fileSafe w g c) : Fr1 S w0 (stepWorld w c r) := by
  refine ⟨?_, ?_, ?_, ?_, ?_⟩
  · simp [core_dirs w c r hd, fr.dirs]
  · intro h hh
    rw [stepWorld_obj, core_obj w c r h (Nat.lt_of_lt_of_le hh fr.len), fr.objs h hh]
    intro hs
    have := hsub h hs
    omega
  · simpa using Nat.le_trans fr.len (core_len w c r)
  · simpa using Nat.le_trans fr.nextFid (core_nextFid w c r)
  · intro g hg hS
    rw [stepWorld_file, core_file w c r g (Nat.lt_of_lt_of_le hg fr.nextFid) (hfs g hg hS), fr.files g hg hS]

theorem Fr1.trans {S : Nat → Prop} {w0 w1 w2 : World} (a : Fr1 S w0 w1) (b : Fr1 S w1 w2) : Fr1 S w0 w2 :=
  ⟨b.dirs.trans a.dirs, fun h hh => (b.objs h (Nat.lt_of_lt_of_le hh a.len)).trans (a.objs h hh),
   Nat.le_trans a.len b.len, Nat.le_trans a.nextFid b.nextFid,
   fun g hg hS => (b.files g (Nat.lt_of_lt_of_le hg a.nextFid) hS).trans (a.files g hg hS)⟩

theorem Fr1.mono {S S' : Nat → Prop} {w0 w : World} (a : Fr1 S w0 w) (h : ∀ g, S g → S' g) : Fr1 S' w0 w :=
  ⟨a.dirs, a.objs, a.len, a.nextFid, fun g hg hS => a.files g hg fun hs => hS (h g hs)⟩

/-! ## `message_write` -/

/-- State while the stream `N` on file `fid` is being written. -/
structure WSt1 (w0 : World) (N : Handle) (fid : Nat) (w : World) (f : File) (buf : Bytes) : Prop where
  fr : Fr1 (fun g => g = fid) w0 w
  obj : w.obj N = .stream fid buf
  file : w.file fid = some f

theorem WSt1.lt {w0 N fid w f buf} (s : WSt1 w0 N fid w f buf) : N < w.handles.length :=
  lt_of_obj_ne_closed w N (by simp [s.obj])

theorem WSt1.safe {w0 N fid w f buf} (s : WSt1 w0 N fid w f buf) {g : Nat} (hg : ¬ g = fid) :
    objFid (w.obj N) ≠ some g := by
  simp only [s.obj, objFid, ne_eq, Option.some.injEq]
  exact fun h => hg h.symm

theorem WSt1.err {w0 N fid w f buf} (s : WSt1 w0 N fid w f buf)
    (hN : w0.handles.length ≤ N) (c : Call) (e : String)
    (hd : Call.dirOp c = false) (hsub : ∀ h, Call.subject c = some h → h = N)
    (h1 : ∀ d, c ≠ .closedir d) (h2 : ∀ d, c ≠ .close d) (h3 : ∀ d, c ≠ .fclose d)
    (hfs : ∀ g, ¬ g = fid → fileSafe w g c) :
    WSt1 w0 N fid (stepWorld w c (.err e)) f buf := by
  have hc := core_err w c e h1 h2 h3
  refine ⟨s.fr.step c _ hd (fun h hh => by rw [hsub h hh]; exact hN) (fun g _ hg => hfs g hg), ?_, ?_⟩
  · rw [stepWorld_obj, hc]; exact s.obj
  · rw [stepWorld_file, hc]; exact s.file

theorem WSt1.fprintf {w0 N fid w f buf} (s : WSt1 w0 N fid w f buf)
    (hN : w0.handles.length ≤ N) (data : Bytes) :
    WSt1 w0 N fid (stepWorld w (.fprintf N data) (.ok data.length)) f (buf ++ data) := by
  have hc := core_fprintf_ok s.obj data
  refine ⟨s.fr.step _ _ rfl (fun h hh => by cases hh; exact hN) (fun g _ hg => s.safe hg), ?_, ?_⟩
  · rw [stepWorld_obj, hc]; simp [obj_setObj, s.lt]
  · rw [stepWorld_file, hc]; simpa using s.file

theorem WSt1.fflush {w0 N fid w f buf} (s : WSt1 w0 N fid w f buf)
    (hN : w0.handles.length ≤ N) (v : Nat) :
    WSt1 w0 N fid (stepWorld w (.fflush N) (.ok v)) { f with data := f.data ++ buf } [] := by
  have hc := core_fflush_ok s.obj s.file v
  refine ⟨s.fr.step _ _ rfl (fun h hh => by cases hh; exact hN) (fun g _ hg => s.safe hg), ?_, ?_⟩
  · rw [stepWorld_obj, hc]; simp [obj_setObj, s.lt]
  · rw [stepWorld_file, hc]; simp [file_setFile]

theorem WSt1.fsync {w0 N fid w f buf} (s : WSt1 w0 N fid w f buf) (v : Nat) :
    WSt1 w0 N fid (stepWorld w (.fsync N) (.ok v)) { f with durable := f.data } buf := by
  have hc := core_fsync_stream_ok s.obj s.file v
  refine ⟨s.fr.step _ _ rfl (fun h hh => by cases hh) (fun g _ hg => s.safe hg), ?_, ?_⟩
  · rw [stepWorld_obj, hc]; simpa using s.obj
  · rw [stepWorld_file, hc]; simp [file_setFile]

theorem frame_hdrs (w0 : World) (newfd : Handle) (fid : Nat) (f : File)
    (hN : w0.handles.length ≤ newfd) (hs : List Hdr) {w : World} {buf : Bytes}
    (s : WSt1 w0 newfd fid w f buf) :
    wp NoInv (messageWriteP.hdrs newfd hs)
      (fun err w' => ∃ buf', WSt1 w0 newfd fid w' f buf' ∧ (err = false → buf' = buf ++ hs.flatMap hdrLine)) w := by
  induction hs generalizing w buf with
  | nil =>
    unfold messageWriteP.hdrs
    exact ⟨buf, s, by simp⟩
  | cons h rest ih =>
    unfold messageWriteP.hdrs
    simp only [bind_eq, pure_eq, call_bind]
    refine wp_call (fun r => r = .ok (hdrLine h).length ∨ ∃ e, r = .err e)
      (fun ft => results_simple ft w _ _ (by intro _ h; cases h) (by intro _ _ h; cases h) rfl) ?_
    intro r hr
    refine ⟨trivial, ?_⟩
    rcases hr with rfl | ⟨e, rfl⟩
    · simp only [isOk, if_true]
      refine wp_mono (ih (s.fprintf hN (hdrLine h))) ?_
      rintro err w' ⟨buf', s', hb⟩
      exact ⟨buf', s', fun he => by simp [hb he, List.flatMap_cons]⟩
    · simp only [isOk]
      exact ⟨buf, s.err hN (.fprintf newfd (hdrLine h)) e rfl (by intro _ h; cases h; rfl) (by intro _ h; cases h)
        (by intro _ h; cases h) (by intro _ h; cases h) (fun g hg => s.safe hg), by intro h; cases h⟩

theorem frame_mwTail {w0 N fid w f buf} (s : WSt1 w0 N fid w f buf)
    (hN : w0.handles.length ≤ N) (body : Bytes) (herr : Bool) :
    wp NoInv (mwTail N body herr)
      (fun err w' => ∃ f' buf', WSt1 w0 N fid w' f' buf' ∧
        (err = false → herr = false ∧ f'.data = f.data ++ buf ++ [10] ++ body ∧ f'.durable = f'.data ∧ buf' = [])) w := by
  unfold mwTail
  split
  · exact ⟨f, buf, s, by intro h; cases h⟩
  · rename_i hherr
    refine wp_call (fun r => r = .ok ([10] ++ body).length ∨ ∃ e, r = .err e)
      (fun ft => results_simple ft w _ _ (by intro _ h; cases h) (by intro _ _ h; cases h) rfl) ?_
    rintro r (rfl | ⟨e, rfl⟩)
    · have s1 := s.fprintf hN ([10] ++ body)
      refine ⟨trivial, ?_⟩
      simp only [isOk, Bool.not_true, Bool.false_eq_true, if_false]
      refine wp_call (fun r => r = .ok 0 ∨ ∃ e, r = .err e)
        (fun ft => results_simple ft _ _ _ (by intro _ h; cases h) (by intro _ _ h; cases h) rfl) ?_
      rintro r (rfl | ⟨e, rfl⟩)
      · have s2 := s1.fflush hN 0
        refine ⟨trivial, ?_⟩
        simp only [Bool.not_true, Bool.false_eq_true, if_false]
        refine wp_call (fun r => r = .ok 0 ∨ ∃ e, r = .err e)
          (fun ft => results_simple ft _ _ _ (by intro _ h; cases h) (by intro _ _ h; cases h) rfl) ?_
        rintro r (rfl | ⟨e, rfl⟩)
        · have s3 := s2.fsync 0
          refine ⟨trivial, _, _, s3, ?_⟩
          intro _
          refine ⟨by simpa using hherr, ?_, rfl, rfl⟩
          simp [List.append_assoc]
        · have s3 := s2.err hN (.fsync N) e rfl (by intro _ h; cases h) (by intro _ h; cases h) (by intro _ h; cases h)
            (by intro _ h; cases h) (fun g hg => s2.safe hg)
          exact ⟨trivial, _, _, s3, by intro h; simp at h⟩
      · have s2 := s1.err hN (.fflush N) e rfl (by intro _ h; cases h; rfl) (by intro _ h; cases h) (by intro _ h; cases h)
          (by intro _ h; cases h) (fun g hg => s1.safe hg)
        exact ⟨trivial, _, _, s2, by intro h; simp at h⟩
    · have s1 := s.err hN (.fprintf N ([10] ++ body)) e rfl (by intro _ h; cases h; rfl) (by intro _ h; cases h)
        (by intro _ h; cases h) (by intro _ h; cases h) (fun g hg => s.safe hg)
      exact ⟨trivial, _, _, s1, by intro h; simp at h⟩

/-- `message_write` on a descriptor of file `fid`: no directory changes, no other file changes,
no older handle changes; without error the file has gained the rendered message, durably. -/
theorem fr1_messageWriteP (m : Msg) (fd : Handle) {w : World}
    {fid off : Nat} {wr : Bool} {f0 : File}
    (ho : w.obj fd = .file fid off wr) (hf : w.file fid = some f0) :
    wp NoInv (messageWriteP m fd)
      (fun err w' => Fr1 (fun g => g = fid) w w' ∧ ∃ f, w'.file fid = some f ∧
          (err = false → f.data = f0.data ++ (messageWrite m).1 ∧ f.durable = f.data)) w := by
  unfold messageWriteP
  simp only [bind_eq, pure_eq, call_bind]
  refine wp_call (fun r => r = .ok w.handles.length ∨ ∃ e, r = .err e)
    (fun ft => results_simple ft w _ _ (by intro _ h; cases h) (by intro _ _ h; cases h) rfl) ?_
  intro r hr
  have fr1 := (Fr1.refl (fun g => g = fid) w).step (.dupfd fd) r rfl (by intro _ h; cases h) (fun _ _ _ => trivial)
  refine ⟨trivial, ?_⟩
  rcases hr with rfl | ⟨e, rfl⟩
  rotate_left
  · have hc := core_err w (.dupfd fd) e (by intro _ h; cases h) (by intro _ h; cases h) (by intro _ h; cases h)
    exact ⟨fr1, f0, by rw [stepWorld_file, hc]; exact hf, by intro h; cases h⟩
  have hc1 := core_dupfd_ok ho w.handles.length
  generalize hw1 : stepWorld w (.dupfd fd) (.ok w.handles.length) = w1 at fr1 ⊢
  have ho1 : w1.obj w.handles.length = .file fid off wr := by
    rw [← hw1, stepWorld_obj, hc1]; simp [obj_newHandle]
  have hf1 : w1.file fid = some f0 := by
    rw [← hw1, stepWorld_file, hc1]; simpa using hf
  dsimp only
  refine wp_call (fun r => r = .ok 0 ∨ ∃ e, r = .err e)
    (fun ft => results_simple ft w1 _ _ (by intro _ h; cases h) (by intro _ _ h; cases h) rfl) ?_
  intro r hr
  have fr2 := fr1.step (.fdopen w.handles.length) r rfl (by intro _ h; cases h; exact Nat.le_refl _) (fun _ _ _ => trivial)
  refine ⟨trivial, ?_⟩
  rcases hr with rfl | ⟨e, rfl⟩
  rotate_left
  · have hc := core_err w1 (.fdopen w.handles.length) e (by intro _ h; cases h) (by intro _ h; cases h) (by intro _ h; cases h)
    simp only [isOk, Bool.not_false, if_true]
    intro ft
    generalize faultResult ft _ (.close w.handles.length) = r3
    have fr3 := fr2.step (.close w.handles.length) r3 rfl
      (by intro _ h; cases h; exact Nat.le_refl _) (fun _ _ _ => trivial)
    refine ⟨trivial, fr3, f0, ?_, by intro h; cases h⟩
    rw [stepWorld_file, core_close]
    simp only [file_setObj, stepWorld_file, hc]
    exact hf1
  have hc2 := core_fdopen_ok ho1 0
  have s2 : WSt1 w w.handles.length fid (stepWorld w1 (.fdopen w.handles.length) (.ok 0)) f0 [] := by
    refine ⟨fr2, ?_, ?_⟩
    · rw [stepWorld_obj, hc2]; simp [obj_setObj, lt_of_obj_ne_closed w1 w.handles.length (by simp [ho1])]
    · rw [stepWorld_file, hc2]; simpa using hf1
  simp only [isOk, Bool.not_true, Bool.false_eq_true, if_false]
  refine wp_bind_mono (frame_hdrs w w.handles.length fid f0 (Nat.le_refl _) (sortById m.headers) s2) ?_
  rintro herr w3 ⟨buf3, s3, hbuf3⟩
  refine wp_bind_mono (frame_mwTail s3 (Nat.le_refl _) m.body herr) ?_
  rintro err1 w4 ⟨f4, buf4, s4, h4⟩
  intro ft
  generalize faultResult ft w4 (.fclose w.handles.length) = r3
  have fr5 := s4.fr.step (.fclose w.handles.length) r3 rfl (by intro _ h; cases h; exact Nat.le_refl _)
    (fun g _ hg => s4.safe hg)
  refine ⟨trivial, fr5, ?_⟩
  have hc5 := core_fclose_stream s4.obj s4.file r3
  have fin : ∀ r3 : Res,
      (err1 || !isOk r3) = false → ({ f4 with data := f4.data ++ buf4 } : File).data = f0.data ++ (messageWrite m).1 ∧
        ({ f4 with data := f4.data ++ buf4 } : File).durable = ({ f4 with data := f4.data ++ buf4 } : File).data := by
    intro r3 he
    have he1 : err1 = false := by cases err1 <;> simp_all
    obtain ⟨hherr, hd, hdur, hb⟩ := h4 he1
    subst hb
    simp only [List.append_nil]
    refine ⟨?_, hdur⟩
    rw [hd, hbuf3 hherr, render_eq]
    simp [List.append_assoc]
  cases r3 with
  | err e =>
    refine ⟨f4, ?_, by intro h; simp at h⟩
    rw [stepWorld_file, hc5]; simpa [Res.isErr] using s4.file
  | ok v =>
    refine ⟨{ f4 with data := f4.data ++ buf4 }, ?_, fin (.ok v)⟩
    rw [stepWorld_file, hc5]; simp [Res.isErr, file_setFile]
  | name n =>
    refine ⟨{ f4 with data := f4.data ++ buf4 }, ?_, fin (.name n)⟩
    rw [stepWorld_file, hc5]; simp [Res.isErr, file_setFile]
  | eof =>
    refine ⟨{ f4 with data := f4.data ++ buf4 }, ?_, fin .eof⟩
    rw [stepWorld_file, hc5]; simp [Res.isErr, file_setFile]

/-! ### `message_write` does not fail unless a call fails -/

theorem clean_hdrs (newfd : Handle) (hs : List Hdr) : Clean (fun r => r = true) (messageWriteP.hdrs newfd hs) := by
  induction hs with
  | nil => unfold messageWriteP.hdrs; intro h; cases h
  | cons h rest ih =>
    unfold messageWriteP.hdrs
    simp only [bind_eq, pure_eq, call_bind]
    intro w
    simp only [predict, isOk, if_true]
    exact ih

theorem clean_messageWriteP (m : Msg) (fd : Handle) : Clean (fun r => r = true) (messageWriteP m fd) := by
  unfold messageWriteP
  simp only [bind_eq, pure_eq, call_bind]
  intro w
  simp only [predict]
  intro w1
  simp only [predict, isOk, Bool.not_true, Bool.false_eq_true, if_false]
  refine Clean.bind (clean_hdrs _ _) ?_
  intro herr hh
  have : herr = false := by cases herr <;> simp_all
  subst this
  simp only [Bool.false_eq_true, if_false, call_bind', ret_bind]
  intro w2
  simp only [predict, isOk, Bool.not_true, Bool.false_eq_true, if_false]
  intro w3
  simp only [predict, isOk, Bool.not_true, Bool.false_eq_true, if_false]
  intro w4
  simp only [predict, isOk, Bool.not_true, Bool.false_eq_true, if_false]
  intro w5
  simp only [predict, isOk]
  intro h
  cases h

end Mdsort.Proofs.World
