import Mdsort.Proofs.ConfBasic

/-!
# `wpl`: `wp` with the line of the diagnostic

`wpl p Q E F s` is `wp p Q (E line) F s`: the postcondition of the error outcome also sees the line the
first diagnostic is reported on.  The read-back lemmas (Proofs/ConfRT*.lean) are stated with it, for an
arbitrary `E`, so that they can be used both to show that a printed file is accepted (`E` = `False`) and
that a file with a defect behind a printed prefix is rejected, on which line (Proofs/ConfAnywhere*.lean).
-/

namespace Mdsort.Proofs.Conf
open Mdsort Mdsort.Model

def wpl {α : Type} (p : PM α) (Q : α → ParseSt → Prop) (E : Nat → ParseSt → Prop) (F : Prop) (s : ParseSt) : Prop :=
  match p s with
  | .ok a s' => Q a s'
  | .err l s' => E l s'
  | .fuel _ => F

variable {α β : Type} {Q : α → ParseSt → Prop} {E : Nat → ParseSt → Prop} {F : Prop} {s : ParseSt}

theorem wpl_pure (a : α) : wpl (pure a : PM α) Q E F s = Q a s := rfl

theorem wpl_bind (m : PM α) (f : α → PM β) (R : β → ParseSt → Prop) :
    wpl (m >>= f) R E F s = wpl m (fun a s' => wpl (f a) R E F s') E F s := by
  show wpl (PM.bind m f) R E F s = _
  unfold wpl PM.bind
  cases m s <;> rfl

theorem wpl_failTok : wpl (failTok : PM α) Q E F s = E s.tokLine s := rfl
theorem wpl_failAt (l : Nat) : wpl (failAt l : PM α) Q E F s = E l s := rfl
theorem wpl_outOfFuel : wpl (outOfFuel : PM α) Q E F s = F := rfl
theorem wpl_curLine (cx : PCtx) {Q : Nat → ParseSt → Prop} : wpl (curLine cx) Q E F s = Q (lineOf cx.nl s.rest) s := rfl

theorem wpl_ite (c : Prop) [Decidable c] (a b : PM α) :
    wpl (if c then a else b) Q E F s = if c then wpl a Q E F s else wpl b Q E F s := by
  split <;> rfl

theorem wpl_mono {p : PM α} {Q Q' : α → ParseSt → Prop} {E E' : Nat → ParseSt → Prop}
    (h : wpl p Q E F s) (hq : ∀ a s', Q a s' → Q' a s') (he : ∀ l s', E l s' → E' l s') : wpl p Q' E' F s := by
  unfold wpl at *
  cases hp : p s <;> simp only [hp] at h ⊢
  · exact hq _ _ h
  · exact he _ _ h
  · exact h

end Mdsort.Proofs.Conf
