import Mdsort.Model.Lineage
import Mdsort.Proofs.WorldWholeBasic

/-!
# Lineage (Model/Lineage.lean) along a run: generic facts

The lineage of a world `w` reached from `w0` is read from the trace recorded in `w` (`linAt`), so invariants that
mention it are ordinary predicates on worlds and the calculus of WorldHoare applies unchanged.

* `Hist w0 w`: `w` was reached from `w0` by calls (its trace extends that of `w0`, replaying the extension gives `w`).
* `LinPre`: the origin of every file that existed at a reference point (ids below `N0`) is what it was (`o0`) - kept by
  EVERY call.
* `LinCur`: the message being processed descends from `f0`, and so does every file made since the reference point -
  kept by every call that is not a successful `openRd`, and by a successful `openRd` of a file that descends from `f0`.
-/

namespace Mdsort.Proofs.World
open Mdsort Mdsort.Model

/-! ## replaying -/

theorem replay_append (w : World) (a b : List (Call × Res)) : replay w (a ++ b) = replay (replay w a) b := by
  induction a generalizing w with
  | nil => rfl
  | cons x rest ih => obtain ⟨c, r⟩ := x; simp only [List.cons_append, replay]; exact ih _

theorem lineage_append (w : World) (l : Lin) (a b : List (Call × Res)) :
    lineage w l (a ++ b) = lineage (replay w a) (lineage w l a) b := by
  induction a generalizing w l with
  | nil => rfl
  | cons x rest ih => obtain ⟨c, r⟩ := x; simp only [List.cons_append, replay, lineage]; exact ih _ _

theorem lineage_snoc (w : World) (l : Lin) (tr : List (Call × Res)) (c : Call) (r : Res) :
    lineage w l (tr ++ [(c, r)]) = linStep (replay w tr) c r (lineage w l tr) := by
  rw [lineage_append]; rfl

theorem replay_snoc (w : World) (tr : List (Call × Res)) (c : Call) (r : Res) :
    replay w (tr ++ [(c, r)]) = stepWorld (replay w tr) c r := by
  rw [replay_append]; rfl

/-- `w` was reached from `w0` by calls: its trace extends that of `w0`, and replaying the extension from `w0` gives `w`. -/
def Hist (w0 w : World) : Prop := ∃ tr, w.trace = w0.trace ++ tr ∧ replay w0 tr = w

theorem Hist.refl (w : World) : Hist w w := ⟨[], by simp, rfl⟩

theorem Hist.since {w0 w : World} {tr : List (Call × Res)} (h1 : w.trace = w0.trace ++ tr) : traceSince w0 w = tr := by
  unfold traceSince; rw [h1]; simp

theorem Hist.step {w0 w : World} (h : Hist w0 w) (c : Call) (r : Res) : Hist w0 (stepWorld w c r) := by
  obtain ⟨tr, h1, h2⟩ := h
  refine ⟨tr ++ [(c, r)], ?_, ?_⟩
  · rw [stepWorld_trace, h1, List.append_assoc]
  · rw [replay_snoc, h2]

theorem Hist.trans {w0 w1 w2 : World} (a : Hist w0 w1) (b : Hist w1 w2) : Hist w0 w2 := by
  obtain ⟨t1, h1, h2⟩ := a
  obtain ⟨t2, h3, h4⟩ := b
  exact ⟨t1 ++ t2, by rw [h3, h1, List.append_assoc], by rw [replay_append, h2, h4]⟩

/-- The lineage in `w`, started with `l0` in `w0`. -/
def linAt (w0 : World) (l0 : Lin) (w : World) : Lin := lineage w0 l0 (traceSince w0 w)

theorem linAt_self (w0 : World) (l0 : Lin) : linAt w0 l0 w0 = l0 := by
  unfold linAt traceSince; simp [lineage]

theorem linAt_step {w0 w : World} (l0 : Lin) (h : Hist w0 w) (c : Call) (r : Res) :
    linAt w0 l0 (stepWorld w c r) = linStep w c r (linAt w0 l0 w) := by
  obtain ⟨tr, h1, h2⟩ := h
  have hs : traceSince w0 (stepWorld w c r) = tr ++ [(c, r)] :=
    Hist.since (by rw [stepWorld_trace, h1, List.append_assoc])
  unfold linAt
  rw [hs, Hist.since h1, lineage_snoc, h2]

/-- Restarting the lineage at an intermediate world. -/
theorem linAt_trans {w0 w1 w2 : World} (l0 : Lin) (a : Hist w0 w1) (b : Hist w1 w2) :
    linAt w0 l0 w2 = linAt w1 (linAt w0 l0 w1) w2 := by
  obtain ⟨t1, h1, h2⟩ := a
  obtain ⟨t2, h3, h4⟩ := b
  unfold linAt
  rw [Hist.since h1, Hist.since h3, Hist.since (w0 := w0) (w := w2) (tr := t1 ++ t2) (by rw [h3, h1, List.append_assoc]),
    lineage_append, h2]

/-! ## which calls make files -/

theorem createsFile_of_not_creates {c : Call} (h : Call.creates c = false) (w : World) (r : Res) : createsFile w c r = false := by
  cases c <;> first | rfl | (simp [Call.creates] at h)

theorem core_nextFid_creates (w : World) (c : Call) (r : Res) :
    (core w c r).nextFid = if createsFile w c r then w.nextFid + 1 else w.nextFid := by
  by_cases hc : Call.creates c = false
  · rw [core_nextFid_eq w c r hc, createsFile_of_not_creates hc]; rfl
  · cases c <;> try (exact absurd rfl hc)
    · rename_i d n
      cases r with
      | ok v =>
        cases hp : w.dirPath d with
        | none => simp [core, applyOk, createsFile, hp]
        | some p =>
          cases hl : w.lookup p n with
          | none => rw [core_openExcl_ok hp hl]; simp [createsFile, hp, hl]
          | some x => simp [core, applyOk, createsFile, hp, hl]
      | err e => simp [core, applyOk, createsFile]
      | name x => simp [core, applyOk, createsFile]
      | eof => simp [core, applyOk, createsFile]
    · rename_i t
      cases r with
      | ok v => rw [core_mkostemp_ok]; simp [createsFile]
      | err e => simp [core, applyOk, createsFile]
      | name x => simp [core, applyOk, createsFile]
      | eof => simp [core, applyOk, createsFile]

/-- The origin of a file other than the one the call may have made is unchanged by the call. -/
theorem linStep_org_ne (w : World) (c : Call) (r : Res) (l : Lin) (g : Nat) (h : g ≠ w.nextFid) :
    (linStep w c r l).org g = l.org g := by
  unfold linStep
  dsimp only
  split <;> split <;> simp [h]

theorem linStep_org_lt (w : World) (c : Call) (r : Res) (l : Lin) (g : Nat) (h : g < w.nextFid) :
    (linStep w c r l).org g = l.org g := linStep_org_ne w c r l g (Nat.ne_of_lt h)

/-- A call that opens no file for reading keeps the message being processed. -/
theorem linStep_cur_none (w : World) (c : Call) (r : Res) (l : Lin) (h : openedFile w c r = none) :
    (linStep w c r l).cur = l.cur := by
  simp only [linStep, h]
  split <;> rfl

theorem linStep_cur_some (w : World) (c : Call) (r : Res) (l : Lin) (g : Nat) (h : openedFile w c r = some g) :
    (linStep w c r l).cur = some g := by
  simp only [linStep, h]

/-- The file the call made descends from the message being processed. -/
theorem linStep_org_new (w : World) (c : Call) (r : Res) (l : Lin) (fc : Nat) (hc : createsFile w c r = true)
    (hcur : l.cur = some fc) : (linStep w c r l).org w.nextFid = l.org fc := by
  unfold linStep
  dsimp only
  rw [hc]
  split <;> simp [hcur]

theorem openedFile_none_of_ne {c : Call} (h : ∀ d n, c ≠ .openRd d n) (w : World) (r : Res) : openedFile w c r = none := by
  cases c <;> first | rfl | exact absurd rfl (h _ _)

theorem createsFile_openRd (w : World) (d : Handle) (n : Bytes) (r : Res) : createsFile w (.openRd d n) r = false := rfl

/-! ## the invariants -/

/-- Relative to the start `w0` (lineage `l0` there) and a reference point with `N0` files: `w` was reached from `w0`,
no file has disappeared from the numbering, and every file below `N0` has the origin `o0` says. -/
structure LinPre (w0 : World) (l0 : Lin) (N0 : Nat) (o0 : Nat → Nat) (w : World) : Prop where
  hist : Hist w0 w
  n0 : N0 ≤ w.nextFid
  old : ∀ g, g < N0 → (linAt w0 l0 w).org g = o0 g

theorem LinPre.step {w0 : World} {l0 : Lin} {N0 : Nat} {o0 : Nat → Nat} {w : World} (h : LinPre w0 l0 N0 o0 w)
    (c : Call) (r : Res) : LinPre w0 l0 N0 o0 (stepWorld w c r) := by
  refine ⟨h.hist.step c r, ?_, ?_⟩
  · rw [stepWorld_nextFid]; exact Nat.le_trans h.n0 (core_nextFid w c r)
  · intro g hg
    rw [linAt_step l0 h.hist, linStep_org_lt _ _ _ _ _ (Nat.lt_of_lt_of_le hg h.n0)]
    exact h.old g hg

/-- The reference point itself. -/
theorem LinPre.start {w0 : World} {l0 : Lin} {w : World} (h : Hist w0 w) :
    LinPre w0 l0 w.nextFid (linAt w0 l0 w).org w := ⟨h, Nat.le_refl _, fun _ _ => rfl⟩

/-- A later reference point. -/
theorem LinPre.restart {w0 : World} {l0 : Lin} {N0 : Nat} {o0 : Nat → Nat} {w : World} (h : LinPre w0 l0 N0 o0 w) :
    LinPre w0 l0 w.nextFid (linAt w0 l0 w).org w := LinPre.start h.hist

theorem wp_linPre {α} {w0 : World} {l0 : Lin} {N0 : Nat} {o0 : Nat → Nat} (p : Prog α) {w : World}
    (h : LinPre w0 l0 N0 o0 w) : wp (LinPre w0 l0 N0 o0) p (fun _ w' => LinPre w0 l0 N0 o0 w') w := by
  induction p generalizing w with
  | ret a => exact h
  | call c k ih => intro ft; exact ⟨h.step c _, ih _ (h.step c _)⟩

/-- The message being processed descends from `f0`, and so does every file made since the reference point `N0`. -/
structure LinCur (w0 : World) (l0 : Lin) (N0 f0 : Nat) (w : World) : Prop where
  cur : ∃ fc, (linAt w0 l0 w).cur = some fc ∧ (linAt w0 l0 w).org fc = f0
  new : ∀ g, N0 ≤ g → g < w.nextFid → (linAt w0 l0 w).org g = f0

theorem LinCur.step {w0 : World} {l0 : Lin} {N0 f0 : Nat} {o0 : Nat → Nat} {w : World} (hp : LinPre w0 l0 N0 o0 w)
    (h : LinCur w0 l0 N0 f0 w) (c : Call) (r : Res)
    (ho : ∀ g, openedFile w c r = some g → (linAt w0 l0 w).org g = f0) : LinCur w0 l0 N0 f0 (stepWorld w c r) := by
  obtain ⟨fc, hcur, hfc⟩ := h.cur
  have hstep := linAt_step l0 hp.hist c r
  -- the origin after the call, of a file that descended from `f0` or is the new one
  have horg : ∀ g, (linAt w0 l0 w).org g = f0 → (linAt w0 l0 (stepWorld w c r)).org g = f0 := by
    intro g hg
    rw [hstep]
    by_cases hn : g = w.nextFid
    · by_cases hc : createsFile w c r = true
      · rw [hn, linStep_org_new w c r _ fc hc hcur]; exact hfc
      · have hc' : createsFile w c r = false := by simpa using hc
        unfold linStep
        dsimp only
        rw [hc']
        split <;> exact hg
    · rw [linStep_org_ne _ _ _ _ _ hn]; exact hg
  refine ⟨?_, ?_⟩
  · cases hop : openedFile w c r with
    | none => exact ⟨fc, by rw [hstep, linStep_cur_none _ _ _ _ hop]; exact hcur, horg fc hfc⟩
    | some g => exact ⟨g, by rw [hstep, linStep_cur_some _ _ _ _ g hop], horg g (ho g hop)⟩
  · intro g hg1 hg2
    rw [stepWorld_nextFid, core_nextFid_creates] at hg2
    by_cases hlt : g < w.nextFid
    · exact horg g (h.new g hg1 hlt)
    · have hc : createsFile w c r = true := by
        cases hcf : createsFile w c r with
        | true => rfl
        | false => rw [hcf] at hg2; simp at hg2; omega
      rw [hc] at hg2
      simp only [if_true] at hg2
      have hgeq : g = w.nextFid := by omega
      rw [hgeq, hstep, linStep_org_new w c r _ fc hc hcur]
      exact hfc

/-- Both parts. -/
def LinInv (w0 : World) (l0 : Lin) (N0 : Nat) (o0 : Nat → Nat) (f0 : Nat) (w : World) : Prop :=
  LinPre w0 l0 N0 o0 w ∧ LinCur w0 l0 N0 f0 w

theorem LinInv.step {w0 : World} {l0 : Lin} {N0 f0 : Nat} {o0 : Nat → Nat} {w : World} (h : LinInv w0 l0 N0 o0 f0 w)
    (c : Call) (r : Res) (ho : ∀ g, openedFile w c r = some g → (linAt w0 l0 w).org g = f0) :
    LinInv w0 l0 N0 o0 f0 (stepWorld w c r) := ⟨h.1.step c r, h.2.step h.1 c r ho⟩

/-- The call is not an `openat(O_RDONLY)`. -/
def NotOpenRd : Call → Prop
  | .openRd .. => False
  | _ => True

theorem NotOpenRd.ne {c : Call} (h : NotOpenRd c) : ∀ d n, c ≠ .openRd d n := by
  intro d n e; subst e; exact h

theorem LinInv.step_other {w0 : World} {l0 : Lin} {N0 f0 : Nat} {o0 : Nat → Nat} {w : World} (h : LinInv w0 l0 N0 o0 f0 w)
    (c : Call) (r : Res) (hc : NotOpenRd c) : LinInv w0 l0 N0 o0 f0 (stepWorld w c r) :=
  h.step c r (by intro g hg; rw [openedFile_none_of_ne hc.ne] at hg; cases hg)

/-- A program that never opens a file for reading keeps the lineage invariant, under every fault plan. -/
theorem wp_linInv {α} {w0 : World} {l0 : Lin} {N0 f0 : Nat} {o0 : Nat → Nat} {p : Prog α} (hc : Calls NotOpenRd p)
    {w : World} (h : LinInv w0 l0 N0 o0 f0 w) :
    wp (LinInv w0 l0 N0 o0 f0) p (fun _ w' => LinInv w0 l0 N0 o0 f0 w') w := by
  induction p generalizing w with
  | ret a => exact h
  | call c k ih => intro ft; exact ⟨h.step_other c _ hc.1, ih _ (hc.2 _) (h.step_other c _ hc.1)⟩

/-- The origin of a file that descends from the tracked message, read off the invariant. -/
theorem LinInv.org_of {w0 : World} {l0 : Lin} {N0 f0 : Nat} {o0 : Nat → Nat} {w : World} (h : LinInv w0 l0 N0 o0 f0 w)
    {fid0 : Nat} (h0 : fid0 < N0) (ho : o0 fid0 = f0) {g : Nat} (hg : g = fid0 ∨ N0 ≤ g) (hlt : g < w.nextFid) :
    (linAt w0 l0 w).org g = f0 := by
  rcases hg with rfl | hg
  · rw [h.1.old g h0]; exact ho
  · exact h.2.new g hg hlt

/-! ## conjunction over a family -/

theorem wp_forall {α ι} {I : ι → World → Prop} {p : Prog α} {Q : ι → α → World → Prop} {w : World}
    (h : ∀ i, wp (I i) p (Q i) w) : wp (fun w' => ∀ i, I i w') p (fun a w' => ∀ i, Q i a w') w := by
  induction p generalizing w with
  | ret a => exact fun i => h i
  | call c k ih => intro ft; exact ⟨fun i => (h i ft).1, ih _ fun i => (h i ft).2⟩

end Mdsort.Proofs.World
