import Mdsort.Proofs.ConfBasic
import Mdsort.Spec.Conf

/-!
# Specifications of the parser functions, part 1: tokens, strings, patterns, dates, exec options

`Spec n B p W`: from a state in which at most `n` tokens can still be shifted (and potential at most
`B`), `p` does not exhaust its recursion budget, keeps the invariant (also when it reports a
diagnostic) and returns a value satisfying `W`.
-/

namespace Mdsort.Proofs.Conf
open Mdsort Mdsort.Model Mdsort.Spec

def Spec {α : Type} (n B : Nat) (p : PM α) (W : α → Prop) : Prop :=
  ∀ s, Inv n B s → wp p (fun a s' => Inv n B s' ∧ W a) (fun s' => phi s' ≤ B) False s

theorem Spec.weaken {α : Type} {n B : Nat} {p : PM α} {W W' : α → Prop} (h : Spec n B p W) (hw : ∀ a, W a → W' a) :
    Spec n B p W' := fun s hs => wp_mono (h s hs) (fun a _ ⟨h1, h2⟩ => ⟨h1, hw a h2⟩) (fun _ h => h)

/-- Use the specification of a sub-parser inside a `wp` goal. -/
theorem wp_of_spec {α : Type} {n m B : Nat} {p : PM α} {W : α → Prop} {Q : α → ParseSt → Prop} {s : ParseSt}
    (h : Spec m B p W) (hs : Inv m B s) (hmn : m ≤ n)
    (hQ : ∀ a s', Inv n B s' → W a → Q a s') :
    wp p Q (fun s' => phi s' ≤ B) False s :=
  wp_mono (h s hs) (fun a s' ⟨h1, h2⟩ => hQ a s' (h1.mono hmn) h2) (fun _ h => h)

theorem expectTk_spec (cx : PCtx) (tk : Tk) (htk : tk ≠ .eof) (n B : Nat) : Spec n B (expectTk cx tk) (fun _ => True) := by
  intro s hs
  unfold expectTk
  simp only [wp_bind]
  apply wp_peek cx _ _ hs (fun _ h => h)
  intro t s1 h1 hla _
  simp only [wp_ite, wp_failTok]
  split
  · rename_i heq
    subst heq
    apply wp_shift h1 hla htk
    intro s2 h2 _ _ _
    exact ⟨h2.mono (Nat.sub_le _ _), trivial⟩
  · exact h1.2

theorem parseStr_spec (cx : PCtx) (n B : Nat) : Spec n B (parseStr cx) (fun _ => True) := by
  intro s hs
  unfold parseStr
  simp only [wp_bind]
  apply wp_peek cx _ _ hs (fun _ h => h)
  intro t s1 h1 hla _
  cases t <;> (try simp only [wp_failTok, wp_bind, wp_pure]) <;> try exact h1.2
  apply wp_shift h1 hla (by simp)
  intro s2 h2 _ _ _
  exact ⟨h2.mono (Nat.sub_le _ _), trivial⟩

theorem parseStringBlock_spec (cx : PCtx) : ∀ (fuel n B : Nat) (acc : List Bytes), n < fuel →
    Spec n B (parseStringBlock cx fuel acc) (fun _ => True) := by
  intro fuel
  induction fuel with
  | zero => intro n B acc h; omega
  | succ fuel ih =>
    intro n B acc hn s hs
    unfold parseStringBlock
    simp only [wp_bind]
    apply wp_peek cx _ _ hs (fun _ h => h)
    intro t s1 h1 hla _
    cases t <;> (try simp only [wp_failTok, wp_bind, wp_pure]) <;> try exact h1.2
    · apply wp_shift h1 hla (by simp)
      intro s2 h2 hpos _ _
      exact wp_of_spec (ih (n - 1) B _ (by omega)) h2 (Nat.sub_le _ _) (fun a s' h _ => ⟨h, trivial⟩)
    · apply wp_shift h1 hla (by simp)
      intro s2 h2 _ _ _
      exact ⟨h2.mono (Nat.sub_le _ _), trivial⟩

theorem parseStrings_spec (cx : PCtx) (fuel n B : Nat) (hn : n < fuel + 1) : Spec n B (parseStrings cx fuel) (fun _ => True) := by
  intro s hs
  unfold parseStrings
  simp only [wp_bind]
  apply wp_peek cx _ _ hs (fun _ h => h)
  intro t s1 h1 hla _
  cases t <;> (try simp only [wp_failTok, wp_bind, wp_pure]) <;> try exact h1.2
  · apply wp_shift h1 hla (by simp)
    intro s2 h2 _ _ _
    exact ⟨h2.mono (Nat.sub_le _ _), trivial⟩
  · apply wp_shift h1 hla (by simp)
    intro s2 h2 hpos _ _
    exact wp_of_spec (parseStringBlock_spec cx fuel (n - 1) B _ (by omega)) h2 (Nat.sub_le _ _) (fun a s' h _ => ⟨h, trivial⟩)

theorem parsePattern_spec (cx : PCtx) (n B : Nat) : Spec n B (parsePattern cx) (fun _ => True) := by
  intro s hs
  unfold parsePattern
  simp only [wp_bind]
  apply wp_peek cx _ _ hs (fun _ h => h)
  intro t s1 h1 hla _
  cases t <;> (try simp only [wp_failTok, wp_bind, wp_pure]) <;> try exact h1.2
  apply wp_shift h1 hla (by simp)
  intro s2 h2 _ _ _
  exact ⟨h2.mono (Nat.sub_le _ _), trivial⟩

theorem checkPattern_spec (cx : PCtx) (p : Pat) (n B : Nat) : Spec n B (checkPattern cx p) (fun _ => cx.rxOk p = true) := by
  intro s hs
  unfold checkPattern
  simp only [wp_ite, wp_pure, wp_failTok]
  split
  · rename_i h; exact ⟨hs, h⟩
  · exact hs.2

theorem parseDateField_spec (cx : PCtx) (n B : Nat) : Spec n B (parseDateField cx) (fun _ => True) := by
  intro s hs
  unfold parseDateField
  simp only [wp_bind]
  apply wp_peek cx _ _ hs (fun _ h => h)
  intro t s1 h1 hla _
  cases t <;> (try simp only [wp_failTok, wp_bind, wp_pure]) <;> try exact ⟨h1, trivial⟩
  rename_i k
  cases k <;> (try simp only [wp_failTok, wp_bind, wp_pure]) <;> try exact ⟨h1, trivial⟩
  all_goals
    apply wp_shift h1 hla (by simp)
    intro s2 h2 _ _ _
    exact ⟨h2.mono (Nat.sub_le _ _), trivial⟩

theorem parseDateCmp_spec (cx : PCtx) (n B : Nat) : Spec n B (parseDateCmp cx) (fun _ => True) := by
  intro s hs
  unfold parseDateCmp
  simp only [wp_bind]
  apply wp_peek cx _ _ hs (fun _ h => h)
  intro t s1 h1 hla _
  cases t <;> (try simp only [wp_failTok, wp_bind, wp_pure]) <;> try exact h1.2
  all_goals
    apply wp_shift h1 hla (by simp)
    intro s2 h2 _ _ _
    exact ⟨h2.mono (Nat.sub_le _ _), trivial⟩

theorem parseInt_spec (cx : PCtx) (n B : Nat) : Spec n B (parseInt cx) (fun _ => True) := by
  intro s hs
  unfold parseInt
  simp only [wp_bind]
  apply wp_peek cx _ _ hs (fun _ h => h)
  intro t s1 h1 hla _
  cases t <;> (try simp only [wp_failTok, wp_bind, wp_pure]) <;> try exact h1.2
  apply wp_shift h1 hla (by simp)
  intro s2 h2 _ _ _
  exact ⟨h2.mono (Nat.sub_le _ _), trivial⟩

theorem parseScalar_spec (cx : PCtx) (n B : Nat) : Spec n B (parseScalar cx) (fun _ => True) := by
  intro s hs
  unfold parseScalar
  simp only [wp_bind]
  apply wp_peek cx _ _ hs (fun _ h => h)
  intro t s1 h1 hla _
  cases t <;> (try simp only [wp_failTok, wp_bind, wp_pure]) <;> try exact h1.2
  rename_i v
  cases v <;> (try simp only [wp_failTok, wp_bind, wp_pure]) <;> try exact h1.2
  apply wp_shift h1 hla (by simp)
  intro s2 h2 _ _ _
  exact ⟨h2.mono (Nat.sub_le _ _), trivial⟩

theorem parseOptNeg_spec (cx : PCtx) (n B : Nat) : Spec n B (parseOptNeg cx) (fun _ => True) := by
  intro s hs
  unfold parseOptNeg
  simp only [wp_bind]
  apply wp_peek cx _ _ hs (fun _ h => h)
  intro t s1 h1 hla _
  cases t <;> (try simp only [wp_failTok, wp_bind, wp_pure]) <;> try exact ⟨h1, trivial⟩
  apply wp_shift h1 hla (by simp)
  intro s2 h2 _ _ _
  exact ⟨h2.mono (Nat.sub_le _ _), trivial⟩

theorem parseDate_spec (cx : PCtx) (n B : Nat) : Spec n B (parseDate cx) (fun t => wfK cx.rxOk .cond t = true) := by
  intro s hs
  unfold parseDate
  simp only [wp_bind]
  refine wp_of_spec (parseDateField_spec cx n B) hs (Nat.le_refl _) ?_
  intro field s1 h1 _
  refine wp_of_spec (parseDateCmp_spec cx n B) h1 (Nat.le_refl _) ?_
  intro cmp s2 h2 _
  refine wp_of_spec (parseInt_spec cx n B) h2 (Nat.le_refl _) ?_
  intro k s3 h3 _
  refine wp_of_spec (parseScalar_spec cx n B) h3 (Nat.le_refl _) ?_
  intro v s4 h4 _
  simp only [wp_ite, wp_failTok, wp_bind, wp_curLine, wp_pure]
  split
  · exact h4.2
  · rename_i hlt
    refine ⟨h4, ?_⟩
    simp only [wfK, isCondLeaf, leafOK, Bool.true_and, decide_eq_true_eq]
    omega

theorem parseExecFlags_spec (cx : PCtx) : ∀ (fuel n B : Nat) (si bo : Bool), n < fuel →
    Spec n B (parseExecFlags cx fuel si bo) (fun _ => True) := by
  intro fuel
  induction fuel with
  | zero => intro n B si bo h; omega
  | succ fuel ih =>
    intro n B si bo hn s hs
    unfold parseExecFlags
    simp only [wp_bind]
    apply wp_peek cx _ _ hs (fun _ h => h)
    intro t s1 h1 hla _
    cases t <;> (try simp only [wp_failTok, wp_bind, wp_pure]) <;> try exact ⟨h1, trivial⟩
    rename_i k
    cases k <;> (try simp only [wp_failTok, wp_bind, wp_pure]) <;> try exact ⟨h1, trivial⟩
    all_goals
      apply wp_shift h1 hla (by simp)
      intro s2 h2 hpos _ _
      simp only [wp_ite, wp_failTok]
      split
      · exact h2.2
      · exact wp_of_spec (ih (n - 1) B _ _ (by omega)) h2 (Nat.sub_le _ _) (fun a s' h _ => ⟨h, trivial⟩)

theorem leafAt_spec (cx : PCtx) (mk : Nat → Expr) (W : CTree → Prop) (hW : ∀ l, W (.leaf (mk l))) (n B : Nat) :
    Spec n B (leafAt cx mk) W := by
  intro s hs
  unfold leafAt
  simp only [wp_bind, wp_curLine, wp_pure]
  exact ⟨hs, hW _⟩

theorem andJoin_spec (cx : PCtx) (acc : Option CTree) (a : CTree) (rx : Pat → Bool)
    (hacc : ∀ p, acc = some p → wfK rx .acts p = true) (ha : wfK rx .act a = true) (n B : Nat) :
    Spec n B (andJoin cx acc a) (fun r => ∃ p, r = some p ∧ wfK rx .acts p = true) := by
  intro s hs
  unfold andJoin
  simp only [wp_bind, wp_curLine, wp_pure]
  refine ⟨hs, ?_⟩
  cases acc with
  | none =>
    refine ⟨a, rfl, ?_⟩
    cases a <;> simp_all [wfK]
  | some p =>
    refine ⟨_, rfl, ?_⟩
    simp only [wfK, hacc p rfl, ha, Bool.and_self]

end Mdsort.Proofs.Conf
