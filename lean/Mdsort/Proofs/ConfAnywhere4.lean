import Mdsort.Proofs.ConfAnywhere3

/-!
# A defect behind a written prefix, part 4: the top level and `parseConfig`

* `rej_top`: a failing rule at a rule position (`Spec.RulePos`) makes the top-level loop fail;
* `rej_top_paths`: so does a `maildir` path that cannot be expanded, behind complete blocks;
* `rej_top_stdin`: so does the keyword `stdin` behind complete blocks one of which reads from stdin;
* `parseConfig_rejected`: a text on which the top-level loop fails is rejected by `parseConfig`, on line 1.
-/

namespace Mdsort.Proofs.Conf
open Mdsort Mdsort.Model Mdsort.Spec

variable {tl : Bytes}

theorem confOK_parts {rx : Pat → Bool} {bs : List PBlock} (hok : ConfOK rx bs = true) :
    (∀ b ∈ bs, blockOK rx b = true ∧ treePOK b.tree = true ∧ b.paths.all strOK = true) ∧ stdinOK [] bs = true := by
  simp only [ConfOK, Bool.and_eq_true, List.all_eq_true] at hok
  obtain ⟨hall, hstd⟩ := hok
  refine ⟨?_, hstd⟩
  intro b hb
  have := hall b hb
  exact ⟨this.1.1, this.1.2, by simpa [List.all_eq_true] using this.2⟩

/-- A failing rule at a rule position of a written configuration: the top-level loop fails. -/
theorem rej_top (cx : PCtx) (p : RulePos) (hok : p.ok cx.rxOk = true) (ts : List PTok)
    (h : BadRules cx tl (.kw .mtch :: ts)) :
    ∀ (fuel : Nat) (s : ParseSt), Up cx tl s (p.toks ++ (.kw .mtch :: ts)) → Rej (parseTop cx fuel []) s := by
  intro fuel s hs
  have hnl := hs.nl_eq
  simp only [RulePos.ok, Bool.and_eq_true] at hok
  obtain ⟨⟨⟨hpre, hpaths⟩, hstd⟩, hsteps⟩ := hok
  obtain ⟨hall', hstdOK⟩ := confOK_parts hpre
  have hbody := badRules_steps h p.steps hsteps
  have key := parseTop_prefix (NoErr := L1) cx hnl p.pre [] hall' hstdOK
    (headToks p.paths ++ (.lbrace :: (p.steps.flatMap RuleStep.toks ++ (.kw .mtch :: ts)))) (fun _ _ => False) ?_ fuel s
    (by simpa [RulePos.toks, List.append_assoc] using hs)
  · unfold Rej; simpa using key
  · intro fuel' s' h'
    simp only [List.nil_append]
    cases fuel' with
    | zero => simp [parseTop, wpl, outOfFuel]
    | succ fuel' =>
      unfold parseTop
      simp only [wpl_bind]
      by_cases hp : p.paths = [stdinStr]
      · simp only [headToks, if_pos hp, List.cons_append, List.nil_append] at h'
        apply wpl_peek_up cx _ _ h' rfl
        intro s1 h1
        simp only [tkOf, wpl_bind]
        apply wpl_shift_up h1
        intro s2 h2
        have hno : ((p.pre.map relabelBlock).any fun x => x.paths.any isStdinStr) = false := by
          rw [any_stdin_relabel]
          simpa [hp] using hstd
        simp only [hno, wpl_ite, Bool.false_eq_true, if_false, wpl_bind]
        unfold parseMaildirBody
        simp only [wpl_bind]
        refine wpl_of_rt (expectTk_rt cx .lbrace rfl) h2 ?_
        intro s3 h3
        exact (hbody fuel' none s3 h3).elim
      · simp only [headToks, if_neg hp, List.cons_append, List.nil_append, List.append_assoc] at h'
        apply wpl_peek_up cx _ _ h' rfl
        intro s1 h1
        simp only [tkOf, wpl_bind]
        apply wpl_shift_up h1
        intro s2 h2
        refine wpl_of_rt (parseStrings_rt cx p.paths fuel') h2 ?_
        intro s3 h3
        have hps : ∀ x ∈ p.paths, strOK x = true := by simpa [List.all_eq_true] using hpaths
        apply wpl_expandAll_up cx false p.paths hps h3
        unfold parseMaildirBody
        simp only [wpl_bind]
        refine wpl_of_rt (expectTk_rt cx .lbrace rfl) h3 ?_
        intro s4 h4
        exact (hbody fuel' none s4 h4).elim

/-- A `maildir` path that cannot be expanded, behind complete blocks: the top-level loop fails. -/
theorem rej_top_paths (cx : PCtx) (pre : List PBlock) (hpre : ConfOK cx.rxOk pre = true) (l1 l2 : List Bytes) (b : Bytes)
    (hb : BadRef false b) (h1 : ∀ x ∈ l1, strOK x = true) (ts : List PTok) :
    ∀ (fuel : Nat) (s : ParseSt), Up cx tl s (pre.flatMap blockToks ++ (.kw .maildir :: (strsToks (l1 ++ b :: l2) ++ ts))) →
      Rej (parseTop cx fuel []) s := by
  intro fuel s hs
  have hnl := hs.nl_eq
  obtain ⟨hall', hstdOK⟩ := confOK_parts hpre
  have key := parseTop_prefix (NoErr := L1) cx hnl pre [] hall' hstdOK
    (.kw .maildir :: (strsToks (l1 ++ b :: l2) ++ ts)) (fun _ _ => False) ?_ fuel s hs
  · unfold Rej; simpa using key
  · intro fuel' s' h'
    cases fuel' with
    | zero => simp [parseTop, wpl, outOfFuel]
    | succ fuel' =>
      unfold parseTop
      simp only [wpl_bind]
      apply wpl_peek_up cx _ _ h' rfl
      intro s1 h1'
      simp only [tkOf, wpl_bind]
      apply wpl_shift_up h1'
      intro s2 h2
      refine wpl_of_rt (parseStrings_rt cx (l1 ++ b :: l2) fuel') h2 ?_
      intro s3 h3
      exact wpl_expandAll_bad cx false b hb l1 l2 h1 h3

/-- The keyword `stdin` behind complete blocks one of which reads from stdin: the top-level loop fails. -/
theorem rej_top_stdin (cx : PCtx) (pre : List PBlock) (hpre : ConfOK cx.rxOk pre = true)
    (hany : (pre.any fun x => x.paths.any isStdinStr) = true) (ts : List PTok) :
    ∀ (fuel : Nat) (s : ParseSt), Up cx tl s (pre.flatMap blockToks ++ (.kw .stdin :: ts)) → Rej (parseTop cx fuel []) s := by
  intro fuel s hs
  have hnl := hs.nl_eq
  obtain ⟨hall', hstdOK⟩ := confOK_parts hpre
  have key := parseTop_prefix (NoErr := L1) cx hnl pre [] hall' hstdOK (.kw .stdin :: ts) (fun _ _ => False) ?_ fuel s hs
  · unfold Rej; simpa using key
  · intro fuel' s' h'
    simp only [List.nil_append]
    cases fuel' with
    | zero => simp [parseTop, wpl, outOfFuel]
    | succ fuel' =>
      unfold parseTop
      simp only [wpl_bind]
      apply wpl_peek_up cx _ _ h' rfl
      intro s1 h1
      simp only [tkOf, wpl_bind]
      apply wpl_shift_up h1
      intro s2 h2
      have hyes : ((pre.map relabelBlock).any fun x => x.paths.any isStdinStr) = true := by
        rw [any_stdin_relabel]; exact hany
      simp only [hyes, wpl_ite, if_true]
      exact h2.tokl

/-- What is behind the written tokens is nothing, or a blank and anything. -/
theorem tailOK_head {tl : Bytes} (h : tailOK tl = true) : ∀ c, tl.head? = some c → c = 32 := by
  intro c hc
  cases tl with
  | nil => simp at hc
  | cons x r =>
    simp only [List.head?_cons, Option.some.injEq] at hc
    subst hc
    simpa [tailOK] using h

/-- A text - written tokens, then anything - on which the top-level loop fails is rejected by `parseConfig`, and the
first diagnostic is on line 1. -/
theorem parseConfig_rejected (home : Bytes) (rx : Pat → Bool) (tks : List PTok) (tl : Bytes) (htl : tailOK tl = true)
    (hok : ∀ t ∈ tks, lexOK t = true)
    (h : ∀ (fuel : Nat) (s : ParseSt), Up { nl := countNl tl, home := home, rxOk := rx } tl s tks →
      Rej (parseTop { nl := countNl tl, home := home, rxOk := rx } fuel []) s) :
    parseConfig home [] rx (Spec.render tks ++ tl) = .error 1 := by
  have hnl : countNl (Spec.render tks ++ tl) = countNl tl := by
    rw [countNl_append, render_noNl tks hok]; omega
  have htot := (parseConfigFull_spec home [] rx (Spec.render tks ++ tl)).1
  unfold parseConfig parseConfigFull at htot ⊢
  simp only [macrosOfDefs, hnl] at htot ⊢
  have hs0 : Up { nl := countNl tl, home := home, rxOk := rx } tl
      ({ rest := Spec.render tks ++ tl, macros := [], tokLine := 1 } : ParseSt) tks :=
    Or.inl ⟨rfl, rfl, rfl, rfl, hok, tailOK_head htl, rfl, rfl⟩
  have := h ((Spec.render tks ++ tl).length + 1) _ hs0
  have h1 : parseTop { nl := countNl tl, home := home, rxOk := rx } ((Spec.render tks ++ tl).length + 1) []
      ({ rest := Spec.render tks ++ tl, macros := [], tokLine := 1 } : ParseSt) =
      parseTop { nl := countNl tl, home := home, rxOk := rx } ((Spec.render tks ++ tl).length + 1) []
      ({ rest := Spec.render tks ++ tl, macros := [] } : ParseSt) :=
    parseTop_tokLine _ _ _ ({ rest := Spec.render tks ++ tl, macros := [] } : ParseSt) rfl 1
  unfold Rej wpl at this
  rw [h1] at this
  split at this
  · exact this.elim
  · rename_i l s' heq
    rw [heq]
    simp only [this]
  · rename_i s' heq
    rw [heq] at htot
    exact absurd rfl htot

end Mdsort.Proofs.Conf
