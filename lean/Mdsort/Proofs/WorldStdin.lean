import Mdsort.Proofs.WorldExec

/-! `maildir_stdin`: the spool file holds the complete input, visibly and durably, whenever the
function reports success - under every fault plan.  Also: what the function leaves behind on
each of its failure paths (for the cleanup theorem). -/

namespace Mdsort.Proofs.World
open Mdsort Mdsort.Model

/-! ## worlds that differ only in the trace -/

def SameFsS (a b : World) : Prop :=
  b.dirs = a.dirs ∧ b.files = a.files ∧ b.nextFid = a.nextFid ∧ b.handles = a.handles

theorem SameFsS.refl (a : World) : SameFsS a a := ⟨rfl, rfl, rfl, rfl⟩

theorem SameFsS.trans {a b c : World} (h1 : SameFsS a b) (h2 : SameFsS b c) : SameFsS a c :=
  ⟨h2.1.trans h1.1, h2.2.1.trans h1.2.1, h2.2.2.1.trans h1.2.2.1, h2.2.2.2.trans h1.2.2.2⟩

theorem SameFsS.dir {a b : World} (h : SameFsS a b) (p : Bytes) : b.dir p = a.dir p := by
  unfold World.dir; rw [h.1]
theorem SameFsS.lookup {a b : World} (h : SameFsS a b) (p n : Bytes) : b.lookup p n = a.lookup p n := by
  unfold World.lookup; rw [h.dir]
theorem SameFsS.file {a b : World} (h : SameFsS a b) (g : Nat) : b.file g = a.file g := by
  unfold World.file; rw [h.2.1]
theorem SameFsS.obj {a b : World} (h : SameFsS a b) (x : Handle) : b.obj x = a.obj x := by
  unfold World.obj; rw [h.2.2.2]
theorem SameFsS.dirPath {a b : World} (h : SameFsS a b) (x : Handle) : b.dirPath x = a.dirPath x := by
  unfold World.dirPath; rw [h.obj]

theorem sameFs_of_core {w : World} {c : Call} {r : Res} (h : core w c r = w) : SameFsS w (stepWorld w c r) := by
  refine ⟨?_, ?_, ?_, ?_⟩
  · show (core w c r).dirs = w.dirs; rw [h]
  · show (core w c r).files = w.files; rw [h]
  · show (core w c r).nextFid = w.nextFid; rw [h]
  · show (core w c r).handles = w.handles; rw [h]

theorem sameFsS_err (w : World) (c : Call) (e : String)
    (h1 : ∀ d, c ≠ .closedir d) (h2 : ∀ d, c ≠ .close d) (h3 : ∀ d, c ≠ .fclose d) :
    SameFsS w (stepWorld w c (.err e)) :=
  sameFs_of_core (core_err w c e h1 h2 h3)

/-! ## frames: everything but some handles and one file is unchanged -/

structure SameBut (w0 w : World) (H : Handle → Prop) (fid : Nat) : Prop where
  dirs : w.dirs = w0.dirs
  nextFid : w.nextFid = w0.nextFid
  len : w.handles.length = w0.handles.length
  objs : ∀ h, ¬ H h → w.obj h = w0.obj h
  files : ∀ g, g ≠ fid → w.file g = w0.file g

theorem SameBut.refl (w : World) (H : Handle → Prop) (fid : Nat) : SameBut w w H fid :=
  ⟨rfl, rfl, rfl, fun _ _ => rfl, fun _ _ => rfl⟩

theorem SameBut.trans {w0 w1 w2 : World} {H : Handle → Prop} {fid : Nat}
    (a : SameBut w0 w1 H fid) (b : SameBut w1 w2 H fid) : SameBut w0 w2 H fid :=
  ⟨b.dirs.trans a.dirs, b.nextFid.trans a.nextFid, b.len.trans a.len,
   fun h hh => (b.objs h hh).trans (a.objs h hh), fun g hg => (b.files g hg).trans (a.files g hg)⟩

theorem SameBut.mono {w0 w : World} {H H' : Handle → Prop} {fid : Nat} (a : SameBut w0 w H fid)
    (hH : ∀ h, H h → H' h) : SameBut w0 w H' fid :=
  ⟨a.dirs, a.nextFid, a.len, fun h hh => a.objs h (fun x => hh (hH h x)), a.files⟩

theorem SameBut.ofSameFs {w0 w : World} (h : SameFsS w0 w) (H : Handle → Prop) (fid : Nat) : SameBut w0 w H fid :=
  ⟨h.1, h.2.2.1, by rw [h.2.2.2], fun x _ => h.obj x, fun g _ => h.file g⟩

theorem sameBut_setObj (w : World) (fd : Handle) (o : Obj) (H : Handle → Prop) (hH : H fd) (fid : Nat) :
    SameBut w (w.setObj fd o) H fid := by
  refine ⟨rfl, rfl, by simp, ?_, fun _ _ => rfl⟩
  intro h hh
  have : h ≠ fd := fun e => hh (e ▸ hH)
  simp [obj_setObj, this]

theorem sameBut_step {w : World} {c : Call} {r : Res} {H : Handle → Prop} {fid : Nat}
    (h : SameBut w (core w c r) H fid) : SameBut w (stepWorld w c r) H fid :=
  ⟨h.dirs, h.nextFid, h.len, h.objs, h.files⟩

/-! ## effects of read / write / fsync on a plain descriptor -/

theorem core_fsync_file_ok {w : World} {fd : Handle} {fid off : Nat} {wr : Bool} {f : File} (ho : w.obj fd = .file fid off wr)
    (hf : w.file fid = some f) (v : Nat) :
    core w (.fsync fd) (.ok v) = w.setFile fid { f with durable := f.data } := by
  simp [core, applyOk, ho, hf]

theorem core_read_ok {w : World} {fd : Handle} {fid off : Nat} {wr : Bool} {f : File} (ho : w.obj fd = .file fid off wr)
    (hf : w.file fid = some f) (n : Nat) (h : off + n ≤ f.data.length) (h2 : 0 < n ∨ off = f.data.length) :
    core w (.read fd) (.ok n) = w.setObj fd (.file fid (off + n) wr) := by
  rcases h2 with h2 | h2
  · simp [core, applyOk, ho, hf, h, h2]
  · subst h2
    have hn : n = 0 := by omega
    subst hn
    simp [core, applyOk, ho, hf]

theorem read_results (ft : Option Fault) {w : World} {fd : Handle} {fid off : Nat} {wr : Bool} {f : File}
    (ho : w.obj fd = .file fid off wr) (hf : w.file fid = some f) :
    (∃ e, faultResult ft w (.read fd) = .err e) ∨
    (∃ n, faultResult ft w (.read fd) = .ok n ∧ n ≤ f.data.length - off ∧ (n = 0 → f.data.length - off = 0)) := by
  have hp : predict w (.read fd) = .ok (f.data.length - off) := by simp [predict, ho, hf]
  unfold faultResult
  split
  · exact .inr ⟨_, hp, Nat.le_refl _, fun h => h⟩
  · exact .inl ⟨_, rfl⟩
  · rename_i n
    simp only [hp]
    by_cases hc : (decide (0 < n) && decide (n < f.data.length - off)) = true
    · simp only [hc, if_true]
      simp only [Bool.and_eq_true, decide_eq_true_eq] at hc
      exact .inr ⟨_, rfl, by omega, by omega⟩
    · simp only [hc]
      exact .inr ⟨_, rfl, Nat.le_refl _, fun h => h⟩

theorem fsync_results (ft : Option Fault) (w : World) (fd : Handle) :
    faultResult ft w (.fsync fd) = .ok 0 ∨ ∃ e, faultResult ft w (.fsync fd) = .err e :=
  results_simple ft w _ 0 (by intro _ h; cases h) (by intro _ _ h; cases h) rfl

/-! ## the copy loops of `maildir_stdin` -/

/-- The inner loop: `write` until the chunk is gone.  It reports success only when every byte of
the chunk has been appended to the file (a short `write` is continued, never accepted). -/
theorem spec_wr (fd fid : Nat) (fuel : Nat) (chunk : Bytes) {w : World} {acc dur : Bytes} {off : Nat}
    (ho : w.obj fd = .file fid off true) (hf : w.file fid = some ⟨acc, dur⟩) :
    wp (fun _ => True) (copyStdin.wr fd fuel chunk)
      (fun e w' => SameBut w w' (fun h => h = fd) fid ∧
        ∃ off' c', w'.obj fd = .file fid off' true ∧ w'.file fid = some ⟨acc ++ c', dur⟩ ∧ (e = false → c' = chunk)) w := by
  induction fuel generalizing chunk w acc off with
  | zero =>
    unfold copyStdin.wr
    exact ⟨SameBut.refl _ _ _, off, [], ho, by simpa using hf, by intro h; cases h⟩
  | succ fuel ih =>
    unfold copyStdin.wr
    simp only [bind_eq, pure_eq, call_bind]
    split
    · rename_i hemp
      have : chunk = [] := by simpa using hemp
      exact ⟨SameBut.refl _ _ _, off, [], ho, by simpa using hf, fun _ => this.symm⟩
    · rename_i hne
      have hpos : 0 < chunk.length := by
        cases chunk with
        | nil => simp at hne
        | cons _ _ => simp
      refine wp_call (fun r => (∃ n, r = .ok n ∧ 0 < n ∧ n ≤ chunk.length) ∨ ∃ e, r = .err e) ?_ ?_
      · intro ft
        rcases faultResult_write ft w fd chunk with ⟨n, hn, h | h⟩ | h
        · exact .inl ⟨n, hn, by omega, by omega⟩
        · exact .inl ⟨n, hn, h.1, by omega⟩
        · exact .inr h
      · rintro r (⟨n, rfl, hn0, hnle⟩ | ⟨e, rfl⟩)
        · refine ⟨trivial, ?_⟩
          have hc := core_write_file_ok ho hf chunk n hn0 hnle
          have hlt : fd < w.handles.length := lt_of_obj_ne_closed w fd (by simp [ho])
          have hsb : SameBut w (stepWorld w (.write fd chunk) (.ok n)) (fun h => h = fd) fid := by
            apply sameBut_step
            rw [hc]
            refine ⟨rfl, rfl, by simp, ?_, ?_⟩
            · intro h hh
              simp [obj_setObj, hh]
            · intro g hg
              simp [file_setFile, hg]
          have ho1 : (stepWorld w (.write fd chunk) (.ok n)).obj fd = .file fid (off + n) true := by
            rw [stepWorld_obj, hc]; simp [obj_setObj, hlt]
          have hf1 : (stepWorld w (.write fd chunk) (.ok n)).file fid = some ⟨acc ++ chunk.take n, dur⟩ := by
            rw [stepWorld_file, hc]; simp [file_setFile]
          have hn0' : (n == 0) = false := by simp; omega
          simp only [hn0', Bool.false_eq_true, if_false]
          refine wp_mono (ih (chunk.drop n) ho1 hf1) ?_
          rintro e w' ⟨sb, off', c', h1, h2, h3⟩
          refine ⟨hsb.trans sb, off', chunk.take n ++ c', h1, by simpa [List.append_assoc] using h2, ?_⟩
          intro he
          rw [h3 he, List.take_append_drop]
        · refine ⟨trivial, ?_⟩
          have hs := sameFsS_err w (.write fd chunk) e (by intro _ h; cases h) (by intro _ h; cases h) (by intro _ h; cases h)
          exact ⟨SameBut.ofSameFs hs _ _, off, [], by rw [hs.obj]; exact ho, by rw [hs.file]; simpa using hf,
            by intro h; cases h⟩

/-- The outer loop: `read` standard input until it returns 0.  Success means that the file holds
the whole input (a short `read` is followed by another `read`; a failed one is an error). -/
theorem spec_copyStdin (fd fid sfid : Nat) (input : Bytes) (hfd : fd ≠ 0) (hfid : fid ≠ sfid) (fuel : Nat) (k : Nat)
    {w : World} {fs : File} {dur : Bytes} {off : Nat} (hk : k ≤ input.length)
    (h0 : w.obj 0 = .file sfid k false) (hs : w.file sfid = some fs) (hsd : fs.data = input)
    (ho : w.obj fd = .file fid off true) (hf : w.file fid = some ⟨input.take k, dur⟩) :
    wp (fun _ => True) (copyStdin fd fuel (input.drop k))
      (fun e w' => SameBut w w' (fun h => h = 0 ∨ h = fd) fid ∧
        ∃ off' c, w'.obj fd = .file fid off' true ∧ w'.file fid = some ⟨c, dur⟩ ∧ (e = false → c = input)) w := by
  induction fuel generalizing k w off with
  | zero =>
    unfold copyStdin
    exact ⟨SameBut.refl _ _ _, off, _, ho, hf, by intro h; cases h⟩
  | succ fuel ih =>
    unfold copyStdin
    simp only [bind_eq, pure_eq, call_bind]
    have hlt0 : 0 < w.handles.length := lt_of_obj_ne_closed w 0 (by simp [h0])
    refine wp_call (fun r => (∃ e, r = .err e) ∨ ∃ n, r = .ok n ∧ n ≤ input.length - k ∧ (n = 0 → input.length - k = 0)) ?_ ?_
    · intro ft
      have := read_results ft h0 hs
      rw [hsd] at this
      exact this
    · rintro r (⟨e, rfl⟩ | ⟨n, rfl, hnle, hn0⟩)
      · refine ⟨trivial, ?_⟩
        have hsf := sameFsS_err w (.read 0) e (by intro _ h; cases h) (by intro _ h; cases h) (by intro _ h; cases h)
        exact ⟨SameBut.ofSameFs hsf _ _, off, _, by rw [hsf.obj]; exact ho, by rw [hsf.file]; exact hf, by intro h; cases h⟩
      · refine ⟨trivial, ?_⟩
        have hc := core_read_ok h0 hs n (by rw [hsd]; omega) (by rw [hsd]; omega)
        have hsb : SameBut w (stepWorld w (.read 0) (.ok n)) (fun h => h = 0 ∨ h = fd) fid := by
          apply sameBut_step
          rw [hc]
          exact sameBut_setObj w 0 _ _ (.inl rfl) fid
        have h01 : (stepWorld w (.read 0) (.ok n)).obj 0 = .file sfid (k + n) false := by
          rw [stepWorld_obj, hc]; simp [obj_setObj, hlt0]
        have ho1 : (stepWorld w (.read 0) (.ok n)).obj fd = .file fid off true := by
          rw [stepWorld_obj, hc]; simp [obj_setObj, hfd, ho]
        have hs1 : (stepWorld w (.read 0) (.ok n)).file sfid = some fs := by
          rw [stepWorld_file, hc]; simpa using hs
        have hf1 : (stepWorld w (.read 0) (.ok n)).file fid = some ⟨input.take k, dur⟩ := by
          rw [stepWorld_file, hc]; simpa using hf
        by_cases hz : n = 0
        · subst hz
          simp only [beq_self_eq_true, if_true]
          refine ⟨hsb, off, _, ho1, hf1, ?_⟩
          intro _
          have : k = input.length := by have := hn0 rfl; omega
          rw [this, List.take_length]
        · have hz' : (n == 0) = false := by simp [hz]
          simp only [hz', Bool.false_eq_true, if_false]
          refine wp_bind_mono (spec_wr fd fid (n + 1) ((input.drop k).take n) ho1 hf1) ?_
          rintro e w2 ⟨sb2, off2, c2, ho2, hf2, hc2⟩
          have sb2' : SameBut (stepWorld w (.read 0) (.ok n)) w2 (fun h => h = 0 ∨ h = fd) fid :=
            sb2.mono (fun h hh => .inr hh)
          cases e with
          | true =>
            simp only [if_true]
            exact ⟨hsb.trans sb2', off2, _, ho2, hf2, by intro h; cases h⟩
          | false =>
            simp only [Bool.false_eq_true, if_false, List.drop_drop]
            have h02 : w2.obj 0 = .file sfid (k + n) false := by
              rw [sb2.objs 0 (fun e => hfd e.symm)]; exact h01
            have hs2 : w2.file sfid = some fs := by
              rw [sb2.files sfid (fun e => hfid e.symm)]; exact hs1
            have hf2' : w2.file fid = some ⟨input.take (k + n), dur⟩ := by
              rw [hf2, hc2 rfl, List.take_add]
            have := ih (k + n) (by omega) h02 hs2 ho2 hf2'
            refine wp_mono this ?_
            rintro e w3 ⟨sb3, off3, c3, ho3, hf3, hc3⟩
            exact ⟨(hsb.trans sb2').trans sb3, off3, c3, ho3, hf3, hc3⟩

/-! ## `maildir_genname` without a tracked message -/

/-- The name `maildir_genname` tries for counter value `count`. -/
def gennameName (env : PEnv) (flags : Option Bytes) (count : Nat) : Bytes :=
  decimalInt env.now ++ [46] ++ decimal env.pid ++ [95] ++ decimal count ++ [46] ++ env.host ++ flags.getD []

theorem spec_genname_plain (env : PEnv) (md : Maildir) (flags : Option Bytes) (fuel count : Nat) {w : World} :
    wp (fun _ => True) (genname env md flags fuel count)
      (fun res w' =>
        (res = none ∧ SameFsS w w') ∨
        (∃ fd name d p w3, res = some (fd, name) ∧ md.dirH = some d ∧ SameFsS w w3 ∧ w3.dirPath d = some p ∧
          w3.lookup p name = none ∧ fd = w3.handles.length ∧
          w' = stepWorld w3 (.openExcl d name) (.ok w3.handles.length) ∧ (95 : UInt8) ∈ name ∧
          ∃ k, name = gennameName env flags k)) w := by
  induction fuel generalizing count w with
  | zero => exact .inl ⟨rfl, SameFsS.refl _⟩
  | succ fuel ih =>
    unfold genname
    simp only [bind_eq, pure_eq, call_bind]
    have hmem : (95 : UInt8) ∈ (decimalInt env.now ++ [46] ++ decimal env.pid ++ [95] ++ decimal ((count + 1) % gennameWrap) ++ [46] ++
          env.host ++ flags.getD []) := by simp
    generalize hnm : (decimalInt env.now ++ [46] ++ decimal env.pid ++ [95] ++ decimal ((count + 1) % gennameWrap) ++ [46] ++ env.host ++
          flags.getD []) = nm at hmem ⊢
    split
    · exact .inl ⟨rfl, SameFsS.refl _⟩
    · split
      · exact .inl ⟨rfl, SameFsS.refl _⟩
      · rename_i d hd
        intro f
        refine ⟨trivial, ?_⟩
        rcases openExcl_results f w d nm with ⟨e, he⟩ | ⟨he, p, hp, hl⟩
        · rw [he]
          have hs := sameFsS_err w (.openExcl d nm) e (by intro _ h; cases h) (by intro _ h; cases h) (by intro _ h; cases h)
          dsimp only
          split
          · refine wp_mono (ih (count + 1)) ?_
            rintro res w' (⟨h1, h2⟩ | ⟨fd, name, d', p', w3, h1, h2, h3, h4⟩)
            · exact .inl ⟨h1, hs.trans h2⟩
            · exact .inr ⟨fd, name, d', p', w3, h1, h2, hs.trans h3, h4⟩
          · exact .inl ⟨rfl, hs⟩
        · rw [he]
          exact .inr ⟨_, _, d, p, w, rfl, hd, SameFsS.refl _, hp, hl, rfl, rfl, hmem, (count + 1) % gennameWrap, hnm.symm⟩

/-! ## standard input -/

/-- Handle 0 is a read-only descriptor at offset 0 on an existing file that holds `input`. -/
def StdinIs (w : World) (input : Bytes) : Prop :=
  ∃ sfid fs, w.obj 0 = .file sfid 0 false ∧ w.file sfid = some fs ∧ fs.data = input ∧ sfid < w.nextFid

/-- Handle 0 and its file, across a call that neither acts on handle 0 nor writes. -/
theorem stdin_step {w : World} {sfid : Nat} {o : Obj} {fs : File} (c : Call) (r : Res)
    (h0 : w.obj 0 = o) (ho : o ≠ .closed) (hs : w.file sfid = some fs) (hlt : sfid < w.nextFid)
    (hsub : Call.subject c ≠ some 0) (hfs : fileSafe w sfid c) :
    (stepWorld w c r).obj 0 = o ∧ (stepWorld w c r).file sfid = some fs ∧ sfid < (stepWorld w c r).nextFid := by
  have hl : 0 < w.handles.length := lt_of_obj_ne_closed w 0 (by rw [h0]; exact ho)
  refine ⟨?_, ?_, ?_⟩
  · rw [stepWorld_obj, core_obj w c r 0 hl hsub]; exact h0
  · rw [stepWorld_file, core_file w c r sfid hlt hfs]; exact hs
  · rw [stepWorld_nextFid]; exact Nat.lt_of_lt_of_le hlt (core_nextFid w c r)

theorem sameBut_close (w : World) (fd : Handle) (r : Res) (H : Handle → Prop) (hH : H fd) (fid : Nat) :
    SameBut w (stepWorld w (.close fd) r) H fid := by
  apply sameBut_step; rw [core_close]; exact sameBut_setObj w fd _ H hH fid

theorem file_close (w : World) (fd : Handle) (r : Res) (g : Nat) : (stepWorld w (.close fd) r).file g = w.file g := by
  rw [stepWorld_file, core_close]; rfl

theorem sameBut_setFile (w : World) (fid : Nat) (f : File) (H : Handle → Prop) : SameBut w (w.setFile fid f) H fid :=
  ⟨rfl, rfl, rfl, fun _ _ => rfl, fun g hg => by simp [file_setFile, hg]⟩

/-- Copy, `fsync`, `close`: the part of `maildir_stdin` after the spool file has been created. -/
theorem spec_stdinTail (input : Bytes) (md : Maildir) (fd : Handle) (name : Bytes) (fid sfid : Nat) {w : World} {fs : File}
    (hfd : fd ≠ 0) (hfid : fid ≠ sfid) (h0 : w.obj 0 = .file sfid 0 false) (hs : w.file sfid = some fs) (hsd : fs.data = input)
    (ho : w.obj fd = .file fid 0 true) (hf : w.file fid = some ⟨[], []⟩) :
    wp (fun _ => True)
      ((copyStdin fd (input.length + 2) input).bind fun e1 =>
        (if e1 = true then Prog.ret true else Prog.call (Call.fsync fd) fun r => Prog.ret !isOk r).bind fun e2 =>
          Prog.call (Call.close fd) fun r3 => Prog.ret (md, e2 || !isOk r3, some name))
      (fun r w' => r.1 = md ∧ r.2.2 = some name ∧ SameBut w w' (fun h => h = 0 ∨ h = fd) fid ∧
        (∃ c dur, w'.file fid = some ⟨c, dur⟩) ∧ (r.2.1 = false → w'.file fid = some ⟨input, input⟩)) w := by
  have hcopy := spec_copyStdin fd fid sfid input hfd hfid (input.length + 2) 0 (Nat.zero_le _) h0 hs hsd ho (by simpa using hf)
  simp only [List.drop_zero] at hcopy
  refine wp_bind_mono hcopy ?_
  rintro e1 w1 ⟨sb1, off1, c1, ho1, hf1, hc1⟩
  cases e1 with
  | true =>
    simp only [if_true, ret_bind]
    refine wp_call_any fun r3 => ⟨trivial, ?_⟩
    refine ⟨rfl, rfl, sb1.trans (sameBut_close w1 fd r3 _ (.inr rfl) fid), ⟨c1, [], ?_⟩, ?_⟩
    · rw [file_close]; exact hf1
    · intro h; simp at h
  | false =>
    simp only [Bool.false_eq_true, if_false, call_bind']
    refine wp_call (fun r => r = .ok 0 ∨ ∃ e, r = .err e) (fun ft => fsync_results ft _ _) ?_
    rintro r (rfl | ⟨e, rfl⟩)
    · refine ⟨trivial, ?_⟩
      have hc := core_fsync_file_ok ho1 hf1 0
      have hc1' : c1 = input := hc1 rfl
      subst hc1'
      have hf2 : (stepWorld w1 (.fsync fd) (.ok 0)).file fid = some ⟨c1, c1⟩ := by
        rw [stepWorld_file, hc]; simp [file_setFile]
      have sb2 : SameBut w1 (stepWorld w1 (.fsync fd) (.ok 0)) (fun h => h = 0 ∨ h = fd) fid := by
        apply sameBut_step; rw [hc]; exact sameBut_setFile w1 fid _ _
      simp only [ret_bind]
      refine wp_call_any fun r3 => ⟨trivial, ?_⟩
      refine ⟨rfl, rfl, (sb1.trans sb2).trans (sameBut_close _ fd r3 _ (.inr rfl) fid), ⟨c1, c1, ?_⟩, ?_⟩
      · rw [file_close]; exact hf2
      · intro _; rw [file_close]; exact hf2
    · refine ⟨trivial, ?_⟩
      have hsf := sameFsS_err w1 (.fsync fd) e (by intro _ h; cases h) (by intro _ h; cases h) (by intro _ h; cases h)
      simp only [ret_bind]
      refine wp_call_any fun r3 => ⟨trivial, ?_⟩
      refine ⟨rfl, rfl, (sb1.trans (SameBut.ofSameFs hsf _ _)).trans (sameBut_close _ fd r3 _ (.inr rfl) fid), ⟨c1, [], ?_⟩, ?_⟩
      · rw [file_close, hsf.file]; exact hf1
      · intro h; simp [isOk] at h

/-! ## `maildir_stdin` -/

/-- The value `maildir_stdin` starts from (`calloc`, `md_subdir = SUBDIR_NEW`, `MAILDIR_WALK | MAILDIR_STDIN`). -/
def md0 : Maildir := { root := [], path := [], dirH := none, subdir := .new, walk := true, stdin := true }

/-- The directories of `w` plus the two the spool consists of. -/
def spoolDirs (w : World) (tmpl p : Bytes) : World := { w with dirs := w.dirs ++ [(tmpl, []), (p, [])] }

/-- Everything `maildir_stdin` can leave behind, by the place where it stopped. -/
def StdinPost (env : PEnv) (input : Bytes) (w : World) (r : Maildir × Bool × Option Bytes) (w' : World) : Prop :=
  (r = (md0, true, none) ∧ w'.dirs = w.dirs) ∨
  ∃ tmpl, pathjoin PATH_MAX env.tmpdir (ofString "mdsort-XXXXXXXX") = some tmpl ∧
    ((r = ({ md0 with root := tmpl }, true, none) ∧ w'.dirs = w.dirs ++ [(tmpl, [])]) ∨
     ∃ p, pathjoin PATH_MAX tmpl (subdirName .new) = some p ∧
       ((r = ({ md0 with root := tmpl, path := p }, true, none) ∧
          (w'.dirs = w.dirs ++ [(tmpl, [])] ∨ w'.dirs = w.dirs ++ [(tmpl, []), (p, [])])) ∨
        (∃ d, r = ({ md0 with root := tmpl, path := p, dirH := some d }, true, none) ∧
          w'.dirs = w.dirs ++ [(tmpl, []), (p, [])] ∧ w'.dirPath d = some p ∧ w.handles.length ≤ d) ∨
        (∃ d name fid, r.1 = { md0 with root := tmpl, path := p, dirH := some d } ∧ r.2.2 = some name ∧
          w'.dirs = ((spoolDirs w tmpl p).bind p name fid).dirs ∧ w'.dirPath d = some p ∧
          w.handles.length ≤ d ∧ d < w'.handles.length ∧
          w'.lookup p name = some fid ∧ fid < w'.nextFid ∧ w.nextFid ≤ fid ∧ (∃ c dur, w'.file fid = some ⟨c, dur⟩) ∧
          (r.2.1 = false → w'.file fid = some ⟨input, input⟩) ∧ (95 : UInt8) ∈ name ∧
          w'.obj d = .dir p none 0 ∧ ∃ k, name = gennameName env none k)))

theorem dir_isSome_of_mem {w : World} {p : Bytes} {es : List (Bytes × Nat)} (h : (p, es) ∈ w.dirs) : (w.dir p).isSome := by
  unfold World.dir
  rw [Option.isSome_map, List.find?_isSome]
  exact ⟨(p, es), h, by simp⟩

theorem bind_dirs_congr {a b : World} (h : a.dirs = b.dirs) (p n : Bytes) (fid : Nat) :
    (a.bind p n fid).dirs = (b.bind p n fid).dirs := by
  unfold World.bind World.dir World.setDir
  rw [h]
  split <;> simp [h]

theorem spec_maildirStdin (env : PEnv) (input : Bytes) {w : World} (hin : StdinIs w input) :
    wp (fun _ => True) (maildirStdin env input) (StdinPost env input w) w := by
  obtain ⟨sfid, fs, h0, hs, hsd, hslt⟩ := hin
  unfold maildirStdin gennameStart
  simp only [bind_eq, pure_eq, call_bind]
  split
  · exact .inl ⟨rfl, rfl⟩
  rename_i tmpl htmpl
  refine wp_call (fun r => r = .name tmpl ∨ ∃ e, r = .err e) ?_ ?_
  · intro ft
    rcases faultResult_cases ft w (.mkdtemp tmpl) (by intro _ h; cases h) (by intro _ _ h; cases h) with h | h
    · exact .inl h
    · exact .inr h
  rintro r (rfl | ⟨e, rfl⟩)
  rotate_left
  · refine ⟨trivial, ?_⟩
    exact .inl ⟨rfl, (sameFsS_err w _ e (by intro _ h; cases h) (by intro _ h; cases h) (by intro _ h; cases h)).1⟩
  refine ⟨trivial, ?_⟩
  have hd1 : (stepWorld w (.mkdtemp tmpl) (.name tmpl)).dirs = w.dirs ++ [(tmpl, [])] := by
    show (core w (.mkdtemp tmpl) (.name tmpl)).dirs = _
    simp [core, applyOk]
  obtain ⟨h01, hs1, hslt1⟩ := stdin_step (.mkdtemp tmpl) (.name tmpl) h0 (by simp) hs hslt (by simp [Call.subject]) trivial
  have hlen1 : w.handles.length ≤ (stepWorld w (.mkdtemp tmpl) (.name tmpl)).handles.length := by
    rw [stepWorld_handles]; exact core_len w _ _
  have hnf1 : w.nextFid ≤ (stepWorld w (.mkdtemp tmpl) (.name tmpl)).nextFid := by
    rw [stepWorld_nextFid]; exact core_nextFid w _ _
  generalize stepWorld w (.mkdtemp tmpl) (.name tmpl) = w1 at hd1 h01 hs1 hslt1 hlen1 hnf1 ⊢
  dsimp only
  split
  · exact .inr ⟨tmpl, htmpl, .inl ⟨rfl, hd1⟩⟩
  rename_i p hp
  refine wp_call (fun r => r = .ok 0 ∨ ∃ e, r = .err e)
    (fun ft => results_simple ft w1 _ 0 (by intro _ h; cases h) (by intro _ _ h; cases h) rfl) ?_
  rintro r (rfl | ⟨e, rfl⟩)
  rotate_left
  · refine ⟨trivial, ?_⟩
    simp only [isOk, Bool.not_false, if_true]
    have := (sameFsS_err w1 (.mkdir p) e (by intro _ h; cases h) (by intro _ h; cases h) (by intro _ h; cases h)).1
    exact .inr ⟨tmpl, htmpl, .inr ⟨p, hp, .inl ⟨rfl, .inl (this.trans hd1)⟩⟩⟩
  refine ⟨trivial, ?_⟩
  have hd2 : (stepWorld w1 (.mkdir p) (.ok 0)).dirs = w.dirs ++ [(tmpl, []), (p, [])] := by
    show (core w1 (.mkdir p) (.ok 0)).dirs = _
    simp [core, applyOk, hd1]
  obtain ⟨h02, hs2, hslt2⟩ := stdin_step (.mkdir p) (.ok 0) h01 (by simp) hs1 hslt1 (by simp [Call.subject]) trivial
  have hlen2 : w.handles.length ≤ (stepWorld w1 (.mkdir p) (.ok 0)).handles.length := by
    rw [stepWorld_handles]; exact Nat.le_trans hlen1 (core_len w1 _ _)
  have hnf2 : w.nextFid ≤ (stepWorld w1 (.mkdir p) (.ok 0)).nextFid := by
    rw [stepWorld_nextFid]; exact Nat.le_trans hnf1 (core_nextFid w1 _ _)
  generalize stepWorld w1 (.mkdir p) (.ok 0) = w2 at hd2 h02 hs2 hslt2 hlen2 hnf2 ⊢
  simp only [isOk, Bool.not_true, Bool.false_eq_true, if_false]
  unfold maildirOpendir
  simp only [bind_eq, pure_eq, call_bind, call_bind']
  intro ft
  refine ⟨trivial, ?_⟩
  rcases opendir_results ft w2 p with ⟨e, he⟩ | ⟨he, hdp⟩
  · rw [he]
    have := (sameFsS_err w2 (.opendir p) e (by intro _ h; cases h) (by intro _ h; cases h) (by intro _ h; cases h)).1
    simp only [ret_bind, if_true]
    exact .inr ⟨tmpl, htmpl, .inr ⟨p, hp, .inl ⟨rfl, .inr (this.trans hd2)⟩⟩⟩
  rw [he]
  have hc3 := core_opendir_ok hdp w2.handles.length
  have hd3 : (stepWorld w2 (.opendir p) (.ok w2.handles.length)).dirs = w.dirs ++ [(tmpl, []), (p, [])] := by
    rw [stepWorld_dirs, hc3]; exact hd2
  have hdp3 : (stepWorld w2 (.opendir p) (.ok w2.handles.length)).dirPath w2.handles.length = some p := by
    rw [stepWorld_dirPath, hc3]; simp [World.dirPath, obj_newHandle]
  have hlen3 : (stepWorld w2 (.opendir p) (.ok w2.handles.length)).handles.length = w2.handles.length + 1 := by
    rw [stepWorld_handles, hc3]; simp
  have hob3 : (stepWorld w2 (.opendir p) (.ok w2.handles.length)).obj w2.handles.length = .dir p none 0 := by
    rw [stepWorld_obj, hc3]; simp [obj_newHandle]
  obtain ⟨h03, hs3, hslt3⟩ := stdin_step (.opendir p) (.ok w2.handles.length) h02 (by simp) hs2 hslt2 (by simp [Call.subject]) trivial
  have hnf3 : w.nextFid ≤ (stepWorld w2 (.opendir p) (.ok w2.handles.length)).nextFid := by
    rw [stepWorld_nextFid]; exact Nat.le_trans hnf2 (core_nextFid w2 _ _)
  clear he hc3
  generalize hd : w2.handles.length = d at hd3 hdp3 hlen3 hob3 h03 hs3 hslt3 hnf3 ⊢
  generalize stepWorld w2 (.opendir p) (.ok d) = w3 at hd3 hdp3 hlen3 hob3 h03 hs3 hslt3 hnf3 ⊢
  simp only [ret_bind, Bool.false_eq_true, if_false]
  refine wp_bind_mono (spec_genname_plain env _ none gennameAttempts _) ?_
  rintro g w4 (⟨rfl, hsf⟩ | ⟨fd, name, d', p', w3', rfl, hd', hsf, hdp', hl', hfd', rfl, hname, hk⟩)
  · refine .inr ⟨tmpl, htmpl, .inr ⟨p, hp, .inr (.inl ⟨d, rfl, hsf.1.trans hd3, by rw [hsf.dirPath]; exact hdp3, by omega⟩)⟩⟩
  · dsimp only at hd'
    cases hd'
    have hp' : p' = p := by
      rw [hsf.dirPath, hdp3] at hdp'; cases hdp'; rfl
    subst p'
    have nf := newFile_of_openExcl hdp' hl'
    subst hfd'
    have hdpos : 0 < d := by
      have h1 : (0 : Nat) < w2.handles.length := lt_of_obj_ne_closed w2 0 (by rw [h02]; simp)
      omega
    have hfdne : w3'.handles.length ≠ 0 := by
      have : 0 < w3'.handles.length := lt_of_obj_ne_closed w3' 0 (by rw [hsf.obj, h03]; simp)
      omega
    have hfidne : w3'.nextFid ≠ sfid := by
      have : sfid < w3'.nextFid := by rw [hsf.2.2.1]; exact hslt3
      omega
    obtain ⟨h04, hs4, hslt4⟩ := stdin_step (.openExcl d name) (.ok w3'.handles.length) ((hsf.obj 0).trans h03)
      (by simp) ((hsf.file sfid).trans hs3) (by rw [hsf.2.2.1]; exact hslt3) (by simp [Call.subject]) trivial
    have hd4 : (stepWorld w3' (.openExcl d name) (.ok w3'.handles.length)).dirs = ((spoolDirs w tmpl p).bind p name w3'.nextFid).dirs := by
      rw [stepWorld_dirs, core_openExcl_ok hdp' hl']
      simp only [dirs_newHandle]
      apply bind_dirs_congr
      simp [spoolDirs, hsf.1, hd3]
    have hdir3 : (w3'.dir p).isSome :=
      dir_isSome_of_mem (es := []) (by rw [hsf.1, hd3]; simp)
    have hbound := nf.bound (by
      rw [stepWorld_dir]
      exact core_dir_isSome w3' (.openExcl d name) (.ok w3'.handles.length) p hdir3 (by intro _ h; cases h))
    refine wp_mono (spec_stdinTail input _ _ name w3'.nextFid sfid hfdne hfidne h04 hs4 hsd nf.obj nf.file) ?_
    rintro r w5 ⟨hr1, hr2, sb, hex, hok⟩
    refine .inr ⟨tmpl, htmpl, .inr ⟨p, hp, .inr (.inr ⟨d, name, w3'.nextFid, hr1, hr2, sb.dirs.trans hd4, ?_, by omega, ?_, ?_, ?_, ?_, hex, hok, hname, ?_, hk⟩)⟩⟩
    · rw [← nf.dirPath]
      apply dirPath_congr
      apply sb.objs
      have h1 : (d : Nat) < w3'.handles.length := nf.dLt
      show ¬ (d = 0 ∨ d = w3'.handles.length)
      omega
    · rw [sb.len]; exact Nat.lt_trans nf.dLt nf.fdLt
    · rw [lookup_of_dirs sb.dirs]; exact hbound
    · rw [sb.nextFid]; exact nf.fidLt
    · rw [hsf.2.2.1]; exact hnf3
    · have h1 : (d : Nat) < w3'.handles.length := nf.dLt
      rw [sb.objs d (by show ¬ (d = 0 ∨ d = w3'.handles.length); omega), stepWorld_obj,
        core_obj w3' _ _ d h1 (by simp [Call.subject]), hsf.obj]
      exact hob3

end Mdsort.Proofs.World
