import Mdsort.Model.Strptime
import Mdsort.Spec.Rfc5322Date
import Mdsort.Proofs.FlagsTime

/-!
# C15 - the text of an RFC 5322 date-time through the model of `strptime` (helpers for Props/C15.lean)

The printer of Spec/Rfc5322Date.lean produces tokens; per directive of Model/Strptime.lean there is a lemma saying what
the directive does on the token it is meant for (names by finite case analysis over the 7 / 12 names of the grammar in
lower case plus a lemma about the case-insensitive comparison; numbers by unfolding `get_number`), then one lemma per
group of directives (`%a, ` / `%d %b %Y %H:%M` / `:%S`), the loop of `timeparse` over the parsed table
(`layouts_parse` is the only place where the content of `Gen.dateFormats` enters), and `time_parse` on top
(`Proofs.true_age`: `timegm` = day counting, numeric zone).
-/

namespace Mdsort.Proofs.Strp
open Mdsort Mdsort.Model

theorem forall_uint8 {P : UInt8 → Prop} (h : ∀ n < 256, P (UInt8.ofNat n)) (c : UInt8) : P c := by
  have := h c.toNat c.toNat_lt
  rwa [UInt8.ofNat_toNat] at this

theorem tolower_idem (c : UInt8) : tolower (tolower c) = tolower c :=
  forall_uint8 (P := fun c => tolower (tolower c) = tolower c) (by decide +kernel) c

theorem tolower_flip (c : UInt8) : tolower (Spec.flipCase c) = tolower c :=
  forall_uint8 (P := fun c => tolower (Spec.flipCase c) = tolower c) (by decide +kernel) c

theorem islower_tolower_of_alpha (c : UInt8) : isalpha c = true → islower (tolower c) = true :=
  forall_uint8 (P := fun c => isalpha c = true → islower (tolower c) = true) (by decide +kernel) c

theorem islower_tolower_of_not_alpha (c : UInt8) : isalpha c = false → islower (tolower c) = false :=
  forall_uint8 (P := fun c => isalpha c = false → islower (tolower c) = false) (by decide +kernel) c

theorem isalpha_tolower (c : UInt8) : isalpha (tolower c) = isalpha c :=
  forall_uint8 (P := fun c => isalpha (tolower c) = isalpha c) (by decide +kernel) c

theorem not_space_of_alpha (c : UInt8) : isalpha c = true → isspace c = false :=
  forall_uint8 (P := fun c => isalpha c = true → isspace c = false) (by decide +kernel) c

theorem tolower_ne_of_alpha_of_not (a c : UInt8) (ha : isalpha a = true) (hc : isalpha c = false) :
    (tolower a == tolower c) = false := by
  have h1 := islower_tolower_of_alpha a ha
  have h2 := islower_tolower_of_not_alpha c hc
  cases h : tolower a == tolower c with
  | false => rfl
  | true =>
    have e : tolower a = tolower c := by simpa using h
    rw [e, h2] at h1
    exact absurd h1 (by decide)

/-! ### names -/

/-- Behind an input that is followed by a non-letter, a name made of letters matches as it matches the input alone. -/
theorem nameMatches_append_nonalpha (c : UInt8) (rest : Bytes) (hc : isalpha c = false) :
    ∀ (n x : Bytes), (∀ a ∈ n, isalpha a = true) → nameMatches n (x ++ c :: rest) = nameMatches n x := by
  intro n
  induction n with
  | nil => intro x _; cases x <;> rfl
  | cons a ns ih =>
    intro x hn
    cases x with
    | nil =>
      have := tolower_ne_of_alpha_of_not a c (hn a (by simp)) hc
      simp [nameMatches, this]
    | cons y x' =>
      simp only [List.cons_append, nameMatches]
      rw [ih x' (fun b hb => hn b (by simp [hb]))]

theorem nameMatches_map_tolower : ∀ (n x : Bytes), nameMatches n (x.map tolower) = nameMatches n x := by
  intro n
  induction n with
  | nil => intro x; cases x <;> rfl
  | cons a ns ih =>
    intro x
    cases x with
    | nil => rfl
    | cons y x' => simp only [List.map_cons, nameMatches, tolower_idem, ih x']

/-- The loop over the names depends on the input only through which names match. -/
theorem bestName_congr (s s' : Bytes) : ∀ (tbl : List (Bytes × Bytes)) (idx : Nat) (best : Option (Nat × Nat)),
    (∀ p ∈ tbl, nameMatches p.1 s = nameMatches p.1 s' ∧ nameMatches p.2 s = nameMatches p.2 s') →
    bestName tbl idx best s = bestName tbl idx best s' := by
  intro tbl
  induction tbl with
  | nil => intro idx best _; rfl
  | cons p tbl ih =>
    intro idx best h
    obtain ⟨full, ab⟩ := p
    have hp := h (full, ab) (by simp)
    simp only [bestName, hp.1, hp.2]
    exact ih _ _ (fun q hq => h q (by simp [hq]))

def tableAlpha (tbl : List (Bytes × Bytes)) : Bool := tbl.all fun p => p.1.all isalpha && p.2.all isalpha

theorem tableAlpha_mem {tbl : List (Bytes × Bytes)} (h : tableAlpha tbl = true) :
    ∀ p ∈ tbl, (∀ a ∈ p.1, isalpha a = true) ∧ (∀ a ∈ p.2, isalpha a = true) := by
  intro p hp
  simp only [tableAlpha, List.all_eq_true, Bool.and_eq_true] at h
  exact h p hp

/-- A name text `x` (any letter case) followed by a non-letter: the loop finds what it finds on the lower-case text alone. -/
theorem bestName_text (tbl : List (Bytes × Bytes)) (htbl : tableAlpha tbl = true) (x : Bytes) (c : UInt8) (rest : Bytes)
    (hc : isalpha c = false) :
    bestName tbl 0 none (x ++ c :: rest) = bestName tbl 0 none (x.map tolower) := by
  apply bestName_congr
  intro p hp
  have ha := tableAlpha_mem htbl p hp
  rw [nameMatches_append_nonalpha c rest hc p.1 x ha.1, nameMatches_append_nonalpha c rest hc p.2 x ha.2,
    nameMatches_map_tolower, nameMatches_map_tolower]
  exact ⟨rfl, rfl⟩

theorem weekday_alpha : tableAlpha (nameTable weekdayNames) = true := by decide +kernel
theorem month_alpha : tableAlpha (nameTable monthNames) = true := by decide +kernel

/-- The month names of the grammar, in lower case, are found at their index with length 3. -/
theorem month_lower : ∀ i < 12, bestName (nameTable monthNames) 0 none ((Spec.nameBytes Spec.monthNames i).map tolower) = some (i, 3) := by
  decide +kernel

/-- The day names of the grammar, in lower case, are found (Sunday first in the table of `strptime`, last in the grammar). -/
theorem weekday_lower : ∀ i < 7, bestName (nameTable weekdayNames) 0 none ((Spec.nameBytes Spec.dayNames i).map tolower) = some ((i + 1) % 7, 3) := by
  decide +kernel

theorem month_len : ∀ i < 12, (Spec.nameBytes Spec.monthNames i).length = 3 := by decide +kernel
theorem weekday_len : ∀ i < 7, (Spec.nameBytes Spec.dayNames i).length = 3 := by decide +kernel

theorem recase_lower : ∀ (m : List Bool) (x : Bytes), (Spec.recase m x).map tolower = x.map tolower := by
  intro m
  induction m with
  | nil => intro x; cases x <;> rfl
  | cons b m ih =>
    intro x
    cases x with
    | nil => rfl
    | cons c x' =>
      simp only [Spec.recase, List.map_cons, ih x']
      cases b <;> simp [tolower_flip]

theorem recase_length (m : List Bool) (x : Bytes) : (Spec.recase m x).length = x.length := by
  have := congrArg List.length (recase_lower m x)
  simpa using this

/-- `%b` on a month name of the grammar in any letter case, followed by a non-letter. -/
theorem matchName_month (m : List Bool) (i : Nat) (hi : i < 12) (c : UInt8) (rest : Bytes) (hc : isalpha c = false) :
    matchName monthNames (Spec.recase m (Spec.nameBytes Spec.monthNames i) ++ c :: rest) = some (i, c :: rest) := by
  unfold matchName
  rw [bestName_text _ month_alpha _ c rest hc, recase_lower, month_lower i hi]
  have hl : (Spec.recase m (Spec.nameBytes Spec.monthNames i)).length = 3 := by rw [recase_length, month_len i hi]
  simp only
  rw [List.drop_append_of_le_length (by omega), ← hl, List.drop_length]
  rfl

theorem matchName_weekday (m : List Bool) (i : Nat) (hi : i < 7) (c : UInt8) (rest : Bytes) (hc : isalpha c = false) :
    matchName weekdayNames (Spec.recase m (Spec.nameBytes Spec.dayNames i) ++ c :: rest) = some ((i + 1) % 7, c :: rest) := by
  unfold matchName
  rw [bestName_text _ weekday_alpha _ c rest hc, recase_lower, weekday_lower i hi]
  have hl : (Spec.recase m (Spec.nameBytes Spec.dayNames i)).length = 3 := by rw [recase_length, weekday_len i hi]
  simp only
  rw [List.drop_append_of_le_length (by omega), ← hl, List.drop_length]
  rfl

/-- No name matches an input that is empty or begins with a non-letter. -/
theorem matchName_none (t : List (String × String)) (ht : tableAlpha (nameTable t) = true)
    (hn : bestName (nameTable t) 0 none [] = none) (s : Bytes) (hs : ∀ c, s.head? = some c → isalpha c = false) :
    matchName t s = none := by
  unfold matchName
  cases s with
  | nil => rw [hn]
  | cons c rest =>
    have := bestName_text _ ht [] c rest (hs c rfl)
    simp only [List.nil_append, List.map_nil] at this
    rw [this, hn]

theorem weekday_none_nil : bestName (nameTable weekdayNames) 0 none [] = none := by decide +kernel

/-! ### digits and white space -/

theorem digit_facts : ∀ n < 10, digitVal (UInt8.ofNat (48 + n)) = some n ∧ isspace (UInt8.ofNat (48 + n)) = false ∧
    isalpha (UInt8.ofNat (48 + n)) = false := by decide +kernel

theorem digitVal_digit (n : Nat) : digitVal (Spec.digit n) = some (n % 10) := (digit_facts (n % 10) (Nat.mod_lt _ (by decide))).1
theorem isspace_digit (n : Nat) : isspace (Spec.digit n) = false := (digit_facts (n % 10) (Nat.mod_lt _ (by decide))).2.1
theorem isalpha_digit (n : Nat) : isalpha (Spec.digit n) = false := (digit_facts (n % 10) (Nat.mod_lt _ (by decide))).2.2

theorem wsp_facts (c : UInt8) (h : Spec.isWsp c = true) :
    isspace c = true ∧ isblank c = true ∧ isalpha c = false ∧ digitVal c = none ∧ (c == 58) = false := by
  have : c = 32 ∨ c = 9 := by simpa [Spec.isWsp] using h
  rcases this with rfl | rfl <;> decide

theorem dropWhile_append_all (p : UInt8 → Bool) (w rest : Bytes) (hw : ∀ c ∈ w, p c = true) :
    (w ++ rest).dropWhile p = rest.dropWhile p := by
  induction w with
  | nil => rfl
  | cons c w ih =>
    have hc := hw c (by simp)
    simp only [List.cons_append, List.dropWhile_cons, hc, if_true]
    exact ih (fun d hd => hw d (by simp [hd]))

theorem optFws_space {w : Bytes} (h : Spec.isOptFws w = true) : ∀ c ∈ w, isspace c = true := by
  intro c hc
  simp only [Spec.isOptFws, List.all_eq_true] at h
  exact (wsp_facts c (h c hc)).1

theorem optFws_blank {w : Bytes} (h : Spec.isOptFws w = true) : ∀ c ∈ w, isblank c = true := by
  intro c hc
  simp only [Spec.isOptFws, List.all_eq_true] at h
  exact (wsp_facts c (h c hc)).2.1

/-- White space, then something that does not begin with white space. -/
theorem dropWhile_ws (w : Bytes) (hw : Spec.isOptFws w = true) (c : UInt8) (r : Bytes) (hc : isspace c = false) :
    (w ++ c :: r).dropWhile isspace = c :: r := by
  rw [dropWhile_append_all _ _ _ (optFws_space hw)]
  simp [hc]

/-! ### numbers -/

/-- Two digits: both are taken, whatever follows. -/
theorem getNumber_digits2 (lo hi v : Nat) (w rest : Bytes) (hw : Spec.isOptFws w = true) (h1 : lo ≤ v) (h2 : v ≤ hi) (h3 : v < 100) :
    getNumber lo hi 2 (w ++ (Spec.digits2 v ++ rest)) = some (v, rest) := by
  unfold getNumber
  simp only [Spec.digits2, List.cons_append, List.nil_append]
  rw [dropWhile_ws w hw _ _ (isspace_digit _)]
  simp only [digitVal_digit]
  have e1 : v / 10 % 10 = v / 10 := Nat.mod_eq_of_lt (by omega)
  have hle : v / 10 * 10 ≤ hi := by omega
  have e2 : v / 10 * 10 + v % 10 = v := by omega
  simp only [numLoop, e1, hle, if_true, digitVal_digit, e2]
  have : (v < lo || hi < v) = false := by simp; omega
  simp [this]

/-- One digit followed by a non-digit. -/
theorem getNumber_digit1 (lo hi v : Nat) (w : Bytes) (c : UInt8) (rest : Bytes) (hw : Spec.isOptFws w = true) (h1 : lo ≤ v) (h2 : v ≤ hi)
    (h3 : v < 10) (hc : digitVal c = none) :
    getNumber lo hi 2 (w ++ (Spec.digit v :: c :: rest)) = some (v, c :: rest) := by
  unfold getNumber
  rw [dropWhile_ws w hw _ _ (isspace_digit _)]
  simp only [digitVal_digit]
  have e1 : v % 10 = v := Nat.mod_eq_of_lt h3
  have : (v < lo || hi < v) = false := by simp; omega
  by_cases hle : v * 10 ≤ hi
  · simp [numLoop, e1, hle, hc, this]
  · simp [numLoop, e1, hle, this]

/-- Four digits: all are taken, whatever follows. -/
theorem getNumber_digits4 (v : Nat) (w rest : Bytes) (hw : Spec.isOptFws w = true) (h2 : v ≤ 9999) :
    getNumber 0 9999 4 (w ++ (Spec.digits4 v ++ rest)) = some (v, rest) := by
  unfold getNumber
  simp only [Spec.digits4, List.cons_append, List.nil_append]
  rw [dropWhile_ws w hw _ _ (isspace_digit _)]
  simp only [digitVal_digit]
  have e1 : v / 1000 % 10 = v / 1000 := Nat.mod_eq_of_lt (by omega)
  have l1 : v / 1000 * 10 ≤ 9999 := by omega
  have e2 : v / 1000 * 10 + v / 100 % 10 = v / 100 := by omega
  have l2 : v / 100 * 10 ≤ 9999 := by omega
  have e3 : v / 100 * 10 + v / 10 % 10 = v / 10 := by omega
  have l3 : v / 10 * 10 ≤ 9999 := by omega
  have e4 : v / 10 * 10 + v % 10 = v := by omega
  simp only [numLoop, e1, l1, if_true, digitVal_digit, e2, l2, e3, l3, e4]
  simp
  omega


/-! ### single directives on the tokens of the printer -/

theorem recase_alpha (m : List Bool) (x : Bytes) (hx : ∀ a ∈ x, isalpha a = true) : ∀ a ∈ Spec.recase m x, isalpha a = true := by
  intro a ha
  have h1 : tolower a ∈ (Spec.recase m x).map tolower := List.mem_map_of_mem ha
  rw [recase_lower] at h1
  obtain ⟨b, hb, e⟩ := List.mem_map.mp h1
  have := hx b hb
  rw [← isalpha_tolower, e, isalpha_tolower] at this
  exact this

theorem month_name_alpha : ∀ i < 12, ∀ a ∈ Spec.nameBytes Spec.monthNames i, isalpha a = true := by decide +kernel
theorem day_name_alpha : ∀ i < 7, ∀ a ∈ Spec.nameBytes Spec.dayNames i, isalpha a = true := by decide +kernel

/-- White space, then a word of letters. -/
theorem dropWhile_ws_word (w x r : Bytes) (hw : Spec.isOptFws w = true) (hx : ∀ a ∈ x, isalpha a = true) (hne : x ≠ []) :
    (w ++ (x ++ r)).dropWhile isspace = x ++ r := by
  cases x with
  | nil => exact absurd rfl hne
  | cons a x' => exact dropWhile_ws w hw a (x' ++ r) (not_space_of_alpha a (hx a (by simp)))

theorem fws_cons {w : Bytes} (h : Spec.isFws w = true) : ∃ c w', w = c :: w' ∧ Spec.isWsp c = true ∧ Spec.isOptFws w = true := by
  cases w with
  | nil => simp [Spec.isFws] at h
  | cons c w' =>
    simp only [Spec.isFws, List.isEmpty_cons, Bool.not_false, Bool.true_and] at h
    refine ⟨c, w', rfl, ?_, h⟩
    simp only [List.all_cons, Bool.and_eq_true] at h
    exact h.1

theorem step_space (w : Bytes) (hw : Spec.isOptFws w = true) (c : UInt8) (r : Bytes) (hc : isspace c = false) (tm : Tm) :
    stepDir .space (w ++ c :: r) tm = some (tm, c :: r) := by
  simp only [stepDir, dropWhile_ws w hw c r hc]

theorem step_lit (c : UInt8) (r : Bytes) (tm : Tm) : stepDir (.lit c) (c :: r) tm = some (tm, r) := by
  simp [stepDir]

theorem step_lit_fail (c : UInt8) (s : Bytes) (tm : Tm) (h : ∀ x, s.head? = some x → (x == c) = false) : stepDir (.lit c) s tm = none := by
  cases s with
  | nil => rfl
  | cons x r => simp [stepDir, h x rfl]

theorem runDirs_append (a b : List Dir) : ∀ (s : Bytes) (tm : Tm), runDirs (a ++ b) s tm =
    (match runDirs a s tm with
     | (tm', some s') => runDirs b s' tm'
     | (tm', none) => (tm', none)) := by
  induction a with
  | nil => intro s tm; rfl
  | cons d a ih =>
    intro s tm
    simp only [List.cons_append, runDirs]
    cases stepDir d s tm with
    | none => rfl
    | some p => exact ih p.2 p.1

/-! ### the three groups of directives the layouts are made of -/

def dowPrefix : List Dir := [.wday, .lit 44, .space]
def coreDirs : List Dir := [.mday, .space, .month, .space, .year, .space, .hour, .lit 58, .minute]
def secSuffix : List Dir := [.lit 58, .second]

/-- `day month year hour ":" minute` of the printer, in front of `r`. -/
def coreText (dt : Spec.DateTime) (l : Spec.DateLayout) (r : Bytes) : Bytes :=
  l.fwsDay ++ (Spec.dayDigits dt.day l.dayOneDigit ++ (l.fwsMonth ++
  (Spec.recase l.monCase (Spec.nameBytes Spec.monthNames (dt.month - 1)) ++
  (l.fwsYear ++ (Spec.yearDigits dt.year ++ (l.fwsTime ++
  (Spec.digits2 dt.hour ++ (58 :: (Spec.digits2 dt.minute ++ r)))))))))

/-- What the grammar and the field ranges say about the part `day month year hour ":" minute`. -/
structure CoreOK (dt : Spec.DateTime) (l : Spec.DateLayout) : Prop where
  wDay : Spec.isOptFws l.fwsDay = true
  wMonth : Spec.isFws l.fwsMonth = true
  wYear : Spec.isFws l.fwsYear = true
  wTime : Spec.isFws l.fwsTime = true
  day1 : 1 ≤ dt.day
  day31 : dt.day ≤ 31
  mon1 : 1 ≤ dt.month
  mon12 : dt.month ≤ 12
  year : dt.year ≤ 9999
  hour : dt.hour ≤ 23
  minute : dt.minute ≤ 59

theorem step_mday (dt : Spec.DateTime) (l : Spec.DateLayout) (h : CoreOK dt l) (r : Bytes) (tm : Tm) :
    stepDir .mday (l.fwsDay ++ (Spec.dayDigits dt.day l.dayOneDigit ++ (l.fwsMonth ++ r))) tm =
      some ({ tm with mday := (dt.day : Int) }, l.fwsMonth ++ r) := by
  obtain ⟨c, w', e, hc, _⟩ := fws_cons h.wMonth
  unfold Spec.dayDigits
  split
  · rename_i h1
    have h10 : dt.day < 10 := by
      simp only [Bool.and_eq_true, decide_eq_true_eq] at h1
      exact h1.2
    rw [e]
    simp only [stepDir, List.cons_append, List.nil_append]
    rw [getNumber_digit1 1 31 dt.day l.fwsDay c (w' ++ r) h.wDay h.day1 h.day31 h10 (wsp_facts c hc).2.2.2.1]
    rfl
  · simp only [stepDir]
    rw [getNumber_digits2 1 31 dt.day l.fwsDay _ h.wDay h.day1 h.day31 (by have := h.day31; omega)]
    rfl

theorem run_core (dt : Spec.DateTime) (l : Spec.DateLayout) (h : CoreOK dt l) (r : Bytes) (tm : Tm) :
    runDirs coreDirs (coreText dt l r) tm =
      ({ tm with mday := (dt.day : Int), mon := ((dt.month - 1 : Nat) : Int), year := (dt.year : Int), hour := (dt.hour : Int),
                 min := (dt.minute : Int) }, some r) := by
  obtain ⟨cy, wy, ey, hcy, hwy⟩ := fws_cons h.wYear
  obtain ⟨_, _, _, _, hwm⟩ := fws_cons h.wMonth
  obtain ⟨_, _, _, _, hwt⟩ := fws_cons h.wTime
  have hi : dt.month - 1 < 12 := by have := h.mon12; omega
  have hma := recase_alpha l.monCase _ (month_name_alpha _ hi)
  have hmne : Spec.recase l.monCase (Spec.nameBytes Spec.monthNames (dt.month - 1)) ≠ [] := by
    intro e
    have := recase_length l.monCase (Spec.nameBytes Spec.monthNames (dt.month - 1))
    rw [e, month_len _ hi] at this
    exact absurd this (by decide)
  have hyd : Spec.yearDigits dt.year = Spec.digits4 dt.year := by
    have := h.year
    simp only [Spec.yearDigits]
    rw [if_pos (by omega)]
  unfold coreDirs coreText
  simp only [runDirs, step_mday dt l h]
  -- the white space in front of the month, the month
  simp only [stepDir, dropWhile_ws_word l.fwsMonth _ _ hwm hma hmne]
  rw [ey]
  simp only [List.cons_append, matchName_month l.monCase _ hi cy _ (wsp_facts cy hcy).2.2.1, Option.map]
  -- the white space in front of the year, the year
  rw [← List.cons_append, ← ey, hyd]
  simp only [Spec.digits4, List.cons_append, List.nil_append, dropWhile_ws l.fwsYear hwy _ _ (isspace_digit _)]
  have hy := getNumber_digits4 dt.year [] (l.fwsTime ++ (Spec.digits2 dt.hour ++ (58 :: (Spec.digits2 dt.minute ++ r)))) rfl h.year
  simp only [Spec.digits4, List.cons_append, List.nil_append] at hy
  simp only [hy]
  -- hour ":" minute
  simp only [Spec.digits2, List.cons_append, List.nil_append, dropWhile_ws l.fwsTime hwt _ _ (isspace_digit _)]
  have hh := getNumber_digits2 0 23 dt.hour [] (58 :: (Spec.digits2 dt.minute ++ r)) rfl (Nat.zero_le _) h.hour (by have := h.hour; omega)
  have hm := getNumber_digits2 0 59 dt.minute [] r rfl (Nat.zero_le _) h.minute (by have := h.minute; omega)
  simp only [Spec.digits2, List.cons_append, List.nil_append] at hh hm
  simp only [hh, BEq.rfl, if_true, hm]

/-! ### day of week in front, seconds behind -/

theorem dropWhile_idem (p : UInt8 → Bool) : ∀ s : Bytes, (s.dropWhile p).dropWhile p = s.dropWhile p
  | [] => rfl
  | c :: s => by
    by_cases h : p c = true
    · simp only [List.dropWhile_cons, h, if_true]; exact dropWhile_idem p s
    · simp only [List.dropWhile_cons, h, if_false, Bool.false_eq_true]

theorem getNumber_dropWhile (lo hi n : Nat) (s : Bytes) : getNumber lo hi n (s.dropWhile isspace) = getNumber lo hi n s := by
  unfold getNumber
  rw [dropWhile_idem]

/-- `%a, ` in front of `%d`: the day name of the grammar in any letter case and the comma are consumed; the white space
is left to `%d`, which skips it as well. -/
theorem run_dow (i : Nat) (hi : i < 7) (m : List Bool) (r : Bytes) (ds : List Dir) (tm : Tm) :
    runDirs (dowPrefix ++ (.mday :: ds)) (Spec.recase m (Spec.nameBytes Spec.dayNames i) ++ (44 :: r)) tm =
      runDirs (.mday :: ds) r tm := by
  simp only [dowPrefix, List.cons_append, List.nil_append, runDirs, stepDir,
    matchName_weekday m i hi 44 r (by decide), Option.map, BEq.rfl, if_true, getNumber_dropWhile]

/-- `%a` fails on an input that does not begin with a letter, and nothing is written. -/
theorem run_dow_fail (s : Bytes) (hs : ∀ c, s.head? = some c → isalpha c = false) (ds : List Dir) (tm : Tm) :
    runDirs (dowPrefix ++ ds) s tm = (tm, none) := by
  simp only [dowPrefix, List.cons_append, runDirs, stepDir, matchName_none weekdayNames weekday_alpha weekday_none_nil s hs, Option.map]

theorem run_sec (v : Nat) (hv : v ≤ 61) (r : Bytes) (tm : Tm) :
    runDirs secSuffix (58 :: (Spec.digits2 v ++ r)) tm = ({ tm with sec := (v : Int) }, some r) := by
  have h := getNumber_digits2 0 61 v [] r rfl (Nat.zero_le _) hv (by omega)
  simp only [List.nil_append] at h
  simp only [secSuffix, runDirs, stepDir, BEq.rfl, if_true, h, Option.map]

theorem run_sec_fail (s : Bytes) (hs : ∀ x, s.head? = some x → (x == 58) = false) (tm : Tm) :
    runDirs secSuffix s tm = (tm, none) := by
  simp only [secSuffix, runDirs, step_lit_fail 58 s tm hs]

/-! ### the loop over the layouts -/

/-- `timeparse` over layouts that have been split into directives already. -/
def timeparseDirs : List (Option (List Dir)) → Bytes → Tm → Option (Tm × Bytes)
  | [], _, _ => none
  | none :: fs, s, tm => timeparseDirs fs s tm
  | some ds :: fs, s, tm =>
    match runDirs ds s tm with
    | (tm', some rest) => some (tm', rest)
    | (tm', none) => timeparseDirs fs s tm'

theorem timeparseFrom_eq : ∀ (fs : List String) (s : Bytes) (tm : Tm),
    timeparseFrom fs s tm = timeparseDirs (fs.map fun f => parseFmt (ofString f)) s tm := by
  intro fs
  induction fs with
  | nil => intro s tm; rfl
  | cons f fs ih =>
    intro s tm
    simp only [timeparseFrom, strptimeFrom, List.map_cons]
    cases parseFmt (ofString f) with
    | none => simp only [timeparseDirs]; exact ih s tm
    | some ds =>
      simp only [timeparseDirs]
      rcases runDirs ds s tm with ⟨tm', _ | rest⟩
      · exact ih s tm'
      · rfl

/-- **The table of time.c read by the interpreter**: every directive of every layout is known, and the three layouts are
`%a, ` + core + `:%S`, `%a, ` + core, core + `:%S` with core = `%d %b %Y %H:%M`. -/
theorem layouts_parse : (Gen.dateFormats.map fun f => parseFmt (ofString f)) =
    [some (dowPrefix ++ (coreDirs ++ secSuffix)), some (dowPrefix ++ coreDirs), some (coreDirs ++ secSuffix)] := by
  decide +kernel

theorem timeparseC_eq (s : Bytes) : timeparseC s =
    timeparseDirs [some (dowPrefix ++ (coreDirs ++ secSuffix)), some (dowPrefix ++ coreDirs), some (coreDirs ++ secSuffix)] s tmZero := by
  rw [timeparseC, timeparseFrom_eq, layouts_parse]

/-! ### the printer's text through `timeparse` -/

/-- The zone and what follows it. -/
def zoneText (dt : Spec.DateTime) (l : Spec.DateLayout) : Bytes :=
  l.fwsZone ++ ((if dt.zonePlus then 43 else 45) :: (Spec.digits2 dt.zoneHour ++ (Spec.digits2 dt.zoneMinute ++ l.trailer)))

/-- The broken-down time of the fields. -/
def tmOf (dt : Spec.DateTime) : Tm :=
  { year := (dt.year : Int), mon := ((dt.month - 1 : Nat) : Int), mday := (dt.day : Int), hour := (dt.hour : Int),
    min := (dt.minute : Int), sec := ((dt.second.getD 0 : Nat) : Int) }

/-- What the text must satisfy for the layouts to read it: the grammar's white space, the field ranges `strptime`
checks, a four-digit year, and no white space in front of a day name. -/
structure TextOK (dt : Spec.DateTime) (l : Spec.DateLayout) : Prop extends CoreOK dt l where
  wZone : Spec.isFws l.fwsZone = true
  sec : ∀ s, dt.second = some s → s ≤ 61
  dow : ∀ i, dt.dayOfWeek = some i → i < 7 ∧ l.fwsDow = []

theorem zoneText_head (dt : Spec.DateTime) (l : Spec.DateLayout) (h : Spec.isFws l.fwsZone = true) :
    ∀ x, (zoneText dt l).head? = some x → (x == 58) = false := by
  obtain ⟨c, w', e, hc, _⟩ := fws_cons h
  intro x hx
  rw [zoneText, e] at hx
  simp only [List.cons_append, List.head?_cons, Option.some.injEq] at hx
  rw [← hx]
  exact (wsp_facts c hc).2.2.2.2

theorem coreText_head (dt : Spec.DateTime) (l : Spec.DateLayout) (h : Spec.isOptFws l.fwsDay = true) (r : Bytes) :
    ∀ c, (coreText dt l r).head? = some c → isalpha c = false := by
  intro c hc
  unfold coreText at hc
  cases hw : l.fwsDay with
  | nil =>
    rw [hw] at hc
    unfold Spec.dayDigits at hc
    split at hc <;> simp only [Spec.digits2, List.nil_append, List.cons_append, List.head?_cons, Option.some.injEq] at hc <;>
      (rw [← hc]; exact isalpha_digit _)
  | cons x w' =>
    rw [hw] at hc h
    simp only [List.cons_append, List.head?_cons, Option.some.injEq] at hc
    simp only [Spec.isOptFws, List.all_cons, Bool.and_eq_true] at h
    rw [← hc]
    exact (wsp_facts x h.1).2.2.1

theorem renderDate_eq (dt : Spec.DateTime) (l : Spec.DateLayout) :
    Spec.renderDate dt l =
      (match dt.dayOfWeek with
       | none => []
       | some i => l.fwsDow ++ (Spec.recase l.dowCase (Spec.nameBytes Spec.dayNames i) ++ [44])) ++
      coreText dt l ((match dt.second with | none => [] | some s => 58 :: Spec.digits2 s) ++ zoneText dt l) := rfl

/-- `%a, ` + core in front of further directives. -/
theorem run_dow_core (dt : Spec.DateTime) (l : Spec.DateLayout) (h : CoreOK dt l) (i : Nat) (hi : i < 7) (tail : List Dir)
    (r : Bytes) (tm : Tm) :
    runDirs (dowPrefix ++ (coreDirs ++ tail)) (Spec.recase l.dowCase (Spec.nameBytes Spec.dayNames i) ++ (44 :: coreText dt l r)) tm =
      runDirs tail r { tm with mday := (dt.day : Int), mon := ((dt.month - 1 : Nat) : Int), year := (dt.year : Int),
                               hour := (dt.hour : Int), min := (dt.minute : Int) } := by
  have e : dowPrefix ++ (coreDirs ++ tail) = dowPrefix ++ (.mday :: (coreDirs.tail ++ tail)) := rfl
  have e' : (Dir.mday :: (coreDirs.tail ++ tail)) = coreDirs ++ tail := rfl
  rw [e, run_dow i hi, e', runDirs_append, run_core dt l h]

theorem run_dow_core_nil (dt : Spec.DateTime) (l : Spec.DateLayout) (h : CoreOK dt l) (i : Nat) (hi : i < 7)
    (r : Bytes) (tm : Tm) :
    runDirs (dowPrefix ++ coreDirs) (Spec.recase l.dowCase (Spec.nameBytes Spec.dayNames i) ++ (44 :: coreText dt l r)) tm =
      ({ tm with mday := (dt.day : Int), mon := ((dt.month - 1 : Nat) : Int), year := (dt.year : Int),
                 hour := (dt.hour : Int), min := (dt.minute : Int) }, some r) := by
  have := run_dow_core dt l h i hi [] r tm
  rw [List.append_nil] at this
  rw [this]
  rfl

theorem text_dow (dt : Spec.DateTime) (l : Spec.DateLayout) (i : Nat) (hd : dt.dayOfWeek = some i) (hw : l.fwsDow = []) (r : Bytes) :
    (match dt.dayOfWeek with
       | none => []
       | some i => l.fwsDow ++ (Spec.recase l.dowCase (Spec.nameBytes Spec.dayNames i) ++ [44])) ++ coreText dt l r =
    Spec.recase l.dowCase (Spec.nameBytes Spec.dayNames i) ++ (44 :: coreText dt l r) := by
  rw [hd, hw]
  simp only [List.nil_append, List.append_assoc, List.cons_append]

/-- **Which alternatives of the grammar the three layouts cover.**  The text of a date-time with a day of week or with
seconds is read by the first layout that has the same parts, with the fields as the broken-down time and the zone left;
a text with NEITHER is read by none of the three. -/
theorem timeparseC_render (dt : Spec.DateTime) (l : Spec.DateLayout) (h : TextOK dt l) :
    timeparseC (Spec.renderDate dt l) =
      (if dt.dayOfWeek.isSome || dt.second.isSome then some (tmOf dt, zoneText dt l) else none) := by
  rw [timeparseC_eq, renderDate_eq]
  have hc := h.toCoreOK
  cases hd : dt.dayOfWeek with
  | some i =>
    obtain ⟨hi, hw⟩ := h.dow i hd
    have ht := text_dow dt l i hd hw
    rw [hd] at ht
    rw [ht]
    simp only [Option.isSome_some, Bool.true_or, if_true]
    cases hs : dt.second with
    | some sv =>
      simp only [timeparseDirs, List.cons_append, run_dow_core dt l hc i hi, run_sec sv (h.sec sv hs)]
      simp only [tmOf, hs, Option.getD_some]
    | none =>
      simp only [timeparseDirs, List.nil_append, run_dow_core dt l hc i hi, run_sec_fail _ (zoneText_head dt l h.wZone),
        run_dow_core_nil dt l hc i hi]
      simp only [tmOf, tmZero, hs, Option.getD_none]
      rfl
  | none =>
    simp only [List.nil_append, Option.isSome_none, Bool.false_or]
    simp only [timeparseDirs, run_dow_fail _ (coreText_head dt l hc.wDay _)]
    rw [runDirs_append, run_core dt l hc]
    cases hs : dt.second with
    | some sv =>
      simp only [List.cons_append, run_sec sv (h.sec sv hs), Option.isSome_some, if_true]
      simp only [tmOf, hs, Option.getD_some]
    | none =>
      simp only [List.nil_append, run_sec_fail _ (zoneText_head dt l h.wZone), Option.isSome_none]
      rfl

/-! ### the instant -/

theorem digits2_eq_twoDigits (n : Nat) (h : n < 100) : Spec.digits2 n = twoDigits n := by
  have e : n / 10 % 10 = n / 10 := Nat.mod_eq_of_lt (by omega)
  simp only [Spec.digits2, Spec.digit, twoDigits, e]

theorem nspaces_append (w : Bytes) (hw : Spec.isOptFws w = true) (c : UInt8) (r : Bytes) (hc : isblank c = false) :
    (w ++ c :: r).drop (nspaces (w ++ c :: r)) = c :: r := by
  have : (w ++ c :: r).takeWhile isblank = w := by
    induction w with
    | nil => simp [hc]
    | cons x w ih =>
      have hx := optFws_blank hw x (by simp)
      have hw' : Spec.isOptFws w = true := by
        simp only [Spec.isOptFws, List.all_cons, Bool.and_eq_true] at hw
        exact hw.2
      simp only [List.cons_append, List.takeWhile_cons, hx, if_true, ih hw']
  rw [nspaces, this, List.drop_left]

theorem zoneText_drop (dt : Spec.DateTime) (l : Spec.DateLayout) (hw : Spec.isFws l.fwsZone = true) (h1 : dt.zoneHour ≤ 23)
    (h2 : dt.zoneMinute ≤ 59) :
    (zoneText dt l).drop (nspaces (zoneText dt l)) =
      (if dt.zonePlus then 43 else 45) :: (twoDigits dt.zoneHour ++ twoDigits dt.zoneMinute ++ l.trailer) := by
  obtain ⟨_, _, _, _, hw'⟩ := fws_cons hw
  rw [zoneText, nspaces_append _ hw' _ _ (by cases dt.zonePlus <;> decide),
    digits2_eq_twoDigits _ (by omega), digits2_eq_twoDigits _ (by omega), List.append_assoc]

/-- **From the text to the instant.**  For every oracle of zone names: the text of a date-time that has a day of week or
seconds (or both), a year 1..9999, a zone `±hhmm` with `hh ≤ 23`, `mm ≤ 59`, and whose civil time is not 1969-12-31 23:59:59
is parsed by `time_parse` to the civil time read as UTC minus the zone offset. -/
theorem timeParse_render (dt : Spec.DateTime) (l : Spec.DateLayout) (zn : Bytes → Option Int) (h : TextOK dt l)
    (hcov : (dt.dayOfWeek.isSome || dt.second.isSome) = true) (hy : 1 ≤ dt.year) (h1 : dt.zoneHour ≤ 23) (h2 : dt.zoneMinute ≤ 59)
    (hne : Spec.civilSeconds dt ≠ -1) :
    timeParse timeparseC zn (Spec.renderDate dt l) = some (Spec.instant dt) := by
  have hs := timeparseC_render dt l h
  rw [hcov, if_pos rfl] at hs
  have hm : dt.month - 1 + 1 = dt.month := by have := h.mon1; omega
  have hne' : Spec.epoch dt.year (dt.month - 1 + 1) dt.day dt.hour dt.minute (dt.second.getD 0) ≠ -1 := by
    rw [hm]; exact hne
  have key := (true_age timeparseC zn (Spec.renderDate dt l) (zoneText dt l) dt.year (dt.month - 1) dt.day dt.hour dt.minute
    (dt.second.getD 0) dt.zonePlus dt.zoneHour dt.zoneMinute l.trailer hy (by have := h.mon12; omega) h.day1 h1 h2 hs
    (zoneText_drop dt l h.wZone h1 h2) hne').1
  rw [key, hm]
  rfl

/-- A text with neither day of week nor seconds is an error of `time_parse`. -/
theorem timeParse_render_uncovered (dt : Spec.DateTime) (l : Spec.DateLayout) (zn : Bytes → Option Int) (h : TextOK dt l)
    (hd : dt.dayOfWeek = none) (hs : dt.second = none) :
    timeParse timeparseC zn (Spec.renderDate dt l) = none := by
  have := timeparseC_render dt l h
  rw [hd, hs] at this
  simp only [timeParse, this]
  rfl

/-- The grammar and the semantic rules of RFC 5322 3.3 imply what the layouts need, apart from the four-digit year
and the white space in front of a day name. -/
theorem textOK_of_wellFormed (dt : Spec.DateTime) (l : Spec.DateLayout) (h : Spec.WellFormed dt l) (hy : dt.year ≤ 9999)
    (hw : dt.dayOfWeek.isSome = true → l.fwsDow = []) : TextOK dt l := by
  obtain ⟨⟨_, g2, g3, g4, g5, g6, _, g8, _⟩, ⟨_, s2, s3, s4, s5, s6, s7, s8, _, _⟩⟩ := h
  have hdim : Spec.daysInMonth dt.year dt.month ≤ 31 := by
    unfold Spec.daysInMonth
    split <;> try split
    all_goals decide
  exact { wDay := g2, wMonth := g3, wYear := g4, wTime := g5, day1 := s4, day31 := Nat.le_trans s5 hdim, mon1 := s2, mon12 := s3,
          year := hy, hour := s6, minute := s7, wZone := g6, sec := fun s hs => Nat.le_trans (s8 s hs) (by decide),
          dow := fun i hi => ⟨g8 i hi, hw (by rw [hi]; rfl)⟩ }

end Mdsort.Proofs.Strp
