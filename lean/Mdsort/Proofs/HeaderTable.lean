import Mdsort.Proofs.HeaderLookup

/-! The invariant of the header table (sorted by name, equal names in id order) and what
`message_set_header` does to the table in file order. -/

set_option linter.unusedSimpArgs false

namespace Mdsort.Proofs
open Mdsort Mdsort.Model

/-- Table invariant: sorted by name; headers with the same name appear in increasing id order. -/
def TInv (hs : List Hdr) : Prop :=
  hs.Pairwise (fun a b => keyLe a b = true) ∧
  ∀ x : Bytes, (hs.filter (kmatch x)).Pairwise (fun a b => a.id < b.id)

theorem kmatch_congr (x y : Bytes) (h : strcasecmp x y = .eq) (a : Hdr) : kmatch x a = kmatch y a := by
  unfold kmatch
  rw [Bool.eq_iff_iff]
  simp only [beq_iff_eq, strcasecmp_eq_iff]
  rw [(strcasecmp_eq_iff x y).mp h]

@[simp] theorem kmatch_mk (k ky vl : Bytes) (i : Nat) :
    kmatch k { id := i, key := ky, val := vl } = (strcasecmp k ky == .eq) := rfl

theorem kmatch_self (k : Bytes) (h : Hdr) (hk : h.key = k) : kmatch k h = true := by
  unfold kmatch; rw [hk, strcasecmp_refl]; rfl

/-! ## the invariant only depends on names and ids, and passes to sublists -/

def sk (hs : List Hdr) : List (Bytes × Nat) := hs.map fun h => (h.key, h.id)

def TInv' (l : List (Bytes × Nat)) : Prop :=
  l.Pairwise (fun a b => strcasecmp a.1 b.1 ≠ .gt) ∧
  ∀ x : Bytes, (l.filter (fun p => strcasecmp x p.1 == .eq)).Pairwise (fun a b => a.2 < b.2)

theorem TInv_iff (hs : List Hdr) : TInv hs ↔ TInv' (sk hs) := by
  unfold TInv TInv' sk
  have e1 : hs.Pairwise (fun a b => keyLe a b = true) ↔
      (hs.map fun h => (h.key, h.id)).Pairwise (fun a b => strcasecmp a.1 b.1 ≠ .gt) := by
    rw [List.pairwise_map]
    constructor <;> intro h <;> exact h.imp (fun h => by simpa [keyLe] using h)
  have e2 : ∀ x : Bytes, (hs.filter (kmatch x)).Pairwise (fun a b => a.id < b.id) ↔
      ((hs.map fun h => (h.key, h.id)).filter (fun p => strcasecmp x p.1 == .eq)).Pairwise
        (fun a b => a.2 < b.2) := by
    intro x
    rw [List.filter_map, List.pairwise_map]
    rfl
  rw [e1]
  constructor
  · intro h; exact ⟨h.1, fun x => (e2 x).mp (h.2 x)⟩
  · intro h; exact ⟨h.1, fun x => (e2 x).mpr (h.2 x)⟩

theorem TInv_of_sk_eq (a b : List Hdr) (h : sk a = sk b) (ha : TInv a) : TInv b := by
  rw [TInv_iff] at ha ⊢
  rw [← h]; exact ha

theorem TInv_sublist (a b : List Hdr) (h : List.Sublist a b) (hb : TInv b) : TInv a :=
  ⟨hb.1.sublist h, fun x => (hb.2 x).sublist (h.filter _)⟩

/-! ## parsing establishes the invariant -/

theorem parseLoop_cut (s : Bytes) (n : Nat) (acc : List Hdr) (key : Bytes)
    (h : findHeader s = .cutAtColon key) : parseLoop s n acc = (acc, key) := by
  rw [parseLoop]
  split
  · rename_i h'; rw [h] at h'; cases h'
  · rename_i k h'; rw [h] at h'; cases h'; rfl
  · rename_i h'; rw [h] at h'; cases h'

theorem parseLoop_ids (k : Nat) (s : Bytes) (hk : s.length ≤ k) (n : Nat) (acc : List Hdr) :
    ∃ new, (parseLoop s n acc).1 = acc ++ new ∧ new.Pairwise (fun a b => a.id < b.id) ∧
      ∀ h ∈ new, n < h.id := by
  induction k generalizing s n acc with
  | zero =>
    have : s = [] := List.length_eq_zero_iff.mp (Nat.le_zero.mp hk)
    subst this
    refine ⟨[], ?_, List.Pairwise.nil, by simp⟩
    rw [parseLoop_notHeader [] n acc (by simp [findHeader, scanKey])]
    simp
  | succ k ih =>
    cases hf : findHeader s with
    | notHeader =>
      exact ⟨[], by rw [parseLoop_notHeader s n acc hf]; simp, List.Pairwise.nil, by simp⟩
    | cutAtColon key =>
      exact ⟨[], by rw [parseLoop_cut s n acc key hf]; simp, List.Pairwise.nil, by simp⟩
    | ok key val rest =>
      have hlt := findHeader_rest_lt hf
      obtain ⟨new, h1, h2, h3⟩ := ih rest (by omega) (n + 1)
        (acc ++ [{ id := n + 1, key := key, val := val }])
      refine ⟨{ id := n + 1, key := key, val := val } :: new, ?_, ?_, ?_⟩
      · rw [parseLoop_ok s n acc key val rest hf, h1]; simp
      · rw [List.pairwise_cons]
        exact ⟨fun h hh => h3 h hh, h2⟩
      · intro h hh
        rcases List.mem_cons.mp hh with rfl | hh
        · simp
        · have := h3 h hh; omega

theorem TInv_sortByKey_of_strict (hs : List Hdr) (h : hs.Pairwise (fun a b => a.id < b.id)) :
    TInv (sortByKey hs) := by
  refine ⟨List.pairwise_mergeSort keyLe_trans keyLe_total hs, fun x => ?_⟩
  rw [filter_sortByKey_kmatch]
  exact h.sublist List.filter_sublist

theorem TInv_parseHeaders (buf : Bytes) : TInv (parseHeaders buf).headers := by
  have e : (parseHeaders buf).headers = sortByKey (parseLoop (skipSeparator buf) 0 []).1 := rfl
  rw [e]
  obtain ⟨new, h1, h2, -⟩ := parseLoop_ids _ (skipSeparator buf) (Nat.le_refl _) 0 []
  rw [h1]
  simpa using TInv_sortByKey_of_strict new h2

/-! ## re-sorting a table that satisfies the invariant -/

theorem pairwise_idLe_of_lt {l : List Hdr} (h : l.Pairwise (fun a b => a.id < b.id)) :
    l.Pairwise (fun a b => idLe a b = true) :=
  h.imp (fun h => by simp only [idLe, decide_eq_true_eq]; omega)

theorem filter_sortById_kmatch (hs : List Hdr) (h : TInv hs) (x : Bytes) :
    (sortById hs).filter (kmatch x) = hs.filter (kmatch x) := by
  unfold sortById
  rw [← mergeSort_filter idLe_trans idLe_total]
  exact List.mergeSort_of_pairwise (pairwise_idLe_of_lt (h.2 x))

theorem keyclass_eq_kmatch (x y : Hdr) : (keyLe x y && keyLe y x) = kmatch x.key y := by
  unfold keyLe kmatch
  rw [strcasecmp_swap x.key y.key]
  cases strcasecmp x.key y.key <;> rfl

theorem sortByKey_sortById (hs : List Hdr) (h : TInv hs) : sortByKey (sortById hs) = hs := by
  apply eq_of_sorted_of_class keyLe_total
  · exact List.pairwise_mergeSort keyLe_trans keyLe_total _
  · exact h.1
  · intro x
    have e : (fun y => keyLe x y && keyLe y x) = kmatch x.key := by
      funext y; exact keyclass_eq_kmatch x y
    rw [e, filter_sortByKey_kmatch, filter_sortById_kmatch hs h]

/-! ## `message_set_header` -/

theorem filterMap_self {α} (f : α → Option α) (l : List α) (h : ∀ x ∈ l, f x = some x) :
    l.filterMap f = l := by
  induction l with
  | nil => rfl
  | cons a t ih =>
    rw [List.filterMap_cons, h a (by simp), ih (fun x hx => h x (by simp [hx]))]

/-- What `message_set_header` found: the run of headers named `k`. -/
structure Found (hs : List Hdr) (k : Bytes) (i n : Nat) (h : Hdr) (rest : List Hdr) : Prop where
  split : hs = hs.take i ++ (h :: rest ++ hs.drop (i + n))
  get : hs[i]? = some h
  run : hs.filter (kmatch k) = h :: rest
  before : ∀ x ∈ hs.take i, kmatch k x = false
  after : ∀ x ∈ hs.drop (i + n), kmatch k x = false
  npos : 0 < n
  bound : i + n ≤ hs.length

theorem found_of_search (hs : List Hdr) (k : Bytes) (i n : Nat) (hsorted : hs.Pairwise (fun a b => keyLe a b = true))
    (hres : searchHeader hs k = some (i, n)) : ∃ h rest, Found hs k i n h rest := by
  have := searchHeader_list hs k hsorted
  rw [hres] at this
  simp only at this
  obtain ⟨h0, hb, hrun, h1, h3⟩ := this
  have hi : i < hs.length := by omega
  obtain ⟨n', rfl⟩ : ∃ n', n = n' + 1 := ⟨n - 1, by omega⟩
  have hd : hs.drop i = hs[i] :: hs.drop (i + 1) := List.drop_eq_getElem_cons hi
  have hrun' : hs.filter (kmatch k) = hs[i] :: (hs.drop (i + 1)).take n' := by
    rw [← hrun, hd, List.take_succ_cons]
  refine ⟨hs[i], (hs.drop (i + 1)).take n', ?_, ?_, hrun', h1, h3, h0, hb⟩
  · have e : hs.drop (i + (n' + 1)) = (hs.drop (i + 1)).drop n' := by
      rw [List.drop_drop]; congr 1; omega
    rw [e, List.cons_append, List.take_append_drop, ← hd, List.take_append_drop]
  · exact List.getElem?_eq_getElem hi

theorem setHeaderRaw_none (m : Msg) (k v : Bytes) (h : searchHeader m.headers k = none) :
    setHeaderRaw m k v =
      { m with headers := sortByKey (m.headers ++ [{ id := m.headers.length + 1, key := k, val := v }]) } := by
  unfold setHeaderRaw; rw [h]

theorem setHeaderRaw_some (m : Msg) (k v : Bytes) (i n : Nat) (h : Hdr)
    (hres : searchHeader m.headers k = some (i, n)) (hget : m.headers[i]? = some h) :
    setHeaderRaw m k v =
      { m with headers := m.headers.take i ++ [{ h with val := v }] ++ m.headers.drop (i + n) } := by
  unfold setHeaderRaw; rw [hres]; simp only [hget]

/-- The function on the table that a replacing `message_set_header` computes. -/
def setF (k v : Bytes) (h : Hdr) (x : Hdr) : Option Hdr :=
  if kmatch k x then (if x.id = h.id then some { x with val := v } else none) else some x

theorem setF_of_not (k v : Bytes) (h x : Hdr) (hx : kmatch k x = false) : setF k v h x = some x := by
  simp [setF, hx]

theorem found_filterMap (hs : List Hdr) (k v : Bytes) (i n : Nat) (h : Hdr) (rest : List Hdr)
    (hinv : TInv hs) (hf : Found hs k i n h rest) :
    hs.filterMap (setF k v h) = hs.take i ++ [{ h with val := v }] ++ hs.drop (i + n) := by
  have hstrict := hinv.2 k
  rw [hf.run, List.pairwise_cons] at hstrict
  have hkm : ∀ x ∈ h :: rest, kmatch k x = true := by
    intro x hx
    rw [← hf.run] at hx
    exact (List.mem_filter.mp hx).2
  conv => lhs; rw [hf.split]
  rw [List.filterMap_append, List.filterMap_append, List.filterMap_cons]
  rw [filterMap_self _ _ (fun x hx => setF_of_not k v h x (hf.before x hx))]
  rw [filterMap_self _ (hs.drop (i + n)) (fun x hx => setF_of_not k v h x (hf.after x hx))]
  have e1 : setF k v h h = some { h with val := v } := by
    simp [setF, hkm h (by simp)]
  have e2 : rest.filterMap (setF k v h) = [] := by
    rw [List.filterMap_eq_nil_iff]
    intro x hx
    have := hstrict.1 x hx
    have hne : ¬ x.id = h.id := by omega
    simp [setF, hkm x (by simp [hx]), hne]
  rw [e1, e2]
  simp

theorem setF_le (k v : Bytes) (h : Hdr) : ∀ a a', setF k v h a = some a' →
    ∀ y, idLe y a' = idLe y a ∧ idLe a' y = idLe a y := by
  intro a a' ha y
  have : a'.id = a.id := by
    unfold setF at ha
    split at ha
    · split at ha
      · cases ha; rfl
      · cases ha
    · cases ha; rfl
  simp [idLe, this]

theorem setF_filter_not (k v : Bytes) (h : Hdr) (X : List Hdr) :
    (X.filterMap (setF k v h)).filter (fun x => !kmatch k x) = X.filter (fun x => !kmatch k x) := by
  induction X with
  | nil => rfl
  | cons x t ih =>
    rw [List.filterMap_cons]
    by_cases hx : kmatch k x = true
    · have hx' : (strcasecmp k x.key == .eq) = true := hx
      by_cases hid : x.id = h.id
      · simp [setF, hx, hid, List.filter_cons, hx', ih]
      · simp [setF, hx, hid, List.filter_cons, ih]
    · have hx0 : kmatch k x = false := by simpa using hx
      simp [setF, hx0, List.filter_cons, ih]

theorem setF_filter (k v : Bytes) (h : Hdr) (X : List Hdr) :
    (X.filterMap (setF k v h)).filter (kmatch k) = (X.filter (kmatch k)).filterMap (setF k v h) := by
  induction X with
  | nil => rfl
  | cons x t ih =>
    rw [List.filterMap_cons]
    by_cases hx : kmatch k x = true
    · have hx' : (strcasecmp k x.key == .eq) = true := hx
      by_cases hid : x.id = h.id
      · simp [setF, hx, hid, List.filter_cons, hx', ← ih]
      · simp [setF, hx, hid, List.filter_cons, ← ih]
    · have hx0 : kmatch k x = false := by simpa using hx
      simp [setF, hx0, List.filter_cons, ih]

theorem setF_takeWhile (k v : Bytes) (h : Hdr) (rest X : List Hdr)
    (hX : X.filter (kmatch k) = h :: rest) :
    (X.filterMap (setF k v h)).takeWhile (fun x => !kmatch k x) = X.takeWhile (fun x => !kmatch k x) := by
  induction X with
  | nil => simp at hX
  | cons x t ih =>
    rw [List.filterMap_cons]
    by_cases hx : kmatch k x = true
    · rw [List.filter_cons, if_pos hx] at hX
      have : x = h := (List.cons.inj hX).1
      subst this
      have hx' : (strcasecmp k x.key == .eq) = true := hx
      simp [setF, hx, List.takeWhile_cons, hx']
    · have hx0 : kmatch k x = false := by simpa using hx
      rw [List.filter_cons, if_neg hx] at hX
      simp [setF, hx0, List.takeWhile_cons, ih hX]

/-- The effect of one `message_set_header` on the table in id order. -/
structure TableStep (k v : Bytes) (L L' : List Hdr) : Prop where
  others : L'.filter (fun x => !kmatch k x) = L.filter (fun x => !kmatch k x)
  once : ∃ h', L'.filter (kmatch k) = [h'] ∧ h'.val = v
  pos : L.any (kmatch k) = true →
    L'.takeWhile (fun x => !kmatch k x) = L.takeWhile (fun x => !kmatch k x)

theorem setHeaderRaw_step (m : Msg) (k v : Bytes) (hinv : TInv m.headers) :
    TInv (setHeaderRaw m k v).headers ∧ (setHeaderRaw m k v).body = m.body ∧
    (∀ x ∈ (setHeaderRaw m k v).headers, x ∈ m.headers ∨ (x.val = v ∧ (x.key = k ∨ ∃ y ∈ m.headers, y.key = x.key))) ∧
    TableStep k v (sortById m.headers) (sortById (setHeaderRaw m k v).headers) := by
  obtain ⟨hs, body⟩ := m
  simp only at hinv ⊢
  cases hres : searchHeader hs k with
  | none =>
    rw [setHeaderRaw_none _ k v hres]
    simp only
    have hnone := searchHeader_list hs k hinv.1
    rw [hres] at hnone
    simp only at hnone
    have hall : ∀ x ∈ hs, kmatch k x = false := by
      intro x hx
      have := List.filter_eq_nil_iff.mp hnone x hx
      simpa using this
    generalize hhn : ({ id := hs.length + 1, key := k, val := v } : Hdr) = hn
    have hnk : hn.key = k := by rw [← hhn]
    have hnv : hn.val = v := by rw [← hhn]
    have hkn : kmatch k hn = true := kmatch_self k hn hnk
    refine ⟨⟨List.pairwise_mergeSort keyLe_trans keyLe_total _, ?_⟩, trivial, ?_, ?_⟩
    · intro x
      rw [filter_sortByKey_kmatch, List.filter_append]
      by_cases hx : kmatch x hn = true
      · have hxk : strcasecmp x k = .eq := by simpa [kmatch, hnk] using hx
        have : hs.filter (kmatch x) = [] := by
          rw [List.filter_eq_nil_iff]
          intro a ha
          rw [kmatch_congr x k hxk a, hall a ha]; simp
        rw [this]
        simp [List.filter_cons, hx]
      · have hx0 : kmatch x hn = false := by simpa using hx
        simp only [List.filter_cons, hx0, Bool.false_eq_true, if_false, List.filter_nil, List.append_nil]
        exact hinv.2 x
    · intro x hx
      rw [sortByKey, List.mem_mergeSort, List.mem_append, List.mem_singleton] at hx
      rcases hx with hx | rfl
      · exact Or.inl hx
      · exact Or.inr ⟨hnv, Or.inl hnk⟩
    · have hfilt : ∀ p : Hdr → Bool, (sortById (sortByKey (hs ++ [hn]))).filter p =
          sortById (sortByKey ((hs ++ [hn]).filter p)) := by
        intro p
        unfold sortById sortByKey
        rw [mergeSort_filter keyLe_trans keyLe_total, mergeSort_filter idLe_trans idLe_total]
      have hL : ∀ x ∈ sortById hs, kmatch k x = false := by
        intro x hx
        rw [sortById, List.mem_mergeSort] at hx
        exact hall x hx
      refine ⟨?_, ⟨hn, ?_, hnv⟩, ?_⟩
      · rw [hfilt, List.filter_append]
        have e1 : hs.filter (fun x => !kmatch k x) = hs :=
          List.filter_eq_self.mpr (fun a ha => by simp [hall a ha])
        have e2 : [hn].filter (fun x => !kmatch k x) = [] := by simp [List.filter_cons, hkn]
        rw [e1, e2, List.append_nil]
        have e3 : sortByKey hs = hs := List.mergeSort_of_pairwise hinv.1
        rw [e3]
        exact (List.filter_eq_self.mpr (fun a ha => by simp [hL a ha])).symm
      · rw [hfilt, List.filter_append, hnone]
        simp [List.filter_cons, hkn, sortByKey, sortById]
      · intro hany
        exfalso
        rw [List.any_eq_true] at hany
        obtain ⟨x, hx, hkx⟩ := hany
        rw [hL x hx] at hkx
        cases hkx
  | some r =>
    obtain ⟨i, n⟩ := r
    obtain ⟨h, rest, hf⟩ := found_of_search hs k i n hinv.1 hres
    rw [setHeaderRaw_some _ k v i n h hres hf.get]
    simp only
    have hfm := found_filterMap hs k v i n h rest hinv hf
    have hkh : kmatch k h = true := by
      have : h ∈ hs.filter (kmatch k) := by rw [hf.run]; simp
      exact (List.mem_filter.mp this).2
    have hmem : h ∈ hs := by
      have : h ∈ hs.filter (kmatch k) := by rw [hf.run]; simp
      exact (List.mem_filter.mp this).1
    refine ⟨?_, trivial, ?_, ?_⟩
    · -- invariant: same names and ids as a sublist of the old table
      apply TInv_of_sk_eq (hs.take i ++ [h] ++ hs.drop (i + n))
      · simp [sk]
      · apply TInv_sublist _ hs _ hinv
        conv => rhs; rw [hf.split]
        rw [List.append_assoc]
        apply List.Sublist.append (List.Sublist.refl _)
        rw [List.singleton_append, List.cons_append]
        exact List.Sublist.cons_cons h (List.sublist_append_right _ _)
    · intro x hx
      simp only [List.mem_append, List.mem_singleton] at hx
      rcases hx with (hx | rfl) | hx
      · exact Or.inl (List.mem_of_mem_take hx)
      · exact Or.inr ⟨rfl, Or.inr ⟨h, hmem, rfl⟩⟩
      · exact Or.inl (List.mem_of_mem_drop hx)
    · rw [← hfm]
      have hL' : sortById (hs.filterMap (setF k v h)) = (sortById hs).filterMap (setF k v h) :=
        mergeSort_filterMap idLe_trans idLe_total _ (setF_le k v h) hs
      have hLrun : (sortById hs).filter (kmatch k) = h :: rest := by
        rw [filter_sortById_kmatch hs hinv, hf.run]
      rw [hL']
      refine ⟨setF_filter_not k v h _, ⟨{ h with val := v }, ?_, rfl⟩, fun _ => setF_takeWhile k v h rest _ hLrun⟩
      rw [setF_filter, hLrun, ← hf.run]
      have := congrArg (List.filter (kmatch k)) hfm
      rw [setF_filter] at this
      rw [this]
      rw [List.filter_append, List.filter_append]
      rw [List.filter_eq_nil_iff (l := hs.take i) |>.mpr (fun a ha => by simp [hf.before a ha])]
      rw [List.filter_eq_nil_iff (l := hs.drop (i + n)) |>.mpr (fun a ha => by simp [hf.after a ha])]
      have : kmatch k { h with val := v } = true := hkh
      simp [List.filter_cons, this]

end Mdsort.Proofs
