import Mdsort.Proofs.B64Bits

/-! Base64: `b64_pton` model = reference decoder. -/

namespace Mdsort.Proofs
open Mdsort Model

/-! ### The step function without the target-size tests -/

def ustep (st : B64St) (v : UInt8) : B64St :=
  match st.state with
  | 0 => { state := 1, out := st.out, pend := v <<< 2 }
  | 1 => { state := 2, out := st.out ++ [st.pend ||| (v >>> 4)], pend := (v &&& 0x0f) <<< 4 }
  | 2 => { state := 3, out := st.out ++ [st.pend ||| (v >>> 2)], pend := (v &&& 0x03) <<< 6 }
  | _ => { state := 0, out := st.out ++ [st.pend ||| v], pend := 0 }

theorem b64step_eq (n : Nat) (st : B64St) (v : UInt8) (h : st.out.length + 1 < n) :
    b64step n st v = some (ustep st v) := by
  obtain ⟨state, out, pend⟩ := st
  simp only at h
  have h1 : ¬ out.length ≥ n := by omega
  rcases state with _ | _ | _ | k <;> simp [b64step, ustep, h1, h]

theorem ustep_len (st : B64St) (v : UInt8) : (ustep st v).out.length ≤ st.out.length + 1 := by
  obtain ⟨state, out, pend⟩ := st
  rcases state with _ | _ | _ | k <;> simp [ustep]

theorem foldl_ustep_len (vs : List UInt8) (st : B64St) :
    (vs.foldl ustep st).out.length ≤ st.out.length + vs.length := by
  induction vs generalizing st with
  | nil => simp
  | cons v vs ih =>
    have := ih (ustep st v)
    have := ustep_len st v
    simp only [List.foldl_cons, List.length_cons]
    omega

/-! ### Scanner: alphabet indices up to the first pad, and what follows the pad -/

def scan : Bytes → Option (List UInt8 × Option Bytes)
  | [] => some ([], none)
  | c :: r =>
    if isspace c then scan r
    else if c == 61 then some ([], some r)
    else match b64idx c with
      | none => none
      | some v => (scan r).map fun (vs, p) => (v :: vs, p)

def loopRes (st : B64St) : Option (List UInt8 × Option Bytes) → B64P1
  | none => .err
  | some (vs, none) => .eos (vs.foldl ustep st)
  | some (vs, some r) => .pad (vs.foldl ustep st) r

theorem b64loop_eq (n : Nat) (s : Bytes) (st : B64St) (h : st.out.length + s.length < n) :
    b64loop n s st = loopRes st (scan s) := by
  induction s generalizing st with
  | nil => simp [b64loop, scan, loopRes]
  | cons c r ih =>
    simp only [List.length_cons] at h
    unfold b64loop scan
    by_cases hs : isspace c = true
    · simp only [hs, if_true]; exact ih st (by omega)
    · simp only [hs, Bool.false_eq_true, if_false]
      by_cases hp : c = 61
      · subst hp; simp [Gen.pad64, loopRes]
      · have hp' : (c == 61) = false := by simpa using hp
        have hp'' : (c == Gen.pad64) = false := hp'
        simp only [hp', hp'', Bool.false_eq_true, if_false]
        cases hi : b64idx c with
        | none => simp [loopRes]
        | some v =>
          simp only [b64step_eq n st v (by omega)]
          rw [ih (ustep st v) (by have := ustep_len st v; omega)]
          cases scan r with
          | none => simp [loopRes]
          | some x =>
            obtain ⟨vs, p⟩ := x
            cases p <;> simp [loopRes]

/-! ### Reference decoder in terms of the scanner -/

theorem mapM_cons_opt {α β} (f : α → Option β) (a : α) (l : List α) :
    (a :: l).mapM f = (f a).bind fun b => (l.mapM f).map (b :: ·) := by
  simp [List.mapM_cons]
  cases f a <;> simp
  cases l.mapM f <;> simp

def padOf : Option Bytes → Bytes
  | none => []
  | some r => 61 :: r.filter (fun c => !isspace c)

theorem spec_scan (s : Bytes) :
    match scan s with
    | none => ((s.filter (fun c => !isspace c)).takeWhile (fun c => c != 61)).mapM Spec.b64val = none
    | some (vs, p) =>
      ((s.filter (fun c => !isspace c)).takeWhile (fun c => c != 61)).mapM Spec.b64val
          = some (vs.map UInt8.toNat) ∧
      (s.filter (fun c => !isspace c)).dropWhile (fun c => c != 61) = padOf p := by
  induction s with
  | nil => simp [scan, padOf]
  | cons c r ih =>
    unfold scan
    by_cases hs : isspace c = true
    · simp only [hs, if_true]
      simpa [List.filter_cons, hs] using ih
    · have hs' : isspace c = false := by simpa using hs
      simp only [hs', Bool.false_eq_true, if_false]
      by_cases hp : c = 61
      · subst hp; simp [hs', padOf]
      · have hp' : (c == 61) = false := by simpa using hp
        simp only [hp', Bool.false_eq_true, if_false]
        have hf : (c :: r).filter (fun c => !isspace c) = c :: r.filter (fun c => !isspace c) := by
          simp [hs']
        have hne : (c != 61) = true := by simpa using hp
        rw [hf, List.takeWhile_cons, List.dropWhile_cons]
        simp only [hne, if_true]
        rw [mapM_cons_opt, b64val_eq_b64idx]
        cases hi : b64idx c with
        | none => simp
        | some v =>
          cases hsc : scan r with
          | none => rw [hsc] at ih; simp [ih]
          | some x =>
            obtain ⟨vs, p⟩ := x
            rw [hsc] at ih
            simp [ih.1, ih.2]

/-! ### Folding the step function = grouping by four -/

def fin (st : B64St) : Option Bytes :=
  match st.state with
  | 0 => some st.out
  | 1 => none
  | _ => if st.pend != 0 then none else some st.out

theorem groups_eq : ∀ (vs : List UInt8) (acc : Bytes), (∀ v ∈ vs, v.toNat < 64) →
    (Spec.b64groups (vs.map UInt8.toNat)).map (acc ++ ·) = fin (vs.foldl ustep ⟨0, acc, 0⟩)
    ∧ (vs.foldl ustep ⟨0, acc, 0⟩).state = vs.length % 4
  | [], acc, _ => by simp [Spec.b64groups, fin]
  | [a], acc, _ => by simp [Spec.b64groups, fin, ustep]
  | [a, b], acc, h => by
    have ha : a.toNat < 64 := h a (by simp)
    have hb : b.toNat < 64 := h b (by simp)
    simp [Spec.b64groups, fin, ustep, slop2 hb, byte1 ha hb]
  | [a, b, c], acc, h => by
    have ha : a.toNat < 64 := h a (by simp)
    have hb : b.toNat < 64 := h b (by simp)
    have hc : c.toNat < 64 := h c (by simp)
    simp [Spec.b64groups, fin, ustep, slop3 hc, byte1 ha hb, byte2 hb hc]
  | a :: b :: c :: d :: rest, acc, h => by
    have ha : a.toNat < 64 := h a (by simp)
    have hb : b.toNat < 64 := h b (by simp)
    have hc : c.toNat < 64 := h c (by simp)
    have hd : d.toNat < 64 := h d (by simp)
    have ih := groups_eq rest (acc ++ [Spec.byte (a.toNat * 4 + b.toNat / 16),
      Spec.byte (b.toNat % 16 * 16 + c.toNat / 4), Spec.byte (c.toNat % 4 * 64 + d.toNat)])
      (fun v hv => h v (by simp [hv]))
    simp [Spec.b64groups, ustep, byte1 ha hb, byte2 hb hc, byte3 hc hd]
    refine ⟨?_, by rw [ih.2]; omega⟩
    rw [← ih.1]
    congr 1
    funext x
    simp

theorem groups_len : ∀ (vs : List Nat) (out : Bytes), Spec.b64groups vs = some out →
    4 * out.length ≤ 3 * vs.length
  | [], out, h => by simp [Spec.b64groups] at h; subst h; simp
  | [a], out, h => by simp [Spec.b64groups] at h
  | [a, b], out, h => by
    simp [Spec.b64groups] at h; obtain ⟨_, rfl⟩ := h; simp
  | [a, b, c], out, h => by
    simp [Spec.b64groups] at h; obtain ⟨_, rfl⟩ := h; simp
  | a :: b :: c :: d :: rest, out, h => by
    simp [Spec.b64groups] at h
    obtain ⟨t, ht, rfl⟩ := h
    have := groups_len rest t ht
    simp; omega

theorem scan_len (s : Bytes) : ∀ vs p, scan s = some (vs, p) → vs.length ≤ s.length := by
  induction s with
  | nil => intro vs p h; simp [scan] at h; simp [h.1]
  | cons c r ih =>
    intro vs p h
    unfold scan at h
    split at h
    · have := ih vs p h; simp; omega
    · split at h
      · simp at h; simp [h.1]
      · split at h
        · contradiction
        · simp only [Option.map_eq_some_iff] at h
          obtain ⟨⟨vs', p'⟩, hsc, heq⟩ := h
          cases heq
          have := ih vs' p' hsc
          simp; omega

theorem scan_lt (s : Bytes) : ∀ vs p, scan s = some (vs, p) → ∀ v ∈ vs, v.toNat < 64 := by
  induction s with
  | nil => intro vs p h; simp [scan] at h; simp [h.1]
  | cons c r ih =>
    intro vs p h
    unfold scan at h
    split at h
    · exact ih vs p h
    · split at h
      · simp at h; simp [h.1]
      · split at h
        · contradiction
        · rename_i v hv
          simp only [Option.map_eq_some_iff] at h
          obtain ⟨⟨vs', p'⟩, hsc, heq⟩ := h
          cases heq
          intro w hw
          simp at hw
          rcases hw with rfl | hw
          · exact b64idx_lt hv
          · exact ih vs' p' hsc w hw

/-! ### Pad tail, and the main theorems -/

theorem filter_dropWhile_space (r : Bytes) :
    (r.dropWhile isspace).filter (fun c => !isspace c) = r.filter (fun c => !isspace c) := by
  induction r with
  | nil => rfl
  | cons c r ih =>
    by_cases hs : isspace c = true
    · simp [hs, ih]
    · simp [hs]

theorem all_space_iff (r : Bytes) : r.all isspace = true ↔ r.filter (fun c => !isspace c) = [] := by
  simp [List.filter_eq_nil_iff]

theorem dropWhile_head_not {c : UInt8} {r r' : Bytes} (h : r.dropWhile isspace = c :: r') :
    isspace c = false := by
  induction r with
  | nil => simp at h
  | cons x r ih =>
    rw [List.dropWhile_cons] at h
    split at h
    · exact ih h
    · cases h; simpa using ‹¬ isspace c = true›

def tailv (n : Nat) (st : B64St) : Option Bytes :=
  if st.out.length < n && st.pend != 0 then none else some st.out

theorem tail1 (n : Nat) (st : B64St) (r : Bytes) :
    b64tail n st r = if r.filter (fun c => !isspace c) = [] then tailv n st else none := by
  unfold b64tail tailv
  by_cases h : r.all isspace = true
  · rw [if_pos h, if_pos ((all_space_iff r).1 h)]
  · rw [if_neg h, if_neg (fun h' => h ((all_space_iff r).2 h'))]

theorem tail2 (n : Nat) (st : B64St) (r : Bytes) :
    (match r.dropWhile isspace with
      | c :: r' => if c == Gen.pad64 then b64tail n st r' else none
      | [] => none)
    = if r.filter (fun c => !isspace c) = [61] then tailv n st else none := by
  rw [← filter_dropWhile_space r]
  cases hd : r.dropWhile isspace with
  | nil => simp
  | cons c r' =>
    have hc := dropWhile_head_not hd
    simp only [List.filter_cons, hc, Bool.not_false, if_true, tail1]
    by_cases hp : c = 61
    · subst hp; simp [Gen.pad64]
    · have : (c == Gen.pad64) = false := by simpa [Gen.pad64] using hp
      simp [this, hp]


theorem b64_eq_scan (s : Bytes) :
    Spec.b64 s = match scan s with
      | none => none
      | some (vs, p) =>
        if Spec.b64padOk vs.length (padOf p) then Spec.b64groups (vs.map UInt8.toNat) else none := by
  have hs := spec_scan s
  unfold Spec.b64
  cases hsc : scan s with
  | none => rw [hsc] at hs; simp only [hs]
  | some x =>
    obtain ⟨vs, p⟩ := x
    rw [hsc] at hs
    simp only [hs.1, hs.2, List.length_map]

theorem b64pton_eq_spec' (s : Bytes) (n : Nat) (h : s.length < n) : b64pton s n = Spec.b64 s := by
  rw [b64_eq_scan]
  unfold b64pton
  rw [b64loop_eq n s B64St.init (by simpa [B64St.init] using h)]
  cases hsc : scan s with
  | none => simp [loopRes]
  | some x =>
    obtain ⟨vs, p⟩ := x
    have hlt := scan_lt s vs p hsc
    have hlen := scan_len s vs p hsc
    obtain ⟨hg, hstate⟩ := groups_eq vs [] hlt
    have hol := foldl_ustep_len vs ⟨0, [], 0⟩
    simp only [List.length_nil, Nat.zero_add] at hol
    have hg' : Spec.b64groups (vs.map UInt8.toNat) = fin (vs.foldl ustep ⟨0, [], 0⟩) := by
      rw [← hg]; cases Spec.b64groups (vs.map UInt8.toNat) <;> simp
    have h4 : (vs.foldl ustep ⟨0, [], 0⟩).state < 4 := by rw [hstate]; exact Nat.mod_lt _ (by decide)
    have hon : (vs.foldl ustep ⟨0, [], 0⟩).out.length < n := by omega
    cases p with
    | none =>
      simp only [loopRes, B64St.init, padOf, hg', Spec.b64padOk, ← hstate]
      generalize vs.foldl ustep ⟨0, [], 0⟩ = st at h4 hon
      obtain ⟨state, out, pend⟩ := st
      simp only at h4 hon
      rcases state with _ | _ | _ | _ | k
      · simp [fin]
      · simp
      · simp
      · simp
      · omega
    | some r =>
      simp only [loopRes, B64St.init, padOf, hg', Spec.b64padOk, ← hstate]
      generalize vs.foldl ustep ⟨0, [], 0⟩ = st at h4 hon
      obtain ⟨state, out, pend⟩ := st
      simp only at h4 hon
      rcases state with _ | _ | _ | _ | k
      · simp
      · simp
      · simp only [Nat.zero_add, Nat.reduceAdd]
        refine (tail2 n _ r).trans ?_
        simp [fin, tailv, hon]
      · simp [fin, tailv, hon, tail1]
      · omega

theorem b64_spec_len' (s out : Bytes) (h : Spec.b64 s = some out) : 4 * out.length ≤ 3 * s.length := by
  rw [b64_eq_scan] at h
  cases hsc : scan s with
  | none => rw [hsc] at h; simp at h
  | some x =>
    obtain ⟨vs, p⟩ := x
    rw [hsc] at h
    simp only at h
    split at h
    · have h1 := groups_len _ _ h
      have h2 := scan_len s vs p hsc
      simp at h1
      omega
    · contradiction

end Mdsort.Proofs
