import Mdsort.Proofs.ConfCfg3

/-!
# What the parser model accepts is derived by the grammar, part 2: conditions, rules, blocks, the file

Every function of `Model/Conf.lean` that stands for a non-terminal consumes a token sequence that non-terminal
derives in `Gen.productions`; `parseConfig` accepting a text therefore means: the token kinds the lexer
model delivers for that text (`Lexes`) are the yield of a checked parse tree with root `grammar`.
-/

set_option linter.unusedSimpArgs false

namespace Mdsort.Proofs.Cfg
open Mdsort Mdsort.Model Mdsort.Spec Mdsort.Spec.Cfg Mdsort.Proofs.Conf Mdsort.Proofs.MainText

variable {α : Type} {Q : α → ParseSt → Prop} {s s0 : ParseSt} {w0 : List Sym}

theorem expr1_of_expr3 {w : List Sym} (h : Derives GP "expr3" w) : Derives GP "expr1" w :=
  (Derives.node p_expr1_expr3 (.cons h .nil)).cast (by simp)

theorem uses_leafAt_cond (cx : PCtx) (mk : Nat → Expr) : Uses (leafAt cx mk) (fun w => w = []) := by
  intro s0 s w0 hb
  unfold leafAt
  simp only [wp_bind, wp_curLine, wp_pure]
  exact ⟨[], rfl, hb.cast (by simp)⟩

/-! ## Conditions -/

theorem uses_parseCondKw (cx : PCtx) (fuel : Nat) (unary : PM CTree) (k : Kw) (p : PM CTree)
    (hp : parseCondKw cx fuel unary k = some p) (hun : Uses unary (Derives GP "expr1")) :
    UsesAt (.kw k) p (Derives GP "expr1") := by
  intro s0 s w0 hb hla
  cases k <;> simp only [parseCondKw] at hp <;> try cases hp
  all_goals
    simp only [wp_bind]
    refine wpg_shift hb hla (by simp) rfl (fun s2 h2 => ?_)
  · -- all
    refine wp_of_uses (uses_leafAt_cond cx _) h2 ?_
    intro _ s3 w hw h3
    subst hw
    exact ⟨["ALL"], expr1_of_expr3 (Derives.node p_expr3_all (.cons (.leaf t_all) .nil)), h3.cast (by simp [tkKind, kwSym])⟩
  · -- attachment
    refine wp_of_uses hun h2 ?_
    intro e s3 w hw h3
    simp only [wp_curLine, wp_pure]
    exact ⟨"ATTACHMENT" :: w, (Derives.node p_expr1_attachment_expr1 (.cons (.leaf t_attachment) (.cons hw .nil))).cast (by simp),
      h3.cast (by simp [tkKind, kwSym])⟩
  · -- body
    refine wp_of_uses (uses_parsePattern cx) h2 ?_
    intro pt s3 w hw h3
    simp only [wp_curLine]
    refine wp_of_uses (uses_checkPattern cx pt) h3 ?_
    intro _ s4 w' hw' h4
    subst hw'
    simp only [wp_pure]
    exact ⟨"BODY" :: w,
      expr1_of_expr3 ((Derives.node p_expr3_body_pattern (.cons (.leaf t_body) (.cons hw .nil))).cast (by simp)),
      h4.cast (by simp [tkKind, kwSym])⟩
  · -- command
    refine wp_of_uses (uses_parseStrings cx fuel) h2 ?_
    intro ss s3 w hw h3
    simp only [wp_curLine]
    apply wpg_expandAll cx _ _ h3
    intro v s4 h4
    simp only [wp_pure]
    exact ⟨"COMMAND" :: w,
      expr1_of_expr3 ((Derives.node p_expr3_command_strings (.cons (.leaf t_command) (.cons hw .nil))).cast (by simp)),
      h4.cast (by simp [tkKind, kwSym])⟩
  · -- date
    refine wp_of_uses (uses_parseDate cx) h2 ?_
    intro _ s3 w hw h3
    exact ⟨"DATE" :: w, expr1_of_expr3 hw, h3.cast (by simp [tkKind, kwSym])⟩
  · -- header
    refine wp_of_uses (uses_parseStrings cx fuel) h2 ?_
    intro ss s3 w1 hw1 h3
    refine wp_of_uses (uses_parsePattern cx) h3 ?_
    intro pt s4 w2 hw2 h4
    simp only [wp_curLine]
    refine wp_of_uses (uses_checkPattern cx pt) h4 ?_
    intro _ s5 w' hw' h5
    subst hw'
    apply wpg_expandAll cx _ _ h5
    intro v s6 h6
    simp only [wp_pure]
    exact ⟨"HEADER" :: (w1 ++ w2),
      expr1_of_expr3 ((Derives.node p_expr3_header_strings_pattern
        (.cons (.leaf t_header) (.cons hw1 (.cons hw2 .nil)))).cast (by simp)),
      h6.cast (by simp [tkKind, kwSym])⟩
  · -- isdirectory
    refine wp_of_uses (uses_parseStr cx) h2 ?_
    intro str s3 w hw h3
    subst hw
    simp only [wp_curLine]
    apply wpg_expandOne cx _ _ h3
    intro v s4 h4
    simp only [wp_pure]
    exact ⟨["ISDIRECTORY", "STRING"],
      expr1_of_expr3 (Derives.node p_expr3_isdirectory_string (.cons (.leaf t_isdirectory) (.cons (.leaf t_string) .nil))),
      h4.cast (by simp [tkKind, kwSym])⟩
  · -- new
    refine wp_of_uses (uses_leafAt_cond cx _) h2 ?_
    intro _ s3 w hw h3
    subst hw
    exact ⟨["NEW"], expr1_of_expr3 (Derives.node p_expr3_new (.cons (.leaf t_new) .nil)), h3.cast (by simp [tkKind, kwSym])⟩
  · -- old
    refine wp_of_uses (uses_leafAt_cond cx _) h2 ?_
    intro _ s3 w hw h3
    subst hw
    exact ⟨["OLD"], expr1_of_expr3 (Derives.node p_expr3_old (.cons (.leaf t_old) .nil)), h3.cast (by simp [tkKind, kwSym])⟩

theorem uses_cond (cx : PCtx) : ∀ fuel : Nat,
    Uses (parseUnary cx fuel) (Derives GP "expr1") ∧ (∀ lhs, Uses (parseBinTail cx fuel lhs) (Extends "expr1")) := by
  intro fuel
  induction fuel with
  | zero =>
    refine ⟨fun s0 s w0 _ => ?_, fun lhs s0 s w0 _ => ?_⟩
    · simp [parseUnary, wp, outOfFuel]
    · simp [parseBinTail, wp, outOfFuel]
  | succ fuel ih =>
    obtain ⟨ihU, ihB⟩ := ih
    constructor
    · intro s0 s w0 hb
      unfold parseUnary
      simp only [wp_bind]
      apply wpg_peek cx hb
      intro t s1 hla h1
      cases t <;> (try simp only [wp_failTok]) <;> try trivial
      · -- neg
        simp only [wp_bind]
        refine wpg_shift h1 hla (by simp) rfl (fun s2 h2 => ?_)
        refine wp_of_uses ihU h2 ?_
        intro e s3 w hw h3
        simp only [wp_curLine, wp_pure]
        exact ⟨"NEG" :: w, (Derives.node p_expr1_neg_expr1 (.cons (.leaf t_neg) (.cons hw .nil))).cast (by simp),
          h3.cast (by simp [tkKind])⟩
      · -- kw
        rename_i k
        cases hp : parseCondKw cx fuel (parseUnary cx fuel) k with
        | none => simp only [wp_failTok]; trivial
        | some p => exact uses_parseCondKw cx fuel _ k p hp ihU s0 s1 w0 h1 hla
      · -- lparen
        simp only [wp_bind]
        refine wpg_shift h1 hla (by simp) rfl (fun s2 h2 => ?_)
        refine wp_of_uses ihU h2 ?_
        intro e s3 w1 hw1 h3
        refine wp_of_uses (ihB e) h3 ?_
        intro e' s4 w2 hw2 h4
        refine wp_of_uses (uses_expectTk cx .rparen (by simp) rfl) h4 ?_
        intro _ s5 w3 hw3 h5
        subst hw3
        simp only [wp_pure]
        refine ⟨"'('" :: (w1 ++ w2 ++ ["')'"]), ?_, h5.cast (by simp [tkKind])⟩
        have hin := hw2 _ hw1
        exact expr1_of_expr3 ((Derives.node p_expr3_lparen_expr1_rparen
          (.cons (.leaf t_lparen) (.cons hin (.cons (.leaf t_rparen) .nil)))).cast (by simp))
    · intro lhs s0 s w0 hb
      unfold parseBinTail
      simp only [wp_bind]
      apply wpg_peek cx hb
      intro t s1 hla h1
      have hdef : ∃ w, Extends "expr1" w ∧ Back s0 s1 (w0 ++ w) := ⟨[], Extends.nil _, h1.cast (by simp)⟩
      cases t <;> (try simp only [wp_pure]) <;> try exact hdef
      rename_i k
      cases k <;> (try simp only [wp_pure]) <;> try exact hdef
      · -- and
        simp only [wp_bind]
        refine wpg_shift h1 hla (by simp) rfl (fun s2 h2 => ?_)
        refine wp_of_uses ihU h2 ?_
        intro r s3 w1 hw1 h3
        simp only [wp_curLine]
        refine wp_of_uses (ihB _) h3 ?_
        intro _ s4 w2 hw2 h4
        refine ⟨"AND" :: (w1 ++ w2), ?_, h4.cast (by simp [tkKind, kwSym])⟩
        intro pre hpre
        have hj : Derives GP "expr1" (pre ++ "AND" :: w1) :=
          (Derives.node p_expr1_expr1_and_expr1 (.cons hpre (.cons (.leaf t_and) (.cons hw1 .nil)))).cast (by simp)
        exact (hw2 _ hj).cast (by simp)
      · -- or
        simp only [wp_bind]
        refine wpg_shift h1 hla (by simp) rfl (fun s2 h2 => ?_)
        refine wp_of_uses ihU h2 ?_
        intro r s3 w1 hw1 h3
        simp only [wp_curLine]
        refine wp_of_uses (ihB _) h3 ?_
        intro _ s4 w2 hw2 h4
        refine ⟨"OR" :: (w1 ++ w2), ?_, h4.cast (by simp [tkKind, kwSym])⟩
        intro pre hpre
        have hj : Derives GP "expr1" (pre ++ "OR" :: w1) :=
          (Derives.node p_expr1_expr1_or_expr1 (.cons hpre (.cons (.leaf t_or) (.cons hw1 .nil)))).cast (by simp)
        exact (hw2 _ hj).cast (by simp)

/-! ## Rules, actions, blocks -/

/-- After `{`: rules and the closing brace. -/
def BlockRest (w : List Sym) : Prop := ∃ u, w = u ++ ["'}'"] ∧ Extends "exprs" u

theorem exprblock_of_rest {w : List Sym} (h : BlockRest w) : Derives GP "exprblock" ("'{'" :: w) := by
  obtain ⟨u, rfl, hu⟩ := h
  have he : Derives GP "exprs" u := (hu [] (Derives.node p_exprs_empty .nil)).cast (by simp)
  exact (Derives.node p_exprblock_lbrace_exprs_rbrace (.cons (.leaf t_lbrace) (.cons he (.cons (.leaf t_rbrace) .nil)))).cast
    (by simp)

theorem expractions_of_ext {w : List Sym} (h : Extends "expractions" w) : Derives GP "expractions" w :=
  (h [] (Derives.node p_expractions_empty .nil)).cast (by simp)

/-- After `match`. -/
theorem uses_parseRuleWith (cx : PCtx) (fuel : Nat) (exprs : PM CTree) (actions : PM (Option CTree))
    (hex : Uses exprs BlockRest) (hac : Uses actions (Extends "expractions")) :
    Uses (parseRuleWith cx fuel exprs actions) (fun w => Derives GP "expr" ("MATCH" :: w)) := by
  intro s0 s w0 hb
  unfold parseRuleWith
  simp only [wp_bind]
  refine wp_of_uses (uses_cond cx fuel).1 hb ?_
  intro c0 s1 w1 hw1 h1
  refine wp_of_uses ((uses_cond cx fuel).2 c0) h1 ?_
  intro c s2 w2 hw2 h2
  have hcond : Derives GP "expr1" (w1 ++ w2) := hw2 _ hw1
  apply wpg_peek cx h2
  intro t s3 hla h3
  have hacts : wp (do
      let acts ← actions
      match acts with
      | none => failTok
      | some a => do
        validateActions a
        let l ← curLine cx
        pure (CTree.mtch l c a))
      (fun _ s' => ∃ w, Derives GP "expr" ("MATCH" :: w) ∧ Back s0 s' (w0 ++ w)) AnyErr True s3 := by
    simp only [wp_bind]
    refine wp_of_uses hac h3 ?_
    intro acts s4 w3 hw3 h4
    cases acts with
    | none => simp only [wp_failTok]; trivial
    | some a =>
      simp only [wp_bind, validateActions, wp_ite, wp_failAt, wp_pure, wp_curLine]
      split
      · trivial
      · refine ⟨w1 ++ w2 ++ w3, ?_, h4.cast (by simp)⟩
        have h2' : Derives GP "expr2" w3 := (Derives.node p_expr2_expractions (.cons (expractions_of_ext hw3) .nil)).cast (by simp)
        exact (Derives.node p_expr_match_expr1_expr2 (.cons (.leaf t_match) (.cons hcond (.cons h2' .nil)))).cast (by simp)
  cases t <;> try exact hacts
  -- lbrace
  simp only [wp_bind]
  refine wpg_shift h3 hla (by simp) rfl (fun s4 h4 => ?_)
  refine wp_of_uses hex h4 ?_
  intro b s5 w3 hw3 h5
  simp only [wp_ite, wp_failTok, wp_bind, wp_curLine, wp_pure]
  split
  · trivial
  · refine ⟨w1 ++ w2 ++ "'{'" :: w3, ?_, h5.cast (by simp [tkKind])⟩
    have h2' : Derives GP "expr2" ("'{'" :: w3) := (Derives.node p_expr2_exprblock (.cons (exprblock_of_rest hw3) .nil)).cast (by simp)
    exact (Derives.node p_expr_match_expr1_expr2 (.cons (.leaf t_match) (.cons hcond (.cons h2' .nil)))).cast (by simp)

theorem uses_parseActionWith (cx : PCtx) (fuel : Nat) (exprs : PM CTree) (k : Kw) (p : PM CTree)
    (hp : parseActionWith cx fuel exprs k = some p) (hex : Uses exprs BlockRest) :
    UsesAt (.kw k) p (Derives GP "expraction") := by
  intro s0 s w0 hb hla
  cases k <;> simp only [parseActionWith] at hp <;> try cases hp
  all_goals
    simp only [wp_bind]
    refine wpg_shift hb hla (by simp) rfl (fun s2 h2 => ?_)
  · -- addheader
    refine wp_of_uses (uses_parseStr cx) h2 ?_
    intro k s3 w1 hw1 h3
    refine wp_of_uses (uses_parseStr cx) h3 ?_
    intro v s4 w2 hw2 h4
    subst hw1; subst hw2
    simp only [wp_curLine]
    apply wpg_expandMac _ _ h4
    intro k' s5 h5
    apply wpg_expandMac _ _ h5
    intro v' s6 h6
    simp only [wp_pure]
    exact ⟨["ADDHEADER", "STRING", "STRING"],
      Derives.node p_expraction_addheader_string_string
        (.cons (.leaf t_addheader) (.cons (.leaf t_string) (.cons (.leaf t_string) .nil))),
      h6.cast (by simp [tkKind, kwSym])⟩
  · -- attachment
    refine wp_of_uses (uses_expectTk cx .lbrace (by simp) rfl) h2 ?_
    intro _ s3 w1 hw1 h3
    subst hw1
    refine wp_of_uses hex h3 ?_
    intro b s4 w2 hw2 h4
    simp only [wp_ite, wp_failTok, wp_bind, wp_curLine, wp_pure]
    split
    · trivial
    · split
      · trivial
      · exact ⟨"ATTACHMENT" :: "'{'" :: w2,
          (Derives.node p_expraction_attachment_exprblock (.cons (.leaf t_attachment) (.cons (exprblock_of_rest hw2) .nil))).cast
            (by simp),
          h4.cast (by simp [tkKind, kwSym])⟩
  · -- break
    refine wp_of_uses (uses_leafAt_cond cx _) h2 ?_
    intro _ s3 w hw h3
    subst hw
    exact ⟨["BREAK"], Derives.node p_expraction_break (.cons (.leaf t_break) .nil), h3.cast (by simp [tkKind, kwSym])⟩
  · -- discard
    refine wp_of_uses (uses_leafAt_cond cx _) h2 ?_
    intro _ s3 w hw h3
    subst hw
    exact ⟨["DISCARD"], Derives.node p_expraction_discard (.cons (.leaf t_discard) .nil), h3.cast (by simp [tkKind, kwSym])⟩
  · -- exec
    refine wp_of_uses (uses_parseExecFlags cx fuel _ _) h2 ?_
    intro fl s3 w1 hw1 h3
    refine wp_of_uses (uses_parseStrings cx fuel) h3 ?_
    intro ss s4 w2 hw2 h4
    simp only [wp_curLine]
    apply wpg_expandAll cx _ _ h4
    intro v s5 h5
    simp only [wp_ite, wp_failTok, wp_pure]
    split
    · trivial
    · have hf : Derives GP "exec_flags" w1 := (hw1 [] (Derives.node p_exec_flags_empty .nil)).cast (by simp)
      exact ⟨"EXEC" :: (w1 ++ w2),
        (Derives.node p_expraction_exec_exec_flags_strings (.cons (.leaf t_exec) (.cons hf (.cons hw2 .nil)))).cast (by simp),
        h5.cast (by simp [tkKind, kwSym])⟩
  · -- flag
    refine wp_of_uses (uses_parseOptNeg cx) h2 ?_
    intro ng s3 w1 hw1 h3
    refine wp_of_uses (uses_expectTk cx (.kw .new) (by simp) rfl) h3 ?_
    intro _ s4 w2 hw2 h4
    subst hw2
    simp only [wp_curLine, wp_pure]
    have hfl : Derives GP "flag" (w1 ++ ["NEW"]) :=
      (Derives.node p_flag_optneg_new (.cons hw1 (.cons (.leaf t_new) .nil))).cast (by simp)
    exact ⟨"FLAG" :: (w1 ++ ["NEW"]),
      (Derives.node p_expraction_flag_flag (.cons (.leaf t_flag) (.cons hfl .nil))).cast (by simp),
      h4.cast (by simp [tkKind, kwSym])⟩
  · -- flags
    refine wp_of_uses (uses_parseStr cx) h2 ?_
    intro str s3 w hw h3
    subst hw
    simp only [wp_curLine]
    apply wpg_expandMac _ _ h3
    intro str' s4 h4
    simp only [wp_pure]
    exact ⟨["FLAGS", "STRING"],
      Derives.node p_expraction_flags_string (.cons (.leaf t_flags) (.cons (.leaf t_string) .nil)),
      h4.cast (by simp [tkKind, kwSym])⟩
  · -- label
    refine wp_of_uses (uses_parseStrings cx fuel) h2 ?_
    intro ss s3 w hw h3
    simp only [wp_curLine]
    apply wpg_expandAll cx _ _ h3
    intro v s4 h4
    simp only [wp_pure]
    exact ⟨"LABEL" :: w,
      (Derives.node p_expraction_label_strings (.cons (.leaf t_label) (.cons hw .nil))).cast (by simp),
      h4.cast (by simp [tkKind, kwSym])⟩
  · -- move
    refine wp_of_uses (uses_parseStr cx) h2 ?_
    intro str s3 w hw h3
    subst hw
    simp only [wp_curLine]
    apply wpg_expandOne cx _ _ h3
    intro v s4 h4
    simp only [wp_pure]
    exact ⟨["MOVE", "STRING"],
      Derives.node p_expraction_move_string (.cons (.leaf t_move) (.cons (.leaf t_string) .nil)),
      h4.cast (by simp [tkKind, kwSym])⟩
  · -- pass
    refine wp_of_uses (uses_leafAt_cond cx _) h2 ?_
    intro _ s3 w hw h3
    subst hw
    exact ⟨["PASS"], Derives.node p_expraction_pass (.cons (.leaf t_pass) .nil), h3.cast (by simp [tkKind, kwSym])⟩
  · -- reject
    refine wp_of_uses (uses_leafAt_cond cx _) h2 ?_
    intro _ s3 w hw h3
    subst hw
    exact ⟨["REJECT"], Derives.node p_expraction_reject (.cons (.leaf t_reject) .nil), h3.cast (by simp [tkKind, kwSym])⟩

theorem uses_block (cx : PCtx) : ∀ fuel : Nat,
    (∀ acc, Uses (parseExprs cx fuel acc) BlockRest) ∧
    (∀ acc, Uses (parseActions cx fuel acc) (Extends "expractions")) := by
  intro fuel
  induction fuel with
  | zero =>
    refine ⟨fun acc s0 s w0 _ => ?_, fun acc s0 s w0 _ => ?_⟩
    · simp [parseExprs, wp, outOfFuel]
    · simp [parseActions, wp, outOfFuel]
  | succ fuel ih =>
    obtain ⟨ihE, ihA⟩ := ih
    constructor
    · intro acc s0 s w0 hb
      unfold parseExprs
      simp only [wp_bind]
      apply wpg_peek cx hb
      intro t s1 hla h1
      cases t <;> (try simp only [wp_failTok]) <;> try trivial
      · -- kw
        rename_i k
        cases k <;> (try simp only [wp_failTok]) <;> try trivial
        simp only [wp_bind]
        refine wpg_shift h1 hla (by simp) rfl (fun s2 h2 => ?_)
        refine wp_of_uses (uses_parseRuleWith cx fuel _ _ (ihE none) (ihA none)) h2 ?_
        intro r s3 w1 hw1 h3
        simp only [wp_curLine]
        refine wp_of_uses (ihE _) h3 ?_
        intro _ s4 w2 ⟨u, hu, hext⟩ h4
        subst hu
        refine ⟨"MATCH" :: (w1 ++ (u ++ ["'}'"])), ⟨"MATCH" :: (w1 ++ u), by simp, ?_⟩, h4.cast (by simp [tkKind, kwSym])⟩
        intro pre hpre
        have hj : Derives GP "exprs" (pre ++ "MATCH" :: w1) :=
          (Derives.node p_exprs_exprs_expr (.cons hpre (.cons hw1 .nil))).cast (by simp)
        exact (hext _ hj).cast (by simp)
      · -- rbrace
        simp only [wp_bind]
        refine wpg_shift h1 hla (by simp) rfl (fun s2 h2 => ?_)
        simp only [wp_curLine, wp_pure]
        exact ⟨["'}'"], ⟨[], rfl, Extends.nil _⟩, h2⟩
    · intro acc s0 s w0 hb
      unfold parseActions
      simp only [wp_bind]
      apply wpg_peek cx hb
      intro t s1 hla h1
      have hdef : ∃ w, Extends "expractions" w ∧ Back s0 s1 (w0 ++ w) := ⟨[], Extends.nil _, h1.cast (by simp)⟩
      cases t <;> (try simp only [wp_pure]) <;> try exact hdef
      rename_i k
      cases hp : parseActionWith cx fuel (parseExprs cx fuel none) k with
      | none => simp only [wp_pure]; exact hdef
      | some p =>
        simp only [wp_bind]
        have := uses_parseActionWith cx fuel _ k p hp (ihE none) s0 s1 w0 h1 hla
        refine wp_mono this ?_ (fun _ h => h)
        intro a s2 ⟨w1, hw1, h2⟩
        simp only [andJoin, wp_bind, wp_curLine, wp_pure]
        refine wp_of_uses (ihA _) h2 ?_
        intro _ s3 w2 hw2 h3
        refine ⟨w1 ++ w2, ?_, h3.cast (by simp)⟩
        intro pre hpre
        have hj : Derives GP "expractions" (pre ++ w1) :=
          (Derives.node p_expractions_expractions_expraction (.cons hpre (.cons hw1 .nil))).cast (by simp)
        exact (hw2 _ hj).cast (by simp)

/-- After `maildir_paths`. -/
theorem uses_parseMaildirBody (cx : PCtx) (fuel : Nat) (paths : List Bytes) :
    Uses (parseMaildirBody cx fuel paths) (Derives GP "exprblock") := by
  intro s0 s w0 hb
  unfold parseMaildirBody
  simp only [wp_bind]
  refine wp_of_uses (uses_expectTk cx .lbrace (by simp) rfl) hb ?_
  intro _ s1 w1 hw1 h1
  subst hw1
  refine wp_of_uses ((uses_block cx fuel).1 none) h1 ?_
  intro b s2 w2 hw2 h2
  simp only [wp_ite, wp_failTok, wp_pure]
  split
  · trivial
  · split
    · trivial
    · exact ⟨"'{'" :: w2, exprblock_of_rest hw2, h2.cast (by simp [tkKind])⟩

/-- After the macro name. -/
theorem uses_parseMacroDef (cx : PCtx) (name : Bytes) : Uses (parseMacroDef cx name) (fun w => w = ["'='", "STRING"]) := by
  intro s0 s w0 hb
  unfold parseMacroDef
  simp only [wp_bind]
  refine wp_of_uses (uses_expectTk cx .eq (by simp) rfl) hb ?_
  intro _ s1 w1 hw1 h1
  subst hw1
  refine wp_of_uses (uses_parseStr cx) h1 ?_
  intro v s2 w2 hw2 h2
  subst hw2
  simp only [wp_curLine]
  apply wpg_expandOne cx _ _ h2
  intro v' s3 h3
  simp only [wp_getMacros]
  split
  · simp only [wp_failTok]; trivial
  · simp only [wp_setMacros]
    exact ⟨_, rfl, (h3.macros _).cast (by simp [tkKind])⟩

/-- The file: what is consumed extends the `grammar` read before, and the end of the input is in hand. -/
theorem uses_parseTop (cx : PCtx) : ∀ (fuel : Nat) (blocks : List PBlock) (s0 s : ParseSt) (w0 : List Sym), Back s0 s w0 →
    wp (parseTop cx fuel blocks) (fun _ s' => ∃ w, Extends "grammar" w ∧ Back s0 s' (w0 ++ w) ∧ s'.la = some .eof) AnyErr True s := by
  intro fuel
  induction fuel with
  | zero => intro blocks s0 s w0 _; simp [parseTop, wp, outOfFuel]
  | succ fuel ih =>
    intro blocks s0 s w0 hb
    unfold parseTop
    simp only [wp_bind]
    apply wpg_peek cx hb
    intro t s1 hla h1
    have hblock : ∀ (wp1 w2 : List Sym), Derives GP "maildir_paths" wp1 → Derives GP "exprblock" w2 →
        ∀ w3, Extends "grammar" w3 → Extends "grammar" (wp1 ++ w2 ++ w3) := by
      intro wp1 w2 h1 h2 w3 h3 pre hpre
      have hm : Derives GP "maildir" (wp1 ++ w2) :=
        (Derives.node p_maildir_maildir_paths_exprblock (.cons h1 (.cons h2 .nil))).cast (by simp)
      have hg : Derives GP "grammar" (pre ++ (wp1 ++ w2)) :=
        (Derives.node p_grammar_grammar_maildir (.cons hpre (.cons hm .nil))).cast (by simp)
      exact (h3 _ hg).cast (by simp)
    cases t <;> (try simp only [wp_failTok, wp_pure]) <;> (try trivial)
    · -- eof
      exact ⟨[], Extends.nil _, h1.cast (by simp), hla⟩
    · -- macro
      rename_i name
      simp only [wp_bind]
      refine wpg_shift h1 hla (by simp) rfl (fun s2 h2 => ?_)
      refine wp_of_uses (uses_parseMacroDef cx name) h2 ?_
      intro _ s3 w1 hw1 h3
      subst hw1
      refine wp_mono (ih blocks s0 s3 _ h3) ?_ (fun _ h => h)
      intro _ s4 ⟨w3, hw3, h4, hla4⟩
      refine ⟨"MACRO" :: "'='" :: "STRING" :: w3, ?_, h4.cast (by simp [tkKind]), hla4⟩
      intro pre hpre
      have hm : Derives GP "macro" ["MACRO", "'='", "STRING"] :=
        Derives.node p_macro_macro_eq_string (.cons (.leaf t_macro) (.cons (.leaf t_eq) (.cons (.leaf t_string) .nil)))
      have hg : Derives GP "grammar" (pre ++ ["MACRO", "'='", "STRING"]) :=
        (Derives.node p_grammar_grammar_macro (.cons hpre (.cons hm .nil))).cast (by simp)
      exact (hw3 _ hg).cast (by simp)
    · -- kw
      rename_i k
      cases k <;> (try simp only [wp_failTok]) <;> try trivial
      · -- maildir
        simp only [wp_bind]
        refine wpg_shift h1 hla (by simp) rfl (fun s2 h2 => ?_)
        refine wp_of_uses (uses_parseStrings cx fuel) h2 ?_
        intro ss s3 w1 hw1 h3
        apply wpg_expandAll cx _ _ h3
        intro paths s4 h4
        refine wp_of_uses (uses_parseMaildirBody cx fuel paths) h4 ?_
        intro b s5 w2 hw2 h5
        refine wp_mono (ih _ s0 s5 _ h5) ?_ (fun _ h => h)
        intro _ s6 ⟨w3, hw3, h6, hla6⟩
        have hp : Derives GP "maildir_paths" ("MAILDIR" :: w1) :=
          (Derives.node p_maildir_paths_maildir_strings (.cons (.leaf t_maildir) (.cons hw1 .nil))).cast (by simp)
        exact ⟨"MAILDIR" :: w1 ++ w2 ++ w3, hblock _ _ hp hw2 _ hw3, h6.cast (by simp [tkKind, kwSym]), hla6⟩
      · -- stdin
        simp only [wp_bind]
        refine wpg_shift h1 hla (by simp) rfl (fun s2 h2 => ?_)
        simp only [wp_ite, wp_failTok, wp_bind]
        split
        · trivial
        · refine wp_of_uses (uses_parseMaildirBody cx fuel _) h2 ?_
          intro b s5 w2 hw2 h5
          refine wp_mono (ih _ s0 s5 _ h5) ?_ (fun _ h => h)
          intro _ s6 ⟨w3, hw3, h6, hla6⟩
          have hp : Derives GP "maildir_paths" ["STDIN"] := Derives.node p_maildir_paths_stdin (.cons (.leaf t_stdin) .nil)
          exact ⟨["STDIN"] ++ w2 ++ w3, hblock _ _ hp hw2 _ hw3, h6.cast (by simp [tkKind, kwSym]), hla6⟩

/-- **Every text the parser model accepts is a sentence of the grammar in `Gen.productions`**: the token
kinds the lexer model delivers for it are the yield of a checked parse tree whose root is the start symbol. -/
theorem accepted_in_grammar {home : Bytes} {defs : List (Bytes × Bytes)} {rx : Pat → Bool} {input : Bytes}
    {blocks : List PBlock} (h : parseConfig home defs rx input = .ok blocks) :
    ∃ t : Tree, t.ok Gen.productions = true ∧ t.root = Gen.grammarStart ∧ Lexes false input t.yield := by
  unfold parseConfig parseConfigFull at h
  cases hd : macrosOfDefs defs [] with
  | none => rw [hd] at h; cases h
  | some ms =>
    rw [hd] at h
    simp only at h
    have := uses_parseTop { nl := countNl input, home := home, rxOk := rx } (input.length + 1) []
      { rest := input, macros := ms } { rest := input, macros := ms } [] (Back.refl _)
    unfold wp at this
    split at this
    · rename_i bl s' heq
      obtain ⟨w, hext, hback, hla⟩ := this
      have hrem : Rem s' [] := by
        unfold Rem
        rw [hla]
        exact Or.inl ⟨rfl, rfl⟩
      have hlex := hback [] hrem
      simp only [List.nil_append, List.append_nil] at hlex
      have hlex' : Lexes false input w := hlex
      obtain ⟨t, h1, h2, h3⟩ := (hext [] (Derives.node p_grammar_empty .nil)).cast (List.nil_append w)
      exact ⟨t, h1, by rw [h2, start_symbol], by rw [h3]; exact hlex'⟩
    · rename_i l s' heq
      rw [heq] at h; cases h
    · rename_i s' heq
      rw [heq] at h; cases h

end Mdsort.Proofs.Cfg
