import Mdsort.Proofs.PartiesFs
import Mdsort.Proofs.PartiesMoverLocal

/-! One step of a mover or of the client on the shared file system: devices, handles, files, and
the party-local protocol state. -/

namespace Mdsort.Proofs.Parties
set_option linter.unusedSimpArgs false
open Mdsort Mdsort.Model
open Mdsort.Proofs.World
open Mdsort.Proofs.Own

/-! ## the calls of movers and of the client -/

/-- The calls a mover or the client issues. -/
def Allowed : Call → Prop
  | .opendir _ | .closedir _ | .close _ | .fstatat .. | .utimensat .. | .openExcl .. | .renameat .. | .unlinkat .. => True
  | _ => False

def IsClientCall : Call → Prop
  | .renameat .. | .unlinkat .. => True
  | _ => False

theorem allowed_of_moverI {tr : Trace} {c : Call} (h : MoverI tr c) : Allowed c := by
  cases c <;> first | exact True.intro | exact h.elim

theorem allowed_of_client {c : Call} (h : IsClientCall c) : Allowed c := by
  cases c <;> first | exact True.intro | exact h.elim

theorem allowed_mkDir {c : Call} (h : Allowed c) : mkDir c = false := by
  cases c <;> first | rfl | exact h.elim

theorem allowed_fileSafe {c : Call} (h : Allowed c) (w : World) (f : Nat) : fileSafe w f c := by
  cases c <;> first | exact True.intro | exact h.elim

theorem allowed_not_rmdir {c : Call} (h : Allowed c) : ∀ q, c ≠ .rmdir q := by
  intro q e; subst e; exact h.elim

/-! ## devices never change -/

@[simp] theorem devs_setObj (w : World) (h : Handle) (o : Obj) : (w.setObj h o).devs = w.devs := rfl
@[simp] theorem devs_setFile (w : World) (fid : Nat) (f : File) : (w.setFile fid f).devs = w.devs := rfl
@[simp] theorem devs_newHandle (w : World) (o : Obj) : (w.newHandle o).1.devs = w.devs := rfl
@[simp] theorem devs_setMtime (w : World) (f t : Nat) : (w.setMtime f t).devs = w.devs := rfl
@[simp] theorem devs_bind (w : World) (p n : Bytes) (fid : Nat) : (w.bind p n fid).devs = w.devs := by
  unfold World.bind; split <;> rfl
@[simp] theorem devs_unbind (w : World) (p n : Bytes) : (w.unbind p n).devs = w.devs := by
  unfold World.unbind; split <;> rfl
@[simp] theorem devs_applyWrite (w : World) (fd : Handle) (data : Bytes) (n : Nat) : (applyWrite w fd data n).devs = w.devs := by
  unfold applyWrite
  split
  · split <;> rfl
  · rfl
  · rfl

theorem core_devs (w : World) (c : Call) (r : Res) : (core w c r).devs = w.devs := by
  unfold core applyOk
  split <;>
    repeat' (first
      | rfl
      | (apply getD_bind_P (P := fun w' => w'.devs = w.devs) rfl; intro _ _)
      | (apply getD_map_P (P := fun w' => w'.devs = w.devs) rfl; intro _ _)
      | (simp; done)
      | split
      | (show ((if _ then _ else _ : Option World).getD w).devs = w.devs))

theorem device_of_devs_nil (w : World) (h : w.devs = []) (p : Bytes) : w.device p = 0 := by
  simp [World.device, h]

/-- On one device a predicted `renameat` succeeds or fails, and not with `EXDEV`. -/
theorem moverR_predict (w : World) (h : w.devs = []) (c : Call) : MoverR c (predict w c) := by
  intro d1 n1 d2 n2 hc
  subst hc
  rcases renameat_cases w d1 n1 d2 n2 with ⟨_, _, _, _, _, _, hpr, _⟩ | ⟨e, hpr, he, hwhy⟩
  · exact .inl ⟨0, hpr⟩
  · refine .inr ⟨e, hpr, ?_⟩
    rintro rfl
    simp only [predict] at hpr
    split at hpr
    · simp only [device_of_devs_nil w h, bne_self_eq_false, Bool.false_eq_true, if_false] at hpr
      split at hpr <;> simp at hpr
    · simp at hpr

/-! ## handles -/

@[simp] theorem handles_setFile (w : World) (fid : Nat) (f : File) : (w.setFile fid f).handles = w.handles := rfl
@[simp] theorem handles_setMtime (w : World) (f t : Nat) : (w.setMtime f t).handles = w.handles := rfl
@[simp] theorem handles_bind (w : World) (p n : Bytes) (fid : Nat) : (w.bind p n fid).handles = w.handles := by
  unfold World.bind; split <;> rfl
@[simp] theorem handles_unbind (w : World) (p n : Bytes) : (w.unbind p n).handles = w.handles := by
  unfold World.unbind; split <;> rfl

theorem handlesDirPath_append (hs : List Obj) (o : Obj) (d : Handle) (p : Bytes) (h : handlesDirPath hs d = some p) :
    handlesDirPath (hs ++ [o]) d = some p := by
  have hl : d < hs.length := by
    by_cases hl : d < hs.length
    · exact hl
    · simp [handlesDirPath, List.getD_eq_getElem?_getD, List.getElem?_eq_none (Nat.le_of_not_lt hl)] at h
  simp only [handlesDirPath, List.getD_eq_getElem?_getD, List.getElem?_append_left hl] at h ⊢
  exact h

theorem handlesDirPath_lt {hs : List Obj} {d : Handle} {p : Bytes} (h : handlesDirPath hs d = some p) : d < hs.length := by
  by_cases hl : d < hs.length
  · exact hl
  · simp [handlesDirPath, List.getD_eq_getElem?_getD, List.getElem?_eq_none (Nat.le_of_not_lt hl)] at h

theorem handlesDirPath_set_closed (hs : List Obj) (h d : Handle) (p : Bytes)
    (hp : handlesDirPath (hs.set h .closed) d = some p) : handlesDirPath hs d = some p ∧ d ≠ h := by
  by_cases hd : d = h
  · subst hd
    by_cases hl : d < hs.length
    · simp [handlesDirPath, List.getD_eq_getElem?_getD, List.getElem?_set, hl] at hp
    · simp [handlesDirPath, List.getD_eq_getElem?_getD, List.getElem?_set, hl] at hp
  · simp only [handlesDirPath, List.getD_eq_getElem?_getD, List.getElem?_set, Ne.symm hd, if_false] at hp ⊢
    exact ⟨hp, hd⟩

/-- The handle table after an allowed call with its predicted result. -/
theorem handles_step (w : World) (c : Call) (hc : Allowed c) :
    (core w c (predict w c)).handles =
      match c with
      | .opendir p => if (w.dir p).isSome then w.handles ++ [.dir p none 0] else w.handles
      | .openExcl _ _ => if isOk (predict w c) = true then w.handles ++ [.file w.nextFid 0 true] else w.handles
      | .close h | .closedir h => w.handles.set h .closed
      | _ => w.handles := by
  cases c <;> first | exact hc.elim | skip
  · -- opendir
    rename_i p
    cases hd : w.dir p with
    | none => simp [core, predict, applyOk, hd]
    | some es => simp [core, predict, applyOk, hd, World.newHandle]
  · -- closedir
    cases hr : predict w (.closedir _) <;> simp [core, applyOk, World.setObj]
  · -- openExcl
    rename_i d n
    rcases openExcl_cases w d n with ⟨p, hp, hl, hpr, hco⟩ | ⟨e, hpr⟩
    · rw [hpr, hco]; simp [isOk, created, World.newHandle]
    · rw [hpr, core_err_of_dirOp w _ e rfl]; simp [isOk]
  · -- close
    cases hr : predict w (.close _) <;> simp [core, applyOk, World.setObj]
  · -- renameat
    rename_i d1 n1 d2 n2
    rcases renameat_cases w d1 n1 d2 n2 with ⟨p1, p2, f, _, _, _, hpr, hco⟩ | ⟨e, hpr, _, _⟩
    · rw [hpr, hco]; simp
    · rw [hpr, core_err_of_dirOp w _ e rfl]
  · -- unlinkat
    rename_i d n
    rcases unlinkat_cases w d n with ⟨p, f, _, _, hpr, hco⟩ | ⟨_, hpr⟩
    · rw [hpr, hco]; simp
    · rw [hpr, core_err_of_dirOp w _ _ rfl]
  · -- fstatat
    rename_i d n
    have : core w (.fstatat d n) (predict w (.fstatat d n)) = w := by
      simp only [core, predict]
      cases hp : w.dirPath d with
      | none => simp [applyOk, hp]
      | some p =>
        cases hl : w.lookup p n with
        | none => simp [applyOk, hp, hl]
        | some g => simp [applyOk, hp, hl]
    rw [this]
  · -- utimensat
    rename_i d n at' mt
    have : (core w (.utimensat d n at' mt) (predict w (.utimensat d n at' mt))).handles = w.handles := by
      simp only [core, predict]
      cases hp : w.dirPath d with
      | none => simp [applyOk, hp]
      | some p =>
        cases hl : w.lookup p n with
        | none => simp [applyOk, hp, hl]
        | some g => cases mt <;> simp [applyOk, hp, hl]
    rw [this]

/-! ## the party-local state -/

/-- A party is a mover following the protocol (with at most one name in flight) or the client. -/
def LocalOK (ps : PState) : Prop :=
  (inFlightH ps.trace).length ≤ 1 ∧
  (wp MoverR MoverI ps.prog (fun _ tr => inFlightH tr = []) ps.trace ∨
   (Calls IsClientCall ps.prog ∧ inFlightH ps.trace = []))

theorem localOK_allowed {ps : PState} {c : Call} {k : Res → Prog Bool} (h : LocalOK ps) (hc : ps.prog = .call c k) :
    Allowed c := by
  rcases h.2 with h | ⟨h, _⟩
  · rw [hc] at h; exact allowed_of_moverI h.1
  · rw [hc] at h; exact allowed_of_client h.1

theorem eq_singleton_of_mem {α} {L : List α} {x : α} (hl : L.length ≤ 1) (hx : x ∈ L) : L = [x] := by
  match L, hl, hx with
  | [y], _, hx => simp at hx; rw [hx]
  | _ :: _ :: _, hl, _ => simp at hl

/-- What a party has in flight when it issues a given call. -/
theorem localOK_shape {ps : PState} {c : Call} {k : Res → Prog Bool} (h : LocalOK ps) (hc : ps.prog = .call c k) :
    match c with
    | .openExcl .. | .close _ | .closedir _ => inFlightH ps.trace = []
    | .renameat _ _ d2 n2 => inFlightH ps.trace = [(d2, n2)] ∨ inFlightH ps.trace = []
    | .unlinkat d n => inFlightH ps.trace = [(d, n)] ∨ inFlightH ps.trace = []
    | _ => True := by
  rcases h.2 with hw | ⟨hcl, h0⟩
  · rw [hc] at hw
    have hI := hw.1
    cases c <;> first | exact True.intro | exact hI | exact .inl (eq_singleton_of_mem h.1 hI)
  · cases c <;> first | exact True.intro | exact h0 | exact .inr h0

theorem inFlightUpd_cases (acc : List (Handle × Bytes)) (c : Call) (r : Res) :
    (inFlightUpd acc (c, r)).length ≤ acc.length ∨
    (∃ d n v, c = .openExcl d n ∧ r = .ok v ∧ inFlightUpd acc (c, r) = acc ++ [(d, n)]) := by
  cases c <;> first
    | exact .inl (Nat.le_refl _)
    | exact .inl (List.length_filter_le _ _)
    | skip
  · cases r <;> first
      | exact .inr ⟨_, _, _, rfl, rfl, rfl⟩
      | exact .inl (Nat.le_refl _)
  · cases r <;> first
      | exact .inl (List.length_filter_le _ _)
      | exact .inl (Nat.le_refl _)
  · refine .inl ?_
    rw [inFlightUpd_unlinkat]
    split
    · exact List.length_filter_le _ _
    · split
      · exact Nat.zero_le _
      · exact Nat.le_refl _

theorem client_upd_nil {c : Call} (h : IsClientCall c) (r : Res) : inFlightUpd [] (c, r) = [] := by
  cases c <;> first | exact h.elim | skip
  · cases r <;> rfl
  · simp [inFlightUpd_unlinkat]

theorem localOK_step {ps : PState} {c : Call} {k : Res → Prog Bool} (h : LocalOK ps) (hc : ps.prog = .call c k)
    (r : Res) (hR : MoverR c r) (hs : List Obj) :
    LocalOK { prog := k r, handles := hs, trace := ps.trace ++ [(c, r)] } := by
  have hshape := localOK_shape h hc
  refine ⟨?_, ?_⟩
  · show (inFlightH (ps.trace ++ [(c, r)])).length ≤ 1
    rw [inFlightH_snoc]
    rcases inFlightUpd_cases (inFlightH ps.trace) c r with hle | ⟨d, n, v, rfl, rfl, he⟩
    · exact Nat.le_trans hle h.1
    · rw [he]
      have : inFlightH ps.trace = [] := hshape
      simp [this]
  · rcases h.2 with hw | ⟨hcl, h0⟩
    · left
      rw [hc] at hw
      exact hw.2 r hR
    · right
      rw [hc] at hcl
      refine ⟨hcl.2 r, ?_⟩
      show inFlightH (ps.trace ++ [(c, r)]) = []
      rw [inFlightH_snoc, h0, client_upd_nil hcl.1]

def isCreate : Call → Bool
  | .openExcl .. => true
  | _ => false

def isUnlink : Call → Bool
  | .unlinkat .. => true
  | _ => false

theorem inFlight_of_nil {ps : PState} (h : inFlightH ps.trace = []) : ps.inFlight = [] := by
  simp [PState.inFlight, h]

theorem inFlight_of_singleton {ps : PState} {d : Handle} {n p : Bytes} (h : inFlightH ps.trace = [(d, n)])
    (hp : handlesDirPath ps.handles d = some p) : ps.inFlight = [(p, n)] := by
  simp [PState.inFlight, h, hp]

theorem filterMap_resolve_congr (L : List (Handle × Bytes)) (hs hs' : List Obj)
    (h : ∀ x ∈ L, ∀ p, handlesDirPath hs x.1 = some p → handlesDirPath hs' x.1 = some p)
    (hres : ∀ x ∈ L, (handlesDirPath hs x.1).isSome) :
    (L.filterMap fun x => (handlesDirPath hs' x.1).map fun q => (q, x.2)) =
      L.filterMap fun x => (handlesDirPath hs x.1).map fun q => (q, x.2) := by
  induction L with
  | nil => rfl
  | cons x L ih =>
    obtain ⟨p, hp⟩ := Option.isSome_iff_exists.1 (hres x (List.mem_cons_self ..))
    have ih' := ih (fun y hy => h y (List.mem_cons_of_mem _ hy)) (fun y hy => hres y (List.mem_cons_of_mem _ hy))
    simp only [List.filterMap_cons, hp, h x (List.mem_cons_self ..) p hp, Option.map_some, ih']

/-- The names in flight (resolved) after a step. -/
theorem inFlight_after (s : Shared) (ps : PState) (c : Call) (k : Res → Prog Bool) (hloc : LocalOK ps)
    (hc : ps.prog = .call c k) (hres : ∀ x ∈ inFlightH ps.trace, (handlesDirPath ps.handles x.1).isSome) :
    (stepLocal s ps c k).inFlight =
      if isCreate c = true ∧ isOk (predict (s.view ps) c) = true then (callDst (s.view ps) c).toList
      else if (c.isRename = true ∧ isOk (predict (s.view ps) c) = true) ∨ isUnlink c = true then []
      else ps.inFlight := by
  have hall := localOK_allowed hloc hc
  have hshape := localOK_shape hloc hc
  have hh : (stepLocal s ps c k).handles = (core (s.view ps) c (predict (s.view ps) c)).handles := rfl
  have hstep := handles_step (s.view ps) c hall
  have same : ∀ hs', (∀ x ∈ inFlightH ps.trace, ∀ p, handlesDirPath ps.handles x.1 = some p → handlesDirPath hs' x.1 = some p) →
      inFlightUpd (inFlightH ps.trace) (c, predict (s.view ps) c) = inFlightH ps.trace →
      (stepLocal s ps c k).handles = hs' → (stepLocal s ps c k).inFlight = ps.inFlight := by
    intro hs' h1 h2 h3
    unfold PState.inFlight
    rw [h3]
    show List.filterMap _ (inFlightH (ps.trace ++ [(c, predict (s.view ps) c)])) = _
    rw [inFlightH_snoc, h2]
    exact filterMap_resolve_congr _ _ _ h1 hres
  have toNil : inFlightUpd (inFlightH ps.trace) (c, predict (s.view ps) c) = [] → (stepLocal s ps c k).inFlight = [] := by
    intro h
    apply inFlight_of_nil
    show inFlightH (ps.trace ++ [(c, predict (s.view ps) c)]) = []
    rw [inFlightH_snoc, h]
  cases c <;> first | exact hall.elim | skip
  · -- opendir
    rename_i p
    simp only [isCreate, Call.isRename, isUnlink, Bool.false_eq_true, false_and, or_self, if_false]
    refine same _ ?_ rfl (hh.trans hstep)
    intro x _ q hq
    dsimp only
    split
    · exact handlesDirPath_append _ _ _ _ hq
    · exact hq
  · -- closedir
    simp only [isCreate, Call.isRename, isUnlink, Bool.false_eq_true, false_and, or_self, if_false]
    rw [inFlight_of_nil hshape]
    apply toNil
    rw [hshape]; rfl
  · -- openExcl
    rename_i d n
    simp only [isCreate, Call.isRename, isUnlink, Bool.false_eq_true, false_and, or_self, if_false, true_and]
    have h0 : inFlightH ps.trace = [] := hshape
    rcases openExcl_cases (s.view ps) d n with ⟨p, hp, hl, hpr, hco⟩ | ⟨e, hpr⟩
    · have hok : isOk (predict (s.view ps) (.openExcl d n)) = true := by rw [hpr]; rfl
      simp only [hok, if_true, callDst, hp, Option.map_some, Option.toList_some]
      apply inFlight_of_singleton (d := d)
      · show inFlightH (ps.trace ++ [(Call.openExcl d n, predict (s.view ps) (.openExcl d n))]) = _
        rw [inFlightH_snoc, h0, hpr]; rfl
      · rw [hh, hstep]
        simp only [hok, if_true]
        exact handlesDirPath_append _ _ _ _ hp
    · have hok : isOk (predict (s.view ps) (.openExcl d n)) = false := by rw [hpr]; rfl
      simp only [hok, Bool.false_eq_true, if_false]
      rw [inFlight_of_nil h0]
      apply toNil
      rw [h0, hpr]; rfl
  · -- close
    simp only [isCreate, Call.isRename, isUnlink, Bool.false_eq_true, false_and, or_self, if_false]
    rw [inFlight_of_nil hshape]
    apply toNil
    rw [hshape]; rfl
  · -- renameat
    rename_i d1 n1 d2 n2
    simp only [isCreate, Call.isRename, isUnlink, Bool.false_eq_true, false_and, or_false, if_false, true_and]
    rcases renameat_cases (s.view ps) d1 n1 d2 n2 with ⟨_, _, _, _, _, _, hpr, _⟩ | ⟨e, hpr, _, _⟩
    · have hok : isOk (predict (s.view ps) (.renameat d1 n1 d2 n2)) = true := by rw [hpr]; rfl
      simp only [hok, if_true]
      apply toNil
      rw [hpr]
      rcases hshape with h | h <;> rw [h] <;> simp [inFlightUpd]
    · have hok : isOk (predict (s.view ps) (.renameat d1 n1 d2 n2)) = false := by rw [hpr]; rfl
      simp only [hok, Bool.false_eq_true, if_false]
      refine same _ (fun _ _ _ hq => hq) (by rw [hpr]; rfl) (hh.trans hstep)
  · -- unlinkat
    rename_i d n
    simp only [isCreate, Call.isRename, isUnlink, Bool.false_eq_true, false_and, or_true, if_true, if_false]
    apply toNil
    rcases hshape with h | h <;> rw [h] <;> simp [inFlightUpd]
  · -- fstatat
    simp only [isCreate, Call.isRename, isUnlink, Bool.false_eq_true, false_and, or_self, if_false]
    exact same _ (fun _ _ _ hq => hq) rfl (hh.trans hstep)
  · -- utimensat
    simp only [isCreate, Call.isRename, isUnlink, Bool.false_eq_true, false_and, or_self, if_false]
    exact same _ (fun _ _ _ hq => hq) rfl (hh.trans hstep)

end Mdsort.Proofs.Parties
