import Mdsort.Proofs.WorldDryLog

/-!
# A real run that ends without the error flag: so does the dry run (C06)

`dry_predicts_real` assumes that BOTH runs end with exit status 0.  Here the dry run's half is derived:
under the fault-free plan the dry run performs a subset of the fallible steps of the real run -

* common to both: the configuration is valid; every configured path, path + `/new` and path + `/cur` fits;
  `new` and `cur` can be opened (the real run opened them, and no call of a maildir-mode run creates or removes
  a directory: `dryT_real_dirs`); `readdir`; for every message met: the registry knows it, `message_parse`
  (open, read, the path and the name fit, the flag suffix is valid), the evaluation of the rules and the
  interpolation of the action strings (the verdict, a function of directory, name and content that does not
  depend on `-d`: `dryT_verdict_isErr`);
* only in a real run: every call of the action list (`matchesExec`), and - without `exit0_Good` - whatever
  happens to a message that is met a second time (F21);
* only in a dry run: nothing.

The proof follows the fault-free dry run (`wpS` with the budget spent) with the invariant of
`WorldExitInv`, the directory table unchanged and the error flag clear.
-/

namespace Mdsort.Proofs
open Mdsort Mdsort.Model
open Mdsort.Proofs.World (wpS wpS_mono wpS_bind_mono wpS_and wpS_of_wp wpS_call_spent bind_eq pure_eq call_bind ret_bind call_bind')

/-- Sequencing with the budget spent: it stays spent. -/
theorem dryT_wpS_bind {α β} {p : Prog α} {f : α → Prog β} {Q : Bool → β → World → Prop} {R : Bool → α → World → Prop} {w : World}
    (h : wpS p R false w) (hf : ∀ a w', R false a w' → wpS (f a) Q false w') : wpS (p.bind f) Q false w := by
  induction p generalizing w with
  | ret a => exact hf a w h
  | call c k ih => exact ⟨ih _ h.1, fun hb => by cases hb⟩

/-! ## `message_parse` without faults -/

theorem dryT_readAll (fd : Handle) (fid : Nat) (f : File) :
    ∀ (fuel : Nat) (w : World) (off : Nat) (wr : Bool), w.obj fd = .file fid off wr → w.file fid = some f →
      off ≤ f.data.length → (off = f.data.length → 1 ≤ fuel) → (off < f.data.length → 2 ≤ fuel) →
      wpS (readAll fd fuel) (fun _ failed _ => failed = false) false w := by
  intro fuel
  induction fuel with
  | zero =>
    intro w off wr _ _ hle h1 h2
    rcases Nat.lt_or_eq_of_le hle with h | h
    · have := h2 h; omega
    · have := h1 h; omega
  | succ fuel ih =>
    intro w off wr ho hf hle h1 h2
    unfold readAll
    simp only [bind_eq, pure_eq, call_bind]
    refine wpS_call_spent ?_
    have hpred : predict w (.read fd) = .ok (f.data.length - off) := by
      simp [predict, ho, hf]
    rw [hpred]
    dsimp only
    by_cases hz : f.data.length - off = 0
    · simp only [hz, beq_self_eq_true, if_true]
      rfl
    · have hz' : (f.data.length - off == 0) = false := by simpa using hz
      simp only [hz', Bool.false_eq_true, if_false]
      have hlt : fd < w.handles.length := World.lt_of_obj_ne_closed w fd (by rw [ho]; intro h; cases h)
      have hc : World.core w (.read fd) (.ok (f.data.length - off)) = w.setObj fd (.file fid f.data.length wr) := by
        have h3 : off + (f.data.length - off) = f.data.length := by omega
        have h4 : 0 < f.data.length - off := by omega
        simp [World.core, applyOk, ho, hf, h3, h4]
      refine ih _ f.data.length wr ?_ ?_ (Nat.le_refl _) (fun _ => ?_) (fun h => absurd h (Nat.lt_irrefl _))
      · rw [World.stepWorld_obj, hc, World.obj_setObj]; simp [hlt]
      · rw [World.stepWorld_file, hc]; exact hf
      · have : off < f.data.length := by omega
        have := h2 this
        omega

/-- Without faults `message_parse` of a bound, readable file succeeds whenever path, name and flag suffix are
acceptable. -/
theorem dryT_parse (d : Handle) (dir name content : Bytes) {w : World} {fid : Nat} {f : File}
    (hp : w.dirPath d = some dir) (hl : w.lookup dir name = some fid) (hf : w.file fid = some f)
    (hok : ∃ p n mf, pathjoin PATH_MAX dir name = some p ∧ strlcpyFits NAME_MAX1 name = some n ∧ flagsParse n = some mf) :
    wpS (messageParseP d dir name content) (fun _ pm _ => pm.isSome = true) false w := by
  obtain ⟨p, n, mf, h1, h2, h3⟩ := hok
  unfold messageParseP
  simp only [bind_eq, pure_eq, call_bind]
  refine wpS_call_spent ?_
  have hpred : predict w (.openRd d name) = .ok w.handles.length := by
    simp [predict, hp, hl]
  rw [hpred]
  dsimp only
  have hc := World.core_openRd_ok hp hl w.handles.length
  have ho1 : (stepWorld w (.openRd d name) (.ok w.handles.length)).obj w.handles.length = .file fid 0 false := by
    rw [World.stepWorld_obj, hc, World.obj_newHandle]; simp
  have hf1 : (stepWorld w (.openRd d name) (.ok w.handles.length)).file fid = some f := by
    rw [World.stepWorld_file, hc]; exact hf
  refine wpS_bind_mono (dryT_readAll w.handles.length fid f (content.length + 2) _ 0 false ho1 hf1 (Nat.zero_le _)
    (fun _ => by omega) (fun _ => by omega)) ?_
  intro _ failed w2 hfailed
  subst hfailed
  simp only [Bool.false_eq_true, if_false, h1, h2, h3]
  rfl

/-- A verdict that is not an error verdict: path, name and flag suffix were acceptable. -/
theorem dryT_parsable (env : PEnv) (orc : EvalOracles) (expr : Expr) (dir name content : Bytes)
    (hv : (verdict env orc expr dir name content).isErr = false) :
    ∃ p n mf, pathjoin PATH_MAX dir name = some p ∧ strlcpyFits NAME_MAX1 name = some n ∧ flagsParse n = some mf := by
  unfold verdict fileMs at hv
  cases h1 : pathjoin PATH_MAX dir name with
  | none => simp [h1, Verdict.isErr] at hv
  | some p =>
    cases h2 : strlcpyFits NAME_MAX1 name with
    | none => simp [h1, h2, Verdict.isErr] at hv
    | some n =>
      cases h3 : flagsParse n with
      | none => simp [h1, h2, h3, Verdict.isErr] at hv
      | some mf => exact ⟨p, n, mf, rfl, rfl, h3⟩

/-! ## one message of a dry run without faults -/

/-- Dry run, no fault: a registered, bound, readable message whose verdict is not an error verdict leaves
the error flag as it was. -/
theorem dryT_processMessage (env : PEnv) (orc : EvalOracles) (expr : Expr) (hfree : asksFree expr = true) (hdry : env.dryrun = true)
    (md : Maildir) (n : Bytes)
    (st : MainSt) {w : World} {d : Handle} {c : Bytes} {fid : Nat} {f : File}
    (hd : md.dirH = some d) (hp : w.dirPath d = some md.path) (hfc : st.files.get md.path n = some c)
    (hl : w.lookup md.path n = some fid) (hf : w.file fid = some f)
    (hv : (verdict env orc expr md.path n c).isErr = false) :
    wpS (processMessage env orc expr md n st) (fun _ r _ => r.1.error = st.error) false w := by
  rw [processMessage_eq env orc expr md n st d c hd hfc]
  refine wpS_bind_mono (wpS_and (dryT_parse d md.path n c hp hl hf (dryT_parsable env orc expr md.path n c hv))
    (exit0_wpS_all (all_messageParseP_as d md.path n c) false w)) ?_
  rintro b1 pm w1 ⟨hsome, hpa⟩
  cases pm with
  | none => cases hsome
  | some ms =>
    have hmv := msVerdict_of_parsed env orc expr md.path n c ms hpa
    rw [afterParse_asksFree env orc expr hfree, hmv]
    have hfree : ∀ (ms' : MsgSt) (r : MainSt × Maildir), r.1.error = st.error →
        wpS ((freeP ms').bind fun _ => Prog.ret r) (fun _ r _ => r.1.error = st.error) b1 w1 := by
      intro ms' r hr
      exact exit0_wpS_all (P := fun x : MainSt × Maildir => x.1.error = st.error)
        (World.All.bind_of_forall (P := fun x : MainSt × Maildir => x.1.error = st.error) (freeP ms')
          (f := fun _ => Prog.ret r) (fun _ => hr)) b1 w1
    cases hvd : verdict env orc expr md.path n c with
    | unparsable => rw [hvd] at hv; cases hv
    | error => rw [hvd] at hv; cases hv
    | interpFail => rw [hvd] at hv; cases hv
    | «nomatch» => simp only [afterVerdict]; exact hfree ms (st, md) rfl
    | act ml msgs fl =>
      simp only [afterVerdict, hdry, if_true]
      exact hfree _ ({ st with log := st.log ++ inspectLines env ml ms.path }, md) rfl

/-! ## the walk of a dry run without faults -/

/-- What the dry run is assumed to find: the configured directories exist, and no registered message of a
configured directory has an error verdict. -/
structure dryT_Hyp (C : exit0_Ctx) : Prop where
  dry : C.env.dryrun = true
  dirs : ∀ D ∈ C.dirs.map (·.1), (C.w0.dir D).isSome = true
  verd : ∀ D e n c, (D, e) ∈ C.dirs → C.files0.get D n = some c → (verdict C.env C.orc e D n c).isErr = false
  /-- the rules ask the operating system nothing (`verdict` is the verdict of the pure evaluator) -/
  free : ∀ D e, (D, e) ∈ C.dirs → asksFree e = true

theorem dryT_step_dirs (w : World) (c : Call) (r : Res) (hd : World.Call.dirOp c = false) {ds : List (Bytes × List (Bytes × Nat))}
    (h : w.dirs = ds) : (stepWorld w c r).dirs = ds := by
  rw [World.stepWorld_dirs, World.core_dirs w c r hd]; exact h

theorem dryT_predict_readdir {w : World} {d : Handle} {p : Bytes} {snap : Option (List Bytes)} {pos : Nat}
    (ho : w.obj d = .dir p snap pos) (e : String) : predict w (.readdir d) ≠ .err e := by
  simp only [predict, ho]
  split <;> intro h <;> cases h

/-- `exit0_walk` for the fault-free dry run: the error flag stays clear. -/
theorem dryT_walk (C : exit0_Ctx) (hG : exit0_Good C) (hH : dryT_Hyp C) (e : Expr) (fuel : Nat) :
    ∀ (md : Maildir) (st : MainSt) (w : World) (pre later : List (Bytes × Expr)) (rem : List Bytes) (d : Handle),
      md.dirH = some d → md.stdin = false → WholeMdOk w md →
      (∃ snap pos, w.obj d = .dir md.path snap pos) → exit0_rem w d = rem →
      C.dirs = pre ++ (md.path, e) :: later →
      (md.subdir = .new → ∃ later', later = (md.root ++ [47] ++ subdirName .cur, e) :: later') →
      (md.subdir = .new → (pathjoin PATH_MAX md.root (subdirName .cur)).isSome = true) →
      exit0_RemOk C md.path rem → exit0_Inv C later (some (md.path, e, rem)) st w →
      w.dirs = C.w0.dirs → st.error = false →
      rem.length + 1 + (if md.subdir = .new then
          (st.files.filter (fun x => x.1 == md.root ++ [47] ++ subdirName .cur)).length + 3 else 0) ≤ fuel →
      wpS (walk C.env C.orc e fuel md st)
        (fun _ r w' => r.1.error = false ∧ w'.dirs = C.w0.dirs ∧
          exit0_Inv C (if md.subdir = .new then later.tail else later) none r.1 w') false w := by
  induction fuel with
  | zero =>
    intro md st w pre later rem d _ _ _ _ _ _ _ _ _ _ _ _ hf
    exact absurd (Nat.le_trans (Nat.le_add_right _ _) hf) (by omega)
  | succ fuel ih =>
    intro md st w pre later rem d hd hsd hmd hobj hrem hs hnew hcurfit hrok hinv hdirs herr hfuel
    rw [Own.walk_succ]
    simp only [hd]
    refine wpS_call_spent ?_
    obtain ⟨snap, pos, ho⟩ := hobj
    have hp := hmd.1 d hd
    have hfr : predict w (.readdir d) = World.faultResult none w (.readdir d) := rfl
    have hinv1 := hinv.step (.readdir d) (predict w (.readdir d)) rfl (fun _ => trivial)
    have hdirs1 := dryT_step_dirs w (.readdir d) (predict w (.readdir d)) rfl hdirs
    have hmd1 : WholeMdOk (stepWorld w (.readdir d) (predict w (.readdir d))) md := by
      refine ⟨?_, hmd.2⟩
      intro d' hd'
      rw [hd] at hd'
      cases hd'
      rw [World.stepWorld_dirPath]
      exact whole_readdir_dirPath hp _
    have hDn : md.path ∉ later.map (·.1) := exit0_split_notin hG hs
    rcases exit0_readdir_cases none ho with ⟨er, he⟩ | ⟨he, hrem0⟩ | ⟨n, t, names, he, hremc, hobj1, hdrop⟩
    · exact absurd (hfr.trans he) (dryT_predict_readdir ho er)
    · -- end of the stream
      rw [← hfr] at he
      rw [he] at hinv1 hmd1 hdirs1 ⊢
      rw [hrem] at hrem0
      subst hrem0
      generalize stepWorld w (.readdir d) .eof = w1 at hinv1 hmd1 hdirs1 ⊢
      have hinvE := hinv1.eof
      unfold Own.walkK
      simp only [hsd, Bool.false_eq_true, if_false]
      cases hsub : md.subdir with
      | cur =>
        simp only [reduceCtorEq, if_false]
        exact ⟨herr, hdirs1, hinvE⟩
      | new =>
        obtain ⟨later', hlater⟩ := hnew hsub
        simp only [if_true]
        obtain ⟨p, hpj⟩ := Option.isSome_iff_exists.1 (hcurfit hsub)
        rw [hpj]
        have hpeq : p = md.root ++ [47] ++ subdirName .cur := World.pathjoin_eq hpj
        dsimp only
        unfold maildirOpendir
        simp only [hd, bind_eq, pure_eq, call_bind, call_bind', ret_bind]
        refine wpS_call_spent ?_
        have hinv2 := hinvE.step (.closedir d) (predict w1 (.closedir d)) rfl (fun _ => trivial)
        have hdirs2 := dryT_step_dirs w1 (.closedir d) (predict w1 (.closedir d)) rfl hdirs1
        generalize stepWorld w1 (.closedir d) (predict w1 (.closedir d)) = w2 at hinv2 hdirs2 ⊢
        refine wpS_call_spent ?_
        have hmemP : (p, e) ∈ C.dirs := by rw [hs, hlater, ← hpeq]; simp
        have hdp : (w2.dir p).isSome = true := by
          rw [World.dir_of_dirs hdirs2]
          exact hH.dirs p (List.mem_map.2 ⟨(p, e), hmemP, rfl⟩)
        have hpred : predict w2 (.opendir p) = .ok w2.handles.length := by
          simp [predict, hdp]
        rw [hpred]
        simp only [ret_bind, Bool.false_eq_true, if_false]
        have hinv3 := hinv2.step (.opendir p) (.ok w2.handles.length) rfl (fun _ => trivial)
        have hdirs3 := dryT_step_dirs w2 (.opendir p) (.ok w2.handles.length) rfl hdirs2
        have hc3 := World.core_opendir_ok hdp w2.handles.length
        obtain ⟨es, hes⟩ := Option.isSome_iff_exists.1 hdp
        have hdir3 : (stepWorld w2 (.opendir p) (.ok w2.handles.length)).dir p = some es := by
          rw [World.stepWorld_dir, hc3]; exact hes
        have hobj3 : (stepWorld w2 (.opendir p) (.ok w2.handles.length)).obj w2.handles.length = .dir p none 0 := by
          rw [World.stepWorld_obj, hc3, World.obj_newHandle]; simp
        generalize stepWorld w2 (.opendir p) (.ok w2.handles.length) = w3 at hinv3 hdir3 hobj3 hdirs3 ⊢
        generalize w2.handles.length = h3 at hobj3 ⊢
        rw [hlater, ← hpeq] at hinv3
        obtain ⟨hinvO, hrokO, hcntO⟩ := exit0_Inv.open hG hinv3 hdir3 hmemP
        have hrem3 : exit0_rem w3 h3 = sortedNames es := by simp [exit0_rem, hobj3, hdir3]
        have hfu : (sortedNames es).length + 1 + 0 ≤ fuel := by
          rw [World.length_sortedNames]
          simp only [hsub, if_true, List.length_nil, ← hpeq] at hfuel
          omega
        refine wpS_mono (ih _ st w3 (pre ++ [(md.path, e)]) later'
          (sortedNames es) h3 rfl rfl ⟨?_, hpj⟩ ⟨none, 0, hobj3⟩ hrem3 ?_ (fun h => by cases h) (fun h => by cases h) hrokO hinvO
          hdirs3 herr (by simpa using hfu)) ?_
        · intro d' hd'
          cases hd'
          simp [World.dirPath, hobj3]
        · rw [hs, hlater, ← hpeq]; simp
        · intro _ r w' hpost
          refine ⟨hpost.1, hpost.2.1, ?_⟩
          simpa [hlater] using hpost.2.2
    · -- a name
      rw [← hfr] at he
      rw [he] at hinv1 hmd1 hdirs1 ⊢
      rw [hrem] at hremc
      subst hremc
      have hrem1 : exit0_rem (stepWorld w (.readdir d) (.name n)) d = t := by
        rw [exit0_rem_of_obj hobj1]; exact hdrop
      generalize stepWorld w (.readdir d) (.name n) = w1 at hinv1 hmd1 hobj1 hrem1 hdirs1 ⊢
      have hlen : (n :: t).length = t.length + 1 := rfl
      unfold Own.walkK
      by_cases hdot : isDot n = true
      · have hdot' : (n == [46] || n == [46, 46]) = true := hdot
        simp only [hdot', if_true]
        refine ih md st w1 pre later t d hd hsd hmd1 ⟨_, _, hobj1⟩ hrem1 hs hnew hcurfit hrok.tail (hinv1.dot hdot) hdirs1 herr ?_
        rw [hlen] at hfuel
        omega
      · have hdotF : isDot n = false := by simpa using hdot
        have hdot' : (n == [46] || n == [46, 46]) = false := hdotF
        simp only [hdot', Bool.false_eq_true, if_false]
        obtain ⟨c, hc⟩ := Option.isSome_iff_exists.1 (hrok.known n (List.mem_cons_self ..) hdotF)
        have hmemD : (md.path, e) ∈ C.dirs := exit0_split_mem hs
        have hget : st.files.get md.path n = some c :=
          (hinv1.track md.path e n c hmemD hc hdotF).1 (.inr ⟨_, _, _, rfl, rfl, List.mem_cons_self .., hdotF⟩)
        obtain ⟨fid, hl, hlt, hf⟩ := hinv1.reg md.path n c hget
        have hA := exit0_wpS_unique (exit0_step_quiet C.env C.orc e md n st false hd (hmd1.1 d hd) hget hl (hH.free _ _ hmemD) (.inl hH.dry))
          hinv1.uniq
        have hB := wpS_of_wp false (exit0_quiet_processMessage C.env C.orc e md n st hd (hmd1.1 d hd) hget hl (hH.free _ _ hmemD) (.inl hH.dry))
        have hE := dryT_processMessage C.env C.orc e (hH.free _ _ hmemD) hH.dry md n st hd (hmd1.1 d hd) hget hl hf (hH.verd md.path e n c hmemD hc)
        refine dryT_wpS_bind (wpS_and hA (wpS_and hB hE)) ?_
        rintro ⟨st', md'⟩ w2 ⟨⟨⟨hmd', k, hregp, hdet⟩, hu2⟩, ⟨hpf, _⟩, herr2⟩
        simp only at hmd' herr2
        subst hmd'
        dsimp only
        have herr2' : st'.error = false := by rw [herr2]; exact herr
        obtain ⟨key, c', lines, hout, hupd, hlog, hfresh, hoth⟩ := hdet herr2'
        have hinv2 := exit0_Inv.msg hG hs hinv1 hrok hdotF hc (hregp hinv1.reg) hu2 hout hupd hlog hfresh hoth
        have hdlt : d < w1.handles.length := World.lt_of_dirPath (hmd1.1 d hd)
        have hobj2 : w2.obj d = .dir md'.path (some names) (pos + 1) := by rw [k.objs d hdlt]; exact hobj1
        have hrem2 : exit0_rem w2 d = t := by rw [exit0_rem_of_obj hobj2]; exact hdrop
        have hmd2 : WholeMdOk w2 md' := by
          refine ⟨?_, hmd1.2⟩
          intro d' hd'
          have hp1 := hmd1.1 d' hd'
          exact k.dirPath hp1 (World.lt_of_dirPath hp1)
        have hdirs2 : w2.dirs = C.w0.dirs := hpf.dirs.trans hdirs1
        refine ih md' st' w2 pre later t d hd hsd hmd2 ⟨_, _, hobj2⟩ hrem2 hs hnew hcurfit hrok.tail hinv2 hdirs2 herr2' (by
          rw [hlen] at hfuel
          by_cases hsub : md'.subdir = .new
          · obtain ⟨later', hlater⟩ := hnew hsub
            have hcm : (md'.root ++ [47] ++ subdirName .cur) ∈ later.map (·.1) := by rw [hlater]; simp
            have hkeyL : key.1 ∉ later.map (·.1) := by
              rw [hout.dest]; exact hG.norev pre md'.path e later hs n c hc
            have hcnt := hupd.2 (md'.root ++ [47] ++ subdirName .cur)
              (fun hh => hDn (by have hh' : md'.root ++ [47] ++ subdirName .cur = md'.path := hh; rw [← hh']; exact hcm))
              (fun hh => hkeyL (by rw [← hh]; exact hcm))
            simp only [hsub, if_true] at hfuel ⊢
            rw [hcnt]
            omega
          · simp only [hsub, if_false] at hfuel ⊢
            omega)

/-! ## the loops over paths and blocks, and `main` -/

/-- A configured path, path + `/new` and path + `/cur` fit. -/
def dryT_Fits (p : Bytes) : Prop :=
  (strlcpyFits PATH_MAX p).isSome = true ∧ (pathjoin PATH_MAX p (subdirName .new)).isSome = true ∧
    (pathjoin PATH_MAX p (subdirName .cur)).isSome = true

theorem dryT_paths (C : exit0_Ctx) (hG : exit0_Good C) (hH : dryT_Hyp C) (hm : C.env.stdinMode = false) (input : Bytes)
    (b : ConfBlock) (ps : List Bytes) :
    (∀ p ∈ ps, isStdinPath p = false → dryT_Fits p) →
    ∀ (st : MainSt) (w : World) (pre rest : List (Bytes × Expr)),
      C.dirs = pre ++ (exit0_pathDirs b.expr ps ++ rest) → exit0_Inv C (exit0_pathDirs b.expr ps ++ rest) none st w →
      w.dirs = C.w0.dirs → st.error = false →
      wpS (mainP.blocks.paths C.env C.orc input b ps st)
        (fun _ st' w' => st'.error = false ∧ w'.dirs = C.w0.dirs ∧ exit0_Inv C rest none st' w') false w := by
  induction ps with
  | nil =>
    intro _ st w pre rest _ hinv hdirs herr
    rw [Own.paths_nil]
    exact ⟨herr, hdirs, by simpa [exit0_pathDirs] using hinv⟩
  | cons p more ih =>
    intro hfit st w pre rest hs hinv hdirs herr
    have hfitM : ∀ q ∈ more, isStdinPath q = false → dryT_Fits q := fun q hq => hfit q (List.mem_cons_of_mem _ hq)
    rw [Own.paths_cons]
    by_cases hsk : skipPath C.env p = true
    · simp only [hsk, if_true]
      have hsp : isStdinPath p = true := by simpa [skipPath, hm] using hsk
      rw [exit0_pathDirs_skip _ _ _ hsp] at hs hinv
      exact ih hfitM st w pre rest hs hinv hdirs herr
    · simp only [hsk, Bool.false_eq_true, if_false]
      have hsp : isStdinPath p = false := by simpa [skipPath, hm] using hsk
      simp only [hsp, Bool.false_eq_true, if_false]
      rw [exit0_pathDirs_cons _ _ _ hsp] at hs hinv
      obtain ⟨hf1, hf2, hf3⟩ := hfit p (List.mem_cons_self ..) hsp
      obtain ⟨root, hroot⟩ := Option.isSome_iff_exists.1 hf1
      obtain ⟨np, hnp⟩ := Option.isSome_iff_exists.1 hf2
      rw [hroot, hnp]
      dsimp only
      have hroot' : root = p := World.strlcpyFits_eq hroot
      have hnp' : np = p ++ [47] ++ subdirName .new := World.pathjoin_eq hnp
      subst hroot'
      unfold maildirOpendir
      simp only [maildirOf, bind_eq, pure_eq, call_bind, call_bind', ret_bind]
      refine wpS_call_spent ?_
      rw [← hnp'] at hs hinv
      have hmemP : (np, b.expr) ∈ C.dirs := by rw [hs]; simp
      have hdp : (w.dir np).isSome = true := by
        rw [World.dir_of_dirs hdirs]
        exact hH.dirs np (List.mem_map.2 ⟨(np, b.expr), hmemP, rfl⟩)
      have hpred : predict w (.opendir np) = .ok w.handles.length := by
        simp [predict, hdp]
      rw [hpred]
      simp only [ret_bind, Bool.false_eq_true, if_false]
      have hinv3 := hinv.step (.opendir np) (.ok w.handles.length) rfl (fun _ => trivial)
      have hdirs3 := dryT_step_dirs w (.opendir np) (.ok w.handles.length) rfl hdirs
      have hc3 := World.core_opendir_ok hdp w.handles.length
      obtain ⟨es, hes⟩ := Option.isSome_iff_exists.1 hdp
      have hdir3 : (stepWorld w (.opendir np) (.ok w.handles.length)).dir np = some es := by
        rw [World.stepWorld_dir, hc3]; exact hes
      have hobj3 : (stepWorld w (.opendir np) (.ok w.handles.length)).obj w.handles.length = .dir np none 0 := by
        rw [World.stepWorld_obj, hc3, World.obj_newHandle]; simp
      generalize stepWorld w (.opendir np) (.ok w.handles.length) = w3 at hinv3 hdir3 hobj3 hdirs3 ⊢
      generalize w.handles.length = h3 at hobj3 ⊢
      obtain ⟨hinvO, hrokO, hcntO⟩ := exit0_Inv.open hG hinv3 hdir3 hmemP
      have hrem3 : exit0_rem w3 h3 = sortedNames es := by simp [exit0_rem, hobj3, hdir3]
      have hcntCur : (st.files.filter (fun x => x.1 == root ++ [47] ++ subdirName .cur)).length ≤
          (st.files.filter fun e => e.1 == np || e.1 == (root ++ [47] ++ subdirName .cur)).length :=
        exit0_filter_length_mono _ _ _ (fun a ha => by rw [Bool.or_eq_true]; exact .inr ha)
      have hcntNew : (st.files.filter (fun x => x.1 == np)).length ≤
          (st.files.filter fun e => e.1 == np || e.1 == (root ++ [47] ++ subdirName .cur)).length :=
        exit0_filter_length_mono _ _ _ (fun a ha => by rw [Bool.or_eq_true]; exact .inl ha)
      have hfu : (sortedNames es).length + 1 +
          (if (Subdir.new = Subdir.new) then
            (st.files.filter (fun x => x.1 == root ++ [47] ++ subdirName .cur)).length + 3 else 0) ≤
          walkFuel C.env st root np := by
        rw [World.length_sortedNames]
        simp only [if_true, walkFuel]
        omega
      refine dryT_wpS_bind (dryT_walk C hG hH b.expr (walkFuel C.env st root np) _ st w3 pre _ (sortedNames es) h3 rfl rfl
        ⟨?_, hnp⟩ ⟨none, 0, hobj3⟩ hrem3 hs (fun _ => ⟨_, rfl⟩) (fun _ => hf3) hrokO hinvO hdirs3 herr hfu) ?_
      · intro d' hd'
        cases hd'
        simp [World.dirPath, hobj3]
      · rintro ⟨st4, md4⟩ w4 ⟨herr4, hdirs4, hinv4⟩
        dsimp only at herr4 hdirs4 hinv4 ⊢
        simp only [if_true, List.tail_cons] at hinv4
        unfold maildirClose
        split
        · rename_i d4 _
          simp only [bind_eq, pure_eq, call_bind, call_bind', ret_bind]
          refine wpS_call_spent ?_
          have hinv5 := hinv4.step (.closedir d4) (predict w4 (.closedir d4)) rfl (fun _ => trivial)
          have hdirs5 := dryT_step_dirs w4 (.closedir d4) (predict w4 (.closedir d4)) rfl hdirs4
          exact ih hfitM st4 _ (pre ++ [(np, b.expr), (root ++ [47] ++ subdirName .cur, b.expr)]) rest
            (by rw [hs]; simp) hinv5 hdirs5 herr4
        · simp only [pure_eq, ret_bind]
          exact ih hfitM st4 w4 (pre ++ [(np, b.expr), (root ++ [47] ++ subdirName .cur, b.expr)]) rest
            (by rw [hs]; simp) hinv4 hdirs4 herr4

theorem dryT_blocks (C : exit0_Ctx) (hG : exit0_Good C) (hH : dryT_Hyp C) (hm : C.env.stdinMode = false) (input : Bytes)
    (bs : List ConfBlock) :
    (∀ b ∈ bs, ∀ p ∈ b.paths, isStdinPath p = false → dryT_Fits p) →
    ∀ (st : MainSt) (w : World) (pre : List (Bytes × Expr)),
      C.dirs = pre ++ exit0_dirsOf bs → exit0_Inv C (exit0_dirsOf bs) none st w → w.dirs = C.w0.dirs → st.error = false →
      wpS (mainP.blocks C.env C.orc input bs st)
        (fun _ st' w' => st'.error = false ∧ w'.dirs = C.w0.dirs ∧ exit0_Inv C [] none st' w') false w := by
  induction bs with
  | nil =>
    intro _ st w pre _ hinv hdirs herr
    rw [Own.blocks_nil]
    exact ⟨herr, hdirs, by simpa [exit0_dirsOf] using hinv⟩
  | cons b rest ih =>
    intro hfit st w pre hs hinv hdirs herr
    rw [Own.blocks_cons]
    have hd : exit0_dirsOf (b :: rest) = exit0_pathDirs b.expr b.paths ++ exit0_dirsOf rest := by
      simp [exit0_dirsOf]
    rw [hd] at hs hinv
    refine dryT_wpS_bind (dryT_paths C hG hH hm input b b.paths (hfit b (List.mem_cons_self ..)) st w pre _ hs hinv hdirs herr) ?_
    rintro st1 w1 ⟨herr1, hdirs1, hinv1⟩
    exact ih (fun b' hb' => hfit b' (List.mem_cons_of_mem _ hb')) st1 w1 (pre ++ exit0_pathDirs b.expr b.paths)
      (by rw [hs]; simp) hinv1 hdirs1 herr1

/-- The fault-free dry run ends without the error flag when the configuration is valid, the configured paths
fit, the configured directories exist and no registered message has an error verdict. -/
theorem dryT_mainP (C : exit0_Ctx) (hG : exit0_Good C) (hH : dryT_Hyp C) (hm : C.env.stdinMode = false)
    (hsyn : C.env.syntaxOnly = false) (conf : List ConfBlock) (input : Bytes) (hdirs : C.dirs = exit0_dirsOf conf)
    (hfit : ∀ b ∈ conf, ∀ p ∈ b.paths, isStdinPath p = false → dryT_Fits p) (hreg : WholeReg C.w0 C.files0) :
    wpS (mainP C.env C.orc true conf C.files0 input) (fun _ r _ => r.2.error = false) false C.w0 := by
  have hinv0 := exit0_inv_init C hG hreg
  rw [Own.mainP_eq]
  refine wpS_call_spent ?_
  have hpred : predict C.w0 (.fopen C.env.confpath) = .ok C.w0.handles.length := rfl
  rw [hpred]
  dsimp only
  have hinv1 := hinv0.step (.fopen C.env.confpath) (.ok C.w0.handles.length) rfl (fun _ => trivial)
  have hdirs1 := dryT_step_dirs C.w0 (.fopen C.env.confpath) (.ok C.w0.handles.length) rfl rfl
  have hobj : (stepWorld C.w0 (.fopen C.env.confpath) (.ok C.w0.handles.length)).obj C.w0.handles.length = .other := by
    have hc : World.core C.w0 (.fopen C.env.confpath) (.ok C.w0.handles.length) = (C.w0.newHandle .other).1 := by
      simp [World.core, applyOk]
    rw [World.stepWorld_obj, hc, World.obj_newHandle]
    simp
  refine wpS_call_spent ?_
  generalize predict (stepWorld C.w0 (.fopen C.env.confpath) (.ok C.w0.handles.length)) (.fclose C.w0.handles.length) = r2
  have hinv2 := hinv1.step (.fclose C.w0.handles.length) r2 rfl (by
    intro g
    simp only [World.fileSafe, hobj, World.objFid]
    intro h; cases h)
  have hdirs2 := dryT_step_dirs _ (.fclose C.w0.handles.length) r2 rfl hdirs1
  unfold Own.mainK
  simp only [Bool.not_true, Bool.false_eq_true, if_false, hsyn]
  refine dryT_wpS_bind (dryT_blocks C hG hH hm input conf hfit _ _ [] (by simpa using hdirs) (by rw [← hdirs]; exact hinv2)
    hdirs2 rfl) ?_
  rintro stf wf ⟨herr, _, _⟩
  exact herr

/-! ## what a real run without the error flag says about the configuration (any single-fault plan) -/

theorem dryT_cur_of_new (p : Bytes) (h : (pathjoin PATH_MAX p (subdirName .new)).isSome = true) :
    (pathjoin PATH_MAX p (subdirName .cur)).isSome = true := by
  unfold pathjoin at h ⊢
  simp only [subdirName, List.length_append, List.length_cons, List.length_nil] at h ⊢
  split at h
  · cases h
  · rename_i hge
    simp only [hge, if_false]
    rfl

theorem dryT_real_paths (env : PEnv) (orc : EvalOracles) (input : Bytes) (b : ConfBlock) (hm : env.stdinMode = false)
    (ps : List Bytes) :
    ∀ (st : MainSt) (bb : Bool) (w : World),
      wpS (mainP.blocks.paths env orc input b ps st)
        (fun _ st' _ => st'.error = false → ∀ p ∈ ps, isStdinPath p = false → dryT_Fits p) bb w := by
  induction ps with
  | nil =>
    intro st bb w
    rw [Own.paths_nil]
    intro _ p hp
    cases hp
  | cons p more ih =>
    intro st bb w
    have sticky : ∀ (st1 : MainSt) (b1 : Bool) (w1 : World), st1.error = true →
        wpS (mainP.blocks.paths env orc input b more st1)
          (fun _ st' _ => st'.error = false → ∀ q ∈ p :: more, isStdinPath q = false → dryT_Fits q) b1 w1 := by
      intro st1 b1 w1 h1
      exact wpS_mono (exit0_wpS_all (exit0_paths_sticky env orc input b hm more st1 h1) b1 w1)
        (fun _ r _ h he => by rw [h] at he; cases he)
    have tail : ∀ (hp : isStdinPath p = false → dryT_Fits p) (st1 : MainSt) (b1 : Bool) (w1 : World),
        wpS (mainP.blocks.paths env orc input b more st1)
          (fun _ st' _ => st'.error = false → ∀ q ∈ p :: more, isStdinPath q = false → dryT_Fits q) b1 w1 := by
      intro hp st1 b1 w1
      refine wpS_mono (ih st1 b1 w1) ?_
      intro _ st' _ h he q hq
      rcases List.mem_cons.1 hq with rfl | hq
      · exact hp
      · exact h he q hq
    rw [Own.paths_cons]
    by_cases hsk : skipPath env p = true
    · simp only [hsk, if_true]
      have hsp : isStdinPath p = true := by simpa [skipPath, hm] using hsk
      exact tail (fun h => by rw [hsp] at h; cases h) st bb w
    · simp only [hsk, Bool.false_eq_true, if_false]
      have hsp : isStdinPath p = false := by simpa [skipPath, hm] using hsk
      simp only [hsp, Bool.false_eq_true, if_false]
      split
      · rename_i root np hroot hnp
        have hfits : dryT_Fits p :=
          ⟨by rw [hroot]; rfl, by rw [hnp]; rfl, dryT_cur_of_new p (by rw [hnp]; rfl)⟩
        refine wpS_bind_mono exit0_wpS_triv fun b1 x w1 _ => ?_
        split
        · exact sticky _ _ _ rfl
        · refine wpS_bind_mono exit0_wpS_triv fun b2 y w2 _ => ?_
          refine wpS_bind_mono exit0_wpS_triv fun b3 _ w3 _ => ?_
          exact tail (fun _ => hfits) _ _ _
      · exact sticky _ _ _ rfl

theorem dryT_real_blocks (env : PEnv) (orc : EvalOracles) (input : Bytes) (hm : env.stdinMode = false) (bs : List ConfBlock) :
    ∀ (st : MainSt) (bb : Bool) (w : World),
      wpS (mainP.blocks env orc input bs st)
        (fun _ st' _ => st'.error = false → ∀ b ∈ bs, ∀ p ∈ b.paths, isStdinPath p = false → dryT_Fits p) bb w := by
  induction bs with
  | nil =>
    intro st bb w
    rw [Own.blocks_nil]
    intro _ b hb
    cases hb
  | cons b rest ih =>
    intro st bb w
    rw [Own.blocks_cons]
    refine wpS_bind_mono (dryT_real_paths env orc input b hm b.paths st bb w) ?_
    intro b1 st1 w1 hpost
    by_cases herr : st1.error = true
    · exact wpS_mono (exit0_wpS_all (exit0_blocks_sticky env orc input hm rest st1 herr) b1 w1)
        (fun _ r _ h he => by rw [h] at he; cases he)
    · have hb := hpost (by simpa using herr)
      refine wpS_mono (ih st1 b1 w1) ?_
      intro _ st' _ h he b' hb'
      rcases List.mem_cons.1 hb' with rfl | hb'
      · exact hb
      · exact h he b' hb'

/-- A run (real or dry, at most one fault) that ends without the error flag had a valid configuration
whose selected paths fit. -/
theorem dryT_real_mainP (env : PEnv) (orc : EvalOracles) (confOk : Bool) (conf : List ConfBlock) (files : Files) (input : Bytes)
    (hm : env.stdinMode = false) (hsyn : env.syntaxOnly = false) (bb : Bool) (w : World) :
    wpS (mainP env orc confOk conf files input)
      (fun _ r _ => r.2.error = false → confOk = true ∧ ∀ b ∈ conf, ∀ p ∈ b.paths, isStdinPath p = false → dryT_Fits p) bb w := by
  rw [Own.mainP_eq]
  refine World.wpS_call_any fun r1 b1 => ?_
  cases r1 with
  | ok h =>
    dsimp only
    refine World.wpS_call_any fun r2 b2 => ?_
    unfold Own.mainK
    cases confOk with
    | false =>
      simp only [Bool.not_false, if_true]
      intro h
      cases h
    | true =>
      simp only [Bool.not_true, Bool.false_eq_true, if_false, hsyn]
      refine wpS_bind_mono (dryT_real_blocks env orc input hm conf _ b2 _) ?_
      intro _ stf _ hpost he
      exact ⟨trivial, hpost he⟩
  | err e => intro h; cases h
  | name n => intro h; cases h
  | eof => intro h; cases h

/-! ## the verdict does not depend on `-d` -/

theorem dryT_verdict_isErr (env : PEnv) (orc : EvalOracles) (expr : Expr) (D n c : Bytes) (b1 b2 : Bool) :
    (verdict { env with dryrun := b1 } orc expr D n c).isErr = (verdict { env with dryrun := b2 } orc expr D n c).isErr := by
  unfold verdict fileMs
  cases pathjoin PATH_MAX D n with
  | none => rfl
  | some p =>
    cases strlcpyFits NAME_MAX1 n with
    | none => rfl
    | some nm =>
      dsimp only
      cases flagsParse nm with
      | none => rfl
      | some mf =>
        dsimp only
        unfold msVerdict evVerdict
        dsimp only
        have hs := Insp.eval_sim (dry_envAgree env orc b1 b2 p) (parseMessage c) expr 0 (parseMessage c)
          { ml := [], flags := mf } { ml := [], flags := mf } ⟨rfl, rfl⟩
        obtain ⟨ev, s1, s2, h1, h2, hsim⟩ := Insp.rsim_cases hs
        rw [h1, h2]
        cases ev with
        | error => rfl
        | «nomatch» => rfl
        | «match» =>
          dsimp only
          have hi := dry_matchesInterpolate_sim (e1 := msgEnv { env with dryrun := b1 } orc p)
            (e2 := msgEnv { env with dryrun := b2 } orc p) rfl hsim.1
            (partMsg (parseMessage c) ((getAttachments (parseMessage c)).getD []))
          cases h3 : matchesInterpolate (msgEnv { env with dryrun := b1 } orc p) s1.ml
              (partMsg (parseMessage c) ((getAttachments (parseMessage c)).getD [])) with
          | none =>
            rw [h3] at hi
            cases h4 : matchesInterpolate (msgEnv { env with dryrun := b2 } orc p) s2.ml
                (partMsg (parseMessage c) ((getAttachments (parseMessage c)).getD [])) with
            | none => rfl
            | some y => rw [h4] at hi; cases hi
          | some x =>
            rw [h3] at hi
            cases h4 : matchesInterpolate (msgEnv { env with dryrun := b2 } orc p) s2.ml
                (partMsg (parseMessage c) ((getAttachments (parseMessage c)).getD [])) with
            | none => rw [h4] at hi; cases hi
            | some y => rfl

/-! ## real run exits 0 ⇒ dry run exits 0 -/

/-- Every directory the configuration makes a run walk exists. -/
def dryT_dirsExist (conf : List ConfBlock) (w : World) : Prop :=
  ∀ D ∈ (exit0_dirsOf conf).map (·.1), (w.dir D).isSome = true

theorem dryT_budget_none : World.Budget Plan.none 0 false :=
  ⟨fun _ _ _ => rfl, fun _ _ _ _ _ => rfl⟩

/-- A real run (at most one fault) that ends without the error flag has opened every directory of the
configuration; no call of a maildir-mode run creates or removes a directory (`dirsSame_mainP`): they all
existed in the initial world. -/
theorem dryT_real_dirs (env : PEnv) (orc : EvalOracles) (confOk : Bool) (conf : List ConfBlock) (files : Files) (input : Bytes)
    (w : World) (plan : Plan) (hm : env.stdinMode = false) (hsyn : env.syntaxOnly = false) (hdry : env.dryrun = false)
    (hfree : ∀ b ∈ conf, asksFree b.expr = true)
    (hnd : ∀ b ∈ conf, WholeNoDiscard env orc b.expr) (hreg : WholeReg w files)
    (hG : exit0_Good ⟨env, orc, exit0_dirsOf conf, files, w⟩) (hp : World.SingleFault plan)
    (he : (runPlan plan (mainP env orc confOk conf files input) w 0 []).1.2.error = false) : dryT_dirsExist conf w := by
  have h1 := exit0_mainP' ⟨env, orc, exit0_dirsOf conf, files, w⟩ hG hm hsyn confOk conf input rfl
    (fun b hb => exit0_step_real env orc b.expr (hfree b hb) hdry (hnd b hb)) hreg true
  have h2 := dirsSame_mainP env orc confOk conf files input hm true w
  rw [World.runPlan_eq] at he
  obtain ⟨_, hq, hsame⟩ := World.wpS_sound plan (wpS_and h1 h2) hp.budget
  intro D hD
  rw [← hsame D]
  exact (hq he).2.1 D hD

/-- **If the real run ends with exit status 0, so does the dry run** (fault-free plan, maildir mode, rules
without discard that ask the operating system nothing, no message visited twice). -/
theorem dry_exit_le_real (env : PEnv) (orc : EvalOracles) (confOk : Bool) (conf : List ConfBlock) (files : Files) (input : Bytes)
    (w : World) (hm : env.stdinMode = false) (hsyn : env.syntaxOnly = false) (hdry : env.dryrun = false)
    (hfree : ∀ b ∈ conf, asksFree b.expr = true)
    (hnd : ∀ b ∈ conf, WholeNoDiscard env orc b.expr) (hreg : WholeReg w files)
    (hG : exit0_Good ⟨env, orc, exit0_dirsOf conf, files, w⟩)
    (hreal : (runPlan Plan.none (mainP env orc confOk conf files input) w 0 []).1.1 = 0) :
    (runPlan Plan.none (mainP { env with dryrun := true } orc confOk conf files input) w 0 []).1.1 = 0 := by
  have he := exit0_status_zero env orc confOk conf files input w Plan.none hm hreal
  have hex := dryT_real_dirs env orc confOk conf files input w Plan.none hm hsyn hdry hfree hnd hreg hG World.singleFault_none he
  -- the configuration
  obtain ⟨hok, hfit⟩ : confOk = true ∧ ∀ b ∈ conf, ∀ p ∈ b.paths, isStdinPath p = false → dryT_Fits p := by
    have h := dryT_real_mainP env orc confOk conf files input hm hsyn true w
    rw [World.runPlan_eq] at he
    obtain ⟨_, hq⟩ := World.wpS_sound Plan.none h World.singleFault_none.budget
    exact hq he
  subst hok
  -- the verdicts
  have hpl := (exit0_main_exit0 env orc true conf files input w Plan.none hm hsyn hdry hfree hnd hreg hG World.singleFault_none hreal).1
  have hverd : ∀ D e n c, (D, e) ∈ exit0_dirsOf conf → files.get D n = some c →
      (verdict { env with dryrun := true } orc e D n c).isErr = false := by
    intro D e n c hmem hc
    have hp := hpl D e n c hmem hc
    have hr : (verdict env orc e D n c).isErr = false := by
      unfold exit0_Placed at hp
      cases hv : verdict env orc e D n c with
      | act ml msgs fl => rfl
      | «nomatch» => rfl
      | unparsable => rw [hv] at hp; exact hp.elim
      | error => rw [hv] at hp; exact hp.elim
      | interpFail => rw [hv] at hp; exact hp.elim
    have := dryT_verdict_isErr env orc e D n c true false
    rw [dry_env_false env hdry] at this
    rw [this]; exact hr
  have hfreeD : ∀ D e, (D, e) ∈ exit0_dirsOf conf → asksFree e = true := by
    intro D e hmem
    simp only [exit0_dirsOf, exit0_pathDirs, List.mem_flatMap, List.mem_filter, List.mem_cons, Prod.mk.injEq, List.mem_nil_iff,
      or_false] at hmem
    obtain ⟨b, hb, p, _, h | h⟩ := hmem
    · rw [h.2]; exact hfree b hb
    · rw [h.2]; exact hfree b hb
  -- the dry run
  have hD := dryT_mainP ⟨{ env with dryrun := true }, orc, exit0_dirsOf conf, files, w⟩ (dry_good env orc _ files w hG)
    ⟨rfl, hex, hverd, hfreeD⟩ hm hsyn conf input rfl hfit hreg
  obtain ⟨_, herrD⟩ := World.wpS_sound Plan.none hD dryT_budget_none
  have herr' : (World.run Plan.none (mainP { env with dryrun := true } orc true conf files input) w 0).1.2.error = false :=
    herrD
  have ht := exit_status_table { env with dryrun := true } orc true conf files input w Plan.none
  dsimp only at ht
  rw [ht]
  unfold exitStatus
  have hm' : ({ env with dryrun := true } : PEnv).stdinMode = false := hm
  simp only [hm', Bool.false_eq_true, if_false]
  rw [World.runPlan_eq]
  dsimp only
  rw [herr']
  simp [hm]

/-- `dry_predicts_real` without the hypothesis that the dry run ends with exit status 0. -/
theorem dry_predicts_real2 (env : PEnv) (orc : EvalOracles) (confOk : Bool) (conf : List ConfBlock) (files : Files) (input : Bytes)
    (w : World) (hm : env.stdinMode = false) (hsyn : env.syntaxOnly = false) (hdry : env.dryrun = false)
    (hfree : ∀ b ∈ conf, asksFree b.expr = true)
    (hnd : ∀ b ∈ conf, WholeNoDiscard env orc b.expr) (hreg : WholeReg w files)
    (hG : exit0_Good ⟨env, orc, exit0_dirsOf conf, files, w⟩)
    (hreal : (runPlan Plan.none (mainP env orc confOk conf files input) w 0 []).1.1 = 0) :
    (runPlan Plan.none (mainP { env with dryrun := true } orc confOk conf files input) w 0 []).1.1 = 0 ∧
    (runPlan Plan.none (mainP { env with dryrun := true } orc confOk conf files input) w 0 []).1.2.log =
      (runPlan Plan.none (mainP env orc confOk conf files input) w 0 []).1.2.log ∧
    (runPlan Plan.none (mainP env orc confOk conf files input) w 0 []).1.2.log =
      exit0_refDirs ⟨env, orc, exit0_dirsOf conf, files, w⟩ (exit0_dirsOf conf) := by
  have hd := dry_exit_le_real env orc confOk conf files input w hm hsyn hdry hfree hnd hreg hG hreal
  exact ⟨hd, dry_predicts_real env orc confOk conf files input w hm hsyn hdry hfree hnd hreg hG hreal hd⟩

end Mdsort.Proofs
