import Mdsort.Proofs.WorldScripts

/-! `maildir_write`: the message survives every step. -/

namespace Mdsort.Proofs.World
open Mdsort Mdsort.Model

theorem All.ret_intro {α} {P : α → Prop} {a : α} (h : P a) : All P (Prog.ret a) := h
theorem All.call_intro {α} {P : α → Prop} {c : Call} {k : Res → Prog α} (h : ∀ r, All P (k r)) : All P (Prog.call c k) := h
theorem Calls.ret_intro' {α} {Q : Call → Prop} (a : α) : Calls Q (Prog.ret a) := trivial
theorem Calls.call_intro' {α} {Q : Call → Prop} {c : Call} {k : Res → Prog α} (h : Q c) (hk : ∀ r, Calls Q (k r)) :
    Calls Q (Prog.call c k) := ⟨h, hk⟩

macro "harmless_step" : tactic =>
  `(tactic| first
      | (with_reducible exact Calls.ret_intro' _)
      | ((with_reducible show Harmless _); exact trivial)
      | (with_reducible apply Calls.call_intro')
      | (intro _)
      | (with_reducible apply Calls.bind)
      | split
      | (dsimp only; split))

macro "all_step" : tactic =>
  `(tactic| first
      | (with_reducible apply All.ret_intro)
      | (with_reducible apply All.call_intro)
      | (intro _)
      | (with_reducible apply All.bind)
      | split
      | (dsimp only; split))

theorem wp_harmlessAt_all {α} {cs : List Bytes} {p0 n0 : Bytes} {fid0 : Nat} {P : α → Prop} {p : Prog α}
    (hc : Calls Harmless p) (ha : All P p) {w : World} (hg : GoodAt w cs p0 n0 fid0) :
    wp (fun w' => GoodAt w' cs p0 n0 fid0) p (fun a w' => GoodAt w' cs p0 n0 fid0 ∧ P a) w := by
  induction p generalizing w with
  | ret a => exact ⟨hg, ha⟩
  | call c k ih =>
    intro f
    have := hg.step c (faultResult f w c) (hc.1.dirSafe _ _ _) (hc.1.fileSafe _ _)
    exact ⟨this, ih _ (hc.2 _) (ha _) this⟩

theorem wp_harmless_all {α} {cs : List Bytes} {P : α → Prop} {p : Prog α}
    (hc : Calls Harmless p) (ha : All P p) {w : World} (hg : Good w cs) :
    wp (fun w' => Good w' cs) p (fun a w' => Good w' cs ∧ P a) w := by
  obtain ⟨p0, n0, fid0, hg⟩ := hg
  exact wp_mono (wp_inv_mono (wp_harmlessAt_all hc ha hg) fun _ h => h.good) fun _ _ h => ⟨h.1.good, h.2⟩

theorem harmless_messageSetFile (ms : MsgSt) (dir name : Bytes) (fd : Option Handle) : Calls Harmless (messageSetFile ms dir name fd) := by
  unfold messageSetFile
  simp only [bind_eq, pure_eq, call_bind]
  repeat' harmless_step

theorem all_messageSetFile (ms : MsgSt) (dir name : Bytes) (fd : Option Handle) :
    All (fun r => r.1.msg = ms.msg) (messageSetFile ms dir name fd) := by
  unfold messageSetFile
  simp only [bind_eq, pure_eq, call_bind]
  repeat' (first | exact rfl | all_step)

theorem harmless_messageSetFileMoved (ms : MsgSt) (s d : Subdir) (dir name : Bytes) :
    Calls Harmless (messageSetFileMoved ms s d dir name) := by
  unfold messageSetFileMoved
  simp only [bind_eq, pure_eq, call_bind]
  repeat' harmless_step

theorem all_messageSetFileMoved (ms : MsgSt) (s d : Subdir) (dir name : Bytes) :
    All (fun r => r.1.msg = ms.msg) (messageSetFileMoved ms s d dir name) := by
  unfold messageSetFileMoved
  simp only [bind_eq, pure_eq, call_bind]
  repeat' (first | exact rfl | all_step)

theorem GoodAt.step_err {w cs p n fid} (hg : GoodAt w cs p n fid) (c : Call) (e : String)
    (h1 : ∀ d, c ≠ .closedir d) (h2 : ∀ d, c ≠ .close d) (h3 : ∀ d, c ≠ .fclose d) :
    GoodAt (stepWorld w c (.err e)) cs p n fid := by
  have hc := core_err w c e h1 h2 h3
  unfold GoodAt
  simp only [stepWorld_lookup, stepWorld_file, stepWorld_nextFid, hc]
  exact hg


theorem All.bind_mono {α β} {R : α → Prop} {P : β → Prop} {p : Prog α} {f : α → Prog β}
    (hp : All R p) (hf : ∀ a, R a → All P (f a)) : All P (p.bind f) := by
  induction p with
  | ret a => exact hf a hp
  | call c k ih => intro r; exact ih r (hp r)

theorem wp_call_any {α} {I : World → Prop} {c : Call} {k : Res → Prog α} {Q : α → World → Prop} {w : World}
    (h : ∀ r, I (stepWorld w c r) ∧ wp I (k r) Q (stepWorld w c r)) : wp I (.call c k) Q w := fun _ => h _

theorem isOk_cases (r : Res) : (∃ e, r = .err e) ∨ isOk r = true := by
  cases r <;> simp [isOk]

theorem spec_maildirWrite {cs : List Bytes} (env : PEnv) (md : Maildir) (ms : MsgSt) {w : World}
    (hgood : Good w cs) (hm : (messageWrite ms.msg).1 ∈ cs) :
    wp (fun w' => Good w' cs) (maildirWrite env md ms) (fun r w' => Good w' cs ∧ r.1.msg = ms.msg) w := by
  obtain ⟨p0, n0, fid0, hg⟩ := hgood
  unfold maildirWrite gennameStart
  simp only [bind_eq, pure_eq, call_bind]
  split
  · exact ⟨hg.good, rfl⟩
  rename_i fl _
  refine wp_bind_mono (wp_inv_mono (spec_genname env md (some fl) cs p0 n0 fid0 (fun _ => True) (fun _ _ _ _ _ => trivial)
    gennameAttempts _ hg trivial) fun _ h => h.good) ?_
  rintro g w1 ⟨hg1, -, hnew⟩
  cases g with
  | none => exact ⟨hg1.good, rfl⟩
  | some x =>
  obtain ⟨fd, name⟩ := x
  obtain ⟨d, p, fid, hd, nf, hlt, hneq⟩ := hnew fd name rfl
  have hfne : fid ≠ fid0 := Nat.ne_of_gt hlt
  dsimp only
  refine wp_bind_mono (wp_inv_mono (spec_messageWriteP ms.msg fd hg1 nf.obj hfne nf.file) fun _ h => h.good) ?_
  rintro we w2 ⟨fr2, f2, hf2, hcontent⟩
  have hdlt : d < w1.handles.length := Nat.lt_trans nf.dLt nf.fdLt
  have hdp2 : w2.dirPath d = some p := by
    rw [← nf.dirPath]; exact dirPath_congr (fr2.objs d hdlt)
  -- close fd
  intro ft
  generalize faultResult ft w2 (.close fd) = rc
  have hg3 := fr2.good.step (.close fd) rc trivial trivial
  refine ⟨hg3.good, ?_⟩
  have hcc := core_close w2 fd rc
  generalize hw3 : stepWorld w2 (.close fd) rc = w3 at hg3 ⊢
  have hdp3 : w3.dirPath d = some p := by
    rw [← hdp2, ← hw3]
    apply dirPath_congr
    rw [stepWorld_obj, hcc, obj_setObj]
    have : d ≠ fd := Nat.ne_of_lt nf.dLt
    simp [this]
  have hlook3 : ∀ q m, w3.lookup q m = w1.lookup q m := by
    intro q m
    rw [← hw3, stepWorld_lookup, hcc, lookup_setObj]
    exact lookup_of_dirs fr2.dirs q m
  have hdir3 : ∀ q, w3.dir q = w1.dir q := by
    intro q
    rw [← hw3, stepWorld_dir, hcc, dir_setObj]
    exact dir_of_dirs fr2.dirs q
  have hfile3 : w3.file fid = some f2 := by
    rw [← hw3, stepWorld_file, hcc, file_setObj]; exact hf2
  have hsafe_new : dirSafe w3 p0 n0 (.unlinkat d name) := by
    simp only [dirSafe, hdp3, Option.some.injEq]
    exact hneq
  -- the rollback
  have rollback : wp (fun w' => Good w' cs) ((maildirUnlink md name).bind fun _ => Prog.ret (ms, true))
      (fun r w' => Good w' cs ∧ r.1.msg = ms.msg) w3 := by
    unfold maildirUnlink
    simp only [hd, bind_eq, pure_eq, call_bind]
    intro ft
    have := hg3.step (.unlinkat d name) (faultResult ft w3 (.unlinkat d name)) hsafe_new trivial
    exact ⟨this.good, this.good, rfl⟩
  cases we with
  | true =>
    simp only [if_true, ret_bind]
    exact rollback
  | false =>
    simp only [Bool.false_eq_true, if_false]
    unfold maildirUnlink
    simp only [hd, bind_eq, pure_eq, call_bind]
    refine wp_call_any fun ru => ?_
    rcases isOk_cases ru with ⟨e, rfl⟩ | hok
    · have hg4 := hg3.step_err (.unlinkat d ms.name) e (by intro _ h; cases h) (by intro _ h; cases h) (by intro _ h; cases h)
      refine ⟨hg4.good, ?_⟩
      simp only [isOk, Bool.not_false]
      -- same as rollback, one world later
      have hdp4 : (stepWorld w3 (.unlinkat d ms.name) (.err e)).dirPath d = some p := by
        rw [stepWorld_dirPath, core_err w3 _ e (by intro _ h; cases h) (by intro _ h; cases h) (by intro _ h; cases h)]
        exact hdp3
      simp only [ret_bind, if_true, call_bind']
      refine wp_call_any fun r => ?_
      have := hg4.step (.unlinkat d name) r
        (by simp only [dirSafe, hdp4, Option.some.injEq]; exact hneq) trivial
      exact ⟨this.good, this.good, rfl⟩
    · have hgood4 : Good (stepWorld w3 (.unlinkat d ms.name) ru) cs := by
        by_cases hA : dirSafe w3 p0 n0 (.unlinkat d ms.name)
        · exact (hg3.step _ ru hA trivial).good
        · simp only [dirSafe, hdp3, Option.some.injEq, Classical.not_not] at hA
          obtain ⟨rfl, hn⟩ := hA
          have hdir1 : (w1.dir p).isSome := dir_isSome_of_lookup hg1.1
          obtain ⟨hdat, hdur⟩ := hcontent rfl
          have hB : GoodAt w3 cs p name fid := by
            refine ⟨by rw [hlook3]; exact nf.bound hdir1, ?_, f2, hfile3, ?_, ?_⟩
            · have h1 := nf.fidLt
              have h2 := fr2.nextFid
              have h3 := core_nextFid w2 (.close fd) rc
              rw [← hw3, stepWorld_nextFid]
              omega
            · rw [hdat]; simpa using hm
            · rw [hdur, hdat]; simpa using hm
          refine (hB.step (.unlinkat d ms.name) ru ?_ trivial).good
          simp only [dirSafe, hdp3, true_and]
          intro h
          exact hneq ⟨rfl, by rw [← h, hn]⟩
      refine ⟨hgood4, ?_⟩
      simp only [hok, Bool.not_true, ret_bind, Bool.false_eq_true, if_false]
      refine wp_harmless_all ?_ ?_ hgood4
      · repeat' (first | exact harmless_messageSetFile _ _ _ _ | harmless_step)
      · repeat' (first | exact rfl | assumption | (refine All.bind_mono (all_messageSetFile _ _ _ _) ?_; intro _ _) | all_step)

end Mdsort.Proofs.World
