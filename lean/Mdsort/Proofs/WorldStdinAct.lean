import Mdsort.Proofs.WorldStdinFresh

/-! The invariant the action scripts keep while the spool of a stdin run exists, and the effect of
single calls on it. -/

namespace Mdsort.Proofs.World
open Mdsort Mdsort.Model

/-- The spool of this run: directory stream, path of its `new` directory, root. -/
structure Spool where
  d : Handle
  sp : Bytes
  sr : Bytes

/-- What every script leaves alone, relative to the world `w0` at its start: the handles that
existed, which directories exist, the (empty) spool root. -/
structure Inv (S : Spool) (w0 w : World) : Prop where
  objs : ∀ h, h < w0.handles.length → w.obj h = w0.obj h
  len : w0.handles.length ≤ w.handles.length
  exist : ∀ q, (w.dir q).isSome = (w0.dir q).isSome
  root : w.dir S.sr = some []

theorem Inv.refl {S : Spool} {w : World} (hr : w.dir S.sr = some []) : Inv S w w :=
  ⟨fun _ _ => rfl, Nat.le_refl _, fun _ => rfl, hr⟩

theorem Inv.trans {S : Spool} {w0 w1 w2 : World} (a : Inv S w0 w1) (b : Inv S w1 w2) : Inv S w0 w2 :=
  ⟨fun h hh => (b.objs h (Nat.lt_of_lt_of_le hh a.len)).trans (a.objs h hh), Nat.le_trans a.len b.len,
   fun q => (b.exist q).trans (a.exist q), b.root⟩

theorem Inv.dirPath {S : Spool} {w0 w : World} (a : Inv S w0 w) {h : Handle} {p : Bytes} (hp : w0.dirPath h = some p) :
    w.dirPath h = some p := by
  rw [← hp]; exact dirPath_congr (a.objs h (lt_of_dirPath hp))

theorem Inv.ofSameFs {S : Spool} {w0 w : World} (h : SameFsS w0 w) (hr : w0.dir S.sr = some []) : Inv S w0 w :=
  ⟨fun x _ => h.obj x, by rw [h.2.2.2]; exact Nat.le_refl _, fun q => by rw [h.dir], by rw [h.dir]; exact hr⟩

/-- One call that is no `mkdir`/`rmdir`, acts on no handle that existed at the start, and leaves the spool root alone. -/
theorem Inv.step {S : Spool} {w0 w : World} (a : Inv S w0 w) (c : Call) (r : Res) (hmk : Call.mkrm c = false)
    (hsub : ∀ h, Call.subject c = some h → w0.handles.length ≤ h)
    (hroot : (stepWorld w c r).dir S.sr = w.dir S.sr) : Inv S w0 (stepWorld w c r) := by
  refine ⟨?_, ?_, ?_, by rw [hroot]; exact a.root⟩
  · intro h hh
    rw [stepWorld_obj, core_obj w c r h (Nat.lt_of_lt_of_le hh a.len), a.objs h hh]
    intro hs
    have := hsub h hs
    omega
  · rw [stepWorld_handles]; exact Nat.le_trans a.len (core_len w c r)
  · intro q
    rw [stepWorld_dir, core_dir_isSome_eq w c r q hmk, a.exist q]

theorem mkrm_of_not_dirOp {c : Call} (h : Call.dirOp c = false) : Call.mkrm c = false := by
  cases c <;> first | rfl | (simp [Call.dirOp] at h)

/-- A call that is no directory operation. -/
theorem Inv.step_plain {S : Spool} {w0 w : World} (a : Inv S w0 w) (c : Call) (r : Res) (hd : Call.dirOp c = false)
    (hsub : ∀ h, Call.subject c = some h → w0.handles.length ≤ h) : Inv S w0 (stepWorld w c r) :=
  a.step c r (mkrm_of_not_dirOp hd) hsub (by rw [stepWorld_dir]; exact dir_of_dirs (core_dirs w c r hd) _)

/-! ## the three directory operations: directories they do not name are unchanged -/

theorem dir_openExcl_other (w : World) (d : Handle) (n : Bytes) (r : Res) {p q : Bytes} (hp : w.dirPath d = some p)
    (hq : q ≠ p) : (stepWorld w (.openExcl d n) r).dir q = w.dir q := by
  rw [stepWorld_dir]
  cases r with
  | ok v =>
    cases hl : w.lookup p n with
    | none => rw [core_openExcl_ok hp hl]; simp [dir_bind, hq]; rfl
    | some fid => simp [core, applyOk, hp, hl]
  | err e => rw [core_err w _ e (by intro _ h; cases h) (by intro _ h; cases h) (by intro _ h; cases h)]
  | name x => simp [core, applyOk]
  | eof => simp [core, applyOk]

theorem dir_unlinkat_other (w : World) (d : Handle) (n : Bytes) (r : Res) {p q : Bytes} (hp : w.dirPath d = some p)
    (hq : q ≠ p) : (stepWorld w (.unlinkat d n) r).dir q = w.dir q := by
  rw [stepWorld_dir]
  cases r with
  | ok v =>
    cases hl : w.lookup p n with
    | none => simp [core, applyOk, hp, hl]
    | some fid => rw [core_unlinkat_okS hp hl]; simp [dir_unbind, hq]
  | err e => rw [core_err w _ e (by intro _ h; cases h) (by intro _ h; cases h) (by intro _ h; cases h)]
  | name x => simp [core, applyOk]
  | eof => simp [core, applyOk]

theorem dir_renameat_ok {w : World} {d1 d2 : Handle} {n1 n2 p1 p2 : Bytes} {fid : Nat}
    (hp1 : w.dirPath d1 = some p1) (hp2 : w.dirPath d2 = some p2) (hl : w.lookup p1 n1 = some fid) (v : Nat) {q : Bytes}
    (hq1 : q ≠ p1) (hq2 : q ≠ p2) : (stepWorld w (.renameat d1 n1 d2 n2) (.ok v)).dir q = w.dir q := by
  rw [stepWorld_dir, core_renameat_ok hp1 hp2 hl]
  simp [dir_bind, dir_unbind, hq1, hq2]

/-! ## the names of one directory across the three directory operations -/

theorem NamesIn.bind' {w : World} {sp : Bytes} {ns : List Bytes} (h : NamesIn w sp ns) (p n : Bytes) (fid : Nat) :
    NamesIn (w.bind p n fid) sp (if p = sp then n :: ns else ns) := by
  by_cases hp : p = sp
  · simp only [hp, if_true]; rw [← hp]; exact (hp ▸ h).bind p n fid
  · simp only [hp, if_false]
    have : ¬ sp = p := fun e => hp e.symm
    exact h.congr (by simp [dir_bind, this])

theorem NamesIn.openExcl_ok {w : World} {sp : Bytes} {ns : List Bytes} (h : NamesIn w sp ns) {d : Handle} {n p : Bytes}
    (hp : w.dirPath d = some p) (hl : w.lookup p n = none) (v : Nat) :
    NamesIn (stepWorld w (.openExcl d n) (.ok v)) sp (if p = sp then n :: ns else ns) := by
  have hc := core_openExcl_ok hp hl v
  have h0 : NamesIn ((({ w with nextFid := w.nextFid + 1 } : World).setFile w.nextFid ⟨[], []⟩)) sp ns :=
    h.congr rfl
  exact (h0.bind' p n w.nextFid).congr (by rw [stepWorld_dir, hc]; rfl)

theorem NamesIn.unlinkat {w : World} {sp : Bytes} {ns : List Bytes} (h : NamesIn w sp ns) (d : Handle) (n : Bytes) (r : Res) :
    NamesIn (stepWorld w (.unlinkat d n) r) sp ns := by
  cases r with
  | ok v =>
    cases hp : w.dirPath d with
    | none => exact h.congr (by rw [stepWorld_dir]; simp [core, applyOk, hp])
    | some p =>
      cases hl : w.lookup p n with
      | none => exact h.congr (by rw [stepWorld_dir]; simp [core, applyOk, hp, hl])
      | some fid => exact (h.unbind' p n).congr (by rw [stepWorld_dir, core_unlinkat_okS hp hl])
  | err e =>
    exact h.congr (by rw [stepWorld_dir, core_err w _ e (by intro _ h; cases h) (by intro _ h; cases h) (by intro _ h; cases h)])
  | name x => exact h.congr (by rw [stepWorld_dir]; simp [core, applyOk])
  | eof => exact h.congr (by rw [stepWorld_dir]; simp [core, applyOk])

theorem NamesIn.unlinkat_ok {w : World} {sp : Bytes} {ns : List Bytes} (h : NamesIn w sp ns) {d : Handle} {n p : Bytes}
    {fid : Nat} (hp : w.dirPath d = some p) (hl : w.lookup p n = some fid) (v : Nat) :
    NamesIn (stepWorld w (.unlinkat d n) (.ok v)) sp (if p = sp then ns.filter (· != n) else ns) :=
  (h.unbind p n).congr (by rw [stepWorld_dir, core_unlinkat_okS hp hl])

theorem NamesIn.renameat_ok {w : World} {sp : Bytes} {ns : List Bytes} (h : NamesIn w sp ns) {d1 d2 : Handle}
    {n1 n2 p1 p2 : Bytes} {fid : Nat} (hp1 : w.dirPath d1 = some p1) (hp2 : w.dirPath d2 = some p2)
    (hl : w.lookup p1 n1 = some fid) (v : Nat) :
    NamesIn (stepWorld w (.renameat d1 n1 d2 n2) (.ok v)) sp
      (if p2 = sp then n2 :: (if p1 = sp then ns.filter (· != n1) else ns) else (if p1 = sp then ns.filter (· != n1) else ns)) :=
  ((h.unbind p1 n1).bind' p2 n2 fid).congr (by rw [stepWorld_dir, core_renameat_ok hp1 hp2 hl])

theorem core_fstatatS (w : World) (d : Handle) (n : Bytes) (r : Res) : core w (.fstatat d n) r = w := by
  cases r with
  | ok v =>
    simp only [core, applyOk]
    cases hp : w.dirPath d with
    | none => rfl
    | some p =>
      simp only [Option.bind_some]
      cases hl : w.lookup p n with
      | none => rfl
      | some fid =>
        simp only [Option.bind_some]
        split <;> rfl
  | err e => simp [core, applyOk]
  | name x => simp [core, applyOk]
  | eof => simp [core, applyOk]

theorem core_utimensat_dirs (w : World) (d : Handle) (n : Bytes) (a m : Option Nat) (r : Res) :
    (core w (.utimensat d n a m) r).dirs = w.dirs := core_dirs w _ r rfl

theorem wp_triv {α} {p : Prog α} {w : World} : wp (fun _ => True) p (fun _ _ => True) w := by
  induction p generalizing w with
  | ret a => exact trivial
  | call c k ih => intro f; exact ⟨trivial, ih _⟩

end Mdsort.Proofs.World
