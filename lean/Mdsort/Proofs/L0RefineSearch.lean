import Mdsort.Proofs.L0RefineHeader
import Mdsort.Proofs.Safety

/-!
# L0 `searchheader` refines the list model

The table is `nmemb` entries of `struct header` whose `key` pointers point at C strings of `me_buf`; read back
(`l0r_table`) it is the list the L1 `searchHeader` works on.  Every probe compares what the list model compares, so
the result `(beg, nfound)` is the list model's, and `C10_binary_search` applies to the index-level code.
-/

namespace Mdsort.L0
open Mdsort Mdsort.L0.Buf

/-- The L1 table the first `nmemb` entries of the L0 table stand for. -/
def l0r_table (buf : Buf) (hs : Array Hdr0) (nmemb : Nat) : List Model.Hdr :=
  (hs.toList.take nmemb).map (l0r_readHdr buf)

theorem l0r_table_length {buf : Buf} {hs : Array Hdr0} {nmemb : Nat} (hn : nmemb ≤ hs.size) :
    (l0r_table buf hs nmemb).length = nmemb := by
  simp [l0r_table]; omega

theorem l0r_table_full (buf : Buf) (hs : Array Hdr0) : l0r_table buf hs hs.size = hs.toList.map (l0r_readHdr buf) := by
  unfold l0r_table
  rw [List.take_of_length_le (by simp)]

theorem l0r_table_get! {buf : Buf} {hs : Array Hdr0} {nmemb idx : Nat} (hn : nmemb ≤ hs.size) (hi : idx < nmemb) :
    (l0r_table buf hs nmemb).toArray[idx]! = l0r_readHdr buf (hs[idx]'(by omega)) := by
  have hlt : idx < (l0r_table buf hs nmemb).toArray.size := by
    simp only [List.size_toArray, l0r_table_length hn]; exact hi
  rw [getElem!_pos _ idx hlt]
  simp [l0r_table]

section
variable {kb : Buf} {k : Nat} {buf : Buf} {hs : Array Hdr0} {nmemb : Nat}

theorem l0r_cmpKey_spec (hk : kb.HasNul k) (hin : HdrsIn buf hs) (hn : nmemb ≤ hs.size) {idx : Nat} (hi : idx < nmemb) :
    cmpKey kb k buf hs nmemb idx =
      .ok (Mdsort.strcasecmp (kb.view k) ((l0r_table buf hs nmemb).toArray[idx]!).key) := by
  unfold cmpKey
  have hlt : idx < hs.size := by omega
  simp only [hi, if_true, Array.getElem?_eq_getElem hlt]
  rw [strcasecmp_spec hk (hin _ (Array.getElem_mem hlt)).1, l0r_table_get! hn hi]
  rfl

theorem l0r_scanBeg_spec (hk : kb.HasNul k) (hin : HdrsIn buf hs) (hn : nmemb ≤ hs.size) :
    ∀ m, m ≤ nmemb → scanBeg kb k buf hs nmemb m =
      .ok (Model.scanBeg (l0r_table buf hs nmemb).toArray (kb.view k) m) := by
  intro m
  induction m with
  | zero => intro _; rfl
  | succ m ih =>
    intro hm
    rw [scanBeg, l0r_cmpKey_spec hk hin hn (show m < nmemb by omega), Model.scanBeg]
    have ih' := ih (by omega)
    generalize Mdsort.strcasecmp (kb.view k) ((l0r_table buf hs nmemb).toArray[m]!).key = o
    cases o <;> simp [ih']

theorem l0r_scanEnd_spec (hk : kb.HasNul k) (hin : HdrsIn buf hs) (hn : nmemb ≤ hs.size) :
    ∀ e, e ≤ nmemb → scanEnd kb k buf hs nmemb e =
      .ok (Model.scanEnd (l0r_table buf hs nmemb).toArray (kb.view k) e) := by
  intro e
  generalize hm : nmemb - e = m
  induction m using Nat.strongRecOn generalizing e with
  | _ m ih =>
    intro he
    rw [scanEnd, Model.scanEnd]
    have hsz : (l0r_table buf hs nmemb).toArray.size = nmemb := by
      simp only [List.size_toArray, l0r_table_length hn]
    by_cases hlt : e < nmemb
    · have hlt' : e < (l0r_table buf hs nmemb).toArray.size := by rw [hsz]; exact hlt
      rw [if_pos hlt, dif_pos hlt', l0r_cmpKey_spec hk hin hn hlt, getElem!_pos _ e hlt']
      have ih' := ih _ (by omega) (e + 1) rfl (by omega)
      generalize Mdsort.strcasecmp (kb.view k) ((l0r_table buf hs nmemb).toArray[e]).key = o
      cases o <;> simp [ih']
    · have hlt' : ¬ e < (l0r_table buf hs nmemb).toArray.size := by rw [hsz]; exact hlt
      rw [if_neg hlt, dif_neg hlt']

theorem l0r_bsearch_spec (hk : kb.HasNul k) (hin : HdrsIn buf hs) (hn : nmemb ≤ hs.size) :
    ∀ (m lo hi f : Nat), hi + 1 - lo = m → hi < nmemb → hi + 2 - lo ≤ f →
      bsearch kb k buf hs nmemb lo hi = .ok (Model.bsearch (l0r_table buf hs nmemb).toArray (kb.view k) lo hi f) := by
  intro m
  induction m using Nat.strongRecOn with
  | _ m ih =>
    intro lo hi f hm hhi hf
    rw [bsearch]
    cases f with
    | zero =>
      have : ¬ lo ≤ hi := by omega
      rw [if_neg this]; rfl
    | succ f =>
      rw [Model.bsearch]
      by_cases hle : lo ≤ hi
      · rw [if_pos hle, if_pos hle]
        simp only
        have hmi : lo + (hi - lo) / 2 < nmemb := by omega
        rw [l0r_cmpKey_spec hk hin hn hmi]
        cases hc : Mdsort.strcasecmp (kb.view k) ((l0r_table buf hs nmemb).toArray[lo + (hi - lo) / 2]!).key with
        | eq =>
          simp only
          rw [l0r_scanBeg_spec hk hin hn _ (by omega), l0r_scanEnd_spec hk hin hn _ (by omega)]
        | gt =>
          simp only
          exact ih _ (by omega) _ _ _ rfl hhi (by omega)
        | lt =>
          simp only
          by_cases hpos : lo + (hi - lo) / 2 > 0
          · rw [if_pos hpos, if_pos hpos]
            exact ih _ (by omega) _ _ _ rfl (by omega) (by omega)
          · rw [if_neg hpos, if_neg hpos]
      · rw [if_neg hle, if_neg hle]

/-- `searchheader(headers, nmemb, key, &nfound)` returns what the list model returns on the table read back. -/
theorem l0r_searchHeader_refines (hk : kb.HasNul k) (hin : HdrsIn buf hs) (hn : nmemb ≤ hs.size) :
    searchHeader kb k buf hs nmemb = .ok (Model.searchHeader (l0r_table buf hs nmemb) (kb.view k)) := by
  unfold searchHeader Model.searchHeader
  rw [l0r_table_length hn]
  by_cases h0 : nmemb = 0
  · simp [h0]
  · have : (nmemb == 0) = false := by simpa using h0
    simp only [this, Bool.false_eq_true, if_false]
    exact l0r_bsearch_spec hk hin hn _ 0 (nmemb - 1) (nmemb + 1) rfl (by omega) (by omega)

end

end Mdsort.L0
