import Mdsort.Model.Lex

/-! Lemmas for C14: the lexer is total, makes progress, and reads back what the grammar prints. -/

namespace Mdsort.Proofs
open Mdsort Mdsort.Model

/-- Every call returns a suffix of its input, and a token other than end-of-input consumes at
least one byte: so the token stream of any file is finite (the LALR driver, which calls the lexer
once per shift, terminates on every byte string). -/
theorem lex_progress (pflag sflag afterMacro : Bool) (input : Bytes) :
    let r := lex1 pflag sflag afterMacro input
    (∃ pre, input = pre ++ r.rest) ∧ (r.tok ≠ .eof → r.rest.length < input.length) := by
  sorry

/-- Every keyword of the regenerated table lexes to its own token when followed by a byte that
cannot continue a word. -/
theorem lex_keyword (sflag : Bool) (kw tokname : String) (rest : Bytes)
    (hk : (kw, tokname) ∈ Gen.keywords) (hr : ∀ c, rest.head? = some c → isKwChar c = false) :
    lex1 false sflag false (kw.toUTF8.toList ++ rest) = { tok := .keyword tokname, rest := rest, errors := 0 } := by
  sorry

/-- How the grammar prints a string: `"` is written `\"`. -/
def escapeQuote (b : Bytes) : Bytes := b.flatMap fun c => if c == 34 then [92, 34] else [c]

/-- A printed string reads back as itself: for every non-empty byte string without NUL that does
not end in a backslash and fits the lexeme buffer. -/
theorem lex_string_roundtrip (pflag sflag : Bool) (b rest : Bytes)
    (hne : b ≠ []) (hnul : (0 : UInt8) ∉ b) (hlast : b.getLast? ≠ some 92) (hlen : b.length < BUFSIZ - 1) :
    lex1 pflag sflag false ([34] ++ escapeQuote b ++ [34] ++ rest) = { tok := .str b, rest := rest, errors := 0 } := by
  sorry

/-- A decimal literal below 2^32 reads back as its value; one at or above 2^32 is an error. -/
theorem lex_int (sflag : Bool) (n : Nat) (rest : Bytes) (hr : ∀ c, rest.head? = some c → isdigit c = false) :
    let r := lex1 false sflag false ((toString n).toUTF8.toList ++ rest)
    (n < 2 ^ 32 → r = { tok := .int n, rest := rest, errors := 0 }) ∧ (n ≥ 2 ^ 32 → r.errors ≥ 1 ∧ r.rest = rest) := by
  sorry

end Mdsort.Proofs
