import Mdsort.Model.Lex
import Mdsort.Proofs.LexAux

/-! Lemmas for C14: the lexer is total, makes progress, and reads back what the grammar prints. -/

namespace Mdsort.Proofs
open Mdsort Mdsort.Model

/-- Every call returns a suffix of its input, and a token other than end-of-input consumes at
least one byte: so the token stream of any file is finite (the LALR driver, which calls the lexer
once per shift, terminates on every byte string). -/
theorem lex_progress (pflag sflag afterMacro : Bool) (input : Bytes) :
    let r := lex1 pflag sflag afterMacro input
    (∃ pre, input = pre ++ r.rest) ∧ (r.tok ≠ .eof → r.rest.length < input.length) := by
  intro r
  have h := LexAux.lex1_good pflag sflag afterMacro input
  obtain ⟨pre, hpre⟩ := h.1
  exact ⟨⟨pre, hpre.symm⟩, h.2⟩

/-- Every keyword of the regenerated table lexes to its own token when followed by a byte that
cannot continue a word. -/
theorem lex_keyword (sflag : Bool) (kw tokname : String) (rest : Bytes)
    (hk : (kw, tokname) ∈ Gen.keywords) (hr : ∀ c, rest.head? = some c → isKwChar c = false) :
    lex1 false sflag false (kw.toUTF8.toList ++ rest) = { tok := .keyword tokname, rest := rest, errors := 0 } := by
  have hok := List.all_eq_true.mp LexAux.kw_table _ hk
  simp only [LexAux.kwOk, Bool.and_eq_true, decide_eq_true_eq, beq_iff_eq] at hok
  obtain ⟨⟨⟨hfind, hall⟩, hhead⟩, hlen⟩ := hok
  cases hbs : kw.toUTF8.toList with
  | nil => rw [hbs] at hhead; simp at hhead
  | cons c t =>
    rw [hbs] at hfind hall hhead hlen
    simp only at hhead
    rw [List.cons_append, LexAux.lex1_of_lower _ _ _ _ hhead]
    exact LexAux.lexTok_keyword sflag c t rest (kw, tokname) hhead hall hlen hfind hr

/-- How the grammar prints a string: `"` is written `\"`. -/
def escapeQuote (b : Bytes) : Bytes := b.flatMap fun c => if c == 34 then [92, 34] else [c]

theorem LexAux.escapeQuote_nil : escapeQuote [] = [] := rfl

theorem LexAux.escapeQuote_cons (x : UInt8) (b : Bytes) :
    escapeQuote (x :: b) = (if x == 34 then [92, 34] else [x]) ++ escapeQuote b := by
  simp [escapeQuote, List.flatMap_cons]

theorem LexAux.collect_escape (rest : Bytes) : ∀ (b acc : Bytes) (fuel : Nat),
    b.getLast? ≠ some 92 → acc.length + b.length ≤ BUFSIZ - 1 → (escapeQuote b).length < fuel →
    collect 34 fuel (escapeQuote b ++ 34 :: rest) acc = some (some (acc ++ b), rest) := by
  intro b
  induction b with
  | nil =>
    intro acc fuel _ _ hf
    cases fuel with
    | zero => simp at hf
    | succ f => simp [LexAux.escapeQuote_nil, collect]
  | cons x b' ih =>
    intro acc fuel hlast hlen hf
    have hacc : (acc.length == BUFSIZ - 1) = false := by
      simp only [List.length_cons] at hlen
      simp only [beq_eq_false_iff_ne]; omega
    have hlen' : (acc ++ [x]).length + b'.length ≤ BUFSIZ - 1 := by
      simp only [List.length_cons, List.length_append, List.length_nil] at hlen ⊢; omega
    have happ : acc ++ [x] ++ b' = acc ++ x :: b' := by simp
    cases fuel with
    | zero => simp at hf
    | succ f =>
      rw [LexAux.escapeQuote_cons] at hf ⊢
      by_cases h34 : x = 34
      · subst h34
        have hl' : b'.getLast? ≠ some 92 := by
          cases b' with
          | nil => simp
          | cons y b'' => rwa [List.getLast?_cons_cons] at hlast
        simp only [beq_self_eq_true, if_true, List.length_append, List.length_cons, List.length_nil] at hf
        have := ih (acc ++ [34]) f hl' hlen' (by omega)
        simp only [beq_self_eq_true, if_true, List.cons_append, List.nil_append]
        rw [collect]
        simp [hacc, this]
      · have hx : (x == 34) = false := by simp [h34]
        simp only [hx, Bool.false_eq_true, if_false, List.length_append, List.length_cons, List.length_nil] at hf
        simp only [hx, Bool.false_eq_true, if_false, List.cons_append, List.nil_append]
        by_cases h92 : x = 92
        · subst h92
          cases b' with
          | nil => simp at hlast
          | cons y b'' =>
            rw [List.getLast?_cons_cons] at hlast
            have := ih (acc ++ [92]) f hlast hlen' (by simp at hf ⊢; omega)
            rw [LexAux.escapeQuote_cons] at this ⊢
            by_cases hy : y = 34
            · subst hy
              simp only [beq_self_eq_true, if_true, List.cons_append, List.nil_append] at this ⊢
              rw [collect]
              simp [hacc, this]
            · have hy' : (y == 34) = false := by simp [hy]
              simp only [hy', Bool.false_eq_true, if_false, List.cons_append, List.nil_append] at this ⊢
              rw [collect]
              simp [hacc, this, hy]
        · have hx92 : (x == 92) = false := by simp [h92]
          have hl' : b'.getLast? ≠ some 92 := by
            cases b' with
            | nil => simp
            | cons y b'' => rwa [List.getLast?_cons_cons] at hlast
          have := ih (acc ++ [x]) f hl' hlen' (by simp at hf ⊢; omega)
          rw [collect.eq_def]
          simp [hx, hx92, hacc, this]

/-- A printed string reads back as itself: for every non-empty byte string without NUL that does
not end in a backslash and fits the lexeme buffer. -/
theorem lex_string_roundtrip (pflag sflag : Bool) (b rest : Bytes)
    (hne : b ≠ []) (hnul : (0 : UInt8) ∉ b) (hlast : b.getLast? ≠ some 92) (hlen : b.length < BUFSIZ - 1) :
    lex1 pflag sflag false ([34] ++ escapeQuote b ++ [34] ++ rest) = { tok := .str b, rest := rest, errors := 0 } := by
  have hc := LexAux.collect_escape rest b [] ((escapeQuote b ++ 34 :: rest).length + 1) hlast
    (by simp only [List.length_nil]; omega) (by simp only [List.length_append]; omega)
  have hin : [34] ++ escapeQuote b ++ [34] ++ rest = 34 :: (escapeQuote b ++ 34 :: rest) := by simp
  have hcs : cstr b = b := cstr_of_no_nul (fun x hx h0 => hnul (h0 ▸ hx))
  have hemp : b.isEmpty = false := by cases b <;> simp_all
  rw [hin]
  have h1 : lex1 pflag sflag false (34 :: (escapeQuote b ++ 34 :: rest))
      = lex1.lexTok pflag sflag 34 (escapeQuote b ++ 34 :: rest) 0 := by
    have : isspace 34 = false := by decide
    simp [lex1, this]
  rw [h1]
  unfold lex1.lexTok
  simp only [beq_self_eq_true, if_true, hc, List.nil_append, hcs, hemp]
  simp

/-- A decimal literal below 2^32 reads back as its value; one at or above 2^32 is an error. -/
theorem lex_int (sflag : Bool) (n : Nat) (rest : Bytes) (hr : ∀ c, rest.head? = some c → isdigit c = false) :
    let r := lex1 false sflag false ((toString n).toUTF8.toList ++ rest)
    (n < 2 ^ 32 → r = { tok := .int n, rest := rest, errors := 0 }) ∧ (n ≥ 2 ^ 32 → r.errors ≥ 1 ∧ r.rest = rest) := by
  obtain ⟨ds, hbytes, hne, hdig, hval⟩ := LexAux.toString_bytes n
  cases ds with
  | nil => exact absurd rfl hne
  | cons c t =>
    have hc : isdigit c = true := hdig c (by simp)
    have hspec := LexAux.lexDigits_spec rest hr (c :: t) ((t ++ rest).length + 2) 0 0 hdig
      (by simp only [List.length_cons, List.length_append]; omega) (by decide)
    rw [hval, List.cons_append] at hspec
    obtain ⟨h1, h2, h3⟩ := hspec
    simp only [hbytes, List.cons_append, LexAux.lex1_of_digit _ _ _ hc]
    refine ⟨fun hn => ?_, fun hn => ⟨?_, h1⟩⟩
    · rw [h2 hn, Nat.zero_add]
    · rw [h3 hn]; omega

end Mdsort.Proofs
