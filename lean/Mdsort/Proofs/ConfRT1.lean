import Mdsort.Proofs.ConfLexRT
import Mdsort.Proofs.ConfWpl

/-!
# Reading back what `Spec.printBlocks` writes, part 1: the token stream and the small parsers

`Up cx tl s ts`: the tokens the parser will see from state `s` are exactly `ts` (written by `Spec.render`),
the first of them possibly read already as the lookahead, and what follows them is the text `tl` - ANY
bytes, empty or starting with a blank (the end of the file when `tl = []`, a defect when the lemmas are used
to reach a position in a file that is then rejected, Proofs/ConfAnywhere*.lean).  The written tokens hold no
newline, `cx.nl` is the number of newlines of `tl`: every line number computed while the parser is in the
written part is 1.  `RT cx tl p v ts0`: from any state whose upcoming tokens are `ts0 ++ ts`, `p` returns `v`
and leaves `ts` - unless the recursion budget runs out first (which the totality theorem excludes for
`parseConfig`).  The lemmas are stated for an arbitrary postcondition `NoErr` of the error outcome: no
diagnostic is reported while the parser reads written tokens.
-/

namespace Mdsort.Proofs.Conf
open Mdsort Mdsort.Model Mdsort.Spec

/-- The parser state sits in front of the written tokens `ts` followed by the text `tl`, with lookahead `la`. -/
structure Strm (cx : PCtx) (tl : Bytes) (s : ParseSt) (la : Option PTok) (ts : List PTok) : Prop where
  la_eq : s.la = la.map tkOf
  rest_eq : s.rest = Spec.render ts ++ tl
  am : s.afterMacro = false
  mac : s.macros = []
  ok : ∀ t ∈ ts, lexOK t = true
  tl_head : ∀ c, tl.head? = some c → c = 32
  nl_eq : cx.nl = countNl tl
  tokl : s.tokLine = 1

/-- The upcoming tokens are `ts`, then comes `tl`. -/
def Up (cx : PCtx) (tl : Bytes) (s : ParseSt) (ts : List PTok) : Prop :=
  Strm cx tl s none ts ∨ ∃ t ts', ts = t :: ts' ∧ lexOK t = true ∧ Strm cx tl s (some t) ts'

variable {cx : PCtx} {tl : Bytes}

theorem Strm.up_none {s : ParseSt} {ts : List PTok} (h : Strm cx tl s none ts) : Up cx tl s ts := Or.inl h
theorem Strm.up_some {s : ParseSt} {t : PTok} {ts : List PTok} (h : Strm cx tl s (some t) ts) (ht : lexOK t = true) :
    Up cx tl s (t :: ts) := Or.inr ⟨t, ts, rfl, ht, h⟩

theorem Up.ok {s : ParseSt} {ts : List PTok} (h : Up cx tl s ts) : ∀ t ∈ ts, lexOK t = true := by
  rcases h with h | ⟨t, ts', rfl, ht, h⟩
  · exact h.ok
  · intro x hx
    simp only [List.mem_cons] at hx
    rcases hx with rfl | hx
    · exact ht
    · exact h.ok x hx

theorem Up.tokl {s : ParseSt} {ts : List PTok} (h : Up cx tl s ts) : s.tokLine = 1 := by
  rcases h with h | ⟨_, _, _, _, h⟩ <;> exact h.tokl

theorem Up.mac {s : ParseSt} {ts : List PTok} (h : Up cx tl s ts) : s.macros = [] := by
  rcases h with h | ⟨_, _, _, _, h⟩ <;> exact h.mac

theorem Up.tl_head {s : ParseSt} {ts : List PTok} (h : Up cx tl s ts) : ∀ c, tl.head? = some c → c = 32 := by
  rcases h with h | ⟨_, _, _, _, h⟩ <;> exact h.tl_head

theorem Up.nl_eq {s : ParseSt} {ts : List PTok} (h : Up cx tl s ts) : cx.nl = countNl tl := by
  rcases h with h | ⟨_, _, _, _, h⟩ <;> exact h.nl_eq

variable {NoErr : Nat → ParseSt → Prop}

variable {α : Type} {Q : α → ParseSt → Prop}

/-! The written text has no newline: every node is on line 1. -/

theorem kwText_noNl (k : Kw) : countNl (kwText k).toUTF8.toList = 0 := by
  cases k <;> decide +kernel

theorem count_quote (b : Bytes) (h : (10 : UInt8) ∉ b) : countNl (quote b) = 0 := by
  simp only [countNl, List.count_eq_zero, quote, List.mem_flatMap, not_exists, not_and]
  intro c hc hmem
  split at hmem
  · simp at hmem
  · simp only [List.mem_singleton] at hmem
    subst hmem
    exact h hc

theorem count_digits (n : Nat) : countNl (toString n).toUTF8.toList = 0 := by
  obtain ⟨ds, hbytes, _, hdig, _⟩ := LexAux.toString_bytes n
  rw [hbytes]
  simp only [countNl, List.count_eq_zero]
  intro h
  have := hdig 10 h
  revert this; decide

theorem tok_noNl (t : PTok) (h : lexOK t = true) : countNl t.bytes = 0 := by
  cases t with
  | kw k => exact kwText_noNl k
  | str b =>
    have := (strLexOK_facts (by simpa [lexOK] using h)).2.2.1
    have hq := count_quote b this
    simp only [countNl] at hq ⊢
    simp [PTok.bytes, List.count_append, hq]
  | int n => exact count_digits n
  | seconds => decide
  | pat p =>
    simp only [lexOK, tokOK, patOK, Bool.and_eq_true, List.all_eq_true, bne_iff_ne, ne_eq] at h
    have hs : List.count 10 p.src = 0 := by
      rw [List.count_eq_zero]
      intro hm
      exact (h.1.1 10 hm).1.1.2 rfl
    simp only [countNl, PTok.bytes, List.count_append, hs]
    cases p.icase <;> cases p.lcase <;> cases p.ucase <;> decide
  | _ => decide

theorem render_noNl (ts : List PTok) (h : ∀ t ∈ ts, lexOK t = true) : countNl (Spec.render ts) = 0 := by
  induction ts with
  | nil => rfl
  | cons t ts ih =>
    rw [render_cons]
    have h1 := tok_noNl t (h t (by simp))
    have h2 := ih (fun x hx => h x (by simp [hx]))
    simp only [countNl] at h1 h2 ⊢
    simp [List.count_cons, List.count_append, h1, h2]

theorem countNl_append (a b : Bytes) : countNl (a ++ b) = countNl a + countNl b := by
  simp [countNl, List.count_append]

/-- In front of written tokens the lexer stands on line 1. -/
theorem lineOf_written (ts : List PTok) (h : ∀ t ∈ ts, lexOK t = true) (hnl : cx.nl = countNl tl) :
    lineOf cx.nl (Spec.render ts ++ tl) = 1 := by
  rw [lineOf, countNl_append, render_noNl ts h, hnl]; omega

/-- What follows a written token is empty or starts with a blank. -/
theorem render_tl_head (ts : List PTok) (htl : ∀ c, tl.head? = some c → c = 32) :
    ∀ c, (Spec.render ts ++ tl).head? = some c → c = 32 := by
  intro c h
  cases ts with
  | nil => rw [render_nil, List.nil_append] at h; exact htl c h
  | cons t ts => rw [render_cons] at h; simpa using h.symm

/-- `peek` in front of a written token. -/
theorem wpl_peek_up (cx : PCtx) (pf sf : Bool) {Q : Tk → ParseSt → Prop} {s : ParseSt} {t : PTok} {ts : List PTok}
    (h : Up cx tl s (t :: ts)) (hm : modeOK pf sf t = true)
    (hQ : ∀ s', Strm cx tl s' (some t) ts → Q (tkOf t) s') : wpl (peek cx pf sf) Q NoErr True s := by
  have htok : lexOK t = true := h.ok t (by simp)
  rcases h with h | ⟨t', ts', heq, _, h⟩
  · unfold wpl peek
    have hla : s.la = none := h.la_eq
    simp only [hla]
    obtain ⟨tok, hlex, htk, hmac⟩ := lex_tok_tl t (Spec.render ts ++ tl) pf sf htok hm (render_tl_head ts h.tl_head)
    have hrest : s.rest = 32 :: (t.bytes ++ (Spec.render ts ++ tl)) := by
      rw [h.rest_eq, render_cons]; simp
    rw [h.am, hrest, hlex]
    simp only [Nat.lt_irrefl, if_false, gt_iff_lt]
    rw [htk]
    have hline : tokLineOf cx.nl (32 :: (t.bytes ++ (Spec.render ts ++ tl))) = 1 := by
      obtain ⟨c, r, hb, h1, h2⟩ := tok_first t htok
      have h3 : countNl (t.bytes ++ (Spec.render ts ++ tl)) = countNl tl := by
        rw [countNl_append, countNl_append, tok_noNl t htok, render_noNl ts (fun x hx => h.ok x (by simp [hx]))]; omega
      rw [hb, List.cons_append, tokLineOf_blank _ _ _ h1 h2, ← List.cons_append, ← hb, lineOf, h3, h.nl_eq]; omega
    refine hQ _ ⟨by simp, rfl, hmac, h.mac, fun x hx => h.ok x (by simp [hx]), h.tl_head, h.nl_eq, hline⟩
  · cases heq
    unfold wpl peek
    have hla : s.la = some (tkOf t) := h.la_eq
    simp only [hla]
    exact hQ s h

/-- `peek` at the end of the written text, when nothing follows. -/
theorem wpl_peek_end (cx : PCtx) (pf sf : Bool) {Q : Tk → ParseSt → Prop} {s : ParseSt}
    (h : Up cx [] s []) (hQ : ∀ s', s'.macros = [] → Q .eof s') : wpl (peek cx pf sf) Q NoErr True s := by
  rcases h with h | ⟨t', ts', heq, _, h⟩
  · unfold wpl peek
    have hla : s.la = none := h.la_eq
    simp only [hla]
    rw [h.am, h.rest_eq, render_nil, List.append_nil, lex1_nil]
    simp only [Nat.lt_irrefl, if_false, gt_iff_lt]
    exact hQ _ h.mac
  · cases heq

theorem wpl_shift_up {Q : Unit → ParseSt → Prop} {s : ParseSt} {t : PTok} {ts : List PTok}
    (h : Strm cx tl s (some t) ts) (hQ : ∀ s', Up cx tl s' ts → Q () s') : wpl shift Q NoErr True s := by
  have hsh : shift s = PRes.ok () { s with la := none } := by
    unfold shift
    have hla : s.la = some (tkOf t) := h.la_eq
    simp only [hla]
    cases t <;> rfl
  unfold wpl
  rw [hsh]
  exact hQ _ (Or.inl ⟨rfl, h.rest_eq, h.am, h.mac, h.ok, h.tl_head, h.nl_eq, h.tokl⟩)

theorem wpl_curLine_strm (cx : PCtx) (hnl : cx.nl = countNl tl) {Q : Nat → ParseSt → Prop} {s : ParseSt} {la : Option PTok}
    {ts : List PTok} (h : Strm cx tl s la ts) (hQ : Q 1 s) : wpl (curLine cx) Q NoErr True s := by
  rw [wpl_curLine]
  have : lineOf cx.nl s.rest = 1 := by
    rw [h.rest_eq]; exact lineOf_written ts h.ok hnl
  rw [this]
  exact hQ

theorem wpl_curLine_up (cx : PCtx) (hnl : cx.nl = countNl tl) {Q : Nat → ParseSt → Prop} {s : ParseSt} {ts : List PTok}
    (h : Up cx tl s ts) (hQ : Q 1 s) : wpl (curLine cx) Q NoErr True s := by
  rcases h with h | ⟨t, ts', _, _, h⟩
  · exact wpl_curLine_strm cx hnl h hQ
  · exact wpl_curLine_strm cx hnl h hQ

/-! Strings without `$` and `~` expand to themselves. -/

theorem expandMacros_plain (action : Bool) : ∀ (b acc : Bytes) (fuel : Nat), (36 : UInt8) ∉ b → b.length < fuel →
    expandMacros action fuel b [] acc = some (acc ++ b, []) := by
  intro b
  induction b with
  | nil =>
    intro acc fuel _ hf
    cases fuel with
    | zero => simp at hf
    | succ f => simp [expandMacros]
  | cons c b ih =>
    intro acc fuel hb hf
    cases fuel with
    | zero => simp at hf
    | succ f =>
      have hc : c ≠ 36 := fun e => hb (by simp [e])
      have him : ismacro (c :: b) = none := by
        unfold ismacro
        split
        · rename_i heq; simp only [List.cons.injEq] at heq; exact absurd heq.1 hc
        · rfl
      simp only [expandMacros, him]
      rw [ih (acc ++ [c]) f (fun e => hb (by simp [e])) (by simp only [List.length_cons] at hf; omega)]
      simp

theorem expandStr_plain (l : Lim) (home : Bytes) (action : Bool) (b : Bytes) (h : strOK b = true) :
    expandStr l home action [] b = some (b, []) := by
  obtain ⟨_, _, _, h36, htilde, _, _⟩ := strOK_facts h
  have ht : expandTildeL l home b = some b := by
    unfold expandTildeL
    split
    · simp at htilde
    · rfl
  simp only [expandStr, ht]
  rw [expandMacros_plain action b [] (b.length + 1) h36 (by omega)]
  simp

theorem expandStrs_plain (lm : Lim) (home : Bytes) (action : Bool) : ∀ (l : List Bytes), (∀ b ∈ l, strOK b = true) →
    expandStrs lm home action [] l = some (l, []) := by
  intro l
  induction l with
  | nil => intro _; rfl
  | cons b l ih =>
    intro h
    simp only [expandStrs, expandStr_plain lm home action b (h b (by simp)), ih (fun x hx => h x (by simp [hx]))]

theorem state_macros_nil (s : ParseSt) (h : s.macros = []) : { s with macros := [] } = s := by
  cases s; simp_all

theorem wpl_expandOne_up (cx : PCtx) (action : Bool) (b : Bytes) (hb : strOK b = true) {Q : Bytes → ParseSt → Prop}
    {s : ParseSt} {ts : List PTok} (h : Up cx tl s ts) (hQ : Q b s) : wpl (expandOne cx action b) Q NoErr True s := by
  have hm : s.macros = [] := by
    rcases h with h | ⟨_, _, _, _, h⟩ <;> exact h.mac
  unfold wpl expandOne
  rw [hm, expandStr_plain cx.pathMax cx.home action b hb]
  simp only
  rw [← hm, show ({ s with macros := s.macros } : ParseSt) = s from by cases s; rfl]
  exact hQ

theorem wpl_expandAll_up (cx : PCtx) (action : Bool) (l : List Bytes) (hl : ∀ b ∈ l, strOK b = true)
    {Q : List Bytes → ParseSt → Prop} {s : ParseSt} {ts : List PTok} (h : Up cx tl s ts) (hQ : Q l s) :
    wpl (expandAll cx action l) Q NoErr True s := by
  have hm : s.macros = [] := by
    rcases h with h | ⟨_, _, _, _, h⟩ <;> exact h.mac
  unfold wpl expandAll
  rw [hm, expandStrs_plain cx.pathMax cx.home action l hl]
  simp only
  rw [← hm, show ({ s with macros := s.macros } : ParseSt) = s from by cases s; rfl]
  exact hQ

theorem wpl_expandMac_up (action : Bool) (b : Bytes) (hb : strOK b = true) {Q : Bytes → ParseSt → Prop}
    {s : ParseSt} {ts : List PTok} (h : Up cx tl s ts) (hQ : Q b s) : wpl (expandMac action b) Q NoErr True s := by
  have hm : s.macros = [] := by
    rcases h with h | ⟨_, _, _, _, h⟩ <;> exact h.mac
  obtain ⟨_, _, _, h36, _, _, _⟩ := strOK_facts hb
  unfold wpl expandMac
  rw [hm, expandMacros_plain action b [] (b.length + 1) h36 (by omega)]
  simp only [List.nil_append]
  rw [← hm, show ({ s with macros := s.macros } : ParseSt) = s from by cases s; rfl]
  exact hQ

/-! ## Small parsers -/

/-- No diagnostic. -/
abbrev NoE : Nat → ParseSt → Prop := fun _ _ => False

/-- `p` reads the tokens `ts0` and returns `v`. -/
def RT (cx : PCtx) (tl : Bytes) {α : Type} (p : PM α) (v : α) (ts0 : List PTok) : Prop :=
  ∀ (s : ParseSt) (ts : List PTok), Up cx tl s (ts0 ++ ts) →
    wpl p (fun a s' => a = v ∧ Up cx tl s' ts) NoE True s

/-- Use a read-back lemma inside a `wpl` goal. -/
theorem wpl_of_rt {α : Type} {p : PM α} {v : α} {ts0 ts : List PTok} {Q : α → ParseSt → Prop} {s : ParseSt}
    (h : RT cx tl p v ts0) (hs : Up cx tl s (ts0 ++ ts)) (hQ : ∀ s', Up cx tl s' ts → Q v s') : wpl p Q NoErr True s :=
  wpl_mono (h s ts hs) (fun a s' ⟨ha, hu⟩ => ha ▸ hQ s' hu) (fun _ _ h => h.elim)

theorem expectTk_rt (cx : PCtx) (t : PTok) (hm : modeOK false false t = true) : RT cx tl (expectTk cx (tkOf t)) () [t] := by
  intro s ts hs
  unfold expectTk
  simp only [wpl_bind]
  apply wpl_peek_up cx _ _ hs hm
  intro s1 h1
  simp only [wpl_ite, if_true]
  exact wpl_shift_up h1 (fun s2 h2 => ⟨by first | trivial | rfl, h2⟩)

theorem parseStr_rt (cx : PCtx) (b : Bytes) : RT cx tl (parseStr cx) b [.str b] := by
  intro s ts hs
  unfold parseStr
  simp only [wpl_bind]
  apply wpl_peek_up cx _ _ hs rfl
  intro s1 h1
  simp only [tkOf, wpl_bind, wpl_pure]
  exact wpl_shift_up h1 (fun s2 h2 => ⟨by first | trivial | rfl, h2⟩)

theorem parseStringBlock_rt (cx : PCtx) : ∀ (l acc : List Bytes) (fuel : Nat),
    RT cx tl (parseStringBlock cx fuel acc) (acc ++ l) (l.map .str ++ [.rbrace]) := by
  intro l
  induction l with
  | nil =>
    intro acc fuel s ts hs
    cases fuel with
    | zero => simp [parseStringBlock, wpl, outOfFuel]
    | succ fuel =>
      unfold parseStringBlock
      simp only [wpl_bind]
      apply wpl_peek_up cx _ _ hs rfl
      intro s1 h1
      simp only [tkOf, wpl_bind, wpl_pure]
      exact wpl_shift_up h1 (fun s2 h2 => ⟨by simp, h2⟩)
  | cons b l ih =>
    intro acc fuel s ts hs
    cases fuel with
    | zero => simp [parseStringBlock, wpl, outOfFuel]
    | succ fuel =>
      unfold parseStringBlock
      simp only [wpl_bind]
      apply wpl_peek_up cx _ _ hs rfl
      intro s1 h1
      simp only [tkOf, wpl_bind]
      apply wpl_shift_up h1
      intro s2 h2
      exact wpl_of_rt (ih (acc ++ [b]) fuel) h2 (fun s3 h3 => ⟨by simp, h3⟩)

theorem parseStrings_rt (cx : PCtx) (l : List Bytes) (fuel : Nat) : RT cx tl (parseStrings cx fuel) l (strsToks l) := by
  intro s ts hs
  unfold parseStrings
  simp only [wpl_bind]
  simp only [strsToks, List.append_assoc, List.cons_append, List.nil_append] at hs
  apply wpl_peek_up cx _ _ hs rfl
  intro s1 h1
  simp only [tkOf, wpl_bind]
  apply wpl_shift_up h1
  intro s2 h2
  have := parseStringBlock_rt (tl := tl) cx l [] fuel
  refine wpl_of_rt this (by simpa using h2) (fun s3 h3 => ⟨by simp, h3⟩)

theorem parsePattern_rt (cx : PCtx) (p : Pat) : RT cx tl (parsePattern cx) p [.pat p] := by
  intro s ts hs
  unfold parsePattern
  simp only [wpl_bind]
  apply wpl_peek_up cx _ _ hs rfl
  intro s1 h1
  simp only [tkOf, wpl_bind, wpl_pure]
  exact wpl_shift_up h1 (fun s2 h2 => ⟨by first | trivial | rfl, h2⟩)

end Mdsort.Proofs.Conf
