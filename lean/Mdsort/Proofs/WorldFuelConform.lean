import Mdsort.Proofs.WorldFuel

/-!
# Along an observed trace the fuel suffices as soon as it exceeds the length of the trace

Every iteration of a `readdir` loop of the model issues a call, and `Model.conform` consumes one element of the observed
trace per call: a loop with more fuel than the trace is long cannot stop for lack of fuel - the conformance walk ends
(`done`) only where the program ends by itself, or it reports a divergence.  So with `env.extraFuel ≥ |trace|` the flag
`fuelOut` is never set in a `done` answer: the conformance check compares the real run with the UNBOUNDED loops.
-/

namespace Mdsort.Proofs.Fuel
open Mdsort Mdsort.Model Mdsort.Proofs
open Mdsort.Proofs.World (bind_eq pure_eq ret_bind call_bind' call_bind bind_assoc Calls All)

/-- What is left of the trace is not longer than the trace. -/
theorem conform_rest_le {α} (p : Prog α) (w : World) (tr : List (Call × Res)) (pos : Nat)
    {a : α} {w' : World} {rest : List (Call × Res)} (h : conform p w tr pos = .done a w' rest) : rest.length ≤ tr.length := by
  induction p generalizing w tr pos with
  | ret b =>
    simp only [conform] at h
    cases h
    exact Nat.le_refl _
  | call c k ih =>
    cases tr with
    | nil => simp only [conform] at h; cases h
    | cons x tr1 =>
      obtain ⟨c', r⟩ := x
      simp only [conform] at h
      by_cases hsame : (!c.same c') = true
      · rw [if_pos hsame] at h; cases h
      · rw [if_neg hsame] at h
        cases hw1 : applyOk w c r with
        | none => rw [hw1] at h; cases h
        | some w1 =>
          rw [hw1] at h
          have := ih _ _ _ _ h
          simp only [List.length_cons]
          omega

/-- Sequencing: a `done` of `p >>= f` is a `done` of `p` followed by a `done` of the continuation on the rest. -/
theorem conform_bind_done {α β} (p : Prog α) (f : α → Prog β) (w : World) (tr : List (Call × Res)) (pos : Nat)
    {b : β} {w2 : World} {rest2 : List (Call × Res)} (h : conform (p.bind f) w tr pos = .done b w2 rest2) :
    ∃ a w1 rest1 pos1, conform p w tr pos = .done a w1 rest1 ∧ conform (f a) w1 rest1 pos1 = .done b w2 rest2 := by
  induction p generalizing w tr pos with
  | ret a => exact ⟨a, w, tr, pos, rfl, h⟩
  | call c k ih =>
    cases tr with
    | nil => simp only [Prog.bind, conform] at h; cases h
    | cons x tr1 =>
      obtain ⟨c', r⟩ := x
      simp only [Prog.bind, conform] at h ⊢
      by_cases hsame : (!c.same c') = true
      · rw [if_pos hsame] at h; cases h
      · rw [if_neg hsame] at h ⊢
        cases hw1 : applyOk w c r with
        | none => rw [hw1] at h; cases h
        | some w1 =>
          rw [hw1] at h
          exact ih _ _ _ _ h

/-- A `done` of `call c k` consumed one element of the trace. -/
theorem conform_call_done {α} (c : Call) (k : Res → Prog α) (w : World) (tr : List (Call × Res)) (pos : Nat)
    {a : α} {w' : World} {rest : List (Call × Res)} (h : conform (.call c k) w tr pos = .done a w' rest) :
    ∃ c' r tr1 w1, tr = (c', r) :: tr1 ∧ conform (k r) w1 tr1 (pos + 1) = .done a w' rest := by
  cases tr with
  | nil => simp only [conform] at h; cases h
  | cons x tr1 =>
    obtain ⟨c', r⟩ := x
    simp only [conform] at h
    by_cases hsame : (!c.same c') = true
    · rw [if_pos hsame] at h; cases h
    · rw [if_neg hsame] at h
      cases hw1 : applyOk w c r with
      | none => rw [hw1] at h; cases h
      | some w1 =>
        rw [hw1] at h
        exact ⟨c', r, tr1, _, rfl, h⟩

/-- The walk: with more fuel than the trace is long, a `done` walk has not run out of fuel. -/
theorem conform_walk_fuel (env : PEnv) (orc : EvalOracles) (expr : Expr) (fuel : Nat) :
    ∀ (md : Maildir) (st : MainSt) (w : World) (tr : List (Call × Res)) (pos : Nat) (r : MainSt × Maildir) (w' : World)
      (rest : List (Call × Res)), conform (walk env orc expr fuel md st) w tr pos = .done r w' rest → tr.length < fuel →
      r.1.fuelOut = st.fuelOut := by
  induction fuel with
  | zero => intro _ _ _ tr _ _ _ _ _ hlt; exact absurd hlt (Nat.not_lt_zero _)
  | succ n ih =>
    intro md st w tr pos r w' rest h hlt
    rw [Own.walk_succ] at h
    cases hd : md.dirH with
    | none =>
      rw [hd] at h
      simp only [conform] at h
      cases h
      rfl
    | some d =>
      rw [hd] at h
      dsimp only at h
      obtain ⟨c', rr, tr1, w1, rfl, h1⟩ := conform_call_done _ _ _ _ _ h
      have hlt1 : tr1.length < n := by simp only [List.length_cons] at hlt; omega
      unfold Own.walkK at h1
      cases rr with
      | name x =>
        dsimp only at h1
        split at h1
        · exact ih _ _ _ _ _ _ _ _ h1 hlt1
        · obtain ⟨a, w2, rest1, pos1, hp, hk⟩ := conform_bind_done _ _ _ _ _ h1
          have hle := conform_rest_le _ _ _ _ hp
          have h2 := ih _ _ _ _ _ _ _ _ hk (by omega)
          have h3 := all_conform (processMessage_fuelOut env orc expr md x st) _ _ _ hp
          exact h2.trans h3
      | eof =>
        dsimp only at h1
        split at h1
        · simp only [conform] at h1; cases h1; rfl
        · split at h1
          · simp only [conform] at h1; cases h1; rfl
          · split at h1
            · simp only [conform] at h1; cases h1; rfl
            · obtain ⟨a, w2, rest1, pos1, hp, hk⟩ := conform_bind_done _ _ _ _ _ h1
              have hle := conform_rest_le _ _ _ _ hp
              split at hk
              · simp only [conform] at hk; cases hk; rfl
              · exact ih _ _ _ _ _ _ _ _ hk (by omega)
      | ok v => simp only [conform] at h1; cases h1; rfl
      | err e => simp only [conform] at h1; cases h1; rfl

theorem conform_closeLoop_fuel (d : Handle) (fuel : Nat) :
    ∀ (w : World) (tr : List (Call × Res)) (pos : Nat) (fo : Bool) (w' : World) (rest : List (Call × Res)),
      conform (closeStdin.loop d fuel) w tr pos = .done fo w' rest → tr.length < fuel → fo = false := by
  induction fuel with
  | zero => intro _ tr _ _ _ _ _ hlt; exact absurd hlt (Nat.not_lt_zero _)
  | succ n ih =>
    intro w tr pos fo w' rest h hlt
    unfold closeStdin.loop at h
    simp only [bind_eq, pure_eq, call_bind] at h
    obtain ⟨c', rr, tr1, w1, rfl, h1⟩ := conform_call_done _ _ _ _ _ h
    have hlt1 : tr1.length < n := by simp only [List.length_cons] at hlt; omega
    split at h1
    · split at h1
      · exact ih _ _ _ _ _ _ h1 hlt1
      · obtain ⟨c'', r2, tr2, w2, rfl, h2⟩ := conform_call_done _ _ _ _ _ h1
        exact ih _ _ _ _ _ _ h2 (by simp only [List.length_cons] at hlt1; omega)
    · simp only [conform] at h1; cases h1; rfl

theorem conform_closeStdin_fuel (fuel : Nat) (md : Maildir) (w : World) (tr : List (Call × Res)) (pos : Nat) (fo : Bool) (w' : World)
    (rest : List (Call × Res)) (h : conform (closeStdin fuel md) w tr pos = .done fo w' rest) (hlt : tr.length < fuel) :
    fo = false := by
  unfold closeStdin at h
  simp only [bind_eq, pure_eq] at h
  obtain ⟨a, w1, rest1, pos1, hp, hk⟩ := conform_bind_done _ _ _ _ _ h
  have ha : a = false := by
    cases hdh : md.dirH with
    | some d =>
      rw [hdh] at hp
      simp only [call_bind] at hp
      obtain ⟨c', rr, tr1, w2, rfl, h1⟩ := conform_call_done _ _ _ _ _ hp
      exact conform_closeLoop_fuel _ _ _ _ _ _ _ _ h1 (by simp only [List.length_cons] at hlt; omega)
    | none =>
      rw [hdh] at hp
      simp only [conform] at hp; cases hp; rfl
  subst ha
  have hall : All (fun b : Bool => b = false)
      ((call (.rmdir md.path)).bind fun _ => (call (.rmdir md.root)).bind fun _ =>
        match md.dirH with
        | some d => (call (.closedir d)).bind fun _ => Prog.ret false
        | none => Prog.ret false) := by
    simp only [call_bind]
    intro _ _
    split
    · intro _; exact rfl
    · exact rfl
  exact all_conform hall _ _ _ hk

theorem spooledSt_fuelOut (st : MainSt) (md : Maildir) (input : Bytes) (o : Option Bytes) :
    (spooledSt st md input o).fuelOut = st.fuelOut := by
  cases o <;> rfl

theorem conform_paths_fuel (env : PEnv) (orc : EvalOracles) (input : Bytes) (b : ConfBlock) (ps : List Bytes) :
    ∀ (st : MainSt) (w : World) (tr : List (Call × Res)) (pos : Nat) (st' : MainSt) (w' : World) (rest : List (Call × Res)),
      conform (mainP.blocks.paths env orc input b ps st) w tr pos = .done st' w' rest → tr.length ≤ env.extraFuel →
      st'.fuelOut = st.fuelOut := by
  induction ps with
  | nil =>
    intro st w tr pos st' w' rest h _
    rw [Own.paths_nil] at h
    simp only [conform] at h
    cases h
    rfl
  | cons p more ih =>
    intro st w tr pos st' w' rest h hlen
    rw [Own.paths_cons] at h
    split at h
    · exact ih _ _ _ _ _ _ _ h hlen
    · split at h
      · obtain ⟨x, w1, rest1, pos1, hp1, hk1⟩ := conform_bind_done _ _ _ _ _ h
        have hle1 := conform_rest_le _ _ _ _ hp1
        split at hk1
        · obtain ⟨fo, w2, rest2, pos2, hp2, hk2⟩ := conform_bind_done _ _ _ _ _ hk1
          have hle2 := conform_rest_le _ _ _ _ hp2
          have hfo := conform_closeStdin_fuel _ _ _ _ _ _ _ _ hp2 (by simp only [stdinFuel]; omega)
          subst hfo
          have := ih _ _ _ _ _ _ _ hk2 (by omega)
          simpa [orFuel] using this
        · obtain ⟨y, w2, rest2, pos2, hp2, hk2⟩ := conform_bind_done _ _ _ _ _ hk1
          have hle2 := conform_rest_le _ _ _ _ hp2
          have hy := conform_walk_fuel _ _ _ _ _ _ _ _ _ _ _ _ hp2 (by simp only [stdinFuel]; omega)
          obtain ⟨fo, w3, rest3, pos3, hp3, hk3⟩ := conform_bind_done _ _ _ _ _ hk2
          have hle3 := conform_rest_le _ _ _ _ hp3
          have hfo := conform_closeStdin_fuel _ _ _ _ _ _ _ _ hp3 (by simp only [stdinFuel]; omega)
          subst hfo
          have := ih _ _ _ _ _ _ _ hk3 (by omega)
          rw [this]
          simp only [orFuel, Bool.or_false]
          rw [hy, spooledSt_fuelOut]
      · split at h
        · rename_i root np _ _
          obtain ⟨x, w1, rest1, pos1, hp1, hk1⟩ := conform_bind_done _ _ _ _ _ h
          have hle1 := conform_rest_le _ _ _ _ hp1
          split at hk1
          · exact ih { st with error := true } _ _ _ _ _ _ hk1 (by omega)
          · obtain ⟨y, w2, rest2, pos2, hp2, hk2⟩ := conform_bind_done _ _ _ _ _ hk1
            have hle2 := conform_rest_le _ _ _ _ hp2
            have hy := conform_walk_fuel _ _ _ _ _ _ _ _ _ _ _ _ hp2 (by simp only [walkFuel]; omega)
            obtain ⟨u, w3, rest3, pos3, hp3, hk3⟩ := conform_bind_done _ _ _ _ _ hk2
            have hle3 := conform_rest_le _ _ _ _ hp3
            have := ih _ _ _ _ _ _ _ hk3 (by omega)
            exact this.trans hy
        · exact ih { st with error := true } _ _ _ _ _ _ h hlen

theorem conform_blocks_fuel (env : PEnv) (orc : EvalOracles) (input : Bytes) (bs : List ConfBlock) :
    ∀ (st : MainSt) (w : World) (tr : List (Call × Res)) (pos : Nat) (st' : MainSt) (w' : World) (rest : List (Call × Res)),
      conform (mainP.blocks env orc input bs st) w tr pos = .done st' w' rest → tr.length ≤ env.extraFuel →
      st'.fuelOut = st.fuelOut := by
  induction bs with
  | nil =>
    intro st w tr pos st' w' rest h _
    rw [Own.blocks_nil] at h
    simp only [conform] at h
    cases h
    rfl
  | cons b rest' ih =>
    intro st w tr pos st' w' rest h hlen
    rw [Own.blocks_cons] at h
    obtain ⟨x, w1, rest1, pos1, hp1, hk1⟩ := conform_bind_done _ _ _ _ _ h
    have hle1 := conform_rest_le _ _ _ _ hp1
    have h1 := conform_paths_fuel env orc input b b.paths _ _ _ _ _ _ _ hp1 hlen
    have h2 := ih _ _ _ _ _ _ _ hk1 (by omega)
    exact h2.trans h1

/-- **Along an observed trace, fuel above the length of the trace suffices**: if `env.extraFuel` is at least the
length of the trace and the conformance walk of `mainP` ends (`done`), the final state does not have `fuelOut` - no
`readdir` loop of the model stopped for lack of fuel.  (Whatever the trace is: results possible in the abstract file
system or not, a real run or an invented one.) -/
theorem fuel_suffices_conform (env : PEnv) (orc : EvalOracles) (confOk : Bool) (conf : List ConfBlock) (files : Files)
    (input : Bytes) (w : World) (tr : List (Call × Res)) (hlen : tr.length ≤ env.extraFuel)
    {a : Nat × MainSt} {w' : World} {rest : List (Call × Res)}
    (hd : conform (mainP env orc confOk conf files input) w tr 0 = .done a w' rest) : a.2.fuelOut = false := by
  rw [Own.mainP_eq] at hd
  obtain ⟨c', r, tr1, w1, rfl, h1⟩ := conform_call_done _ _ _ _ _ hd
  cases r with
  | ok h =>
    dsimp only at h1
    obtain ⟨c'', r2, tr2, w2, rfl, h2⟩ := conform_call_done _ _ _ _ _ h1
    unfold Own.mainK at h2
    split at h2
    · simp only [conform] at h2; cases h2; rfl
    · split at h2
      · simp only [conform] at h2; cases h2; rfl
      · obtain ⟨x, w3, rest3, pos3, hp3, hk3⟩ := conform_bind_done _ _ _ _ _ h2
        simp only [conform] at hk3
        cases hk3
        exact conform_blocks_fuel env orc input conf _ _ _ _ _ _ _ hp3 (by simp only [List.length_cons] at hlen; omega)
  | err e => simp only [conform] at h1; cases h1; rfl
  | name x => simp only [conform] at h1; cases h1; rfl
  | eof => simp only [conform] at h1; cases h1; rfl

end Mdsort.Proofs.Fuel
