import Mdsort.Proofs.EvalDom
import Mdsort.Spec.RulesAtt

/-!
# The pieces of `InDomainA` (C03 with attachment conditions and attachment blocks)

`wfTreeA` is `wfTree` plus what the grammar allows around attachments: `attachment c` wherever a
condition may stand, `attachment { ... }` as an action outside attachment blocks, and inside an
attachment block only `exec` actions (`expr_validate_attachment_block`: no other action, no
`pass` / `break`, no nested attachment block).  The proofs work with the weaker `att_wfG`.
-/

namespace Mdsort.Proofs
open Mdsort Mdsort.Model

/-- Well-formed tree; `inAtt` = inside an attachment block. -/
def wfTreeA (inAtt : Bool) : Expr → Bool
  | .block _ e => wfTreeA inAtt e
  | .neg _ e => wfTreeA inAtt e
  | .and _ l r => wfTreeA inAtt l && wfTreeA inAtt r
  | .or _ l r => wfTreeA inAtt l && wfTreeA inAtt r
  | .mtch _ c rhs => wfTreeA inAtt c && wfTreeA inAtt rhs
  | .all _ | .new _ | .old _ | .header .. | .body .. | .date .. => true
  | .stat _ p => noBackslash p
  | .command _ argv => argv.all noBackslash
  | .exec .. => true
  | .move .. | .flags .. | .discard _ | .label .. | .reject _ | .addHeader .. => !inAtt
  | .pass _ | .brk _ => !inAtt
  | .flag _ sd => !inAtt && decide (sd.length < NAME_MAX1)
  | .attachment _ c => wfTreeA inAtt c
  | .attBlock _ b => !inAtt && wfTreeA true b

/-- What the simulation needs of the nodes (no restriction on where actions stand). -/
def att_wfG : Expr → Bool
  | .block _ e => att_wfG e
  | .neg _ e => att_wfG e
  | .and _ l r => att_wfG l && att_wfG r
  | .or _ l r => att_wfG l && att_wfG r
  | .mtch _ c rhs => att_wfG c && att_wfG rhs
  | .stat _ p => noBackslash p
  | .command _ argv => argv.all noBackslash
  | .flag _ sd => decide (sd.length < NAME_MAX1)
  | .attachment _ c => att_wfG c
  | .attBlock _ b => att_wfG b
  | _ => true

theorem att_wfG_of_wfTreeA : ∀ (e : Expr) (b : Bool), wfTreeA b e = true → att_wfG e = true := by
  intro e
  induction e with
  | block _ e ih => intro b h; exact ih b (by simpa [wfTreeA] using h)
  | neg _ e ih => intro b h; exact ih b (by simpa [wfTreeA] using h)
  | and _ l r ihl ihr =>
    intro b h
    simp only [wfTreeA, Bool.and_eq_true] at h
    simp only [att_wfG, Bool.and_eq_true]
    exact ⟨ihl b h.1, ihr b h.2⟩
  | or _ l r ihl ihr =>
    intro b h
    simp only [wfTreeA, Bool.and_eq_true] at h
    simp only [att_wfG, Bool.and_eq_true]
    exact ⟨ihl b h.1, ihr b h.2⟩
  | mtch _ l r ihl ihr =>
    intro b h
    simp only [wfTreeA, Bool.and_eq_true] at h
    simp only [att_wfG, Bool.and_eq_true]
    exact ⟨ihl b h.1, ihr b h.2⟩
  | attachment _ c ih => intro b h; exact ih b (by simpa [wfTreeA] using h)
  | attBlock _ c ih =>
    intro b h
    simp only [wfTreeA, Bool.and_eq_true] at h
    exact ih true h.2
  | stat _ p => intro b h; simpa [wfTreeA, att_wfG] using h
  | command _ av => intro b h; simpa [wfTreeA, att_wfG] using h
  | flag _ sd =>
    intro b h
    simp only [wfTreeA, Bool.and_eq_true] at h
    simpa [att_wfG] using h.2
  | _ => intro b _; rfl

/-- `maxSubdir` through attachment nodes. -/
def maxSubdirA : Expr → Nat
  | .block _ e => maxSubdirA e
  | .neg _ e => maxSubdirA e
  | .and _ l r => max (maxSubdirA l) (maxSubdirA r)
  | .or _ l r => max (maxSubdirA l) (maxSubdirA r)
  | .mtch _ c rhs => max (maxSubdirA c) (maxSubdirA rhs)
  | .attachment _ c => maxSubdirA c
  | .attBlock _ b => maxSubdirA b
  | .flag _ sd => sd.length
  | _ => 0

/-- `movesFit` through attachment nodes. -/
def movesFitA (L : Nat) : Expr → Bool
  | .block _ e => movesFitA L e
  | .neg _ e => movesFitA L e
  | .and _ l r => movesFitA L l && movesFitA L r
  | .or _ l r => movesFitA L l && movesFitA L r
  | .mtch _ c rhs => movesFitA L c && movesFitA L rhs
  | .attachment _ c => movesFitA L c
  | .attBlock _ b => movesFitA L b
  | .move _ p => decide (p.length ≥ PATH_MAX) || decide (p.length + 1 + L < PATH_MAX)
  | _ => true

/-- `flagsKeepSeen` through attachment nodes. -/
def flagsKeepSeenA : Expr → Bool
  | .block _ e => flagsKeepSeenA e
  | .neg _ e => flagsKeepSeenA e
  | .and _ l r => flagsKeepSeenA l && flagsKeepSeenA r
  | .or _ l r => flagsKeepSeenA l && flagsKeepSeenA r
  | .mtch _ c rhs => flagsKeepSeenA c && flagsKeepSeenA rhs
  | .attachment _ c => flagsKeepSeenA c
  | .attBlock _ b => flagsKeepSeenA b
  | .flags _ fl => !fl.contains 83
  | _ => true

/-- What the proofs carry around for a subtree evaluated on part `k`; `o` = the tree contains an
`old` that is evaluated on the message itself (`hasOld` does not look inside attachment nodes: a
part carries no maildir flags). -/
def okA (L : Nat) (o : Bool) (k : Nat) (e : Expr) : Prop :=
  att_wfG e = true ∧ movesFitA L e = true ∧ maxSubdirA e ≤ L ∧
    (k = 0 → hasOld e = true → o = true) ∧ (o = true → flagsKeepSeenA e = true)

theorem okA_block {L o k lno e} (h : okA L o k (.block lno e)) : okA L o k e := by
  simpa [okA, att_wfG, movesFitA, maxSubdirA, hasOld, flagsKeepSeenA] using h

theorem okA_and {L o k lno l r} (h : okA L o k (.and lno l r)) : okA L o k l ∧ okA L o k r := by
  simp only [okA, att_wfG, movesFitA, maxSubdirA, hasOld, flagsKeepSeenA, Bool.and_eq_true, Bool.or_eq_true,
    Nat.max_le] at h ⊢
  obtain ⟨⟨a, b⟩, ⟨c, d⟩, ⟨e, f⟩, g, i⟩ := h
  exact ⟨⟨a, c, e, fun z x => g z (Or.inl x), fun x => (i x).1⟩, b, d, f, fun z x => g z (Or.inr x), fun x => (i x).2⟩

theorem okA_or {L o k lno l r} (h : okA L o k (.or lno l r)) : okA L o k l ∧ okA L o k r := by
  simp only [okA, att_wfG, movesFitA, maxSubdirA, hasOld, flagsKeepSeenA, Bool.and_eq_true, Bool.or_eq_true,
    Nat.max_le] at h ⊢
  obtain ⟨⟨a, b⟩, ⟨c, d⟩, ⟨e, f⟩, g, i⟩ := h
  exact ⟨⟨a, c, e, fun z x => g z (Or.inl x), fun x => (i x).1⟩, b, d, f, fun z x => g z (Or.inr x), fun x => (i x).2⟩

theorem okA_mtch {L o k lno l r} (h : okA L o k (.mtch lno l r)) : okA L o k l ∧ okA L o k r := by
  simp only [okA, att_wfG, movesFitA, maxSubdirA, hasOld, flagsKeepSeenA, Bool.and_eq_true, Bool.or_eq_true,
    Nat.max_le] at h ⊢
  obtain ⟨⟨a, b⟩, ⟨c, d⟩, ⟨e, f⟩, g, i⟩ := h
  exact ⟨⟨a, c, e, fun z x => g z (Or.inl x), fun x => (i x).1⟩, b, d, f, fun z x => g z (Or.inr x), fun x => (i x).2⟩

/-- The block of an attachment block is evaluated on parts only (`k' ≠ 0`). -/
theorem okA_attBlock {L o k lno b} (h : okA L o k (.attBlock lno b)) {k' : Nat} (hk : k' ≠ 0) : okA L o k' b := by
  simp only [okA, att_wfG, movesFitA, maxSubdirA, flagsKeepSeenA] at h ⊢
  exact ⟨h.1, h.2.1, h.2.2.1, fun z => absurd z hk, h.2.2.2.2⟩

/-! ## where `pass` / `break` stand in an action list

The grammar accepts `pass` / `break` anywhere in an action list; `Spec.parseRuleAW` gives every
such list its documented reading (all listed actions, control of the rule).  The evaluator walks the
AND chain of the actions from left to right (`expr_eval_and`); `expr_eval_pass` appends its marker
and returns NO MATCH, which ends the walk; `expr_eval_break` appends its marker and returns MATCH,
the walk goes on.  Three classes of placements are kept outside the domain of the refinement
theorem, each by its own predicate on the action list `xs` of a rule:

* `actionAfterPass` - something other than `pass` stands after a `pass`: the evaluator never looks at
  it (`label "x" pass move "y"` labels and does not move; `mdsort -n` accepts the file).  The manual
  says nothing of the kind: a deviation of the code from the documented reading (witness
  `C03_actions_after_pass_ignored`).
* `attAfterBreak` - an attachment block stands after a `break`: `expr_eval_block`, evaluating the
  block of the attachment block on the first part, finds the BREAK entry of the enclosing rule in the
  match list, removes it and reports no match for that part (the finding F11 - PASS/BREAK are looked
  up in the whole list - in one more shape; witness `C03_att_after_break_consumes_break`).
* `ctlMixed` - both `pass` and `break` occur: the manual gives the combination no meaning
  (`Spec.ctlOfList = none`), so there is nothing to refine. -/

def isAttBlockExpr : Expr → Bool
  | .attBlock .. => true
  | _ => false

/-- Both `pass` and `break` occur in the list. -/
def ctlMixed (xs : List Expr) : Bool := xs.any Spec.isPassExpr && xs.any Spec.isBrkExpr

/-- Something other than `pass` stands after the first `pass`. -/
def actionAfterPass (xs : List Expr) : Bool :=
  ((xs.dropWhile fun x => !Spec.isPassExpr x).drop 1).any fun x => !Spec.isPassExpr x

/-- An attachment block stands after the first `break`. -/
def attAfterBreak (xs : List Expr) : Bool :=
  ((xs.dropWhile fun x => !Spec.isBrkExpr x).drop 1).any isAttBlockExpr

/-- The placements of `pass` / `break` in one action list that the refinement theorem covers:
everything the grammar accepts except the three classes above.  In words: no control action; or
one or more `pass` at the end and no `break`; or `break` - any number of times, anywhere - with no
`pass` and every attachment block of the list before the first `break`. -/
def placedOK (xs : List Expr) : Bool := !ctlMixed xs && !actionAfterPass xs && !attAfterBreak xs

/-- Every action list of the tree (at every nesting level, inside attachment blocks too) is
`placedOK`. -/
def ctlPlaced : Expr → Bool
  | .block _ e => ctlPlaced e
  | .neg _ e => ctlPlaced e
  | .and _ l r => ctlPlaced l && ctlPlaced r
  | .or _ l r => ctlPlaced l && ctlPlaced r
  | .mtch _ c rhs =>
    ctlPlaced c && ctlPlaced rhs &&
      (match rhs with
       | .block .. => true
       | e => placedOK (Spec.andChain e))
  | .attachment _ c => ctlPlaced c
  | .attBlock _ b => ctlPlaced b
  | _ => true

theorem partIndex_ne_zero (k i : Nat) : Spec.partIndex k i ≠ 0 := by
  unfold Spec.partIndex
  split <;> omega

end Mdsort.Proofs
