import Mdsort.Proofs.WorldStdinAct

/-! `maildir_move` with the spool watched: what it does to the handles, to the set of
directories, to the names in the spool, and where the (tracked) message is afterwards. -/

namespace Mdsort.Proofs.World
open Mdsort Mdsort.Model

theorem messageSetFileMoved_stdin (ms : MsgSt) (ss ds : Subdir) (dir name : Bytes) :
    ∃ r, messageSetFileMoved ms ss ds dir name = Prog.ret r ∧ r.1.msg = ms.msg ∧ r.1.fd = ms.fd ∧ (r.2 = false → r.1.name = name) := by
  unfold messageSetFileMoved
  split
  · exact ⟨_, rfl, rfl, rfl, by intro h; cases h⟩
  · split
    · exact ⟨_, rfl, rfl, rfl, by intro h; cases h⟩
    · rename_i n hn
      refine ⟨_, rfl, rfl, rfl, fun _ => ?_⟩
      unfold strlcpyFits at hn
      split at hn
      · cases hn
      · cases hn; rfl

/-- `maildir_move` from the rename on (the destination name `dstname` has been created). -/
def moveBody (src dst : Maildir) (ms : MsgSt) (sh dh fd : Handle) (dstname : Bytes) (mt : Option Nat) : Prog (MsgSt × Bool) :=
  Prog.call (Call.renameat sh ms.name dh dstname) fun r =>
    (match r with
      | Res.err e =>
        if (e == "EXDEV") = true then
          (messageWriteP ms.msg fd).bind fun we =>
            if we = true then Prog.ret (true, ms)
            else
              (maildirUnlink src ms.name).bind fun ue =>
                Prog.ret (ue, if ue = true then ms
                  else { ms with loc := some (dst.path, dstname), content := (messageWrite ms.msg).fst })
        else Prog.ret (true, ms)
      | _ => Prog.ret (false, { ms with loc := some (dst.path, dstname) })).bind
    fun x =>
      if x.fst = true then
        (maildirUnlink dst dstname).bind fun _ =>
          Prog.call (Call.close fd) fun _ =>
            (if (!x.fst && mt.isSome) = true then
                Prog.call (Call.utimensat dh dstname none mt) fun r => Prog.ret !isOk r
              else Prog.ret x.fst).bind fun err2 =>
              if err2 = true then Prog.ret (x.snd, true) else messageSetFileMoved x.snd src.subdir dst.subdir dst.path dstname
      else
        Prog.call (Call.close fd) fun _ =>
          (if (!x.fst && mt.isSome) = true then
              Prog.call (Call.utimensat dh dstname none mt) fun r => Prog.ret !isOk r
            else Prog.ret x.fst).bind fun err2 =>
            if err2 = true then Prog.ret (x.snd, true) else messageSetFileMoved x.snd src.subdir dst.subdir dst.path dstname

/-- State after the rename stage of `maildir_move`. -/
structure Moved (S : Spool) (T : Prop) (cs : List Bytes) (src dst : Maildir) (ms : MsgSt) (w0 : World) (dstname : Bytes)
    (ns1 : List Bytes) (x : Bool × MsgSt) (w : World) : Prop where
  inv : Inv S w0 w
  msg : x.2.msg = ms.msg
  fd : x.2.fd = ms.fd
  names : NamesIn w S.sp (dstname :: ns1)
  ok : x.1 = false →
    NamesIn w S.sp ((if dst.path = S.sp then [dstname] else []) ++
      (if src.path = S.sp then ns1.filter (· != ms.name) else ns1)) ∧
    (T → ∃ f, GoodAt w cs dst.path dstname f)

theorem mem_move_names {sp p1 p2 n1 n2 : Bytes} {ns1 : List Bytes} {x : Bytes}
    (hx : x ∈ (if p2 = sp then n2 :: (if p1 = sp then ns1.filter (· != n1) else ns1)
      else (if p1 = sp then ns1.filter (· != n1) else ns1))) :
    x ∈ (if p2 = sp then [n2] else []) ++ (if p1 = sp then ns1.filter (· != n1) else ns1) := by
  by_cases h2 : p2 = sp <;> simp only [h2, if_true, if_false] at hx ⊢
  · rcases List.mem_cons.1 hx with h | h
    · simp [h]
    · exact List.mem_append_right _ h
  · simpa using hx

theorem mem_filter_sub {ns1 : List Bytes} {n1 x : Bytes} {c : Prop} [Decidable c]
    (hx : x ∈ (if c then ns1.filter (· != n1) else ns1)) : x ∈ ns1 := by
  split at hx
  · exact (List.mem_filter.1 hx).1
  · exact hx

/-- The second half of `maildir_move`: rollback or `close`, `utimensat`, `message_set_file`. -/
theorem spec_moveFinish (S : Spool) (T : Prop) (cs : List Bytes) (src dst : Maildir) (ms : MsgSt) (mt : Option Nat)
    {w0 w : World} {dh fd : Handle} {dstname : Bytes} {ns1 : List Bytes} (x : Bool × MsgSt)
    (hdh : dst.dirH = some dh) (hpd : w0.dirPath dh = some dst.path) (hsr2 : dst.path ≠ S.sr)
    (hfd : w0.handles.length ≤ fd) (hmv : Moved S T cs src dst ms w0 dstname ns1 x w) :
    wp (fun _ => True)
      (if x.fst = true then
        (maildirUnlink dst dstname).bind fun _ =>
          Prog.call (Call.close fd) fun _ =>
            (if (!x.fst && mt.isSome) = true then
                Prog.call (Call.utimensat dh dstname none mt) fun r => Prog.ret !isOk r
              else Prog.ret x.fst).bind fun err2 =>
              if err2 = true then Prog.ret (x.snd, true) else messageSetFileMoved x.snd src.subdir dst.subdir dst.path dstname
      else
        Prog.call (Call.close fd) fun _ =>
          (if (!x.fst && mt.isSome) = true then
              Prog.call (Call.utimensat dh dstname none mt) fun r => Prog.ret !isOk r
            else Prog.ret x.fst).bind fun err2 =>
            if err2 = true then Prog.ret (x.snd, true) else messageSetFileMoved x.snd src.subdir dst.subdir dst.path dstname)
      (fun r w' => Inv S w0 w' ∧ r.1.msg = ms.msg ∧ r.1.fd = ms.fd ∧ NamesIn w' S.sp (dstname :: ns1) ∧
        (r.2 = false → r.1.name = dstname ∧
          NamesIn w' S.sp ((if dst.path = S.sp then [dstname] else []) ++
            (if src.path = S.sp then ns1.filter (· != ms.name) else ns1)) ∧
          (T → ∃ f, GoodAt w' cs dst.path dstname f))) w := by
  obtain ⟨x1, x2⟩ := x
  cases x1 with
  | true =>
    simp only [if_true, Bool.not_true, Bool.false_and, Bool.false_eq_true, if_false, ret_bind]
    unfold maildirUnlink
    simp only [hdh, bind_eq, pure_eq, call_bind, call_bind', ret_bind]
    refine wp_call_any fun r => ⟨trivial, ?_⟩
    have hpd1 : w.dirPath dh = some dst.path := hmv.inv.dirPath hpd
    have inv1 := hmv.inv.step (.unlinkat dh dstname) r rfl (by intro h hh; cases hh)
      (dir_unlinkat_other w dh dstname r hpd1 (Ne.symm hsr2))
    have nm1 := hmv.names.unlinkat dh dstname r
    refine wp_call_any fun r2 => ⟨trivial, ?_⟩
    have inv2 := inv1.step_plain (.close fd) r2 rfl (by intro h hh; cases hh; exact hfd)
    have nm2 : NamesIn (stepWorld (stepWorld w (.unlinkat dh dstname) r) (.close fd) r2) S.sp (dstname :: ns1) :=
      nm1.congr (by rw [stepWorld_dir]; exact dir_of_dirs (core_dirs _ _ _ rfl) _)
    exact ⟨inv2, hmv.msg, hmv.fd, nm2, by intro h; cases h⟩
  | false =>
    obtain ⟨hok1, hok2⟩ := hmv.ok rfl
    simp only [Bool.false_eq_true, if_false, Bool.not_false, Bool.true_and]
    refine wp_call_any fun r2 => ⟨trivial, ?_⟩
    have inv2 := hmv.inv.step_plain (.close fd) r2 rfl (by intro h hh; cases hh; exact hfd)
    have hd2 : ∀ q, (stepWorld w (.close fd) r2).dir q = w.dir q := by
      intro q; rw [stepWorld_dir]; exact dir_of_dirs (core_dirs _ _ _ rfl) _
    have nm2 := hmv.names.congr (hd2 S.sp)
    have ok2 := hok1.congr (hd2 S.sp)
    have tr2 : T → ∃ f, GoodAt (stepWorld w (.close fd) r2) cs dst.path dstname f := by
      intro hT
      obtain ⟨f, hf⟩ := hok2 hT
      exact ⟨f, hf.step _ _ trivial trivial⟩
    generalize stepWorld w (.close fd) r2 = w2 at inv2 nm2 ok2 tr2 ⊢
    have fin : ∀ w3, Inv S w0 w3 → NamesIn w3 S.sp (dstname :: ns1) →
        NamesIn w3 S.sp ((if dst.path = S.sp then [dstname] else []) ++
          (if src.path = S.sp then ns1.filter (· != ms.name) else ns1)) →
        (T → ∃ f, GoodAt w3 cs dst.path dstname f) →
        wp (fun _ => True) (messageSetFileMoved x2 src.subdir dst.subdir dst.path dstname)
          (fun r w' => Inv S w0 w' ∧ r.1.msg = ms.msg ∧ r.1.fd = ms.fd ∧ NamesIn w' S.sp (dstname :: ns1) ∧
            (r.2 = false → r.1.name = dstname ∧
              NamesIn w' S.sp ((if dst.path = S.sp then [dstname] else []) ++
                (if src.path = S.sp then ns1.filter (· != ms.name) else ns1)) ∧
              (T → ∃ f, GoodAt w' cs dst.path dstname f))) w3 := by
      intro w3 i3 n3 o3 t3
      obtain ⟨r, hr, h1, h2, h3⟩ := messageSetFileMoved_stdin x2 src.subdir dst.subdir dst.path dstname
      rw [hr]
      exact ⟨i3, h1.trans hmv.msg, h2.trans hmv.fd, n3, fun he => ⟨h3 he, o3, t3⟩⟩
    split
    · -- utimensat
      refine wp_call_any fun r3 => ⟨trivial, ?_⟩
      have inv3 := inv2.step_plain (.utimensat dh dstname none mt) r3 rfl (by intro h hh; cases hh)
      have hd3 : ∀ q, (stepWorld w2 (.utimensat dh dstname none mt) r3).dir q = w2.dir q := by
        intro q; rw [stepWorld_dir]; exact dir_of_dirs (core_dirs _ _ _ rfl) _
      simp only [ret_bind]
      split
      · exact ⟨inv3, hmv.msg, hmv.fd, nm2.congr (hd3 _), by intro h; cases h⟩
      · refine fin _ inv3 (nm2.congr (hd3 _)) (ok2.congr (hd3 _)) ?_
        intro hT
        obtain ⟨f, hf⟩ := tr2 hT
        exact ⟨f, hf.step _ _ trivial trivial⟩
    · simp only [ret_bind, Bool.false_eq_true, if_false]
      exact fin _ inv2 nm2 ok2 tr2

theorem GoodAt.sameFs {w w' : World} {cs : List Bytes} {p n : Bytes} {fid : Nat} (hg : GoodAt w cs p n fid)
    (h : SameFsS w w') : GoodAt w' cs p n fid := by
  unfold GoodAt at hg ⊢
  rw [h.lookup, h.2.2.1]
  obtain ⟨a, b, f, c, d⟩ := hg
  exact ⟨a, b, f, by rw [h.file]; exact c, d⟩

theorem Inv.ofFresh {S : Spool} {w0 w w' : World} (a : Inv S w0 w) (hd : w'.dirs = w.dirs)
    (ho : ∀ x, x < w.handles.length → w'.obj x = w.obj x) (hl : w.handles.length ≤ w'.handles.length) : Inv S w0 w' :=
  ⟨fun h hh => (ho h (Nat.lt_of_lt_of_le hh a.len)).trans (a.objs h hh), Nat.le_trans a.len hl,
   fun q => by rw [dir_of_dirs hd]; exact a.exist q, by rw [dir_of_dirs hd]; exact a.root⟩

/-- The first half of `maildir_move`: `renameat`, or across devices: copy, then remove the source. -/
theorem spec_moveStage (S : Spool) (T : Prop) (cs : List Bytes) (src dst : Maildir) (ms : MsgSt)
    {w0 w : World} {sh dh fd : Handle} {dstname : Bytes} {fid : Nat} {ns1 : List Bytes}
    (hsh : src.dirH = some sh) (inv : Inv S w0 w)
    (hps : w.dirPath sh = some src.path) (hpd : w.dirPath dh = some dst.path)
    (hsr1 : src.path ≠ S.sr) (hsr2 : dst.path ≠ S.sr)
    (nf : NewFile w dh fd dstname dst.path fid) (hdd : (w.dir dst.path).isSome)
    (hns : NamesIn w S.sp ns1)
    (htr : T → ∃ f0, GoodAt w cs src.path ms.name f0 ∧ f0 < fid) (hm : (messageWrite ms.msg).1 ∈ cs) :
    wp (fun _ => True)
      (Prog.call (Call.renameat sh ms.name dh dstname) fun r =>
        match r with
        | Res.err e =>
          if (e == "EXDEV") = true then
            (messageWriteP ms.msg fd).bind fun we =>
              if we = true then Prog.ret (true, ms)
              else
                (maildirUnlink src ms.name).bind fun ue =>
                  Prog.ret (ue, if ue = true then ms
                    else { ms with loc := some (dst.path, dstname), content := (messageWrite ms.msg).fst })
          else Prog.ret (true, ms)
        | _ => Prog.ret (false, { ms with loc := some (dst.path, dstname) }))
      (Moved S T cs src dst ms w0 dstname ns1) w := by
  have hbound := nf.bound hdd
  have subAll : ∀ x, x ∈ ns1 → x ∈ dstname :: ns1 := fun x hx => List.mem_cons_of_mem _ hx
  intro ft
  refine ⟨trivial, ?_⟩
  rcases renameat_results ft w sh ms.name dh dstname with ⟨e, he⟩ | ⟨he, p1, p2, fidX, hp1, hp2, hl⟩
  · -- the rename failed
    rw [he]
    have hsf := sameFsS_err w (.renameat sh ms.name dh dstname) e (by intro _ h; cases h) (by intro _ h; cases h)
      (by intro _ h; cases h)
    have inv2 : Inv S w0 (stepWorld w (.renameat sh ms.name dh dstname) (.err e)) :=
      inv.trans (Inv.ofSameFs hsf inv.root)
    have hns2 : NamesIn (stepWorld w (.renameat sh ms.name dh dstname) (.err e)) S.sp ns1 := hns.congr (hsf.dir _)
    have failed : ∀ w', Inv S w0 w' → NamesIn w' S.sp ns1 → Moved S T cs src dst ms w0 dstname ns1 (true, ms) w' :=
      fun w' i n => ⟨i, rfl, rfl, n.mono subAll, by intro h; cases h⟩
    generalize hw2 : stepWorld w (.renameat sh ms.name dh dstname) (.err e) = w2 at inv2 hns2 ⊢
    dsimp only
    split
    · -- EXDEV: copy
      have hobj2 : w2.obj fd = .file fid 0 true := by rw [← hw2, hsf.obj]; exact nf.obj
      have hfile2 : w2.file fid = some ⟨[], []⟩ := by rw [← hw2, hsf.file]; exact nf.file
      have hfresh := (fresh_messageWriteP w2.handles.length ms.msg fd).wp (w := w2) (Nat.le_refl _)
      have htrk : wp (fun _ => True) (messageWriteP ms.msg fd)
          (fun we w3 => T → ∃ f0 f, GoodAt w3 cs src.path ms.name f0 ∧ f0 < fid ∧ fid < w3.nextFid ∧
            w3.file fid = some f ∧
            (we = false → f.data = (messageWrite ms.msg).1 ∧ f.durable = f.data)) w2 := by
        by_cases hT : T
        · obtain ⟨f0, hg, hlt⟩ := htr hT
          have hg2 : GoodAt w2 cs src.path ms.name f0 := by rw [← hw2]; exact hg.sameFs hsf
          have hnf2 : fid < w2.nextFid := by rw [← hw2, hsf.2.2.1]; exact nf.fidLt
          refine wp_mono (wp_true (spec_messageWriteP ms.msg fd hg2 hobj2 (by omega) hfile2)) ?_
          rintro we w3 ⟨fr, f, hf, hc⟩ _
          exact ⟨f0, f, fr.good, hlt, Nat.lt_of_lt_of_le hnf2 fr.nextFid, hf, fun h => by simpa using hc h⟩
        · exact wp_mono wp_triv (fun _ _ _ h => absurd h hT)
      refine wp_bind_mono (wp_and hfresh htrk) ?_
      rintro we w3 ⟨⟨-, hdirs3, hobjs3, hlen3⟩, htr3⟩
      have inv3 : Inv S w0 w3 := inv2.ofFresh hdirs3 hobjs3 hlen3
      have hns3 : NamesIn w3 S.sp ns1 := hns2.congr (dir_of_dirs hdirs3 _)
      cases we with
      | true => exact failed w3 inv3 hns3
      | false =>
        simp only [Bool.false_eq_true, if_false]
        unfold maildirUnlink
        simp only [hsh, bind_eq, pure_eq, call_bind, call_bind', ret_bind]
        intro ft2
        refine ⟨trivial, ?_⟩
        have hps3 : w3.dirPath sh = some src.path := by
          rw [← hps, ← hsf.dirPath, hw2]
          exact dirPath_congr (hobjs3 sh (by rw [← hw2, hsf.2.2.2]; exact lt_of_dirPath hps))
        rcases unlinkat_results ft2 w3 sh ms.name with ⟨e', he'⟩ | ⟨he', p, fidY, hp, hlY⟩
        · rw [he']
          have hsf4 := sameFsS_err w3 (.unlinkat sh ms.name) e' (by intro _ h; cases h) (by intro _ h; cases h)
            (by intro _ h; cases h)
          simp only [isOk, Bool.not_false, if_true]
          exact failed _ (inv3.trans (Inv.ofSameFs hsf4 inv3.root)) (hns3.congr (hsf4.dir _))
        · rw [he']
          have hpp : p = src.path := by rw [hps3] at hp; cases hp; rfl
          subst hpp
          simp only [isOk, Bool.not_true, Bool.false_eq_true, if_false]
          have inv4 := inv3.step (.unlinkat sh ms.name) (.ok 0) rfl (by intro h hh; cases hh)
            (dir_unlinkat_other w3 sh ms.name (.ok 0) hps3 (Ne.symm hsr1))
          refine ⟨inv4, rfl, rfl, (hns3.unlinkat sh ms.name (.ok 0)).mono subAll, fun _ => ⟨?_, ?_⟩⟩
          · refine (hns3.unlinkat_ok hps3 hlY 0).mono ?_
            intro x hx
            exact List.mem_append_right _ hx
          · intro hT
            obtain ⟨f0, f, hg3, hlt, hnf3, hf3, hc3⟩ := htr3 hT
            obtain ⟨hdat, hdur⟩ := hc3 rfl
            have hl3 : w3.lookup dst.path dstname = some fid := by
              rw [lookup_of_dirs hdirs3, ← hw2, hsf.lookup]; exact hbound
            refine ⟨fid, ?_, ?_, f, ?_, ?_, ?_⟩
            · rw [stepWorld_lookup, core_unlinkat_okS hps3 hlY, lookup_unbind]
              have : ¬ (dst.path = src.path ∧ dstname = ms.name) := by
                rintro ⟨h1, h2⟩
                rw [h1, h2, hg3.1] at hl3
                cases hl3
                omega
              simp [this, hl3]
            · rw [stepWorld_nextFid]
              exact Nat.lt_of_lt_of_le hnf3 (core_nextFid w3 _ _)
            · rw [stepWorld_file, core_unlinkat_okS hps3 hlY, file_unbind]; exact hf3
            · rw [hdat]; exact hm
            · rw [hdur, hdat]; exact hm
    · exact failed w2 inv2 hns2
  · -- the rename succeeded
    rw [he]
    have hp1' : p1 = src.path := by rw [hps] at hp1; cases hp1; rfl
    have hp2' : p2 = dst.path := by rw [hpd] at hp2; cases hp2; rfl
    subst hp1' hp2'
    dsimp only
    have inv2 := inv.step (.renameat sh ms.name dh dstname) (.ok 0) rfl (by intro h hh; cases hh)
      (dir_renameat_ok hp1 hp2 hl 0 (Ne.symm hsr1) (Ne.symm hsr2))
    have hn2 := hns.renameat_ok (n2 := dstname) hp1 hp2 hl 0
    refine ⟨inv2, rfl, rfl, hn2.mono ?_, fun _ => ⟨hn2.mono (fun x hx => mem_move_names hx), ?_⟩⟩
    · intro x hx
      have := mem_move_names hx
      rcases List.mem_append.1 this with h | h
      · split at h
        · simp only [List.mem_singleton] at h; simp [h]
        · cases h
      · exact List.mem_cons_of_mem _ (mem_filter_sub h)
    · intro hT
      obtain ⟨f0, hg, hlt⟩ := htr hT
      have hfx : fidX = f0 := by rw [hg.1] at hl; cases hl; rfl
      subst hfx
      have hc := core_renameat_ok (n2 := dstname) hp1 hp2 hl 0
      obtain ⟨_, hlt0, f, hf, h1, h2⟩ := hg
      refine ⟨fidX, ?_, ?_, f, ?_, h1, h2⟩
      · rw [stepWorld_lookup, hc, lookup_bind _ _ _ _ _ _ (by rw [dir_unbind_isSome]; exact hdd)]
        simp
      · rw [stepWorld_nextFid, hc]; simpa using hlt0
      · rw [stepWorld_file, hc]; simpa using hf

theorem conv_names {sp p1 p2 n1 dn : Bytes} {ns : List Bytes} {x : Bytes}
    (hx : x ∈ (if p2 = sp then [dn] else []) ++
      (if p1 = sp then (if p2 = sp then dn :: ns else ns).filter (· != n1) else (if p2 = sp then dn :: ns else ns))) :
    x ∈ (if p2 = sp then [dn] else []) ++ (if p1 = sp then ns.filter (· != n1) else ns) := by
  by_cases h2 : p2 = sp <;> by_cases h1 : p1 = sp <;>
    simp only [h1, h2, if_true, if_false, List.mem_append, List.mem_filter, List.mem_cons,
      List.not_mem_nil, false_or] at hx ⊢ <;> grind

/-- `maildir_move`, with the spool `S` watched and (if `T`) the message tracked. -/
theorem spec_maildirMove_sp (S : Spool) (T : Prop) (cs : List Bytes) (env : PEnv) (src dst : Maildir) (ms : MsgSt)
    {w : World} {sh dh : Handle} {ns : List Bytes}
    (hsh : src.dirH = some sh) (hdh : dst.dirH = some dh)
    (hps : w.dirPath sh = some src.path) (hpd : w.dirPath dh = some dst.path) (hdd : (w.dir dst.path).isSome)
    (hsr1 : src.path ≠ S.sr) (hsr2 : dst.path ≠ S.sr) (hroot : w.dir S.sr = some [])
    (hns : NamesIn w S.sp ns)
    (htr : T → ∃ f0, GoodAt w cs src.path ms.name f0) (hm : (messageWrite ms.msg).1 ∈ cs) :
    wp (fun _ => True) (maildirMove env src dst ms)
      (fun r w' => Inv S w w' ∧ r.1.msg = ms.msg ∧ r.1.fd = ms.fd ∧
        (∃ nm, (95 : UInt8) ∈ nm ∧ NamesIn w' S.sp (nm :: ns)) ∧
        (r.2 = false → (95 : UInt8) ∈ r.1.name ∧
          NamesIn w' S.sp ((if dst.path = S.sp then [r.1.name] else []) ++
            (if src.path = S.sp then ns.filter (· != ms.name) else ns)) ∧
          (T → ∃ f, GoodAt w' cs dst.path r.1.name f) ∧ (src.stdin && src.root == dst.root) = false)) w := by
  have early : ∀ w', Inv S w w' → NamesIn w' S.sp ns →
      (fun (r : MsgSt × Bool) w' => Inv S w w' ∧ r.1.msg = ms.msg ∧ r.1.fd = ms.fd ∧
        (∃ nm, (95 : UInt8) ∈ nm ∧ NamesIn w' S.sp (nm :: ns)) ∧
        (r.2 = false → (95 : UInt8) ∈ r.1.name ∧
          NamesIn w' S.sp ((if dst.path = S.sp then [r.1.name] else []) ++
            (if src.path = S.sp then ns.filter (· != ms.name) else ns)) ∧
          (T → ∃ f, GoodAt w' cs dst.path r.1.name f) ∧ (src.stdin && src.root == dst.root) = false)) (ms, true) w' :=
    fun w' i n => ⟨i, rfl, rfl, ⟨[95], by simp, n.mono (fun x hx => List.mem_cons_of_mem _ hx)⟩, by intro h; cases h⟩
  unfold maildirMove gennameStart
  simp only [bind_eq, pure_eq, call_bind, hsh, hdh]
  split
  · exact early w (Inv.refl hroot) hns
  rename_i hstd
  refine wp_bind_mono (R := fun _ w1 => SameFsS w w1) ?_ ?_
  · split
    · refine wp_call_any fun r => ⟨trivial, ?_⟩
      exact sameFs_of_core (core_fstatatS w sh ms.name r)
    · exact SameFsS.refl w
  intro mt w1 hsf
  split
  · exact early w1 (Inv.ofSameFs hsf hroot) (hns.congr (hsf.dir _))
  rename_i fl _
  refine wp_bind_mono (spec_genname_plain env dst (some fl) gennameAttempts _) ?_
  rintro g w2 (⟨rfl, hsf2⟩ | ⟨fd, dstname, d', p', w3, rfl, hd', hsf3, hdp', hl', hfd', rfl, hname, -⟩)
  · exact early w2 (Inv.ofSameFs (hsf.trans hsf2) hroot) (hns.congr ((hsf.trans hsf2).dir _))
  · dsimp only
    have hdd' : d' = dh := by rw [hdh] at hd'; cases hd'; rfl
    subst hdd'
    have hsfA : SameFsS w w3 := hsf.trans hsf3
    have hp' : p' = dst.path := by rw [hsfA.dirPath, hpd] at hdp'; cases hdp'; rfl
    subst hp'
    have nf := newFile_of_openExcl hdp' hl'
    subst hfd'
    have inv3 : Inv S w w3 := Inv.ofSameFs hsfA hroot
    have inv4 := inv3.step (.openExcl d' dstname) (.ok w3.handles.length) rfl (by intro h hh; cases hh)
      (dir_openExcl_other w3 d' dstname _ hdp' (Ne.symm hsr2))
    have hns4 := (hns.congr (hsfA.dir _)).openExcl_ok hdp' hl' w3.handles.length
    have hps4 := inv4.dirPath hps
    have hpd4 := inv4.dirPath hpd
    have hdd4 : ((stepWorld w3 (.openExcl d' dstname) (.ok w3.handles.length)).dir dst.path).isSome := by
      rw [inv4.exist]; exact hdd
    have htr4 : T → ∃ f0, GoodAt (stepWorld w3 (.openExcl d' dstname) (.ok w3.handles.length)) cs src.path ms.name f0 ∧
        f0 < w3.nextFid := by
      intro hT
      obtain ⟨f0, hg⟩ := htr hT
      have hg3 := hg.sameFs hsfA
      exact ⟨f0, hg3.step _ _ trivial trivial, hg3.2.1⟩
    have hfdge : w.handles.length ≤ w3.handles.length := by rw [hsfA.2.2.2]; exact Nat.le_refl _
    refine wp_mono (wp_bind_mono (spec_moveStage S T cs src dst ms hsh inv4 hps4 hpd4 hsr1 hsr2 nf hdd4 hns4 htr4 hm)
      (fun x w5 hmv => spec_moveFinish S T cs src dst ms mt x hdh hpd hsr2 hfdge hmv)) ?_
    rintro r w' ⟨i, m, f, n, ok⟩
    refine ⟨i, m, f, ⟨dstname, hname, n.mono ?_⟩, fun he => ?_⟩
    · intro x hx
      rcases List.mem_cons.1 hx with h | h
      · simp [h]
      · split at h
        · exact h
        · exact List.mem_cons_of_mem _ h
    · obtain ⟨h1, h2, h3⟩ := ok he
      rw [h1]
      exact ⟨hname, h2.mono (fun x hx => conv_names hx), h3, by simpa using hstd⟩

end Mdsort.Proofs.World
