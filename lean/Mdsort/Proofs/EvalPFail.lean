import Mdsort.Proofs.EvalPCalls
import Mdsort.Proofs.WorldOwn
import Mdsort.Proofs.ExecStatus

/-!
# A question the operating system could not answer makes the evaluation an error (C04)

`FailAns tf q a`: the answer `a` to the question `q` is a failure - `exec(argv, -1)` returned a negative value for a
`command` condition (`/dev/null` could not be opened, `fork` or `waitpid` failed, or the child exited with status 127),
or `stat` of the message's path failed (or `time_format` returned NULL) for a file-time `date` condition.  (`isdirectory`
has no failing answer: a path that cannot be stat'ed is not a directory.)

`evalT_failStops`: after a failing answer the computation returns *error* at once - no further question is asked,
whatever the rule tree around the condition is (`EXPR_ERROR` is returned through every `expr_eval_*`).
-/

namespace Mdsort.Model
open Mdsort

/-- After an answer that satisfies `F` the computation returns at once, with a value that satisfies `P`. -/
def Ask.FailStops {α} (F : Req → SysAns → Prop) (P : α → Prop) : Ask α → Prop
  | .ret _ => True
  | .ask q k => ∀ a, (F q a → ∃ v, k a = .ret v ∧ P v) ∧ (k a).FailStops F P

theorem Ask.FailStops.bind {α β} {F : Req → SysAns → Prop} {P : α → Prop} {Q : β → Prop} {t : Ask α} {f : α → Ask β}
    (ht : t.FailStops F P) (hP : ∀ v, P v → ∃ v', f v = .ret v' ∧ Q v') (hf : ∀ v, (f v).FailStops F Q) :
    (t.bind f).FailStops F Q := by
  induction t with
  | ret a => exact hf a
  | ask q k ih =>
    intro a
    refine ⟨fun hF => ?_, ih a (ht a).2⟩
    obtain ⟨v, hv, hp⟩ := (ht a).1 hF
    obtain ⟨v', hv', hq⟩ := hP v hp
    exact ⟨v', by show (k a).bind f = _; rw [hv]; exact hv', hq⟩

/-- In the pure run: if question `k` got a failing answer, the value satisfies `P` and `k` was the last question. -/
theorem Ask.FailStops.run {α} {F : Req → SysAns → Prop} {P : α → Prop} {t : Ask α} (ht : t.FailStops F P) :
    ∀ (as : List SysAns) (k : Nat) (q : Req) (a : SysAns), (t.run as).2[k]? = some q → as[k]? = some a → F q a →
      P (t.run as).1 ∧ (t.run as).2.length = k + 1 := by
  induction t with
  | ret v => intro as k q a hq; simp at hq
  | ask q0 kont ih =>
    intro as k q a hq ha hF
    cases as with
    | nil => simp at ha
    | cons a0 rest =>
      simp only [Ask.run, List.headD_cons, List.tail_cons] at hq ⊢
      cases k with
      | zero =>
        simp only [List.getElem?_cons_zero, Option.some.injEq] at hq ha
        subst hq ha
        obtain ⟨v, hv, hp⟩ := (ht a0).1 hF
        rw [hv]
        exact ⟨hp, rfl⟩
      | succ k =>
        simp only [List.getElem?_cons_succ] at hq ha
        obtain ⟨h1, h2⟩ := ih a0 (ht a0).2 rest k q a hq ha hF
        exact ⟨h1, by simp [h2]⟩

end Mdsort.Model

namespace Mdsort.Proofs
open Mdsort Mdsort.Model

/-- The answer is a failure (see the head of the file). -/
def FailAns (tf : Int → Option Bytes) : Req → SysAns → Prop
  | .command _, a => ansStatus a < 0
  | .fileTime _ f, a => ansFileTime tf f a = none
  | .isDir _, _ => False

def IsError (r : Tri × St) : Prop := r.1 = .error

macro "fs_tail" : tactic =>
  `(tactic| repeat' (first | exact True.intro | assumption | split | (dsimp only; split)))

theorem loop_failStops {env : Env} {root : Msg} {e : Expr}
    (ih : ∀ (part : Nat) (m : Msg) (st : St), (evalT env root e part m st).FailStops (FailAns env.timeFormat) IsError) (part : Nat)
    (ps : List Msg) : ∀ (i : Nat) (st : St), (evalT.loop env root e part ps i st).FailStops (FailAns env.timeFormat) IsError := by
  induction ps with
  | nil => intro i st; simp only [evalT.loop]; exact True.intro
  | cons p rest ihp =>
    intro i st
    simp only [evalT.loop]
    refine Ask.FailStops.bind (ih _ _ _) ?_ ?_
    · rintro ⟨ev, s1⟩ (h : ev = .error)
      subst h
      exact ⟨_, rfl, rfl⟩
    · rintro ⟨ev, s1⟩
      cases ev <;> first | exact True.intro | exact ihp _ _

theorem loopB_failStops {env : Env} {root : Msg} {e : Expr}
    (ih : ∀ (part : Nat) (m : Msg) (st : St), (evalT env root e part m st).FailStops (FailAns env.timeFormat) IsError) (part : Nat)
    (ps : List Msg) : ∀ (i : Nat) (ev0 : Tri) (st : St),
      (evalT.loopB env root e part ps i ev0 st).FailStops (FailAns env.timeFormat) IsError := by
  induction ps with
  | nil => intro i ev0 st; simp only [evalT.loopB]; exact True.intro
  | cons p rest ihp =>
    intro i ev0 st
    simp only [evalT.loopB]
    refine Ask.FailStops.bind (ih _ _ _) ?_ ?_
    · rintro ⟨ev, s1⟩ (h : ev = .error)
      subst h
      exact ⟨_, rfl, rfl⟩
    · rintro ⟨ev, s1⟩
      cases ev <;> first | exact True.intro | exact ihp _ _ _

/-- **A failed question makes the evaluation an error, at once**: for every rule tree, in every position. -/
theorem evalT_failStops (env : Env) (root : Msg) (e : Expr) :
    ∀ (part : Nat) (m : Msg) (st : St), (evalT env root e part m st).FailStops (FailAns env.timeFormat) IsError := by
  induction e with
  | block lno e ih =>
    intro part m st
    simp only [evalT]
    refine Ask.FailStops.bind (ih part m st) ?_ ?_
    · rintro ⟨ev, s1⟩ (h : ev = .error)
      subst h
      exact ⟨_, rfl, rfl⟩
    · rintro ⟨ev, s1⟩
      cases ev <;> fs_tail
  | and lno l r ihl ihr =>
    intro part m st
    simp only [evalT]
    refine Ask.FailStops.bind (ihl part m st) ?_ ?_
    · rintro ⟨ev, s1⟩ (h : ev = .error)
      subst h
      exact ⟨_, rfl, rfl⟩
    · rintro ⟨ev, s1⟩
      cases ev <;> first | exact True.intro | exact ihr _ _ _
  | or lno l r ihl ihr =>
    intro part m st
    simp only [evalT]
    refine Ask.FailStops.bind (ihl part m st) ?_ ?_
    · rintro ⟨ev, s1⟩ (h : ev = .error)
      subst h
      exact ⟨_, rfl, rfl⟩
    · rintro ⟨ev, s1⟩
      cases ev <;> first | exact True.intro | exact ihr _ _ _
  | neg lno e ih =>
    intro part m st
    simp only [evalT]
    refine Ask.FailStops.bind (ih part m st) ?_ ?_
    · rintro ⟨ev, s1⟩ (h : ev = .error)
      subst h
      exact ⟨_, rfl, rfl⟩
    · rintro ⟨ev, s1⟩
      cases ev <;> exact True.intro
  | mtch lno c rhs ihc ihr =>
    intro part m st
    simp only [evalT]
    generalize matchesAppend env st.ml _ = r1
    obtain ⟨ml1, f1⟩ := r1
    cases f1
    · simp only [Bool.false_eq_true, ↓reduceIte]
      refine Ask.FailStops.bind (ihc part m _) ?_ ?_
      · rintro ⟨ev, s1⟩ (h : ev = .error)
        subst h
        exact ⟨_, rfl, rfl⟩
      · rintro ⟨ev, s1⟩
        cases ev <;> first | exact True.intro | exact ihr _ _ _
    · exact True.intro
  | attachment lno e ih =>
    intro part m st
    simp only [evalT]
    cases getAttachments m with
    | none => exact True.intro
    | some parts => exact loop_failStops ih part parts 0 st
  | attBlock lno e ih =>
    intro part m st
    simp only [evalT]
    cases getAttachments m with
    | none => exact True.intro
    | some parts => exact loopB_failStops ih part parts 0 .nomatch st
  | date lno field cmp age =>
    intro part m st
    cases field
    · simp only [evalT]; exact True.intro
    all_goals
      simp only [evalT, ask, Ask.ask_bind, Ask.ret_bind]
      intro a
      refine ⟨fun hF => ?_, ?_⟩
      · simp only [FailAns] at hF
        simp only [hF]
        exact ⟨_, rfl, rfl⟩
      · dsimp only; fs_tail
  | stat lno path =>
    intro part m st
    simp only [evalT, ask, Ask.ask_bind, Ask.ret_bind]
    generalize matchesAppend env st.ml _ = r1
    obtain ⟨ml1, f1⟩ := r1
    dsimp only
    repeat' (first | exact True.intro | (intro a; exact ⟨fun hF => hF.elim, True.intro⟩) | split)
  | command lno argv =>
    intro part m st
    simp only [evalT, ask, Ask.ask_bind, Ask.ret_bind]
    generalize matchesAppend env st.ml _ = r1
    obtain ⟨ml1, f1⟩ := r1
    dsimp only
    split
    · exact True.intro
    · split
      · exact True.intro
      · intro a
        refine ⟨fun hF => ⟨_, rfl, ?_⟩, True.intro⟩
        have hF' : ansStatus a < 0 := hF
        have hne : (ansStatus a == 0) = false := by
          simp only [beq_eq_false_iff_ne, ne_eq]; omega
        show (if (ansStatus a == 0) = true then Tri.match else if ansStatus a < 0 then Tri.error else Tri.nomatch) = Tri.error
        simp only [hne, Bool.false_eq_true, ↓reduceIte, hF']
  | all lno => intro part m st; simp only [evalT]; exact True.intro
  | body lno p => intro part m st; simp only [evalT]; exact True.intro
  | header lno names p => intro part m st; simp only [evalT]; exact True.intro
  | new lno => intro part m st; simp only [evalT]; exact True.intro
  | old lno => intro part m st; simp only [evalT]; exact True.intro
  | move lno path => intro part m st; simp only [evalT]; exact True.intro
  | flag lno subdir => intro part m st; simp only [evalT]; exact True.intro
  | flags lno fl => intro part m st; simp only [evalT]; exact True.intro
  | discard lno => intro part m st; simp only [evalT]; exact True.intro
  | brk lno => intro part m st; simp only [evalT]; exact True.intro
  | label lno ls => intro part m st; simp only [evalT]; exact True.intro
  | pass lno => intro part m st; simp only [evalT]; exact True.intro
  | reject lno => intro part m st; simp only [evalT]; exact True.intro
  | exec lno si bo argv => intro part m st; simp only [evalT]; exact True.intro
  | addHeader lno k v => intro part m st; simp only [evalT]; exact True.intro


/-- **In a run**: if the operating system's answer to some question of the evaluation is a failure, the value of `evalP`
is *error* (and that question was the last one asked). -/
theorem evalP_error_of_fail (env : Env) (e : Expr) (m : Msg) (fl : MFlags)
    (orcl : Nat → Call → Res) (i : Nat) (k : Nat) (q : Req) (a : SysAns)
    (hq : (evalR env e m fl ((evalTop env e m fl).answers orcl i)).2[k]? = some q)
    (ha : ((evalTop env e m fl).answers orcl i)[k]? = some a) (hF : FailAns env.timeFormat q a) :
    (Own.runO orcl (evalP env e m fl) i).1.1 = .error ∧
    (evalR env e m fl ((evalTop env e m fl).answers orcl i)).2.length = k + 1 := by
  obtain ⟨h1, _, _⟩ := evalP_replay env e m fl orcl i
  rw [h1]
  exact (evalT_failStops env m e 0 m { ml := [], flags := fl }).run _ k q a hq ha hF

/-! ## which call results are failing answers -/

/-- The answer to a `command` question, from the results of its calls (`exec(argv, -1)`). -/
theorem sysCall_command_value (av : List Bytes) (orcl : Nat → Call → Res) (j : Nat) :
    (Own.runO orcl (sysCall (.command av)) j).1 =
      .status (match orcl j (.openPath (ofString "/dev/null")) with
        | .ok h => execValue true (orcl (j + 1) (.fork (av.map cstr) h)) (orcl (j + 2) .waitpid)
        | r => execValue false (orcl (j + 1) (.fork (av.map cstr) (Own.okHandle r))) (orcl (j + 2) .waitpid)) := by
  simp only [sysCall, Own.runO_bind, Own.runO_ret, Own.execP_run]
  cases orcl j (.openPath (ofString "/dev/null")) <;> rfl

/-- **A `command` condition inside a run is `Model.eval` with the command oracle `exec()` on the results of its three
calls** (`open("/dev/null")` at step `j`, `fork` at `j + 1`, `waitpid` at `j + 2`): the bridge from the evaluator-level
statements of Proofs/ExecStatus.lean (`eval_command`, `commandTri`, `childOutcome`) to the evaluation inside the run. -/
theorem evalT_command_run (env : Env) (root : Msg) (lno : Nat) (argv : List Bytes) (part : Nat) (m : Msg) (st : St)
    (orcl : Nat → Call → Res) (j : Nat) :
    (Own.runO orcl (evalT env root (.command lno argv) part m st).toProg j).1 =
      eval { env with command := (fun av =>
          execValue (match orcl j (.openPath (ofString "/dev/null")) with | .ok _ => true | _ => false)
            (orcl (j + 1) (.fork (av.map cstr) (Own.okHandle (orcl j (.openPath (ofString "/dev/null"))))))
            (orcl (j + 2) .waitpid)) }
        root (.command lno argv) part m st := by
  rw [eval_command]
  have happ : matchesAppend env st.ml { ty := .command, lno := lno, part := part, strings := argv } =
      (st.ml ++ [{ ty := .command, lno := lno, part := part, strings := argv }], false) :=
    matchesAppend_plain env st.ml _ rfl rfl
  simp only [evalT, happ, List.dropLast_concat, Bool.false_eq_true, if_false]
  cases hav : argv.mapM (interpolate st.ml none) with
  | none => cases st; rfl
  | some av =>
    simp only [ask, Ask.ask_bind, Ask.ret_bind, Ask.toProg, Own.runO_bind, Own.runO_ret, sysCall_command_value, ansStatus,
      commandTri]
    cases st
    cases orcl j (.openPath (ofString "/dev/null")) <;> rfl

/-- `exec()` returns a negative value exactly when the child could not be run (`/dev/null` cannot be opened, `fork` fails,
`waitpid` fails: `ChildOutcome.cannotRun`) or exited with status 127 (its `execvp` failed) - in the terms of
Proofs/ExecStatus.lean (`childOutcome`, `waitKind`). -/
theorem execValue_neg_iff (d : Bool) (f w : Res) :
    execValue d f w < 0 ↔ childOutcome d f w = .cannotRun ∨ childOutcome d f w = .waited (.exited 127) := by
  rw [← commandTri_error_iff, execValue_outcome, commandTri_outcome, outcomeTri_error_iff]

/-- The answer to a file-time question: `stat` of the message's path; a `stat` that does not succeed is a failure. -/
theorem sysCall_fileTime_value (p : Bytes) (f : DateField) (orcl : Nat → Call → Res) (j : Nat) :
    (Own.runO orcl (sysCall (.fileTime p f)) j).1 = .stat (statAnswer (orcl j (.stat p))) := by
  simp only [sysCall, Own.runO_bind, Own.runO_ret]
  rfl

theorem failAns_fileTime_of_stat_failed (tf : Int → Option Bytes) (p : Bytes) (f : DateField) (r : Res)
    (h : ∀ v, r ≠ .ok v) : FailAns tf (.fileTime p f) (.stat (statAnswer r)) := by
  cases r with
  | ok v => exact absurd rfl (h v)
  | name n => rfl
  | eof => rfl
  | err e => rfl


/-! ## the payload of a successful `stat` -/

/-- `statDecode` reads back what `statEncode` (and tools/world.py) writes: a directory, times before and after 1970. -/
example : statDecode (statEncode ⟨true, 5, -7, 1790000000⟩) = ⟨true, 5, -7, 1790000000⟩ := by decide +kernel
example : statDecode (statEncode ⟨false, 0, 1600000000, -1⟩) = ⟨false, 0, 1600000000, -1⟩ := by decide +kernel
/-- The payload of a failed call is no `stat` information. -/
example : statAnswer (.err "EACCES") = none ∧ statAnswer (.ok 1) = some ⟨true, 0, 0, 0⟩ := by decide +kernel

end Mdsort.Proofs
