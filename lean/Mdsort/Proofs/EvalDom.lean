import Mdsort.Model.Eval
import Mdsort.Spec.Rules

/-!
# The pieces of `InDomain` (C03)

Three syntactic functions on the rule tree; `Proofs.InDomain` (Proofs/Eval.lean) combines them
with the two `pathslice` calls on the message path.
-/

namespace Mdsort.Proofs
open Mdsort Mdsort.Model

/-- No backslash: the string contains no back-reference, so interpolating it does not look
at the match list. -/
def noBackslash (s : Bytes) : Bool := !s.contains 92

/-- Well-formed tree: which nodes may occur anywhere in the tree.

* matchers: `all`, `new`, `old`, `header`, `body`, `date` (every field), and `stat` / `command`
  whose strings contain no backslash (no back-references);
* actions: `move`, `flags`, `discard`, `label`, `reject`, `exec`, `add-header`, `pass`, `break`,
  and `flag` with a subdirectory name that fits `NAME_MAX + 1`;
* connectives: block, and, or, !, match;
* excluded: `attachment` conditions and attachment blocks.

`old` reads the Seen flag, which `flags` actions can set: see `hasOld` / `flagsKeepSeen`. -/
def wfTree : Expr → Bool
  | .block _ e => wfTree e
  | .neg _ e => wfTree e
  | .and _ l r => wfTree l && wfTree r
  | .or _ l r => wfTree l && wfTree r
  | .mtch _ c rhs => wfTree c && wfTree rhs
  | .all _ | .new _ | .old _ | .header .. | .body .. | .date .. => true
  | .stat _ p => noBackslash p
  | .command _ argv => argv.all noBackslash
  | .move .. | .flags .. | .discard _ | .label .. | .reject _ | .exec .. | .addHeader .. => true
  | .pass _ | .brk _ => true
  | .flag _ sd => decide (sd.length < NAME_MAX1)
  | .attachment .. | .attBlock .. => false

/-- Length of the longest subdirectory name of a `flag` action in the tree. -/
def maxSubdir : Expr → Nat
  | .block _ e => maxSubdir e
  | .neg _ e => maxSubdir e
  | .and _ l r => max (maxSubdir l) (maxSubdir r)
  | .or _ l r => max (maxSubdir l) (maxSubdir r)
  | .mtch _ c rhs => max (maxSubdir c) (maxSubdir rhs)
  | .flag _ sd => sd.length
  | _ => 0

/-- Every `move` destination either does not fit `PATH_MAX` at all (then the action is an
error on both sides, `actionErr`) or leaves room for `/` and a subdirectory of `L` bytes. -/
def movesFit (L : Nat) : Expr → Bool
  | .block _ e => movesFit L e
  | .neg _ e => movesFit L e
  | .and _ l r => movesFit L l && movesFit L r
  | .or _ l r => movesFit L l && movesFit L r
  | .mtch _ c rhs => movesFit L c && movesFit L rhs
  | .move _ p => decide (p.length ≥ PATH_MAX) || decide (p.length + 1 + L < PATH_MAX)
  | _ => true

/-- The tree contains an `old` matcher. -/
def hasOld : Expr → Bool
  | .block _ e => hasOld e
  | .neg _ e => hasOld e
  | .and _ l r => hasOld l || hasOld r
  | .or _ l r => hasOld l || hasOld r
  | .mtch _ c rhs => hasOld c || hasOld rhs
  | .old _ => true
  | _ => false

/-- No `flags` action of the tree sets the Seen flag (`S`, the one `old` reads). -/
def flagsKeepSeen : Expr → Bool
  | .block _ e => flagsKeepSeen e
  | .neg _ e => flagsKeepSeen e
  | .and _ l r => flagsKeepSeen l && flagsKeepSeen r
  | .or _ l r => flagsKeepSeen l && flagsKeepSeen r
  | .mtch _ c rhs => flagsKeepSeen c && flagsKeepSeen rhs
  | .flags _ fl => !fl.contains 83
  | _ => true

/-- What the proofs carry around for a subtree; `o` = the whole tree contains an `old`. -/
def okTree (L : Nat) (o : Bool) (e : Expr) : Prop :=
  wfTree e = true ∧ movesFit L e = true ∧ maxSubdir e ≤ L ∧
    (hasOld e = true → o = true) ∧ (o = true → flagsKeepSeen e = true)

theorem okTree_block {L o lno e} (h : okTree L o (.block lno e)) : okTree L o e := by
  simpa [okTree, wfTree, movesFit, maxSubdir, hasOld, flagsKeepSeen] using h
theorem okTree_neg {L o lno e} (h : okTree L o (.neg lno e)) : okTree L o e := by
  simpa [okTree, wfTree, movesFit, maxSubdir, hasOld, flagsKeepSeen] using h
theorem okTree_and {L o lno l r} (h : okTree L o (.and lno l r)) : okTree L o l ∧ okTree L o r := by
  simp only [okTree, wfTree, movesFit, maxSubdir, hasOld, flagsKeepSeen, Bool.and_eq_true, Bool.or_eq_true,
    Nat.max_le] at h ⊢
  obtain ⟨⟨a, b⟩, ⟨c, d⟩, ⟨e, f⟩, g, k⟩ := h
  exact ⟨⟨a, c, e, fun x => g (Or.inl x), fun x => (k x).1⟩, b, d, f, fun x => g (Or.inr x), fun x => (k x).2⟩
theorem okTree_or {L o lno l r} (h : okTree L o (.or lno l r)) : okTree L o l ∧ okTree L o r := by
  simp only [okTree, wfTree, movesFit, maxSubdir, hasOld, flagsKeepSeen, Bool.and_eq_true, Bool.or_eq_true,
    Nat.max_le] at h ⊢
  obtain ⟨⟨a, b⟩, ⟨c, d⟩, ⟨e, f⟩, g, k⟩ := h
  exact ⟨⟨a, c, e, fun x => g (Or.inl x), fun x => (k x).1⟩, b, d, f, fun x => g (Or.inr x), fun x => (k x).2⟩
theorem okTree_mtch {L o lno l r} (h : okTree L o (.mtch lno l r)) : okTree L o l ∧ okTree L o r := by
  simp only [okTree, wfTree, movesFit, maxSubdir, hasOld, flagsKeepSeen, Bool.and_eq_true, Bool.or_eq_true,
    Nat.max_le] at h ⊢
  obtain ⟨⟨a, b⟩, ⟨c, d⟩, ⟨e, f⟩, g, k⟩ := h
  exact ⟨⟨a, c, e, fun x => g (Or.inl x), fun x => (k x).1⟩, b, d, f, fun x => g (Or.inr x), fun x => (k x).2⟩

end Mdsort.Proofs
