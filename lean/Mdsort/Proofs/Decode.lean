import Mdsort.Model.Decode
import Mdsort.Spec.Decode

/-! Helper lemmas for C16 (decode.c model = reference decoders). -/

namespace Mdsort.Proofs
open Mdsort

theorem b64idx_eq_b64val : (∀ c : UInt8, Model.b64idx c = (Spec.b64val c).map UInt8.ofNat) ∧ Gen.pad64 = 61 := by
  sorry

theorem b64pton_eq_spec (s : Bytes) (n : Nat) (h : s.length < n) : Model.b64pton s n = Spec.b64 s := by
  sorry

theorem b64_spec_len (s out : Bytes) (h : Spec.b64 s = some out) : 4 * out.length ≤ 3 * s.length := by
  sorry

theorem qpLoop_eq_spec (us : Bool) (s : Bytes) : Model.qpLoop us s [] = Spec.qp us s := by
  sorry

theorem rfc2047_eq_spec (s : Bytes) : Model.rfc2047DecodeRaw s = Spec.rfc2047 s := by
  sorry

end Mdsort.Proofs
