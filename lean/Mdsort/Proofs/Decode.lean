import Mdsort.Model.Decode
import Mdsort.Spec.Decode
import Mdsort.Proofs.Qp
import Mdsort.Proofs.B64Bits
import Mdsort.Proofs.B64
import Mdsort.Proofs.Rfc2047

/-! Helper lemmas for C16 (decode.c model = reference decoders).

The proofs live in `Proofs/Qp.lean` (quoted-printable), `Proofs/B64Bits.lean` (finite facts
about the alphabet and 6-bit arithmetic), `Proofs/B64.lean` (`b64_pton`) and
`Proofs/Rfc2047.lean` (encoded words); this file states the five lemmas used by `Props/C16.lean`. -/

namespace Mdsort.Proofs
open Mdsort

theorem b64idx_eq_b64val : (∀ c : UInt8, Model.b64idx c = (Spec.b64val c).map UInt8.ofNat) ∧ Gen.pad64 = 61 :=
  ⟨b64idx_eq_b64val', rfl⟩

theorem b64pton_eq_spec (s : Bytes) (n : Nat) (h : s.length < n) : Model.b64pton s n = Spec.b64 s :=
  b64pton_eq_spec' s n h

theorem b64_spec_len (s out : Bytes) (h : Spec.b64 s = some out) : 4 * out.length ≤ 3 * s.length :=
  b64_spec_len' s out h

theorem qpLoop_eq_spec (us : Bool) (s : Bytes) : Model.qpLoop us s [] = Spec.qp us s := by
  simpa using qpLoop_gen us s []

theorem rfc2047_eq_spec (s : Bytes) : Model.rfc2047DecodeRaw s = Spec.rfc2047 s :=
  rfc2047_eq_spec' s

end Mdsort.Proofs
