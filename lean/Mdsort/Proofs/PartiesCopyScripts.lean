import Mdsort.Proofs.PartiesCopyLocal
import Mdsort.Proofs.WorldWrite

/-! The protocol `CopyI` holds for every script of `matches_exec` and for the listing party
(`scanExec`), whatever the predicted results are: every action ends with nothing in flight. -/

namespace Mdsort.Proofs.Parties
set_option linter.unusedSimpArgs false
set_option linter.unusedVariables false
open Mdsort Mdsort.Model
open Mdsort.Proofs.World (bind_eq pure_eq ret_bind call_bind' call_bind bind_assoc Calls All hdrLine render_eq)
open Mdsort.Proofs.Own

variable {M : Msg → Prop}

theorem all_mono {α} {P Q : α → Prop} {p : Prog α} (h : All P p) (hpq : ∀ a, P a → Q a) : All Q p := by
  induction p with
  | ret a => exact hpq a h
  | call c k ih => intro r; exact ih r (h r)

/-! ## `maildir_genname` -/

theorem copy_genname (env : PEnv) (md : Maildir) (flags : Option Bytes) (fuel count : Nat) (tr : Trace)
    (h0 : inFlightH tr = []) :
    wp PredR (CopyI M) (genname env md flags fuel count)
      (fun res tr' => match res with
        | none => inFlightH tr' = []
        | some x => ∃ d, md.dirH = some d ∧ Fresh1 tr' (d, x.2) x.1 []) tr := by
  induction fuel generalizing count tr with
  | zero => unfold genname; exact h0
  | succ fuel ih =>
    unfold genname
    simp only [bind_eq, pure_eq, call_bind]
    generalize (decimalInt env.now ++ [46] ++ decimal env.pid ++ [95] ++ decimal ((count + 1) % gennameWrap) ++ [46] ++ env.host ++
          flags.getD []) = nm
    split
    · exact h0
    split
    · exact h0
    rename_i d hd
    refine wp_call (show inFlightH tr = [] from h0) fun r hr => ?_
    rcases predR_openExcl hr with ⟨h, rfl⟩ | ⟨e, rfl⟩
    · refine ⟨d, hd, ?_, ?_, ?_, ?_, ?_⟩
      · rw [inFlightH_snoc, h0]; rfl
      all_goals (rw [locOf_snoc]; rfl)
    · dsimp only
      have h1 : inFlightH (tr ++ [(Call.openExcl d nm, Res.err e)]) = [] := by rw [inFlightH_snoc, h0]; rfl
      split
      · exact ih _ _ h1
      · exact h1

/-! ## removing the original, then the copy if that failed -/

/-- After the attempt to remove the original `(d', n')` while `x` is in flight. -/
theorem flight_after_commit {T : Trace} {x : Handle × Bytes} (hF : inFlightH T = [x]) (d' : Handle) (n' : Bytes) (r : Res) :
    (isOk r = true → inFlightH (T ++ [(Call.unlinkat d' n', r)]) = []) ∧
    (isOk r = false → inFlightH (T ++ [(Call.unlinkat d' n', r)]) = [] ∨ inFlightH (T ++ [(Call.unlinkat d' n', r)]) = [x]) := by
  rw [inFlightH_snoc, hF, inFlightUpd_unlinkat]
  by_cases hx : x = (d', n')
  · subst hx; simp
  · have : ([x].contains (d', n')) = false := by
      simp only [List.contains_cons, List.contains_nil, Bool.or_false, beq_eq_false_iff_ne, ne_eq]
      exact fun e => hx e.symm
    simp only [this, Bool.false_eq_true, if_false]
    constructor
    · intro h; simp [h]
    · intro h; simp [h]

/-- The roll-back `maildir_unlink` of the created name, whether it is still in flight or not. -/
theorem copy_rollback (md : Maildir) (d : Handle) (name : Bytes) (hd : md.dirH = some d) (T : Trace)
    (hF : inFlightH T = [] ∨ inFlightH T = [(d, name)]) :
    wp PredR (CopyI M) (maildirUnlink md name) (fun _ tr' => inFlightH tr' = []) T := by
  unfold maildirUnlink
  simp only [hd, bind_eq, pure_eq, call_bind]
  rcases hF with hF | hF
  · refine wp_call (.inr (.inl hF)) fun r _ => ?_
    show inFlightH _ = []
    rw [inFlightH_snoc, hF, inFlightUpd_unlinkat]; simp
  · refine wp_call (.inl (by rw [hF]; exact List.mem_singleton.2 rfl)) fun r _ => ?_
    show inFlightH _ = []
    rw [inFlightH_snoc, hF, inFlightUpd_unlinkat]; simp

theorem fresh1_I_commit {T : Trace} {m : Msg} (hM : M m)
    (hst : (locOf T).st = none) (hdup : (locOf T).dup = none) (hwr : (locOf T).wr = (messageWrite m).1)
    (d' : Handle) (n' : Bytes) : CopyI M T (.unlinkat d' n') :=
  .inr (.inr ⟨hst, hdup, m, hM, hwr⟩)

/-! ## `maildir_write` (label, add-header) -/

theorem copy_maildirWrite (env : PEnv) (md : Maildir) (ms : MsgSt) (tr : Trace) (h0 : inFlightH tr = []) (hM : M ms.msg) :
    wp PredR (CopyI M) (maildirWrite env md ms) (fun x tr' => inFlightH tr' = [] ∧ x.1.msg = ms.msg) tr := by
  unfold maildirWrite gennameStart
  simp only [bind_eq, pure_eq, call_bind]
  split
  · exact ⟨h0, rfl⟩
  rename_i fl _
  refine wp_bind_ext (copy_genname env md (some fl) gennameAttempts _ _ h0) ?_
  intro g L1 hg
  cases g with
  | none => exact ⟨hg, rfl⟩
  | some x =>
  obtain ⟨fd, name⟩ := x
  obtain ⟨d, hd, s1⟩ := hg
  dsimp only at s1 ⊢
  refine wp_bind_ext (copy_messageWriteP ms.msg s1) ?_
  rintro we L2 ⟨rfl, s2⟩
  simp only [List.nil_append] at s2
  generalize tr ++ L1 ++ L2 = T at s2
  -- close(fd)
  refine wp_call (.inr s2.fd) fun rc _ => ?_
  have hl3 : locOf (T ++ [(Call.close fd, rc)]) = (locOf T).drop fd := by rw [locOf_snoc]; rfl
  have hF3 : inFlightH (T ++ [(Call.close fd, rc)]) = [(d, name)] := by rw [inFlightH_snoc]; exact s2.flight
  generalize hT3 : T ++ [(Call.close fd, rc)] = T3 at hl3 hF3
  simp only [Bool.false_eq_true, if_false]
  unfold maildirUnlink
  simp only [hd, bind_eq, pure_eq, call_bind, call_bind', ret_bind]
  -- unlink of the original
  refine wp_call (fresh1_I_commit hM (by rw [hl3]; simp [Loc.drop, clr, s2.st]) (by rw [hl3]; simp [Loc.drop, clr, s2.dup])
    (by rw [hl3]; exact s2.wr) d ms.name) fun ru _ => ?_
  obtain ⟨hok, herr⟩ := flight_after_commit hF3 d ms.name ru
  cases hru : isOk ru with
  | false =>
    simp only [Bool.not_false, if_true]
    refine wp_call ?_ fun r2 _ => ?_
    · rcases herr hru with h | h
      · exact .inr (.inl h)
      · exact .inl (by rw [h]; exact List.mem_singleton.2 rfl)
    · refine ⟨?_, rfl⟩
      rw [inFlightH_snoc, inFlightUpd_unlinkat]
      rcases herr hru with h | h <;> rw [h] <;> simp
  | true =>
    simp only [Bool.not_true, Bool.false_eq_true, if_false]
    refine wp_mono (wp_quiet0 (P := fun x => x.1.msg = ms.msg) ?_ ?_ _ (hok hru)) (fun _ _ h => ⟨h.2, h.1⟩)
    · repeat' (first | exact q0_messageSetFile _ _ _ _ | quiet0_step)
    · repeat' (first | exact rfl | assumption | (refine World.All.bind_mono (World.all_messageSetFile _ _ _ _) ?_; intro _ _) | all_step)

/-! ## `maildir_move`, including the copy across devices -/

/-- What follows the rename (and the roll-back) in `maildir_move`: nothing in flight any more. -/
theorem copy_moveTail (dh fd : Handle) (dstname : Bytes) (ms0 ms' : MsgSt) (b : Bool) (mt : Option Nat)
    (s d : Subdir) (dir : Bytes) (hmsg : ms'.msg = ms0.msg) (T : Trace) (h0 : inFlightH T = []) :
    wp PredR (CopyI M)
      (Prog.call (Call.close fd) fun _ =>
        (if (!b && mt.isSome) = true then Prog.call (Call.utimensat dh dstname none mt) fun r => Prog.ret !isOk r
            else Prog.ret b).bind
          fun err2 => if err2 = true then Prog.ret (ms', true) else messageSetFileMoved ms' s d dir dstname)
      (fun x tr' => inFlightH tr' = [] ∧ x.1.msg = ms0.msg) T := by
  refine wp_mono (wp_quiet0 (P := fun x => x.1.msg = ms0.msg) ?_ ?_ T h0) (fun _ _ h => ⟨h.2, h.1⟩)
  · repeat' (first | exact q0_messageSetFileMoved _ _ _ _ _ | quiet0_step)
  · repeat' (first | exact hmsg | exact all_mono (World.all_messageSetFileMoved _ _ _ _ _) (fun _ hx => hx.trans hmsg) | all_step)

theorem copy_maildirMove (env : PEnv) (s dst : Maildir) (ms : MsgSt) (tr : Trace) (h0 : inFlightH tr = []) (hM : M ms.msg) :
    wp PredR (CopyI M) (maildirMove env s dst ms) (fun x tr' => inFlightH tr' = [] ∧ x.1.msg = ms.msg) tr := by
  unfold maildirMove gennameStart
  simp only [bind_eq, pure_eq, call_bind]
  split
  · exact ⟨h0, rfl⟩
  split
  rotate_left
  · exact ⟨h0, rfl⟩
  rename_i sh dh hsh hdh
  refine wp_bind_ext (P := fun _ T => inFlightH T = []) ?_ ?_
  · split
    · refine wp_quiet0' ?_ tr h0
      repeat' quiet0_step
    · exact h0
  intro doutime L0 h1
  split
  · exact ⟨h1, rfl⟩
  rename_i fl _
  refine wp_bind_ext (copy_genname env dst (some fl) gennameAttempts _ _ h1) ?_
  intro g L1 hg
  cases g with
  | none => exact ⟨hg, rfl⟩
  | some x =>
  obtain ⟨fd, dstname⟩ := x
  obtain ⟨d, hd, s1⟩ := hg
  rw [hdh] at hd
  cases hd
  dsimp only at s1 ⊢
  generalize tr ++ L0 ++ L1 = T at s1 ⊢
  refine wp_call (show (dh, dstname) ∈ inFlightH T by rw [s1.flight]; exact List.mem_singleton.2 rfl) fun r hr => ?_
  -- the block that yields (err1, ms')
  refine wp_bind_ext (P := fun a T' => a.2.msg = ms.msg ∧
      ((a.1 = false ∧ inFlightH T' = []) ∨ (a.1 = true ∧ (inFlightH T' = [] ∨ inFlightH T' = [(dh, dstname)])))) ?_ ?_
  · rcases predR_renameat hr with ⟨v, rfl⟩ | ⟨e, rfl⟩
    · refine ⟨rfl, .inl ⟨rfl, ?_⟩⟩
      rw [inFlightH_snoc, s1.flight]; simp [inFlightUpd]
    · have s2 : Fresh1 (T ++ [(Call.renameat sh ms.name dh dstname, Res.err e)]) (dh, dstname) fd [] := by
        refine ⟨?_, ?_, ?_, ?_, ?_⟩
        · rw [inFlightH_snoc]; exact s1.flight
        all_goals (rw [locOf_snoc]; first | exact s1.fd | exact s1.dup | exact s1.st | exact s1.wr)
      dsimp only
      split
      · -- EXDEV: write a copy, then remove the source
        refine wp_bind_ext (copy_messageWriteP ms.msg s2) ?_
        rintro we L2 ⟨rfl, s3⟩
        simp only [List.nil_append] at s3
        simp only [Bool.false_eq_true, if_false]
        unfold maildirUnlink
        simp only [hsh, bind_eq, pure_eq, call_bind, call_bind', ret_bind]
        refine wp_call (fresh1_I_commit hM s3.st s3.dup s3.wr sh ms.name) fun ru _ => ?_
        obtain ⟨hok, herr⟩ := flight_after_commit s3.flight sh ms.name ru
        cases hru : isOk ru with
        | false =>
          refine ⟨by simp, .inr ⟨by simp, ?_⟩⟩
          simpa [List.append_assoc] using herr hru
        | true =>
          refine ⟨by simp, .inl ⟨by simp, ?_⟩⟩
          simpa [List.append_assoc] using hok hru
      · exact ⟨rfl, .inr ⟨rfl, .inr s2.flight⟩⟩
  · rintro ⟨err1, ms'⟩ L2 ⟨hmsg, hfl⟩
    dsimp only at hmsg hfl ⊢
    rcases hfl with ⟨rfl, hF⟩ | ⟨rfl, hF⟩
    · simp only [Bool.false_eq_true, if_false]
      exact copy_moveTail dh fd dstname ms ms' false doutime _ _ _ hmsg _ hF
    · rw [if_pos rfl]
      refine wp_bind_ext (copy_rollback dst dh dstname hdh _ hF) ?_
      intro _ L3 hF3
      exact copy_moveTail dh fd dstname ms ms' true doutime _ _ _ hmsg _ hF3

/-! ## temporary files of `exec stdin` -/

theorem copy_writefd (tmpdir : Bytes) (tr : Trace) (h0 : inFlightH tr = []) :
    wp PredR (CopyI M) (writefd tmpdir)
      (fun res tr' => inFlightH tr' = [] ∧ ∀ fd, res = some fd → fd ∈ (locOf tr').tmp) tr := by
  unfold writefd
  simp only [bind_eq, pure_eq, call_bind]
  split
  · exact ⟨h0, by intro _ h; cases h⟩
  rename_i tmpl _
  refine wp_call True.intro fun r hr => ?_
  obtain ⟨fd, rfl⟩ := predR_mkostemp hr
  dsimp only
  refine wp_call True.intro fun r2 hr2 => ?_
  rw [predR_ok0 hr2 (.inr (.inr (.inr (.inr (.inr (.inl ⟨_, rfl⟩))))))]
  simp only [isOk, if_true]
  refine ⟨?_, ?_⟩
  · rw [inFlightH_snoc, inFlightH_snoc, h0]; rfl
  · intro fd' h
    cases h
    rw [locOf_snoc, locOf_snoc]
    show fd ∈ (fd :: (locOf tr).tmp)
    exact List.mem_cons_self ..

theorem copy_writeAll (fd : Handle) (fuel : Nat) (data : Bytes) (tr : Trace) (h0 : inFlightH tr = [])
    (hfd : fd ∈ (locOf tr).tmp) :
    wp PredR (CopyI M) (writeAll fd fuel data) (fun _ tr' => inFlightH tr' = []) tr := by
  induction fuel generalizing data tr with
  | zero => unfold writeAll; exact h0
  | succ fuel ih =>
    unfold writeAll
    simp only [bind_eq, pure_eq, call_bind]
    split
    · exact h0
    refine wp_call hfd fun r hr => ?_
    rw [predR_write hr]
    dsimp only
    have h1 : inFlightH (tr ++ [(Call.write fd data, Res.ok data.length)]) = [] := by rw [inFlightH_snoc, h0]; rfl
    split
    · exact h1
    · exact ih _ _ h1 (by rw [locOf_snoc]; exact hfd)

/-- Nothing in flight, `h` is a stream on a temporary file. -/
def TStream (tr : Trace) (h : Handle) : Prop := inFlightH tr = [] ∧ h ∈ (locOf tr).tst

theorem TStream.I {tr : Trace} {h : Handle} (s : TStream tr h) :
    (inFlightH tr ≠ [] ∧ (locOf tr).st = some h) ∨ h ∈ (locOf tr).tst := .inr s.2

theorem TStream.fprintf {tr : Trace} {h : Handle} (s : TStream tr h) (data : Bytes) (v : Nat) :
    TStream (tr ++ [(.fprintf h data, .ok v)]) h := by
  refine ⟨by rw [inFlightH_snoc]; exact s.1, ?_⟩
  rw [locOf_snoc]
  show h ∈ (if (locOf tr).st = some h then _ else locOf tr).tst
  split
  · exact s.2
  · exact s.2

theorem TStream.same {tr : Trace} {h : Handle} (s : TStream tr h) (c : Call) (r : Res)
    (hc : (∃ h', c = .fflush h') ∨ (∃ h', c = .fsync h')) : TStream (tr ++ [(c, r)]) h := by
  have hl : locOf (tr ++ [(c, r)]) = locOf tr := by
    rw [locOf_snoc]; rcases hc with ⟨_, rfl⟩ | ⟨_, rfl⟩ <;> rfl
  have hf : inFlightH (tr ++ [(c, r)]) = inFlightH tr := by
    rw [inFlightH_snoc]; rcases hc with ⟨_, rfl⟩ | ⟨_, rfl⟩ <;> rfl
  exact ⟨hf ▸ s.1, hl ▸ s.2⟩

theorem tmp_hdrs (h : Handle) (hs : List Hdr) {tr : Trace} (s : TStream tr h) :
    wp PredR (CopyI M) (messageWriteP.hdrs h hs) (fun err tr' => err = false ∧ TStream tr' h) tr := by
  induction hs generalizing tr with
  | nil => unfold messageWriteP.hdrs; exact ⟨rfl, s⟩
  | cons hd rest ih =>
    unfold messageWriteP.hdrs
    simp only [bind_eq, pure_eq, call_bind]
    refine wp_call s.I fun r hr => ?_
    rw [predR_fprintf hr]
    simp only [isOk, if_true]
    exact ih (s.fprintf _ _)

/-- `message_write` into a temporary file (an attachment piped to a command). -/
theorem tmp_messageWriteP (m : Msg) (fd : Handle) (tr : Trace) (h0 : inFlightH tr = []) (hfd : fd ∈ (locOf tr).tmp) :
    wp PredR (CopyI M) (messageWriteP m fd) (fun _ tr' => inFlightH tr' = []) tr := by
  unfold messageWriteP
  simp only [bind_eq, pure_eq, call_bind]
  refine wp_call True.intro fun r hr => ?_
  obtain ⟨h, rfl⟩ := predR_dupfd hr
  dsimp only
  have hc : (locOf tr).tmp.contains fd = true := by simpa using hfd
  have hl1 : (locOf (tr ++ [(Call.dupfd fd, Res.ok h)])).tmp = h :: (locOf tr).tmp := by
    rw [locOf_snoc]; simp [locUpd, hfd]
  have hf1 : inFlightH (tr ++ [(Call.dupfd fd, Res.ok h)]) = [] := by rw [inFlightH_snoc]; exact h0
  generalize tr ++ [(Call.dupfd fd, Res.ok h)] = T at hl1 hf1
  refine wp_call (.inr (by rw [hl1]; exact List.mem_cons_self ..)) fun r2 hr2 => ?_
  rw [predR_ok0 hr2 (.inl ⟨_, rfl⟩)]
  simp only [isOk, Bool.not_true, Bool.false_eq_true, if_false]
  have s2 : TStream (T ++ [(Call.fdopen h, Res.ok 0)]) h := by
    refine ⟨by rw [inFlightH_snoc]; exact hf1, ?_⟩
    rw [locOf_snoc]
    have : h ∈ (locOf T).tmp := by rw [hl1]; exact List.mem_cons_self ..
    simp [locUpd, this]
  refine wp_bind_ext (tmp_hdrs h (sortById m.headers) s2) ?_
  rintro herr L1 ⟨rfl, s3⟩
  simp only [Bool.false_eq_true, if_false]
  refine wp_call s3.I fun r3 hr3 => ?_
  rw [predR_fprintf hr3]
  simp only [isOk, Bool.not_true, Bool.false_eq_true, if_false]
  have s4 := s3.fprintf ([10] ++ m.body) ([10] ++ m.body).length
  refine wp_call s4.I fun r4 hr4 => ?_
  rw [predR_ok0 hr4 (.inr (.inl ⟨_, rfl⟩))]
  simp only [isOk, Bool.not_true, Bool.false_eq_true, if_false]
  have s5 := s4.same (.fflush h) (.ok 0) (.inl ⟨_, rfl⟩)
  refine wp_call s5.I fun r5 hr5 => ?_
  have s6 := s5.same (.fsync h) r5 (.inr ⟨_, rfl⟩)
  simp only [ret_bind]
  refine wp_call s6.I fun r6 _ => ?_
  show inFlightH _ = []
  rw [inFlightH_snoc]; exact s6.1

theorem copy_messageGetFd (env : PEnv) (ms : MsgSt) (part : Option Msg) (dobody : Bool) (tr : Trace) (h0 : inFlightH tr = []) :
    wp PredR (CopyI M) (messageGetFd env ms part dobody) (fun _ tr' => inFlightH tr' = []) tr := by
  unfold messageGetFd
  simp only [bind_eq, pure_eq, call_bind]
  have closeTail : ∀ (T : Trace) (fdo : Option Handle), inFlightH T = [] →
      wp PredR (CopyI M)
        (match fdo with
          | none => Prog.ret none
          | some fd => Prog.call (Call.lseek fd) fun r =>
              if isOk r = true then Prog.ret (some fd) else Prog.call (Call.close fd) fun _ => Prog.ret none)
        (fun _ tr' => inFlightH tr' = []) T := by
    intro T fdo hT
    refine wp_quiet0' ?_ T hT
    repeat' quiet0_step
  refine wp_bind_ext (P := fun _ T => inFlightH T = []) ?_ (fun fdo L h => closeTail _ fdo h)
  split
  · -- the decoded body
    split
    · exact h0
    · rename_i body _
      refine wp_bind_ext (copy_writefd env.tmpdir tr h0) ?_
      rintro f L1 ⟨h1, hfd⟩
      cases f with
      | none => exact h1
      | some fd =>
        dsimp only
        refine wp_bind_ext (copy_writeAll fd _ _ _ h1 (hfd fd rfl)) ?_
        intro e L2 h2
        split
        · refine wp_quiet0' ?_ _ h2
          repeat' quiet0_step
        · exact h2
  · split
    · -- an attachment: written out into a temporary file
      refine wp_bind_ext (copy_writefd env.tmpdir tr h0) ?_
      rintro f L1 ⟨h1, hfd⟩
      cases f with
      | none => exact h1
      | some fd =>
        dsimp only
        refine wp_bind_ext (tmp_messageWriteP _ fd _ h1 (hfd fd rfl)) ?_
        intro e L2 h2
        split
        · refine wp_quiet0' ?_ _ h2
          repeat' quiet0_step
        · exact h2
    · -- the message itself: a duplicate of its descriptor
      refine wp_quiet0' ?_ tr h0
      repeat' quiet0_step

/-! ## `matches_exec` -/

theorem copy_moveBranch (env : PEnv) (mh : Match) (st : ExecSt) (tr : Trace) (h0 : inFlightH tr = []) (hM : M st.ms.msg) :
    wp PredR (CopyI M) (moveBranch env mh st) (fun x tr' => inFlightH tr' = [] ∧ x.1.ms.msg = st.ms.msg) tr := by
  unfold moveBranch
  refine wp_bind_ext (wp_quiet0' (q0_maildirOpenDst _) _ h0) ?_
  intro d L0 h1
  cases d with
  | none => exact ⟨h1, rfl⟩
  | some dst =>
    dsimp only
    refine wp_bind_ext (copy_maildirMove env st.src dst st.ms _ h1 hM) ?_
    rintro x L1 ⟨h2, hmsg⟩
    have closeThen : ∀ (md : Maildir) (r : ExecSt × Bool), r.1.ms.msg = st.ms.msg →
        wp PredR (CopyI M) ((maildirClose md).bind fun _ => Prog.ret r)
          (fun x tr' => inFlightH tr' = [] ∧ x.1.ms.msg = st.ms.msg) (tr ++ L0 ++ L1) := by
      intro md r hr
      refine wp_bind_ext (wp_quiet0' (q0_maildirClose _) _ h2) ?_
      intro _ L2 h3
      exact ⟨h3, hr⟩
    split
    · exact closeThen _ _ hmsg
    · split
      · split
        · exact closeThen _ _ hmsg
        · exact ⟨h2, hmsg⟩
      · exact closeThen _ _ hmsg

theorem copy_execOne (env : PEnv) (mh : Match) (st : ExecSt) (tr : Trace) (h0 : inFlightH tr = []) (hM : M st.ms.msg) :
    wp PredR (CopyI M) (execOne env mh st) (fun x tr' => inFlightH tr' = [] ∧ x.1.ms.msg = st.ms.msg) tr := by
  by_cases hty : mh.ty = .move ∨ mh.ty = .flag ∨ mh.ty = .flags
  · rw [execOne_move env mh st hty]
    exact copy_moveBranch env mh st tr h0 hM
  unfold execOne
  simp only [bind_eq, pure_eq, call_bind]
  split
  · exact absurd (.inl ‹_›) hty
  · exact absurd (.inr (.inl ‹_›)) hty
  · exact absurd (.inr (.inr ‹_›)) hty
  · -- discard
    unfold maildirUnlink
    split
    · exact ⟨h0, rfl⟩
    · simp only [bind_eq, pure_eq, call_bind, call_bind', ret_bind]
      refine wp_call (.inr (.inl h0)) fun r _ => ?_
      refine ⟨?_, ?_⟩
      · rw [inFlightH_snoc, h0, inFlightUpd_unlinkat]; simp
      · show (if (!isOk r) = true then st else _).ms.msg = st.ms.msg
        split <;> rfl
  · refine wp_bind_ext (copy_maildirWrite env st.src st.ms _ h0 hM) ?_
    rintro x L ⟨h1, hmsg⟩
    exact ⟨h1, hmsg⟩
  · refine wp_bind_ext (copy_maildirWrite env st.src st.ms _ h0 hM) ?_
    rintro x L ⟨h1, hmsg⟩
    exact ⟨h1, hmsg⟩
  · exact ⟨h0, rfl⟩
  · -- exec
    refine wp_bind_ext (P := fun _ T => inFlightH T = []) ?_ ?_
    · split
      · refine wp_bind_ext (copy_messageGetFd env st.ms _ _ _ h0) ?_
        intro _ _ h
        exact h
      · exact h0
    · intro fdr L0 h1
      cases fdr with
      | none => exact ⟨h1, rfl⟩
      | some fd =>
        dsimp only
        refine wp_bind_ext (wp_quiet0' (q0_execP _ fd) _ h1) ?_
        intro rc L1 h2
        cases fd with
        | none => exact ⟨h2, rfl⟩
        | some h =>
          dsimp only
          refine wp_call (.inl h2) fun r _ => ?_
          refine ⟨?_, rfl⟩
          rw [inFlightH_snoc, h2]; rfl
  · exact ⟨h0, rfl⟩

theorem copy_matchesExec (env : PEnv) (ml : MatchList) (st : ExecSt) (tr : Trace) (h0 : inFlightH tr = []) (hM : M st.ms.msg) :
    wp PredR (CopyI M) (matchesExec env ml st) (fun _ tr' => inFlightH tr' = []) tr := by
  induction ml generalizing st tr with
  | nil =>
    rw [matchesExec_nil]
    split
    · refine wp_bind_ext (wp_quiet0' (q0_maildirClose _) _ h0) ?_
      intro _ L h1
      exact h1
    · exact h0
  | cons mh rest ih =>
    rw [matchesExec_cons]
    refine wp_bind_ext (copy_execOne env mh st tr h0 hM) ?_
    rintro x L ⟨h1, hmsg⟩
    split
    · unfold errTail
      split
      · refine wp_bind_ext (wp_quiet0' (q0_maildirClose _) _ h1) ?_
        intro _ L2 h2
        exact h2
      · exact h1
    · exact ih x.1 _ h1 (by rw [hmsg]; exact hM)

/-- A party that executes one action list. -/
theorem copy_party (env : PEnv) (ml : MatchList) (st : ExecSt) (hM : M st.ms.msg) :
    wp PredR (CopyI M) (errOf (matchesExec env ml st)) (fun _ tr' => inFlightH tr' = []) [] := by
  unfold errOf
  refine wp_bind_ext (copy_matchesExec env ml st [] rfl hM) ?_
  intro x L h
  exact h

/-- A party that lists a directory and executes the action list of every name found. -/
theorem copy_scanExec (env : PEnv) (md : Maildir) (rule : Bytes → Option (MatchList × MsgSt))
    (hM : ∀ n ml ms, rule n = some (ml, ms) → M ms.msg) (fuel : Nat) (e : Bool) (tr : Trace) (h0 : inFlightH tr = []) :
    wp PredR (CopyI M) (scanExec env md rule fuel e) (fun _ tr' => inFlightH tr' = []) tr := by
  induction fuel generalizing e tr with
  | zero => unfold scanExec; exact h0
  | succ fuel ih =>
    unfold scanExec
    split
    · exact h0
    rename_i d hd
    refine wp_call True.intro fun r hrr => ?_
    have h1 : inFlightH (tr ++ [(Call.readdir d, r)]) = [] := by rw [inFlightH_snoc, h0]; rfl
    split
    · rename_i n
      split
      · exact ih _ _ h1
      · split
        · exact ih _ _ h1
        · rename_i ml ms hr
          refine wp_bind_ext (copy_matchesExec env ml _ _ h1 (hM n ml ms hr)) ?_
          intro x L h2
          exact ih _ _ h2
    · exact h1
    · exact h1

end Mdsort.Proofs.Parties
