import Mdsort.Model.MainText
import Mdsort.Proofs.World
import Mdsort.Proofs.ConfErrors

/-!
# The run from the configuration text (`Model.mainText`)

* the trees of an accepted configuration have no empty block, so they are trees of the evaluator
  (`confBlocksOf_accepted`);
* for accepted text `mainText` is `mainP` on those trees (`mainText_accepted`);
* for rejected text the run opens and closes the configuration file and nothing else, under every
  fault plan, and the exit status is 1 (75 with `-`) (`mainText_rejected`);
* refused `-D` options: no call at all, exit status 1 (`mainText_invalidDefs`).
-/

namespace Mdsort.Proofs.MainText
open Mdsort Mdsort.Model Mdsort.Spec

theorem mt_ofExpr_cond {e : Expr} (h : isCondLeaf e = true) : CTree.ofExpr e = .leaf e := by
  cases e <;> simp_all [isCondLeaf, CTree.ofExpr]

theorem mt_ofExpr_act {e : Expr} (h : e.leafAction = true) : CTree.ofExpr e = .leaf e := by
  cases e <;> simp_all [Expr.leafAction, CTree.ofExpr]

/-- A well-formed tree in which every block position holds an action has no empty block: it is the
image of an evaluator tree. -/
theorem mt_toExpr_of_wf (rx : Pat → Bool) : ∀ (t : CTree) (k : Kind), wfK rx k t = true →
    (k = .block → t.countActions > 0) → ∃ e, t.toExpr = some e ∧ CTree.ofExpr e = t := by
  intro t
  induction t with
  | leaf e =>
    intro k h _
    refine ⟨e, rfl, ?_⟩
    cases k <;> simp only [wfK, Bool.and_eq_true, Bool.false_eq_true] at h
    · exact mt_ofExpr_cond h.1
    · exact mt_ofExpr_act h.1
    · exact mt_ofExpr_act h.1
  | emptyBlock l =>
    intro k h hb
    cases k <;> simp only [wfK, Bool.false_eq_true] at h
    have := hb rfl
    simp [CTree.countActions] at this
  | block l b ih =>
    intro k h hb
    cases k <;> simp only [wfK, Bool.false_eq_true] at h
    obtain ⟨e, he, hof⟩ := ih .rules h (by intro hk; cases hk)
    exact ⟨.block l e, by simp [CTree.toExpr, he], by simp [CTree.ofExpr, hof]⟩
  | neg l e ih =>
    intro k h _
    cases k <;> simp only [wfK, Bool.false_eq_true] at h
    obtain ⟨e', he, hof⟩ := ih .cond h (by intro hk; cases hk)
    exact ⟨.neg l e', by simp [CTree.toExpr, he], by simp [CTree.ofExpr, hof]⟩
  | attachment l e ih =>
    intro k h _
    cases k <;> simp only [wfK, Bool.false_eq_true] at h
    obtain ⟨e', he, hof⟩ := ih .cond h (by intro hk; cases hk)
    exact ⟨.attachment l e', by simp [CTree.toExpr, he], by simp [CTree.ofExpr, hof]⟩
  | attBlock l b ih =>
    intro k h _
    cases k <;> simp only [wfK, Bool.false_eq_true, Bool.and_eq_true, decide_eq_true_eq] at h
    all_goals
      obtain ⟨e', he, hof⟩ := ih .block h.1.1 (fun _ => h.1.2)
      exact ⟨.attBlock l e', by simp [CTree.toExpr, he], by simp [CTree.ofExpr, hof]⟩
  | and l a b iha ihb =>
    intro k h _
    cases k <;> simp only [wfK, Bool.false_eq_true, Bool.and_eq_true] at h
    · obtain ⟨ea, hea, hofa⟩ := iha .cond h.1 (by intro hk; cases hk)
      obtain ⟨eb, heb, hofb⟩ := ihb .cond h.2 (by intro hk; cases hk)
      exact ⟨.and l ea eb, by simp [CTree.toExpr, hea, heb], by simp [CTree.ofExpr, hofa, hofb]⟩
    · obtain ⟨ea, hea, hofa⟩ := iha .acts h.1 (by intro hk; cases hk)
      obtain ⟨eb, heb, hofb⟩ := ihb .act h.2 (by intro hk; cases hk)
      exact ⟨.and l ea eb, by simp [CTree.toExpr, hea, heb], by simp [CTree.ofExpr, hofa, hofb]⟩
  | or l a b iha ihb =>
    intro k h _
    cases k <;> simp only [wfK, Bool.false_eq_true, Bool.and_eq_true] at h
    · obtain ⟨ea, hea, hofa⟩ := iha .cond h.1 (by intro hk; cases hk)
      obtain ⟨eb, heb, hofb⟩ := ihb .cond h.2 (by intro hk; cases hk)
      exact ⟨.or l ea eb, by simp [CTree.toExpr, hea, heb], by simp [CTree.ofExpr, hofa, hofb]⟩
    · obtain ⟨ea, hea, hofa⟩ := iha .rules h.1 (by intro hk; cases hk)
      obtain ⟨eb, heb, hofb⟩ := ihb .rule h.2 (by intro hk; cases hk)
      exact ⟨.or l ea eb, by simp [CTree.toExpr, hea, heb], by simp [CTree.ofExpr, hofa, hofb]⟩
  | mtch l c r ihc ihr =>
    intro k h _
    cases k <;> simp only [wfK, Bool.false_eq_true, Bool.and_eq_true, Bool.or_eq_true, decide_eq_true_eq] at h
    all_goals
      obtain ⟨ec, hec, hofc⟩ := ihc .cond h.1 (by intro hk; cases hk)
      have hr : ∃ er, r.toExpr = some er ∧ CTree.ofExpr er = r := by
        rcases h.2 with h2 | h2
        · exact ihr .block h2.1 (fun _ => h2.2)
        · exact ihr .acts h2.1 (by intro hk; cases hk)
      obtain ⟨er, her, hofr⟩ := hr
      exact ⟨.mtch l ec er, by simp [CTree.toExpr, hec, her], by simp [CTree.ofExpr, hofc, hofr]⟩

/-- The blocks of the evaluator as the parser's. -/
def toPBlocks (conf : List ConfBlock) : List PBlock :=
  conf.map fun b => { paths := b.paths, tree := CTree.ofExpr b.expr }

theorem mt_confBlocksOf_ok (rx : Pat → Bool) : ∀ (blocks : List PBlock), (∀ b ∈ blocks, blockOK rx b = true) →
    ∃ conf, confBlocksOf blocks = some conf ∧ toPBlocks conf = blocks := by
  intro blocks
  induction blocks with
  | nil => intro _; exact ⟨[], rfl, rfl⟩
  | cons b r ih =>
    intro h
    obtain ⟨conf, hc, hp⟩ := ih (fun x hx => h x (by simp [hx]))
    have hb := h b (by simp)
    simp only [blockOK, Bool.and_eq_true, decide_eq_true_eq] at hb
    obtain ⟨e, he, hof⟩ := mt_toExpr_of_wf rx b.tree .block hb.1.1 (fun _ => hb.1.2)
    refine ⟨{ paths := b.paths, expr := e } :: conf, by simp [confBlocksOf, he, hc], ?_⟩
    simp only [toPBlocks, List.map_cons, hof] at hp ⊢
    rw [hp]

/-- Every accepted configuration is a list of evaluator blocks: the parser's trees, read as `Expr`. -/
theorem confBlocksOf_accepted {home : Bytes} {defs : List (Bytes × Bytes)} {rx : Pat → Bool} {input : Bytes}
    {blocks : List PBlock} (h : parseConfig home defs rx input = .ok blocks) :
    ∃ conf, confBlocksOf blocks = some conf ∧ toPBlocks conf = blocks :=
  mt_confBlocksOf_ok rx blocks (Conf.accepted_block h)

/-- Accepted text: the run is `mainP` over the trees the parser built. -/
theorem mainText_accepted (env : PEnv) (orc : EvalOracles) (rx : Pat → Bool) (defs : List (Bytes × Bytes))
    (confText : Bytes) (files : Files) (input : Bytes) (blocks : List PBlock)
    (h : parseConfig env.home defs rx confText = .ok blocks) :
    ∃ conf, confBlocksOf blocks = some conf ∧ toPBlocks conf = blocks ∧
      mainText env orc rx defs confText files input = mainP env orc true conf files input := by
  obtain ⟨conf, hc, hp⟩ := confBlocksOf_accepted h
  exact ⟨conf, hc, hp, by simp only [mainText, h, hc]⟩

/-- Rejected text: the run is `mainP` with the verdict "rejected". -/
theorem mainText_error (env : PEnv) (orc : EvalOracles) (rx : Pat → Bool) (defs : List (Bytes × Bytes))
    (confText : Bytes) (files : Files) (input : Bytes) (line : Nat)
    (h : parseConfig env.home defs rx confText = .error line) :
    mainText env orc rx defs confText files input = mainP env orc false [] files input := by
  simp only [mainText, h]

/-- Rejected text, under every fault plan: only the configuration file is opened (and closed), the
error flag is set and the exit status is 1, or 75 in stdin mode. -/
theorem mainText_rejected (env : PEnv) (orc : EvalOracles) (rx : Pat → Bool) (defs : List (Bytes × Bytes))
    (confText : Bytes) (files : Files) (input : Bytes) (line : Nat) (w : World) (plan : Plan)
    (h : parseConfig env.home defs rx confText = .error line) :
    let p := mainText env orc rx defs confText files input
    let r := runPlan plan p w 0 []
    r.1.2.error = true ∧ r.1.1 = (if env.stdinMode then 75 else 1) ∧
    (callsOf plan p w = [.fopen env.confpath] ∨ ∃ hd, callsOf plan p w = [.fopen env.confpath, .fclose hd]) := by
  intro p r
  have hp : p = mainP env orc false [] files input := mainText_error env orc rx defs confText files input line h
  have hb := bad_config_only_reads_config env orc [] files input w plan
  have hx := exit_status_table env orc false [] files input w plan
  simp only at hb hx
  refine ⟨?_, ?_, ?_⟩
  · show (runPlan plan p w 0 []).1.2.error = true
    rw [hp]; exact hb.1
  · show (runPlan plan p w 0 []).1.1 = _
    rw [hp, hx]
    simp only [exitStatus, hb.1, if_true, Gen.exTempfail]
  · rw [hp]; exact hb.2

/-- Refused `-D` options (`path`, or the same name twice): the run ends before the configuration is
opened - no call at all - with exit status 1, also with `-`. -/
theorem mainText_invalidDefs (env : PEnv) (orc : EvalOracles) (rx : Pat → Bool) (defs : List (Bytes × Bytes))
    (confText : Bytes) (files : Files) (input : Bytes) (w : World) (plan : Plan)
    (h : parseConfig env.home defs rx confText = .invalidDefs) :
    let p := mainText env orc rx defs confText files input
    (runPlan plan p w 0 []).1.1 = 1 ∧ (runPlan plan p w 0 []).1.2.error = true ∧ callsOf plan p w = [] := by
  intro p
  have hp : p = .ret (1, { files := files, error := true, reject := false, log := [] }) := by
    show mainText env orc rx defs confText files input = _
    simp only [mainText, h]; rfl
  rw [hp]
  simp [runPlan, callsOf]

end Mdsort.Proofs.MainText
