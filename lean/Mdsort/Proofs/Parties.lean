import Mdsort.Model.Parties
import Mdsort.Proofs.WorldStep
import Mdsort.Proofs.WorldOwnBasic

/-! Parties on one file system: steps, invariants along schedules, and the bridge between a
party's run inside a schedule and `runOracle` (whatever the others did is "some results"). -/

namespace Mdsort.Proofs.Parties
open Mdsort Mdsort.Model
open Mdsort.Proofs.World (core)
open Mdsort.Proofs.Own (Trace runO runOracle_eq runO_bind)

/-! ## one step -/

theorem stepParty_none {s : Shared} {i : Nat} (h : s.parties[i]? = none) : stepParty s i = s := by
  simp [stepParty, h]

theorem stepParty_ret {s : Shared} {i : Nat} {p : PState} {e : Bool} (h : s.parties[i]? = some p)
    (hp : p.prog = .ret e) : stepParty s i = s := by
  simp [stepParty, h, hp]

theorem stepParty_call {s : Shared} {i : Nat} {p : PState} {c : Call} {k : Res → Prog Bool}
    (h : s.parties[i]? = some p) (hp : p.prog = .call c k) : stepParty s i = stepCall s i p c k := by
  simp [stepParty, h, hp]

/-- Case analysis for one step: only a party with a pending call changes anything. -/
theorem stepParty_cases {P : Shared → Prop} {s : Shared} {i : Nat} (h0 : P s)
    (hc : ∀ p c k, s.parties[i]? = some p → p.prog = .call c k → P (stepCall s i p c k)) : P (stepParty s i) := by
  cases h : s.parties[i]? with
  | none => rw [stepParty_none h]; exact h0
  | some p =>
    cases hp : p.prog with
    | ret e => rw [stepParty_ret h hp]; exact h0
    | call c k => rw [stepParty_call h hp]; exact hc p c k h hp

theorem runSched_append (s : Shared) (a b : List Nat) : runSched s (a ++ b) = runSched (runSched s a) b := by
  induction a generalizing s with
  | nil => rfl
  | cons i a ih => simp [runSched, ih]

theorem Hiso_append (s : Shared) (a b : List Nat) : Hiso s (a ++ b) = (Hiso s a && Hiso (runSched s a) b) := by
  induction a generalizing s with
  | nil => simp [Hiso, runSched]
  | cons i a ih => simp [Hiso, runSched, ih, Bool.and_assoc]

/-- Invariants of single steps hold along every schedule. -/
theorem runSched_inv {P : Shared → Prop} (hstep : ∀ s i, P s → P (stepParty s i)) (sched : List Nat) (s : Shared)
    (h : P s) : P (runSched s sched) := by
  induction sched generalizing s with
  | nil => exact h
  | cons i rest ih => exact ih _ (hstep s i h)

theorem stepView_eq (s : Shared) (p : PState) (c : Call) : stepView s p c = core (s.view p) c (predict (s.view p) c) := rfl

@[simp] theorem stepCall_fs (s : Shared) (i : Nat) (p : PState) (c : Call) (k : Res → Prog Bool) :
    (stepCall s i p c k).fs = (stepView s p c).shared := rfl
@[simp] theorem stepCall_log (s : Shared) (i : Nat) (p : PState) (c : Call) (k : Res → Prog Bool) :
    (stepCall s i p c k).log = s.log ++ [stepEvent s i p c] := rfl
@[simp] theorem stepCall_parties (s : Shared) (i : Nat) (p : PState) (c : Call) (k : Res → Prog Bool) :
    (stepCall s i p c k).parties = s.parties.set i (stepLocal s p c k) := rfl

theorem stepCall_party (s : Shared) (i j : Nat) (p : PState) (c : Call) (k : Res → Prog Bool)
    (h : s.parties[i]? = some p) :
    (stepCall s i p c k).parties[j]? = if j = i then some (stepLocal s p c k) else s.parties[j]? := by
  have hl : i < s.parties.length := by
    rcases List.getElem?_eq_some_iff.1 h with ⟨hl, _⟩; exact hl
  simp only [stepCall_parties, List.getElem?_set]
  by_cases hj : j = i
  · subst hj; simp [hl]
  · have : ¬ i = j := fun e => hj e.symm
    simp [hj, this]

theorem stepParty_length (s : Shared) (i : Nat) : (stepParty s i).parties.length = s.parties.length := by
  apply stepParty_cases (P := fun s' => s'.parties.length = s.parties.length) rfl
  intro p c k _ _
  simp

theorem runSched_length (s : Shared) (sched : List Nat) : (runSched s sched).parties.length = s.parties.length := by
  induction sched generalizing s with
  | nil => rfl
  | cons i rest ih => simp [runSched, ih, stepParty_length]

/-! ## properties of the shared part -/

@[simp] theorem shared_dirs (w : World) : w.shared.dirs = w.dirs := rfl
@[simp] theorem shared_files (w : World) : w.shared.files = w.files := rfl
@[simp] theorem shared_nextFid (w : World) : w.shared.nextFid = w.nextFid := rfl
@[simp] theorem shared_devs (w : World) : w.shared.devs = w.devs := rfl
@[simp] theorem shared_lookup (w : World) (p n : Bytes) : w.shared.lookup p n = w.lookup p n := rfl
@[simp] theorem shared_file (w : World) (f : Nat) : w.shared.file f = w.file f := rfl
@[simp] theorem shared_dir (w : World) (p : Bytes) : w.shared.dir p = w.dir p := rfl
@[simp] theorem view_lookup (s : Shared) (q : PState) (p n : Bytes) : (s.view q).lookup p n = s.fs.lookup p n := rfl
@[simp] theorem view_file (s : Shared) (q : PState) (f : Nat) : (s.view q).file f = s.fs.file f := rfl
@[simp] theorem view_dir (s : Shared) (q : PState) (p : Bytes) : (s.view q).dir p = s.fs.dir p := rfl
@[simp] theorem view_dirs (s : Shared) (q : PState) : (s.view q).dirs = s.fs.dirs := rfl
@[simp] theorem view_nextFid (s : Shared) (q : PState) : (s.view q).nextFid = s.fs.nextFid := rfl
@[simp] theorem view_devs (s : Shared) (q : PState) : (s.view q).devs = s.fs.devs := rfl
@[simp] theorem view_handles (s : Shared) (q : PState) : (s.view q).handles = q.handles := rfl
theorem view_dirPath (s : Shared) (q : PState) (d : Handle) : (s.view q).dirPath d = handlesDirPath q.handles d := rfl

/-! ## party-local invariants -/

/-- A property of (index, local state) that every own step preserves holds along every schedule. -/
theorem local_inv (P : Nat → PState → Prop)
    (hstep : ∀ (s : Shared) i p c k, s.parties[i]? = some p → p.prog = .call c k → P i p → P i (stepLocal s p c k))
    (sched : List Nat) (s : Shared) (h : ∀ i p, s.parties[i]? = some p → P i p) :
    ∀ i p, (runSched s sched).parties[i]? = some p → P i p := by
  refine runSched_inv (P := fun s => ∀ i p, s.parties[i]? = some p → P i p) ?_ sched s h
  intro s a hs
  apply stepParty_cases (P := fun s => ∀ i p, s.parties[i]? = some p → P i p) hs
  intro p c k hp hc i q hq
  rw [stepCall_party s a i p c k hp] at hq
  by_cases hi : i = a
  · subst hi
    simp only [if_true, Option.some.injEq] at hq
    subst hq
    exact hstep s i p c k hp hc (hs i p hp)
  · simp only [hi, if_false] at hq
    exact hs i q hq

/-! ## a party's run is an oracle run -/

/-- The oracle answers as the trace records. -/
def Agree (orc : Nat → Call → Res) (tr : Trace) : Prop := ∀ j c r, tr[j]? = some (c, r) → orc j c = r

/-- The oracle that replays a trace (and answers `dflt` beyond it). -/
def replay (tr : Trace) (dflt : Call → Res) : Nat → Call → Res := fun j c =>
  match tr[j]? with
  | some (_, r) => r
  | none => dflt c

theorem agree_replay (tr : Trace) (dflt : Call → Res) : Agree (replay tr dflt) tr := by
  intro j c r h
  simp [replay, h]

theorem Agree.prefix {orc : Nat → Call → Res} {tr L : Trace} (h : Agree orc (tr ++ L)) : Agree orc tr := by
  intro j c r hj
  apply h j c r
  have hl : j < tr.length := by
    rcases List.getElem?_eq_some_iff.1 hj with ⟨hl, _⟩; exact hl
  rw [List.getElem?_append_left hl]; exact hj

/-- Running the initial program against any oracle that agrees with the party's trace so far
continues with the party's current program. -/
def Sim (p0 : Prog Bool) (ps : PState) : Prop :=
  ∀ orc, Agree orc ps.trace → runOracle orc p0 0 [] = runOracle orc ps.prog ps.trace.length ps.trace

theorem sim_step (p0 : Prog Bool) (s : Shared) (p : PState) (c : Call) (k : Res → Prog Bool)
    (hc : p.prog = .call c k) (h : Sim p0 p) : Sim p0 (stepLocal s p c k) := by
  intro orc ha
  simp only [stepLocal] at ha ⊢
  rw [h orc ha.prefix, hc]
  have hr : orc p.trace.length c = predict (s.view p) c := by
    apply ha p.trace.length
    simp
  simp only [runOracle, hr, List.length_append, List.length_cons, List.length_nil]

/-- The initial state: nobody has issued a call yet. -/
def Fresh (s : Shared) : Prop := s.log = [] ∧ ∀ p ∈ s.parties, p.trace = []

theorem fresh_init (fs : World) (ps : List (Prog Bool × List Obj)) : Fresh (Shared.init fs ps) := by
  refine ⟨rfl, ?_⟩
  intro p hp
  simp only [Shared.init, List.mem_map] at hp
  obtain ⟨x, _, rfl⟩ := hp
  rfl

theorem sim_run (s0 : Shared) (hf : Fresh s0) (sched : List Nat) (i : Nat) (p0 ps : PState)
    (h0 : s0.parties[i]? = some p0) (hs : (runSched s0 sched).parties[i]? = some ps) : Sim p0.prog ps := by
  have := local_inv (fun i ps => ∀ p0, s0.parties[i]? = some p0 → Sim p0.prog ps) ?_ sched s0 ?_ i ps hs p0 h0
  · exact this
  · intro s i p c k _ hc hP p0 h0
    exact sim_step p0.prog s p c k hc (hP p0 h0)
  · intro i p hp p0 h0
    rw [hp] at h0
    cases h0
    intro orc _
    have : p.trace = [] := hf.2 p (List.mem_of_getElem? hp)
    simp [this]

/-- The trace of an oracle run extends the trace it starts from. -/
theorem runOracle_trace_ext {α} (orc : Nat → Call → Res) (p : Prog α) (i : Nat) (tr : Trace) :
    ∃ L, (runOracle orc p i tr).2 = tr ++ L := ⟨_, by rw [runOracle_eq]⟩

/-- Whatever the schedule, the trace of party `i` is a prefix of the trace of an oracle run of its
initial program (the oracle being what the file system and the other parties made of its calls). -/
theorem trace_is_oracle_prefix (s0 : Shared) (hf : Fresh s0) (sched : List Nat) (i : Nat) (p0 ps : PState)
    (h0 : s0.parties[i]? = some p0) (hs : (runSched s0 sched).parties[i]? = some ps) (dflt : Call → Res) :
    ∃ L, (runOracle (replay ps.trace dflt) p0.prog 0 []).2 = ps.trace ++ L := by
  rw [sim_run s0 hf sched i p0 ps h0 hs _ (agree_replay _ _)]
  exact runOracle_trace_ext _ _ _ _

/-- A finished party: its value and trace are those of the oracle run. -/
theorem finished_is_oracle_run (s0 : Shared) (hf : Fresh s0) (sched : List Nat) (i : Nat) (p0 ps : PState) (e : Bool)
    (h0 : s0.parties[i]? = some p0) (hs : (runSched s0 sched).parties[i]? = some ps) (he : ps.prog = .ret e)
    (orc : Nat → Call → Res) (ha : Agree orc ps.trace) :
    runOracle orc p0.prog 0 [] = (e, ps.trace) := by
  rw [sim_run s0 hf sched i p0 ps h0 hs orc ha, he]
  rfl

/-! ## `errOf` -/

theorem runOracle_errOf {α} (orc : Nat → Call → Res) (p : Prog (α × Bool)) :
    runOracle orc (errOf p) 0 [] = ((runOracle orc p 0 []).1.2, (runOracle orc p 0 []).2) := by
  simp only [errOf, runOracle_eq, runO_bind, Own.runO_ret, List.nil_append, List.append_nil]

end Mdsort.Proofs.Parties
