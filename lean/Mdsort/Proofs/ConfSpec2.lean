import Mdsort.Proofs.ConfSpec1

/-!
# Specifications of the parser functions, part 2: conditions, actions, rules, blocks
-/

namespace Mdsort.Proofs.Conf
open Mdsort Mdsort.Model Mdsort.Spec

/-- `SpecD`: like `Spec`, for a parser that starts by shifting the lookahead token `t`: afterwards one
token fewer can be shifted. -/
def SpecD {α : Type} (n B : Nat) (t : Tk) (p : PM α) (W : α → Prop) : Prop :=
  ∀ s, Inv n B s → s.la = some t → wp p (fun a s' => Inv (n - 1) B s' ∧ 0 < n ∧ W a) (fun s' => phi s' ≤ B) False s

abbrev Wcond (cx : PCtx) (t : CTree) : Prop := wfK cx.rxOk .cond t = true

theorem parseCondKw_spec (cx : PCtx) (fuel n B : Nat) (unary : PM CTree) (k : Kw) (p : PM CTree)
    (hp : parseCondKw cx fuel unary k = some p) (hn : n < fuel + 1)
    (hun : ∀ m, m < fuel → Spec m B unary (Wcond cx)) : SpecD n B (.kw k) p (Wcond cx) := by
  intro s hs hla
  cases k <;> simp only [parseCondKw] at hp <;> try cases hp
  all_goals
    simp only [wp_bind]
    apply wp_shift hs hla (by simp)
    intro s2 h2 hpos _ _
  · exact wp_of_spec (leafAt_spec cx _ _ (fun _ => by simp [Wcond, wfK, isCondLeaf, leafOK]) _ B) h2 (Nat.le_refl _) (fun a s' h w => ⟨h, hpos, w⟩)
  · -- attachment
    refine wp_of_spec (hun (n - 1) (by omega)) h2 (Nat.le_refl _) ?_
    intro e s3 h3 he
    simp only [wp_curLine, wp_pure]
    exact ⟨h3, hpos, by simpa [Wcond, wfK] using he⟩
  · -- body
    refine wp_of_spec (parsePattern_spec cx (n - 1) B) h2 (Nat.le_refl _) ?_
    intro pt s3 h3 _
    simp only [wp_curLine]
    refine wp_of_spec (checkPattern_spec cx pt (n - 1) B) h3 (Nat.le_refl _) ?_
    intro _ s4 h4 hrx
    simp only [wp_pure]
    exact ⟨h4, hpos, by simp [Wcond, wfK, isCondLeaf, leafOK, hrx]⟩
  · -- command
    refine wp_of_spec (parseStrings_spec cx fuel (n - 1) B (by omega)) h2 (Nat.le_refl _) ?_
    intro ss s3 h3 _
    simp only [wp_curLine]
    apply wp_expandAll cx _ _ h3 (fun _ h => h)
    intro v ms h4
    simp only [wp_pure]
    exact ⟨h4, hpos, by simp [Wcond, wfK, isCondLeaf, leafOK]⟩
  · -- date
    exact wp_of_spec (parseDate_spec cx (n - 1) B) h2 (Nat.le_refl _) (fun a s' h w => ⟨h, hpos, w⟩)
  · -- header
    refine wp_of_spec (parseStrings_spec cx fuel (n - 1) B (by omega)) h2 (Nat.le_refl _) ?_
    intro ss s3 h3 _
    refine wp_of_spec (parsePattern_spec cx (n - 1) B) h3 (Nat.le_refl _) ?_
    intro pt s4 h4 _
    simp only [wp_curLine]
    refine wp_of_spec (checkPattern_spec cx pt (n - 1) B) h4 (Nat.le_refl _) ?_
    intro _ s5 h5 hrx
    apply wp_expandAll cx _ _ h5 (fun _ h => h)
    intro v ms h6
    simp only [wp_pure]
    exact ⟨h6, hpos, by simp [Wcond, wfK, isCondLeaf, leafOK, hrx]⟩
  · -- isdirectory
    refine wp_of_spec (parseStr_spec cx (n - 1) B) h2 (Nat.le_refl _) ?_
    intro str s3 h3 _
    simp only [wp_curLine]
    apply wp_expandOne cx _ _ h3 (fun _ h => h)
    intro v ms h4
    simp only [wp_pure]
    exact ⟨h4, hpos, by simp [Wcond, wfK, isCondLeaf, leafOK]⟩
  · exact wp_of_spec (leafAt_spec cx _ _ (fun _ => by simp [Wcond, wfK, isCondLeaf, leafOK]) _ B) h2 (Nat.le_refl _) (fun a s' h w => ⟨h, hpos, w⟩)
  · exact wp_of_spec (leafAt_spec cx _ _ (fun _ => by simp [Wcond, wfK, isCondLeaf, leafOK]) _ B) h2 (Nat.le_refl _) (fun a s' h w => ⟨h, hpos, w⟩)

/-- Conditions: `parseUnary` and `parseBinTail`. -/
theorem cond_spec (cx : PCtx) : ∀ fuel : Nat,
    (∀ n B, n < fuel → Spec n B (parseUnary cx fuel) (Wcond cx)) ∧
    (∀ n B lhs, n < fuel → Wcond cx lhs → Spec n B (parseBinTail cx fuel lhs) (Wcond cx)) := by
  intro fuel
  induction fuel with
  | zero => exact ⟨fun n B h => by omega, fun n B lhs h => by omega⟩
  | succ fuel ih =>
    obtain ⟨ihU, ihB⟩ := ih
    constructor
    · intro n B hn s hs
      unfold parseUnary
      simp only [wp_bind]
      apply wp_peek cx _ _ hs (fun _ h => h)
      intro t s1 h1 hla _
      cases t <;> (try simp only [wp_failTok]) <;> try exact h1.2
      · -- neg
        simp only [wp_bind]
        apply wp_shift h1 hla (by simp)
        intro s2 h2 hpos _ _
        refine wp_of_spec (ihU (n - 1) B (by omega)) h2 (Nat.sub_le _ _) ?_
        intro e s3 h3 he
        simp only [wp_curLine, wp_pure]
        exact ⟨h3, by simpa [Wcond, wfK] using he⟩
      · -- kw
        rename_i k
        cases hp : parseCondKw cx fuel (parseUnary cx fuel) k with
        | none => simp only [wp_failTok]; exact h1.2
        | some p =>
          have := parseCondKw_spec cx fuel n B _ k p hp hn (fun m hm => ihU m B hm) s1 h1 hla
          exact wp_mono this (fun a s' h => ⟨h.1.mono (Nat.sub_le _ _), h.2.2⟩) (fun _ h => h)
      · -- lparen
        simp only [wp_bind]
        apply wp_shift h1 hla (by simp)
        intro s2 h2 hpos _ _
        refine wp_of_spec (ihU (n - 1) B (by omega)) h2 (Nat.le_refl _) ?_
        intro e s3 h3 he
        refine wp_of_spec (ihB (n - 1) B e (by omega) he) h3 (Nat.le_refl _) ?_
        intro e' s4 h4 he'
        refine wp_of_spec (expectTk_spec cx .rparen (by simp) (n - 1) B) h4 (Nat.sub_le _ _) ?_
        intro _ s5 h5 _
        simp only [wp_pure]
        exact ⟨h5, he'⟩
    · intro n B lhs hn hl s hs
      unfold parseBinTail
      simp only [wp_bind]
      apply wp_peek cx _ _ hs (fun _ h => h)
      intro t s1 h1 hla _
      cases t <;> (try simp only [wp_pure]) <;> try exact ⟨h1, hl⟩
      rename_i k
      cases k <;> (try simp only [wp_pure]) <;> try exact ⟨h1, hl⟩
      all_goals
        simp only [wp_bind]
        apply wp_shift h1 hla (by simp)
        intro s2 h2 hpos _ _
        refine wp_of_spec (ihU (n - 1) B (by omega)) h2 (Nat.le_refl _) ?_
        intro r s3 h3 hr
        simp only [wp_curLine]
        refine wp_of_spec (ihB (n - 1) B _ (by omega) ?_) h3 (Nat.sub_le _ _) (fun a s' h w => ⟨h, w⟩)
        simp only [Wcond, wfK, Bool.and_eq_true]
        exact ⟨hl, hr⟩

theorem validateActions_spec (a : CTree) (n B : Nat) : Spec n B (validateActions a) (fun _ => aloneOK a = true) := by
  intro s hs
  unfold validateActions
  simp only [wp_ite, wp_failAt, wp_pure]
  split
  · exact hs.2
  · rename_i h
    refine ⟨hs, ?_⟩
    simp only [aloneOK]
    simp only [Bool.and_eq_true, Bool.or_eq_true, decide_eq_true_eq, not_and, not_or] at h
    by_cases h1 : a.countActions ≤ 1
    · simp [h1]
    · have := h (by omega)
      simp only [Bool.or_eq_true, decide_eq_true_eq, Bool.and_eq_true, beq_iff_eq]
      right; omega

abbrev Wblock (cx : PCtx) (t : CTree) : Prop := wfK cx.rxOk .block t = true
abbrev Wacts (cx : PCtx) (r : Option CTree) : Prop := ∀ a, r = some a → wfK cx.rxOk .acts a = true

theorem parseRuleWith_spec (cx : PCtx) (fuel n B : Nat) (exprs : PM CTree) (actions : PM (Option CTree)) (hn : n < fuel)
    (hex : ∀ m, m < fuel → Spec m B exprs (Wblock cx)) (hac : ∀ m, m < fuel → Spec m B actions (Wacts cx)) :
    Spec n B (parseRuleWith cx fuel exprs actions) (fun t => wfK cx.rxOk .rule t = true) := by
  intro s hs
  unfold parseRuleWith
  simp only [wp_bind]
  refine wp_of_spec ((cond_spec cx fuel).1 n B hn) hs (Nat.le_refl _) ?_
  intro c0 s1 h1 hc0
  refine wp_of_spec ((cond_spec cx fuel).2 n B c0 hn hc0) h1 (Nat.le_refl _) ?_
  intro c s2 h2 hc
  apply wp_peek cx _ _ h2 (fun _ h => h)
  intro t s3 h3 hla _
  have hacts : wp (do
      let acts ← actions
      match acts with
      | none => failTok
      | some a => do
        validateActions a
        let l ← curLine cx
        pure (CTree.mtch l c a)) (fun a s' => Inv n B s' ∧ wfK cx.rxOk .rule a = true) (fun s' => phi s' ≤ B) False s3 := by
    simp only [wp_bind]
    refine wp_of_spec (hac n hn) h3 (Nat.le_refl _) ?_
    intro acts s4 h4 hw
    cases acts with
    | none => simp only [wp_failTok]; exact h4.2
    | some a =>
      simp only [wp_bind]
      refine wp_of_spec (validateActions_spec a n B) h4 (Nat.le_refl _) ?_
      intro _ s5 h5 hal
      simp only [wp_curLine, wp_pure]
      refine ⟨h5, ?_⟩
      simp only [wfK, hc, hw a rfl, hal, Bool.and_self, Bool.or_true]
  cases t <;> try exact hacts
  -- lbrace
  simp only [wp_bind]
  apply wp_shift h3 hla (by simp)
  intro s4 h4 hpos _ _
  refine wp_of_spec (hex (n - 1) (by omega)) h4 (Nat.sub_le _ _) ?_
  intro b s5 h5 hb
  simp only [wp_ite, wp_failTok, wp_bind, wp_curLine, wp_pure]
  split
  · exact h5.2
  · rename_i hcount
    refine ⟨h5, ?_⟩
    have : b.countActions > 0 := by
      simp only [beq_iff_eq] at hcount; omega
    simp only [wfK, hc, hb, this, decide_true, Bool.and_self, Bool.true_or]

abbrev Wact (cx : PCtx) (t : CTree) : Prop := wfK cx.rxOk .act t = true

theorem parseActionWith_spec (cx : PCtx) (fuel n B : Nat) (exprs : PM CTree) (k : Kw) (p : PM CTree)
    (hp : parseActionWith cx fuel exprs k = some p) (hn : n < fuel + 1)
    (hex : ∀ m, m < fuel → Spec m B exprs (Wblock cx)) : SpecD n B (.kw k) p (Wact cx) := by
  intro s hs hla
  cases k <;> simp only [parseActionWith] at hp <;> try cases hp
  all_goals
    simp only [wp_bind]
    apply wp_shift hs hla (by simp)
    intro s2 h2 hpos _ _
  · -- addheader
    refine wp_of_spec (parseStr_spec cx (n - 1) B) h2 (Nat.le_refl _) ?_
    intro k s3 h3 _
    refine wp_of_spec (parseStr_spec cx (n - 1) B) h3 (Nat.le_refl _) ?_
    intro v s4 h4 _
    simp only [wp_curLine]
    apply wp_expandMac _ _ h4 (fun _ h => h)
    intro k' ms1 h5
    apply wp_expandMac _ _ h5 (fun _ h => h)
    intro v' ms2 h6
    simp only [wp_pure]
    exact ⟨h6, hpos, by simp [Wact, wfK, Expr.leafAction, leafOK]⟩
  · -- attachment
    refine wp_of_spec (expectTk_spec cx .lbrace (by simp) (n - 1) B) h2 (Nat.le_refl _) ?_
    intro _ s3 h3 _
    refine wp_of_spec (hex (n - 1) (by omega)) h3 (Nat.le_refl _) ?_
    intro b s4 h4 hb
    simp only [wp_ite, wp_failTok, wp_bind, wp_curLine, wp_pure]
    split
    · exact h4.2
    · split
      · exact h4.2
      · rename_i h0 hle
        have h0' : b.countActions ≠ 0 := by simpa using h0
        refine ⟨h4, hpos, ?_⟩
        simp only [Wact, wfK, hb, Bool.true_and, Bool.and_eq_true, decide_eq_true_eq]
        omega
  · exact wp_of_spec (leafAt_spec cx _ _ (fun _ => by simp [Wact, wfK, Expr.leafAction, leafOK]) _ B) h2 (Nat.le_refl _) (fun a s' h w => ⟨h, hpos, w⟩)
  · exact wp_of_spec (leafAt_spec cx _ _ (fun _ => by simp [Wact, wfK, Expr.leafAction, leafOK]) _ B) h2 (Nat.le_refl _) (fun a s' h w => ⟨h, hpos, w⟩)
  · -- exec
    refine wp_of_spec (parseExecFlags_spec cx fuel (n - 1) B _ _ (by omega)) h2 (Nat.le_refl _) ?_
    intro fl s3 h3 _
    refine wp_of_spec (parseStrings_spec cx fuel (n - 1) B (by omega)) h3 (Nat.le_refl _) ?_
    intro ss s4 h4 _
    simp only [wp_curLine]
    apply wp_expandAll cx _ _ h4 (fun _ h => h)
    intro v ms h5
    simp only [wp_ite, wp_failTok, wp_pure]
    split
    · exact h5.2
    · rename_i hfl
      refine ⟨h5, hpos, ?_⟩
      simp only [Wact, wfK, Expr.leafAction, leafOK, Bool.true_and]
      cases h1 : fl.1 <;> cases h2 : fl.2 <;> simp_all
  · -- flag
    refine wp_of_spec (parseOptNeg_spec cx (n - 1) B) h2 (Nat.le_refl _) ?_
    intro ng s3 h3 _
    refine wp_of_spec (expectTk_spec cx (.kw .new) (by simp) (n - 1) B) h3 (Nat.le_refl _) ?_
    intro _ s4 h4 _
    simp only [wp_curLine, wp_pure]
    exact ⟨h4, hpos, by simp [Wact, wfK, Expr.leafAction, leafOK]⟩
  · -- flags
    refine wp_of_spec (parseStr_spec cx (n - 1) B) h2 (Nat.le_refl _) ?_
    intro str s3 h3 _
    simp only [wp_curLine]
    apply wp_expandMac _ _ h3 (fun _ h => h)
    intro str' ms1 h4
    simp only [wp_pure]
    exact ⟨h4, hpos, by simp [Wact, wfK, Expr.leafAction, leafOK]⟩
  · -- label
    refine wp_of_spec (parseStrings_spec cx fuel (n - 1) B (by omega)) h2 (Nat.le_refl _) ?_
    intro ss s3 h3 _
    simp only [wp_curLine]
    apply wp_expandAll cx _ _ h3 (fun _ h => h)
    intro v ms h4
    simp only [wp_pure]
    exact ⟨h4, hpos, by simp [Wact, wfK, Expr.leafAction, leafOK]⟩
  · -- move
    refine wp_of_spec (parseStr_spec cx (n - 1) B) h2 (Nat.le_refl _) ?_
    intro str s3 h3 _
    simp only [wp_curLine]
    apply wp_expandOne cx _ _ h3 (fun _ h => h)
    intro v ms h4
    simp only [wp_pure]
    exact ⟨h4, hpos, by simp [Wact, wfK, Expr.leafAction, leafOK]⟩
  · exact wp_of_spec (leafAt_spec cx _ _ (fun _ => by simp [Wact, wfK, Expr.leafAction, leafOK]) _ B) h2 (Nat.le_refl _) (fun a s' h w => ⟨h, hpos, w⟩)
  · exact wp_of_spec (leafAt_spec cx _ _ (fun _ => by simp [Wact, wfK, Expr.leafAction, leafOK]) _ B) h2 (Nat.le_refl _) (fun a s' h w => ⟨h, hpos, w⟩)

theorem wf_rule_rules (rx : Pat → Bool) (t : CTree) (h : wfK rx .rule t = true) : wfK rx .rules t = true := by
  cases t <;> simp_all [wfK]

/-- Blocks and action lists: `parseExprs` and `parseActions`. -/
theorem block_spec (cx : PCtx) : ∀ fuel : Nat,
    (∀ n B acc, n < fuel → (∀ a, acc = some a → wfK cx.rxOk .rules a = true) → Spec n B (parseExprs cx fuel acc) (Wblock cx)) ∧
    (∀ n B acc, n < fuel → Wacts cx acc → Spec n B (parseActions cx fuel acc) (Wacts cx)) := by
  intro fuel
  induction fuel with
  | zero => exact ⟨fun n B acc h => by omega, fun n B acc h => by omega⟩
  | succ fuel ih =>
    obtain ⟨ihE, ihA⟩ := ih
    constructor
    · intro n B acc hn hacc s hs
      unfold parseExprs
      simp only [wp_bind]
      apply wp_peek cx _ _ hs (fun _ h => h)
      intro t s1 h1 hla _
      cases t <;> (try simp only [wp_failTok]) <;> try exact h1.2
      · -- kw
        rename_i k
        cases k <;> (try simp only [wp_failTok]) <;> try exact h1.2
        simp only [wp_bind]
        apply wp_shift h1 hla (by simp)
        intro s2 h2 hpos _ _
        refine wp_of_spec (parseRuleWith_spec cx fuel (n - 1) B _ _ (by omega)
          (fun m hm => ihE m B none hm (by simp)) (fun m hm => ihA m B none hm (by simp [Wacts]))) h2 (Nat.le_refl _) ?_
        intro r s3 h3 hr
        simp only [wp_curLine]
        refine wp_of_spec (ihE (n - 1) B _ (by omega) ?_) h3 (Nat.sub_le _ _) (fun a s' h w => ⟨h, w⟩)
        intro a ha
        cases acc with
        | none => simp only [Option.some.injEq] at ha; subst ha; exact wf_rule_rules _ _ hr
        | some p =>
          simp only [Option.some.injEq] at ha
          subst ha
          simp only [wfK, hacc p rfl, hr, Bool.and_self]
      · -- rbrace
        simp only [wp_bind]
        apply wp_shift h1 hla (by simp)
        intro s2 h2 hpos _ _
        simp only [wp_curLine, wp_pure]
        refine ⟨h2.mono (Nat.sub_le _ _), ?_⟩
        cases acc with
        | none => simp [Wblock, wfK]
        | some p => simp [Wblock, wfK, hacc p rfl]
    · intro n B acc hn hacc s hs
      unfold parseActions
      simp only [wp_bind]
      apply wp_peek cx _ _ hs (fun _ h => h)
      intro t s1 h1 hla _
      cases t <;> (try simp only [wp_pure]) <;> try exact ⟨h1, hacc⟩
      rename_i k
      cases hp : parseActionWith cx fuel (parseExprs cx fuel none) k with
      | none => simp only [wp_pure]; exact ⟨h1, hacc⟩
      | some p =>
        simp only [wp_bind]
        have := parseActionWith_spec cx fuel n B _ k p hp hn (fun m hm => ihE m B none hm (by simp)) s1 h1 hla
        refine wp_mono this ?_ (fun _ h => h)
        intro a s2 ⟨h2, hpos, ha⟩
        refine wp_of_spec (andJoin_spec cx acc a cx.rxOk hacc ha (n - 1) B) h2 (Nat.le_refl _) ?_
        intro acc' s3 h3 ⟨q, hq, hwq⟩
        refine wp_of_spec (ihA (n - 1) B acc' (by omega) ?_) h3 (Nat.sub_le _ _) (fun a s' h w => ⟨h, w⟩)
        intro a' ha'
        rw [hq] at ha'
        cases ha'
        exact hwq

theorem parseMaildirBody_spec (cx : PCtx) (fuel n B : Nat) (paths : List Bytes) (hn : n < fuel) :
    Spec n B (parseMaildirBody cx fuel paths) (fun b => blockOK cx.rxOk b = true ∧ b.paths = paths) := by
  intro s hs
  unfold parseMaildirBody
  simp only [wp_bind]
  refine wp_of_spec (expectTk_spec cx .lbrace (by simp) n B) hs (Nat.le_refl _) ?_
  intro _ s1 h1 _
  refine wp_of_spec ((block_spec cx fuel).1 n B none hn (by simp)) h1 (Nat.le_refl _) ?_
  intro b s2 h2 hb
  simp only [wp_ite, wp_failTok, wp_pure]
  split
  · exact h2.2
  · rename_i hc
    split
    · exact h2.2
    · rename_i hr
      refine ⟨h2, ?_, by first | trivial | rfl⟩
      have hc' : b.countActions > 0 := by simp only [beq_iff_eq] at hc; omega
      simp only [blockOK, hb, hc', decide_true, Bool.and_self, Bool.true_and]
      simp only [Bool.and_eq_true, decide_eq_true_eq, not_and] at hr
      cases hany : (paths.any fun p => !isStdinStr p)
      · simp
      · have := hr hany
        simp only [Bool.not_true, Bool.false_or, beq_iff_eq]
        omega

theorem parseMacroDef_spec (cx : PCtx) (name : Bytes) (n B : Nat) : Spec n B (parseMacroDef cx name) (fun _ => True) := by
  intro s hs
  unfold parseMacroDef
  simp only [wp_bind]
  refine wp_of_spec (expectTk_spec cx .eq (by simp) n B) hs (Nat.le_refl _) ?_
  intro _ s1 h1 _
  refine wp_of_spec (parseStr_spec cx n B) h1 (Nat.le_refl _) ?_
  intro v s2 h2 _
  simp only [wp_curLine]
  apply wp_expandOne cx _ _ h2 (fun _ h => h)
  intro v' ms h3
  simp only [wp_getMacros]
  split
  · simp only [wp_failTok]; exact h3.2
  · simp only [wp_setMacros]; exact ⟨h3, trivial⟩

theorem parseTop_spec (cx : PCtx) : ∀ (fuel n B : Nat) (blocks : List PBlock), n < fuel →
    (∀ b ∈ blocks, blockOK cx.rxOk b = true) →
    Spec n B (parseTop cx fuel blocks) (fun bs => ∀ b ∈ bs, blockOK cx.rxOk b = true) := by
  intro fuel
  induction fuel with
  | zero => intro n B blocks h; omega
  | succ fuel ih =>
    intro n B blocks hn hbl s hs
    unfold parseTop
    simp only [wp_bind]
    apply wp_peek cx _ _ hs (fun _ h => h)
    intro t s1 h1 hla _
    cases t <;> (try simp only [wp_failTok, wp_pure]) <;> try exact h1.2
    · exact ⟨h1, hbl⟩
    · -- macro
      rename_i name
      simp only [wp_bind]
      apply wp_shift h1 hla (by simp)
      intro s2 h2 hpos _ _
      refine wp_of_spec (parseMacroDef_spec cx name (n - 1) B) h2 (Nat.le_refl _) ?_
      intro _ s3 h3 _
      exact wp_of_spec (ih (n - 1) B blocks (by omega) hbl) h3 (Nat.sub_le _ _) (fun a s' h w => ⟨h, w⟩)
    · -- kw
      rename_i k
      cases k <;> (try simp only [wp_failTok]) <;> try exact h1.2
      · -- maildir
        simp only [wp_bind]
        apply wp_shift h1 hla (by simp)
        intro s2 h2 hpos _ _
        refine wp_of_spec (parseStrings_spec cx fuel (n - 1) B (by omega)) h2 (Nat.le_refl _) ?_
        intro ss s3 h3 _
        apply wp_expandAll cx _ _ h3 (fun _ h => h)
        intro paths ms h4
        refine wp_of_spec (parseMaildirBody_spec cx fuel (n - 1) B paths (by omega)) h4 (Nat.le_refl _) ?_
        intro b s5 h5 hb
        refine wp_of_spec (ih (n - 1) B _ (by omega) ?_) h5 (Nat.sub_le _ _) (fun a s' h w => ⟨h, w⟩)
        intro b' hb'
        simp only [List.mem_append, List.mem_singleton] at hb'
        rcases hb' with hb' | hb'
        · exact hbl _ hb'
        · subst hb'; exact hb.1
      · -- stdin
        simp only [wp_bind]
        apply wp_shift h1 hla (by simp)
        intro s2 h2 hpos _ _
        simp only [wp_ite, wp_failTok, wp_bind]
        split
        · exact h2.2
        · refine wp_of_spec (parseMaildirBody_spec cx fuel (n - 1) B _ (by omega)) h2 (Nat.le_refl _) ?_
          intro b s5 h5 hb
          refine wp_of_spec (ih (n - 1) B _ (by omega) ?_) h5 (Nat.sub_le _ _) (fun a s' h w => ⟨h, w⟩)
          intro b' hb'
          simp only [List.mem_append, List.mem_singleton] at hb'
          rcases hb' with hb' | hb'
          · exact hbl _ hb'
          · subst hb'; exact hb.1

/-- The parser returns for every input without exhausting its recursion budget, calls the lexer at
most `input.length + 1` times, and every block of an accepted configuration is well formed. -/
theorem parseConfigFull_spec (home : Bytes) (defs : List (Bytes × Bytes)) (rxOk : Pat → Bool) (input : Bytes) :
    (parseConfigFull home defs rxOk input).res ≠ .fuel ∧
    (parseConfigFull home defs rxOk input).nlex ≤ input.length + 1 ∧
    ∀ blocks, (parseConfigFull home defs rxOk input).res = .ok blocks → ∀ b ∈ blocks, blockOK rxOk b = true := by
  unfold parseConfigFull
  cases hd : macrosOfDefs defs [] with
  | none => simp
  | some ms =>
    simp only
    have hs0 : Inv input.length (input.length + 1) ({ rest := input, macros := ms } : ParseSt) := by
      constructor
      · show input.length + 0 ≤ input.length; omega
      · show 0 + input.length + 1 ≤ input.length + 1; omega
    have := parseTop_spec { nl := countNl input, home := home, rxOk := rxOk } (input.length + 1) input.length (input.length + 1) []
      (by omega) (by simp) _ hs0
    unfold wp at this
    have hnl : ∀ s : ParseSt, phi s ≤ input.length + 1 → s.nlex ≤ input.length + 1 := by
      intro s h; unfold phi at h; omega
    split at this
    · rename_i blocks s' heq
      rw [heq]
      simp only
      cases hu : firstUnused s'.macros with
      | some m => exact ⟨by simp, hnl _ this.1.2, by simp⟩
      | none =>
        refine ⟨by simp, hnl _ this.1.2, ?_⟩
        intro bl hbl
        simp only [ParseResult.ok.injEq] at hbl
        subst hbl
        exact this.2
    · rename_i l s' heq
      rw [heq]
      exact ⟨by simp, hnl _ this, by simp⟩
    · exact absurd this id

end Mdsort.Proofs.Conf
