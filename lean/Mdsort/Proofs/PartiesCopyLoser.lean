import Mdsort.Proofs.PartiesWinner

/-! The loser of a race reports an error, for the copying actions too: when every `renameat` fails and
every `unlinkat` of the message's own name fails (the source is gone), a move / flag / flags (also
across devices) / label / add-header action returns error = true; it is never reported as delivered. -/

namespace Mdsort.Proofs.Own
set_option linter.unusedSimpArgs false
set_option linter.unusedVariables false
open Mdsort Mdsort.Model
open Mdsort.Proofs.World (bind_eq pure_eq ret_bind call_bind' call_bind bind_assoc Calls All)

/-- The source `name` is gone: no rename succeeds, no unlink of `name` succeeds. -/
def LostAll (name : Bytes) (c : Call) (r : Res) : Prop :=
  (∀ d1 n1 d2 n2, c = .renameat d1 n1 d2 n2 → ∃ e, r = .err e) ∧ (∀ d, c = .unlinkat d name → ∃ e, r = .err e)

theorem lostAll_unlink (md : Maildir) (name : Bytes) (tr : Trace) :
    wp (LostAll name) NoI (maildirUnlink md name) (fun x _ => x = true) tr := by
  unfold maildirUnlink
  simp only [bind_eq, pure_eq, call_bind]
  split
  · exact rfl
  · refine wp_call True.intro fun r hr => ?_
    obtain ⟨e, rfl⟩ := hr.2 _ rfl
    exact rfl

theorem lostAll_maildirWrite (env : PEnv) (md : Maildir) (ms : MsgSt) (tr : Trace) :
    wp (LostAll ms.name) NoI (maildirWrite env md ms) (fun x _ => x.2 = true) tr := by
  unfold maildirWrite
  simp only [bind_eq, pure_eq, call_bind]
  split
  · exact rfl
  refine wp_bind_ext (wp_top _ _) ?_
  intro g L1 _
  cases g with
  | none => exact rfl
  | some x =>
  obtain ⟨fd, name⟩ := x
  dsimp only
  refine wp_bind_ext (wp_top _ _) ?_
  intro we L2 _
  refine wp_call True.intro fun rc _ => ?_
  refine wp_bind_ext (P := fun err _ => err = true) ?_ ?_
  · split
    · exact rfl
    · exact lostAll_unlink md ms.name _
  · intro err L3 herr
    subst herr
    simp only [if_true]
    refine wp_bind_ext (wp_top _ _) ?_
    intro _ _ _
    exact rfl

theorem lostAll_maildirMove (env : PEnv) (s dst : Maildir) (ms : MsgSt) (tr : Trace) :
    wp (LostAll ms.name) NoI (maildirMove env s dst ms) (fun x _ => x.2 = true) tr := by
  unfold maildirMove
  simp only [bind_eq, pure_eq, call_bind]
  split
  · exact rfl
  split
  rotate_left
  · exact rfl
  rename_i sh dh hsh hdh
  refine wp_bind_ext (wp_top _ _) ?_
  intro doutime L0 _
  split
  · exact rfl
  rename_i fl _
  refine wp_bind_ext (wp_top _ _) ?_
  intro g L1 _
  cases g with
  | none => exact rfl
  | some x =>
  obtain ⟨fd, dstname⟩ := x
  dsimp only
  refine wp_call True.intro fun r hr => ?_
  obtain ⟨e, rfl⟩ := hr.1 _ _ _ _ rfl
  dsimp only
  refine wp_bind_ext (P := fun a _ => a.1 = true) ?_ ?_
  · split
    · refine wp_bind_ext (wp_top _ _) ?_
      intro we L2 _
      split
      · exact rfl
      · refine wp_bind_ext (lostAll_unlink s ms.name _) ?_
        intro ue L3 hue
        exact hue
    · exact rfl
  · rintro ⟨err1, ms'⟩ L2 herr
    dsimp only at herr ⊢
    subst herr
    simp only [if_true, Bool.not_true, Bool.false_and]
    refine wp_bind_ext (wp_top _ _) ?_
    intro _ L3 _
    refine wp_call True.intro fun r2 _ => ?_
    exact rfl

theorem lostAll_execOne (env : PEnv) (mh : Match) (st : ExecSt) (tr : Trace)
    (hty : mh.ty = .move ∨ mh.ty = .flag ∨ mh.ty = .flags ∨ mh.ty = .label ∨ mh.ty = .addHeader) :
    wp (LostAll st.ms.name) NoI (execOne env mh st) (fun x _ => x.2 = true) tr := by
  have mv : mh.ty = .move ∨ mh.ty = .flag ∨ mh.ty = .flags →
      wp (LostAll st.ms.name) NoI (execOne env mh st) (fun x _ => x.2 = true) tr := by
    intro h
    rw [execOne_move env mh st h]
    unfold moveBranch
    refine wp_bind_ext (wp_top _ _) ?_
    intro d L0 _
    cases d with
    | none => exact rfl
    | some dst =>
      dsimp only
      refine wp_bind_ext (lostAll_maildirMove env st.src dst st.ms _) ?_
      intro x L1 hx
      simp only [hx, if_true]
      refine wp_bind_ext (wp_top _ _) ?_
      intro _ L2 _
      exact rfl
  have wr : mh.ty = .label ∨ mh.ty = .addHeader →
      wp (LostAll st.ms.name) NoI (execOne env mh st) (fun x _ => x.2 = true) tr := by
    intro h
    have he : execOne env mh st = (maildirWrite env st.src st.ms).bind fun x => Prog.ret ({ st with ms := x.1 }, x.2) := by
      unfold execOne
      rcases h with h | h <;> simp only [h] <;> rfl
    rw [he]
    refine wp_bind_ext (lostAll_maildirWrite env st.src st.ms _) ?_
    intro x L hx
    exact hx
  rcases hty with h | h | h | h | h
  · exact mv (.inl h)
  · exact mv (.inr (.inl h))
  · exact mv (.inr (.inr h))
  · exact wr (.inl h)
  · exact wr (.inr h)

end Mdsort.Proofs.Own

namespace Mdsort.Proofs
open Mdsort Mdsort.Model Mdsort.Proofs.Own

/-- A lost race is an error for every delivering action, the copying ones included. -/
theorem lost_race_is_error_all (env : PEnv) (mh : Match) (st : ExecSt) (orc : Nat → Call → Res)
    (hty : mh.ty = .move ∨ mh.ty = .flag ∨ mh.ty = .flags ∨ mh.ty = .label ∨ mh.ty = .addHeader)
    (hren : ∀ i d1 n1 d2 n2, ∃ e, orc i (.renameat d1 n1 d2 n2) = .err e)
    (hunl : ∀ i d, ∃ e, orc i (.unlinkat d st.ms.name) = .err e) :
    (runOracle orc (execOne env mh st) 0 []).1.2 = true := by
  refine (wp_sound (R := LostAll st.ms.name) orc ?_ (lostAll_execOne env mh st [] hty) 0).1
  intro i c
  exact ⟨fun d1 n1 d2 n2 hc => by subst hc; exact hren i d1 n1 d2 n2, fun d hc => by subst hc; exact hunl i d⟩

namespace Parties

def forceErr : Res → Res
  | .err e => .err e
  | _ => .err "ENOENT"

theorem forceErr_err (r : Res) : ∃ e, forceErr r = .err e := by
  cases r <;> exact ⟨_, rfl⟩

/-- ... in a schedule: a party whose action list starts with a delivering action (copying ones included), all of
whose renames failed and all of whose unlinks of the message's name failed, finishes with error = true. -/
theorem loser_reports_error_all (s0 : Shared) (hf : Fresh s0) (sched : List Nat) (a : Nat) (p0 ps : PState)
    (env : PEnv) (mh : Match) (rest : MatchList) (st : ExecSt)
    (h0 : s0.parties[a]? = some p0) (hp : p0.prog = errOf (matchesExec env (mh :: rest) st))
    (hty : mh.ty = .move ∨ mh.ty = .flag ∨ mh.ty = .flags ∨ mh.ty = .label ∨ mh.ty = .addHeader)
    (hs : (runSched s0 sched).parties[a]? = some ps)
    (hren : ∀ (i : Nat) (d1 : Handle) (n1 : Bytes) (d2 : Handle) (n2 : Bytes) (r : Res),
      ps.trace[i]? = some (Call.renameat d1 n1 d2 n2, r) → ∃ e, r = Res.err e)
    (hunl : ∀ (i : Nat) (d : Handle) (r : Res), ps.trace[i]? = some (Call.unlinkat d st.ms.name, r) → ∃ e, r = Res.err e)
    (e : Bool) (hfin : ps.prog = .ret e) : e = true := by
  let orc : Nat → Call → Res := fun j c =>
    match c with
    | .renameat .. => forceErr (replay ps.trace (fun _ => .err "") j c)
    | .unlinkat d n => if n = st.ms.name then forceErr (replay ps.trace (fun _ => .err "") j c) else replay ps.trace (fun _ => .err "") j c
    | c => replay ps.trace (fun _ => .err "") j c
  have hag : Agree orc ps.trace := by
    intro j c r hj
    have hrep := agree_replay ps.trace (fun _ => .err "") j c r hj
    cases c <;> first
      | exact hrep
      | skip
    · rename_i d1 n1 d2 n2
      obtain ⟨e', rfl⟩ := hren j d1 n1 d2 n2 r hj
      show forceErr _ = _
      rw [hrep]; rfl
    · rename_i d n
      show (if n = st.ms.name then forceErr _ else _) = _
      split
      · rename_i hn
        subst hn
        obtain ⟨e', rfl⟩ := hunl j d r hj
        rw [hrep]; rfl
      · exact hrep
  have hrun := finished_is_oracle_run s0 hf sched a p0 ps e h0 hs hfin orc hag
  rw [hp, runOracle_errOf] at hrun
  have h1 : (runOracle orc (execOne env mh st) 0 []).1.2 = true :=
    lost_race_is_error_all env mh st orc hty (fun i d1 n1 d2 n2 => forceErr_err _)
      (fun i d => by
        show ∃ e, (if st.ms.name = st.ms.name then forceErr _ else _) = _
        rw [if_pos rfl]
        exact forceErr_err _)
  have h2 := (error_stops_list env mh rest rest st orc h1).1
  rw [← (Prod.mk.inj hrun).1]
  exact h2

end Parties
end Mdsort.Proofs
