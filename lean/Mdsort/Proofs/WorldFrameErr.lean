import Mdsort.Proofs.WorldFrameWalk

/-!
# Error isolation in the walk and where the error flag comes from (C04)

* `walk_step`: the run of a walk over a name is the `readdir`, the run of that message's processing,
  and the run of the rest of the walk from the resulting state - whatever the message's outcome.
* `processMessage_error_eq`: the error flag after one message is the flag before or-ed with that
  message's own error bit `msgError` (unknown file, parse failure, evaluation error, interpolation
  failure, action failure).
* `walk_error_iff`: the flag after a walk is set iff it was set before or one of the causes
  `WalkErr` occurred.
-/

namespace Mdsort.Proofs
open Mdsort Mdsort.Model
open Mdsort.Proofs.Own (runO)

/-- The error bit of the processing of one message when the next call has index `i`: the file is
not known, the parse phase failed, the verdict of the rules IN THIS RUN is an error (evaluation asks the operating
system: the result of `evalP` on the results `orcl` gives, `evVerdict`), or the action list reported an error. -/
def msgError (env : PEnv) (orc : EvalOracles) (expr : Expr) (md : Maildir) (name : Bytes) (st : MainSt)
    (orcl : Nat → Call → Res) (i : Nat) : Bool :=
  match md.dirH with
  | none => false
  | some d =>
    match st.files.get md.path name with
    | none => true
    | some content =>
      match (runO orcl (messageParseP d md.path name content) i).1 with
      | none => true
      | some ms =>
        match evVerdict env orc ms (runO orcl (evalMs env orc expr ms) (runO orcl (messageParseP d md.path name content) i).2.2).1 with
        | .nomatch => false
        | .act ml msgs fl =>
          if env.dryrun then false
          else
            (runO orcl (matchesExec env ml { src := md, chsrc := false, ms := { ms with msg := msgs 0, flags := fl }, reject := false })
              (runO orcl (evalMs env orc expr ms) (runO orcl (messageParseP d md.path name content) i).2.2).2.2).1.2
        | _ => true

def isDot (n : Bytes) : Bool := n == [46] || n == [46, 46]

/-- The causes that set the error flag during `walk env orc expr fuel md st` when the next call has
index `i` and results are given by `orcl`. -/
inductive WalkErr (env : PEnv) (orc : EvalOracles) (expr : Expr) (orcl : Nat → Call → Res) :
    Nat → Maildir → MainSt → Nat → Prop
  /-- `readdir` failed. -/
  | readdirFailed {fuel md st i d} (hd : md.dirH = some d)
      (hr : ∀ n, orcl i (.readdir d) ≠ .name n) (he : orcl i (.readdir d) ≠ .eof) : WalkErr env orc expr orcl (fuel + 1) md st i
  /-- The message `n` returned by `readdir` has its error bit set. -/
  | message {fuel md st i d n} (hd : md.dirH = some d) (hr : orcl i (.readdir d) = .name n) (hn : isDot n = false)
      (he : msgError env orc expr md n st orcl (i + 1) = true) : WalkErr env orc expr orcl (fuel + 1) md st i
  /-- A cause occurs in the rest of the walk, after the message `n`. -/
  | later {fuel md st i d n} (hd : md.dirH = some d) (hr : orcl i (.readdir d) = .name n) (hn : isDot n = false)
      (h : WalkErr env orc expr orcl fuel md (runO orcl (processMessage env orc expr md n st) (i + 1)).1.1
        (runO orcl (processMessage env orc expr md n st) (i + 1)).2.2) : WalkErr env orc expr orcl (fuel + 1) md st i
  /-- A cause occurs in the rest of the walk, after `.` or `..`. -/
  | afterDot {fuel md st i d n} (hd : md.dirH = some d) (hr : orcl i (.readdir d) = .name n) (hn : isDot n = true)
      (h : WalkErr env orc expr orcl fuel md st (i + 1)) : WalkErr env orc expr orcl (fuel + 1) md st i
  /-- `new` is exhausted and the path of `cur` does not fit. -/
  | curJoin {fuel md st i d} (hd : md.dirH = some d) (hr : orcl i (.readdir d) = .eof) (hs : md.stdin = false)
      (hsub : md.subdir = .new) (hp : pathjoin PATH_MAX md.root (subdirName .cur) = none) : WalkErr env orc expr orcl (fuel + 1) md st i
  /-- `new` is exhausted and `cur` cannot be opened. -/
  | curOpen {fuel md st i d p} (hd : md.dirH = some d) (hr : orcl i (.readdir d) = .eof) (hs : md.stdin = false)
      (hsub : md.subdir = .new) (hp : pathjoin PATH_MAX md.root (subdirName .cur) = some p)
      (ho : (runO orcl (maildirOpendir { md with subdir := .cur, path := p } p) (i + 1)).1.2 = true) :
      WalkErr env orc expr orcl (fuel + 1) md st i
  /-- A cause occurs in the walk over `cur`. -/
  | inCur {fuel md st i d p} (hd : md.dirH = some d) (hr : orcl i (.readdir d) = .eof) (hs : md.stdin = false)
      (hsub : md.subdir = .new) (hp : pathjoin PATH_MAX md.root (subdirName .cur) = some p)
      (ho : (runO orcl (maildirOpendir { md with subdir := .cur, path := p } p) (i + 1)).1.2 = false)
      (h : WalkErr env orc expr orcl fuel (runO orcl (maildirOpendir { md with subdir := .cur, path := p } p) (i + 1)).1.1 st
        (runO orcl (maildirOpendir { md with subdir := .cur, path := p } p) (i + 1)).2.2) :
      WalkErr env orc expr orcl (fuel + 1) md st i

end Mdsort.Proofs

namespace Mdsort.Proofs.Own
open Mdsort Mdsort.Model Mdsort.Proofs
open Mdsort.Proofs.World (bind_eq pure_eq ret_bind call_bind' call_bind bind_assoc Calls All)

/-! ## generic facts about `runO` -/

theorem runO_index {α} (orcl : Nat → Call → Res) (p : Prog α) (i : Nat) :
    (runO orcl p i).2.2 = i + (runO orcl p i).2.1.length := by
  induction p generalizing i with
  | ret a => simp [runO]
  | call c k ih =>
    simp only [runO_call, List.length_cons]
    rw [ih]
    omega

theorem all_runO {α} {P : α → Prop} {p : Prog α} (h : All P p) (orcl : Nat → Call → Res) (i : Nat) : P (runO orcl p i).1 := by
  induction p generalizing i with
  | ret a => exact h
  | call c k ih => exact ih _ (h _) _

/-! ## the walk continues after every message -/

theorem all_afterVerdict_md (env : PEnv) (md : Maildir) (name : Bytes) (st : MainSt) (ms : MsgSt) (v : Verdict) :
    All (fun r => r.2 = md) (afterVerdict env md name st ms v) := by
  have hfree : ∀ (ms' : MsgSt) (s : MainSt),
      All (fun r : MainSt × Maildir => r.2 = md) ((freeP ms').bind fun _ => .ret (s, md)) :=
    fun ms' s => World.All.bind_of_forall _ fun _ => rfl
  cases v with
  | unparsable => exact hfree _ _
  | error => exact hfree _ _
  | interpFail => exact hfree _ _
  | «nomatch» => exact hfree _ _
  | act ml msgs fl =>
    unfold afterVerdict
    dsimp only
    split
    · exact hfree _ _
    · exact World.All.bind_of_forall _ fun x => hfree _ _

/-- `processMessage` returns the maildir it was given. -/
theorem all_processMessage_md (env : PEnv) (orc : EvalOracles) (expr : Expr) (md : Maildir) (name : Bytes) (st : MainSt) :
    All (fun r => r.2 = md) (processMessage env orc expr md name st) := by
  cases hd : md.dirH with
  | none => rw [processMessage_noDir env orc expr md name st hd]; exact rfl
  | some d =>
    cases hf : st.files.get md.path name with
    | none => rw [processMessage_unknown env orc expr md name st d hd hf]; exact rfl
    | some content =>
      rw [processMessage_eq env orc expr md name st d content hd hf]
      refine World.All.bind_of_forall _ fun pm => ?_
      cases pm with
      | none => exact rfl
      | some ms => exact World.All.bind_of_forall _ fun ev => all_afterVerdict_md env md name st ms _

theorem walk_step (env : PEnv) (orc : EvalOracles) (expr : Expr) (fuel : Nat) (md : Maildir) (st : MainSt) (d : Handle)
    (n : Bytes) (orcl : Nat → Call → Res) (i : Nat)
    (hd : md.dirH = some d) (hr : orcl i (.readdir d) = .name n) (hn : isDot n = false) :
    runO orcl (walk env orc expr (fuel + 1) md st) i =
      ((runO orcl (walk env orc expr fuel md (runO orcl (processMessage env orc expr md n st) (i + 1)).1.1)
          (runO orcl (processMessage env orc expr md n st) (i + 1)).2.2).1,
       (.readdir d, .name n) :: ((runO orcl (processMessage env orc expr md n st) (i + 1)).2.1 ++
         (runO orcl (walk env orc expr fuel md (runO orcl (processMessage env orc expr md n st) (i + 1)).1.1)
          (runO orcl (processMessage env orc expr md n st) (i + 1)).2.2).2.1),
       (runO orcl (walk env orc expr fuel md (runO orcl (processMessage env orc expr md n st) (i + 1)).1.1)
          (runO orcl (processMessage env orc expr md n st) (i + 1)).2.2).2.2) := by
  have hmd : (runO orcl (processMessage env orc expr md n st) (i + 1)).1.2 = md :=
    all_runO (all_processMessage_md env orc expr md n st) orcl (i + 1)
  unfold isDot at hn
  rw [walk_succ]
  simp only [hd]
  rw [runO_call, hr]
  simp only [walkK, hn, Bool.false_eq_true, if_false]
  rw [runO_bind, hmd]

theorem walk_dot (env : PEnv) (orc : EvalOracles) (expr : Expr) (fuel : Nat) (md : Maildir) (st : MainSt) (d : Handle)
    (n : Bytes) (orcl : Nat → Call → Res) (i : Nat)
    (hd : md.dirH = some d) (hr : orcl i (.readdir d) = .name n) (hn : isDot n = true) :
    runO orcl (walk env orc expr (fuel + 1) md st) i =
      ((runO orcl (walk env orc expr fuel md st) (i + 1)).1,
       (.readdir d, .name n) :: (runO orcl (walk env orc expr fuel md st) (i + 1)).2.1,
       (runO orcl (walk env orc expr fuel md st) (i + 1)).2.2) := by
  unfold isDot at hn
  rw [walk_succ]
  simp only [hd]
  rw [runO_call, hr]
  simp only [walkK, hn, if_true]

/-- After a message - whatever its outcome - the walk issues the next `readdir`. -/
theorem walk_first_call (env : PEnv) (orc : EvalOracles) (expr : Expr) (fuel : Nat) (md : Maildir) (st : MainSt) (d : Handle)
    (orcl : Nat → Call → Res) (j : Nat) (hd : md.dirH = some d) :
    (runO orcl (walk env orc expr (fuel + 1) md st) j).2.1.head? = some (.readdir d, orcl j (.readdir d)) := by
  rw [walk_succ]
  simp only [hd]
  rw [runO_call]
  rfl

/-! ## the error flag is sticky -/

theorem setErr_of_error {st : MainSt} (h : st.error = true) : setErr true st = st := by
  cases st
  simp_all [setErr]

theorem setErr_clean (st : MainSt) : setErr st.error { st with error := false } = st := by
  cases st
  simp [setErr]

theorem walk_error_sticky (env : PEnv) (orc : EvalOracles) (expr : Expr) (fuel : Nat) (md : Maildir) (st : MainSt)
    (orcl : Nat → Call → Res) (i : Nat) (h : st.error = true) :
    (runO orcl (walk env orc expr fuel md st) i).1.1.error = true := by
  have := walk_setErr env orc expr fuel md st true
  rw [setErr_of_error h] at this
  rw [this, runO_mapP]
  rfl

/-- The run from a state with the error flag set issues the same calls and ends in the same state,
up to the flag, as the run from the state with the flag cleared. -/
theorem processMessage_run_clean (env : PEnv) (orc : EvalOracles) (expr : Expr) (md : Maildir) (name : Bytes) (st : MainSt)
    (orcl : Nat → Call → Res) (i : Nat) :
    runO orcl (processMessage env orc expr md name st) i =
      (orErr st.error (runO orcl (processMessage env orc expr md name { st with error := false }) i).1,
       (runO orcl (processMessage env orc expr md name { st with error := false }) i).2.1,
       (runO orcl (processMessage env orc expr md name { st with error := false }) i).2.2) := by
  have := processMessage_setErr env orc expr md name { st with error := false } st.error
  rw [setErr_clean] at this
  rw [this, runO_mapP]

theorem walk_run_clean (env : PEnv) (orc : EvalOracles) (expr : Expr) (fuel : Nat) (md : Maildir) (st : MainSt)
    (orcl : Nat → Call → Res) (i : Nat) :
    runO orcl (walk env orc expr fuel md st) i =
      (orErr st.error (runO orcl (walk env orc expr fuel md { st with error := false }) i).1,
       (runO orcl (walk env orc expr fuel md { st with error := false }) i).2.1,
       (runO orcl (walk env orc expr fuel md { st with error := false }) i).2.2) := by
  have := walk_setErr env orc expr fuel md { st with error := false } st.error
  rw [setErr_clean] at this
  rw [this, runO_mapP]

/-! ## the error bit of one message -/

theorem runO_freeThen {β} (orcl : Nat → Call → Res) (ms : MsgSt) (r : β) (j : Nat) :
    (runO orcl ((freeP ms).bind fun _ => Prog.ret r) j).1 = r := by
  have h : All (fun x => x = r) ((freeP ms).bind fun _ => Prog.ret r) := World.All.bind_of_forall _ fun _ => rfl
  exact all_runO h orcl j

theorem processMessage_error_eq (env : PEnv) (orc : EvalOracles) (expr : Expr) (md : Maildir) (name : Bytes) (st : MainSt)
    (orcl : Nat → Call → Res) (i : Nat) :
    (runO orcl (processMessage env orc expr md name st) i).1.1.error =
      (st.error || msgError env orc expr md name st orcl i) := by
  unfold msgError
  cases hd : md.dirH with
  | none => rw [processMessage_noDir env orc expr md name st hd]; simp
  | some d =>
    dsimp only
    cases hf : st.files.get md.path name with
    | none => rw [processMessage_unknown env orc expr md name st d hd hf]; simp
    | some content =>
      dsimp only
      rw [processMessage_eq env orc expr md name st d content hd hf, runO_bind]
      have hpm : ParsedAs md.path name content (runO orcl (messageParseP d md.path name content) i).1 :=
        all_runO (all_messageParseP_as d md.path name content) orcl i
      generalize (runO orcl (messageParseP d md.path name content) i).2.2 = j at *
      generalize (runO orcl (messageParseP d md.path name content) i).1 = pm at *
      cases pm with
      | none => simp [afterParse]
      | some ms =>
        dsimp only
        rw [afterParse, runO_bind]
        generalize (runO orcl (evalMs env orc expr ms) j).2.2 = j2 at *
        generalize (runO orcl (evalMs env orc expr ms) j).1 = ev at *
        cases evVerdict env orc ms ev with
        | unparsable => simp only [afterVerdict, runO_freeThen]; simp
        | error => simp only [afterVerdict, runO_freeThen]; simp
        | interpFail => simp only [afterVerdict, runO_freeThen]; simp
        | «nomatch» => simp only [afterVerdict, runO_freeThen]; simp
        | act ml msgs fl =>
          simp only [afterVerdict]
          split
          · simp only [runO_freeThen]; simp
          · rw [runO_bind]
            simp only [runO_freeThen]

/-! ## where the error flag of a walk comes from -/

theorem walkK_eof_stdin (env : PEnv) (orc : EvalOracles) (expr : Expr) (fuel : Nat) (md : Maildir) (st : MainSt)
    (hs : md.stdin = true) : walkK env orc expr fuel md st .eof = .ret (st, md) := by
  simp only [walkK, hs, if_true]

theorem walkK_eof_cur (env : PEnv) (orc : EvalOracles) (expr : Expr) (fuel : Nat) (md : Maildir) (st : MainSt)
    (hs : md.stdin = false) (hsub : md.subdir = .cur) : walkK env orc expr fuel md st .eof = .ret (st, md) := by
  simp only [walkK, hs, hsub, Bool.false_eq_true, if_false]

theorem walkK_eof_join (env : PEnv) (orc : EvalOracles) (expr : Expr) (fuel : Nat) (md : Maildir) (st : MainSt)
    (hs : md.stdin = false) (hsub : md.subdir = .new) (hp : pathjoin PATH_MAX md.root (subdirName .cur) = none) :
    walkK env orc expr fuel md st .eof = .ret ({ st with error := true }, md) := by
  simp only [walkK, hs, hsub, hp, Bool.false_eq_true, if_false]

theorem walkK_eof_open (env : PEnv) (orc : EvalOracles) (expr : Expr) (fuel : Nat) (md : Maildir) (st : MainSt) (p : Bytes)
    (hs : md.stdin = false) (hsub : md.subdir = .new) (hp : pathjoin PATH_MAX md.root (subdirName .cur) = some p) :
    walkK env orc expr fuel md st .eof =
      (maildirOpendir { md with subdir := .cur, path := p } p).bind fun x =>
        if x.2 then .ret ({ st with error := true }, x.1) else walk env orc expr fuel x.1 st := by
  obtain ⟨root, path, dirH, subdir, wlk, stdin⟩ := md
  dsimp only at hs hsub hp
  subst hs hsub
  simp only [walkK, hp, Bool.false_eq_true, if_false]

theorem walk_eof (env : PEnv) (orc : EvalOracles) (expr : Expr) (fuel : Nat) (md : Maildir) (st : MainSt) (d : Handle)
    (orcl : Nat → Call → Res) (i : Nat) (hd : md.dirH = some d) (hr : orcl i (.readdir d) = .eof) :
    runO orcl (walk env orc expr (fuel + 1) md st) i =
      ((runO orcl (walkK env orc expr fuel md st .eof) (i + 1)).1,
       (.readdir d, .eof) :: (runO orcl (walkK env orc expr fuel md st .eof) (i + 1)).2.1,
       (runO orcl (walkK env orc expr fuel md st .eof) (i + 1)).2.2) := by
  rw [walk_succ]
  simp only [hd]
  rw [runO_call, hr]

theorem walk_error_of_cause (env : PEnv) (orc : EvalOracles) (expr : Expr) (orcl : Nat → Call → Res)
    (fuel : Nat) (md : Maildir) (st : MainSt) (i : Nat) (h : WalkErr env orc expr orcl fuel md st i) :
    (runO orcl (walk env orc expr fuel md st) i).1.1.error = true := by
  induction h with
  | readdirFailed hd hr he =>
    rename_i fuel md st i d
    rw [walk_succ]
    simp only [hd]
    rw [runO_call]
    cases hres : orcl i (.readdir d) with
    | name n => exact absurd hres (hr n)
    | eof => exact absurd hres he
    | ok v => rfl
    | err e => rfl
  | message hd hr hn he =>
    rw [walk_step _ _ _ _ _ _ _ _ _ _ hd hr hn]
    refine walk_error_sticky _ _ _ _ _ _ _ _ ?_
    rw [processMessage_error_eq, he]
    simp
  | later hd hr hn _ ih =>
    rw [walk_step _ _ _ _ _ _ _ _ _ _ hd hr hn]
    exact ih
  | afterDot hd hr hn _ ih =>
    rw [walk_dot _ _ _ _ _ _ _ _ _ _ hd hr hn]
    exact ih
  | curJoin hd hr hs hsub hp =>
    rw [walk_eof _ _ _ _ _ _ _ _ _ hd hr, walkK_eof_join _ _ _ _ _ _ hs hsub hp]
    rfl
  | curOpen hd hr hs hsub hp ho =>
    rw [walk_eof _ _ _ _ _ _ _ _ _ hd hr, walkK_eof_open _ _ _ _ _ _ _ hs hsub hp, runO_bind]
    simp only [ho, if_true]
    rfl
  | inCur hd hr hs hsub hp ho _ ih =>
    rw [walk_eof _ _ _ _ _ _ _ _ _ hd hr, walkK_eof_open _ _ _ _ _ _ _ hs hsub hp, runO_bind]
    simp only [ho, Bool.false_eq_true, if_false]
    exact ih

theorem walk_cause_of_error (env : PEnv) (orc : EvalOracles) (expr : Expr) (orcl : Nat → Call → Res)
    (fuel : Nat) (md : Maildir) (st : MainSt) (i : Nat)
    (h : (runO orcl (walk env orc expr fuel md st) i).1.1.error = true) :
    st.error = true ∨ WalkErr env orc expr orcl fuel md st i := by
  induction fuel generalizing md st i with
  | zero => exact .inl h
  | succ fuel ih =>
    cases hd : md.dirH with
    | none =>
      rw [walk_succ] at h
      simp only [hd] at h
      exact .inl h
    | some d =>
      cases hr : orcl i (.readdir d) with
      | name n =>
        cases hn : isDot n with
        | true =>
          rw [walk_dot _ _ _ _ _ _ _ _ _ _ hd hr hn] at h
          rcases ih _ _ _ h with h' | h'
          · exact .inl h'
          · exact .inr (.afterDot hd hr hn h')
        | false =>
          rw [walk_step _ _ _ _ _ _ _ _ _ _ hd hr hn] at h
          rcases ih _ _ _ h with h' | h'
          · rw [processMessage_error_eq] at h'
            cases hse : st.error with
            | true => exact .inl rfl
            | false =>
              rw [hse, Bool.false_or] at h'
              exact .inr (.message hd hr hn h')
          · exact .inr (.later hd hr hn h')
      | eof =>
        rw [walk_eof _ _ _ _ _ _ _ _ _ hd hr] at h
        cases hs : md.stdin with
        | true =>
          rw [walkK_eof_stdin _ _ _ _ _ _ hs] at h
          exact .inl h
        | false =>
          cases hsub : md.subdir with
          | cur =>
            rw [walkK_eof_cur _ _ _ _ _ _ hs hsub] at h
            exact .inl h
          | new =>
            cases hp : pathjoin PATH_MAX md.root (subdirName .cur) with
            | none => exact .inr (.curJoin hd hr hs hsub hp)
            | some p =>
              rw [walkK_eof_open _ _ _ _ _ _ _ hs hsub hp, runO_bind] at h
              cases ho : (runO orcl (maildirOpendir { md with subdir := .cur, path := p } p) (i + 1)).1.2 with
              | true => exact .inr (.curOpen hd hr hs hsub hp ho)
              | false =>
                simp only [ho, Bool.false_eq_true, if_false] at h
                rcases ih _ _ _ h with h' | h'
                · exact .inl h'
                · exact .inr (.inCur hd hr hs hsub hp ho h')
      | ok v =>
        refine .inr (.readdirFailed hd ?_ ?_)
        · intro n e; rw [hr] at e; cases e
        · intro e; rw [hr] at e; cases e
      | err e =>
        refine .inr (.readdirFailed hd ?_ ?_)
        · intro n e'; rw [hr] at e'; cases e'
        · intro e'; rw [hr] at e'; cases e'

theorem walk_error_iff (env : PEnv) (orc : EvalOracles) (expr : Expr) (orcl : Nat → Call → Res)
    (fuel : Nat) (md : Maildir) (st : MainSt) (i : Nat) :
    (runO orcl (walk env orc expr fuel md st) i).1.1.error = true ↔
      st.error = true ∨ WalkErr env orc expr orcl fuel md st i :=
  ⟨walk_cause_of_error env orc expr orcl fuel md st i, fun h => h.elim
    (walk_error_sticky env orc expr fuel md st orcl i) (walk_error_of_cause env orc expr orcl fuel md st i)⟩

end Mdsort.Proofs.Own

/-! ## statements on `runOracle`, as used by the property files -/

namespace Mdsort.Proofs
open Mdsort Mdsort.Model
open Mdsort.Proofs.Own

/-- Frame of one message's processing, from any trace so far. -/
theorem processMessage_frame (env : PEnv) (orc : EvalOracles) (expr : Expr) (md : Maildir) (name : Bytes) (st : MainSt)
    (orcl : Nat → Call → Res) (i0 : Nat) (tr0 : List (Call × Res)) :
    ∀ i c r, tr0.length ≤ i → (runOracle orcl (processMessage env orc expr md name st) i0 tr0).2[i]? = some (c, r) →
      Framed name ((runOracle orcl (processMessage env orc expr md name st) i0 tr0).2.take i) c := by
  intro i c r hi hget
  exact (wp_sound (R := fun _ _ => True) orcl (fun _ _ => True.intro)
    (framed_processMessage env orc expr md name st tr0) i0).2.2 i c r hi hget

/-- Frame of a walk, from any trace so far. -/
theorem walk_frame (env : PEnv) (orc : EvalOracles) (expr : Expr) (fuel : Nat) (md : Maildir) (st : MainSt)
    (orcl : Nat → Call → Res) (i0 : Nat) (tr0 : List (Call × Res)) :
    ∀ i c r, tr0.length ≤ i → (runOracle orcl (walk env orc expr fuel md st) i0 tr0).2[i]? = some (c, r) →
      FramedW ((runOracle orcl (walk env orc expr fuel md st) i0 tr0).2.take i) c := by
  intro i c r hi hget
  exact (wp_sound (R := fun _ _ => True) orcl (fun _ _ => True.intro)
    (framedW_walk env orc expr fuel md st tr0) i0).2.2 i c r hi hget

theorem processMessage_error_oracle (env : PEnv) (orc : EvalOracles) (expr : Expr) (md : Maildir) (name : Bytes) (st : MainSt)
    (orcl : Nat → Call → Res) (i : Nat) (tr : List (Call × Res)) :
    (runOracle orcl (processMessage env orc expr md name st) i tr).1.1.error =
      (st.error || msgError env orc expr md name st orcl i) := by
  rw [runOracle_eq]
  exact processMessage_error_eq env orc expr md name st orcl i

theorem walk_error_oracle_iff (env : PEnv) (orc : EvalOracles) (expr : Expr) (fuel : Nat) (md : Maildir) (st : MainSt)
    (orcl : Nat → Call → Res) (i : Nat) (tr : List (Call × Res)) :
    (runOracle orcl (walk env orc expr fuel md st) i tr).1.1.error = true ↔
      st.error = true ∨ WalkErr env orc expr orcl fuel md st i := by
  rw [runOracle_eq]
  exact walk_error_iff env orc expr orcl fuel md st i

/-- Error isolation: the run of the walk over a name is the run of that message's processing
followed by the run of the rest of the walk, whatever the message's outcome. -/
theorem walk_isolated (env : PEnv) (orc : EvalOracles) (expr : Expr) (fuel : Nat) (md : Maildir) (st : MainSt) (d : Handle)
    (n : Bytes) (orcl : Nat → Call → Res) (tr : List (Call × Res))
    (hd : md.dirH = some d) (hr : orcl tr.length (.readdir d) = .name n) (hn : (n == [46] || n == [46, 46]) = false) :
    runOracle orcl (walk env orc expr (fuel + 1) md st) tr.length tr =
      runOracle orcl (walk env orc expr fuel md
          (runOracle orcl (processMessage env orc expr md n st) (tr.length + 1) (tr ++ [(.readdir d, .name n)])).1.1)
        (runOracle orcl (processMessage env orc expr md n st) (tr.length + 1) (tr ++ [(.readdir d, .name n)])).2.length
        (runOracle orcl (processMessage env orc expr md n st) (tr.length + 1) (tr ++ [(.readdir d, .name n)])).2 ∧
    (runOracle orcl (processMessage env orc expr md n st) (tr.length + 1) (tr ++ [(.readdir d, .name n)])).1.2 = md ∧
    (fuel ≠ 0 →
      (runOracle orcl (walk env orc expr (fuel + 1) md st) tr.length tr).2[
          (runOracle orcl (processMessage env orc expr md n st) (tr.length + 1) (tr ++ [(.readdir d, .name n)])).2.length]? =
        some (.readdir d,
          orcl (runOracle orcl (processMessage env orc expr md n st) (tr.length + 1) (tr ++ [(.readdir d, .name n)])).2.length
            (.readdir d))) ∧
    ((runOracle orcl (processMessage env orc expr md n st) (tr.length + 1) (tr ++ [(.readdir d, .name n)])).1.1.error = true →
      (runOracle orcl (walk env orc expr (fuel + 1) md st) tr.length tr).1.1.error = true) ∧
    (st.error = true →
      (runOracle orcl (processMessage env orc expr md n st) (tr.length + 1) (tr ++ [(.readdir d, .name n)])).1.1.error = true) := by
  have hn' : isDot n = false := hn
  have hx := runO_index orcl (processMessage env orc expr md n st) (tr.length + 1)
  have hlen : (tr ++ [(Call.readdir d, Res.name n)] ++
      (runO orcl (processMessage env orc expr md n st) (tr.length + 1)).2.1).length =
      (runO orcl (processMessage env orc expr md n st) (tr.length + 1)).2.2 := by
    rw [hx]
    simp only [List.length_append, List.length_cons, List.length_nil]
  have hstep := walk_step env orc expr fuel md st d n orcl tr.length hd hr hn'
  have hmd : (runO orcl (processMessage env orc expr md n st) (tr.length + 1)).1.2 = md :=
    all_runO (all_processMessage_md env orc expr md n st) orcl _
  have herr := processMessage_error_eq env orc expr md n st orcl (tr.length + 1)
  rw [runOracle_eq orcl (processMessage env orc expr md n st)]
  dsimp only
  rw [hlen, runOracle_eq, hstep, runOracle_eq]
  dsimp only
  generalize runO orcl (processMessage env orc expr md n st) (tr.length + 1) = x at *
  refine ⟨?_, hmd, ?_, ?_, ?_⟩
  · simp
  · intro hf
    obtain ⟨f, rfl⟩ := Nat.exists_eq_succ_of_ne_zero hf
    have hfirst := walk_first_call env orc expr f md x.1.1 d orcl x.2.2 hd
    have : ∀ Y : Trace, tr ++ (Call.readdir d, Res.name n) :: (x.2.1 ++ Y) =
        (tr ++ [(Call.readdir d, Res.name n)] ++ x.2.1) ++ Y := by
      intro Y; simp
    rw [this, List.getElem?_append_right (Nat.le_of_eq hlen), hlen, Nat.sub_self, ← List.head?_eq_getElem?]
    exact hfirst
  · intro he
    exact walk_error_sticky env orc expr fuel md x.1.1 orcl x.2.2 he
  · intro hs
    rw [herr, hs]
    rfl

end Mdsort.Proofs
