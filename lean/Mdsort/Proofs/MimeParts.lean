import Mdsort.Proofs.MimeScan
import Mdsort.Model.MimeEntity

/-! Helper lemmas for C11, part 2: the part loop against `Spec.cutParts.go`. -/

namespace Mdsort.Proofs
open Mdsort Mdsort.Model

/-! ### the specification's `go` by first delimiter line -/

theorem go_eq (b : Bytes) (ls cur : List Bytes) :
    Spec.cutParts.go (sepOf b) (finOf b) ls cur =
      match ls.dropWhile (notDelim b) with
      | [] => none
      | d :: rest =>
        if d == finOf b then some [Spec.unlines (cur ++ ls.takeWhile (notDelim b))]
        else (Spec.cutParts.go (sepOf b) (finOf b) rest []).map
          (Spec.unlines (cur ++ ls.takeWhile (notDelim b)) :: ·) := by
  induction ls generalizing cur with
  | nil => simp [Spec.cutParts.go]
  | cons l ls ih =>
    rw [Spec.cutParts.go]
    by_cases hf : l = finOf b
    · simp [hf]
    · by_cases hs : l = sepOf b
      · simp [hs]
      · have hnd : notDelim b l = true := by simp [notDelim, hs, hf]
        have hf' : (l == finOf b) = false := by simp [hf]
        have hs' : (l == sepOf b) = false := by simp [hs]
        simp only [hf', hs', Bool.false_eq_true, if_false, List.dropWhile_cons, List.takeWhile_cons, hnd,
          if_true]
        rw [ih]
        simp

/-! ### collecting the parts of the cut texts -/

/-- What `Spec.parts` does with the cut texts, for an arbitrary reader `sub` of the nested parts. -/
def collect (sub : Msg → Option (List Msg)) (texts : List Bytes) : Option (List Msg) :=
  (texts.mapM fun t => (sub (parseHeaders t)).map fun s => parseHeaders t :: s).map List.flatten

theorem collect_nil (sub : Msg → Option (List Msg)) : collect sub [] = some [] := by
  simp [collect]

theorem collect_cons (sub : Msg → Option (List Msg)) (t : Bytes) (ts : List Bytes) :
    collect sub (t :: ts) =
      match sub (parseHeaders t) with
      | none => none
      | some n => (collect sub ts).map (parseHeaders t :: n ++ ·) := by
  unfold collect
  rw [List.mapM_cons]
  cases sub (parseHeaders t) with
  | none => rfl
  | some n =>
    cases List.mapM (fun t => (sub (parseHeaders t)).map fun s => parseHeaders t :: s) ts with
    | none => rfl
    | some xs => simp

theorem collect_congr {sub1 sub2 : Msg → Option (List Msg)} {texts : List Bytes}
    (h : ∀ t ∈ texts, sub1 (parseHeaders t) = sub2 (parseHeaders t)) :
    collect sub1 texts = collect sub2 texts := by
  induction texts with
  | nil => simp [collect_nil]
  | cons t ts ih =>
    rw [collect_cons, collect_cons, h t (by simp), ih (fun t' ht' => h t' (by simp [ht']))]

/-! ### `partsLoop` -/

theorem partsLoop_eq (sub : Msg → Option (List Msg)) (bnd : Bytes) (hb : 10 ∉ bnd) :
    ∀ (n : Nat) (t : Bytes), t.length < n →
      partsLoop sub bnd n t =
        (Spec.cutParts.go (sepOf bnd) (finOf bnd) (Spec.termLines t []).1 []).bind (collect sub) := by
  intro n
  induction n with
  | zero => intro t ht; omega
  | succ n ih =>
    intro t ht
    rw [partsLoop, go_eq]
    obtain ⟨h0, h1⟩ := findBoundary_lines bnd hb t
    cases hd : (Spec.termLines t []).1.dropWhile (notDelim bnd) with
    | nil => simp [h0 hd]
    | cons d rest =>
      obtain ⟨fromLine, hfb, hrest, hlen⟩ := h1 d rest hd
      simp only [hfb, List.nil_append]
      generalize Spec.unlines ((Spec.termLines t []).1.takeWhile (notDelim bnd)) = u
      cases hsub : sub (parseHeaders u) with
      | none =>
        by_cases hf : (d == finOf bnd) = true
        · simp [hf, collect_cons, hsub]
        · simp only [hf]
          cases Spec.cutParts.go (sepOf bnd) (finOf bnd) rest [] <;> simp [collect_cons, hsub]
      | some nested =>
        by_cases hf : (d == finOf bnd) = true
        · simp [hf, collect_cons, collect_nil, hsub]
        · simp only [hf]
          rw [ih (skipLine fromLine) (by omega), hrest]
          cases Spec.cutParts.go (sepOf bnd) (finOf bnd) rest [] <;> simp [collect_cons, hsub]

end Mdsort.Proofs
