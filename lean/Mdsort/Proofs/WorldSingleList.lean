import Mdsort.Proofs.WorldSingleExec

/-! One entry of the action list, and the whole list, under at most one fault. -/

namespace Mdsort.Proofs.World
set_option linter.unusedSimpArgs false
open Mdsort Mdsort.Model

/-- The invariant between two actions: the source maildir is open on its directory, the message
is bound there under its current name to a file (below `nextFid`) that holds the content the
ghost state records, and the message's own descriptor is an existing handle other than the
source directory's. -/
structure At (w : World) (st : ExecSt) (sh : Handle) (fid : Nat) : Prop where
  hsh : st.src.dirH = some sh
  hps : w.dirPath sh = some st.src.path
  wf : pathjoin PATH_MAX st.src.root (subdirName st.src.subdir) = some st.src.path
  hloc : st.ms.loc = some (st.src.path, st.ms.name)
  hlk : lk w (st.src.path, st.ms.name) = some fid
  hlt : fid < w.nextFid
  hf : w.file fid = some ⟨st.ms.content, st.ms.content⟩
  mfd : ∀ h, st.ms.fd = some h → h < w.handles.length ∧ h ≠ sh

theorem At.located {w : World} {st : ExecSt} {sh : Handle} {fid : Nat} (h : At w st sh fid) :
    Located w st.ms (st.src.path, st.ms.name) := ⟨h.hloc, fid, h.hlk, h.hlt, h.hf⟩

theorem Located.step {w : World} {ms : MsgSt} {nb : Ent} (h : Located w ms nb) (c : Call) (r : Res)
    (hd : Call.dirOp c = false) (hfs : ∀ g, fileSafe w g c) : Located (stepWorld w c r) ms nb := by
  obtain ⟨hl, fid, hlk, hlt, hf⟩ := h
  have := file_step hf hlt c r (hfs fid)
  exact ⟨hl, fid, by rw [lk_step _ _ _ hd]; exact hlk, this.2, this.1⟩

theorem At.closedir {w : World} {st : ExecSt} {sh : Handle} {fid : Nat} (h : At w st sh fid) (d : Handle) (r : Res)
    (hne : d ≠ sh) : At (stepWorld w (.closedir d) r) st sh fid := by
  have hf := file_step h.hf h.hlt (.closedir d) r trivial
  refine ⟨h.hsh, ?_, h.wf, h.hloc, by rw [lk_step _ _ _ rfl]; exact h.hlk, hf.2, hf.1, ?_⟩
  · rw [← h.hps]
    apply dirPath_congr
    rw [stepWorld_obj]
    exact core_obj w _ r sh (lt_of_dirPath h.hps) (by simp only [Call.subject, ne_eq, Option.some.injEq]; exact hne)
  · intro h' hh
    obtain ⟨h1, h2⟩ := h.mfd h' hh
    refine ⟨?_, h2⟩
    rw [stepWorld_handles]
    exact Nat.lt_of_lt_of_le h1 (core_len w (.closedir d) r)

theorem At.frame {w w' : World} {st : ExecSt} {sh : Handle} {fid : Nat} (h : At w st sh fid) (fr : Fr1 (NewS w) w w') :
    At w' st sh fid := by
  refine ⟨h.hsh, ?_, h.wf, h.hloc, ?_, Nat.lt_of_lt_of_le h.hlt fr.nextFid, ?_, ?_⟩
  · rw [← h.hps]; exact dirPath_congr (fr.objs sh (lt_of_dirPath h.hps))
  · rw [← h.hlk]; exact lookup_of_dirs fr.dirs _ _
  · rw [fr.files fid h.hlt (by simp only [NewS]; have := h.hlt; omega)]; exact h.hf
  · intro h' hh
    obtain ⟨h1, h2⟩ := h.mfd h' hh
    exact ⟨Nat.lt_of_lt_of_le h1 fr.len, h2⟩

def isPathTy : MType → Bool
  | .move | .flag | .flags => true
  | _ => false

def isRewriteTy : MType → Bool
  | .label | .addHeader => true
  | _ => false

/-- The directory the message is in after a successful action. -/
def stepDir (mh : Match) (p : Bytes) : Bytes := if isPathTy mh.ty then (dstPathOf mh.path).getD p else p

theorem path_not_rewrite {t : MType} (h : isPathTy t = true) : isRewriteTy t = false := by
  cases t <;> simp [isPathTy, isRewriteTy] at h ⊢

/-- What one entry of the action list guarantees under at most one fault, on every path. -/
def ExecPost (w : World) (mh : Match) (st : ExecSt) (r : ExecSt × Bool) (w' : World) : Prop :=
  ∃ nb, Located w' r.1.ms nb ∧ Delta w w' (st.src.path, st.ms.name) nb ∧ r.1.ms.msg = st.ms.msg ∧
    (r.1.ms.content = st.ms.content ∨ r.1.ms.content = (messageWrite st.ms.msg).1) ∧
    (r.2 = false → (∃ sh' fid', At w' r.1 sh' fid') ∧ r.1.src.path = stepDir mh st.src.path ∧
        (isRewriteTy mh.ty = true → r.1.ms.content = (messageWrite st.ms.msg).1))

theorem ExecPost.ok {w w' : World} {mh : Match} {st st' : ExecSt} {sh' fid' : Nat} (hA' : At w' st' sh' fid')
    (d : Delta w w' (st.src.path, st.ms.name) (st'.src.path, st'.ms.name))
    (hmsg : st'.ms.msg = st.ms.msg)
    (hcont : st'.ms.content = st.ms.content ∨ st'.ms.content = (messageWrite st.ms.msg).1)
    (hdir : st'.src.path = stepDir mh st.src.path)
    (hrw : isRewriteTy mh.ty = true → st'.ms.content = (messageWrite st.ms.msg).1) :
    ExecPost w mh st (st', false) w' :=
  ⟨_, hA'.located, d, hmsg, hcont, fun _ => ⟨⟨sh', fid', hA'⟩, hdir, hrw⟩⟩

theorem maildirClose_some {md : Maildir} {d : Handle} (h : md.dirH = some d) :
    maildirClose md = Prog.call (.closedir d) fun _ => Prog.ret () := by
  unfold maildirClose
  simp only [h, bind_eq, pure_eq, call_bind]

theorem sf_closeRet {α} {Q : α → World → Prop} {w : World} (md : Maildir) {d : Handle} (hd : md.dirH = some d) (x : α) (b : Bool)
    (hpost : ∀ r, Q x (stepWorld w (.closedir d) r)) :
    wpS ((maildirClose md).bind fun _ => Prog.ret x) (fun _ => Q) b w := by
  rw [maildirClose_some hd]
  simp only [call_bind', ret_bind]
  exact wpS_call_any fun r _ => hpost r

theorem execOne_moveBranch (env : PEnv) (mh : Match) (st : ExecSt) (hpt : isPathTy mh.ty = true) :
    execOne env mh st = moveBranch env mh st := by
  unfold execOne moveBranch
  cases hty : mh.ty <;> simp [isPathTy, hty] at hpt <;> rfl

theorem sf_moveBranch (env : PEnv) (mh : Match) (st : ExecSt) {w : World} {sh : Handle} {fid : Nat}
    (hA : At w st sh fid) (hpt : isPathTy mh.ty = true) (b : Bool) :
    wpS (moveBranch env mh st) (fun _ => ExecPost w mh st) b w := by
  unfold moveBranch
  refine wpS_bind_mono (wpS_of_wp b (frame_maildirOpenDst mh.path)) ?_
  rintro b1 d w1 ⟨m1, hd⟩
  have hshlt : sh < w.handles.length := lt_of_dirPath hA.hps
  cases d with
  | none =>
    exact ⟨_, ⟨hA.hloc, fid, by rw [m1.look]; exact hA.hlk, Nat.lt_of_lt_of_le hA.hlt m1.nextFid,
      (m1.files fid hA.hlt).trans hA.hf⟩, m1.delta_same _, rfl, .inl rfl, by intro h; cases h⟩
  | some dst =>
    obtain ⟨dh, hdh, hpd1, hdd, dhlo, dhhi, hwf, hdp⟩ := hd dst rfl
    dsimp only
    have hps1 := m1.dirPath hA.hps
    have hlk1 : lk w1 (st.src.path, st.ms.name) = some fid := by rw [m1.look]; exact hA.hlk
    have hlt1 := Nat.lt_of_lt_of_le hA.hlt m1.nextFid
    have hf1 := (m1.files fid hA.hlt).trans hA.hf
    have hdd1 : (w1.dir dst.path).isSome := by rw [m1.dirSome]; exact hdd
    refine wpS_bind_mono (sf_maildirMove env hA.hsh hdh hps1 hpd1 hdd1 hlk1 hlt1 hf1 hA.hloc b1) ?_
    rintro b2 ⟨ms', e⟩ w2 ⟨nb, hloc2, d12, hobjs, hmsg, hfd, hcont, hnb⟩
    simp only at hloc2 hmsg hfd hcont hnb
    have d02 : Delta w w2 (st.src.path, st.ms.name) nb := (m1.delta_same _).trans d12
    have hdir : dst.path = stepDir mh st.src.path := by
      unfold stepDir
      simp [hpt, hdp]
    cases e with
    | true =>
      simp only [if_true]
      refine sf_closeRet dst hdh _ b2 ?_
      intro r
      exact ⟨nb, hloc2.step _ r rfl (fun _ => trivial), d02.step _ r rfl (fun _ _ => trivial), hmsg, hcont,
        by intro h; cases h⟩
    | false =>
      simp only [Bool.false_eq_true, if_false]
      have hnb' := hnb rfl
      subst hnb'
      obtain ⟨hl2, fid2, hlk2, hlt2, hf2⟩ := hloc2
      have hlen1 : w.handles.length ≤ w1.handles.length := m1.len
      have hlen2 : w1.handles.length ≤ w2.handles.length := d12.len
      have hrw : isRewriteTy mh.ty = true → ms'.content = (messageWrite st.ms.msg).1 := by
        intro h; rw [path_not_rewrite hpt] at h; cases h
      split
      · -- the message is now in another directory: it becomes the source
        have hA2 : At w2 { src := dst, chsrc := true, ms := ms', reject := st.reject } dh fid2 := by
          refine ⟨hdh, ?_, hwf, hl2, hlk2, hlt2, hf2, ?_⟩
          · rw [← hpd1]; exact dirPath_congr (hobjs dh dhhi)
          · intro h hh
            rw [hfd] at hh
            obtain ⟨h1, _⟩ := hA.mfd h hh
            exact ⟨Nat.lt_of_lt_of_le h1 (Nat.le_trans hlen1 hlen2), Nat.ne_of_lt (Nat.lt_of_lt_of_le h1 dhlo)⟩
        split
        · refine sf_closeRet st.src hA.hsh _ b2 ?_
          intro r
          have hA3 := hA2.closedir sh r (Nat.ne_of_lt (Nat.lt_of_lt_of_le hshlt dhlo))
          exact ExecPost.ok hA3 (d02.step _ r rfl (fun _ _ => trivial)) hmsg hcont hdir hrw
        · exact ExecPost.ok hA2 d02 hmsg hcont hdir hrw
      · -- same maildir and subdirectory: the source stays
        rename_i hsame
        have hpath : dst.path = st.src.path := by
          have h1 : st.src.subdir = dst.subdir := by
            cases h : st.src.subdir <;> cases h' : dst.subdir <;> simp_all
          have h2 : st.src.root = dst.root := by
            by_cases h : st.src.root = dst.root
            · exact h
            · simp_all
          have := hA.wf
          rw [h1, h2, hwf] at this
          exact Option.some.inj this
        have hA2 : At w2 { src := st.src, chsrc := st.chsrc, ms := ms', reject := st.reject } sh fid2 := by
          refine ⟨hA.hsh, ?_, hA.wf, by rw [hl2, hpath], by rw [← hpath]; exact hlk2, hlt2, hf2, ?_⟩
          · rw [← hps1]; exact dirPath_congr (hobjs sh (Nat.lt_of_lt_of_le hshlt hlen1))
          · intro h hh
            rw [hfd] at hh
            obtain ⟨h1, h2⟩ := hA.mfd h hh
            exact ⟨Nat.lt_of_lt_of_le h1 (Nat.le_trans hlen1 hlen2), h2⟩
        refine sf_closeRet dst hdh _ b2 ?_
        intro r
        have hA3 := hA2.closedir dh r (Ne.symm (Nat.ne_of_lt (Nat.lt_of_lt_of_le hshlt dhlo)))
        have d3 := d02.step (.closedir dh) r rfl (fun _ _ => trivial)
        rw [hpath] at d3
        exact ExecPost.ok hA3 d3 hmsg hcont (hpath.symm.trans hdir) hrw

theorem frame_execOne_exec (env : PEnv) (mh : Match) (st : ExecSt) (hty : mh.ty = .exec) {w : World} :
    wp NoInv (execOne env mh st) (fun r w' => Fr1 (NewS w) w w' ∧ r = (st, r.2)) w := by
  unfold execOne
  simp only [hty, bind_eq, pure_eq, call_bind]
  refine wp_bind_mono (R := fun fdr w1 => Fr1 (NewS w) w w1 ∧ ∀ h, fdr = some (some h) → w.handles.length ≤ h) ?_ ?_
  · split
    · refine wp_bind_mono (frame_messageGetFd env st.ms _ mh.execBody) ?_
      rintro f w1 ⟨fr1, hf⟩
      refine ⟨fr1, ?_⟩
      intro h hh
      cases f with
      | none => cases hh
      | some fd => cases hh; exact hf _ rfl
    · exact ⟨Fr1.refl _ w, by intro _ h; cases h⟩
  · rintro fdr w1 ⟨fr1, hfd⟩
    cases fdr with
    | none => exact ⟨fr1, rfl⟩
    | some fd =>
      dsimp only
      refine wp_bind_mono (frame_execP _ fd fr1) ?_
      intro rc w2 fr2
      cases fd with
      | none => exact ⟨fr2, rfl⟩
      | some h =>
        dsimp only
        refine wp_call_any fun r => ?_
        exact ⟨trivial, fr2.step (.close h) r rfl (by intro _ hh; cases hh; exact hfd h rfl) (fun _ _ _ => trivial), rfl⟩

/-- An entry that leaves the message and the file system alone. -/
theorem ExecPost.same {w : World} {mh : Match} {st st' : ExecSt} {sh : Handle} {fid : Nat} (hA : At w st sh fid)
    (hsrc : st'.src = st.src) (hms : st'.ms = st.ms) (hp : isPathTy mh.ty = false) (hr : isRewriteTy mh.ty = false) :
    ExecPost w mh st (st', false) w := by
  have hA' : At w st' sh fid := by
    refine ⟨by rw [hsrc]; exact hA.hsh, by rw [hsrc]; exact hA.hps, by rw [hsrc]; exact hA.wf,
      by rw [hsrc, hms]; exact hA.hloc, by rw [hsrc, hms]; exact hA.hlk, hA.hlt, by rw [hms]; exact hA.hf,
      by rw [hms]; exact hA.mfd⟩
  refine ExecPost.ok hA' (by rw [hsrc, hms]; exact Delta.refl w _) (by rw [hms]) (.inl (by rw [hms])) ?_ ?_
  · unfold stepDir; simp [hp, hsrc]
  · intro h; rw [hr] at h; cases h

/-- One entry of the action list (other than discard) under at most one fault. -/
theorem sf_execOne (env : PEnv) (mh : Match) (st : ExecSt) {w : World} {sh : Handle} {fid : Nat}
    (hA : At w st sh fid) (hnd : mh.ty ≠ .discard) (b : Bool) :
    wpS (execOne env mh st) (fun _ => ExecPost w mh st) b w := by
  by_cases hpt : isPathTy mh.ty = true
  · rw [execOne_moveBranch env mh st hpt]
    exact sf_moveBranch env mh st hA hpt b
  by_cases hrt : isRewriteTy mh.ty = true
  · -- label, add-header
    have hprog : execOne env mh st = (maildirWrite env st.src st.ms).bind fun x => Prog.ret ({ st with ms := x.1 }, x.2) := by
      unfold execOne
      cases hty : mh.ty <;> simp [isRewriteTy, hty] at hrt <;> rfl
    rw [hprog]
    refine wpS_bind_mono (sf_maildirWrite env hA.hsh hA.hps hA.hlk hA.hlt hA.hf hA.hloc b) ?_
    rintro b1 ⟨ms', e⟩ w1 ⟨nb, hloc1, d, hobjs, hmsg, hcont, hfin⟩
    simp only at hloc1 hmsg hcont hfin
    cases e with
    | true => exact ⟨nb, hloc1, d, hmsg, hcont, by intro h; cases h⟩
    | false =>
      obtain ⟨hnb, hc, rd, hrd, hrdlo, hrdhi⟩ := hfin rfl
      subst hnb
      obtain ⟨hl1, fid1, hlk1, hlt1, hf1⟩ := hloc1
      have hshlt : sh < w.handles.length := lt_of_dirPath hA.hps
      have hA1 : At w1 { st with ms := ms' } sh fid1 := by
        refine ⟨hA.hsh, ?_, hA.wf, hl1, hlk1, hlt1, hf1, ?_⟩
        · rw [← hA.hps]
          refine dirPath_congr (hobjs sh hshlt ?_)
          intro hh
          exact (hA.mfd sh hh).2 rfl
        · intro h hh
          rw [hrd] at hh
          cases hh
          exact ⟨hrdhi, Ne.symm (Nat.ne_of_lt (Nat.lt_of_lt_of_le hshlt hrdlo))⟩
      refine ExecPost.ok hA1 d hmsg hcont ?_ (fun _ => hc)
      unfold stepDir
      simp [hpt]
  -- neither a path action nor a rewrite
  cases hty : mh.ty with
  | exec =>
    refine wpS_mono (wpS_of_wp b (frame_execOne_exec env mh st hty)) ?_
    rintro b1 ⟨st', e⟩ w1 ⟨fr, hst⟩
    simp only [Prod.mk.injEq, and_true] at hst
    subst hst
    have hA1 := hA.frame fr
    cases e with
    | true =>
      exact ⟨_, hA1.located, (Delta.refl w _).frame fr (fun g hg => hg), rfl, .inl rfl, by intro h; cases h⟩
    | false =>
      refine ExecPost.ok hA1 ((Delta.refl w _).frame fr (fun g hg => hg)) rfl (.inl rfl) ?_ ?_
      · unfold stepDir; simp [hpt]
      · intro h; exact absurd h hrt
  | discard => exact absurd hty hnd
  | move => simp [isPathTy, hty] at hpt
  | flag => simp [isPathTy, hty] at hpt
  | flags => simp [isPathTy, hty] at hpt
  | label => simp [isRewriteTy, hty] at hrt
  | addHeader => simp [isRewriteTy, hty] at hrt
  | reject =>
    have hprog : execOne env mh st = Prog.ret ({ st with reject := true }, false) := by
      unfold execOne; simp only [hty]; rfl
    rw [hprog]
    exact ExecPost.same hA rfl rfl (by simpa using hpt) (by simpa using hrt)
  | mtch | body | date | header | stat | command | brk | pass | attBlock =>
    have hprog : execOne env mh st = Prog.ret (st, false) := by
      unfold execOne; simp only [hty]; rfl
    rw [hprog]
    exact ExecPost.same hA rfl rfl (by simpa using hpt) (by simpa using hrt)

end Mdsort.Proofs.World
