import Mdsort.Proofs.WorldOwnBasic

/-! Ownership of names (C17) for the scripts of `matches_exec`, under arbitrary results. -/

namespace Mdsort.Proofs.Own
open Mdsort Mdsort.Model
open Mdsort.Proofs.World (bind_eq pure_eq ret_bind call_bind' call_bind bind_assoc Calls All)

/-! ## owned names -/

theorem createdNames_append (a b : Trace) : createdNames (a ++ b) = createdNames a ++ createdNames b := by
  simp [createdNames, List.filterMap_append]

theorem created_snoc {tr : Trace} {n : Bytes} (L : Trace) (h : n ∈ createdNames tr) : n ∈ createdNames (tr ++ L) := by
  rw [createdNames_append]; exact List.mem_append_left _ h

theorem created_new (tr : Trace) (d : Handle) (n : Bytes) (h : Nat) : n ∈ createdNames (tr ++ [(.openExcl d n, .ok h)]) := by
  rw [createdNames_append]; exact List.mem_append_right _ (by simp [createdNames])

/-- `n` is the name the run was handed or one it created itself in `tr`. -/
def Own (src : Bytes) (tr : Trace) (n : Bytes) : Prop := n ∈ src :: createdNames tr

theorem Own.snoc {src : Bytes} {tr : Trace} {n : Bytes} (L : Trace) (h : Own src tr n) : Own src (tr ++ L) n := by
  unfold Own at h ⊢
  rcases List.mem_cons.1 h with h | h
  · exact List.mem_cons.2 (.inl h)
  · exact List.mem_cons.2 (.inr (created_snoc L h))

theorem Own.of_created {src : Bytes} {tr : Trace} {n : Bytes} (h : n ∈ createdNames tr) : Own src tr n :=
  List.mem_cons.2 (.inr h)

theorem Own.src (src : Bytes) (tr : Trace) : Own src tr src := List.mem_cons.2 (.inl rfl)

/-- The condition of C17 on a call issued when the trace is `tr`. -/
def OwnI (src : Bytes) (tr : Trace) (c : Call) : Prop :=
  (∀ d n, c = .unlinkat d n → Own src tr n) ∧
  (∀ d1 n1 d2 n2, c = .renameat d1 n1 d2 n2 → Own src tr n1 ∧ n2 ∈ createdNames tr)

/-- Calls other than `unlinkat` and `renameat`. -/
def Quiet : Call → Prop
  | .unlinkat .. | .renameat .. => False
  | _ => True

theorem Quiet.ownI {c : Call} (h : Quiet c) (src : Bytes) (tr : Trace) : OwnI src tr c := by
  cases c <;> first | exact h.elim | exact ⟨(by intro _ _ h; cases h), (by intro _ _ _ _ h; cases h)⟩

theorem quiet_ownI (src : Bytes) (tr : Trace) (c : Call) (h : Quiet c) : OwnI src tr c := h.ownI src tr

theorem ownI_unlinkat {src : Bytes} {tr : Trace} {d : Handle} {n : Bytes} (h : Own src tr n) : OwnI src tr (.unlinkat d n) :=
  ⟨(by intro _ _ e; cases e; exact h), (by intro _ _ _ _ e; cases e)⟩

theorem ownI_renameat {src : Bytes} {tr : Trace} {d1 d2 : Handle} {n1 n2 : Bytes} (h1 : Own src tr n1)
    (h2 : n2 ∈ createdNames tr) : OwnI src tr (.renameat d1 n1 d2 n2) :=
  ⟨(by intro _ _ e; cases e), (by intro _ _ _ _ e; cases e; exact ⟨h1, h2⟩)⟩

/-- Transport ownership facts along extensions of the trace. -/
syntax "created" : tactic
macro_rules
  | `(tactic| created) => `(tactic| first | assumption | (apply created_snoc; created))

syntax "own" : tactic
macro_rules
  | `(tactic| own) =>
    `(tactic| first | assumption | exact Own.src _ _ | (apply Own.of_created; created) | (apply Own.snoc; own) | created)

macro "quiet_step" : tactic =>
  `(tactic| first
      | (with_reducible exact Calls.ret_intro _)
      | ((with_reducible show Quiet _); exact True.intro)
      | (with_reducible apply Calls.call_intro)
      | (intro _)
      | (with_reducible apply Calls.bind)
      | split
      | (dsimp only; split))

macro "all_step" : tactic =>
  `(tactic| first
      | (with_reducible apply All.ret_intro)
      | (with_reducible apply All.call_intro)
      | (intro _)
      | (with_reducible apply All.bind)
      | split
      | (dsimp only; split))

variable {R : Call → Res → Prop}

/-- A program of quiet calls satisfies the ownership condition; its leaves satisfy what `All` says. -/
theorem wp_quiet {α} {P : α → Prop} {p : Prog α} (src : Bytes) (hc : Calls Quiet p) (ha : All P p) (tr : Trace) :
    wp R (OwnI src) p (fun a _ => P a) tr :=
  wp_calls (fun tr _ h => h.ownI src tr) hc ha tr

theorem wp_quiet' {α} {p : Prog α} (src : Bytes) (hc : Calls Quiet p) (tr : Trace) :
    wp R (OwnI src) p (fun _ _ => True) tr :=
  wp_quiet src hc (All.trivial p) tr

/-! ## quiet scripts -/

theorem quiet_maildirClose (md : Maildir) : Calls Quiet (maildirClose md) := by
  unfold maildirClose
  simp only [bind_eq, pure_eq, call_bind]
  repeat' quiet_step

theorem quiet_maildirOpendir (md : Maildir) (path : Bytes) : Calls Quiet (maildirOpendir md path) := by
  unfold maildirOpendir
  simp only [bind_eq, pure_eq, call_bind]
  repeat' quiet_step

theorem quiet_maildirOpenDst (path : Bytes) : Calls Quiet (maildirOpenDst path) := by
  unfold maildirOpenDst
  simp only [bind_eq, pure_eq]
  repeat' (first | exact quiet_maildirOpendir _ _ | quiet_step)

theorem quiet_hdrs (newfd : Handle) (hs : List Hdr) : Calls Quiet (messageWriteP.hdrs newfd hs) := by
  induction hs with
  | nil => unfold messageWriteP.hdrs; exact Calls.ret_intro _
  | cons h rest ih =>
    unfold messageWriteP.hdrs
    simp only [bind_eq, pure_eq, call_bind]
    repeat' (first | exact ih | quiet_step)

theorem quiet_messageWriteP (m : Msg) (fd : Handle) : Calls Quiet (messageWriteP m fd) := by
  unfold messageWriteP
  simp only [bind_eq, pure_eq, call_bind]
  repeat' (first | exact quiet_hdrs _ _ | quiet_step)

theorem quiet_messageSetFile (ms : MsgSt) (dir name : Bytes) (fd : Option Handle) : Calls Quiet (messageSetFile ms dir name fd) := by
  unfold messageSetFile
  simp only [bind_eq, pure_eq, call_bind]
  repeat' quiet_step

theorem quiet_writefd (tmpdir : Bytes) : Calls Quiet (writefd tmpdir) := by
  unfold writefd
  simp only [bind_eq, pure_eq, call_bind]
  repeat' quiet_step

theorem quiet_writeAll (fd : Handle) (fuel : Nat) (data : Bytes) : Calls Quiet (writeAll fd fuel data) := by
  induction fuel generalizing data with
  | zero => unfold writeAll; exact Calls.ret_intro _
  | succ fuel ih =>
    unfold writeAll
    simp only [bind_eq, pure_eq, call_bind]
    repeat' (first | exact ih _ | quiet_step)

theorem quiet_messageGetFd (env : PEnv) (ms : MsgSt) (part : Option Msg) (dobody : Bool) :
    Calls Quiet (messageGetFd env ms part dobody) := by
  unfold messageGetFd
  simp only [bind_eq, pure_eq, call_bind]
  repeat' (first | exact quiet_writefd _ | exact quiet_writeAll _ _ _ | exact quiet_messageWriteP _ _ | quiet_step)

theorem quiet_execP (argv : List Bytes) (fdin : Option Handle) : Calls Quiet (execP argv fdin) := by
  unfold execP
  simp only [bind_eq, pure_eq, call_bind]
  repeat' quiet_step

theorem strlcpyFits_some {siz : Nat} {s t : Bytes} (h : strlcpyFits siz s = some t) : t = s := by
  unfold strlcpyFits at h
  split at h
  · cases h
  · cases h; rfl

/-- `message_set_file` keeps the name or sets it to the one it is given. -/
theorem all_messageSetFile (ms : MsgSt) (dir name : Bytes) (fd : Option Handle) :
    All (fun r => r.1.name = ms.name ∨ r.1.name = name) (messageSetFile ms dir name fd) := by
  unfold messageSetFile
  simp only [bind_eq, pure_eq, call_bind]
  split
  · exact .inl rfl
  split
  · exact .inl rfl
  rename_i n hn
  cases strlcpyFits_some hn
  repeat' (first | exact .inr rfl | all_step)

theorem quiet_messageSetFileMoved (ms : MsgSt) (s d : Subdir) (dir name : Bytes) :
    Calls Quiet (messageSetFileMoved ms s d dir name) := by
  unfold messageSetFileMoved
  simp only [bind_eq, pure_eq, call_bind]
  repeat' quiet_step

theorem all_messageSetFileMoved (ms : MsgSt) (s d : Subdir) (dir name : Bytes) :
    All (fun r => r.1.name = ms.name ∨ r.1.name = name) (messageSetFileMoved ms s d dir name) := by
  unfold messageSetFileMoved
  simp only [bind_eq, pure_eq, call_bind]
  split
  · exact .inl rfl
  split
  · exact .inl rfl
  rename_i n hn
  cases strlcpyFits_some hn
  repeat' (first | exact .inr rfl | all_step)

/-! ## scripts that remove or rename -/

theorem spec_genname (src : Bytes) (env : PEnv) (md : Maildir) (flags : Option Bytes) (fuel count : Nat) (tr : Trace) :
    wp R (OwnI src) (genname env md flags fuel count)
      (fun res tr' => ∀ h name, res = some (h, name) → name ∈ createdNames tr') tr := by
  induction fuel generalizing count tr with
  | zero => unfold genname; intro _ _ h; cases h
  | succ fuel ih =>
    unfold genname
    simp only [bind_eq, pure_eq, call_bind]
    generalize (decimalInt env.now ++ [46] ++ decimal env.pid ++ [95] ++ decimal ((count + 1) % gennameWrap) ++ [46] ++ env.host ++
          flags.getD []) = nm
    split
    · intro _ _ h; cases h
    split
    · intro _ _ h; cases h
    rename_i d hd
    refine wp_call (quiet_ownI _ _ _ True.intro) fun r _ => ?_
    cases r with
    | ok h =>
      intro h' name e
      cases e
      exact created_new _ _ _ _
    | err e =>
      dsimp only
      split
      · exact ih _ _
      · intro _ _ h; cases h
    | name n => intro _ _ h; cases h
    | eof => intro _ _ h; cases h

theorem spec_maildirUnlink (src : Bytes) (md : Maildir) (name : Bytes) (tr : Trace) (h : Own src tr name) :
    wp R (OwnI src) (maildirUnlink md name) (fun _ _ => True) tr := by
  unfold maildirUnlink
  simp only [bind_eq, pure_eq, call_bind]
  split
  · exact True.intro
  · exact wp_call (ownI_unlinkat h) fun r _ => True.intro


theorem spec_setFile (src : Bytes) (ms : MsgSt) (dir name : Bytes) (fd : Option Handle) (T : Trace)
    (h1 : Own src T ms.name) (h2 : name ∈ createdNames T) :
    wp R (OwnI src) (messageSetFile ms dir name fd) (fun x tr' => Own src tr' x.1.name) T := by
  refine wp_mono (wp_ext (wp_quiet src (quiet_messageSetFile ms dir name fd) (all_messageSetFile ms dir name fd) T)) ?_
  rintro x tr' ⟨h | h, L, rfl⟩
  · rw [h]; own
  · rw [h]; own

theorem spec_setFileMoved (src : Bytes) (ms : MsgSt) (s d : Subdir) (dir name : Bytes) (T : Trace)
    (h1 : Own src T ms.name) (h2 : name ∈ createdNames T) :
    wp R (OwnI src) (messageSetFileMoved ms s d dir name) (fun x tr' => Own src tr' x.1.name) T := by
  refine wp_mono (wp_ext (wp_quiet src (quiet_messageSetFileMoved ms s d dir name) (all_messageSetFileMoved ms s d dir name) T)) ?_
  rintro x tr' ⟨h | h, L, rfl⟩
  · rw [h]; own
  · rw [h]; own

theorem spec_moveTail (src : Bytes) (sm dst : Maildir) (dh fd : Handle) (dstname : Bytes) (ms' : MsgSt) (b : Bool) (mt : Option Nat)
    (T : Trace) (h1 : Own src T ms'.name) (h2 : dstname ∈ createdNames T) :
    wp R (OwnI src)
      (Prog.call (Call.close fd) fun _ =>
        (if (!b && mt.isSome) = true then Prog.call (Call.utimensat dh dstname none mt) fun r => Prog.ret !isOk r
            else Prog.ret b).bind
          fun err2 => if err2 = true then Prog.ret (ms', true) else messageSetFileMoved ms' sm.subdir dst.subdir dst.path dstname)
      (fun x tr' => Own src tr' x.1.name) T := by
  refine wp_call (quiet_ownI _ _ _ True.intro) fun r _ => ?_
  refine wp_bind_ext (P := fun _ _ => True) ?_ ?_
  · split
    · exact wp_call (quiet_ownI _ _ _ True.intro) fun r _ => True.intro
    · exact True.intro
  intro err2 L _
  split
  · show Own src _ ms'.name
    own
  · exact spec_setFileMoved src ms' _ _ _ _ _ (by own) (by own)

theorem spec_maildirMove (src : Bytes) (env : PEnv) (s dst : Maildir) (ms : MsgSt) (tr : Trace)
    (hown : Own src tr ms.name) :
    wp R (OwnI src) (maildirMove env s dst ms) (fun x tr' => Own src tr' x.1.name) tr := by
  unfold maildirMove gennameStart
  simp only [bind_eq, pure_eq, call_bind]
  split
  · exact hown
  split
  rotate_left
  · exact hown
  rename_i sh dh hsh hdh
  refine wp_bind_ext (P := fun _ _ => True) ?_ ?_
  · split
    · exact wp_call (quiet_ownI _ _ _ True.intro) fun r _ => True.intro
    · exact True.intro
  intro doutime L0 _
  split
  · own
  rename_i fl _
  refine wp_bind_ext (spec_genname src env dst (some fl) gennameAttempts _ _) ?_
  intro g L1 hg
  cases g with
  | none => own
  | some x =>
  obtain ⟨fd, dstname⟩ := x
  have hd := hg fd dstname rfl
  dsimp only
  have hown1 : Own src (tr ++ L0 ++ L1) ms.name := by own
  generalize tr ++ L0 ++ L1 = T at hd hown1 ⊢
  refine wp_call (ownI_renameat hown1 hd) fun r _ => ?_
  refine wp_bind_ext (P := fun a _ => a.2.name = ms.name) ?_ ?_
  · split
    · split
      · refine wp_bind_ext (wp_quiet' src (quiet_messageWriteP _ _) _) ?_
        intro we L2 _
        split
        · exact rfl
        · refine wp_bind_ext (spec_maildirUnlink src s ms.name _ (by own)) ?_
          intro ue L3 _
          show (if ue = true then ms else _).name = ms.name
          split <;> rfl
      · exact rfl
    · exact rfl
  · rintro ⟨err1, ms'⟩ L2 hname
    dsimp only at hname ⊢
    have hown2 : Own src (T ++ [(Call.renameat sh ms.name dh dstname, r)] ++ L2) ms'.name := by rw [hname]; own
    split
    · refine wp_bind_ext (spec_maildirUnlink src dst dstname _ (by own)) ?_
      intro _ L3 _
      exact spec_moveTail src s dst dh fd dstname ms' err1 doutime _ (by own) (by own)
    · exact spec_moveTail src s dst dh fd dstname ms' err1 doutime _ (by own) (by own)

theorem spec_maildirWrite (src : Bytes) (env : PEnv) (md : Maildir) (ms : MsgSt) (tr : Trace)
    (hown : Own src tr ms.name) :
    wp R (OwnI src) (maildirWrite env md ms) (fun x tr' => Own src tr' x.1.name) tr := by
  unfold maildirWrite gennameStart
  simp only [bind_eq, pure_eq, call_bind]
  split
  · exact hown
  rename_i fl _
  refine wp_bind_ext (spec_genname src env md (some fl) gennameAttempts _ _) ?_
  intro g L1 hg
  cases g with
  | none => own
  | some x =>
  obtain ⟨fd, name⟩ := x
  have hd := hg fd name rfl
  dsimp only
  refine wp_bind_ext (wp_quiet' src (quiet_messageWriteP _ _) _) ?_
  intro we L2 _
  refine wp_call (quiet_ownI _ _ _ True.intro) fun r _ => ?_
  refine wp_bind_ext (P := fun _ _ => True) ?_ ?_
  · split
    · exact True.intro
    · exact wp_mono (spec_maildirUnlink src md ms.name _ (by own)) fun _ _ _ => True.intro
  intro err L3 _
  split
  · refine wp_bind_ext (spec_maildirUnlink src md name _ (by own)) ?_
    intro _ L4 _
    show Own src _ ms.name
    own
  split
  · show Own src _ ms.name
    own
  rename_i d hdir
  refine wp_call (quiet_ownI _ _ _ True.intro) fun r2 _ => ?_
  split
  · rename_i rdfd _
    refine wp_bind_ext (spec_setFile src _ md.path name (some rdfd) _ (by show Own src _ ms.name; own) (by own)) ?_
    intro x L5 hx
    split
    · refine wp_call (quiet_ownI _ _ _ True.intro) fun r3 _ => ?_
      show Own src _ x.1.name
      own
    · exact hx
  · show Own src _ ms.name
    own

theorem spec_execOne (src : Bytes) (env : PEnv) (mh : Match) (st : ExecSt) (tr : Trace)
    (hown : Own src tr st.ms.name) :
    wp R (OwnI src) (execOne env mh st) (fun x tr' => Own src tr' x.1.ms.name) tr := by
  unfold execOne
  simp only [bind_eq, pure_eq, call_bind]
  have moveBranch : wp R (OwnI src)
      ((maildirOpenDst mh.path).bind fun d =>
        match d with
        | none => Prog.ret (st, true)
        | some dst =>
          (maildirMove env st.src dst st.ms).bind fun x =>
            if x.snd = true then
              (maildirClose dst).bind fun _ =>
                Prog.ret ({ src := st.src, chsrc := st.chsrc, ms := x.fst, reject := st.reject }, true)
            else
              if (st.src.subdir != dst.subdir || st.src.root != dst.root) = true then
                if st.chsrc = true then
                  (maildirClose st.src).bind fun _ =>
                    Prog.ret ({ src := dst, chsrc := true, ms := x.fst, reject := st.reject }, false)
                else Prog.ret ({ src := dst, chsrc := true, ms := x.fst, reject := st.reject }, false)
              else
                (maildirClose dst).bind fun _ =>
                  Prog.ret ({ src := st.src, chsrc := st.chsrc, ms := x.fst, reject := st.reject }, false))
      (fun x tr' => Own src tr' x.1.ms.name) tr := by
    refine wp_bind_ext (wp_quiet' src (quiet_maildirOpenDst _) _) ?_
    intro d L0 _
    cases d with
    | none => show Own src _ st.ms.name; own
    | some dst =>
      dsimp only
      refine wp_bind_ext (spec_maildirMove src env st.src dst st.ms _ (by own)) ?_
      intro x L1 hx
      have closeThen : ∀ (md : Maildir) (r : ExecSt × Bool), r.1.ms.name = x.1.name →
          wp R (OwnI src) ((maildirClose md).bind fun _ => Prog.ret r)
            (fun x tr' => Own src tr' x.1.ms.name) (tr ++ L0 ++ L1) := by
        intro md r hr
        refine wp_bind_ext (wp_quiet' src (quiet_maildirClose _) _) ?_
        intro _ L2 _
        show Own src _ r.1.ms.name
        rw [hr]; own
      split
      · exact closeThen _ _ rfl
      · split
        · split
          · exact closeThen _ _ rfl
          · exact hx
        · exact closeThen _ _ rfl
  split
  · exact moveBranch
  · exact moveBranch
  · exact moveBranch
  · refine wp_bind_ext (spec_maildirUnlink src st.src st.ms.name _ hown) ?_
    intro e L _
    show Own src _ (if e = true then st else _).ms.name
    split
    · own
    · show Own src _ st.ms.name
      own
  · refine wp_bind_ext (spec_maildirWrite src env st.src st.ms _ hown) ?_
    intro x L hx
    exact hx
  · refine wp_bind_ext (spec_maildirWrite src env st.src st.ms _ hown) ?_
    intro x L hx
    exact hx
  · exact hown
  · refine wp_bind_ext (P := fun _ _ => True) ?_ ?_
    · split
      · refine wp_bind_ext (wp_quiet' src (quiet_messageGetFd _ _ _ _) _) ?_
        intro _ _ _
        exact True.intro
      · exact True.intro
    · intro fdr L0 _
      cases fdr with
      | none => show Own src _ st.ms.name; own
      | some fd =>
        dsimp only
        refine wp_bind_ext (wp_quiet' src (quiet_execP _ fd) _) ?_
        intro rc L1 _
        cases fd with
        | none => show Own src _ st.ms.name; own
        | some h =>
          dsimp only
          refine wp_call (quiet_ownI _ _ _ True.intro) fun r _ => ?_
          show Own src _ st.ms.name
          own
  · exact hown

/-! ## the action list -/

/-- What `matchesExec` does after an entry reported an error. -/
def errTail (st : ExecSt) : Prog (ExecSt × Bool) :=
  if st.chsrc = true then (maildirClose st.src).bind fun _ => Prog.ret (st, true) else Prog.ret (st, true)

theorem matchesExec_cons (env : PEnv) (mh : Match) (rest : MatchList) (st : ExecSt) :
    matchesExec env (mh :: rest) st =
      (execOne env mh st).bind fun x => if x.2 = true then errTail x.1 else matchesExec env rest x.1 := by
  rw [matchesExec]
  rfl

theorem matchesExec_nil (env : PEnv) (st : ExecSt) :
    matchesExec env [] st =
      if st.chsrc = true then (maildirClose st.src).bind fun _ => Prog.ret (st, false) else Prog.ret (st, false) := by
  rw [matchesExec]
  rfl

theorem spec_matchesExec (src : Bytes) (env : PEnv) (ml : MatchList) (st : ExecSt) (tr : Trace)
    (hown : Own src tr st.ms.name) :
    wp R (OwnI src) (matchesExec env ml st) (fun x tr' => Own src tr' x.1.ms.name) tr := by
  induction ml generalizing st tr with
  | nil =>
    rw [matchesExec_nil]
    split
    · refine wp_bind_ext (wp_quiet' src (quiet_maildirClose _) _) ?_
      intro _ L _
      show Own src _ st.ms.name
      own
    · exact hown
  | cons mh rest ih =>
    rw [matchesExec_cons]
    refine wp_bind_ext (spec_execOne src env mh st tr hown) ?_
    intro x L hx
    split
    · unfold errTail
      split
      · refine wp_bind_ext (wp_quiet' src (quiet_maildirClose _) _) ?_
        intro _ L2 _
        show Own src _ x.1.ms.name
        own
      · exact hx
    · exact ih x.1 _ hx

/-! ## a lost race: every `renameat` fails with ENOENT -/

def Lost (c : Call) (r : Res) : Prop := ∀ d1 n1 d2 n2, c = .renameat d1 n1 d2 n2 → r = .err "ENOENT"

def NoI : Trace → Call → Prop := fun _ _ => True

theorem wp_top {α} {R : Call → Res → Prop} (p : Prog α) (tr : Trace) : wp R NoI p (fun _ _ => True) tr := by
  induction p generalizing tr with
  | ret a => exact True.intro
  | call c k ih => exact ⟨True.intro, fun r _ => ih r _⟩

theorem lost_maildirMove (env : PEnv) (s dst : Maildir) (ms : MsgSt) (tr : Trace) :
    wp Lost NoI (maildirMove env s dst ms) (fun x _ => x.2 = true) tr := by
  unfold maildirMove
  simp only [bind_eq, pure_eq, call_bind]
  split
  · exact rfl
  split
  rotate_left
  · exact rfl
  rename_i sh dh hsh hdh
  refine wp_bind_ext (wp_top _ _) ?_
  intro doutime L0 _
  split
  · exact rfl
  rename_i fl _
  refine wp_bind_ext (wp_top _ _) ?_
  intro g L1 _
  cases g with
  | none => exact rfl
  | some x =>
  obtain ⟨fd, dstname⟩ := x
  dsimp only
  refine wp_call True.intro fun r hr => ?_
  have hr' : r = .err "ENOENT" := hr _ _ _ _ rfl
  subst hr'
  have hne : ("ENOENT" == "EXDEV") = false := by decide
  simp only [hne, Bool.false_eq_true, if_false, ret_bind, if_true, Bool.not_true, Bool.false_and]
  refine wp_bind_ext (wp_top _ _) ?_
  intro _ L2 _
  refine wp_call True.intro fun r2 _ => ?_
  exact rfl

/-- The `move`/`flag`/`flags` branch of `execOne`. -/
def moveBranch (env : PEnv) (mh : Match) (st : ExecSt) : Prog (ExecSt × Bool) :=
  (maildirOpenDst mh.path).bind fun d =>
    match d with
    | none => Prog.ret (st, true)
    | some dst =>
      (maildirMove env st.src dst st.ms).bind fun x =>
        if x.snd = true then
          (maildirClose dst).bind fun _ =>
            Prog.ret ({ src := st.src, chsrc := st.chsrc, ms := x.fst, reject := st.reject }, true)
        else
          if (st.src.subdir != dst.subdir || st.src.root != dst.root) = true then
            if st.chsrc = true then
              (maildirClose st.src).bind fun _ =>
                Prog.ret ({ src := dst, chsrc := true, ms := x.fst, reject := st.reject }, false)
            else Prog.ret ({ src := dst, chsrc := true, ms := x.fst, reject := st.reject }, false)
          else
            (maildirClose dst).bind fun _ =>
              Prog.ret ({ src := st.src, chsrc := st.chsrc, ms := x.fst, reject := st.reject }, false)

theorem execOne_move (env : PEnv) (mh : Match) (st : ExecSt) (hty : mh.ty = .move ∨ mh.ty = .flag ∨ mh.ty = .flags) :
    execOne env mh st = moveBranch env mh st := by
  unfold execOne moveBranch
  rcases hty with hty | hty | hty <;> simp only [hty] <;> rfl

theorem lost_moveBranch (env : PEnv) (mh : Match) (st : ExecSt) (tr : Trace) :
    wp Lost NoI (moveBranch env mh st) (fun x _ => x.2 = true) tr := by
  unfold moveBranch
  refine wp_bind_ext (wp_top _ _) ?_
  intro d L0 _
  cases d with
  | none => exact rfl
  | some dst =>
    dsimp only
    refine wp_bind_ext (lost_maildirMove env st.src dst st.ms _) ?_
    intro x L1 hx
    simp only [hx, if_true]
    refine wp_bind_ext (wp_top _ _) ?_
    intro _ L2 _
    exact rfl

end Mdsort.Proofs.Own
