import Mdsort.Proofs.EvalPReplay

/-!
# The pure evaluation with positional answers is `Model.eval` when the answers agree with pure oracles

`evalT_eq_eval`: for every rule tree, if every question the evaluation asked was answered as the oracles of `env`
say (`Answered`), its value is `Model.eval env`.  `evalR_eq_eval_of_consistent`: such oracles exist as soon as
equal questions were given answers that read the same.
-/

namespace Mdsort.Proofs
open Mdsort Mdsort.Model

theorem run_ret_val {α} {a v : α} {as : List SysAns} {rq : List Req} (h : (Ask.ret a).run as = (v, rq)) : v = a := by
  simp only [Ask.run_ret, Prod.mk.injEq] at h; exact h.1.symm

/-- What the induction needs of a sub-evaluation. -/
def EvOK (env : Env) (root : Msg) (e : Expr) : Prop :=
  ∀ (part : Nat) (m : Msg) (st : St) (as : List SysAns),
    Answered env ((evalT (noSys env) root e part m st).run as).2 as →
      ((evalT (noSys env) root e part m st).run as).1 = eval env root e part m st

theorem evOK_apply {env : Env} {root : Msg} {e : Expr} (h : EvOK env root e)
    {part : Nat} {m : Msg} {st : St} {as : List SysAns} {v : Tri × St} {rq : List Req}
    (hr : (evalT (noSys env) root e part m st).run as = (v, rq)) (ha : Answered env rq as) :
    v = eval env root e part m st := by
  have := h part m st as (by rw [hr]; exact ha)
  rw [hr] at this
  exact this

theorem loop_ok {env : Env} {root : Msg} {e : Expr} (ih : EvOK env root e) (part : Nat)
    (ps : List Msg) : ∀ (i : Nat) (st : St) (as : List SysAns),
      Answered env ((evalT.loop (noSys env) root e part ps i st).run as).2 as →
        ((evalT.loop (noSys env) root e part ps i st).run as).1 = eval.loop env root e part ps i st := by
  induction ps with
  | nil => intro i st as _; simp only [evalT.loop, eval.loop, Ask.run_ret]
  | cons p rest ihp =>
    intro i st as ha
    simp only [evalT.loop, eval.loop] at ha ⊢
    obtain ⟨v1, rq1, v2, rq2, h1, h2, h3⟩ := Ask.run_bind (evalT (noSys env) root e (if part == 0 then i + 1 else part) p st) _ as
    rw [h3] at ha ⊢
    have hv := evOK_apply ih h1 ha.left
    subst hv
    generalize eval env root e (if part == 0 then i + 1 else part) p st = r at h2 ⊢
    obtain ⟨ev, s1⟩ := r
    cases ev <;> dsimp only at h2 ⊢
    · exact run_ret_val h2
    · have := ihp (i + 1) s1 (as.drop rq1.length) (by rw [h2]; exact ha.right)
      rw [h2] at this
      exact this
    · exact run_ret_val h2

theorem loopB_ok {env : Env} {root : Msg} {e : Expr} (ih : EvOK env root e) (part : Nat)
    (ps : List Msg) : ∀ (i : Nat) (ev0 : Tri) (st : St) (as : List SysAns),
      Answered env ((evalT.loopB (noSys env) root e part ps i ev0 st).run as).2 as →
        ((evalT.loopB (noSys env) root e part ps i ev0 st).run as).1 = eval.loopB env root e part ps i ev0 st := by
  induction ps with
  | nil => intro i ev0 st as _; simp only [evalT.loopB, eval.loopB, Ask.run_ret]
  | cons p rest ihp =>
    intro i ev0 st as ha
    simp only [evalT.loopB, eval.loopB] at ha ⊢
    obtain ⟨v1, rq1, v2, rq2, h1, h2, h3⟩ := Ask.run_bind (evalT (noSys env) root e (if part == 0 then i + 1 else part) p st) _ as
    rw [h3] at ha ⊢
    have hv := evOK_apply ih h1 ha.left
    subst hv
    generalize eval env root e (if part == 0 then i + 1 else part) p st = r at h2 ⊢
    obtain ⟨ev, s1⟩ := r
    cases ev <;> dsimp only at h2 ⊢
    · have := ihp (i + 1) .match s1 (as.drop rq1.length) (by rw [h2]; exact ha.right)
      rw [h2] at this
      exact this
    · have := ihp (i + 1) ev0 s1 (as.drop rq1.length) (by rw [h2]; exact ha.right)
      rw [h2] at this
      exact this
    · exact run_ret_val h2

/-- **The pure evaluation is `Model.eval`.**  `evalT` is handed the environment without its oracles; if every question
it asks (running on the answers `as`) is answered as the oracles of `env` say, its value is `eval env`. -/
theorem evalT_eq_eval (env : Env) (root : Msg) (e : Expr) : EvOK env root e := by
  have hs := envSame_noSys env
  induction e with
  | block lno e ih =>
    intro part m st as ha
    simp only [evalT, eval] at ha ⊢
    obtain ⟨v1, rq1, v2, rq2, h1, h2, h3⟩ := Ask.run_bind (evalT (noSys env) root e part m st) _ as
    rw [h3] at ha ⊢
    have hv := evOK_apply ih h1 ha.left
    subst hv
    generalize eval env root e part m st = r at h2 ⊢
    obtain ⟨ev, s1⟩ := r
    cases ev <;> dsimp only at h2 ⊢
    · split at h2
      · rw [if_pos ‹_›]; exact run_ret_val h2
      · rw [if_neg ‹_›]
        split at h2
        · rw [if_pos ‹_›]; exact run_ret_val h2
        · rw [if_neg ‹_›]; exact run_ret_val h2
    · split at h2
      · rw [if_pos ‹_›]; exact run_ret_val h2
      · rw [if_neg ‹_›]
        split at h2
        · rw [if_pos ‹_›]; exact run_ret_val h2
        · rw [if_neg ‹_›]; exact run_ret_val h2
    · exact run_ret_val h2
  | and lno l r ihl ihr =>
    intro part m st as ha
    simp only [evalT, eval] at ha ⊢
    obtain ⟨v1, rq1, v2, rq2, h1, h2, h3⟩ := Ask.run_bind (evalT (noSys env) root l part m st) _ as
    rw [h3] at ha ⊢
    have hv := evOK_apply ihl h1 ha.left
    subst hv
    generalize eval env root l part m st = r0 at h2 ⊢
    obtain ⟨ev, s1⟩ := r0
    cases ev <;> dsimp only at h2 ⊢
    · exact evOK_apply ihr h2 ha.right
    · exact run_ret_val h2
    · exact run_ret_val h2
  | or lno l r ihl ihr =>
    intro part m st as ha
    simp only [evalT, eval] at ha ⊢
    obtain ⟨v1, rq1, v2, rq2, h1, h2, h3⟩ := Ask.run_bind (evalT (noSys env) root l part m st) _ as
    rw [h3] at ha ⊢
    have hv := evOK_apply ihl h1 ha.left
    subst hv
    generalize eval env root l part m st = r0 at h2 ⊢
    obtain ⟨ev, s1⟩ := r0
    cases ev <;> dsimp only at h2 ⊢
    · exact run_ret_val h2
    · exact evOK_apply ihr h2 ha.right
    · exact run_ret_val h2
  | neg lno e ih =>
    intro part m st as ha
    simp only [evalT, eval] at ha ⊢
    obtain ⟨v1, rq1, v2, rq2, h1, h2, h3⟩ := Ask.run_bind (evalT (noSys env) root e part m st) _ as
    rw [h3] at ha ⊢
    have hv := evOK_apply ih h1 ha.left
    subst hv
    generalize eval env root e part m st = r0 at h2 ⊢
    obtain ⟨ev, s1⟩ := r0
    cases ev <;> dsimp only at h2 ⊢ <;> exact run_ret_val h2
  | mtch lno c rhs ihc ihr =>
    intro part m st as ha
    simp only [evalT, eval, matchesAppend_same hs] at ha ⊢
    generalize matchesAppend env st.ml _ = r1 at ha ⊢
    obtain ⟨ml1, f1⟩ := r1
    dsimp only at ha ⊢
    cases f1
    · simp only [Bool.false_eq_true, ↓reduceIte] at ha ⊢
      obtain ⟨v1, rq1, v2, rq2, h1, h2, h3⟩ := Ask.run_bind (evalT (noSys env) root c part m { st with ml := ml1 }) _ as
      rw [h3] at ha ⊢
      have hv := evOK_apply ihc h1 ha.left
      subst hv
      generalize eval env root c part m { st with ml := ml1 } = r0 at h2 ⊢
      obtain ⟨ev, s1⟩ := r0
      cases ev <;> dsimp only at h2 ⊢
      · exact evOK_apply ihr h2 ha.right
      · exact run_ret_val h2
      · exact run_ret_val h2
    · simp only [↓reduceIte, Ask.run_ret]
  | attachment lno e ih =>
    intro part m st as ha
    simp only [evalT, eval] at ha ⊢
    generalize getAttachments m = o at ha ⊢
    cases o with
    | none => simp only [Ask.run_ret]
    | some parts => exact loop_ok ih part parts 0 st as ha
  | attBlock lno e ih =>
    intro part m st as ha
    simp only [evalT, eval] at ha ⊢
    generalize getAttachments m = o at ha ⊢
    cases o with
    | none => simp only [Ask.run_ret]
    | some parts => exact loopB_ok ih part parts 0 .nomatch st as ha
  | date lno field cmp age =>
    intro part m st as ha
    cases field
    · simp only [evalT, Ask.run_ret]
      exact eval_same_leaf hs root _ rfl part m st
    all_goals
      simp only [evalT, eval, ask, Ask.ask_bind, Ask.ret_bind, Ask.run] at ha ⊢
      have hok := (Answered.left (r1 := [_]) ha).head
      simp only [AnsOK, show (noSys env).path = env.path from rfl] at hok
      rw [← hok]
      simp only [ansFileTime, show (noSys env).timeFormat = env.timeFormat from rfl, show (noSys env).now = env.now from rfl]
      generalize ansTimes (as.headD _) = ot
      cases ot with
      | none => rfl
      | some sb =>
        dsimp only [FileTimes.time]
        generalize env.timeFormat _ = os
        cases os with
        | none => rfl
        | some s =>
          dsimp only [Option.map]
          split
          · rename_i hd
            simp only [hd, ↓reduceIte, Ask.run_ret]
          · rename_i hd
            simp only [hd, Bool.false_eq_true, ↓reduceIte, Ask.run_ret, exprRegexec_same hs]
  | stat lno path =>
    intro part m st as ha
    simp only [evalT, eval, ask, Ask.ask_bind, Ask.ret_bind, matchesAppend_same hs] at ha ⊢
    generalize matchesAppend env st.ml _ = r1 at ha ⊢
    obtain ⟨ml1, f1⟩ := r1
    dsimp only at ha ⊢
    cases f1
    · simp only [Bool.false_eq_true, ↓reduceIte] at ha ⊢
      cases h1 : strlcpyFits PATH_MAX path with
      | none => simp only [Ask.run_ret]
      | some p =>
        simp only [h1] at ha ⊢
        cases h2 : interpolate ml1.dropLast none p with
        | none => simp only [Ask.run_ret]
        | some ip =>
          simp only [h2] at ha ⊢
          cases h3 : strlcpyFits PATH_MAX ip with
          | none => simp only [Ask.run_ret]
          | some ip2 =>
            simp only [h3, Ask.run] at ha ⊢
            have hok := (Answered.left (r1 := [_]) ha).head
            simp only [AnsOK] at hok
            rw [← hok]
    · simp only [↓reduceIte, Ask.run_ret]
  | command lno argv =>
    intro part m st as ha
    simp only [evalT, eval, ask, Ask.ask_bind, Ask.ret_bind, matchesAppend_same hs] at ha ⊢
    generalize matchesAppend env st.ml _ = r1 at ha ⊢
    obtain ⟨ml1, f1⟩ := r1
    dsimp only at ha ⊢
    cases f1
    · simp only [Bool.false_eq_true, ↓reduceIte] at ha ⊢
      cases h1 : argv.mapM (interpolate ml1.dropLast none) with
      | none => simp only [Ask.run_ret]
      | some av =>
        simp only [h1, Ask.run] at ha ⊢
        have hok := (Answered.left (r1 := [_]) ha).head
        simp only [AnsOK] at hok
        rw [← hok]
    · simp only [↓reduceIte, Ask.run_ret]
  | all lno => intro part m st as _; simp only [evalT, Ask.run_ret]; exact eval_same_leaf hs root _ rfl part m st
  | body lno p => intro part m st as _; simp only [evalT, Ask.run_ret]; exact eval_same_leaf hs root _ rfl part m st
  | header lno names p => intro part m st as _; simp only [evalT, Ask.run_ret]; exact eval_same_leaf hs root _ rfl part m st
  | new lno => intro part m st as _; simp only [evalT, Ask.run_ret]; exact eval_same_leaf hs root _ rfl part m st
  | old lno => intro part m st as _; simp only [evalT, Ask.run_ret]; exact eval_same_leaf hs root _ rfl part m st
  | move lno path => intro part m st as _; simp only [evalT, Ask.run_ret]; exact eval_same_leaf hs root _ rfl part m st
  | flag lno subdir => intro part m st as _; simp only [evalT, Ask.run_ret]; exact eval_same_leaf hs root _ rfl part m st
  | flags lno fl => intro part m st as _; simp only [evalT, Ask.run_ret]; exact eval_same_leaf hs root _ rfl part m st
  | discard lno => intro part m st as _; simp only [evalT, Ask.run_ret]; exact eval_same_leaf hs root _ rfl part m st
  | brk lno => intro part m st as _; simp only [evalT, Ask.run_ret]; exact eval_same_leaf hs root _ rfl part m st
  | label lno ls => intro part m st as _; simp only [evalT, Ask.run_ret]; exact eval_same_leaf hs root _ rfl part m st
  | pass lno => intro part m st as _; simp only [evalT, Ask.run_ret]; exact eval_same_leaf hs root _ rfl part m st
  | reject lno => intro part m st as _; simp only [evalT, Ask.run_ret]; exact eval_same_leaf hs root _ rfl part m st
  | exec lno si bo argv => intro part m st as _; simp only [evalT, Ask.run_ret]; exact eval_same_leaf hs root _ rfl part m st
  | addHeader lno k v => intro part m st as _; simp only [evalT, Ask.run_ret]; exact eval_same_leaf hs root _ rfl part m st

/-! ## consistent answers come from pure oracles -/

/-- What the evaluator reads from the answer to a question. -/
inductive Reading where
  | rc (v : Int)
  | dir (b : Bool)
  | ft (o : Option FileTimes)
deriving DecidableEq

def reading : Req → SysAns → Reading
  | .command _, a => .rc (ansStatus a)
  | .isDir _, a => .dir (ansIsDir a)
  | .fileTime _ _, a => .ft (ansTimes a)

/-- The same question to a pure oracle (`Env.fileTime` is keyed by the path: `stat` of the same path for two different
time fields is the same question). -/
def sameKey : Req → Req → Bool
  | .command a, .command b => a == b
  | .isDir p, .isDir q => p == q
  | .fileTime p _, .fileTime q _ => p == q
  | _, _ => false

/-- Equal questions were given answers that read the same. -/
def Consistent (rq : List Req) (as : List SysAns) : Prop :=
  ∀ (j k : Nat) (q q' : Req) (a a' : SysAns), rq[j]? = some q → rq[k]? = some q' → as[j]? = some a → as[k]? = some a' →
    sameKey q q' = true → reading q a = reading q' a'

/-- The first answer to a question with the key of `q`. -/
def firstAnswer (rq : List Req) (as : List SysAns) (q : Req) : Option (Req × SysAns) :=
  (rq.zip as).find? fun x => sameKey x.1 q

/-- The pure oracles a list of questions and answers defines (first answer wins). -/
def envOf (env : Env) (rq : List Req) (as : List SysAns) : Env :=
  { env with
    command := fun av => match firstAnswer rq as (.command av) with
      | some x => ansStatus x.2
      | none => -1
    isDir := fun p => match firstAnswer rq as (.isDir p) with
      | some x => ansIsDir x.2
      | none => false
    fileTime := fun p => match firstAnswer rq as (.fileTime p .modified) with
      | some x => ansTimes x.2
      | none => none }

theorem noSys_envOf (env : Env) (rq : List Req) (as : List SysAns) :
    noSys (envOf env rq as) = noSys env := rfl

theorem sameKey_refl (q : Req) : sameKey q q = true := by
  cases q <;> simp [sameKey]

theorem firstAnswer_spec {rq : List Req} {as : List SysAns} {q : Req} {k : Nat} {a : SysAns}
    (hq : rq[k]? = some q) (ha : as[k]? = some a) :
    ∃ (j : Nat) (q1 : Req) (a1 : SysAns), firstAnswer rq as q = some (q1, a1) ∧ rq[j]? = some q1 ∧ as[j]? = some a1 ∧ sameKey q1 q = true := by
  unfold firstAnswer
  cases hf : (rq.zip as).find? fun x => sameKey x.1 q with
  | none =>
    rw [List.find?_eq_none] at hf
    have hmem : (q, a) ∈ rq.zip as := by
      refine List.mem_iff_getElem?.2 ⟨k, ?_⟩
      rw [List.getElem?_zip_eq_some]
      exact ⟨hq, ha⟩
    exact absurd (sameKey_refl q) (hf (q, a) hmem)
  | some x =>
    obtain ⟨q1, a1⟩ := x
    have hp := List.find?_some hf
    obtain ⟨j, hj⟩ := List.mem_iff_getElem?.1 (List.mem_of_find?_eq_some hf)
    rw [List.getElem?_zip_eq_some] at hj
    exact ⟨j, q1, a1, rfl, hj.1, hj.2, hp⟩

/-- Consistent answers, one per question, are answers of the pure oracles `envOf`. -/
theorem answered_of_consistent (env : Env) (rq : List Req) (as : List SysAns)
    (hlen : rq.length = as.length) (hc : Consistent rq as) : Answered (envOf env rq as) rq as := by
  intro k q hq
  have hk : k < as.length := by
    rcases Nat.lt_or_ge k rq.length with h | h
    · omega
    · rw [List.getElem?_eq_none h] at hq; cases hq
  refine ⟨as[k], List.getElem?_eq_getElem hk, ?_⟩
  have ha : as[k]? = some as[k] := List.getElem?_eq_getElem hk
  cases q with
  | command av =>
    obtain ⟨j, q1, a1, hf, hj1, hj2, hs⟩ := firstAnswer_spec hq ha
    have := hc j k q1 _ a1 _ hj1 hq hj2 ha hs
    cases q1 <;> simp only [sameKey, Bool.false_eq_true] at hs
    simp only [reading, Reading.rc.injEq] at this
    simp only [AnsOK, envOf, hf, this]
  | isDir p =>
    obtain ⟨j, q1, a1, hf, hj1, hj2, hs⟩ := firstAnswer_spec hq ha
    have := hc j k q1 _ a1 _ hj1 hq hj2 ha hs
    cases q1 <;> simp only [sameKey, Bool.false_eq_true] at hs
    simp only [reading, Reading.dir.injEq] at this
    simp only [AnsOK, envOf, hf, this]
  | fileTime p f =>
    obtain ⟨j, q1, a1, hf, hj1, hj2, hs⟩ := firstAnswer_spec hq ha
    have := hc j k q1 _ a1 _ hj1 hq hj2 ha hs
    cases q1 <;> simp only [sameKey, Bool.false_eq_true] at hs
    rename_i p1 f1
    have hkey : (fun x : Req × SysAns => sameKey x.1 (.fileTime p f)) = (fun x => sameKey x.1 (.fileTime p .modified)) := by
      funext x; cases x.1 <;> rfl
    have hf' : firstAnswer rq as (.fileTime p .modified) = some (.fileTime p1 f1, a1) := by
      rw [← hf]; unfold firstAnswer; rw [hkey]
    simp only [reading, Reading.ft.injEq] at this
    simp only [AnsOK, envOf, hf', this]

/-- **`evalR` is `Model.eval`** with the pure oracles `envOf` whenever every question was answered and equal questions
were given answers that read the same - in particular when no question was asked twice. -/
theorem evalR_eq_eval_of_consistent (env : Env) (e : Expr) (m : Msg) (fl : MFlags) (as : List SysAns)
    (hlen : (evalR (noSys env) e m fl as).2.length = as.length)
    (hc : Consistent (evalR (noSys env) e m fl as).2 as) :
    (evalR (noSys env) e m fl as).1 =
      eval (envOf env (evalR (noSys env) e m fl as).2 as) m e 0 m { ml := [], flags := fl } :=
  evalT_eq_eval (envOf env (evalR (noSys env) e m fl as).2 as) m e 0 m { ml := [], flags := fl } as
    (answered_of_consistent env _ as hlen hc)

/-- **Evaluation inside the world model is `Model.eval`**: against arbitrary call results, when the answers the world
gave to equal questions read the same, the value of `evalP` is `eval` with the pure oracles these answers define. -/
theorem evalP_eq_eval (env : Env) (e : Expr) (m : Msg) (fl : MFlags)
    (orcl : Nat → Call → Res) (i : Nat)
    (hc : Consistent (evalR (noSys env) e m fl ((evalTop (noSys env) e m fl).answers orcl i)).2
      ((evalTop (noSys env) e m fl).answers orcl i)) :
    (Own.runO orcl (evalP (noSys env) e m fl) i).1 =
      eval (envOf env (evalR (noSys env) e m fl ((evalTop (noSys env) e m fl).answers orcl i)).2
        ((evalTop (noSys env) e m fl).answers orcl i)) m e 0 m { ml := [], flags := fl } := by
  obtain ⟨h1, h2, _⟩ := evalP_replay (noSys env) e m fl orcl i
  rw [h1]
  exact evalR_eq_eval_of_consistent env e m fl _ h2 hc

end Mdsort.Proofs
