import Mdsort.Proofs.LimitsSimScripts

/-!
# The whole run under two sets of limits

The main loop is a sequence of *units of work*: opening a configured maildir, spooling standard input, one message,
the step from `new` to `cur`, and glue that fills no buffer (`readdir`, closing a maildir, removing the spool, opening and
closing the configuration file).  `PSim` says that the run under `L` and the run under `L'` are built from the same
units in the same way; every unit under `L` runs in lock step with the unit under `L'` from whatever state it starts in,
until it overflows, releases and returns its error value (`IsUnit.sim`), after which the loop goes on to the NEXT unit
and the run ends with the error flag set.
-/

namespace Mdsort.Proofs.Limits
open Mdsort Mdsort.Model Mdsort.Proofs.World

/-- The units of work of the main loop, as families of programs over the limits, each with its error values. -/
inductive IsUnit (env : PEnv) (orc : EvalOracles) : {β : Type} → (Limits → Prog β) → (β → Prop) → Prop
  | message (expr : Expr) (md : Maildir) (name : Bytes) (st : MainSt) :
      IsUnit env orc (fun L => processMessageL L env orc expr md name st) (fun r => r.1.error = true)
  | next (md : Maildir) : IsUnit env orc (fun L => nextSubdirL L md) (fun r => r.2 = true)
  | openMaildir (p : Bytes) : IsUnit env orc (fun L => openMaildirL L p) (fun r => r = none)
  | spool (input : Bytes) : IsUnit env orc (fun L => maildirStdinL L env input) (fun r => r.2.1 = true)
  | fixed {β : Type} (p : Prog β) : IsUnit env orc (fun _ => p) (fun _ => False)

/-- Every unit under `L` is in lock step with the same unit under `L'` until it overflows; then it only releases
descriptors and returns an error value. -/
theorem IsUnit.sim {env : PEnv} {orc : EvalOracles} {L L' : Limits} (hle : L ≤ L') (hs : Sane L) {β : Type}
    {F : Limits → Prog β} {E : β → Prop} (h : IsUnit env orc F E) : Sim (RelErr E) (F L) (F L') := by
  cases h with
  | message expr md name st => exact processMessageL_sim hle hs env orc expr md name st
  | next md => exact nextSubdirL_sim hle md
  | openMaildir p => exact openMaildirL_sim hle p
  | spool input => exact maildirStdinL_sim hle env input
  | fixed p => exact Sim.refl p

/-- The two runs are built from the same units in the same way; after a unit that returned an error value the rest of
the run ends in `Err`. -/
inductive PSim (env : PEnv) (orc : EvalOracles) (L L' : Limits) : {α : Type} → (α → Prop) → Prog α → Prog α → Prop
  | ret {α : Type} {Err : α → Prop} (a : α) : PSim env orc L L' Err (.ret a) (.ret a)
  | unit {α β : Type} {Err : α → Prop} (F : Limits → Prog β) (E : β → Prop) (k k' : β → Prog α) :
      IsUnit env orc F E → (∀ b, PSim env orc L L' Err (k b) (k' b)) → (∀ b, E b → All Err (k b)) →
      PSim env orc L L' Err ((F L).bind k) ((F L').bind k')

variable {env : PEnv} {orc : EvalOracles} {L L' : Limits}

theorem PSim.refl {α : Type} {Err : α → Prop} (p : Prog α) : PSim env orc L L' Err p p := by
  have : p = ((fun _ : Limits => p) L).bind Prog.ret := by
    simp only
    induction p with
    | ret a => rfl
    | call c k ih => simp only [Prog.bind]; congr 1; funext r; exact ih r
  have h := PSim.unit (env := env) (orc := orc) (L := L) (L' := L') (Err := Err) (fun _ => p) (fun _ => False) Prog.ret Prog.ret
    (IsUnit.fixed p) (fun b => PSim.ret b) (fun _ hb => hb.elim)
  simp only at h this
  rw [← this] at h
  exact h

theorem PSim.bind {α γ : Type} {Err : α → Prop} {Err' : γ → Prop} {p q : Prog α} {f g : α → Prog γ}
    (h : PSim env orc L L' Err p q) (hf : ∀ a, PSim env orc L L' Err' (f a) (g a)) (he : ∀ a, Err a → All Err' (f a)) :
    PSim env orc L L' Err' (p.bind f) (q.bind g) := by
  induction h with
  | ret a => exact hf a
  | unit F E k k' hu _ hk ih =>
    rw [bind_assoc, bind_assoc]
    exact PSim.unit F E _ _ hu (fun b => ih b he) fun b hb => All.bind ((hk b hb).mono he)

/-- A unit followed by continuations. -/
theorem PSim.ofUnit {α β : Type} {Err : α → Prop} {F : Limits → Prog β} {E : β → Prop} (hu : IsUnit env orc F E)
    {k k' : β → Prog α} (hk : ∀ b, PSim env orc L L' Err (k b) (k' b)) (he : ∀ b, E b → All Err (k b)) :
    PSim env orc L L' Err ((F L).bind k) ((F L').bind k') := PSim.unit F E k k' hu hk he

/-- A call that does not depend on the limits, then continuations. -/
theorem PSim.call {α : Type} {Err : α → Prop} (c : Call) {k k' : Res → Prog α} (hk : ∀ r, PSim env orc L L' Err (k r) (k' r)) :
    PSim env orc L L' Err (.call c k) (.call c k') :=
  PSim.unit (fun _ => Model.call c) (fun _ => False) k k' (IsUnit.fixed _) hk fun _ hb => hb.elim

/-- The same limit-independent program, then continuations. -/
theorem PSim.bind_same {α β : Type} {Err : α → Prop} (p : Prog β) {k k' : β → Prog α} (hk : ∀ b, PSim env orc L L' Err (k b) (k' b)) :
    PSim env orc L L' Err (p.bind k) (p.bind k') :=
  PSim.unit (fun _ => p) (fun _ => False) k k' (IsUnit.fixed _) hk fun _ hb => hb.elim

/-- What the run under the smaller limits looks like from its first overflow on: the unit that overflowed only gives
back descriptors (`rel`), then the loop goes on with the next unit (`k`; by `PSim` that is again a run built from units),
and whatever happens from there the run ends in `Err`. -/
def Stopped {α : Type} (Err : α → Prop) (p : Prog α) : Prop :=
  ∃ (β : Type) (rel : Prog β) (k : β → Prog α), p = rel.bind k ∧ Calls Rel rel ∧ All (fun b => All Err (k b)) rel

/-- Runs built from the same units are in lock step up to the first overflow. -/
theorem PSim.sim (hle : L ≤ L') (hs : Sane L) {α : Type} {Err : α → Prop} {p q : Prog α} (h : PSim env orc L L' Err p q) :
    Sim (Stopped Err) p q := by
  induction h with
  | ret a => exact Sim.ret a
  | unit F E k k' hu hk he ih =>
    refine (hu.sim hle hs).bind ih ?_
    intro p' hp'
    exact ⟨_, p', k, rfl, hp'.1, hp'.2.mono he⟩

/-! ## the error flag is never cleared -/

theorem all_ret {α} {P : α → Prop} {a : α} (h : P a) : All P (Prog.ret a) := h

theorem processMessageL_sticky (L : Limits) (env : PEnv) (orc : EvalOracles) (expr : Expr) (md : Maildir) (name : Bytes) (st : MainSt)
    (h : st.error = true) : All (fun r => r.1.error = true) (processMessageL L env orc expr md name st) := by
  unfold processMessageL
  simp only [bind_eq, pure_eq]
  repeat' (first
    | (with_reducible exact all_ret (by simp [h]))
    | (with_reducible apply All.bind_of_forall; intro _)
    | split
    | (dsimp only; split))

theorem walkL_sticky (L : Limits) (env : PEnv) (orc : EvalOracles) (expr : Expr) (fuel : Nat) :
    ∀ (md : Maildir) (st : MainSt), st.error = true → All (fun r => r.1.error = true) (walkL L env orc expr fuel md st) := by
  induction fuel with
  | zero => intro md st h; exact h
  | succ n ih =>
    intro md st h
    simp only [walkL, bind_eq, pure_eq, call_bind]
    split
    · exact h
    · intro r
      cases r with
      | name nm =>
        dsimp only
        split
        · exact ih _ _ h
        · exact All.bind ((processMessageL_sticky L env orc expr md _ st h).mono fun b hb => ih _ _ hb)
      | eof =>
        dsimp only
        split
        · exact h
        · split
          · exact h
          · apply All.bind_of_forall
            intro x
            split
            · exact rfl
            · exact ih _ _ h
      | ok v => exact rfl
      | err e => exact rfl

theorem pathsL_sticky (L : Limits) (env : PEnv) (orc : EvalOracles) (input : Bytes) (b : ConfBlock) (ps : List Bytes) :
    ∀ st : MainSt, st.error = true → All (fun r => r.error = true) (pathsL L env orc input b ps st) := by
  induction ps with
  | nil => intro st h; exact h
  | cons p more ih =>
    intro st h
    simp only [pathsL, bind_eq, pure_eq]
    split
    · exact ih _ h
    · split
      · apply All.bind_of_forall
        intro x
        split
        · exact All.bind_of_forall _ fun _ => ih _ rfl
        · refine All.bind ((walkL_sticky L env orc b.expr _ _ _ ?_).mono fun r hr => All.bind_of_forall _ fun _ => ih _ hr)
          split <;> exact h
      · apply All.bind_of_forall
        intro o
        split
        · exact ih _ rfl
        · exact All.bind ((walkL_sticky L env orc b.expr _ _ _ h).mono fun r hr => All.bind_of_forall _ fun _ => ih _ hr)

theorem blocksL_sticky (L : Limits) (env : PEnv) (orc : EvalOracles) (input : Bytes) (bs : List ConfBlock) :
    ∀ st : MainSt, st.error = true → All (fun r => r.error = true) (blocksL L env orc input bs st) := by
  induction bs with
  | nil => intro st h; exact h
  | cons b rest ih =>
    intro st h
    simp only [blocksL, bind_eq]
    exact All.bind ((pathsL_sticky L env orc input b b.paths st h).mono fun r hr => ih _ hr)

/-! ## the loops are built from units -/

theorem walkL_psim (env : PEnv) (orc : EvalOracles) (L L' : Limits) (expr : Expr) (fuel : Nat) :
    ∀ (md : Maildir) (st : MainSt),
      PSim env orc L L' (fun r : MainSt × Maildir => r.1.error = true) (walkL L env orc expr fuel md st) (walkL L' env orc expr fuel md st) := by
  induction fuel with
  | zero => intro md st; exact PSim.ret _
  | succ n ih =>
    intro md st
    simp only [walkL, bind_eq, pure_eq, call_bind]
    split
    · exact PSim.ret _
    · apply PSim.call
      intro r
      split
      · split
        · exact ih _ _
        · exact PSim.ofUnit (IsUnit.message expr md _ st) (fun b => ih _ _) fun b hb => walkL_sticky L env orc expr n _ _ hb
      · split
        · exact PSim.ret _
        · split
          · exact PSim.ret _
          · refine PSim.ofUnit (IsUnit.next md) (fun b => ?_) fun b hb => ?_
            · split
              · exact PSim.ret _
              · exact ih _ _
            · simp only [hb, if_true]
              exact rfl
      · exact PSim.ret _

theorem pathsL_psim (env : PEnv) (orc : EvalOracles) (L L' : Limits) (input : Bytes) (b : ConfBlock) (ps : List Bytes) :
    ∀ st : MainSt, PSim env orc L L' (fun r : MainSt => r.error = true) (pathsL L env orc input b ps st) (pathsL L' env orc input b ps st) := by
  induction ps with
  | nil => intro st; exact PSim.ret _
  | cons p more ih =>
    intro st
    simp only [pathsL, bind_eq, pure_eq]
    split
    · exact ih _
    · split
      · refine PSim.ofUnit (IsUnit.spool input) (fun x => ?_) fun x hx => ?_
        · split
          · exact PSim.bind_same _ fun _ => ih _
          · refine PSim.bind (walkL_psim env orc L L' b.expr _ _ _) (fun r => PSim.bind_same _ fun _ => ih _) fun r hr => ?_
            exact All.bind_of_forall _ fun _ => pathsL_sticky L env orc input b more _ hr
        · simp only [hx, if_true]
          exact All.bind_of_forall _ fun _ => pathsL_sticky L env orc input b more _ rfl
      · refine PSim.ofUnit (IsUnit.openMaildir p) (fun o => ?_) fun o ho => ?_
        · split
          · exact ih _
          · refine PSim.bind (walkL_psim env orc L L' b.expr _ _ _) (fun r => PSim.bind_same _ fun _ => ih _) fun r hr => ?_
            exact All.bind_of_forall _ fun _ => pathsL_sticky L env orc input b more _ hr
        · subst ho
          exact pathsL_sticky L env orc input b more _ rfl

theorem blocksL_psim (env : PEnv) (orc : EvalOracles) (L L' : Limits) (input : Bytes) (bs : List ConfBlock) :
    ∀ st : MainSt, PSim env orc L L' (fun r : MainSt => r.error = true) (blocksL L env orc input bs st) (blocksL L' env orc input bs st) := by
  induction bs with
  | nil => intro st; exact PSim.ret _
  | cons b rest ih =>
    intro st
    simp only [blocksL, bind_eq]
    exact PSim.bind (pathsL_psim env orc L L' input b b.paths st) (fun r => ih r) fun r hr => blocksL_sticky L env orc input rest r hr

/-- What "the run reports an error" means for `main`: the error flag is set and the exit status is not 0. -/
def MainErr (r : Nat × MainSt) : Prop := r.2.error = true ∧ r.1 ≠ 0

theorem exitStatus_ne_zero (env : PEnv) (st : MainSt) (h : st.error = true) : exitStatus env st ≠ 0 := by
  unfold exitStatus
  simp only [h, if_true]
  split <;> decide

theorem mainPL_psim (env : PEnv) (orc : EvalOracles) (L L' : Limits) (confOk : Bool) (conf : List ConfBlock) (files : Files) (input : Bytes) :
    PSim env orc L L' MainErr (mainPL L env orc confOk conf files input) (mainPL L' env orc confOk conf files input) := by
  unfold mainPL
  simp only [bind_eq, pure_eq, call_bind]
  apply PSim.call
  intro r
  split
  · apply PSim.call
    intro _
    split
    · exact PSim.ret _
    · split
      · exact PSim.ret _
      · refine PSim.bind (blocksL_psim env orc L L' input conf _) (fun st => PSim.ret _) fun st hst => ?_
        exact ⟨hst, exitStatus_ne_zero env st hst⟩
  · exact PSim.ret _

end Mdsort.Proofs.Limits
