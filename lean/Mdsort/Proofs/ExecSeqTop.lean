import Mdsort.Proofs.ExecSeqFrame

/-!
`matches_exec` over a whole action list, against arbitrary possible results: the invariant
"the message's descriptor is a read-only handle on a file holding the content produced by the
rewriting actions so far", through every kind of entry; the program up to the fork of one exec
entry (`Spec.uptoFork`); and `matches_exec` as that program followed by the fork.
-/

namespace Mdsort.Proofs.ExecSeq
open Mdsort Mdsort.Model Mdsort.Spec Mdsort.Proofs.World

/-- `Spec.MsgOpen` with its witnesses named. -/
structure MO (w : World) (st : ExecSt) (c : Bytes) (h : Handle) (fid : Nat) : Prop where
  fd : st.ms.fd = some h
  obj : ∃ off, w.obj h = .file fid off false
  file : FileAt w fid c
  src : ∀ d, st.src.dirH = some d → d ≠ h ∧ d < w.handles.length

theorem msgOpen_iff {w : World} {st : ExecSt} {c : Bytes} : MsgOpen w st c ↔ ∃ h fid, MO w st c h fid := by
  constructor
  · rintro ⟨h, fid, off, f, h1, h2, h3, h4, h5, h6⟩
    exact ⟨h, fid, h1, ⟨off, h2⟩, ⟨h3, f, h4, h5⟩, h6⟩
  · rintro ⟨h, fid, h1, ⟨off, h2⟩, ⟨h3, f, h4, h5⟩, h6⟩
    exact ⟨h, fid, off, f, h1, h2, h3, h4, h5, h6⟩

theorem MO.hlt {w st c h fid} (m : MO w st c h fid) : h < w.handles.length := by
  obtain ⟨off, ho⟩ := m.obj
  exact lt_of_obj_ne_closed w h (by simp [ho])

/-- A script that left the protected file and the existing handles alone keeps the invariant. -/
theorem MO.frm {w w' : World} {st st' : ExecSt} {c h fid} (m : MO w st c h fid) (fr : Frm fid c w w')
    (hfd : st'.ms.fd = st.ms.fd) (hsrc : ∀ d, st'.src.dirH = some d → d ≠ h ∧ d < w'.handles.length) :
    MO w' st' c h fid := by
  obtain ⟨off, ho⟩ := m.obj
  exact ⟨hfd.trans m.fd, ⟨off, by rw [fr.objs h m.hlt]; exact ho⟩, fr.file, hsrc⟩

theorem MO.src_mono {w w' : World} {st : ExecSt} {c h fid} (m : MO w st c h fid) (hl : w.handles.length ≤ w'.handles.length) :
    ∀ d, st.src.dirH = some d → d ≠ h ∧ d < w'.handles.length :=
  fun d hd => ⟨(m.src d hd).1, Nat.lt_of_lt_of_le (m.src d hd).2 hl⟩

/-! ## one entry -/

theorem spec_moveBranch (env : PEnv) (mh : Match) (st : ExecSt) {w : World} {c : Bytes} {h : Handle} {fid : Nat}
    (m : MO w st c h fid) :
    wpo (moveBranch env mh st)
      (fun r w' => r.2 = false → MO w' r.1 c h fid ∧ r.1.ms.msg = st.ms.msg ∧ r.1.ms.parts = st.ms.parts) w := by
  unfold moveBranch
  refine wpo_bind_mono (spec_maildirOpenDst mh.path (Frm.refl m.file)) ?_
  rintro d w1 ⟨fr1, hd1⟩
  cases d with
  | none => intro h; cases h
  | some dst =>
    obtain ⟨dh, hdh, hdge, hdlt⟩ := hd1 dst rfl
    dsimp only
    refine wpo_bind_mono (wpo_and (wpo_with_all (spec_maildirMove env st.src dst st.ms fr1) (all_maildirMove env st.src dst st.ms))
      (spec_maildirMove env st.src dst st.ms (Frm.refl fr1.file))) ?_
    rintro x w2 ⟨⟨fr2, hfd, hmsg, hparts⟩, fr12⟩
    have hdlt2 : dh < w2.handles.length := Nat.lt_of_lt_of_le hdlt fr12.len
    split
    · -- the move failed
      unfold maildirClose
      err_leaves
    · split
      · -- the message now lives in another maildir: `dst` replaces the source
        have hnew : ∀ (w3 : World), w2.handles.length ≤ w3.handles.length →
            ∀ d, (some dh : Option Handle) = some d → d ≠ h ∧ d < w3.handles.length := by
          intro w3 hl d hd
          cases hd
          exact ⟨Nat.ne_of_gt (Nat.lt_of_lt_of_le m.hlt hdge), Nat.lt_of_lt_of_le hdlt2 hl⟩
        split
        · -- close the old source directory
          unfold maildirClose
          cases hsd : st.src.dirH with
          | none =>
            simp only [ret_bind]
            intro _
            exact ⟨m.frm fr2 hfd (by rw [hdh]; exact hnew w2 (Nat.le_refl _)), hmsg, hparts⟩
          | some d0 =>
            simp only [bind_eq, pure_eq, call_bind, ret_bind]
            intro r _ _
            obtain ⟨hne0, hlt0⟩ := m.src d0 hsd
            have m2 : MO w2 st c h fid := m.frm fr2 rfl (m.src_mono fr2.len)
            obtain ⟨off, ho⟩ := m2.obj
            refine ⟨⟨hfd.trans m.fd, ⟨off, ?_⟩, m2.file.step (.closedir d0) r trivial, ?_⟩, hmsg, hparts⟩
            · rw [stepWorld_obj, core_obj w2 _ _ h m2.hlt (by simp [Call.subject]; exact fun e => hne0 e)]
              exact ho
            · rw [hdh]
              exact hnew _ (by simpa using core_len w2 (.closedir d0) r)
        · intro _
          exact ⟨m.frm fr2 hfd (by rw [hdh]; exact hnew w2 (Nat.le_refl _)), hmsg, hparts⟩
      · -- same maildir and subdirectory: close `dst`
        refine wpo_bind_mono (Frm.calls (calls_maildirClose _ dst (by intro d hd; rw [hdh] at hd; cases hd; exact hdge)) fr2) ?_
        intro _ w3 fr3 _
        exact ⟨m.frm fr3 hfd (m.src_mono fr3.len), hmsg, hparts⟩

theorem isRewrite_of_ty {mh : Match} : isRewrite mh = (mh.ty == .label || mh.ty == .addHeader) := rfl

theorem spec_execOne (env : PEnv) (mh : Match) (st : ExecSt) {w : World} {c : Bytes} (hm : MsgOpen w st c) :
    wpo (execOne env mh st)
      (fun r w' => r.2 = false →
        MsgOpen w' r.1 (if isRewrite mh = true then (messageWrite st.ms.msg).1 else c) ∧
        r.1.ms.msg = st.ms.msg ∧ r.1.ms.parts = st.ms.parts) w := by
  obtain ⟨h, fid, m⟩ := msgOpen_iff.1 hm
  have moveCase : mh.ty = .move ∨ mh.ty = .flag ∨ mh.ty = .flags →
      wpo (moveBranch env mh st)
        (fun r w' => r.2 = false →
          MsgOpen w' r.1 (if isRewrite mh = true then (messageWrite st.ms.msg).1 else c) ∧
          r.1.ms.msg = st.ms.msg ∧ r.1.ms.parts = st.ms.parts) w := by
    intro hty
    have hnr : isRewrite mh = false := by
      rcases hty with h | h | h <;> simp [isRewrite, h]
    refine wpo_mono (spec_moveBranch env mh st m) ?_
    intro r w' hr he
    obtain ⟨m', h1, h2⟩ := hr he
    simp only [hnr, Bool.false_eq_true, if_false]
    exact ⟨msgOpen_iff.2 ⟨h, fid, m'⟩, h1, h2⟩
  have writeCase : mh.ty = .label ∨ mh.ty = .addHeader →
      wpo ((maildirWrite env st.src st.ms).bind fun x =>
          Prog.ret (({ st with ms := x.1 } : ExecSt), x.2))
        (fun r w' => r.2 = false →
          MsgOpen w' r.1 (if isRewrite mh = true then (messageWrite st.ms.msg).1 else c) ∧
          r.1.ms.msg = st.ms.msg ∧ r.1.ms.parts = st.ms.parts) w := by
    intro hty
    have hr : isRewrite mh = true := by
      rcases hty with h | h <;> simp [isRewrite, h]
    refine wpo_bind_mono (spec_maildirWrite env st.src st.ms m.file (by intro h' hh; rw [m.fd] at hh; cases hh; exact m.hlt)) ?_
    rintro ⟨ms', e⟩ w1 hpost he
    dsimp only at he ⊢
    obtain ⟨hmsg, hparts, hlen, h', fid', hfd', hge, hobj, hfile⟩ := hpost he
    simp only [hr, if_true]
    refine ⟨msgOpen_iff.2 ⟨h', fid', hfd', ⟨0, hobj⟩, hfile, ?_⟩, hmsg, hparts⟩
    intro d hd
    obtain ⟨_, hlt⟩ := m.src d hd
    exact ⟨Nat.ne_of_lt (Nat.lt_of_lt_of_le hlt hge), Nat.lt_of_lt_of_le hlt hlen⟩
  have same : ∀ (st' : ExecSt) (w' : World), Frm fid c w w' → st'.ms.fd = st.ms.fd → st'.src = st.src →
      isRewrite mh = false →
      MsgOpen w' st' (if isRewrite mh = true then (messageWrite st.ms.msg).1 else c) := by
    intro st' w' fr hfd hsrc hnr
    simp only [hnr, Bool.false_eq_true, if_false]
    exact msgOpen_iff.2 ⟨h, fid, m.frm fr hfd (by rw [hsrc]; exact m.src_mono fr.len)⟩
  unfold execOne
  simp only [bind_eq, pure_eq, call_bind]
  split
  · rename_i hty; exact moveCase (.inl hty)
  · rename_i hty; exact moveCase (.inr (.inl hty))
  · rename_i hty; exact moveCase (.inr (.inr hty))
  · -- discard
    rename_i hty
    refine wpo_bind_mono (Frm.calls (calls_maildirUnlink _ st.src st.ms.name) (Frm.refl m.file)) ?_
    intro e w1 fr1 he
    dsimp only at he ⊢
    subst he
    exact ⟨same _ w1 fr1 rfl rfl (by simp [isRewrite, hty]), rfl, rfl⟩
  · rename_i hty; exact writeCase (.inl hty)
  · rename_i hty; exact writeCase (.inr hty)
  · -- reject
    rename_i hty
    intro _
    exact ⟨same _ w (Frm.refl m.file) rfl rfl (by simp [isRewrite, hty]), rfl, rfl⟩
  · -- exec
    rename_i hty
    refine wpo_bind_mono
      (R := fun (fdr : Option (Option Handle)) w' => Frm fid c w w' ∧ ∀ fd, fdr = some (some fd) → w.handles.length ≤ fd) ?_ ?_
    · split
      · refine wpo_bind_mono (spec_messageGetFd env st.ms _ mh.execBody m.file) ?_
        rintro f w1 ⟨fr1, hf⟩
        refine ⟨fr1, ?_⟩
        intro fd hfd
        cases f with
        | none => cases hfd
        | some fd' =>
          simp only [Option.map_some, Option.some.injEq] at hfd
          subst hfd
          exact (hf fd' rfl).1
      · exact ⟨Frm.refl m.file, by intro _ h; cases h⟩
    · rintro fdr w1 ⟨fr1, hfd⟩
      cases fdr with
      | none => intro h; cases h
      | some fd =>
        dsimp only
        refine wpo_bind_mono (spec_execP _ fd fr1) ?_
        intro rc w2 fr2
        cases fd with
        | none =>
          dsimp only
          intro _
          exact ⟨same _ w2 fr2 rfl rfl (by simp [isRewrite, hty]), rfl, rfl⟩
        | some hh =>
          dsimp only
          intro r _ _
          have fr3 := fr2.step (.close hh) r (by intro _ h; cases h; exact hfd hh rfl) trivial
          exact ⟨same _ _ fr3 rfl rfl (by simp [isRewrite, hty]), rfl, rfl⟩
  · -- entries that are not actions
    rename_i hne
    intro _
    refine ⟨same _ w (Frm.refl m.file) rfl rfl ?_, rfl, rfl⟩
    unfold isRewrite
    cases hty : mh.ty <;> simp_all

/-! ## a prefix of the list -/

theorem rewrittenBefore_cons (mh : Match) (rest : MatchList) (msg : Msg) (c : Bytes) :
    rewrittenBefore (mh :: rest) msg c = rewrittenBefore rest msg (if isRewrite mh = true then (messageWrite msg).1 else c) := by
  unfold rewrittenBefore
  cases hm : isRewrite mh <;> cases hr : rest.any isRewrite <;> simp [hm, hr]

theorem spec_execList (env : PEnv) (pre : MatchList) (st : ExecSt) {w : World} {c : Bytes} (hm : MsgOpen w st c) :
    wpo (execList env pre st)
      (fun r w' => r.2 = false →
        MsgOpen w' r.1 (rewrittenBefore pre st.ms.msg c) ∧ r.1.ms.msg = st.ms.msg ∧ r.1.ms.parts = st.ms.parts) w := by
  induction pre generalizing st w c with
  | nil =>
    intro _
    exact ⟨by simpa [rewrittenBefore] using hm, rfl, rfl⟩
  | cons mh rest ih =>
    unfold execList
    refine wpo_bind_mono (spec_execOne env mh st hm) ?_
    rintro ⟨st1, e⟩ w1 hpost
    dsimp only at hpost ⊢
    split
    · intro h; cases h
    · rename_i he
      have he' : e = false := by simpa using he
      obtain ⟨hm1, hmsg1, hparts1⟩ := hpost he'
      refine wpo_mono (ih st1 hm1) ?_
      intro r w2 hr hre
      obtain ⟨hm2, hmsg2, hparts2⟩ := hr hre
      refine ⟨?_, hmsg2.trans hmsg1, hparts2.trans hparts1⟩
      rw [rewrittenBefore_cons]
      rw [hmsg1] at hm2
      exact hm2

/-! ## up to the fork -/

/-- `exec stdin` of the message (not `body`, not in an attachment block). -/
theorem spec_uptoFork_stdin (env : PEnv) (pre : MatchList) (mh : Match) (st : ExecSt) {w : World} {c : Bytes}
    (hb : mh.execBody = false) (hp : mh.part = 0) (hm : MsgOpen w st c) :
    wpo (uptoFork env pre mh st)
      (fun r w' => ∀ st' fd, r = .fork st' fd → RewoundOn w' fd (rewrittenBefore pre st.ms.msg c)) w := by
  unfold uptoFork
  refine wpo_bind_mono (spec_execList env pre st hm) ?_
  rintro ⟨st1, e⟩ w1 hpost
  dsimp only at hpost ⊢
  split
  · intro _ _ h; cases h
  · rename_i he
    have he' : e = false := by simpa using he
    obtain ⟨hm1, -, -⟩ := hpost he'
    obtain ⟨h, fid, m⟩ := msgOpen_iff.1 hm1
    have hpart : execPart mh st1.ms = none := by simp [execPart, hp]
    rw [hpart, hb]
    refine wpo_bind_mono (spec_messageGetFd env st1.ms none false m.file) ?_
    rintro f w2 ⟨fr2, hf⟩
    intro st' fd hr
    cases f with
    | none => cases hr
    | some fd' =>
      simp only [AtFork.fork.injEq] at hr
      obtain ⟨-, rfl⟩ := hr
      obtain ⟨-, hrew, -, hmsg⟩ := hf fd' rfl
      obtain ⟨mfd, hmfd, hobj⟩ := hmsg rfl rfl
      rw [m.fd] at hmfd
      cases hmfd
      obtain ⟨off, ho⟩ := m.obj
      obtain ⟨f, hfile, hdata⟩ := fr2.file.file
      exact ⟨⟨fid, off, f, by rw [hobj]; exact ho, hfile, hdata⟩, hrew⟩

/-- `exec stdin body` (of the message or of a part). -/
theorem spec_uptoFork_body (env : PEnv) (pre : MatchList) (mh : Match) (st : ExecSt) {w : World} {c : Bytes}
    (hb : mh.execBody = true) (hm : MsgOpen w st c) :
    wpo (uptoFork env pre mh st)
      (fun r w' => ∀ st' fd, r = .fork st' fd →
        ∃ body, getBody ((execPart mh st.ms).getD st.ms.msg) = some body ∧ BodyOn w' st' fd body) w := by
  unfold uptoFork
  refine wpo_bind_mono (spec_execList env pre st hm) ?_
  rintro ⟨st1, e⟩ w1 hpost
  dsimp only at hpost ⊢
  split
  · intro _ _ h; cases h
  · rename_i he
    have he' : e = false := by simpa using he
    obtain ⟨hm1, hmsg1, hparts1⟩ := hpost he'
    obtain ⟨h, fid, m⟩ := msgOpen_iff.1 hm1
    have hpart : execPart mh st1.ms = execPart mh st.ms := by simp [execPart, hparts1]
    rw [hb]
    refine wpo_bind_mono (spec_messageGetFd env st1.ms (execPart mh st1.ms) true m.file) ?_
    rintro f w2 ⟨fr2, hf⟩
    intro st' fd hr
    cases f with
    | none => cases hr
    | some fd' =>
      simp only [AtFork.fork.injEq] at hr
      obtain ⟨rfl, rfl⟩ := hr
      obtain ⟨-, hrew, hbody, -⟩ := hf fd' rfl
      obtain ⟨body, fidT, off, f, hgb, hobj, hge, hfile, hdata⟩ := hbody rfl
      rw [hpart, hmsg1] at hgb
      refine ⟨body, hgb, ⟨fidT, off, f, hobj, hfile, hdata, ?_⟩, hrew⟩
      intro h' fid' off' wr hfd' hobj'
      have hh : h' = h := by rw [m.fd] at hfd'; exact (Option.some.inj hfd').symm
      subst hh
      obtain ⟨off0, ho⟩ := m.obj
      rw [fr2.objs h' m.hlt, ho] at hobj'
      cases hobj'
      have := m.file.lt
      omega

/-! ## `matches_exec` is `uptoFork` followed by the fork -/

theorem matchesExec_cons (env : PEnv) (mh : Match) (rest : MatchList) (st : ExecSt) :
    matchesExec env (mh :: rest) st =
      (execOne env mh st).bind fun x =>
        if x.2 = true then (if x.1.chsrc = true then maildirClose x.1.src else .ret ()).bind fun _ => .ret (x.1, true)
        else matchesExec env rest x.1 := by
  conv => lhs; unfold matchesExec
  simp only [bind_eq, pure_eq]
  congr 1
  funext x
  obtain ⟨st', e⟩ := x
  cases e <;> simp <;> split <;> rfl

theorem matchesExec_factor (env : PEnv) (pre post : MatchList) (mh : Match) (st : ExecSt)
    (hty : mh.ty = .exec) (hs : mh.execStdin = true) :
    matchesExec env (pre ++ mh :: post) st = (uptoFork env pre mh st).bind (afterFork env mh.argv post) := by
  induction pre generalizing st with
  | nil =>
    rw [List.nil_append, matchesExec_cons]
    unfold uptoFork execList execOne
    simp only [hty, hs, bind_eq, pure_eq, call_bind, ret_bind, if_true, Bool.false_eq_true, if_false, bind_assoc]
    congr 1
    funext f
    cases f with
    | none => rfl
    | some fd =>
      simp only [Option.map_some, ret_bind, afterFork, execPart, bind_assoc]
      congr 1
  | cons m0 rest ih =>
    rw [List.cons_append, matchesExec_cons]
    unfold uptoFork
    conv => rhs; unfold execList
    simp only [bind_assoc]
    congr 1
    funext x
    by_cases hx : x.2 = true
    · simp only [hx, if_true, ret_bind, afterFork]
    · have hx' : x.2 = false := by simpa using hx
      simp only [hx', Bool.false_eq_true, if_false]
      rw [ih x.1]
      unfold uptoFork
      rw [bind_assoc]

end Mdsort.Proofs.ExecSeq
