import Mdsort.Model.Mime
import Mdsort.Model.MimeEntity
import Mdsort.Spec.Mime
import Mdsort.Proofs.Decode
import Mdsort.Proofs.MimeParts
import Mdsort.Proofs.HeaderSort

/-! Helper lemmas for C11 (MIME tree: boundary scanning vs. line-based cutting). -/

namespace Mdsort.Proofs
open Mdsort Mdsort.Model

/-- Every multipart entity reached by the specification's traversal of `m` (at most `fuel`
levels) announces a boundary without a newline (byte 10).  RFC 2046 boundaries never contain
one; mdsort can obtain one from an RFC 2047 encoded word in the Content-Type value, and then
`findboundary`, which compares bytes and not lines, matches across line ends. -/
def BoundaryOk : Nat → Msg → Bool
  | 0, _ => true
  | fuel + 1, m =>
    match getHeader1 m contentTypeName with
    | none => true
    | some ct =>
      match Spec.boundaryParam ct with
      | .some b =>
        b.all (· != 10) &&
          (match Spec.cutParts b (Spec.termLines m.body []).1 with
           | none => true
           | some texts => texts.all fun t => BoundaryOk fuel (parseHeaders t))
      | _ => true

theorem cutParts_eq (b : Bytes) (ls : List Bytes) :
    Spec.cutParts b ls =
      match ls.dropWhile (notDelim b) with
      | [] => none
      | d :: rest => if d == finOf b then some [] else Spec.cutParts.go (sepOf b) (finOf b) rest [] := rfl

theorem parts_succ (fuel : Nat) (m : Msg) :
    Spec.parts entity (fuel + 1) m =
      match getHeader1 m contentTypeName with
      | none => some []
      | some ct =>
        match Spec.boundaryParam ct with
        | .none => some []
        | .bad => none
        | .some b =>
          match Spec.cutParts b (Spec.termLines m.body []).1 with
          | none => none
          | some texts => collect (Spec.parts entity fuel) texts := rfl

theorem parseAttachments_eq_spec_partial (fuel : Nat) (m : Msg) (h : BoundaryOk fuel m = true) :
    parseAttachments fuel m = Spec.parts entity fuel m := by
  induction fuel generalizing m with
  | zero => rfl
  | succ fuel ih =>
    rw [parts_succ, parseAttachments]
    unfold BoundaryOk at h
    cases hct : getHeader1 m contentTypeName with
    | none => rfl
    | some t =>
      simp only [hct] at h ⊢
      rw [boundaryParam_eq] at h ⊢
      cases hpb : parseBoundary t with
      | notMultipart => rfl
      | invalid => rfl
      | ok bnd =>
        simp only [hpb, boundaryToSpec, Bool.and_eq_true] at h ⊢
        have hb : 10 ∉ bnd := by
          intro hmem
          have := List.all_eq_true.mp h.1 10 hmem
          simp at this
        have h2 := h.2
        rw [cutParts_eq] at h2 ⊢
        obtain ⟨h0, h1⟩ := findBoundary_lines bnd hb m.body
        cases hd : (Spec.termLines m.body []).1.dropWhile (notDelim bnd) with
        | nil => simp [h0 hd]
        | cons d rest =>
          obtain ⟨fromLine, hfb, hrest, hlen⟩ := h1 d rest hd
          simp only [hfb, hd] at h2 ⊢
          by_cases hf : (d == finOf bnd) = true
          · simp [hf, collect_nil]
          · simp only [hf] at h2 ⊢
            rw [partsLoop_eq _ bnd hb _ _ (Nat.lt_succ_of_lt hlen), hrest]
            cases hgo : Spec.cutParts.go (sepOf bnd) (finOf bnd) rest [] with
            | none => rfl
            | some texts =>
              simp only [hgo, Bool.false_eq_true, if_false, List.all_eq_true] at h2
              simp only [Option.bind_some, Bool.false_eq_true, if_false]
              exact collect_congr fun t ht => ih _ (h2 t ht)

/-! ### `getBody` -/

theorem tw_append {α} (p : α → Bool) (a b : List α) (ha : ∀ x ∈ a, p x = true)
    (hb : ∀ x, b.head? = some x → p x = false) : (a ++ b).takeWhile p = a := by
  induction a with
  | nil =>
    cases b with
    | nil => rfl
    | cons x r => simp [hb x rfl]
  | cons x a ih =>
    simp [ha x (by simp), ih (fun y hy => ha y (by simp [hy]))]

theorem drop_tw_length {α} (p : α → Bool) (l : List α) : l.drop (l.takeWhile p).length = l.dropWhile p := by
  induction l with
  | nil => rfl
  | cons x r ih =>
    simp only [List.takeWhile_cons, List.dropWhile_cons]
    split <;> simp [ih]

theorem dw_head {α} (p : α → Bool) (l : List α) (c : α) (r : List α) (h : l.dropWhile p = c :: r) : p c = false := by
  induction l with
  | nil => cases h
  | cons x l ih =>
    simp only [List.dropWhile_cons] at h
    split at h
    · exact ih h
    · rename_i hx; cases h; simpa using hx

theorem lowerAscii_semi (d : UInt8) (h : Spec.lowerAscii d = 59) : d = 59 := by
  unfold Spec.lowerAscii at h
  split at h
  · rename_i hu
    exfalso
    simp only [Bool.and_eq_true, decide_eq_true_eq] at hu
    have h1 : 65 ≤ d.toNat := by simpa using UInt8.le_iff_toNat_le.mp hu.1
    have h2 : d.toNat ≤ 90 := by simpa using UInt8.le_iff_toNat_le.mp hu.2
    have h3 := congrArg UInt8.toNat h
    simp [UInt8.toNat_add] at h3
    omega
  · exact h

/-- `strncasecmp` prefix test followed by "`;` or end" is the token comparison of the media type. -/
theorem typeTest_eq (t ty : Bytes) (hty : (59 : UInt8) ∉ ty) :
    (startsWithCI t ty && (match t.drop ty.length with | [] => true | c :: _ => c == 59)) =
      Spec.tokenEq (Spec.mediaType t) ty := by
  rw [startsWithCI_eq, Bool.eq_iff_iff]
  unfold Spec.tokenEq Spec.mediaType
  simp only [Bool.and_eq_true, beq_iff_eq]
  have hnosemi : ∀ a : Bytes, a.map Spec.lowerAscii = ty.map Spec.lowerAscii → (59 : UInt8) ∉ a := by
    intro a ha hm
    have : Spec.lowerAscii 59 ∈ a.map Spec.lowerAscii := List.mem_map_of_mem hm
    rw [ha] at this
    obtain ⟨d, hd, hd2⟩ := List.mem_map.1 this
    have : Spec.lowerAscii 59 = 59 := by decide
    rw [this] at hd2
    exact hty (lowerAscii_semi d hd2 ▸ hd)
  constructor
  · rintro ⟨h1, h2⟩
    have hns := hnosemi _ h1
    have hsplit : t = t.take ty.length ++ t.drop ty.length := (List.take_append_drop _ _).symm
    have htw : t.takeWhile (fun c => c != 59) = t.take ty.length := by
      conv => lhs; rw [hsplit]
      refine tw_append _ _ _ ?_ ?_
      · intro x hx
        have : x ≠ 59 := fun e => hns (e ▸ hx)
        simpa using this
      · intro x hx
        cases hd : t.drop ty.length with
        | nil => rw [hd] at hx; cases hx
        | cons c r => rw [hd] at hx h2; cases hx; simpa using h2
    rw [htw]; exact h1
  · intro h
    have hlen : (t.takeWhile (fun c => c != 59)).length = ty.length := by
      have := congrArg List.length h; simpa using this
    have hpre : t.takeWhile (fun c => c != 59) = t.take ty.length := by
      rw [← hlen]
      exact (List.prefix_iff_eq_take.mp (List.takeWhile_prefix _))
    refine ⟨by rw [← hpre]; exact h, ?_⟩
    have hdrop : t.drop ty.length = t.dropWhile (fun c => c != 59) := by
      rw [← hlen]; exact drop_tw_length _ _
    rw [hdrop]
    cases hd : t.dropWhile (fun c => c != 59) with
    | nil => rfl
    | cons c r =>
      have := dw_head _ _ _ _ hd
      simpa using this

theorem isContentType_eq (a : Msg) (ty : Bytes) (hty : (59 : UInt8) ∉ ty) :
    isContentType a ty = Spec.isType (entity.contentType a) ty := by
  unfold isContentType Spec.isType
  show (match getHeader1 a contentTypeName with | none => false | some t => _) =
    (match getHeader1 a contentTypeName with | none => false | some t => _)
  cases getHeader1 a contentTypeName with
  | none => rfl
  | some t => exact typeTest_eq t ty hty

theorem isContentType_alt (a : Msg) : isContentType a (ofString "multipart/alternative") =
    Spec.isType (entity.contentType a)
      [109, 117, 108, 116, 105, 112, 97, 114, 116, 47, 97, 108, 116, 101, 114, 110, 97, 116, 105, 118, 101] := by
  rw [ofString_alternative]; exact isContentType_eq a _ (by decide)

theorem isContentType_plain (a : Msg) : isContentType a (ofString "text/plain") =
    Spec.isType (entity.contentType a) [116, 101, 120, 116, 47, 112, 108, 97, 105, 110] := by
  rw [ofString_plain]; exact isContentType_eq a _ (by decide)

theorem isContentType_html (a : Msg) : isContentType a (ofString "text/html") =
    Spec.isType (entity.contentType a) [116, 101, 120, 116, 47, 104, 116, 109, 108] := by
  rw [ofString_html]; exact isContentType_eq a _ (by decide)

/-- `strcasecmp(enc, lit) == 0` is the token comparison. -/
theorem caseCmp_eq_tokenEq (a b : Bytes) : (strcasecmp a b == .eq) = Spec.tokenEq a b := by
  unfold Spec.tokenEq
  rw [← tolower_eq_lowerAscii, Bool.eq_iff_iff]
  simp only [beq_iff_eq, strcasecmp_eq_iff]

theorem decodeBody_eq (p : Msg) : decodeBody p = Spec.decoded entity p := by
  unfold decodeBody Spec.decoded
  simp only [ofString_base64, ofString_qp, caseCmp_eq_tokenEq]
  show (match getHeader1 p cteName with | some enc => _ | none => _) =
    (match getHeader1 p cteName with | some enc => _ | none => _)
  cases getHeader1 p cteName with
  | none => rfl
  | some enc =>
    simp only [entity, base64Decode, base64DecodeRaw, qpDecode, qpDecodeRaw,
      b64pton_eq_spec p.body (p.body.length + 1) (Nat.lt_succ_self _), qpLoop_eq_spec]

theorem pickAlternative_eq (ps : List Msg) (found : Option Msg) :
    pickAlternative ps found =
      match ps.find? (fun p => isContentType p (ofString "text/plain")) with
      | some p => some p
      | none =>
        match found with
        | some f => some f
        | none => ps.find? (fun p => isContentType p (ofString "text/html")) := by
  induction ps generalizing found with
  | nil => cases found <;> rfl
  | cons a rest ih =>
    conv => lhs; unfold pickAlternative
    by_cases hp : isContentType a (ofString "text/plain") = true
    · simp [hp]
    · by_cases hh : isContentType a (ofString "text/html") = true
      · simp only [hp, hh, Bool.false_eq_true, if_false, if_true, List.find?_cons]
        rw [ih]
        cases found <;> rfl
      · simp only [hp, hh, Bool.false_eq_true, if_false, List.find?_cons]
        rw [ih]

/-- `getBody` follows the specification whenever the attachments do. -/
theorem getBody_eq_spec_of_parts (m : Msg)
    (h : getAttachments m = Spec.parts entity (Gen.mimeDepthLimit + 1) m) :
    getBody m = Spec.decodedBody entity Gen.mimeDepthLimit m := by
  unfold getBody Spec.decodedBody
  simp only [isContentType_alt]
  split
  · exact decodeBody_eq m
  · rw [h]
    cases Spec.parts entity (Gen.mimeDepthLimit + 1) m with
    | none => rfl
    | some ps =>
      simp only [pickAlternative_eq, isContentType_plain, isContentType_html]
      cases List.find? (fun p => Spec.isType (entity.contentType p)
          [116, 101, 120, 116, 47, 112, 108, 97, 105, 110]) ps with
      | some p => exact decodeBody_eq p
      | none =>
        simp only
        cases List.find? (fun p => Spec.isType (entity.contentType p)
            [116, 101, 120, 116, 47, 104, 116, 109, 108]) ps with
        | some p => exact decodeBody_eq p
        | none => rfl

theorem getBody_eq_spec_partial (m : Msg) (h : BoundaryOk (Gen.mimeDepthLimit + 1) m = true) :
    getBody m = Spec.decodedBody entity Gen.mimeDepthLimit m :=
  getBody_eq_spec_of_parts m (parseAttachments_eq_spec_partial _ m h)

/-! ### the statements without the hypothesis are false

`parseAttachments fuel m = Spec.parts entity fuel m` and
`getBody m = Spec.decodedBody entity Gen.mimeDepthLimit m` do NOT hold for every `m`
(they were the original lemmas `parseAttachments_eq_spec` / `getBody_eq_spec`).
The Content-Type value is RFC 2047-decoded before `parseboundary` sees it, so the encoded word
`=?x?Q?a=0A?=` yields the boundary `a\n`.  `findboundary` compares bytes, so for it
`--a\n\n` is a separator and `--a\n--\n` the terminator, although no *line* of the body
equals `--a\n`: the model delivers one (empty) part, the line-based specification reports
the missing terminator as an error. -/

/-- `Content-Type: multipart/;boundary="=?x?Q?a=0A?="`, body `--a\n\n--a\n--\n`. -/
def cexParts : Msg :=
  { headers := [{ id := 1, key := ofString "Content-Type",
                  val := ofString "multipart/;boundary=\"=?x?Q?a=0A?=\"" }],
    body := ofString "--a\n\n--a\n--\n" }

/-- The same with `multipart/alternative`. -/
def cexBody : Msg :=
  { headers := [{ id := 1, key := ofString "Content-Type",
                  val := ofString "multipart/alternative;boundary=\"=?x?Q?a=0A?=\"" }],
    body := ofString "--a\n\n--a\n--\n" }

theorem cexParts_model : getAttachments cexParts = some [{ headers := [], body := [] }] := by
  decide +kernel
theorem cexParts_spec : Spec.parts entity (Gen.mimeDepthLimit + 1) cexParts = none := by
  decide +kernel
theorem cexParts_boundaryOk : BoundaryOk (Gen.mimeDepthLimit + 1) cexParts = false := by
  decide +kernel

theorem cexBody_model : getBody cexBody = some (ofString "--a\n\n--a\n--\n") := by decide +kernel
theorem cexBody_spec : Spec.decodedBody entity Gen.mimeDepthLimit cexBody = none := by decide +kernel

theorem parseAttachments_eq_spec_false :
    ¬ ∀ (fuel : Nat) (m : Msg), parseAttachments fuel m = Spec.parts entity fuel m := by
  intro h
  have := h (Gen.mimeDepthLimit + 1) cexParts
  rw [show parseAttachments (Gen.mimeDepthLimit + 1) cexParts = getAttachments cexParts from rfl,
    cexParts_model, cexParts_spec] at this
  cases this

theorem getBody_eq_spec_false :
    ¬ ∀ m : Msg, getBody m = Spec.decodedBody entity Gen.mimeDepthLimit m := by
  intro h
  have := h cexBody
  rw [cexBody_model, cexBody_spec] at this
  cases this

end Mdsort.Proofs
