import Mdsort.Model.Mime
import Mdsort.Model.MimeEntity
import Mdsort.Spec.Mime
import Mdsort.Proofs.Decode

/-! Helper lemmas for C11 (MIME tree: boundary scanning vs. line-based cutting). -/

namespace Mdsort.Proofs
open Mdsort Mdsort.Model

theorem parseAttachments_eq_spec (fuel : Nat) (m : Msg) :
    parseAttachments fuel m = Spec.parts entity fuel m := by
  sorry

theorem getBody_eq_spec (m : Msg) : getBody m = Spec.decodedBody entity Gen.mimeDepthLimit m := by
  sorry

end Mdsort.Proofs
