import Mdsort.Model.Mime
import Mdsort.Model.MimeEntity
import Mdsort.Spec.Mime
import Mdsort.Proofs.Decode
import Mdsort.Proofs.MimeParts

/-! Helper lemmas for C11 (MIME tree: boundary scanning vs. line-based cutting). -/

namespace Mdsort.Proofs
open Mdsort Mdsort.Model

/-- Every multipart entity reached by the specification's traversal of `m` (at most `fuel`
levels) announces a boundary without a newline (byte 10).  RFC 2046 boundaries never contain
one; mdsort can obtain one from an RFC 2047 encoded word in the Content-Type value, and then
`findboundary`, which compares bytes and not lines, matches across line ends. -/
def BoundaryOk : Nat → Msg → Bool
  | 0, _ => true
  | fuel + 1, m =>
    match getHeader1 m contentTypeName with
    | none => true
    | some ct =>
      match Spec.boundaryParam ct with
      | .some b =>
        b.all (· != 10) &&
          (match Spec.cutParts b (Spec.termLines m.body []).1 with
           | none => true
           | some texts => texts.all fun t => BoundaryOk fuel (parseHeaders t))
      | _ => true

theorem cutParts_eq (b : Bytes) (ls : List Bytes) :
    Spec.cutParts b ls =
      match ls.dropWhile (notDelim b) with
      | [] => none
      | d :: rest => if d == finOf b then some [] else Spec.cutParts.go (sepOf b) (finOf b) rest [] := rfl

theorem parts_succ (fuel : Nat) (m : Msg) :
    Spec.parts entity (fuel + 1) m =
      match getHeader1 m contentTypeName with
      | none => some []
      | some ct =>
        match Spec.boundaryParam ct with
        | .none => some []
        | .bad => none
        | .some b =>
          match Spec.cutParts b (Spec.termLines m.body []).1 with
          | none => none
          | some texts => collect (Spec.parts entity fuel) texts := rfl

theorem parseAttachments_eq_spec_partial (fuel : Nat) (m : Msg) (h : BoundaryOk fuel m = true) :
    parseAttachments fuel m = Spec.parts entity fuel m := by
  induction fuel generalizing m with
  | zero => rfl
  | succ fuel ih =>
    rw [parts_succ, parseAttachments]
    unfold BoundaryOk at h
    cases hct : getHeader1 m contentTypeName with
    | none => rfl
    | some t =>
      simp only [hct] at h ⊢
      rw [boundaryParam_eq] at h ⊢
      cases hpb : parseBoundary t with
      | notMultipart => rfl
      | invalid => rfl
      | ok bnd =>
        simp only [hpb, boundaryToSpec, Bool.and_eq_true] at h ⊢
        have hb : 10 ∉ bnd := by
          intro hmem
          have := List.all_eq_true.mp h.1 10 hmem
          simp at this
        have h2 := h.2
        rw [cutParts_eq] at h2 ⊢
        obtain ⟨h0, h1⟩ := findBoundary_lines bnd hb m.body
        cases hd : (Spec.termLines m.body []).1.dropWhile (notDelim bnd) with
        | nil => simp [h0 hd]
        | cons d rest =>
          obtain ⟨fromLine, hfb, hrest, hlen⟩ := h1 d rest hd
          simp only [hfb, hd] at h2 ⊢
          by_cases hf : (d == finOf bnd) = true
          · simp [hf, collect_nil]
          · simp only [hf] at h2 ⊢
            rw [partsLoop_eq _ bnd hb _ _ (Nat.lt_succ_of_lt hlen), hrest]
            cases hgo : Spec.cutParts.go (sepOf bnd) (finOf bnd) rest [] with
            | none => rfl
            | some texts =>
              simp only [hgo, Bool.false_eq_true, if_false, List.all_eq_true] at h2
              simp only [Option.bind_some, Bool.false_eq_true, if_false]
              exact collect_congr fun t ht => ih _ (h2 t ht)

/-! ### `getBody` -/

theorem isContentType_eq (a : Msg) (ty : Bytes) :
    isContentType a ty = Spec.isType (entity.contentType a) ty := by
  unfold isContentType Spec.isType
  show (match getHeader1 a contentTypeName with | none => false | some t => _) =
    (match getHeader1 a contentTypeName with | none => false | some t => _)
  cases getHeader1 a contentTypeName <;> rfl

theorem decodeBody_eq (p : Msg) : decodeBody p = Spec.decoded entity p := by
  unfold decodeBody Spec.decoded
  simp only [ofString_base64, ofString_qp]
  show (match getHeader1 p cteName with | some enc => _ | none => _) =
    (match getHeader1 p cteName with | some enc => _ | none => _)
  cases getHeader1 p cteName with
  | none => rfl
  | some enc =>
    simp only [entity, base64Decode, base64DecodeRaw, qpDecode, qpDecodeRaw,
      b64pton_eq_spec p.body (p.body.length + 1) (Nat.lt_succ_self _), qpLoop_eq_spec]

theorem pickAlternative_eq (ps : List Msg) (found : Option Msg) :
    pickAlternative ps found =
      match ps.find? (fun p => isContentType p (ofString "text/plain")) with
      | some p => some p
      | none =>
        match found with
        | some f => some f
        | none => ps.find? (fun p => isContentType p (ofString "text/html")) := by
  induction ps generalizing found with
  | nil => cases found <;> rfl
  | cons a rest ih =>
    conv => lhs; unfold pickAlternative
    by_cases hp : isContentType a (ofString "text/plain") = true
    · simp [hp]
    · by_cases hh : isContentType a (ofString "text/html") = true
      · simp only [hp, hh, Bool.false_eq_true, if_false, if_true, List.find?_cons]
        rw [ih]
        cases found <;> rfl
      · simp only [hp, hh, Bool.false_eq_true, if_false, List.find?_cons]
        rw [ih]

/-- `getBody` follows the specification whenever the attachments do. -/
theorem getBody_eq_spec_of_parts (m : Msg)
    (h : getAttachments m = Spec.parts entity (Gen.mimeDepthLimit + 1) m) :
    getBody m = Spec.decodedBody entity Gen.mimeDepthLimit m := by
  unfold getBody Spec.decodedBody
  simp only [isContentType_eq, ofString_alternative]
  split
  · exact decodeBody_eq m
  · rw [h]
    cases Spec.parts entity (Gen.mimeDepthLimit + 1) m with
    | none => rfl
    | some ps =>
      simp only [pickAlternative_eq, isContentType_eq, ofString_plain, ofString_html]
      cases List.find? (fun p => Spec.isType (entity.contentType p)
          [116, 101, 120, 116, 47, 112, 108, 97, 105, 110]) ps with
      | some p => exact decodeBody_eq p
      | none =>
        simp only
        cases List.find? (fun p => Spec.isType (entity.contentType p)
            [116, 101, 120, 116, 47, 104, 116, 109, 108]) ps with
        | some p => exact decodeBody_eq p
        | none => rfl

theorem getBody_eq_spec_partial (m : Msg) (h : BoundaryOk (Gen.mimeDepthLimit + 1) m = true) :
    getBody m = Spec.decodedBody entity Gen.mimeDepthLimit m :=
  getBody_eq_spec_of_parts m (parseAttachments_eq_spec_partial _ m h)

/-! ### the statements without the hypothesis are false

`parseAttachments fuel m = Spec.parts entity fuel m` and
`getBody m = Spec.decodedBody entity Gen.mimeDepthLimit m` do NOT hold for every `m`
(they were the original lemmas `parseAttachments_eq_spec` / `getBody_eq_spec`).
The Content-Type value is RFC 2047-decoded before `parseboundary` sees it, so the encoded word
`=?x?Q?a=0A?=` yields the boundary `a\n`.  `findboundary` compares bytes, so for it
`--a\n\n` is a separator and `--a\n--\n` the terminator, although no *line* of the body
equals `--a\n`: the model delivers one (empty) part, the line-based specification reports
the missing terminator as an error. -/

/-- `Content-Type: multipart/;boundary="=?x?Q?a=0A?="`, body `--a\n\n--a\n--\n`. -/
def cexParts : Msg :=
  { headers := [{ id := 1, key := ofString "Content-Type",
                  val := ofString "multipart/;boundary=\"=?x?Q?a=0A?=\"" }],
    body := ofString "--a\n\n--a\n--\n" }

/-- The same with `multipart/alternative`. -/
def cexBody : Msg :=
  { headers := [{ id := 1, key := ofString "Content-Type",
                  val := ofString "multipart/alternative;boundary=\"=?x?Q?a=0A?=\"" }],
    body := ofString "--a\n\n--a\n--\n" }

theorem cexParts_model : getAttachments cexParts = some [{ headers := [], body := [] }] := by
  decide +kernel
theorem cexParts_spec : Spec.parts entity (Gen.mimeDepthLimit + 1) cexParts = none := by
  decide +kernel
theorem cexParts_boundaryOk : BoundaryOk (Gen.mimeDepthLimit + 1) cexParts = false := by
  decide +kernel

theorem cexBody_model : getBody cexBody = some (ofString "--a\n\n--a\n--\n") := by decide +kernel
theorem cexBody_spec : Spec.decodedBody entity Gen.mimeDepthLimit cexBody = none := by decide +kernel

theorem parseAttachments_eq_spec_false :
    ¬ ∀ (fuel : Nat) (m : Msg), parseAttachments fuel m = Spec.parts entity fuel m := by
  intro h
  have := h (Gen.mimeDepthLimit + 1) cexParts
  rw [show parseAttachments (Gen.mimeDepthLimit + 1) cexParts = getAttachments cexParts from rfl,
    cexParts_model, cexParts_spec] at this
  cases this

theorem getBody_eq_spec_false :
    ¬ ∀ m : Msg, getBody m = Spec.decodedBody entity Gen.mimeDepthLimit m := by
  intro h
  have := h cexBody
  rw [cexBody_model, cexBody_spec] at this
  cases this

end Mdsort.Proofs
