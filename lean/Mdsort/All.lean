import Mdsort.Props.C03
import Mdsort.Props.C08
import Mdsort.Props.C09
import Mdsort.Props.C10
import Mdsort.Props.C11
import Mdsort.Props.C12
import Mdsort.Props.C15
import Mdsort.Props.C16
