/* FFI externs for the Lean driver: platform regex, time, locale (setlocale, mbtowc, wcwidth). */
#define _GNU_SOURCE
#include <lean/lean.h>
#include <regex.h>
#include <stdlib.h>
#include <string.h>
#include <time.h>
#include <wchar.h>
#include <locale.h>

/* regexec on a NUL-free subject. Returns #[] on compile error / exec error marker,
 * else [status, nsub+1, so0, eo0, so1, eo1, ...]; status 0 = match, 1 = nomatch, 2 = error, 3 = regcomp error */
LEAN_EXPORT lean_obj_res mdsort_regex(b_lean_obj_arg pat, b_lean_obj_arg subj, uint32_t icase) {
  size_t pl = lean_sarray_size(pat), sl = lean_sarray_size(subj);
  char *p = malloc(pl + 1), *s = malloc(sl + 1);
  memcpy(p, lean_sarray_cptr(pat), pl); p[pl] = 0;
  memcpy(s, lean_sarray_cptr(subj), sl); s[sl] = 0;
  regex_t re;
  int fl = REG_EXTENDED | REG_NEWLINE | (icase ? REG_ICASE : 0);
  lean_object *arr;
  if (regcomp(&re, p, fl) != 0) {
    arr = lean_alloc_array(1, 1);
    lean_array_set_core(arr, 0, lean_box_uint32(3));
    lean_array_set_size(arr, 1); /* no-op safety */
    free(p); free(s);
    return arr;
  }
  size_t n = re.re_nsub + 1;
  regmatch_t *m = calloc(n, sizeof(*m));
  int rc = regexec(&re, s, n, m, 0);
  if (rc == REG_NOMATCH || rc != 0) {
    arr = lean_alloc_array(1, 1);
    lean_array_set_core(arr, 0, lean_box_uint32(rc == REG_NOMATCH ? 1 : 2));
  } else {
    arr = lean_alloc_array(2 + 2 * n, 2 + 2 * n);
    lean_array_set_core(arr, 0, lean_box_uint32(0));
    lean_array_set_core(arr, 1, lean_box_uint32((uint32_t)n));
    for (size_t i = 0; i < n; i++) {
      /* -1 is encoded as 0xffffffff */
      lean_array_set_core(arr, 2 + 2 * i, lean_box_uint32((uint32_t)m[i].rm_so));
      lean_array_set_core(arr, 3 + 2 * i, lean_box_uint32((uint32_t)m[i].rm_eo));
    }
  }
  free(m); regfree(&re); free(p); free(s);
  return arr;
}

/* strptime with the given format: returns #[] on failure, else
 * [consumed, year(+1900), mon, mday, hour, min, sec] (all as uint32, year offset by 0). */
LEAN_EXPORT lean_obj_res mdsort_strptime(b_lean_obj_arg fmt, b_lean_obj_arg str) {
  size_t fl = lean_sarray_size(fmt), sl = lean_sarray_size(str);
  char *f = malloc(fl + 1), *s = malloc(sl + 1);
  memcpy(f, lean_sarray_cptr(fmt), fl); f[fl] = 0;
  memcpy(s, lean_sarray_cptr(str), sl); s[sl] = 0;
  struct tm tm;
  memset(&tm, 0, sizeof(tm));
  const char *end = strptime(s, f, &tm);
  lean_object *arr;
  if (end == NULL) {
    arr = lean_alloc_array(0, 0);
  } else {
    arr = lean_alloc_array(7, 7);
    lean_array_set_core(arr, 0, lean_box_uint32((uint32_t)(end - s)));
    lean_array_set_core(arr, 1, lean_box_uint32((uint32_t)(tm.tm_year + 1900)));
    lean_array_set_core(arr, 2, lean_box_uint32((uint32_t)tm.tm_mon));
    lean_array_set_core(arr, 3, lean_box_uint32((uint32_t)tm.tm_mday));
    lean_array_set_core(arr, 4, lean_box_uint32((uint32_t)tm.tm_hour));
    lean_array_set_core(arr, 5, lean_box_uint32((uint32_t)tm.tm_min));
    lean_array_set_core(arr, 6, lean_box_uint32((uint32_t)tm.tm_sec));
  }
  free(f); free(s);
  return arr;
}

/* tzabbr: gmtoff of zone `name` at instant `now` (setenv TZ; tzset; localtime). Returns offset + 2^31. */
LEAN_EXPORT uint64_t mdsort_zone(b_lean_obj_arg name, uint64_t now) {
  size_t nl = lean_sarray_size(name);
  char *n = malloc(nl + 1);
  memcpy(n, lean_sarray_cptr(name), nl); n[nl] = 0;
  char *old = getenv("TZ");
  char *save = old ? strdup(old) : NULL;
  setenv("TZ", n, 1);
  tzset();
  time_t t = (time_t)now;
  struct tm *tm = localtime(&t);
  long off = tm ? tm->tm_gmtoff : 0;
  if (save) { setenv("TZ", save, 1); free(save); } else unsetenv("TZ");
  tzset();
  free(n);
  return (uint64_t)(off + 2147483648L);
}

/* timegm cross-check */
LEAN_EXPORT uint64_t mdsort_timegm(uint32_t year, uint32_t mon, uint32_t mday, uint32_t hour, uint32_t min, uint32_t sec) {
  struct tm tm;
  memset(&tm, 0, sizeof(tm));
  tm.tm_year = (int)year - 1900; tm.tm_mon = (int)mon; tm.tm_mday = (int)mday;
  tm.tm_hour = (int)hour; tm.tm_min = (int)min; tm.tm_sec = (int)sec;
  return (uint64_t)((int64_t)timegm(&tm) + (1LL << 40));
}

/* The character type locale of the driver is the one of its environment (LC_ALL, LC_CTYPE, LANG), selected the way mdsort's
 * main() does it: setlocale(LC_CTYPE, "") before anything else runs (a constructor: the externs below are pure functions for
 * Lean, so the locale must not change while the driver runs).  regcomp/regexec, mbtowc and wcwidth below depend on it. */
static int locale_ok;
__attribute__((constructor)) static void mdsort_locale_init(void) {
  locale_ok = setlocale(LC_CTYPE, "") != NULL;
}

/* (setlocale succeeded) << 8 | MB_CUR_MAX: lets a check make sure that the driver runs in the locale it asked for */
LEAN_EXPORT uint32_t mdsort_locale_info(uint32_t unused) {
  (void)unused;
  return ((uint32_t)locale_ok << 8) | (uint32_t)MB_CUR_MAX;
}

/* mbtowc(&wc, s + off, MB_CUR_MAX) on the NUL-terminated copy of s: returns (n + 1) << 32 | wc, i.e. the upper half is
 * 0 for -1 (invalid or incomplete sequence; the shift state is reset as strnwidth does), 1 for the NUL, n + 1 for n bytes. */
LEAN_EXPORT uint64_t mdsort_mbtowc(b_lean_obj_arg str, uint64_t off) {
  size_t sl = lean_sarray_size(str);
  if (off > sl) off = sl;
  size_t l = sl - off;
  char *s = malloc(l + 1);
  memcpy(s, lean_sarray_cptr(str) + off, l); s[l] = 0;
  wchar_t wc = 0;
  int n = mbtowc(&wc, s, MB_CUR_MAX);
  if (n == -1) mbtowc(NULL, NULL, MB_CUR_MAX);
  free(s);
  if (n < 0) return 0;
  return ((uint64_t)(n + 1) << 32) | (uint64_t)(uint32_t)wc;
}

/* wcwidth(wc) + 1: 0 for a non-printable character (-1), else columns + 1 */
LEAN_EXPORT uint32_t mdsort_wcwidth(uint32_t wc) {
  return (uint32_t)(wcwidth((wchar_t)wc) + 1);
}

/* time_format (time.c): localtime + strftime(buf, 32, fmt) in the zone `tz` ("" = TZ unset: the system zone).
 * `t` is the time_t offset by 2^62.  Returns #[0] for NULL (strftime returned 0 or localtime failed), else #[1, bytes...]. */
LEAN_EXPORT lean_obj_res mdsort_timefmt(b_lean_obj_arg fmt, b_lean_obj_arg tz, uint64_t t) {
  size_t fl = lean_sarray_size(fmt), zl = lean_sarray_size(tz);
  char *f = malloc(fl + 1), *z = malloc(zl + 1);
  memcpy(f, lean_sarray_cptr(fmt), fl); f[fl] = 0;
  memcpy(z, lean_sarray_cptr(tz), zl); z[zl] = 0;
  char *old = getenv("TZ");
  char *save = old ? strdup(old) : NULL;
  if (zl > 0) setenv("TZ", z, 1); else unsetenv("TZ");
  tzset();
  time_t tim = (time_t)((int64_t)t - (1LL << 62));
  struct tm *tm = localtime(&tim);
  char buf[32];
  size_t n = tm ? strftime(buf, sizeof(buf), f, tm) : 0;
  if (save) { setenv("TZ", save, 1); free(save); } else unsetenv("TZ");
  tzset();
  lean_object *arr;
  if (n == 0) {
    arr = lean_alloc_array(1, 1);
    lean_array_set_core(arr, 0, lean_box_uint32(0));
  } else {
    arr = lean_alloc_array(n + 1, n + 1);
    lean_array_set_core(arr, 0, lean_box_uint32(1));
    for (size_t i = 0; i < n; i++)
      lean_array_set_core(arr, i + 1, lean_box_uint32((uint32_t)(unsigned char)buf[i]));
  }
  free(f); free(z);
  return arr;
}
