/* FFI externs for the Lean driver: platform regex, time, wcwidth. */
#define _GNU_SOURCE
#include <lean/lean.h>
#include <regex.h>
#include <stdlib.h>
#include <string.h>
#include <time.h>
#include <wchar.h>
#include <locale.h>

/* regexec on a NUL-free subject. Returns #[] on compile error / exec error marker,
 * else [status, nsub+1, so0, eo0, so1, eo1, ...]; status 0 = match, 1 = nomatch, 2 = error, 3 = regcomp error */
LEAN_EXPORT lean_obj_res mdsort_regex(b_lean_obj_arg pat, b_lean_obj_arg subj, uint32_t icase) {
  size_t pl = lean_sarray_size(pat), sl = lean_sarray_size(subj);
  char *p = malloc(pl + 1), *s = malloc(sl + 1);
  memcpy(p, lean_sarray_cptr(pat), pl); p[pl] = 0;
  memcpy(s, lean_sarray_cptr(subj), sl); s[sl] = 0;
  regex_t re;
  int fl = REG_EXTENDED | REG_NEWLINE | (icase ? REG_ICASE : 0);
  lean_object *arr;
  if (regcomp(&re, p, fl) != 0) {
    arr = lean_alloc_array(1, 1);
    lean_array_set_core(arr, 0, lean_box_uint32(3));
    lean_array_set_size(arr, 1); /* no-op safety */
    free(p); free(s);
    return arr;
  }
  size_t n = re.re_nsub + 1;
  regmatch_t *m = calloc(n, sizeof(*m));
  int rc = regexec(&re, s, n, m, 0);
  if (rc == REG_NOMATCH || rc != 0) {
    arr = lean_alloc_array(1, 1);
    lean_array_set_core(arr, 0, lean_box_uint32(rc == REG_NOMATCH ? 1 : 2));
  } else {
    arr = lean_alloc_array(2 + 2 * n, 2 + 2 * n);
    lean_array_set_core(arr, 0, lean_box_uint32(0));
    lean_array_set_core(arr, 1, lean_box_uint32((uint32_t)n));
    for (size_t i = 0; i < n; i++) {
      /* -1 is encoded as 0xffffffff */
      lean_array_set_core(arr, 2 + 2 * i, lean_box_uint32((uint32_t)m[i].rm_so));
      lean_array_set_core(arr, 3 + 2 * i, lean_box_uint32((uint32_t)m[i].rm_eo));
    }
  }
  free(m); regfree(&re); free(p); free(s);
  return arr;
}
