import Lake
open System Lake DSL

package mdsort where
  -- no dependencies: Mathlib, where a proof file needs a module of it, is found on the toolchain path

@[default_target]
lean_lib Mdsort where
  roots := #[`Mdsort]

target ffi.o pkg : FilePath := do
  let oFile := pkg.buildDir / "ffi" / "ffi.o"
  let srcJob ← inputTextFile <| pkg.dir / "ffi" / "ffi.c"
  let weakArgs := #["-I", (← getLeanIncludeDir).toString]
  buildO oFile srcJob weakArgs #["-fPIC", "-O1"] "cc" getLeanTrace

extern_lib libmdsortffi pkg := do
  let ffiO ← ffi.o.fetch
  let name := nameToStaticLib "mdsortffi"
  buildStaticLib (pkg.staticLibDir / name) #[ffiO]

lean_lib Driver where
  roots := #[`Driver.Ast, `Driver.Wire, `Driver.Conf, `Driver.Sched, `Driver.Main]

lean_exe driver where
  root := `Driver.Main
