-- Root of the library: everything (models, specifications, proofs, property theorems).
-- `lake build Mdsort` (the setup command) therefore checks every proof; a check rebuilds only `Mdsort.Props.Cxx` and the driver.
import Mdsort.All
import Mdsort.Proofs.GenBridge
-- proof modules no property file needs to name itself are listed here so that the root really is "everything"
import Mdsort.Spec.ConfDefect
import Mdsort.Proofs.ConfWpl
import Mdsort.Proofs.ConfAnywhere1
import Mdsort.Proofs.ConfAnywhere2
import Mdsort.Proofs.ConfAnywhere3
import Mdsort.Proofs.ConfAnywhere4
import Mdsort.Proofs.ConfAnywhere5
import Mdsort.Proofs.ConfAnywhere6
import Mdsort.Proofs.ConfAnywhere7
import Mdsort.Model.Strptime
import Mdsort.Spec.Rfc5322Date
import Mdsort.Proofs.Strptime
