import Mdsort.Bytes
import Mdsort.Gen.Tables
import Mdsort.Model.Decode
import Mdsort.Spec.Decode
