import Mdsort.Bytes
import Mdsort.Gen.Tables
import Mdsort.Model.Decode
import Mdsort.Spec.Decode
import Mdsort.Model.Header
import Mdsort.Model.Mime
import Mdsort.Spec.Message
import Mdsort.Spec.Mime
