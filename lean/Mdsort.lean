-- Root of the library: everything (models, specifications, proofs, property theorems).
-- `lake build Mdsort` (the setup command) therefore checks every proof; a check rebuilds only `Mdsort.Props.Cxx` and the driver.
import Mdsort.All
import Mdsort.Model.Strptime
import Mdsort.Spec.Rfc5322Date
import Mdsort.Proofs.Strptime
