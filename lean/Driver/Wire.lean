import Mdsort.Model.Main
import Driver.Ast

/-! Wire format of calls, results and scenarios for the `conform` op.  Glue only. -/

open Mdsort Mdsort.Model

namespace Driver

def hexDigit' (n : UInt8) : Char :=
  if n < 10 then Char.ofNat (48 + n.toNat) else Char.ofNat (87 + n.toNat)

def hex (b : Bytes) : String :=
  if b.isEmpty then "-" else String.ofList (b.flatMap fun (c : UInt8) => [hexDigit' (c >>> 4), hexDigit' (c &&& 15)])

def timeStr : Option Nat → String
  | none => "omit"
  | some t => toString t

def parseTime (s : String) : Option (Option Nat) :=
  if s == "omit" then some none else s.toNat?.map some

def callStr : Call → String
  | .opendir p => s!"opendir {hex p}"
  | .readdir d => s!"readdir {d}"
  | .rewinddir d => s!"rewinddir {d}"
  | .closedir d => s!"closedir {d}"
  | .openRd d n => s!"openrd {d} {hex n}"
  | .openExcl d n => s!"openexcl {d} {hex n}"
  | .openPath p => s!"openpath {hex p}"
  | .fopen p => s!"fopen {hex p}"
  | .read fd => s!"read {fd}"
  | .write fd data => s!"write {fd} {data.length}"
  | .fsync fd => s!"fsync {fd}"
  | .close fd => s!"close {fd}"
  | .dupfd fd => s!"dupfd {fd}"
  | .fdopen fd => s!"fdopen {fd}"
  | .fprintf fd data => s!"fprintf {fd} {data.length}"
  | .fflush fd => s!"fflush {fd}"
  | .fclose fd => s!"fclose {fd}"
  | .renameat a b c d => s!"renameat {a} {hex b} {c} {hex d}"
  | .unlinkat d n => s!"unlinkat {d} {hex n}"
  | .unlink p => s!"unlink {hex p}"
  | .fstatat d n => s!"fstatat {d} {hex n}"
  | .stat p => s!"stat {hex p}"
  | .utimensat d n a m => s!"utimensat {d} {hex n} {timeStr a} {timeStr m}"
  | .lseek fd => s!"lseek {fd}"
  | .mkostemp t => s!"mkostemp {hex t}"
  | .mkdtemp t => s!"mkdtemp {hex t}"
  | .mkdir p => s!"mkdir {hex p}"
  | .rmdir p => s!"rmdir {hex p}"
  | .fork argv s => s!"fork {s} {argv.length}{String.join (argv.map fun a => " " ++ hex a)}"
  | .waitpid => "waitpid"

def resStr : Res → String
  | .ok v => s!"ok {v}"
  | .name n => s!"name {hex n}"
  | .eof => "eof"
  | .err e => s!"err {e}"

def parseCall (ts : List String) : Option (Call × List String) :=
  let n (s : String) : Option Nat := s.toNat?
  match ts with
  | "opendir" :: p :: r => (unhex p).map fun p => (.opendir p, r)
  | "readdir" :: d :: r => (n d).map fun d => (.readdir d, r)
  | "rewinddir" :: d :: r => (n d).map fun d => (.rewinddir d, r)
  | "closedir" :: d :: r => (n d).map fun d => (.closedir d, r)
  | "openrd" :: d :: nm :: r => do let d ← n d; let nm ← unhex nm; pure (.openRd d nm, r)
  | "openexcl" :: d :: nm :: r => do let d ← n d; let nm ← unhex nm; pure (.openExcl d nm, r)
  | "openpath" :: p :: r => (unhex p).map fun p => (.openPath p, r)
  | "fopen" :: p :: r => (unhex p).map fun p => (.fopen p, r)
  | "read" :: d :: r => (n d).map fun d => (.read d, r)
  | "write" :: d :: _ :: r => (n d).map fun d => (.write d [], r)
  | "fsync" :: d :: r => (n d).map fun d => (.fsync d, r)
  | "close" :: d :: r => (n d).map fun d => (.close d, r)
  | "dupfd" :: d :: r => (n d).map fun d => (.dupfd d, r)
  | "fdopen" :: d :: r => (n d).map fun d => (.fdopen d, r)
  | "fprintf" :: d :: _ :: r => (n d).map fun d => (.fprintf d [], r)
  | "fflush" :: d :: r => (n d).map fun d => (.fflush d, r)
  | "fclose" :: d :: r => (n d).map fun d => (.fclose d, r)
  | "renameat" :: a :: b :: c :: d :: r => do
    let a ← n a; let b ← unhex b; let c ← n c; let d ← unhex d; pure (.renameat a b c d, r)
  | "unlinkat" :: d :: nm :: r => do let d ← n d; let nm ← unhex nm; pure (.unlinkat d nm, r)
  | "unlink" :: p :: r => (unhex p).map fun p => (.unlink p, r)
  | "fstatat" :: d :: nm :: r => do let d ← n d; let nm ← unhex nm; pure (.fstatat d nm, r)
  | "stat" :: p :: r => (unhex p).map fun p => (.stat p, r)
  | "utimensat" :: d :: nm :: a :: m :: r => do let d ← n d; let nm ← unhex nm; let a ← parseTime a; let m ← parseTime m; pure (.utimensat d nm a m, r)
  | "lseek" :: d :: r => (n d).map fun d => (.lseek d, r)
  | "mkostemp" :: p :: r => (unhex p).map fun p => (.mkostemp p, r)
  | "mkdtemp" :: p :: r => (unhex p).map fun p => (.mkdtemp p, r)
  | "mkdir" :: p :: r => (unhex p).map fun p => (.mkdir p, r)
  | "rmdir" :: p :: r => (unhex p).map fun p => (.rmdir p, r)
  | "fork" :: s :: k :: r => do
    -- `fork <stdin handle> <argc> <arg>*`: the handle the child dup2s onto 0 and the vector it hands to execvp
    let s ← n s; let k ← n k
    if r.length < k then none
    else
      let av ← (r.take k).mapM unhex
      pure (.fork av s, r.drop k)
  | "waitpid" :: r => some (.waitpid, r)
  | _ => none

def parseRes (ts : List String) : Option Res :=
  match ts with
  | ["ok", v] => v.toNat?.map .ok
  | ["name", nm] => (unhex nm).map .name
  | ["eof"] => some .eof
  | ["err", e] => some (.err e)
  | _ => none

def asText (b : Bytes) : String := String.ofList (b.map fun c => Char.ofNat c.toNat)

def lines (b : Bytes) : List String := ((asText b).splitOn "\n").filter (· ≠ "")
def words (s : String) : List String := (s.splitOn " ").filter (· ≠ "")

def parseTrace (b : Bytes) : Option (List (Call × Res)) :=
  (lines b).mapM fun l =>
    match parseCall (words l) with
    | some (c, "=" :: rest) => (parseRes rest).map fun r => (c, r)
    | _ => none

end Driver
