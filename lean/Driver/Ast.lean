import Mdsort.Model.Eval

/-! Wire format of rule trees for the driver (prefix notation, tokens separated by
blanks; strings hex, `-` = empty).  Glue only. -/

open Mdsort Mdsort.Model

namespace Driver

def hexVal' (c : Char) : Option UInt8 :=
  if '0' ≤ c ∧ c ≤ '9' then some (c.toNat - 48).toUInt8
  else if 'a' ≤ c ∧ c ≤ 'f' then some (c.toNat - 87).toUInt8
  else none

def unhexL : List Char → Option Bytes
  | [] => some []
  | [_] => none
  | a :: b :: r => do
    let h ← hexVal' a
    let l ← hexVal' b
    let t ← unhexL r
    pure ((h <<< 4 ||| l) :: t)

def unhex (s : String) : Option Bytes := if s == "-" then some [] else unhexL s.toList

abbrev P := StateT (List String) Option

def tok : P String := fun ts => match ts with | t :: r => some (t, r) | [] => none
def nat : P Nat := do let t ← tok; match t.toNat? with | some n => pure n | none => failure
def bytes : P Bytes := do let t ← tok; match unhex t with | some b => pure b | none => failure
def many (n : Nat) : P (List Bytes) := (List.range n).mapM fun _ => bytes

def pat : P Pat := do
  let src ← bytes
  let fl ← tok
  pure { src := src, icase := fl.contains 'i', lcase := fl.contains 'l', ucase := fl.contains 'u' }

partial def expr : P Expr := do
  let t ← tok
  let l ← nat
  match t with
  | "block" => do let e ← expr; pure (.block l e)
  | "and" => do let a ← expr; let b ← expr; pure (.and l a b)
  | "or" => do let a ← expr; let b ← expr; pure (.or l a b)
  | "neg" => do let e ← expr; pure (.neg l e)
  | "match" => do let c ← expr; let r ← expr; pure (.mtch l c r)
  | "all" => pure (.all l)
  | "attachment" => do let e ← expr; pure (.attachment l e)
  | "body" => do let p ← pat; pure (.body l p)
  | "date" => do
    let f ← tok; let c ← tok; let a ← nat
    let f' := match f with | "a" => DateField.access | "m" => .modified | "c" => .created | _ => .header
    pure (.date l f' (if c == "<" then .lt else .gt) a)
  | "header" => do let n ← nat; let ns ← many n; let p ← pat; pure (.header l ns p)
  | "new" => pure (.new l)
  | "old" => pure (.old l)
  | "stat" => do let p ← bytes; pure (.stat l p)
  | "command" => do let n ← nat; let a ← many n; pure (.command l a)
  | "move" => do let p ← bytes; pure (.move l p)
  | "flag" => do let p ← bytes; pure (.flag l p)
  | "flags" => do let p ← bytes; pure (.flags l p)
  | "discard" => pure (.discard l)
  | "break" => pure (.brk l)
  | "label" => do let n ← nat; let a ← many n; pure (.label l a)
  | "pass" => pure (.pass l)
  | "reject" => pure (.reject l)
  | "exec" => do let s ← nat; let b ← nat; let n ← nat; let a ← many n; pure (.exec l (s == 1) (b == 1) a)
  | "attblock" => do let e ← expr; pure (.attBlock l e)
  | "addheader" => do let k ← bytes; let v ← bytes; pure (.addHeader l k v)
  | _ => failure

def parseExpr (text : String) : Option Expr :=
  match expr ((text.splitOn " ").filter (· ≠ "")) with
  | some (e, []) => some e
  | _ => none

end Driver
