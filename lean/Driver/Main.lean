import Mdsort.Bytes
import Mdsort.Model.Decode
import Mdsort.Spec.Decode
import Mdsort.Spec.DecodeRFC
import Mdsort.Model.Header
import Mdsort.Model.Mime
import Mdsort.Model.MimeEntity
import Mdsort.Spec.Message
import Mdsort.Spec.Mime
import Mdsort.Proofs.Mime
import Mdsort.Model.Eval
import Mdsort.Spec.HeaderCond
import Driver.Ast
import Driver.Wire
import Driver.Conf
import Mdsort.Model.Conf
import Mdsort.Model.Main
import Mdsort.Model.MainText
import Mdsort.Spec.Macro
import Mdsort.Model.Plan
import Mdsort.Model.Inspect
import Mdsort.Model.Lex
import Mdsort.Spec.Rules
import Mdsort.Proofs.EvalAtt
import Mdsort.Spec.Interp
import Mdsort.Proofs.Interp
import Mdsort.Spec.Flags
import Mdsort.Spec.Time
import Mdsort.Proofs.FlagsTime
import Mdsort.Spec.Dest
import Mdsort.Model.Dest
import Mdsort.Model.L0.Mime
import Mdsort.Model.L0.Util
import Mdsort.Model.L0.Buffer
import Mdsort.Model.Start
import Driver.Sched
import Mdsort.Model.Opts
import Mdsort.Model.Strptime
import Mdsort.Spec.Rfc5322Date

/-!
Line-protocol driver: one request per line `<side> <op> <hexarg>*`, one response
line.  `side` is `M` (model, the transcription of the C code) or `S`
(specification).  Byte strings are hex; the empty string is `-`.
-/

open Mdsort

@[extern "mdsort_regex"]
opaque regexFFI (pat : @& ByteArray) (subj : @& ByteArray) (icase : UInt32) : Array UInt32

@[extern "mdsort_strptime"]
opaque strptimeFFI (fmt : @& ByteArray) (str : @& ByteArray) : Array UInt32

@[extern "mdsort_zone"]
opaque zoneFFI (name : @& ByteArray) (now : UInt64) : UInt64

@[extern "mdsort_timegm"]
opaque timegmFFI (y mo d h mi s : UInt32) : UInt64

/-- `(setlocale(LC_CTYPE, "") succeeded) <<< 8 ||| MB_CUR_MAX` of the driver process (the locale is selected from the
environment before `main` runs, see ffi.c). -/
@[extern "mdsort_locale_info"]
opaque localeInfoFFI (unused : UInt32) : UInt32

/-- `mbtowc` on the bytes from offset `off`: upper half 0 = -1, 1 = NUL, n + 1 = a character of n bytes; lower half the character. -/
@[extern "mdsort_mbtowc"]
opaque mbtowcFFI (str : @& ByteArray) (off : UInt64) : UInt64

/-- `wcwidth + 1`. -/
@[extern "mdsort_wcwidth"]
opaque wcwidthFFI (wc : UInt32) : UInt32
@[extern "mdsort_timefmt"]
opaque timefmtFFI (fmt : @& ByteArray) (tz : @& ByteArray) (t : UInt64) : Array UInt32

def hexDigit (n : UInt8) : Char :=
  if n < 10 then Char.ofNat (48 + n.toNat) else Char.ofNat (87 + n.toNat)

def toHex (b : Bytes) : String :=
  if b.isEmpty then "-" else
  String.ofList (b.flatMap fun (c : UInt8) => [hexDigit (c >>> 4), hexDigit (c &&& 15)])

def hexVal (c : Char) : Option UInt8 :=
  if '0' ≤ c ∧ c ≤ '9' then some (c.toNat - 48).toUInt8
  else if 'a' ≤ c ∧ c ≤ 'f' then some (c.toNat - 87).toUInt8
  else none

def fromHexList : List Char → Option Bytes
  | [] => some []
  | [_] => none
  | a :: b :: r => do
    let h ← hexVal a
    let l ← hexVal b
    let t ← fromHexList r
    pure ((h <<< 4 ||| l) :: t)

def fromHex (s : String) : Option Bytes :=
  if s == "-" then some [] else fromHexList s.toList

def optHex : Option Bytes → String
  | none => "NONE"
  | some b => "OK " ++ toHex b

def dumpTable (m : Model.Msg) : String :=
  String.join (m.headers.map fun h => s!"{h.id}:{toHex h.key}:{toHex h.val},") ++ "|" ++ toHex m.body

def dumpValues : Option (List Bytes) → String
  | none => "NONE"
  | some vs => "V" ++ String.join (vs.map fun v => "," ++ toHex v)

def dumpBody : Option Bytes → String
  | none => "NONE"
  | some b => "B" ++ toHex b

def applySets (m : Model.Msg) : List Bytes → Model.Msg
  | k :: v :: rest => applySets (Model.setHeader m k v) rest
  | _ => m

def ctypeTable : String :=
  String.join ((List.range 256).map fun n =>
    let c := UInt8.ofNat n
    let b (x : Bool) := if x then "1" else "0"
    b (isspace c) ++ b (isdigit c) ++ b (isupper c) ++ b (islower c) ++
      (toHex [tolower c]) ++ (toHex [toupper c]))

/-- Canonical table dump from the specification's field list: ids by position, stable order by name. -/
def specTable (fs : List (Bytes × Bytes)) (body : Bytes) : String :=
  let hs : List Model.Hdr := (fs.zipIdx).map fun (f, i) => { id := i + 1, key := f.1, val := f.2 }
  dumpTable { headers := Model.sortByKey hs, body := body }

def pairs : List Bytes → List (Bytes × Bytes)
  | k :: v :: r => (k, v) :: pairs r
  | _ => []

def handleSpec (op : String) (args : List Bytes) : Option String :=
  match op, args with
  | "hparse", [m] =>
    match Spec.read m with
    | none => some "NOTWF"
    | some (fs, b) => some (specTable fs b)
  | "hget", [name, m] =>
    match Spec.read m with
    | none => some "NOTWF"
    | some (fs, _) =>
      let vs := Spec.headerValues fs name
      some (if vs.isEmpty then "NONE" else dumpValues (some vs))
  | "hsetcheck", out :: m :: _probe :: kvs =>
    match Spec.read m with
    | none => some "NOTWF"
    | some _ => some (if Spec.rewriteOk m (pairs kvs) out then "OK" else "BAD")
  | "parts", [m] =>
    let e := Model.parseMessage m
    if !Proofs.BoundaryOk (Gen.mimeDepthLimit + 1) e then some "NOTWF" else
    match Spec.parts Model.entity (Gen.mimeDepthLimit + 1) e with
    | none => some "NONE"
    | some ps => some (s!"P{ps.length}" ++ String.join (ps.map fun p => " " ++ dumpTable p ++ "|" ++ dumpBody (Spec.decodedBody Model.entity Gen.mimeDepthLimit p)))
  | "partsrfc", [m] =>
    -- the parts a reader of RFC 2045 sees (boundary parameter in any position, token or quoted-string): judges finding F30
    let e := Model.parseMessage m
    match Spec.partsRFC Model.entity (Gen.mimeDepthLimit + 1) e with
    | none => some "NONE"
    | some ps => some (s!"P{ps.length}" ++ String.join (ps.map fun p => " " ++ dumpTable p ++ "|" ++ dumpBody (Spec.decodedBody Model.entity Gen.mimeDepthLimit p)))
  | "bparamrfc", [ct] =>
    some (match Spec.boundaryParamRFC ct, Spec.boundaryParam ct with
      | a, b => (match a with | .none => "NONE" | .bad => "BAD" | .some x => "B" ++ toHex x) ++ " " ++
                (match b with | .none => "NONE" | .bad => "BAD" | .some x => "B" ++ toHex x))
  | "body", [m] =>
    let e := Model.parseMessage m
    if !Proofs.BoundaryOk (Gen.mimeDepthLimit + 1) e then some "NOTWF" else
    some (dumpBody (Spec.decodedBody Model.entity Gen.mimeDepthLimit e))
  | "unfold", [v] => some (toHex (Spec.unfold v))
  | _, _ => none

/-! ### evaluator ops -/

def ba (b : Bytes) : ByteArray := ByteArray.mk b.toArray

/-- The platform regex library through the FFI (REG_EXTENDED | REG_NEWLINE [| REG_ICASE]). -/
def rxFFI (p : Model.Pat) (subject : Bytes) : Model.RxRes :=
  let r := regexFFI (ba p.src) (ba subject) (if p.icase then 1 else 0)
  let r0 : Option UInt32 := r[0]?
  match r0 with
  | some 0 =>
    let n := ((r[1]?).getD (0 : UInt32)).toNat
    .ok ((List.range n).map fun i =>
      let so : UInt32 := (r[2 + 2 * i]?).getD 0
      let eo : UInt32 := (r[3 + 2 * i]?).getD 0
      if so == 0xffffffff then none else some (so.toNat, eo.toNat))
  | some 1 => .nomatch
  | _ => .error

/-- `regcomp` succeeds (status 3 of the FFI call is a compilation error). -/
def rxOkFFI (p : Model.Pat) : Bool :=
  let r := regexFFI (ba p.src) (ba []) (if p.icase then 1 else 0)
  let r0 : Option UInt32 := r[0]?
  r0 != some 3

/-- The platform's `mbtowc(&wc, s, MB_CUR_MAX)` under the driver's locale, in the form `Model.strnwidth` expects. -/
def mbtowcEnv (s : Bytes) : Option (Nat × Nat) :=
  -- a character has at most MB_CUR_MAX (<= 16) bytes: the rest of the value is not needed
  let r := mbtowcFFI (ba (s.take 16)) 0
  let n := (r >>> 32).toNat
  if n == 0 then none else some (n - 1, (r &&& 0xffffffff).toNat)

def wcwidthEnv (wc : Nat) : Int := ((wcwidthFFI wc.toUInt32).toNat : Int) - 1

/-- `strnwidth(str, len)` of expr.c: the model's loop over the platform's `mbtowc`/`wcwidth` (locale of the environment). -/
def widthEnv : Bytes → Nat → Nat := Model.strnwidth mbtowcEnv wcwidthEnv

def asciiStr (b : Bytes) : String := String.ofList (b.map fun c => Char.ofNat c.toNat)

/-- `inspect <home> <confpath> <key> <val> <lno ascii> <subs ascii: beg/end+beg/end..., x/x for an unset group>`:
what `expr_inspect` prints for one header entry with these sub-matches. -/
def handleInspect (args : List Bytes) : String :=
  match args with
  | [home, confpath, key, val, lno, subs] =>
    let parseSub (t : String) : Option Model.Sub :=
      match t.splitOn "/" with
      | [a, b] =>
        match a.toNat?, b.toNat? with
        | some x, some y => some { str := (val.drop x).take (y - x), off := some (x, y) }
        | _, _ => if a == "x" then some { str := [], off := none } else none
      | _ => none
    match ((asciiStr subs).splitOn "+").mapM parseSub, (asciiStr lno).toNat? with
    | some ss, some l =>
      let mh : Model.Match := { ty := .header, lno := l, part := 0, subs := ss, key := some key, val := some val }
      toHex (Model.exprInspect widthEnv home confpath mh)
    | _, _ => "BADOP"
  | _ => "BADOP"

/-- `hcond <names, newline separated> <pattern> <flags ascii: i or -> <message>`: the documented header condition
(`Spec.headerCands`, `Spec.firstNonNomatch`) with the platform regex library under the driver's locale.
NOTWF when the message is outside `Spec.read`; else `NOMATCH`, `ERROR`, or `MATCH <name> <decoded value> <so/eo+...>`. -/
def handleSpecHcond (args : List Bytes) : String :=
  match args with
  | [names, pat, flags, m] =>
    match Spec.read m with
    | none => "NOTWF"
    | some (fs, _) =>
      let p : Model.Pat := { src := pat, icase := flags.contains 105 }
      if !rxOkFFI p then "BADPATTERN" else
      match Spec.firstNonNomatch (rxFFI p) (Spec.headerCands fs (names.splitOn 10)) with
      | none => "NOMATCH"
      | some (k, v) =>
        match rxFFI p v with
        | .ok groups => s!"MATCH {toHex k} {toHex v} " ++ String.intercalate "+" (groups.map fun g =>
            match g with | none => "x/x" | some (a, b) => s!"{a}/{b}")
        | _ => "ERROR"
  | _ => "BADOP"

/-- `MDSORT_STRPTIME=model` in the driver's environment: the evaluator's `strptime` oracle is the executable model
`Model.timeparseC` (Model/Strptime.lean) instead of the platform's `strptime` through the FFI.  The C15 check runs its date
cases both ways. -/
initialize strptimeByModel : Bool ← do
  return (← IO.getEnv "MDSORT_STRPTIME") == some "model"

/-- The platform's `strptime` over the layouts of the regenerated table (a fresh `struct tm` per call). -/
def strptimeFFIEnv (s : Bytes) : Option (Model.Tm × Bytes) :=
  Gen.dateFormats.findSome? fun f =>
    let r := strptimeFFI f.toUTF8 (ba s)
    if r.size == 7 then
      let u (i : Nat) : UInt32 := (r[i]?).getD 0
      let g (i : Nat) : Int := ((u i).toNat : Int)
      -- tm_year below 1900 wraps in the uint32 encoding
      let year : Int := if u 1 > 0x7fffffff then g 1 - 4294967296 else g 1
      some ({ year := year, mon := g 2, mday := g 3, hour := g 4, min := g 5, sec := g 6 }, s.drop (u 0).toNat)
    else none

def strptimeEnv (s : Bytes) : Option (Model.Tm × Bytes) :=
  if strptimeByModel then Model.timeparseC s else strptimeFFIEnv s

def tmS : Option (Model.Tm × Bytes) → Bytes → String
  | none, _ => "NONE"
  | some (tm, rest), s => s!"OK {s.length - rest.length} {tm.year} {tm.mon} {tm.mday} {tm.hour} {tm.min} {tm.sec}"

def zoneEnv (now : Int) (name : Bytes) : Option Int :=
  some ((zoneFFI (ba name) now.toNat.toUInt64).toNat - 2147483648 : Int)

/-- `time_format` (time.c): `localtime` + `strftime` with the first date format, in the zone `tz` (empty: TZ unset). -/
def timeFormatEnv (tz : Bytes) (t : Int) : Option Bytes :=
  match Gen.dateFormats.head? with
  | none => none
  | some f =>
    let r := timefmtFFI f.toUTF8 (ba tz) (t + 4611686018427387904).toNat.toUInt64
    if (r[0]?).getD 0 == 1 then some ((r.toList.drop 1).map fun c => c.toNat.toUInt8) else none

/-- The value of `exec(argv, -1)` for the programs the unit harness knows: `true`, `false`, and the injectable outcomes
`vstatus:...` of harness/unit/h_expr.c, mapped by the transcription of `exec()`'s status handling (`Model.execValue`:
/dev/null opened, the result of `fork`, the result of `waitpid` as a raw wait status); every other name is a program that
does not exist (the child's `execvp` fails and it exits with 127). -/
def commandOracle (argv : List Bytes) : Int :=
  let exited (code : Nat) : Int := Model.execValue true (.ok 1) (.ok (code % 256 * 256))
  let num (b : Bytes) : Nat := ((String.ofList (b.map fun c => Char.ofNat c.toNat)).toNat?).getD 0
  match argv with
  | a :: _ =>
    if a == ofString "true" then exited 0
    else if a == ofString "false" then exited 1
    else if (ofString "vstatus:exit:").isPrefixOf a then exited (num (a.drop 13))
    else if (ofString "vstatus:signal:").isPrefixOf a then Model.execValue true (.ok 1) (.ok (num (a.drop 15) % 128))
    else if a == ofString "vstatus:fork" then Model.execValue true (.err "EAGAIN") (.ok 0)
    else if a == ofString "vstatus:waitpid" then Model.execValue true (.ok 1) (.err "ECHILD")
    else exited Model.execvpFailedStatus      -- vstatus:errno:E and every unknown name: execvp fails in the child
  | [] => -1

def subDump (s : Model.Sub) : String :=
  toHex s.str ++ "/" ++ (match s.off with | none => "-/-" | some (a, b) => s!"{a}/{b}")

def optHexD : Option Bytes → String
  | none => "~"
  | some b => toHex b

def matchDump (m : Model.Match) : String :=
  String.intercalate "," [m.ty.name, toString m.lno, toString m.part, toHex m.path, toHex m.maildir, toHex m.subdir,
    String.intercalate "+" (m.subs.map subDump), String.intercalate "+" (m.argv.map toHex), optHexD m.key, optHexD m.val]

def triName : Model.Tri → String
  | .match => "MATCH" | .nomatch => "NOMATCH" | .error => "ERROR"

/-- The `stat` oracle handed over by the harness in the place of a directory argument:
`\x01T<atime> <mtime> <ctime>\x01<time_format atime>\x01<.. mtime>\x01<.. ctime>` (what `stat` said about the message file).
The model selects the field itself (`Model.eval`, the `date` case); `time_format` is served for the three instants reported. -/
def statBlob (dirs : List Bytes) : Option (Model.FileTimes × List (Int × Bytes)) :=
  match dirs.find? (fun d => d.take 2 == [1, 84]) with
  | none => none
  | some d =>
    match (d.drop 2).splitOn 1 with
    | [nums, fa, fm, fc] =>
      match ((String.ofList (nums.map fun c => Char.ofNat c.toNat)).splitOn " ").map String.toInt? with
      | [some a, some m, some c] => some ({ atime := a, mtime := m, ctime := c }, [(a, fa), (m, fm), (c, fc)])
      | _ => none
    | _ => none

def fileTimes (dirs : List Bytes) (_path : Bytes) : Option Model.FileTimes := (statBlob dirs).map (·.1)

def timeFormats (dirs : List Bytes) (t : Int) : Option Bytes :=
  (statBlob dirs).bind fun b => (b.2.find? (·.1 == t)).map (·.2)

/-- `eval <ast> <message> <path> <dryrun:0|1> <now decimal as ascii> <existing dir>*` -/
def handleEval (args : List Bytes) : String :=
  match args with
  | ast :: file :: path :: dry :: now :: dirs =>
    match Driver.parseExpr (String.ofList (ast.map fun c => Char.ofNat c.toNat)) with
    | none => "BADAST"
    | some e =>
      let nowI : Int := ((String.ofList (now.map fun c => Char.ofNat c.toNat)).toInt?).getD 0
      let msg := Model.parseMessage file
      let name := (path.reverse.takeWhile (· != 47)).reverse
      match Model.flagsParse name with
      | none => "PARSEERR"
      | some mf =>
        let env : Model.Env := {
          rx := rxFFI, command := commandOracle, isDir := fun p => dirs.contains p || (ofString "/yes").isSuffixOf p, now := nowI,
          strptime := strptimeEnv, zoneName := zoneEnv nowI, fileTime := fileTimes dirs, timeFormat := timeFormats dirs,
          dryrun := dry == ofString "1", path := path }
        let (tri, st) := Model.eval env msg e 0 msg { ml := [], flags := mf }
        let parts := (Model.getAttachments msg).getD []
        let msgs := Model.partMsg msg parts
        let ml1 := String.intercalate ";" (st.ml.map matchDump)
        let fl := optHexD (Model.flagsStr st.flags 64)
        match tri with
        | .match =>
          match Model.matchesInterpolate env st.ml msgs with
          | none => s!"MATCH {ml1} {fl} INTERR"
          | some (ml2, msgs2) =>
            -- harness layout: <tdir>/<maildir>/<subdir>/<name>, HOME = <tdir>, configuration = <tdir>/conf
            let comps := path.splitOn 47
            let tdir : Bytes := (List.intersperse [47] (comps.take (comps.length - 3))).flatten
            let dryText := if env.dryrun then " " ++ toHex (Model.matchesInspect widthEnv tdir (tdir ++ ofString "/conf") false true path ml2) else ""
            s!"MATCH {ml1} {fl} {String.intercalate ";" (ml2.map matchDump)} {dumpTable (msgs2 0)}{dryText}"
        | t => s!"{triName t} {ml1} {fl}"
  | _ => "BADOP"

partial def exprAny (p : Model.Expr → Bool) (e : Model.Expr) : Bool :=
  p e || (match e with
    | .block _ a | .neg _ a | .attachment _ a | .attBlock _ a => exprAny p a
    | .and _ a b | .or _ a b | .mtch _ a b => exprAny p a || exprAny p b
    | _ => false)

def keyStr (k : Model.MType × Nat) : String := s!"{k.1.name}:{k.2}"

/-- The action lists of all rules of a tree (every nesting level, inside attachment blocks too). -/
partial def actionLists (e : Model.Expr) : List (List Model.Expr) :=
  match e with
  | .block _ a | .attBlock _ a => actionLists a
  | .or _ a b => actionLists a ++ actionLists b
  | .mtch _ _ rhs =>
    match rhs with
    | .block _ a => actionLists a
    | r => [Spec.andChain r] ++ ((Spec.andChain r).map actionLists).flatten
  | _ => []

/-- Where `pass` / `break` stand (`Proofs.ctlPlaced` and the three named classes outside it): `PLACED`, or the
first of `MIXED` (pass and break in one list: no documented meaning), `AFTERPASS` (something other than pass
after a pass: ignored by the evaluator), `ATTAFTERBREAK` (an attachment block after a break). -/
def placementClass (e : Model.Expr) : String :=
  if Proofs.ctlPlaced e then "PLACED"
  else
    let ls := actionLists e
    if ls.any Proofs.ctlMixed then "MIXED"
    else if ls.any Proofs.actionAfterPass then "AFTERPASS"
    else if ls.any Proofs.attAfterBreak then "ATTAFTERBREAK"
    else "UNPLACED"

/-- Specification side of `eval`: documented rule semantics over the valuation the matchers
have on this message (`Spec.parseBlockW`: `pass` / `break` anywhere in an action list).  NOTWF when the tree is
outside the specification's domain (`NOTWF MIXED`: an action list with both pass and break).  The last field
is `placementClass`: only `PLACED` trees are inside the domain of `C03_eval_refines_spec_wide`. -/
def handleSpecEval (args : List Bytes) : String :=
  match args with
  | ast :: file :: path :: _dry :: now :: _ =>
    match Driver.parseExpr (String.ofList (ast.map fun c => Char.ofNat c.toNat)) with
    | none => "BADAST"
    | some e =>
      match Spec.parseBlockW e with
      | none => if placementClass e == "MIXED" then "NOTWF MIXED" else "NOTWF"
      | some rules =>
        let ctxDependent := exprAny (fun x => match x with
            | .command _ av => av.any (·.contains 92)
            | .stat _ p => p.contains 92
            | _ => false) e
          || (exprAny (fun x => match x with | .old _ => true | _ => false) e &&
              exprAny (fun x => match x with | .flags .. => true | _ => false) e)
          || exprAny (fun x => match x with | .attBlock .. => true | _ => false) e
        if ctxDependent then "NOTWF" else
        let nowI : Int := ((String.ofList (now.map fun c => Char.ofNat c.toNat)).toInt?).getD 0
        let msg := Model.parseMessage file
        let name := (path.reverse.takeWhile (· != 47)).reverse
        match Model.flagsParse name with
        | none => "NOTWF"
        | some mf =>
          let env : Model.Env := {
            rx := rxFFI, command := commandOracle, isDir := fun p => (ofString "/yes").isSuffixOf p, now := nowI,
            strptime := strptimeEnv, zoneName := zoneEnv nowI, fileTime := fun _ => none,
            dryrun := false, path := path }
          let v (a : Model.Expr) : Model.Tri := (Model.eval env msg a 0 msg { ml := [], flags := mf }).1
          let aerr (a : Model.Expr) : Bool := match a with
            | .flags _ fl => fl.any (fun c => !isalpha c)
            | .move _ p => p.length ≥ Model.PATH_MAX
            | _ => false
          let o := Spec.evalBlock v aerr rules
          let (np, lp) := Spec.planOf (o.actions.filterMap Spec.actKey)
          s!"{triName o.res} {if o.crosses then "CROSSES" else "LOCAL"} [{String.intercalate "," (np.map keyStr)}] {match lp with | none => "-" | some k => keyStr k} {placementClass e}"
  | _ => "BADOP"

/-- Specification side of `eval` WITH attachment conditions and attachment blocks: the documented rule
semantics `Spec.evalBlockA` (Spec/RulesAtt.lean) in exactly the instance the theorems `C03_eval_refines_spec_att`
and `C04_eval_error_propagates` are about (`Proofs.partCtx`: the parts `message_get_attachments` returns and
every matcher evaluated on its own; `Proofs.actionErr`).  Answer:
`<MATCH|NOMATCH|ERROR> <CROSSES|LOCAL> <LEAKS|TIGHT> <DOM|NODOM> [type:line:part,...]` - the result, the two
recorded deviation classes (F11, F24), whether the tree is in `Proofs.InDomainAW` (`InDomainA` and every action list
`placedOK`: `pass` / `break` may stand anywhere except in the three named classes), and on a match the actions in
order with the index of the part each was collected on.  NOTWF: not a tree the grammar builds, or an action list with
both pass and break. -/
def handleSpecEvalAtt (args : List Bytes) : String :=
  match args with
  | ast :: file :: path :: _dry :: now :: _ =>
    match Driver.parseExpr (String.ofList (ast.map fun c => Char.ofNat c.toNat)) with
    | none => "BADAST"
    | some e =>
      match Spec.parseBlockAW e with
      | none => "NOTWF"
      | some rules =>
        let nowI : Int := ((String.ofList (now.map fun c => Char.ofNat c.toNat)).toInt?).getD 0
        let msg := Model.parseMessage file
        let name := (path.reverse.takeWhile (· != 47)).reverse
        match Model.flagsParse name with
        | none => "NOTWF"
        | some mf =>
          let env : Model.Env := {
            rx := rxFFI, command := commandOracle, isDir := fun p => (ofString "/yes").isSuffixOf p, now := nowI,
            strptime := strptimeEnv, zoneName := zoneEnv nowI, fileTime := fun _ => none,
            dryrun := false, path := path }
          let o := Spec.evalBlockA (Proofs.partCtx env msg mf) Proofs.actionErr msg rules
          let keys := o.actions.filterMap Spec.actKeyP
          let ks := keys.map fun k => s!"{k.1.name}:{k.2.1}:{k.2.2}"
          s!"{triName o.res} {if o.crosses then "CROSSES" else "LOCAL"} {if o.leaks then "LEAKS" else "TIGHT"} {if Proofs.InDomainAW env e then "DOM" else "NODOM"} [{String.intercalate "," ks}]"
  | _ => "BADOP"

/-- `interp <template> <path or ~ for no macro table> (<group>* 7c)*`: model and specification side by side. -/
def splitPats (as : List Bytes) : List (List Bytes) :=
  let rec go (as : List Bytes) (cur : List Bytes) (acc : List (List Bytes)) : List (List Bytes) :=
    match as with
    | [] => if cur.isEmpty then acc else acc ++ [cur]
    | a :: r => if a == [124] then go r [] (acc ++ [cur]) else go r (cur ++ [a]) acc
  go as [] []

def optOptHex : Option (Option Bytes) → String
  | none => "UNDEFINED"
  | some none => "ERROR"
  | some (some b) => "OK " ++ toHex b

def handleInterp (side : String) (args : List Bytes) : String :=
  match args with
  | t :: path :: caps =>
    let pats := splitPats caps
    let macros : Option (List (Bytes × Bytes)) := if path == [126] then none else some [(ofString "path", path)]
    let before : Model.MatchList := [{ ty := .mtch, lno := 1, part := 0 }] ++
      pats.map fun gs => ({ ty := .header, lno := 1, part := 0, subs := gs.map fun g => { str := g, off := none } } : Model.Match)
    if side == "M" then optOptHex (some (Model.interpolate before macros t))
    else optOptHex (Spec.interp (Proofs.ruleCaps before) macros t)
  | _ => "BADOP"

def asNat (b : Bytes) : Nat := ((String.ofList (b.map fun c => Char.ofNat c.toNat)).toNat?).getD 0
def asInt (b : Bytes) : Int := ((String.ofList (b.map fun c => Char.ofNat c.toNat)).toInt?).getD 0

def optIntS : Option Int → String
  | none => "NONE"
  | some z => s!"OK {z}"

def subdirOf (b : Bytes) : Model.Subdir := if b == [110] then .new else .cur

def pathAction (b : Bytes) : Option Spec.PathAction :=
  match b with
  | 109 :: r => some (.move r)
  | 102 :: r => some (.flag r)
  | 70 :: r => some (.flags r)
  | _ => none

/-- Small pure functions: time, flags, paths. -/
def handleSmall (side op : String) (args : List Bytes) : Option String :=
  match side, op, args with
  | "M", "tzoff", [s] => some (optIntS (Model.tzoff s))
  | "M", "tparse", date :: now :: _ =>
    some (optIntS (Model.timeParse strptimeFFIEnv (zoneEnv (asInt now)) date))
  -- the same with the executable model of strptime / timeparse (Model/Strptime.lean) in the place of the platform's
  | "M", "tparsec", date :: now :: _ =>
    some (optIntS (Model.timeParse Model.timeparseC (zoneEnv (asInt now)) date))
  -- strp <format> <string>: one `strptime` call on a zeroed `struct tm`; model / platform (FFI)
  | "M", "strp", [fmt, s] => some (tmS (Model.strptimeC fmt s) s)
  | "S", "strp", [fmt, s] =>
    let r := strptimeFFI (ba fmt) (ba s)
    if r.size == 7 then
      let u (i : Nat) : UInt32 := (r[i]?).getD 0
      let year : Int := if u 1 > 0x7fffffff then ((u 1).toNat : Int) - 4294967296 else (u 1).toNat
      some s!"OK {u 0} {year} {u 2} {u 3} {u 4} {u 5} {u 6}"
    else some "NONE"
  -- timeparse <string>: the loop over `formats[]` writing into one `struct tm`; model / platform (FFI, fresh `struct tm` per layout)
  | "M", "timeparse", [s] => some (tmS (Model.timeparseC s) s)
  | "S", "timeparse", [s] => some (tmS (strptimeFFIEnv s) s)
  -- rfcdate <dow|-> <day> <month> <year> <hour> <minute> <second|-> <+|-> <zone hh> <zone mm>
  --         <fwsDow> <dowCase> <fwsDay> <one digit 0|1> <fwsMonth> <monCase> <fwsYear> <fwsTime> <fwsZone> <trailer>
  -- the RFC 5322 printer and instant (Spec/Rfc5322Date.lean): `<W|N> <text> <instant>`, W = `Spec.WellFormed`
  | "S", "rfcdate", [dow, day, mon, year, hour, mi, sec, sign, zh, zm, w0, dc, w1, one, w2, mc, w3, w4, w5, tr] =>
    let optN (b : Bytes) : Option Nat := if b.isEmpty then none else some (asNat b)
    let mask (b : Bytes) : List Bool := b.map (· == 49)
    let dt : Spec.DateTime := { dayOfWeek := optN dow, day := asNat day, month := asNat mon, year := asNat year, hour := asNat hour,
                                minute := asNat mi, second := optN sec, zonePlus := sign == [43], zoneHour := asNat zh, zoneMinute := asNat zm }
    let l : Spec.DateLayout := { fwsDow := w0, dowCase := mask dc, fwsDay := w1, dayOneDigit := one == [49], fwsMonth := w2, monCase := mask mc,
                                 fwsYear := w3, fwsTime := w4, fwsZone := w5, trailer := tr }
    some s!"{if decide (Spec.WellFormed dt l) then "W" else "N"} {toHex (Spec.renderDate dt l)} {Spec.instant dt}"
  | "S", "tparse", date :: now :: _ | "S", "tparsec", date :: now :: _ =>
    -- specification: platform strptime + platform timegm, minus the zone
    match strptimeFFIEnv date with
    | none => some "NONE"
    | some (tm, rest) =>
      let t : Int := ((timegmFFI tm.year.toNat.toUInt32 tm.mon.toNat.toUInt32 tm.mday.toNat.toUInt32
                        tm.hour.toNat.toUInt32 tm.min.toNat.toUInt32 tm.sec.toNat.toUInt32).toNat : Int) - 1099511627776
      -- tparsec: -1 is the error value of timegm(3) (the civil time 1969-12-31 23:59:59; hypothesis `hne` / `Covered` of the theorems)
      if op == "tparsec" && t == -1 then some "NONE" else
      let z := rest.drop (nspaces rest)
      match Model.tzoff z with
      | some off => some (optIntS (some (t - off)))
      | none => if z.isEmpty then some "NONE" else some (optIntS ((zoneEnv (asInt now) z).map fun off => t - off))
  | "M", "flagsp", [name] => some (match Model.flagsParse name with | none => "NONE" | some mf => s!"OK {mf.upper} {mf.lower}")
  | "S", "flagsp", [name] => some (match (Spec.nameFlags name).map Proofs.ofLetters with | none => "NONE" | some mf => s!"OK {mf.upper} {mf.lower}")
  | "M", "flagss", [u, l, siz] => some (optHex (Model.flagsStr ⟨asNat u, asNat l⟩ (min (asNat siz) 256)))
  | "S", "flagss", [u, l, siz] =>
    if asNat siz < 64 then none else some (optHex (some (Spec.flagSuffix (Proofs.lettersOf ⟨asNat u, asNat l⟩))))
  | "M", "msgflags", [a, b, u, l] => some (optHex (Model.msgflags (subdirOf a) (subdirOf b) ⟨asNat u, asNat l⟩))
  | "S", "msgflags", [a, b, u, l] =>
    some (optHex (some (Spec.flagSuffix (Spec.adjustSeen (a == [110]) (b == [110]) (Proofs.lettersOf ⟨asNat u, asNat l⟩)))))
  -- the limit-parametrised setters of Model/Limits.lean at the buffer size of the request (C18: `pathsliceL path (.fin n) = pathslice path n`)
  | "M", "pslice", [path, siz, beg, e] => some (optHex (Model.pathsliceL path (.fin (asNat siz)) (asInt beg) (asInt e)))
  | "M", "pjoin", [siz, d, f] => some (optHex (Model.pathjoinL (.fin (asNat siz)) d f))
  -- dest <root> <sub> <name> <action>*: an action is `m<maildir>`, `f<subdir>` or `F<letters>`
  | "S", "dest", root :: sub :: _ :: acts =>
    (acts.mapM pathAction).map fun as => s!"{if Spec.destOK as then 1 else 0} {toHex (Spec.destPath (root, sub) as)}"
  | "M", "dest", root :: sub :: name :: acts =>
    (acts.mapM pathAction).map fun as =>
      let env : Model.Env := { rx := fun _ _ => .nomatch, command := fun _ => -1, isDir := fun _ => false, now := 0,
                               strptime := fun _ => none, zoneName := fun _ => none, fileTime := fun _ => none, dryrun := false,
                               path := root ++ [47] ++ sub ++ [47] ++ name }
      optHex (Model.finalPlace env [] as)
  | _, _, _ => none

/-! ### world-level conformance -/

def fsDump (w : Model.World) : String :=
  String.intercalate ";" (w.dirs.map fun (p, es) =>
    Driver.hex p ++ "=" ++ String.intercalate "," ((es.mergeSort (fun a b => decide (a.1 ≤ b.1))).map fun (n, fid) =>
      match w.file fid with
      | some f => Driver.hex n ++ ":" ++ Driver.hex f.data ++ ":" ++ Driver.hex f.durable ++ ":" ++ toString (w.mtime fid)
      | none => Driver.hex n ++ ":?:?:0"))

/-- conform <env> <blocks> <files> <devs> <stdin> <trace>  (each argument a hex blob of text) -/
def worldBindings (w : Model.World) : List Bytes :=
  w.dirs.flatMap fun (_, es) => es.filterMap fun (_, fid) => (w.file fid).map (·.data)

def worldDurables (w : Model.World) : List Bytes :=
  w.dirs.flatMap fun (_, es) => es.filterMap fun (_, fid) => (w.file fid).map (·.durable)

/-- Model-level sanity scan: every single fault (and a sample of double faults) at every call index of the
fault-free run; after every call some entry must hold a complete version of every initial message. -/
def planScan (prog : Model.Prog (Nat × Model.MainSt)) (w0 : Model.World) (msgs : List Bytes) (discards : Bool) : String :=
  let (_, wf, hist0) := Model.runPlan Model.Plan.none prog w0 0 []
  let ncalls := hist0.length
  let finals := worldBindings wf
  let okWorld (w : Model.World) : Bool :=
    discards || msgs.all fun m => (worldBindings w).any fun d => d == m || (finals.contains d && d != []) && d.length ≥ m.length
  let okDurable (w : Model.World) : Bool :=
    discards || msgs.all fun m => (worldDurables w).any fun d => d == m || (finals.contains d && d != []) && d.length ≥ m.length
  let faults : List Model.Fault := [.fail "EIO", .fail "EEXIST", .fail "EXDEV", .fail "ENOENT", .short 1]
  let plans : List (Nat × Model.Fault) := (List.range ncalls).flatMap fun i => faults.map fun f => (i, f)
  let bad := plans.filterMap fun (i, f) =>
    let plan : Model.Plan := fun k => if k == i then some f else none
    let (_, _, hist) := Model.runPlan plan prog w0 0 []
    match hist.findIdx? (fun w => !(okWorld w && okDurable w)) with
    | some j => some s!"{i}:{repr f}@{j}"
    | none => none
  let doubles : List (Nat × Nat) := (List.range ncalls).flatMap fun i => [(i, i + 1), (i, i + 3), (i, i + 7)]
  let bad2 := doubles.filterMap fun (i, j) =>
    let plan : Model.Plan := fun k => if k == i || k == j then some (.fail "EIO") else none
    let (_, _, hist) := Model.runPlan plan prog w0 0 []
    match hist.findIdx? (fun w => !(okWorld w && okDurable w)) with
    | some q => some s!"{i}+{j}@{q}"
    | none => none
  s!"SCAN calls={ncalls} plans={plans.length + doubles.length} bad={(bad ++ bad2).length} {String.intercalate " " ((bad ++ bad2).take 5)}"

/-- The common part of `conform` and `conformtext`: `mk env orc files` is the program (`none`: the
configuration argument could not be read) together with "some rule discards" (for `SCAN`). -/
def conformWith (envB filesB devsB input traceB : Bytes)
    (mk : Model.PEnv → Bool → Model.EvalOracles → Model.Files → Option (Model.Prog (Nat × Model.MainSt) × Bool)) : String :=
    let ew := Driver.words (Driver.asText envB)
    -- optional 12th word: the TZ the run had (hex; `-` = unset), for `time_format`
    let tzW : Option Bytes := (ew[11]?).bind Driver.unhex
    match ew.take 11 with
    | [now, pid, host, random, tmpdir, home, confpath, dry, syn, sin, confok] =>
      match Driver.unhex host, Driver.unhex tmpdir, Driver.unhex home, Driver.unhex confpath with
      | some host, some tmpdir, some home, some confpath =>
        let env : Model.PEnv := { now := (now.toInt?).getD 0, pid := (pid.toNat?).getD 0, host := host, random := (random.toNat?).getD 0,
                                  tmpdir := tmpdir, home := home, confpath := confpath, dryrun := dry == "1", syntaxOnly := syn == "1",
                                  stdinMode := sin == "1" }
        let files : Option Model.Files := (Driver.lines filesB).mapM fun l =>
          match Driver.words l with
          | [d, n, c] => do let d ← Driver.unhex d; let n ← Driver.unhex n; let c ← Driver.unhex c; pure (d, n, c)
          | [d, n, c, _] => do let d ← Driver.unhex d; let n ← Driver.unhex n; let c ← Driver.unhex c; pure (d, n, c)
          | _ => none
        -- optional 4th field: modification time in ns
        let mtimes : List Nat := (Driver.lines filesB).filterMap fun l =>
          match Driver.words l with
          | [_, n, _] => if n == "-" then none else some 0
          | [_, n, _, t] => if n == "-" then none else some ((t.toNat?).getD 0)
          | _ => none
        let devs : List (Bytes × Nat) := (Driver.lines devsB).filterMap fun l =>
          match Driver.words l with
          | [p, d] => (Driver.unhex p).map fun p => (p, (d.toNat?).getD 0)
          | _ => none
        match files, (if traceB == ofString "SCAN" then some [] else Driver.parseTrace traceB) with
        | some files, some trace =>
          -- initial abstract file system: every directory named by the files, every file durable
          let dirNames := (files.map (·.1)).eraseDups
          let files := files.filter fun e => !e.2.1.isEmpty
          let indexed := files.zipIdx
          let w0 : Model.World := {
            dirs := dirNames.map fun d => (d, (indexed.filter fun e => e.1.1 == d).map fun e => (e.1.2.1, e.2)),
            files := indexed.map fun e => (e.2, { data := e.1.2.2, durable := e.1.2.2 }),
            mtimes := indexed.map fun e => (e.2, mtimes.getD e.2 0),
            nextFid := files.length, handles := [.other, .other, .other], devs := devs, trace := [] }
          let tzB : Bytes := tzW.getD []
          let orc : Model.EvalOracles :=
            { rx := rxFFI, strptime := strptimeEnv, zoneName := (zoneEnv env.now), timeFormat := (timeFormatEnv tzB) }
          -- the ghost allowance of the `readdir` loops: the length of the observed trace always suffices
          -- (`C04_fuel_suffices_conform`), so a `done` answer is never a walk truncated by the model's fuel
          let env : Model.PEnv := { env with extraFuel := trace.length }
          match mk env (confok == "1") orc files with
          | none => "BADSCENARIO"
          | some (prog, discards) =>
          if traceB == ofString "SCAN" then
            let inMd := files.filter fun e => (ofString "/new").isSuffixOf e.1 || (ofString "/cur").isSuffixOf e.1
            planScan prog w0 ((if env.stdinMode then [input] else []) ++ inMd.map (·.2.2)) discards
          else
          match Model.conform prog w0 trace 0 with
          | .done (status, st) w rest =>
            let tail := match rest with
              | [] => ""
              | x :: _ => s!" EXTRA {rest.length} next={Driver.callStr x.1}"
            -- a `readdir` loop of the model ran out of fuel: from there on the model's run is a truncation of mdsort's
            if st.fuelOut then s!"FUELOUT exit={status} calls={w.trace.length}{tail}" else
            s!"OK exit={status} reject={st.reject}{tail} FS {fsDump w} LOG {String.intercalate "," (st.log.map Driver.hex)}"
          | .diverge pos exp got =>
            s!"DIVERGE pos={pos} expected=[{Driver.callStr exp}] got=[{match got with | some c => Driver.callStr c | none => "end-of-trace"}]"
          | .impossible pos c r => s!"IMPOSSIBLE pos={pos} call=[{Driver.callStr c}] result=[{Driver.resStr r}]"
        | _, _ => "BADSCENARIO"
      | _, _, _, _ => "BADENV"
    | _ => "BADENV"

def anyDiscard (blocks : List Model.ConfBlock) : Bool :=
  blocks.any fun b => exprAny (fun x => match x with | .discard _ => true | _ => false) b.expr

/-- conform <env> <blocks> <files> <devs> <stdin> <trace>: the configuration as the tree the real parser built
(harness `ast`), the parser's verdict in `<env>`. -/
def handleConform (args : List Bytes) : String :=
  match args with
  | [envB, blocksB, filesB, devsB, input, traceB] =>
    conformWith envB filesB devsB input traceB fun env confok orc files =>
      let blocks : Option (List Model.ConfBlock) := (Driver.lines blocksB).mapM fun l =>
        match Driver.words l with
        | "B" :: np :: rest =>
          let k := (np.toNat?).getD 0
          match (rest.take k).mapM Driver.unhex, Driver.parseExpr (String.intercalate " " (rest.drop k)) with
          | some ps, some e => some { paths := ps, expr := e }
          | _, _ => none
        | _ => none
      blocks.map fun blocks => (Model.mainP env orc confok blocks files input, anyDiscard blocks)
  | _ => "BADOP"

/-- conformtext <env> <configuration text> <defs> <files> <devs> <stdin> <trace>: the same run from the TEXT of the
configuration file (`Model.mainText`: the parser model decides and builds the trees; the verdict word of `<env>` is
ignored).  `<defs>`: one `-D` option per line, `hex(name) hex(value)`. -/
def handleConformText (args : List Bytes) : String :=
  match args with
  | [envB, confText, defsB, filesB, devsB, input, traceB] =>
    conformWith envB filesB devsB input traceB fun env _ orc files =>
      let defs : Option (List (Bytes × Bytes)) := (Driver.lines defsB).mapM fun l =>
        match Driver.words l with
        | [n, v] => do let n ← Driver.unhex n; let v ← Driver.unhex v; pure (n, v)
        | _ => none
      defs.map fun defs =>
        let discards := match Model.parseConfig env.home defs rxOkFFI confText with
          | .ok blocks => (Model.confBlocksOf blocks).elim false anyDiscard
          | _ => false
        (Model.mainText env orc rxOkFFI defs confText files input, discards)
  | _ => "BADOP"

/-! ### several parties along one schedule (C17) -/

/-- parties <files> <devs> <parties> <schedule>  (each argument a hex blob of text).
`<files>`, `<devs>`: as for `conform`.  `<parties>`: one party per line,
`mdsort <now> <pid> <host> <random> <tmpdir> <home> <confpath> <hex of the block lines>` (a maildir-mode run of `Model.mainP`) or
`client <op>;<op>...` with `<op>` = `rename,<dir>,<name>,<dir>,<name>` | `unlink,<dir>,<name>` (`Model.clientProg`).
`<schedule>`: words `i:n` (party `i` issues its next `n` calls, fewer if it finishes) or `i:*` (until it has finished).
Answer: `OK ST <error flag per party, - = not finished> FS <dump> TR <trace of party 0>|<trace of party 1>... EV <n0>,<n1>...`
(`EV`: per party, how many successful `unlinkat` calls removed a name that was bound to ANOTHER file than the one the party had
opened under that name - read from the history, used to tell the listed finding F31 from other losses). -/
def handleParties (args : List Bytes) : String :=
  match args with
  | [filesB, devsB, partiesB, schedB] =>
    let files : Option Model.Files := (Driver.lines filesB).mapM fun l =>
      match Driver.words l with
      | [d, n, c] => do let d ← Driver.unhex d; let n ← Driver.unhex n; let c ← Driver.unhex c; pure (d, n, c)
      | [d, n, c, _] => do let d ← Driver.unhex d; let n ← Driver.unhex n; let c ← Driver.unhex c; pure (d, n, c)
      | _ => none
    let mtimes : List Nat := (Driver.lines filesB).filterMap fun l =>
      match Driver.words l with
      | [_, n, _] => if n == "-" then none else some 0
      | [_, n, _, t] => if n == "-" then none else some ((t.toNat?).getD 0)
      | _ => none
    let devs : List (Bytes × Nat) := (Driver.lines devsB).filterMap fun l =>
      match Driver.words l with
      | [p, d] => (Driver.unhex p).map fun p => (p, (d.toNat?).getD 0)
      | _ => none
    match files with
    | none => "BADSCENARIO"
    | some files0 =>
      let dirNames := (files0.map (·.1)).eraseDups
      let files := files0.filter fun e => !e.2.1.isEmpty
      let indexed := files.zipIdx
      let w0 : Model.World := {
        dirs := dirNames.map fun d => (d, (indexed.filter fun e => e.1.1 == d).map fun e => (e.1.2.1, e.2)),
        files := indexed.map fun e => (e.2, { data := e.1.2.2, durable := e.1.2.2 }),
        mtimes := indexed.map fun e => (e.2, mtimes.getD e.2 0),
        nextFid := files.length, handles := [], devs := devs, trace := [] }
      let std : List Model.Obj := [.other, .other, .other]
      let party (l : String) : Option (Model.Prog Bool × List Model.Obj × Option (Model.Files → Model.Prog Bool)) :=
        match Driver.words l with
        | ["mdsort", now, pid, host, random, tmpdir, home, confpath, blocksH] => do
          let host ← Driver.unhex host; let tmpdir ← Driver.unhex tmpdir; let home ← Driver.unhex home
          let confpath ← Driver.unhex confpath; let blocksB ← Driver.unhex blocksH
          let blocks : List Model.ConfBlock ← (Driver.lines blocksB).mapM fun bl =>
            match Driver.words bl with
            | "B" :: np :: rest =>
              let k := (np.toNat?).getD 0
              match (rest.take k).mapM Driver.unhex, Driver.parseExpr (String.intercalate " " (rest.drop k)) with
              | some ps, some e => some { paths := ps, expr := e }
              | _, _ => none
            | _ => none
          let env : Model.PEnv := { now := (now.toInt?).getD 0, pid := (pid.toNat?).getD 0, host := host, random := (random.toNat?).getD 0,
                                    tmpdir := tmpdir, home := home, confpath := confpath, dryrun := false, syntaxOnly := false,
                                    stdinMode := false }
          let orc : Model.EvalOracles := { rx := rxFFI, strptime := strptimeEnv, zoneName := zoneEnv env.now }
          let mk : Model.Files → Model.Prog Bool := fun fs => (Model.mainP env orc true blocks fs []).bind fun x => .ret (x.1 != 0)
          pure (mk files, std, some mk)
        | ["client", opsS] => do
          let raw : List (List String) := (opsS.splitOn ";").map (·.splitOn ",")
          let dirsOf (o : List String) : List String :=
            match o with
            | ["rename", d1, _, d2, _] => [d1, d2]
            | ["unlink", d, _] => [d]
            | _ => []
          let dnames := (raw.flatMap dirsOf).eraseDups
          let hOf (d : String) : Nat := 3 + (dnames.idxOf d)
          let ops : List Model.ClientOp ← raw.mapM fun o =>
            match o with
            | ["rename", d1, n1, d2, n2] => do
              let n1 ← Driver.unhex n1; let n2 ← Driver.unhex n2; pure (.rename (hOf d1) n1 (hOf d2) n2)
            | ["unlink", d, n] => do let n ← Driver.unhex n; pure (.unlink (hOf d) n)
            | _ => none
          let dobjs : List Model.Obj ← dnames.mapM fun d => (Driver.unhex d).map fun p => Model.Obj.dir p none 0
          pure (Model.clientProg ops, std ++ dobjs, none)
        | _ => none
      let sched : Option (List (Nat × Option Nat)) := (Driver.words (Driver.asText schedB)).mapM fun t =>
        match t.splitOn ":" with
        | [i, "*"] => i.toNat?.map fun i => (i, none)
        | [i, n] => do let i ← i.toNat?; let n ← n.toNat?; pure (i, some n)
        | _ => none
      match (Driver.lines partiesB).mapM party, sched with
      | some ps, some sched =>
        let s0 := Model.Shared.init w0 (ps.map fun x => (x.1, x.2.1))
        let xs0 : List Driver.Sched.PX := ps.map fun x => { inst := x.2.2, view := files, opened := [], acc := [] }
        match Driver.Sched.run s0 xs0 sched with
        | .error e => e
        | .ok (s, xs) =>
          s!"OK ST {String.intercalate "," (s.parties.map Driver.Sched.statusStr)} FS {fsDump s.fs} TR {String.intercalate "|" (s.parties.map fun p => Driver.Sched.traceStr p.trace)} EV {String.intercalate "," (xs.map fun x => toString x.stale)}"
      | _, _ => "BADSCENARIO"
  | _ => "BADOP"

def tokStr : Model.Token → String
  | .eof => "eof"
  | .neg => "neg"
  | .str s => "str " ++ toHex s
  | .pattern s i l u => s!"pattern {toHex s} {if i then 1 else 0}{if l then 1 else 0}{if u then 1 else 0}"
  | .int n => s!"int {n}"
  | .keyword k => "kw " ++ k
  | .scalar (some v) => s!"scalar {v}"
  | .scalar none => "scalar ?"
  | .macro n => "macro " ++ toHex n
  | .char c => s!"char {c.toNat}"

/-- lex <conf> <records>: one `off pflag sflag aftermacro` per line -> `token newoff errors` per record, `;`-joined -/
def handleLex (args : List Bytes) : String :=
  match args with
  | [conf, recs] =>
    String.intercalate ";" ((Driver.lines recs).map fun l =>
      match (Driver.words l).map String.toNat? with
      | [some off, some pf, some sf, some am] =>
        let r := Model.lex1 (pf == 1) (sf == 1) (am == 1) (conf.drop off)
        s!"{tokStr r.tok} {conf.length - r.rest.length} {r.errors}"
      | _ => "BADREC")
  | _ => "BADOP"

/-! ### the command line (Model/Opts.lean) -/

/-- `hex` / `~` (absent) -/
def optHexT : Option Bytes → String
  | none => "~"
  | some b => Driver.hex b

def argsAnswer (r : Except Model.ArgsErr Model.Opts) : String :=
  match r with
  | .error .usage => "USAGE"
  | .error (.macroSeparator a) => s!"MACROSEP {Driver.hex a}"
  | .error (.macroInvalid n) => s!"MACROINV {Driver.hex n}"
  | .ok o =>
    let b (x : Bool) := if x then "1" else "0"
    s!"OK d={b o.dryrun} n={b o.syntaxOnly} s={b o.stdinMode} f={optHexT o.confpath} v={o.verbosity} D" ++
      String.join (o.defs.map fun (n, v) => s!" {Driver.hex n}={Driver.hex v}")

/-- One line per value: `hex`, `-` (empty) or `~` (absent). -/
def optLine (s : String) : Option (Option Bytes) :=
  if s == "~" then some none else (Driver.unhex s).map some

/-- conformargs <permute 0|1> <argv: one hex word per line> <raw environment: HOME, pw_dir, TMPDIR, TZ, _PATH_TMP - one per line>
<env> <configuration text> <files> <devs> <stdin> <trace>: the run of `Model.mainArgs` along the observed trace.  The paths and the
mode words of `<env>` are ignored: they are computed from argv and the raw environment. -/
def handleConformArgs (args : List Bytes) : String :=
  match args with
  | [perm, argvB, rawB, envB, confText, filesB, devsB, input, traceB] =>
    let argv : Option (List Bytes) := (Driver.lines argvB).mapM Driver.unhex
    let raw : Option Model.RawEnv :=
      match (Driver.lines rawB).mapM optLine with
      | some [home, pwdir, tmpdir, tz, some pathTmp] => some { home := home, pwdir := pwdir, tmpdir := tmpdir, tz := tz, pathTmp := pathTmp }
      | _ => none
    match argv, raw with
    | some argv, some raw =>
      conformWith envB filesB devsB input traceB fun env _ orc files =>
        some (Model.mainArgs (perm == [49]) argv raw env orc rxOkFFI confText files input, false)
    | _, _ => "BADARGS"
  | _ => "BADOP"

def handleMsg (side op : String) (args : List Bytes) : Option String :=
  match side, op, args with
  | "M", "hparse", [m] => some (dumpTable (Model.parseMessage m))
  | "M", "hget", [name, m] => some (dumpValues (Model.getHeader (Model.parseMessage m) name))
  | "M", "hset", m :: probe :: kvs =>
    let msg := applySets (Model.parseMessage m) kvs
    let (out, msg') := Model.messageWrite msg
    let (out2, _) := Model.messageWrite msg'
    some (toHex out ++ " " ++ dumpValues (Model.getHeader msg' probe) ++ " " ++ toHex out2)
  | "M", "parts", [m] =>
    match Model.getAttachments (Model.parseMessage m) with
    | none => some "NONE"
    | some ps => some (s!"P{ps.length}" ++ String.join (ps.map fun p => " " ++ dumpTable p ++ "|" ++ dumpBody (Model.getBody p)))
  | "M", "body", [m] => some (dumpBody (Model.getBody (Model.parseMessage m)))
  | "M", "unfold", [v] => some (toHex (Model.unfoldHeader v))
  | "M", "ctype", [] => some ctypeTable
  | "M", "eval", as => some (handleEval as)
  | "M", "inspect", as => some (handleInspect as)
  | "M", "regex", [pat, flags, subject] =>
    -- the platform regex library under the driver's locale: `regex <pattern> <flags ascii: i or -> <subject>`
    let p : Model.Pat := { src := pat, icase := flags.contains 105 }
    some (if !rxOkFFI p then "BADPATTERN" else
      match rxFFI p subject with
      | .ok groups => "MATCH " ++ String.intercalate "+" (groups.map fun g =>
          match g with | none => "x/x" | some (a, b) => s!"{a}/{b}")
      | .nomatch => "NOMATCH"
      | .error => "ERROR")
  | "M", "locale", [x] => some (let r := localeInfoFFI x.length.toUInt32; s!"{r >>> 8} {r &&& 255}")
  | "M", "conform", as => some (handleConform as)
  | "M", "conformtext", as => some (handleConformText as)
  | "M", "parties", as => some (handleParties as)
  | "M", "conformargs", as => some (handleConformArgs as)
  | "M", "args", perm :: argv => some (argsAnswer (Model.parseArgs (perm == [49]) argv))
  | "M", "lex", as => some (handleLex as)
  | "M", "conf", as => some (Driver.Conf.handle rxOkFFI as)
  | "M", "confprint", as => some (Driver.Conf.handlePrint rxOkFFI as)
  | _, _, _ => none

/-! ### L0 (index-level) ops: `l0 <fn> <hex>*` answers `OK <what the M op prints>` or `FAULT <fault>` -/

def l0Bytes (b : L0.Buf) (i : Nat) : L0.M Bytes := L0.readCStr b i []

/-- The table of `message_parse_headers` at index level as a list-level message (for `dumpTable`). -/
def l0Msg (b : L0.Buf) (hs : Array L0.Hdr0) (body : Nat) : L0.M Model.Msg := do
  let hdrs ← hs.toList.mapM fun h => do
    let k ← l0Bytes b h.key
    let v ← l0Bytes b h.val
    pure ({ id := h.id, key := k, val := v } : Model.Hdr)
  let bd ← l0Bytes b body
  pure { headers := hdrs, body := bd }

def l0Att (a : L0.Att) : L0.M Model.Msg := l0Msg a.buf a.headers a.body

def l0Parse (m : Bytes) : L0.M L0.Att := do
  let (b, hs, body) ← L0.messageParseHeaders (L0.Buf.ofBytes m)
  pure { buf := b, headers := hs, body := body, path := [] }

def handleL0 (fn : String) (args : List Bytes) : L0.M String :=
  match fn, args with
  | "b64raw", [s] => do
    match ← L0.base64Decode (L0.Buf.ofBytes s) 0 with
    | none => pure "NONE"
    | some (d, n) => pure ("OK " ++ toHex (d.slice 0 n))
  | "b64", [s] => do
    match ← L0.base64Decode (L0.Buf.ofBytes s) 0 with
    | none => pure "NONE"
    | some (d, _) => pure ("OK " ++ toHex (← l0Bytes d 0))
  | "b64n", [s, n] => do
    match ← L0.b64pton (L0.Buf.ofBytes s) 0 (L0.Buf.malloc n.length) n.length with
    | none => pure "NONE"
    | some (k, t) => pure ("OK " ++ toHex (t.slice 0 k))
  | "qp", [s] => do pure (toHex (cstr (← L0.quotedPrintableDecode (L0.Buf.ofBytes s) 0)))
  | "qph", [s] => do
    let b := L0.Buf.ofBytes s
    pure (toHex (← L0.qpLoop true b 0 (← L0.strlen b 0) 0 []))
  | "r2047raw", [s] => do pure (toHex (← L0.rfc2047Decode (L0.Buf.ofBytes s) 0))
  | "r2047", [s] => do pure (toHex (cstr (← L0.rfc2047Decode (L0.Buf.ofBytes s) 0)))
  | "unfold", [v] => do pure (toHex (← l0Bytes (← L0.unfoldHeader (L0.Buf.ofBytes v) 0) 0))
  | "hparse", [m] => do pure (dumpTable (← l0Att (← l0Parse m)))
  | "hget", [name, m] => do
    match ← L0.getHeader (← l0Parse m) name with
    | none => pure "NONE"
    | some ds => pure (dumpValues (some (← ds.mapM fun d => l0Bytes d 0)))
  | "nparts", [m] => do
    match ← L0.getAttachments (← l0Parse m) with
    | none => pure "NONE"
    | some ps => pure (s!"P{ps.size}" ++ String.join ((← ps.toList.mapM l0Att).map fun p => " " ++ dumpTable p))
  | "pslice", [path, siz, beg, e] => do
    match ← L0.pathslice (L0.Buf.ofBytes path) (L0.Buf.malloc (asNat siz)) (asNat siz) (asInt beg) (asInt e) with
    | none => pure "NONE"
    | some d => pure ("OK " ++ toHex (← l0Bytes d 0))
  | "isbackref", [s] => do
    match ← L0.isBackref (L0.Buf.ofBytes s) 0 with
    | .inl (n, mi, si) => pure s!"BR {n} {mi} {si}"
    | .inr false => pure "NO"
    | .inr true => pure "INVALID"
  | "ismacro", [s] => do
    match ← L0.isMacro (L0.Buf.ofBytes s) 0 with
    | .inl (n, name) => pure s!"MACRO {n} {toHex (← l0Bytes name 0)}"
    | .inr false => pure "NO"
    | .inr true => pure "INVALID"
  | _, _ => pure "BADOP"

/-! ### libks buffer: `lbuf <start> (<op> <piece>)* [<final>]` (harness/unit/h_buffer.c) -/

/-- The operations of an `lbuf` request on the index-level buffer model; `rcs` in reverse order. -/
def lbufOps (bf : L0.LBuf) (rcs : List Nat) : List Bytes → L0.M (L0.LBuf × List Nat × Option Bytes)
  | op :: piece :: rest =>
    match op with
    | [115] => do let (rc, bf') ← bf.puts piece; lbufOps bf' (rc :: rcs) rest                       -- s
    | [99] => do let (rc, bf') ← bf.putc (piece.headD 0); lbufOps bf' (rc :: rcs) rest             -- c
    | [102] => do let (rc, bf') ← bf.vprintf (cstr piece); lbufOps bf' (rc :: rcs) rest            -- f: "%s" stops at a NUL
    | [114] => lbufOps bf.reset (0 :: rcs) rest                                                   -- r
    | [112] => lbufOps (bf.pop (asNat piece)).2 (0 :: rcs) rest                                   -- p
    | _ => pure (bf, rcs, none)
  | [fin] => pure (bf, rcs, some fin)
  | [] => pure (bf, rcs, none)

/-- The C string at `&b[i]`, read byte by byte through the checked accessor (linear in its length). -/
def l0CStr (b : L0.Buf) (i : Nat) (acc : Bytes) : L0.M Bytes :=
  match h : b.get? i with
  | .error e => .error e
  | .ok c => if c == 0 then .ok acc.reverse else l0CStr b (i + 1) (c :: acc)
termination_by b.size - i
decreasing_by have := L0.Buf.lt_of_get? h; omega

def lbufModel (args : List Bytes) : L0.M String := do
  let (bf0, rest) ← match args with
    | [82] :: data :: rest => do pure (← L0.LBuf.readFd data [], rest)
    | n :: rest => pure (L0.LBuf.alloc (asNat n), rest)
    | [] => pure (L0.LBuf.empty, [])
  let (bf, rcs, fin) ← lbufOps bf0 [] rest
  let rcStr := if rcs.isEmpty then "-" else String.join (rcs.reverse.map toString)
  let head := s!"R {rcStr} {bf.getLen} {bf.getSize} {toHex bf.contents}"
  match fin with
  | some [84] => do                                              -- T: buffer_str
    let (b, _) ← bf.str
    pure (head ++ " " ++ toHex (← l0CStr b 0 []))
  | some [76] => do                                              -- L: buffer_putc('\0'), buffer_release
    let (_, bf') ← bf.putc 0
    pure (head ++ " " ++ toHex (← l0CStr bf'.release.1 0 []))
  | _ => pure head

/-- What the list-level models assume of the buffer: every operation succeeds, the bytes in use are the pieces in
order (`reset`/`pop` taken into account), the capacity is whatever; the string handed out is those bytes up to
their first NUL.  Answers `R <rcs> <len> * <hex> [<hex>]`. -/
def lbufSpec (args : List Bytes) : String :=
  let (start, rest) : Bytes × List Bytes := match args with
    | [82] :: data :: rest => (data, rest)
    | _ :: rest => ([], rest)
    | [] => ([], [])
  let rec go (acc : Bytes) (n : Nat) : List Bytes → Bytes × Nat × Option Bytes
    | op :: piece :: rest =>
      match op with
      | [115] => go (acc ++ piece) (n + 1) rest
      | [99] => go (acc ++ [piece.headD 0]) (n + 1) rest
      | [102] => go (acc ++ cstr piece) (n + 1) rest
      | [114] => go [] (n + 1) rest
      | [112] => go (acc.take (acc.length - asNat piece)) (n + 1) rest
      | _ => (acc, n, none)
    | [fin] => (acc, n, some fin)
    | [] => (acc, n, none)
  let (acc, n, fin) := go start 0 rest
  let rcStr := if n == 0 then "-" else String.join ((List.replicate n 0).map toString)
  let head := s!"R {rcStr} {acc.length} * {toHex acc}"
  match fin with
  | some _ => head ++ " " ++ toHex (cstr acc)
  | none => head

def faultStr : L0.Fault → String
  | .oob i => s!"FAULT oob {i}"
  | .uaf => "FAULT uaf"
  | .nullDeref => "FAULT null"

def l0Answer (fn : String) (args : List Bytes) : String :=
  match handleL0 fn args with
  | .ok "BADOP" => "BADOP"
  | .ok s => "OK " ++ s
  | .error (.oob i) => s!"FAULT oob {i}"
  | .error .uaf => "FAULT uaf"
  | .error .nullDeref => "FAULT null"

def handle (side op : String) (args : List String) : String :=
  match side, op, args.mapM fromHex with
  | _, _, none => "BADHEX"
  | "l0", fn, some as => l0Answer fn as
  | "M", "lbuf", some as => (match lbufModel as with | .ok r => r | .error e => faultStr e)
  | "M", "dconf", some [home] =>
    -- mdsort.c defaultconf(home): the path handed to config_parse, or exit status 1
    (match Model.defaultconf Model.PATH_MAX home with | some p => "OK " ++ toHex p | none => "EXIT 1")
  | "M", "renv", some [home, tmpdir] =>
    -- mdsort.c readenv with HOME / TMPDIR as given (~ = unset; the password entry is not consulted by the harness requests)
    let opt (b : Bytes) : Option Bytes := if b == [126] then none else some b
    (match Model.readenv { home := opt home, pwdir := none, tmpdir := opt tmpdir, tz := none, pathTmp := "/tmp/".toUTF8.toList } with
     | .ok (h, t, _) => s!"OK {toHex h} {toHex t}"
     | .error _ => "EXIT 1")
  | "M", "renvz", some [home, tmpdir, tz] =>
    -- readenv with TZ as well: the three copies, the state of ev_tz; what readenv does not assign is never touched by the model
    let opt (b : Bytes) : Option Bytes := if b == [126] then none else some b
    (match Model.readenv { home := opt home, pwdir := none, tmpdir := opt tmpdir, tz := opt tz, pathTmp := "/tmp/".toUTF8.toList } with
     | .ok (h, t, z) => s!"OK {toHex h} {toHex t} {Model.tzState z} {toHex (z.getD [])} INTACT"
     | .error _ => "EXIT 1")
  | "S", "lbuf", some as => lbufSpec as
  | "M", "isbackref", some [s] =>
    match Model.isBackref s with
    | .inl (n, br) => s!"BR {n} {br.mi} {br.si}"
    | .inr false => "NO"
    | .inr true => "INVALID"
  | "M", "ismacro", some [s] =>
    match Model.isMacro s with
    | .inl (n, name) => s!"MACRO {n} {toHex name}"
    | .inr false => "NO"
    | .inr true => "INVALID"
  | "S", "mexpand", some (act :: s :: kvs) =>
    -- mexpand <0|1 = action context> <string> [<macro name> <value>]*: the documented parse-time expansion
    let tbl := Driver.Conf.pairs kvs
    optHex (Spec.mexpand (act == [49]) (fun n => (tbl.find? (·.1 == n)).map (·.2)) s)
  | "M", "nparts", some [m] =>
    match Model.getAttachments (Model.parseMessage m) with
    | none => "NONE"
    | some ps => s!"P{ps.length}" ++ String.join (ps.map fun p => " " ++ dumpTable p)
  | "M", "b64", some [s] => optHex (Model.base64Decode s)
  | "S", "b64", some [s] => optHex ((Spec.b64 s).map cstr)
  | "M", "b64raw", some [s] => optHex (Model.base64DecodeRaw s)
  | "S", "b64raw", some [s] => optHex (Spec.b64 s)
  | "M", "qp", some [s] => toHex (Model.qpDecode s)
  | "S", "qp", some [s] => toHex (cstr (Spec.qp false s))
  | "M", "qph", some [s] => toHex (Model.qpLoop true s [])
  | "S", "qph", some [s] => toHex (Spec.qp true s)
  | "M", "r2047raw", some [s] => toHex (Model.rfc2047DecodeRaw s)
  | "S", "r2047raw", some [s] => toHex (Spec.rfc2047 s)
  | "M", "b64n", some [s, n] => optHex (Model.b64pton s n.length)
  | "M", "r2047", some [s] => toHex (Model.rfc2047Decode s)
  | "S", "r2047", some [s] => toHex (cstr (Spec.rfc2047 s))
  -- C16, RFC readings (Spec/DecodeRFC.lean): the `S` side answers only on the domain of C16_qp_vs_rfc /
  -- C16_rfc2047_vs_rfc (NOTWF elsewhere); the `...all` / `r2047pw` ops evaluate the RFC readings on any input
  | "M", "qprfc", some [s] => toHex (Model.qpDecode s)
  | "S", "qprfc", some [s] => if Spec.QpLFOnly s then toHex (cstr (Spec.qpRFC false s)) else "NOTWF"
  | "M", "qphrfc", some [s] => toHex (Model.qpLoop true s [])
  | "S", "qphrfc", some [s] => if Spec.QpLFOnly s then toHex (Spec.qpRFC true s) else "NOTWF"
  | "M", "r2047rfc", some [s] => toHex (Model.rfc2047Decode s)
  | "S", "r2047rfc", some [s] => if Spec.WellFormed2047 s then toHex (cstr (Spec.rfc2047RFC s)) else "NOTWF"
  | "S", "qprfcall", some [s] => toHex (cstr (Spec.qpRFC false s))
  | "S", "qphrfcall", some [s] => toHex (Spec.qpRFC true s)
  | "S", "r2047rfcall", some [s] => toHex (cstr (Spec.rfc2047RFC s))
  | "S", "r2047pw", some [s] => toHex (cstr (Spec.rfc2047PerWord s))
  | "S", "eval", some as => handleSpecEval as
  | "S", "hcond", some as => handleSpecHcond as
  | "S", "evalatt", some as => handleSpecEvalAtt as
  | sd, "interp", some as => handleInterp sd as
  | sd, o, some as =>
    if ["tzoff", "tparse", "tparsec", "strp", "timeparse", "rfcdate", "flagsp", "flagss", "msgflags", "pslice", "pjoin", "dest"].contains o then
      match handleSmall sd o as with
      | some r => r
      | none => "NOTWF"
    else if sd == "S" then
      match handleSpec o as with
      | some r => r
      | none => "BADOP"
    else
      match handleMsg sd o as with
      | some r => r
      | none => "BADOP"

partial def loop (h : IO.FS.Stream) (out : IO.FS.Stream) : IO Unit := do
  let line ← h.getLine
  if line.isEmpty then return ()
  let ws := (line.trimAscii.toString.splitOn " ").filter (· ≠ "")
  match ws with
  | side :: op :: args => out.putStrLn (handle side op args)
  | _ => out.putStrLn "BADREQ"
  loop h out

def main : IO Unit := do
  let stdin ← IO.getStdin
  let stdout ← IO.getStdout
  loop stdin stdout
  stdout.flush
