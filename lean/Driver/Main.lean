import Mdsort.Bytes
import Mdsort.Model.Decode
import Mdsort.Spec.Decode

/-!
Line-protocol driver: one request per line `<side> <op> <hexarg>*`, one response
line.  `side` is `M` (model, the transcription of the C code) or `S`
(specification).  Byte strings are hex; the empty string is `-`.
-/

open Mdsort

@[extern "mdsort_regex"]
opaque regexFFI (pat : @& ByteArray) (subj : @& ByteArray) (icase : UInt32) : Array UInt32

def hexDigit (n : UInt8) : Char :=
  if n < 10 then Char.ofNat (48 + n.toNat) else Char.ofNat (87 + n.toNat)

def toHex (b : Bytes) : String :=
  if b.isEmpty then "-" else
  String.ofList (b.flatMap fun (c : UInt8) => [hexDigit (c >>> 4), hexDigit (c &&& 15)])

def hexVal (c : Char) : Option UInt8 :=
  if '0' ≤ c ∧ c ≤ '9' then some (c.toNat - 48).toUInt8
  else if 'a' ≤ c ∧ c ≤ 'f' then some (c.toNat - 87).toUInt8
  else none

def fromHexList : List Char → Option Bytes
  | [] => some []
  | [_] => none
  | a :: b :: r => do
    let h ← hexVal a
    let l ← hexVal b
    let t ← fromHexList r
    pure ((h <<< 4 ||| l) :: t)

def fromHex (s : String) : Option Bytes :=
  if s == "-" then some [] else fromHexList s.toList

def optHex : Option Bytes → String
  | none => "NONE"
  | some b => "OK " ++ toHex b

def handle (side op : String) (args : List String) : String :=
  match side, op, args.mapM fromHex with
  | _, _, none => "BADHEX"
  | "M", "b64", some [s] => optHex (Model.base64Decode s)
  | "S", "b64", some [s] => optHex ((Spec.b64 s).map cstr)
  | "M", "b64raw", some [s] => optHex (Model.base64DecodeRaw s)
  | "S", "b64raw", some [s] => optHex (Spec.b64 s)
  | "M", "qp", some [s] => toHex (Model.qpDecode s)
  | "S", "qp", some [s] => toHex (cstr (Spec.qp false s))
  | "M", "qph", some [s] => toHex (Model.qpLoop true s [])
  | "S", "qph", some [s] => toHex (Spec.qp true s)
  | "M", "r2047raw", some [s] => toHex (Model.rfc2047DecodeRaw s)
  | "S", "r2047raw", some [s] => toHex (Spec.rfc2047 s)
  | "M", "b64n", some [s, n] => optHex (Model.b64pton s n.length)
  | "M", "r2047", some [s] => toHex (Model.rfc2047Decode s)
  | "S", "r2047", some [s] => toHex (cstr (Spec.rfc2047 s))
  | _, _, _ => "BADOP"

partial def loop (h : IO.FS.Stream) (out : IO.FS.Stream) : IO Unit := do
  let line ← h.getLine
  if line.isEmpty then return ()
  let ws := (line.trimAscii.toString.splitOn " ").filter (· ≠ "")
  match ws with
  | side :: op :: args => out.putStrLn (handle side op args)
  | _ => out.putStrLn "BADREQ"
  loop h out

def main : IO Unit := do
  let stdin ← IO.getStdin
  let stdout ← IO.getStdout
  loop stdin stdout
  stdout.flush
