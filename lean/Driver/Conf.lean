import Mdsort.Model.Conf
import Mdsort.Spec.Conf

/-! Driver glue for `M conf`: the parser model's result in the format `dump_expr`
(harness/unit/dump_expr.h) prints.  Glue only. -/

open Mdsort Mdsort.Model

namespace Driver.Conf

def hexDigit (n : UInt8) : Char :=
  if n < 10 then Char.ofNat (48 + n.toNat) else Char.ofNat (87 + n.toNat)

def hex (b : Bytes) : String :=
  if b.isEmpty then "-" else
  String.ofList (b.flatMap fun (c : UInt8) => [hexDigit (c >>> 4), hexDigit (c &&& 15)])

def strings (l : List Bytes) : String := s!" {l.length}" ++ String.join (l.map fun s => " " ++ hex s)

def pat (p : Pat) : String := " ? " ++ (if p.lcase then "l" else "") ++ (if p.ucase then "u" else "") ++ "."

def b01 (b : Bool) : String := if b then "1" else "0"

/-- A leaf; inner `Expr` nodes never occur below `CTree.leaf`. -/
def leaf : Expr → String
  | .all l => s!" all {l}"
  | .body l p => s!" body {l}" ++ pat p
  | .date l f c a =>
    let fc := match f with | .header => "h" | .access => "a" | .modified => "m" | .created => "c"
    let cc := match c with | .lt => "<" | .gt => ">"
    s!" date {l} {fc} {cc} {a}"
  | .header l ns p => s!" header {l}" ++ strings ns ++ pat p
  | .new l => s!" new {l}"
  | .old l => s!" old {l}"
  | .stat l p => s!" stat {l} " ++ hex p
  | .command l a => s!" command {l}" ++ strings a
  | .move l p => s!" move {l} " ++ hex p
  | .flag l p => s!" flag {l} " ++ hex p
  | .flags l p => s!" flags {l} " ++ hex p
  | .discard l => s!" discard {l}"
  | .brk l => s!" break {l}"
  | .label l a => s!" label {l}" ++ strings a
  | .pass l => s!" pass {l}"
  | .reject l => s!" reject {l}"
  | .exec l si bo a => s!" exec {l} {b01 si} {b01 bo}" ++ strings a
  | .addHeader l k v => s!" addheader {l} " ++ hex k ++ " " ++ hex v
  | _ => " INNER"

def tree : CTree → String
  | .leaf e => leaf e
  | .block l b => s!" block {l}" ++ tree b
  | .emptyBlock l => s!" block {l} NULL"
  | .and l a b => s!" and {l}" ++ tree a ++ tree b
  | .or l a b => s!" or {l}" ++ tree a ++ tree b
  | .neg l e => s!" neg {l}" ++ tree e
  | .mtch l a b => s!" match {l}" ++ tree a ++ tree b
  | .attachment l e => s!" attachment {l}" ++ tree e
  | .attBlock l e => s!" attblock {l}" ++ tree e

def pairs : List Bytes → List (Bytes × Bytes)
  | k :: v :: r => (k, v) :: pairs r
  | _ => []

/-- conf <input> <home> [<macro name> <macro value>]* -/
def handle (rxOk : Pat → Bool) (args : List Bytes) : String :=
  match args with
  | input :: home :: defs =>
    let out := parseConfigFull home (pairs defs) rxOk input
    match out.res with
    | .ok blocks =>
      "OK" ++ String.join (blocks.map fun b => " B" ++ strings b.paths ++ tree b.tree ++ " ;") ++ s!" L {out.nlex}"
    | .error l => s!"ERR {l}"
    | .invalidDefs => "BADDEFS"
    | .fuel => "FUEL"
  | _ => "BADOP"

/-- confprint <input> <home> [<macro name> <macro value>]*: when the model accepts the input and the trees
it returns are in `Spec.ConfOK`, their written form `Spec.printBlocks` (to be fed back to both parsers). -/
def handlePrint (rxOk : Pat → Bool) (args : List Bytes) : String :=
  match args with
  | input :: home :: defs =>
    match (parseConfigFull home (pairs defs) rxOk input).res with
    | .ok blocks => if Spec.ConfOK rxOk blocks then "P " ++ hex (Spec.printBlocks blocks) else "NOTOK"
    | _ => "NOPARSE"
  | _ => "BADOP"

end Driver.Conf
