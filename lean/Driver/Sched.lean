import Mdsort.Model.Parties
import Driver.Wire

/-!
Several parties along ONE given schedule (`M parties`, used by the C17 check).  Glue only.

The world evolves by `Model.stepParty` and nothing else: the next call of the scheduled party is answered by
`Model.predict` on the shared file system and applied with `Model.applyOk`.

What this file adds is the CONTENT ORACLE of an mdsort party.  `Model.mainP` receives the contents of the files it will
parse as a parameter (`Files`): a trace shows byte counts, not bytes.  With several parties the content a party finds
under a name depends on what the others did before, so the parameter cannot be fixed up front.  The interpreter therefore
keeps, per party, the function `mk : Files → Prog Bool` and the `Files` the party has seen so far, and re-instantiates
the party's program (`mk view`, advanced along the party's own trace, every call of which must be reproduced) whenever

* `readdir` returns a name the view has no content for (the content it has at that moment is entered, `[]` if the name
  is already gone: the party then issues its `openat`, which fails or not as the file system says), or
* a `read` reports end of file and the bytes the party's reads returned differ from the view's content for that name.

The result of every call is still the model's own prediction; a re-instantiated program that does not reproduce the
party's earlier calls is reported (`BAD replay`), never repaired.
-/

open Mdsort Mdsort.Model

namespace Driver.Sched

/-- Per-party bookkeeping of the content oracle. -/
structure PX where
  inst : Option (Files → Prog Bool)         -- `none`: a client (fixed program, no content)
  view : Files
  opened : List (Handle × Bytes × Bytes)   -- handle of an `openRd` -> (directory, name)
  acc : List (Handle × Bytes)              -- bytes returned by the reads on that handle so far
  ofid : List (Bytes × Bytes × Nat) := []  -- (directory, name) -> the file the party's LAST `openRd` of that name gave it
  stale : Nat := 0                         -- successful `unlinkat` of a name that no longer denotes the file the party opened under it

/-- Advance a program along a recorded trace; `none` if it issues another call. -/
def fastForward : Prog Bool → List (Call × Res) → Option (Prog Bool)
  | p, [] => some p
  | .call c k, (c', r) :: rest => if c.same c' then fastForward (k r) rest else none
  | .ret _, _ :: _ => none

def isDot (n : Bytes) : Bool := n == [46] || n == [46, 46]

def curContent (w : World) (q n : Bytes) : Bytes :=
  match w.lookup q n with
  | some fid => ((w.file fid).map (·.data)).getD []
  | none => []

/-- What the content oracle learns from call `c` (answered `r` in world `w`, the party's view before the call):
the new bookkeeping and whether the program has to be re-instantiated. -/
def learn (x : PX) (w : World) (c : Call) (r : Res) : PX × Bool :=
  match c, r with
  | .openRd d n, .ok h =>
    match w.dirPath d with
    | some q =>
      let x1 := { x with opened := (h, q, n) :: x.opened.filter (·.1 != h), acc := (h, []) :: x.acc.filter (·.1 != h) }
      match w.lookup q n with
      | some fid => ({ x1 with ofid := (q, n, fid) :: x1.ofid.filter (fun e => !(e.1 == q && e.2.1 == n)) }, false)
      | none => (x1, false)
    | none => (x, false)
  | .unlinkat d n, .ok _ =>
    -- reading of the history only: the name is unlinked successfully, but it is bound to another file than the one this party
    -- opened under it (the name was given away and generated again in between)
    match w.dirPath d with
    | some q =>
      match x.ofid.find? (fun e => e.1 == q && e.2.1 == n), w.lookup q n with
      | some (_, _, fid), some cur => (if fid != cur then { x with stale := x.stale + 1 } else x, false)
      | _, _ => (x, false)
    | none => (x, false)
  | .read fd, .ok cnt =>
    match x.opened.find? (·.1 == fd), w.obj fd with
    | some (_, q, n), .file fid off _ =>
      let got := (((w.file fid).map (·.data)).getD []).drop off |>.take cnt
      let sofar := ((x.acc.find? (·.1 == fd)).map (·.2)).getD [] ++ got
      let x1 := { x with acc := (fd, sofar) :: x.acc.filter (·.1 != fd) }
      if cnt == 0 then
        if x1.view.get q n == some sofar then (x1, false) else ({ x1 with view := x1.view.put q n sofar }, true)
      else (x1, false)
    | _, _ => (x, false)
  | .readdir d, .name n =>
    if isDot n then (x, false)
    else
      match w.dirPath d with
      | some q =>
        if (x.view.get q n).isSome then (x, false) else ({ x with view := x.view.put q n (curContent w q n) }, true)
      | none => (x, false)
  | _, _ => (x, false)

/-- One step of party `i`. -/
def step (s : Shared) (xs : List PX) (i : Nat) : Except String (Shared × List PX) :=
  match s.parties[i]?, xs[i]? with
  | some p, some x =>
    match p.prog with
    | .ret _ => .ok (s, xs)
    | .call c _ =>
      let w := s.view p
      let r := predict w c
      let s1 := stepParty s i
      match x.inst with
      | none => .ok (s1, xs)
      | some mk =>
        let (x1, refresh) := learn x w c r
        let xs1 := xs.set i x1
        if !refresh then .ok (s1, xs1)
        else
          match s1.parties[i]? with
          | none => .error "BAD party"
          | some p1 =>
            match fastForward (mk x1.view) p1.trace with
            | some prog' => .ok ({ s1 with parties := s1.parties.set i { p1 with prog := prog' } }, xs1)
            | none => .error s!"BAD replay party={i} after={p1.trace.length}"
  | _, _ => .error s!"BAD party index {i}"

def finished (s : Shared) (i : Nat) : Bool := (s.parties[i]?.map (·.finished)).getD true

/-- `n` steps of party `i` (`none`: until it has finished; fuel bounds the glue, not the model). -/
def steps (s : Shared) (xs : List PX) (i : Nat) (n : Option Nat) : Nat → Except String (Shared × List PX)
  | 0 => .ok (s, xs)
  | fuel + 1 =>
    if finished s i || n == some 0 then .ok (s, xs)
    else
      match step s xs i with
      | .error e => .error e
      | .ok (s1, xs1) => steps s1 xs1 i (n.map (· - 1)) fuel

def run (s : Shared) (xs : List PX) : List (Nat × Option Nat) → Except String (Shared × List PX)
  | [] => .ok (s, xs)
  | (i, n) :: rest =>
    match steps s xs i n 20000 with
    | .error e => .error e
    | .ok (s1, xs1) => run s1 xs1 rest

def traceStr (tr : List (Call × Res)) : String :=
  String.intercalate ";" (tr.map fun (c, r) => callStr c ++ " = " ++ resStr r)

def statusStr (p : PState) : String :=
  match p.result with
  | some true => "1"
  | some false => "0"
  | none => "-"

end Driver.Sched
