/*
 * exechelper - command for mdsort exec actions which records what it was
 * given: arguments, stdin bytes, inherited descriptors, stdin target.
 *
 * Build:  cc -O1 -g -o exechelper exechelper.c
 *
 * Appends exactly one line to $EXECHELPER_OUT:
 *
 *   argv=<hex>,<hex>,... stdin=<hex> fds=<n>,<n>,... stdin_target=<link>
 *
 * argv excludes argv[0]; an empty argument and an empty stdin are written as "-",
 * an empty argument list as "none". fds is the numerically sorted list of
 * descriptors found in /proc/self/fd, excluding the one used to read that
 * directory, taken before the helper opens anything else. stdin_target is
 * readlink(/proc/self/fd/0), or "-" if that fails. If reading stdin fails,
 * " stdin_errno=<n>" is appended.
 *
 * Exit: kill(self, $EXECHELPER_SIGNAL) if set, else exit($EXECHELPER_EXIT),
 * default 0. Exit status 98 means the helper itself could not work
 * (EXECHELPER_OUT unset or not writable).
 *
 * Outcome by name: when the helper is run through a link (or copy) whose
 * name ends in "exit-<N>" or "signal-<N>" (basename of argv[0]), that is the
 * outcome whatever the environment says, so that one configuration can name
 * several commands with different outcomes. A signal is raised with its
 * default action and without a core file.
 */
#define _GNU_SOURCE
#include <dirent.h>
#include <errno.h>
#include <fcntl.h>
#include <limits.h>
#include <signal.h>
#include <stdio.h>
#include <stdlib.h>
#include <string.h>
#include <unistd.h>
#include <sys/resource.h>

struct buf {
	char	*p;
	size_t	 len, cap;
};

static void
buf_grow(struct buf *b, size_t need)
{
	if (b->len + need <= b->cap)
		return;
	while (b->len + need > b->cap)
		b->cap = b->cap ? b->cap * 2 : 4096;
	b->p = realloc(b->p, b->cap);
	if (b->p == NULL)
		_exit(98);
}

static void
buf_add(struct buf *b, const void *data, size_t len)
{
	buf_grow(b, len);
	memcpy(b->p + b->len, data, len);
	b->len += len;
}

static void
buf_str(struct buf *b, const char *s)
{
	buf_add(b, s, strlen(s));
}

static void
buf_hex(struct buf *b, const void *data, size_t len)
{
	static const char hex[] = "0123456789abcdef";
	const unsigned char *p = data;
	size_t i;

	if (len == 0) {
		buf_str(b, "-");
		return;
	}
	buf_grow(b, 2 * len);
	for (i = 0; i < len; i++) {
		b->p[b->len++] = hex[p[i] >> 4];
		b->p[b->len++] = hex[p[i] & 0xf];
	}
}

static int
intcmp(const void *a, const void *b)
{
	int x = *(const int *)a, y = *(const int *)b;

	return (x > y) - (x < y);
}

/* Terminate by the default action of the signal, without a core file. */
static void
die_of(int sig)
{
	struct rlimit rl = { 0, 0 };

	setrlimit(RLIMIT_CORE, &rl);
	signal(sig, SIG_DFL);
	kill(getpid(), sig);
	/* Only reached if the signal does not terminate. */
	_exit(128 + sig);
}

int
main(int argc, char *argv[])
{
	struct buf line = { 0 }, in = { 0 };
	char target[PATH_MAX];
	char num[32];
	const char *out, *p;
	int *fds = NULL;
	size_t nfds = 0, capfds = 0, i;
	ssize_t n;
	DIR *dir;
	int stdin_errno = 0;
	int fd;

	/* 1. Inherited descriptors, before anything else is opened. */
	dir = opendir("/proc/self/fd");
	if (dir != NULL) {
		struct dirent *de;
		int self = dirfd(dir);

		while ((de = readdir(dir)) != NULL) {
			char *end;
			long v;

			v = strtol(de->d_name, &end, 10);
			if (end == de->d_name || *end != '\0' || v == self)
				continue;
			if (nfds == capfds) {
				capfds = capfds ? capfds * 2 : 16;
				fds = realloc(fds, capfds * sizeof(*fds));
				if (fds == NULL)
					_exit(98);
			}
			fds[nfds++] = (int)v;
		}
		closedir(dir);
	}
	if (nfds > 1)
		qsort(fds, nfds, sizeof(*fds), intcmp);

	/* 2. Where stdin points to. */
	n = readlink("/proc/self/fd/0", target, sizeof(target) - 1);
	if (n < 0)
		strcpy(target, "-");
	else
		target[n] = '\0';

	/* 3. All of stdin. */
	for (;;) {
		char tmp[8192];

		n = read(0, tmp, sizeof(tmp));
		if (n == -1) {
			if (errno == EINTR)
				continue;
			stdin_errno = errno;
			break;
		}
		if (n == 0)
			break;
		buf_add(&in, tmp, (size_t)n);
	}

	/* 4. One line, written with a single write(2) in append mode. */
	buf_str(&line, "argv=");
	if (argc <= 1)
		buf_str(&line, "none");	/* distinguishes an empty vector from one empty argument */
	for (i = 1; i < (size_t)argc; i++) {
		if (i > 1)
			buf_str(&line, ",");
		buf_hex(&line, argv[i], strlen(argv[i]));
	}
	buf_str(&line, " stdin=");
	buf_hex(&line, in.p, in.len);
	buf_str(&line, " fds=");
	if (nfds == 0)
		buf_str(&line, "-");
	for (i = 0; i < nfds; i++) {
		snprintf(num, sizeof(num), "%s%d", i ? "," : "", fds[i]);
		buf_str(&line, num);
	}
	buf_str(&line, " stdin_target=");
	for (p = target; *p; p++) {
		/* keep the line one line with space separated fields */
		if ((unsigned char)*p <= 0x20 || *p == '\\' ||
		    (unsigned char)*p >= 0x7f) {
			snprintf(num, sizeof(num), "\\x%02x",
			    (unsigned char)*p);
			buf_str(&line, num);
		} else {
			buf_add(&line, p, 1);
		}
	}
	if (stdin_errno) {
		snprintf(num, sizeof(num), " stdin_errno=%d", stdin_errno);
		buf_str(&line, num);
	}
	buf_str(&line, "\n");

	out = getenv("EXECHELPER_OUT");
	if (out == NULL || *out == '\0')
		return 98;
	fd = open(out, O_WRONLY | O_CREAT | O_APPEND | O_CLOEXEC, 0644);
	if (fd == -1)
		return 98;
	if (write(fd, line.p, line.len) != (ssize_t)line.len)
		return 98;
	close(fd);

	{
		/* outcome by name */
		const char *base = strrchr(argv[0], '/');
		const char *q;

		base = base != NULL ? base + 1 : argv[0];
		if ((q = strstr(base, "exit-")) != NULL && q[5] >= '0' && q[5] <= '9')
			return atoi(q + 5);
		if ((q = strstr(base, "signal-")) != NULL && q[7] >= '0' && q[7] <= '9')
			die_of(atoi(q + 7));
	}
	p = getenv("EXECHELPER_SIGNAL");
	if (p != NULL && *p != '\0')
		die_of(atoi(p));
	p = getenv("EXECHELPER_EXIT");
	return p != NULL && *p != '\0' ? atoi(p) : 0;
}
